(* C08: lemmas about ModuleModel.v.
   Part A (every carrier): the reference counts that the bias operations leave on the variables
   are the number of references held by the active biases (invariant VInv); the bias side of the
   schedule does not depend on the variables.
   Part B (real numbers): closed form of one calc(): energy = sum of the energies of the counted
   biases, force on a coordinate = sum over variables of (sum over active applying biases of
   factor * force) * gradient.  Superposition, inactivity and impulse are corollaries. *)
From Coq Require Import ZArith List Bool Lia Arith Permutation.
From CV Require Import Base.Num C08.ModuleModel.
Import ListNotations.
Open Scope Z_scope.

Section Deps.
  Context {T : Type} (O : NumOps T).
  Context {BS : Type}.
  Notation var := (@var T).
  Notation bias := (@bias T BS).

  (* ---- lists --------------------------------------------------------------------------------- *)
  Lemma upd_nth_length {A} (l : list A) k u : length (upd_nth l k u) = length l.
  Proof. revert k; induction l as [|x r IH]; intros [|k]; cbn [upd_nth length]; auto. Qed.

  Lemma upd_nth_nth {A} (l : list A) k u i :
    nth_error (upd_nth l k u) i = if Nat.eqb i k then option_map u (nth_error l i) else nth_error l i.
  Proof.
    revert k i; induction l as [|x r IH]; intros k i.
    - destruct k, i; cbn; try reflexivity; destruct (Nat.eqb _ _); reflexivity.
    - destruct k as [|k], i as [|i]; cbn [upd_nth nth_error Nat.eqb option_map]; try reflexivity.
      apply IH.
  Qed.

  Definition cnt (ids : list nat) (i : nat) : nat := count_occ Nat.eq_dec ids i.

  Lemma cnt_cons j r i : cnt (j :: r) i = if Nat.eqb i j then S (cnt r i) else cnt r i.
  Proof.
    unfold cnt; cbn [count_occ]. destruct (Nat.eq_dec j i) as [E|E].
    - subst. rewrite Nat.eqb_refl. reflexivity.
    - destruct (Nat.eqb i j) eqn:E2; [apply Nat.eqb_eq in E2; congruence | reflexivity].
  Qed.

  Fixpoint iter_op (n : nat) (op : var -> var) (v : var) : var :=
    match n with 0%nat => v | S k => iter_op k op (op v) end.
  Fixpoint iter_e (n : nat) (op : var -> var * bool) (v : var) : var * bool :=
    match n with
    | 0%nat => (v, false)
    | S k => let '(v1, e1) := op v in let '(v2, e2) := iter_e k op v1 in (v2, e1 || e2)
    end.

  Lemma on_children_length (op : var -> var) ids vs : length (on_children op ids vs) = length vs.
  Proof. revert vs; induction ids as [|j r IH]; intros vs; cbn [on_children]; auto. rewrite IH, upd_nth_length; auto. Qed.

  Lemma on_children_nth (op : var -> var) ids vs i :
    nth_error (on_children op ids vs) i = option_map (iter_op (cnt ids i) op) (nth_error vs i).
  Proof.
    revert vs; induction ids as [|j r IH]; intros vs.
    - cbn. destruct (nth_error vs i); reflexivity.
    - cbn [on_children]. rewrite IH, upd_nth_nth, cnt_cons.
      destruct (Nat.eqb i j); [|reflexivity].
      destruct (nth_error vs i); reflexivity.
  Qed.

  Lemma on_children_e_length (op : var -> var * bool) ids vs : length (fst (on_children_e op ids vs)) = length vs.
  Proof.
    revert vs; induction ids as [|j r IH]; intros vs; cbn [on_children_e fst]; auto.
    specialize (IH (upd_nth vs j (fun v => fst (op v)))).
    destruct (on_children_e op r _) as [vs' e']. cbn [fst] in *. rewrite IH, upd_nth_length; auto.
  Qed.

  Lemma on_children_e_nth (op : var -> var * bool) ids vs i :
    nth_error (fst (on_children_e op ids vs)) i =
    option_map (fun v => fst (iter_e (cnt ids i) op v)) (nth_error vs i).
  Proof.
    revert vs; induction ids as [|j r IH]; intros vs.
    - cbn. destruct (nth_error vs i); reflexivity.
    - cbn [on_children_e]. specialize (IH (upd_nth vs j (fun v => fst (op v)))).
      destruct (on_children_e op r _) as [vs' e']. cbn [fst] in *.
      rewrite IH, upd_nth_nth, cnt_cons.
      destruct (Nat.eqb i j); [|reflexivity].
      destruct (nth_error vs i) as [v|]; [|reflexivity].
      cbn [option_map iter_e]. destruct (op v) as [v1 e1]. cbn [fst].
      destruct (iter_e (cnt r i) op v1); reflexivity.
  Qed.

  Lemma on_children_e_noerr (op : var -> var * bool) ids vs :
    (forall i v, nth_error vs i = Some v -> snd (iter_e (cnt ids i) op v) = false) ->
    snd (on_children_e op ids vs) = false.
  Proof.
    revert vs; induction ids as [|j r IH]; intros vs H; [reflexivity|].
    cbn [on_children_e].
    assert (H1 : match nth_error vs j with Some v => snd (op v) | None => false end = false).
    { destruct (nth_error vs j) as [v|] eqn:E; [|reflexivity].
      specialize (H j v E). rewrite cnt_cons, Nat.eqb_refl in H. cbn [iter_e] in H.
      destruct (op v) as [v1 e1]. destruct (iter_e _ op v1) as [v2 e2]. cbn [snd] in *.
      apply orb_false_iff in H. tauto. }
    rewrite H1.
    specialize (IH (upd_nth vs j (fun v => fst (op v)))).
    destruct (on_children_e op r _) as [vs' e']. cbn [snd] in *. cbn [orb].
    apply IH. intros i v Hi. rewrite upd_nth_nth in Hi.
    destruct (Nat.eqb i j) eqn:E.
    - destruct (nth_error vs i) as [v0|] eqn:E0; [|discriminate]. cbn in Hi. inversion Hi; subst v.
      specialize (H i v0 E0). rewrite cnt_cons, E in H. cbn [iter_e] in H.
      destruct (op v0) as [v1 e1]. cbn [fst]. destruct (iter_e _ op v1) as [v2 e2]. cbn [snd] in *.
      apply orb_false_iff in H. tauto.
    - specialize (H i v Hi). rewrite cnt_cons, E in H. exact H.
  Qed.

  (* ---- one variable: the invariant and the four reference operations ------------------------ *)
  Definition b2z (b : bool) : Z := if b then 1 else 0.

  (* r, a: number of references held by active biases on f_cv_active / f_cv_apply_force *)
  Definition VI (r a : Z) (v : var) : Prop :=
    v_rc v = r + b2z (v_awake v) /\ v_arc v = a /\
    (0 < v_rc v -> v_active v = true) /\ (v_apply v = true <-> 0 < v_arc v).

  Lemma VI_ref_active r a v : 0 <= r -> VI r a v -> VI (r + 1) a (var_ref_active v).
  Proof.
    destruct v as [tsf act rc aw ap arc x cs fb fba f]. unfold VI, var_ref_active. cbn.
    intros Hr (H1 & H2 & H3 & H4).
    destruct act; cbn; repeat split; try tauto; try lia.
    all: try (assert (Hn : ~ 0 < rc) by (intro X; specialize (H3 X); discriminate);
              destruct aw; cbn in *; lia).
  Qed.

  Lemma VI_ref_apply r a v : 0 <= a -> VI r a v -> VI r (a + 1) (var_ref_apply v).
  Proof.
    destruct v as [tsf act rc aw ap arc x cs fb fba f]. unfold VI, var_ref_apply. cbn.
    intros Ha (H1 & H2 & H3 & H4).
    destruct ap; cbn; repeat split; try tauto; try lia.
    all: try (assert (Hn : ~ 0 < arc) by (intro X; apply H4 in X; discriminate); lia).
  Qed.

  Lemma VI_decr_active r a v : 0 <= r -> VI (r + 1) a v ->
    snd (var_decr_active v) = false /\ VI r a (fst (var_decr_active v)).
  Proof.
    destruct v as [tsf act rc aw ap arc x cs fb fba f]. unfold VI, var_decr_active. cbn.
    intros Hr (H1 & H2 & H3 & H4).
    assert (Hp : 0 < rc) by (destruct aw; cbn in H1; lia).
    destruct (rc <=? 0) eqn:E1; [apply Z.leb_le in E1; lia|].
    destruct (rc - 1 =? 0) eqn:E2; cbn; (split; [reflexivity|]).
    - apply Z.eqb_eq in E2. repeat split; try tauto; try lia. all: try (destruct aw; cbn in *; lia).
    - apply Z.eqb_neq in E2. repeat split; try tauto; try lia.
  Qed.

  Lemma VI_decr_apply r a v : 0 <= a -> VI r (a + 1) v ->
    snd (var_decr_apply v) = false /\ VI r a (fst (var_decr_apply v)).
  Proof.
    destruct v as [tsf act rc aw ap arc x cs fb fba f]. unfold VI, var_decr_apply. cbn.
    intros Ha (H1 & H2 & H3 & H4).
    destruct (arc <=? 0) eqn:E1; [apply Z.leb_le in E1; lia|].
    destruct (arc - 1 =? 0) eqn:E2; cbn; (split; [reflexivity|]).
    - apply Z.eqb_eq in E2. repeat split; try tauto; try lia. all: try (intros; discriminate).
    - apply Z.eqb_neq in E2. repeat split; try tauto; try lia. all: try (intros _; apply H4; lia).
  Qed.

  Lemma VI_iter_ref_active n r a v : 0 <= r -> VI r a v -> VI (r + Z.of_nat n) a (iter_op n var_ref_active v).
  Proof.
    revert r v; induction n as [|n IH]; intros r v Hr H.
    - cbn. replace (r + 0) with r by lia. exact H.
    - cbn [iter_op]. replace (r + Z.of_nat (S n)) with ((r + 1) + Z.of_nat n) by lia.
      apply IH; [lia|]. apply VI_ref_active; assumption.
  Qed.

  Lemma VI_iter_ref_apply n r a v : 0 <= a -> VI r a v -> VI r (a + Z.of_nat n) (iter_op n var_ref_apply v).
  Proof.
    revert a v; induction n as [|n IH]; intros a v Ha H.
    - cbn. replace (a + 0) with a by lia. exact H.
    - cbn [iter_op]. replace (a + Z.of_nat (S n)) with ((a + 1) + Z.of_nat n) by lia.
      apply IH; [lia|]. apply VI_ref_apply; assumption.
  Qed.

  Lemma VI_iter_decr_active n r a v : 0 <= r -> VI (r + Z.of_nat n) a v ->
    snd (iter_e n var_decr_active v) = false /\ VI r a (fst (iter_e n var_decr_active v)).
  Proof.
    revert v; induction n as [|n IH]; intros v Hr H.
    - cbn [iter_e fst snd]. change (Z.of_nat 0) with 0 in H. rewrite Z.add_0_r in H. auto.
    - cbn [iter_e]. replace (r + Z.of_nat (S n)) with ((r + Z.of_nat n) + 1) in H by lia.
      destruct (VI_decr_active (r + Z.of_nat n) a v ltac:(lia) H) as [E1 H1].
      destruct (var_decr_active v) as [v1 e1]. cbn [fst snd] in *. subst e1.
      destruct (IH v1 Hr H1) as [E2 H2].
      destruct (iter_e n var_decr_active v1) as [v2 e2]. cbn [fst snd] in *. subst e2. auto.
  Qed.

  Lemma VI_iter_decr_apply n r a v : 0 <= a -> VI r (a + Z.of_nat n) v ->
    snd (iter_e n var_decr_apply v) = false /\ VI r a (fst (iter_e n var_decr_apply v)).
  Proof.
    revert v; induction n as [|n IH]; intros v Ha H.
    - cbn [iter_e fst snd]. change (Z.of_nat 0) with 0 in H. rewrite Z.add_0_r in H. auto.
    - cbn [iter_e]. replace (a + Z.of_nat (S n)) with ((a + Z.of_nat n) + 1) in H by lia.
      destruct (VI_decr_apply r (a + Z.of_nat n) v ltac:(lia) H) as [E1 H1].
      destruct (var_decr_apply v) as [v1 e1]. cbn [fst snd] in *. subst e1.
      destruct (IH v1 Ha H1) as [E2 H2].
      destruct (iter_e n var_decr_apply v1) as [v2 e2]. cbn [fst snd] in *. subst e2. auto.
  Qed.

  (* ---- a list of variables against reference-count functions --------------------------------- *)
  Definition VInvS (R A : nat -> Z) (vs : list var) : Prop :=
    forall i v, nth_error vs i = Some v -> VI (R i) (A i) v.

  Definition c_act (b : bias) (i : nat) : Z :=
    if b_active b then Z.of_nat (cnt (b_vars b) i) else 0.
  Definition c_app (b : bias) (i : nat) : Z :=
    if b_active b && b_apply b then Z.of_nat (cnt (b_vars b) i) else 0.

  Lemma c_act_nonneg b i : 0 <= c_act b i.
  Proof. unfold c_act; destruct (b_active b); lia. Qed.
  Lemma c_app_nonneg b i : 0 <= c_app b i.
  Proof. unfold c_app; destruct (b_active b && b_apply b); lia. Qed.

  Lemma bias_restore_length (b : bias) vs : length (bias_restore b vs) = length vs.
  Proof.
    unfold bias_restore. destruct (b_active b), (b_apply b); rewrite ?on_children_length; reflexivity.
  Qed.

  Lemma bias_free_length (b : bias) vs : length (fst (bias_free b vs)) = length vs.
  Proof.
    unfold bias_free.
    destruct (b_active b).
    - pose proof (on_children_e_length var_decr_active (b_vars b) vs) as L1.
      destruct (on_children_e var_decr_active (b_vars b) vs) as [vs1 e1]. cbn [fst] in L1.
      destruct (b_apply b).
      + pose proof (on_children_e_length var_decr_apply (b_vars b) vs1) as L2.
        destruct (on_children_e var_decr_apply (b_vars b) vs1) as [vs2 e2]. cbn [fst] in *. congruence.
      + cbn [fst]. exact L1.
    - destruct (b_apply b).
      + pose proof (on_children_e_length var_decr_apply (b_vars b) vs) as L2.
        destruct (on_children_e var_decr_apply (b_vars b) vs) as [vs2 e2]. cbn [fst] in *. exact L2.
      + reflexivity.
  Qed.

  (* bias_restore of a bias that has just become active adds its references *)
  Lemma restore_VInv R A b vs :
    (forall i, 0 <= R i) -> (forall i, 0 <= A i) -> b_active b = true ->
    VInvS R A vs ->
    VInvS (fun i => R i + c_act b i) (fun i => A i + c_app b i) (bias_restore b vs).
  Proof.
    intros HR HA Hb H i v Hi. unfold bias_restore in Hi. rewrite Hb in Hi.
    unfold c_act, c_app. rewrite Hb. cbn [andb].
    destruct (b_apply b) eqn:Ea.
    - rewrite !on_children_nth in Hi.
      destruct (nth_error vs i) as [v0|] eqn:E0; [|discriminate]. cbn in Hi. inversion Hi; subst v.
      apply VI_iter_ref_apply; [apply HA|]. apply VI_iter_ref_active; [apply HR|]. apply H; assumption.
    - rewrite on_children_nth in Hi.
      destruct (nth_error vs i) as [v0|] eqn:E0; [|discriminate]. cbn in Hi. inversion Hi; subst v.
      replace (A i + 0) with (A i) by lia.
      apply VI_iter_ref_active; [apply HR|]. apply H; assumption.
  Qed.

  (* the two loops of a deactivation (children of "active" in disable, then free_children_deps) *)
  Lemma release_VInv R A b vs :
    (forall i, 0 <= R i) -> (forall i, 0 <= A i) -> b_active b = true ->
    VInvS (fun i => R i + c_act b i) (fun i => A i + c_app b i) vs ->
    let r1 := on_children_e var_decr_active (b_vars b) vs in
    let r2 := bias_free (set_bact b false 0) (fst r1) in
    snd r1 = false /\ snd r2 = false /\ VInvS R A (fst r2).
  Proof.
    intros HR HA Hb H. unfold c_act, c_app in H. rewrite Hb in H. cbn [andb] in H.
    cbn zeta.
    assert (E1 : snd (on_children_e var_decr_active (b_vars b) vs) = false).
    { apply on_children_e_noerr. intros i v Hi.
      apply (VI_iter_decr_active _ (R i) (if b_apply b then A i + Z.of_nat (cnt (b_vars b) i) else A i + 0) v (HR i)).
      specialize (H i v Hi). destruct (b_apply b); exact H. }
    assert (H1 : VInvS R (fun i => if b_apply b then A i + Z.of_nat (cnt (b_vars b) i) else A i + 0)
                       (fst (on_children_e var_decr_active (b_vars b) vs))).
    { intros i v Hi. rewrite on_children_e_nth in Hi.
      destruct (nth_error vs i) as [v0|] eqn:E0; [|discriminate]. cbn in Hi. inversion Hi; subst v.
      apply VI_iter_decr_active; [apply HR|]. specialize (H i v0 E0). destruct (b_apply b); exact H. }
    split; [exact E1|].
    unfold bias_free. cbn [set_bact b_active b_apply b_vars].
    destruct (b_apply b) eqn:Ea.
    - assert (E2 : snd (on_children_e var_decr_apply (b_vars b) (fst (on_children_e var_decr_active (b_vars b) vs))) = false).
      { apply on_children_e_noerr. intros i v Hi.
        apply (VI_iter_decr_apply _ (R i) (A i) v (HA i)). apply (H1 i v Hi). }
      destruct (on_children_e var_decr_apply (b_vars b) _) as [vs2 e2] eqn:E. cbn [fst snd] in *.
      subst e2. split; [reflexivity|].
      intros i v Hi.
      assert (Hn := on_children_e_nth var_decr_apply (b_vars b) (fst (on_children_e var_decr_active (b_vars b) vs)) i).
      rewrite E in Hn. cbn [fst] in Hn. rewrite Hi in Hn.
      destruct (nth_error (fst (on_children_e var_decr_active (b_vars b) vs)) i) as [v0|] eqn:E0; [|discriminate].
      cbn in Hn. inversion Hn; subst v.
      apply VI_iter_decr_apply; [apply HA|]. apply (H1 i v0 E0).
    - cbn [fst snd orb]. split; [reflexivity|].
      intros i v Hi. specialize (H1 i v Hi). cbn in H1. replace (A i + 0) with (A i) in H1 by lia. exact H1.
  Qed.

  (* ---- the bias operations: effect on the bias alone, effect on the variables ----------------- *)
  (* bias side of the operations (they never read the variables) *)
  Definition enable_active_self (top : bool) (b : bias) : bias :=
    if b_active b then (if top then b else set_bact b true (b_rc b + 1))
    else set_bact b true (if top then b_rc b else 1).
  Definition disable_active_self (b : bias) : bias :=
    if negb (b_active b) then b else if 1 <? b_rc b then b else set_bact b false 0.
  Definition decr_active_self (b : bias) : bias :=
    if b_rc b <=? 0 then b
    else if b_rc b - 1 =? 0 then disable_active_self (set_bact b (b_active b) 0)
    else set_bact b (b_active b) (b_rc b - 1).
  Definition enable_awake_self (b : bias) : bias :=
    if b_awake b then b else set_bawake (enable_active_self false b) true.
  Definition disable_awake_self (b : bias) : bias :=
    if b_awake b then set_bawake (decr_active_self b) false else b.

  Variable fixed : bool.

  Definition wake_self (it : Z) (b : bias) : bias :=
    if 1 <? b_tsf b then
      if on_schedule it (b_tsf b) then enable_awake_self b
      else disable_awake_self (if fixed && b_active b && negb (b_awake b) then enable_awake_self b else b)
    else b.

  Definition set_active_self (id : nat) (on : bool) (b : bias) : bias :=
    if Nat.eqb (b_id b) id then (if on then enable_active_self true b else disable_active_self b) else b.

  (* static fields *)
  Definition same_static (b b' : bias) : Prop :=
    b_id b' = b_id b /\ b_tsf b' = b_tsf b /\ b_vars b' = b_vars b /\ b_bypass b' = b_bypass b /\
    b_apply b' = b_apply b /\ b_upd b' = b_upd b.

  Lemma same_static_refl b : same_static b b.
  Proof. unfold same_static; tauto. Qed.
  Lemma same_static_trans b1 b2 b3 : same_static b1 b2 -> same_static b2 b3 -> same_static b1 b3.
  Proof. unfold same_static; intuition congruence. Qed.
  Lemma same_static_bact b a rc : same_static b (set_bact b a rc).
  Proof. unfold same_static; destruct b; cbn; tauto. Qed.
  Lemma same_static_bawake b w : same_static b (set_bawake b w).
  Proof. unfold same_static; destruct b; cbn; tauto. Qed.

  (* A transition of one bias seen from the variables: the variable list is unchanged when the
     activity flag is, gains the bias's references when it becomes active, loses them when it
     becomes inactive.  [TR b b' vs vs' e]: VInvS is carried from b's contribution to b''s. *)
  Definition TR (b b' : bias) (vs vs' : list var) (e_vars_ok : Prop) : Prop :=
    same_static b b' /\ length vs' = length vs /\
    forall R A, (forall i, 0 <= R i) -> (forall i, 0 <= A i) ->
      VInvS (fun i => R i + c_act b i) (fun i => A i + c_app b i) vs ->
      VInvS (fun i => R i + c_act b' i) (fun i => A i + c_app b' i) vs' /\ e_vars_ok.

  Lemma c_static b b' : same_static b b' -> b_active b' = b_active b ->
    (forall i, c_act b' i = c_act b i) /\ (forall i, c_app b' i = c_app b i).
  Proof.
    intros (_ & _ & Hv & _ & Ha & _) Hact. unfold c_act, c_app. rewrite Hv, Ha, Hact. auto.
  Qed.

  Lemma TR_same b b' vs : same_static b b' -> b_active b' = b_active b -> TR b b' vs vs True.
  Proof.
    intros Hs Ha. split; [exact Hs|]. split; [reflexivity|]. intros R A HR HA H.
    destruct (c_static b b' Hs Ha) as [E1 E2]. split; [|exact I].
    intros i v Hi. rewrite E1, E2. apply H; assumption.
  Qed.

  Lemma c_inactive b i : b_active b = false -> c_act b i = 0 /\ c_app b i = 0.
  Proof. intros H; unfold c_act, c_app; rewrite H; auto. Qed.

  Lemma VInvS_ext R A R' A' vs : (forall i, R i = R' i) -> (forall i, A i = A' i) -> VInvS R A vs -> VInvS R' A' vs.
  Proof. intros HR HA H i v Hi. rewrite <- HR, <- HA. apply H; assumption. Qed.

  Lemma TR_trans b1 b2 b3 vs1 vs2 vs3 P Q :
    TR b1 b2 vs1 vs2 P -> TR b2 b3 vs2 vs3 Q -> TR b1 b3 vs1 vs3 (P /\ Q).
  Proof.
    intros [S1 [L1 H1]] [S2 [L2 H2]]. split; [eapply same_static_trans; eassumption|]. split; [congruence|].
    intros R A HR HA H. destruct (H1 R A HR HA H) as [G1 P1]. destruct (H2 R A HR HA G1) as [G2 Q1]. tauto.
  Qed.

  Lemma TR_weaken b b' vs vs' (P Q : Prop) : (P -> Q) -> TR b b' vs vs' P -> TR b b' vs vs' Q.
  Proof. intros HPQ [S1 [L1 H1]]. split; [exact S1|]. split; [exact L1|]. intros R A HR HA H. destruct (H1 R A HR HA H). auto. Qed.

  Lemma TR_awake b b' vs vs' P w : TR b b' vs vs' P -> TR b (set_bawake b' w) vs vs' P.
  Proof.
    intros [S1 [L1 H1]]. split; [eapply same_static_trans; [exact S1 | apply same_static_bawake]|]. split; [exact L1|].
    intros R A HR HA H. destruct (H1 R A HR HA H) as [G1 P1]. split; [|exact P1].
    destruct (c_static b' (set_bawake b' w) (same_static_bawake _ _) ltac:(destruct b'; reflexivity)) as [C1 C2].
    eapply VInvS_ext; [| |exact G1]; intros i; rewrite ?C1, ?C2; reflexivity.
  Qed.

  Lemma enable_active_TR top b vs :
    fst (bias_enable_active top b vs) = enable_active_self top b /\
    TR b (enable_active_self top b) vs (snd (bias_enable_active top b vs)) True.
  Proof.
    unfold bias_enable_active, enable_active_self. destruct (b_active b) eqn:Ea.
    - cbn [fst snd]. split; [reflexivity|]. destruct top.
      + apply TR_same; [apply same_static_refl | reflexivity].
      + apply TR_same; [apply same_static_bact | destruct b; cbn in *; congruence].
    - cbn [fst snd]. split; [reflexivity|].
      set (b' := set_bact b true (if top then b_rc b else 1)).
      split; [apply same_static_bact|]. split; [apply bias_restore_length|]. intros R A HR HA H. split; [|exact I].
      assert (Hb' : b_active b' = true) by (destruct b; reflexivity).
      apply restore_VInv; try assumption.
      eapply VInvS_ext; [| |exact H]; intros i; cbn beta;
        destruct (c_inactive b i Ea) as [E1 E2]; rewrite ?E1, ?E2; lia.
  Qed.

  Lemma disable_active_TR b vs :
    fst (fst (bias_disable_active b vs)) = disable_active_self b /\
    TR b (disable_active_self b) vs (snd (fst (bias_disable_active b vs)))
       (b_active b = true -> b_rc b <= 1 -> snd (bias_disable_active b vs) = false).
  Proof.
    unfold bias_disable_active, disable_active_self. destruct (b_active b) eqn:Ea; cbn [negb].
    2:{ cbn [fst snd]. split; [reflexivity|]. split; [apply same_static_refl|]. split; [reflexivity|].
        intros R A HR HA H. split; [exact H | discriminate]. }
    destruct (1 <? b_rc b) eqn:Er.
    - cbn [fst snd]. split; [reflexivity|]. split; [apply same_static_refl|]. split; [reflexivity|].
      intros R A HR HA H. split; [exact H|]. intros _ Hle. apply Z.ltb_lt in Er. lia.
    - destruct (on_children_e var_decr_active (b_vars b) vs) as [vs1 e1] eqn:E1.
      destruct (bias_free (set_bact b false 0) vs1) as [vs2 e2] eqn:E2.
      cbn [fst snd]. split; [reflexivity|]. split; [apply same_static_bact|].
      split.
      { pose proof (bias_free_length (set_bact b false 0) vs1) as L2. rewrite E2 in L2. cbn [fst] in L2.
        pose proof (on_children_e_length var_decr_active (b_vars b) vs) as L1. rewrite E1 in L1. cbn [fst] in L1.
        congruence. }
      intros R A HR HA H.
      destruct (release_VInv R A b vs HR HA Ea H) as (X1 & X2 & X3).
      rewrite E1 in *. cbn [fst snd] in *. rewrite E2 in *. cbn [fst snd] in *. subst e1 e2.
      split; [|reflexivity].
      assert (Hoff : b_active (set_bact b false 0) = false) by (destruct b; reflexivity).
      eapply VInvS_ext; [| |exact X3]; intros i; cbn beta;
        destruct (c_inactive (set_bact b false 0) i Hoff) as [E3 E4]; rewrite ?E3, ?E4; lia.
  Qed.

  Lemma decr_active_TR b vs :
    fst (fst (bias_decr_active b vs)) = decr_active_self b /\
    TR b (decr_active_self b) vs (snd (fst (bias_decr_active b vs)))
       (0 < b_rc b -> snd (bias_decr_active b vs) = false).
  Proof.
    unfold bias_decr_active, decr_active_self. destruct (b_rc b <=? 0) eqn:E0.
    - cbn [fst snd]. split; [reflexivity|]. split; [apply same_static_refl|]. split; [reflexivity|].
      intros R A HR HA H. split; [exact H|]. apply Z.leb_le in E0. lia.
    - destruct (b_rc b - 1 =? 0) eqn:E1.
      + set (b0 := set_bact b (b_active b) 0).
        destruct (disable_active_TR b0 vs) as [F1 [F2 [FL F3]]].
        split; [exact F1|]. split; [eapply same_static_trans; [apply same_static_bact | exact F2]|].
        split; [exact FL|].
        intros R A HR HA H.
        assert (Hc := c_static b b0 (same_static_bact _ _ _) ltac:(destruct b; reflexivity)).
        destruct Hc as [C1 C2].
        destruct (F3 R A HR HA) as [G1 G2].
        { eapply VInvS_ext; [| |exact H]; intros i; rewrite ?C1, ?C2; reflexivity. }
        split; [exact G1|]. intros _.
        destruct (b_active b) eqn:Ea.
        * apply G2; destruct b; cbn in *; try assumption; lia.
        * unfold bias_disable_active. replace (b_active b0) with false by (destruct b; cbn in *; congruence).
          reflexivity.
      + cbn [fst snd]. split; [reflexivity|].
        eapply TR_weaken; [|apply TR_same; [apply same_static_bact | destruct b; reflexivity]].
        intros _ _; reflexivity.
  Qed.

  Lemma enable_awake_TR b vs :
    fst (bias_enable_awake b vs) = enable_awake_self b /\
    TR b (enable_awake_self b) vs (snd (bias_enable_awake b vs)) True.
  Proof.
    unfold bias_enable_awake, enable_awake_self. destruct (b_awake b).
    - cbn [fst snd]. split; [reflexivity|]. apply TR_same; [apply same_static_refl | reflexivity].
    - destruct (enable_active_TR false b vs) as [F1 F2].
      destruct (bias_enable_active false b vs) as [b1 vs1]. cbn [fst snd] in *. subst b1.
      split; [reflexivity|]. apply TR_awake. exact F2.
  Qed.

  Lemma disable_awake_TR b vs :
    fst (fst (bias_disable_awake b vs)) = disable_awake_self b /\
    TR b (disable_awake_self b) vs (snd (fst (bias_disable_awake b vs)))
       (b_awake b = true -> 0 < b_rc b -> snd (bias_disable_awake b vs) = false).
  Proof.
    unfold bias_disable_awake, disable_awake_self. destruct (b_awake b).
    - destruct (decr_active_TR b vs) as [F1 F2].
      destruct (bias_decr_active b vs) as [[b1 vs1] e]. cbn [fst snd] in *. subst b1.
      split; [reflexivity|]. apply TR_awake. eapply TR_weaken; [|exact F2]. tauto.
    - cbn [fst snd]. split; [reflexivity|].
      eapply TR_weaken; [|apply TR_same; [apply same_static_refl | reflexivity]]. intros _ ?; discriminate.
  Qed.

  Lemma wake_bias_TR it b vs :
    fst (fst (wake_bias fixed it b vs)) = wake_self it b /\
    TR b (wake_self it b) vs (snd (fst (wake_bias fixed it b vs))) True.
  Proof.
    unfold wake_bias, wake_self. destruct (1 <? b_tsf b).
    2:{ cbn [fst snd]. split; [reflexivity|]. apply TR_same; [apply same_static_refl | reflexivity]. }
    destruct (on_schedule it (b_tsf b)).
    - destruct (enable_awake_TR b vs) as [F1 F2].
      destruct (bias_enable_awake b vs) as [b1 vs1]. cbn [fst snd] in *. subst b1. split; [reflexivity | exact F2].
    - destruct (fixed && b_active b && negb (b_awake b)).
      + destruct (enable_awake_TR b vs) as [F1 F2].
        destruct (bias_enable_awake b vs) as [b1 vs1]. cbn [fst snd] in *. subst b1.
        destruct (disable_awake_TR (enable_awake_self b) vs1) as [G1 G2].
        destruct (bias_disable_awake (enable_awake_self b) vs1) as [[b2 vs2] e2]. cbn [fst snd] in *. subst b2.
        split; [reflexivity|]. eapply TR_weaken; [|eapply TR_trans; [exact F2 | exact G2]]. auto.
      + destruct (disable_awake_TR b vs) as [G1 G2].
        destruct (bias_disable_awake b vs) as [[b2 vs2] e2]. cbn [fst snd] in *. subst b2.
        split; [reflexivity|]. eapply TR_weaken; [|exact G2]. auto.
  Qed.

  (* ---- lists of biases ------------------------------------------------------------------------ *)
  Fixpoint refs (bs : list bias) (i : nat) : Z :=
    match bs with [] => 0 | b :: r => c_act b i + refs r i end.
  Fixpoint arefs (bs : list bias) (i : nat) : Z :=
    match bs with [] => 0 | b :: r => c_app b i + arefs r i end.

  Lemma refs_nonneg bs i : 0 <= refs bs i.
  Proof. induction bs as [|b r IH]; cbn [refs]; [lia|]. pose proof (c_act_nonneg b i). lia. Qed.
  Lemma arefs_nonneg bs i : 0 <= arefs bs i.
  Proof. induction bs as [|b r IH]; cbn [arefs]; [lia|]. pose proof (c_app_nonneg b i). lia. Qed.
  Lemma refs_app l1 l2 i : refs (l1 ++ l2) i = refs l1 i + refs l2 i.
  Proof. induction l1 as [|b r IH]; cbn [refs app]; [lia|]. rewrite IH. lia. Qed.
  Lemma arefs_app l1 l2 i : arefs (l1 ++ l2) i = arefs l1 i + arefs l2 i.
  Proof. induction l1 as [|b r IH]; cbn [arefs app]; [lia|]. rewrite IH. lia. Qed.

  Definition VInv (bs : list bias) (vs : list var) : Prop := VInvS (refs bs) (arefs bs) vs.

  Lemma TR_in_context pre b b' post vs vs' P :
    TR b b' vs vs' P -> VInv (pre ++ b :: post) vs -> VInv (pre ++ b' :: post) vs' /\ P.
  Proof.
    intros [S1 [L1 H1]] H. unfold VInv in *.
    destruct (H1 (fun i => refs pre i + refs post i) (fun i => arefs pre i + arefs post i)) as [G1 G2].
    - intros i. pose proof (refs_nonneg pre i). pose proof (refs_nonneg post i). lia.
    - intros i. pose proof (arefs_nonneg pre i). pose proof (arefs_nonneg post i). lia.
    - eapply VInvS_ext; [| |exact H]; intros i; rewrite ?refs_app, ?arefs_app; cbn [refs arefs]; lia.
    - split; [|exact G2].
      eapply VInvS_ext; [| |exact G1]; intros i; rewrite ?refs_app, ?arefs_app; cbn [refs arefs]; lia.
  Qed.

  Lemma TR_length b b' vs vs' P : TR b b' vs vs' P -> length vs' = length vs.
  Proof. intros [_ [L _]]; exact L. Qed.

  Lemma wake_biases_spec it r : forall pre vs,
    VInv (pre ++ r) vs ->
    fst (fst (wake_biases fixed it r vs)) = map (wake_self it) r /\
    VInv (pre ++ map (wake_self it) r) (snd (fst (wake_biases fixed it r vs))) /\
    length (snd (fst (wake_biases fixed it r vs))) = length vs.
  Proof.
    induction r as [|b r IH]; intros pre vs H.
    - cbn. auto.
    - cbn [wake_biases map].
      destruct (wake_bias_TR it b vs) as [F1 F2].
      destruct (wake_bias fixed it b vs) as [[b1 vs1] e1]. cbn [fst snd] in *. subst b1.
      destruct (TR_in_context pre b (wake_self it b) r vs vs1 True F2 H) as [G _].
      pose proof (TR_length _ _ _ _ _ F2) as L1.
      specialize (IH (pre ++ [wake_self it b]) vs1). rewrite <- app_assoc in IH. cbn [app] in IH.
      destruct (IH G) as [I1 [I2 I3]].
      destruct (wake_biases fixed it r vs1) as [[r' vs2] e2]. cbn [fst snd] in *. subst r'.
      split; [reflexivity|]. split; [|congruence]. rewrite <- app_assoc in I2. exact I2.
  Qed.

  Lemma set_active_spec id on r : forall pre vs,
    VInv (pre ++ r) vs ->
    fst (fst (set_active id on r vs)) = map (set_active_self id on) r /\
    VInv (pre ++ map (set_active_self id on) r) (snd (fst (set_active id on r vs))) /\
    length (snd (fst (set_active id on r vs))) = length vs.
  Proof.
    induction r as [|b r IH]; intros pre vs H.
    - cbn. auto.
    - cbn [set_active map].
      assert (F : exists b1 vs1 e1,
                 (if Nat.eqb (b_id b) id then
                    if on then let '(b1, v1) := bias_enable_active true b vs in (b1, v1, false)
                    else bias_disable_active b vs
                  else (b, vs, false)) = (b1, vs1, e1) /\ b1 = set_active_self id on b /\
                 VInv (pre ++ b1 :: r) vs1 /\ length vs1 = length vs).
      { unfold set_active_self. destruct (Nat.eqb (b_id b) id).
        - destruct on.
          + destruct (enable_active_TR true b vs) as [F1 F2].
            destruct (bias_enable_active true b vs) as [b1 vs1]. cbn [fst snd] in *. subst b1.
            do 3 eexists. split; [reflexivity|]. split; [reflexivity|].
            split; [apply (TR_in_context pre b _ r vs vs1 True F2 H) | apply (TR_length _ _ _ _ _ F2)].
          + destruct (disable_active_TR b vs) as [F1 F2].
            destruct (bias_disable_active b vs) as [[b1 vs1] e1]. cbn [fst snd] in *. subst b1.
            do 3 eexists. split; [reflexivity|]. split; [reflexivity|].
            split; [apply (TR_in_context pre b _ r vs vs1 _ F2 H) | apply (TR_length _ _ _ _ _ F2)].
        - do 3 eexists. split; [reflexivity|]. split; [reflexivity|]. split; [exact H | reflexivity]. }
      destruct F as (b1 & vs1 & e1 & -> & -> & G & L1).
      specialize (IH (pre ++ [set_active_self id on b]) vs1). rewrite <- app_assoc in IH. cbn [app] in IH.
      destruct (IH G) as [I1 [I2 I3]].
      destruct (set_active id on r vs1) as [[r' vs2] e2]. cbn [fst snd] in *. subst r'.
      split; [reflexivity|]. split; [|congruence]. rewrite <- app_assoc in I2. exact I2.
  Qed.

  (* ---- run-time switch of apply_force ------------------------------------------------------------------- *)
  Definition set_apply_self (id : nat) (on : bool) (b : bias) : bias :=
    if Nat.eqb (b_id b) id then
      (if on then (if b_apply b then b else set_bapply b true)
       else (if negb (b_apply b) then b else set_bapply b false))
    else b.

  Definition TRA (b b' : bias) (vs vs' : list var) : Prop :=
    length vs' = length vs /\
    forall R A, (forall i, 0 <= R i) -> (forall i, 0 <= A i) ->
      VInvS (fun i => R i + c_act b i) (fun i => A i + c_app b i) vs ->
      VInvS (fun i => R i + c_act b' i) (fun i => A i + c_app b' i) vs'.

  Lemma TRA_in_context pre b b' post vs vs' :
    TRA b b' vs vs' -> VInv (pre ++ b :: post) vs -> VInv (pre ++ b' :: post) vs'.
  Proof.
    intros [L1 H1] H. unfold VInv in *.
    eapply VInvS_ext; [| |apply (H1 (fun i => refs pre i + refs post i) (fun i => arefs pre i + arefs post i))].
    - intros i; rewrite ?refs_app, ?arefs_app; cbn [refs arefs]; lia.
    - intros i; rewrite ?refs_app, ?arefs_app; cbn [refs arefs]; lia.
    - intros i. pose proof (refs_nonneg pre i). pose proof (refs_nonneg post i). lia.
    - intros i. pose proof (arefs_nonneg pre i). pose proof (arefs_nonneg post i). lia.
    - eapply VInvS_ext; [| |exact H]; intros i; rewrite ?refs_app, ?arefs_app; cbn [refs arefs]; lia.
  Qed.

  Lemma c_set_bapply b a i :
    c_act (set_bapply b a) i = c_act b i /\
    c_app (set_bapply b a) i = if b_active b && a then Z.of_nat (cnt (b_vars b) i) else 0.
  Proof. unfold c_act, c_app. destruct b; cbn. auto. Qed.

  Lemma enable_apply_TRA b vs :
    fst (bias_enable_apply b vs) = (if b_apply b then b else set_bapply b true) /\
    TRA b (fst (bias_enable_apply b vs)) vs (snd (bias_enable_apply b vs)).
  Proof.
    unfold bias_enable_apply. destruct (b_apply b) eqn:Ea; cbn [fst snd]; (split; [reflexivity|]).
    - split; [reflexivity|]. intros R A HR HA H. exact H.
    - split; [destruct (b_active b); [apply on_children_length | reflexivity]|].
      intros R A HR HA H i v Hi.
      destruct (c_set_bapply b true i) as [C1 C2]. rewrite C1, C2.
      assert (C0 : c_app b i = 0) by (unfold c_app; rewrite Ea, andb_false_r; reflexivity).
      destruct (b_active b) eqn:Eact; cbn [andb].
      + rewrite on_children_nth in Hi. destruct (nth_error vs i) as [v0|] eqn:E0; [|discriminate].
        cbn in Hi. inversion Hi; subst v. apply VI_iter_ref_apply; [apply HA|].
        specialize (H i v0 E0). cbn beta in H. rewrite C0 in H. replace (A i + 0) with (A i) in H by lia. exact H.
      + specialize (H i v Hi). cbn beta in H. rewrite C0 in H. exact H.
  Qed.

  Lemma disable_apply_TRA b vs :
    fst (fst (bias_disable_apply b vs)) = (if negb (b_apply b) then b else set_bapply b false) /\
    TRA b (fst (fst (bias_disable_apply b vs))) vs (snd (fst (bias_disable_apply b vs))).
  Proof.
    unfold bias_disable_apply. destruct (b_apply b) eqn:Ea; cbn [negb].
    2:{ cbn [fst snd]. split; [reflexivity|]. split; [reflexivity|]. intros R A HR HA H. exact H. }
    destruct (b_active b) eqn:Eact.
    - pose proof (on_children_e_length var_decr_apply (b_vars b) vs) as L.
      pose proof (on_children_e_nth var_decr_apply (b_vars b) vs) as N.
      destruct (on_children_e var_decr_apply (b_vars b) vs) as [vs1 e]. cbn [fst snd] in *.
      split; [reflexivity|]. split; [exact L|].
      intros R A HR HA H i v Hi. rewrite N in Hi.
      destruct (nth_error vs i) as [v0|] eqn:E0; [|discriminate]. cbn in Hi. inversion Hi; subst v.
      destruct (c_set_bapply b false i) as [C1 C2]. rewrite C1, C2, andb_false_r.
      replace (A i + 0) with (A i) by lia.
      apply VI_iter_decr_apply; [apply HA|].
      specialize (H i v0 E0). cbn beta in H. unfold c_app in H. rewrite Eact, Ea in H. exact H.
    - cbn [fst snd]. split; [reflexivity|]. split; [reflexivity|].
      intros R A HR HA H i v Hi. destruct (c_set_bapply b false i) as [C1 C2]. rewrite C1, C2, andb_false_r.
      specialize (H i v Hi). cbn beta in H. unfold c_app in H. rewrite Eact in H. exact H.
  Qed.

  Lemma set_apply_spec id on r : forall pre vs,
    VInv (pre ++ r) vs ->
    fst (fst (set_apply id on r vs)) = map (set_apply_self id on) r /\
    VInv (pre ++ map (set_apply_self id on) r) (snd (fst (set_apply id on r vs))) /\
    length (snd (fst (set_apply id on r vs))) = length vs.
  Proof.
    induction r as [|b r IH]; intros pre vs H.
    - cbn. auto.
    - cbn [set_apply map].
      assert (F : exists b1 vs1 e1,
                 (if Nat.eqb (b_id b) id then
                    if on then let '(b1, v1) := bias_enable_apply b vs in (b1, v1, false)
                    else bias_disable_apply b vs
                  else (b, vs, false)) = (b1, vs1, e1) /\ b1 = set_apply_self id on b /\
                 VInv (pre ++ b1 :: r) vs1 /\ length vs1 = length vs).
      { unfold set_apply_self. destruct (Nat.eqb (b_id b) id).
        - destruct on.
          + destruct (enable_apply_TRA b vs) as [F1 F2].
            destruct (bias_enable_apply b vs) as [b1 vs1]. cbn [fst snd] in *. subst b1.
            do 3 eexists. split; [reflexivity|]. split; [reflexivity|].
            split; [apply (TRA_in_context pre b _ r vs vs1 F2 H) | apply F2].
          + destruct (disable_apply_TRA b vs) as [F1 F2].
            destruct (bias_disable_apply b vs) as [[b1 vs1] e1]. cbn [fst snd] in *. subst b1.
            do 3 eexists. split; [reflexivity|]. split; [reflexivity|].
            split; [apply (TRA_in_context pre b _ r vs vs1 F2 H) | apply F2].
        - do 3 eexists. split; [reflexivity|]. split; [reflexivity|]. split; [exact H | reflexivity]. }
      destruct F as (b1 & vs1 & e1 & -> & -> & G & L1).
      specialize (IH (pre ++ [set_apply_self id on b]) vs1). rewrite <- app_assoc in IH. cbn [app] in IH.
      destruct (IH G) as [I1 [I2 I3]].
      destruct (set_apply id on r vs1) as [[r' vs2] e2]. cbn [fst snd] in *. subst r'.
      split; [reflexivity|]. split; [|congruence]. rewrite <- app_assoc in I2. exact I2.
  Qed.

  (* ---- the variables' own schedule and calc() --------------------------------------------------- *)
  Lemma VI_enable_awake r a v : 0 <= r -> VI r a v -> VI r a (var_enable_awake v).
  Proof.
    destruct v as [tsf act rc aw ap arc x cs fb fba f].
    unfold VI, var_enable_awake, var_ref_active, set_vawake, set_vact. cbn.
    intros Hr (H1 & H2 & H3 & H4).
    destruct aw; cbn in *; [repeat split; tauto|].
    destruct act; cbn; repeat split; try tauto; try lia.
    all: try (assert (Hn : ~ 0 < rc) by (intro X; specialize (H3 X); discriminate); lia).
  Qed.

  Lemma VI_disable_awake r a v : 0 <= r -> VI r a v -> VI r a (fst (var_disable_awake v)).
  Proof.
    destruct v as [tsf act rc aw ap arc x cs fb fba f].
    unfold VI, var_disable_awake, var_decr_active, set_vawake, set_vact. cbn.
    intros Hr (H1 & H2 & H3 & H4).
    destruct aw; cbn in *; [|repeat split; tauto].
    destruct (Z.leb_spec rc 0) as [L|L]; [lia|].
    destruct (Z.eqb_spec (rc - 1) 0) as [E|E]; cbn; repeat split; try tauto; try lia.
  Qed.

  Lemma VI_wake_var it r a v : 0 <= r -> VI r a v -> VI r a (fst (wake_var fixed it v)).
  Proof.
    intros Hr H. unfold wake_var. destruct (1 <? v_tsf v); [|exact H].
    destruct (on_schedule it (v_tsf v)); cbn [fst].
    - apply VI_enable_awake; assumption.
    - apply VI_disable_awake; [assumption|].
      destruct (fixed && v_active v && negb (v_awake v)); [apply VI_enable_awake|]; assumption.
  Qed.

  Definition calc_one (it : Z) (v : var) (cs : list (@cvc_in T)) : var :=
    let v1 := fst (wake_var fixed it v) in if v_active v1 then set_vcalc O v1 cs else v1.

  Lemma calc_vars_nth it vs : forall xs i,
    nth_error (fst (calc_vars O fixed it vs xs)) i =
    option_map (fun v => calc_one it v (nth i xs [])) (nth_error vs i).
  Proof.
    induction vs as [|v r IH]; intros xs i.
    - cbn. destruct i; reflexivity.
    - cbn [calc_vars].
      destruct (wake_var fixed it v) as [v1 e1] eqn:E1.
      specialize (IH (tl xs)).
      destruct (calc_vars O fixed it r (tl xs)) as [r' e2]. cbn [fst] in *.
      destruct i as [|i]; cbn [nth_error option_map].
      + unfold calc_one. rewrite E1. cbn [fst]. destruct xs; reflexivity.
      + rewrite IH. destruct xs as [|c xs']; cbn [tl nth]; [destruct i|]; reflexivity.
  Qed.

  Lemma calc_vars_length it vs : forall xs, length (fst (calc_vars O fixed it vs xs)) = length vs.
  Proof.
    induction vs as [|v r IH]; intros xs; [reflexivity|].
    cbn [calc_vars]. destruct (wake_var fixed it v) as [v1 e1].
    specialize (IH (tl xs)). destruct (calc_vars O fixed it r (tl xs)) as [r' e2]. cbn [fst length] in *. lia.
  Qed.

  (* fields that the force bookkeeping never touches *)
  Definition same_deps (v v' : var) : Prop :=
    v_active v' = v_active v /\ v_rc v' = v_rc v /\ v_awake v' = v_awake v /\
    v_apply v' = v_apply v /\ v_arc v' = v_arc v /\ v_tsf v' = v_tsf v.

  Lemma VI_same_deps r a v v' : same_deps v v' -> VI r a v -> VI r a v'.
  Proof. intros (E1 & E2 & E3 & E4 & E5 & _). unfold VI. rewrite E1, E2, E3, E4, E5. tauto. Qed.

  Lemma same_deps_vcalc v cs : same_deps v (set_vcalc O v cs).
  Proof. destruct v; unfold same_deps; cbn; tauto. Qed.
  Lemma same_deps_vfb v x y : same_deps v (set_vfb v x y).
  Proof. destruct v; unfold same_deps; cbn; tauto. Qed.
  Lemma same_deps_vf v x : same_deps v (set_vf v x).
  Proof. destruct v; unfold same_deps; cbn; tauto. Qed.

  Lemma VI_calc_one it r a v cs : 0 <= r -> VI r a v -> VI r a (calc_one it v cs).
  Proof.
    intros Hr H. unfold calc_one. cbn zeta.
    pose proof (VI_wake_var it r a v Hr H) as H1.
    destruct (v_active (fst (wake_var fixed it v))); [|exact H1].
    eapply VI_same_deps; [apply same_deps_vcalc | exact H1].
  Qed.

  (* the variable's own schedule: after calc_colvars a variable with factor n > 1 holds its "awake" reference
     exactly at the multiples of n, and is active exactly when its reference count is positive *)
  Lemma enable_awake_facts r a v : 0 <= r -> VI r a v ->
    let w := var_enable_awake v in
    v_awake w = true /\ v_active w = true /\ 0 < v_rc w /\ v_tsf w = v_tsf v.
  Proof.
    destruct v as [tsf act rc aw ap arc x cs fb fba f].
    unfold VI, var_enable_awake, var_ref_active, set_vawake, set_vact. cbn.
    intros Hr (H1 & H2 & H3 & H4).
    destruct aw; cbn in *.
    - assert (X : 0 < rc) by lia. rewrite (H3 X). repeat split; auto.
    - destruct act; cbn; repeat split; auto; lia.
  Qed.

  Lemma disable_awake_facts r a v : 0 <= r -> VI r a v -> (v_awake v = true \/ v_active v = false) ->
    let w := fst (var_disable_awake v) in
    v_awake w = false /\ v_active w = (0 <? v_rc w) /\ v_tsf w = v_tsf v.
  Proof.
    destruct v as [tsf act rc aw ap arc x cs fb fba f].
    unfold VI, var_disable_awake, var_decr_active, set_vawake, set_vact. cbn.
    intros Hr (H1 & H2 & H3 & H4) Hc.
    destruct aw; cbn in *.
    - assert (X : 0 < rc) by lia. pose proof (H3 X) as Ha. subst act.
      destruct (Z.leb_spec rc 0) as [L|L]; [lia|].
      destruct (Z.eqb_spec (rc - 1) 0) as [E|E]; cbn; repeat split; auto.
      symmetry. apply Z.ltb_lt. lia.
    - destruct Hc as [Hc|Hc]; [discriminate|]. subst act. repeat split; auto.
      assert (Hn : ~ 0 < rc) by (intro X; specialize (H3 X); discriminate).
      symmetry. apply Z.ltb_ge. lia.
  Qed.

  Lemma calc_one_sched it r a v cs :
    fixed = true -> 0 <= r -> VI r a v -> (1 <? v_tsf v) = true ->
    let v' := calc_one it v cs in
    v_tsf v' = v_tsf v /\ v_awake v' = on_schedule it (v_tsf v) /\ v_active v' = (0 <? v_rc v').
  Proof.
    intros Hf Hr H Ht. cbn zeta.
    assert (G : let w := fst (wake_var fixed it v) in
                v_tsf w = v_tsf v /\ v_awake w = on_schedule it (v_tsf v) /\ v_active w = (0 <? v_rc w)).
    { cbn zeta. unfold wake_var. rewrite Ht, Hf. destruct (on_schedule it (v_tsf v)); cbn [fst andb].
      - destruct (enable_awake_facts r a v Hr H) as (A1 & A2 & A3 & A4).
        split; [exact A4|]. split; [exact A1|]. rewrite A2. symmetry. apply Z.ltb_lt. exact A3.
      - destruct (v_active v && negb (v_awake v)) eqn:Ec.
        + destruct (enable_awake_facts r a v Hr H) as (A1 & A2 & A3 & A4).
          destruct (disable_awake_facts r a (var_enable_awake v) Hr (VI_enable_awake r a v Hr H) (or_introl A1)) as (D1 & D2 & D3).
          split; [congruence|]. split; assumption.
        + destruct (disable_awake_facts r a v Hr H) as (D1 & D2 & D3).
          { apply andb_false_iff in Ec. destruct Ec as [Ec|Ec]; [right; exact Ec | left; apply negb_false_iff; exact Ec]. }
          split; [exact D3|]. split; assumption. }
    cbn zeta in G. destruct G as (G1 & G2 & G3). unfold calc_one. cbn zeta.
    destruct (v_active (fst (wake_var fixed it v))) eqn:Ea.
    - destruct (fst (wake_var fixed it v)) as [tsf act rc aw ap arc x cs0 fb fba f].
      unfold set_vcalc. cbn [v_tsf v_awake v_active v_rc] in *. repeat split; congruence.
    - rewrite Ea. repeat split; congruence.
  Qed.

  Lemma VInv_calc_vars it bs vs xs : VInv bs vs -> VInv bs (fst (calc_vars O fixed it vs xs)).
  Proof.
    intros H i v Hi. rewrite calc_vars_nth in Hi.
    destruct (nth_error vs i) as [v0|] eqn:E0; [|discriminate]. cbn in Hi. inversion Hi; subst v.
    apply VI_calc_one; [apply refs_nonneg | apply H; assumption].
  Qed.

  (* ---- the initial state ---------------------------------------------------------------------------- *)
  Lemma VInv_init_vars tsfs : VInv [] (map (init_var O) tsfs).
  Proof.
    intros i v Hi. rewrite nth_error_map in Hi. destruct (nth_error tsfs i); [|discriminate].
    cbn in Hi. inversion Hi; subst v. unfold VI, init_var; cbn. repeat split; try lia; try discriminate.
  Qed.

  Lemma VInv_init_refs bs : forall pre vs,
    (forall b, In b bs -> b_active b = true) ->
    VInv pre vs -> VInv (pre ++ bs) (fold_left init_refs bs vs).
  Proof.
    induction bs as [|b r IH]; intros pre vs Hact H.
    - rewrite app_nil_r. exact H.
    - cbn [fold_left]. replace (pre ++ b :: r) with ((pre ++ [b]) ++ r) by (rewrite <- app_assoc; reflexivity).
      apply IH; [intros b' Hb'; apply Hact; right; exact Hb'|].
      unfold init_refs, VInv.
      eapply VInvS_ext; [| |apply (restore_VInv (refs pre) (arefs pre) b vs)].
      + intros i. rewrite refs_app. cbn [refs]. lia.
      + intros i. rewrite arefs_app. cbn [arefs]. lia.
      + intros i; apply refs_nonneg.
      + intros i; apply arefs_nonneg.
      + apply Hact; left; reflexivity.
      + exact H.
  Qed.

  Lemma init_refs_length bs : forall vs, length (fold_left (@init_refs T BS) bs vs) = length vs.
  Proof.
    induction bs as [|b r IH]; intros vs; [reflexivity|]. cbn [fold_left]. rewrite IH. apply bias_restore_length.
  Qed.

  (* ---- no error is raised unless a script event interferes ---------------------------------------- *)
  Definition FSg (b : bias) : Prop :=
    (b_active b = true /\ b_awake b = false /\ b_rc b = 0) \/
    (b_active b = true /\ b_awake b = true /\ b_rc b = 1) \/
    (b_active b = false /\ b_awake b = false /\ b_rc b = 0).

  Lemma wake_self_FSg it (b : bias) : FSg b -> FSg (wake_self it b).
  Proof.
    unfold wake_self, enable_awake_self, disable_awake_self, decr_active_self, disable_active_self, enable_active_self, FSg.
    destruct b as [id tsf vars byp app upd st act rc aw e fs sc fac]. cbn.
    intros [(-> & -> & ->) | [(-> & -> & ->) | (-> & -> & ->)]]; cbn;
      destruct (1 <? tsf); cbn; auto; destruct (on_schedule it tsf); cbn; auto; destruct fixed; cbn; auto.
  Qed.

  Lemma wake_bias_TR_err it b vs :
    TR b (wake_self it b) vs (snd (fst (wake_bias fixed it b vs))) (FSg b -> snd (wake_bias fixed it b vs) = false).
  Proof.
    unfold wake_bias, wake_self. destruct (1 <? b_tsf b).
    2:{ cbn [fst snd]. eapply TR_weaken; [|apply TR_same; [apply same_static_refl | reflexivity]]. auto. }
    destruct (on_schedule it (b_tsf b)).
    - destruct (enable_awake_TR b vs) as [F1 F2].
      destruct (bias_enable_awake b vs) as [b1 vs1]. cbn [fst snd] in *. subst b1.
      eapply TR_weaken; [|exact F2]. auto.
    - destruct (fixed && b_active b && negb (b_awake b)) eqn:Ec.
      + destruct (enable_awake_TR b vs) as [F1 F2].
        destruct (bias_enable_awake b vs) as [b1 vs1]. cbn [fst snd] in *. subst b1.
        destruct (disable_awake_TR (enable_awake_self b) vs1) as [G1 G2].
        destruct (bias_disable_awake (enable_awake_self b) vs1) as [[b2 vs2] e2]. cbn [fst snd] in *. subst b2.
        eapply TR_weaken; [|eapply TR_trans; [exact F2 | exact G2]].
        intros [_ Q] F. apply andb_prop in Ec. destruct Ec as [Ec Ew]. apply andb_prop in Ec. destruct Ec as [_ Ea].
        apply negb_true_iff in Ew.
        assert (Hrc : b_rc b = 0).
        { destruct F as [(_ & _ & X) | [(_ & X & _) | (X & _ & _)]]; congruence. }
        apply Q; unfold enable_awake_self, enable_active_self; rewrite Ew, Ea; destruct b; cbn in *; [reflexivity | lia].
      + destruct (disable_awake_TR b vs) as [G1 G2].
        destruct (bias_disable_awake b vs) as [[b2 vs2] e2] eqn:E. cbn [fst snd] in *. subst b2.
        eapply TR_weaken; [|exact G2].
        intros Q F. destruct (b_awake b) eqn:Ew.
        * apply Q; [reflexivity|]. destruct F as [(_ & X & _) | [(_ & _ & X) | (_ & X & _)]]; try congruence. lia.
        * unfold bias_disable_awake in E. rewrite Ew in E. inversion E. reflexivity.
  Qed.

  Lemma wake_biases_noerr it r : forall pre vs,
    VInv (pre ++ r) vs -> Forall FSg r -> snd (wake_biases fixed it r vs) = false.
  Proof.
    induction r as [|b r IH]; intros pre vs H HF; [reflexivity|].
    inversion HF as [|? ? Fb Fr]; subst.
    cbn [wake_biases].
    pose proof (wake_bias_TR_err it b vs) as F2.
    destruct (wake_bias_TR it b vs) as [F1 _].
    destruct (wake_bias fixed it b vs) as [[b1 vs1] e1]. cbn [fst snd] in *. subst b1.
    destruct (TR_in_context pre b (wake_self it b) r vs vs1 _ F2 H) as [G P].
    specialize (IH (pre ++ [wake_self it b]) vs1). rewrite <- app_assoc in IH. cbn [app] in IH.
    specialize (IH G Fr).
    destruct (wake_biases fixed it r vs1) as [[r' vs2] e2]. cbn [fst snd] in *.
    rewrite (P Fb), IH. reflexivity.
  Qed.

  Lemma wake_var_noerr it r a v : 0 <= r -> VI r a v -> snd (wake_var fixed it v) = false.
  Proof.
    destruct v as [tsf act rc aw ap arc x cs fb fba f].
    unfold VI, wake_var, var_enable_awake, var_disable_awake, var_ref_active, var_decr_active, set_vawake, set_vact. cbn.
    intros Hr (H1 & H2 & H3 & H4).
    destruct (1 <? tsf); [|reflexivity].
    destruct (on_schedule it tsf); [reflexivity|].
    destruct aw; cbn in *.
    - rewrite andb_false_r. cbn. destruct (Z.leb_spec rc 0) as [L|L]; [lia|].
      destruct (rc - 1 =? 0); reflexivity.
    - rewrite andb_true_r. destruct (fixed && act) eqn:Ec; cbn; [|reflexivity].
      destruct act; cbn.
      + destruct (Z.leb_spec (rc + 1) 0) as [L|L]; [lia|]. destruct (rc + 1 - 1 =? 0); reflexivity.
      + reflexivity.
  Qed.

  Lemma calc_vars_noerr it vs : forall xs,
    (forall v, In v vs -> exists r a, 0 <= r /\ VI r a v) -> snd (calc_vars O fixed it vs xs) = false.
  Proof.
    induction vs as [|v r IH]; intros xs H; [reflexivity|].
    cbn [calc_vars].
    destruct (H v (or_introl eq_refl)) as (r0 & a0 & Hr & Hv).
    pose proof (wake_var_noerr it r0 a0 v Hr Hv) as E1.
    destruct (wake_var fixed it v) as [v1 e1]. cbn [snd] in E1. subst e1.
    specialize (IH (tl xs) (fun v' Hv' => H v' (or_intror Hv'))).
    destruct (calc_vars O fixed it r (tl xs)) as [r' e2]. cbn [snd] in *. rewrite IH. reflexivity.
  Qed.

  Lemma add_forces_deps byp t fc ids : forall fs vs,
    forall i v', nth_error (fst (add_forces O byp t fc ids fs vs)) i = Some v' ->
      exists v, nth_error vs i = Some v /\ same_deps v v'.
  Proof.
    induction ids as [|j r IH]; intros fs vs i v' Hi.
    - cbn in Hi. exists v'. split; [exact Hi | unfold same_deps; tauto].
    - destruct fs as [|f fs'].
      + cbn in Hi. exists v'. split; [exact Hi | unfold same_deps; tauto].
      + cbn [add_forces] in Hi.
        set (u := fun v : var => if byp then set_vfb v (v_fb v) (nadd O (v_fba v) (nmul O (nmul O t f) fc))
                                else set_vfb v (nadd O (v_fb v) (nmul O (nmul O t f) fc)) (v_fba v)) in *.
        specialize (IH fs' (upd_nth vs j u) i v').
        destruct (add_forces O byp t fc r fs' (upd_nth vs j u)) as [vs2 e2]. cbn [fst] in *.
        destruct (IH Hi) as (v1 & Hv1 & S1).
        rewrite upd_nth_nth in Hv1. destruct (Nat.eqb i j).
        * destruct (nth_error vs i) as [v0|]; [|discriminate]. cbn in Hv1. inversion Hv1; subst v1.
          exists v0. split; [reflexivity|].
          unfold same_deps in *. unfold u in S1. destruct byp; destruct v0; cbn in *; tauto.
        * exists v1. split; assumption.
  Qed.

  Lemma add_forces_noerr byp t fc ids : forall fs vs,
    (forall i v, In i ids -> nth_error vs i = Some v -> v_apply v = true) ->
    snd (add_forces O byp t fc ids fs vs) = false.
  Proof.
    induction ids as [|j r IH]; intros fs vs H; [reflexivity|].
    destruct fs as [|f fs']; [reflexivity|].
    cbn [add_forces].
    set (u := fun v : var => if byp then set_vfb v (v_fb v) (nadd O (v_fba v) (nmul O (nmul O t f) fc))
                            else set_vfb v (nadd O (v_fb v) (nmul O (nmul O t f) fc)) (v_fba v)).
    assert (E0 : match nth_error vs j with Some v => negb byp && negb (v_apply v) | None => false end = false).
    { destruct (nth_error vs j) as [v|] eqn:E; [|reflexivity].
      rewrite (H j v (or_introl eq_refl) E). apply andb_false_r. }
    rewrite E0.
    specialize (IH fs' (upd_nth vs j u)).
    destruct (add_forces O byp t fc r fs' (upd_nth vs j u)) as [vs2 e2]. cbn [snd] in *. cbn [orb].
    apply IH. intros i v Hin Hi. rewrite upd_nth_nth in Hi. destruct (Nat.eqb i j).
    - destruct (nth_error vs i) as [v0|] eqn:E; [|discriminate]. cbn in Hi. inversion Hi; subst v.
      pose proof (H i v0 (or_intror Hin) E) as A. unfold u. destruct byp; destruct v0; cbn in *; exact A.
    - apply (H i v (or_intror Hin) Hi).
  Qed.

  Lemma arefs_member (bs : list bias) b i : In b bs -> c_app b i <= arefs bs i.
  Proof.
    induction bs as [|b0 l IH]; intros H; [destruct H|]. cbn [arefs].
    destruct H as [->|H].
    - pose proof (arefs_nonneg l i). lia.
    - pose proof (c_app_nonneg b0 i). specialize (IH H). lia.
  Qed.

  Lemma communicate_biases_noerr (bs : list bias) : forall (all : list bias) vs,
    (forall b, In b bs -> In b all) -> VInv all vs ->
    snd (communicate_biases O bs vs) = false /\ VInv all (fst (communicate_biases O bs vs)).
  Proof.
    induction bs as [|b r IH]; intros all vs Hsub H; [cbn; auto|].
    cbn [communicate_biases].
    assert (Hb : snd (communicate_bias O b vs) = false /\ VInv all (fst (communicate_bias O b vs))).
    { unfold communicate_bias. destruct (b_active b && b_apply b) eqn:Eab.
      - split.
        + apply add_forces_noerr. intros i v Hin Hi.
          destruct (H i v Hi) as (_ & V2 & _ & V4). apply V4. rewrite V2.
          pose proof (arefs_member all b i (Hsub b (or_introl eq_refl))) as M.
          unfold c_app in M. rewrite Eab in M.
          assert (0 < cnt (b_vars b) i)%nat by (unfold cnt; apply count_occ_In; exact Hin). lia.
        + intros i v' Hi. destruct (add_forces_deps _ _ _ _ _ _ i v' Hi) as (v & Hv & SD).
          eapply VI_same_deps; [exact SD | apply H; exact Hv].
      - cbn [fst snd]. auto. }
    destruct Hb as [E1 H1].
    destruct (communicate_bias O b vs) as [vs1 e1]. cbn [fst snd] in *. subst e1.
    destruct (IH all vs1 (fun b' Hb' => Hsub b' (or_intror Hb')) H1) as [E2 H2].
    destruct (communicate_biases O r vs1) as [vs2 e2]. cbn [fst snd] in *. subst e2. auto.
  Qed.

  Lemma bias_update_flags it vs (b : bias) :
    let b' := bias_update O it vs b in
    b_active b' = b_active b /\ b_apply b' = b_apply b /\ b_vars b' = b_vars b /\
    b_awake b' = b_awake b /\ b_rc b' = b_rc b.
  Proof.
    cbn zeta. unfold bias_update. destruct (b_active b) eqn:Ea; [|tauto].
    destruct (b_upd b (b_st b) it (values_of O vs (b_vars b))) as [s' [e fs]].
    destruct b; cbn in *; tauto.
  Qed.

  Lemma refs_bias_update it vs (bs : list bias) i :
    refs (map (bias_update O it vs) bs) i = refs bs i /\ arefs (map (bias_update O it vs) bs) i = arefs bs i.
  Proof.
    induction bs as [|b r [IH1 IH2]]; [auto|]. cbn [map refs arefs].
    destruct (bias_update_flags it vs b) as (A1 & A2 & A3 & _).
    unfold c_act, c_app. rewrite A1, A2, A3, IH1, IH2. auto.
  Qed.

  Variable efix : bool.

  (* one calc(): no error, and the biases stay in one of the three regular states *)
  Lemma calc_noerr it vs (bs : list bias) xs :
    VInv bs vs -> Forall FSg bs ->
    snd (fst (calc O fixed efix it vs bs xs)) = false /\
    VInv (snd (fst (fst (calc O fixed efix it vs bs xs)))) (fst (fst (fst (calc O fixed efix it vs bs xs)))) /\
    Forall FSg (snd (fst (fst (calc O fixed efix it vs bs xs)))).
  Proof.
    intros H HF. unfold calc.
    destruct (wake_biases_spec it bs [] vs H) as (W1 & W2 & W3).
    pose proof (wake_biases_noerr it bs [] vs H HF) as W4.
    destruct (wake_biases fixed it bs vs) as [[bs1 vs1] e1]. cbn [fst snd app] in *. subst bs1 e1.
    set (bs1 := map (wake_self it) bs) in *.
    pose proof (VInv_calc_vars it bs1 vs1 xs W2) as C3.
    assert (C4 : snd (calc_vars O fixed it vs1 xs) = false).
    { apply calc_vars_noerr. intros v Hv. apply In_nth_error in Hv. destruct Hv as [i Hi].
      exists (refs bs1 i), (arefs bs1 i). split; [apply refs_nonneg | apply W2; exact Hi]. }
    destruct (calc_vars O fixed it vs1 xs) as [vs2 e2]. cbn [fst snd] in *. subst e2.
    set (vs3 := reset_fb O vs2).
    set (bs2 := map (bias_update O it vs3) bs1).
    assert (V3 : VInv bs2 vs3).
    { intros i v Hi. unfold vs3, reset_fb in Hi. rewrite nth_error_map in Hi.
      destruct (nth_error vs2 i) as [v2|] eqn:E2; [|discriminate]. cbn in Hi. inversion Hi; subst v.
      destruct (refs_bias_update it vs3 bs1 i) as [Q1 Q2]. fold bs2 in Q1, Q2. rewrite Q1, Q2.
      eapply VI_same_deps; [apply same_deps_vfb | apply C3; exact E2]. }
    destruct (communicate_biases_noerr bs2 bs2 vs3 (fun b Hb => Hb) V3) as [E3 V4].
    destruct (communicate_biases O bs2 vs3) as [vs4 e3]. cbn [fst snd] in *. subst e3.
    split; [reflexivity|]. split.
    - intros i v Hi. rewrite nth_error_map in Hi.
      destruct (nth_error vs4 i) as [v4|] eqn:E4; [|discriminate]. cbn in Hi. inversion Hi; subst v.
      eapply VI_same_deps; [|apply V4; exact E4].
      unfold update_force. destruct (v_active v4); apply same_deps_vf.
    - unfold bs2, bs1. rewrite map_map. apply Forall_map.
      eapply Forall_impl; [|exact HF]. intros b Fb.
      pose proof (wake_self_FSg it b Fb) as F1.
      destruct (bias_update_flags it vs3 (wake_self it b)) as (A1 & _ & _ & A4 & A5).
      unfold FSg in *. rewrite A1, A4, A5. exact F1.
  Qed.

End Deps.

(* ================================================================================================== *)
(* Part B: real numbers                                                                                *)
(* ================================================================================================== *)
From Coq Require Import Reals Lra.
From CV Require Import Base.RNum.

Section Real.
  Context {BS : Type}.
  Variables fixed efix : bool.
  Notation var := (@var R).
  Notation bias := (@bias R BS).
  Notation cvc := (@cvc_in R).
  Local Open Scope R_scope.

  Ltac rops := cbn [nadd nsub nmul ndiv nneg n0 n1 nofZ Rops] in *.

  Fixpoint rsum (l : list R) : R := match l with [] => 0 | x :: r => x + rsum r end.

  Lemma rsum_app l1 l2 : rsum (l1 ++ l2) = rsum l1 + rsum l2.
  Proof. induction l1 as [|x r IH]; cbn [rsum app]; [lra | rewrite IH; lra]. Qed.

  Lemma rsum_map_add {A} (f g : A -> R) l : rsum (map (fun x => f x + g x) l) = rsum (map f l) + rsum (map g l).
  Proof. induction l as [|x r IH]; cbn [rsum map]; [lra | rewrite IH; lra]. Qed.

  Lemma rsum_map_scal {A} (c : R) (f : A -> R) l : rsum (map (fun x => c * f x) l) = c * rsum (map f l).
  Proof. induction l as [|x r IH]; cbn [rsum map]; [lra | rewrite IH; lra]. Qed.

  Lemma rsum_map_mulr {A} (c : R) (f : A -> R) l : rsum (map (fun x => f x * c) l) = rsum (map f l) * c.
  Proof. induction l as [|x r IH]; cbn [rsum map]; [lra | rewrite IH; lra]. Qed.

  Lemma rsum_map_zero {A} (f : A -> R) l : (forall x, In x l -> f x = 0) -> rsum (map f l) = 0.
  Proof.
    induction l as [|x r IH]; intros H; cbn [rsum map]; [reflexivity|].
    rewrite (H x (or_introl eq_refl)), IH; [lra|]. intros y Hy; apply H; right; exact Hy.
  Qed.

  Lemma rsum_map_ext {A} (f g : A -> R) l : (forall x, In x l -> f x = g x) -> rsum (map f l) = rsum (map g l).
  Proof.
    induction l as [|x r IH]; intros H; cbn [rsum map]; [reflexivity|].
    rewrite (H x (or_introl eq_refl)), IH; [reflexivity|]. intros y Hy; apply H; right; exact Hy.
  Qed.

  (* sum over a list = sum over its indices *)
  Lemma rsum_index {A} (F : A -> R) (G : nat -> R) (l : list A) : forall off,
    (forall i x, nth_error l i = Some x -> F x = G (off + i)%nat) ->
    rsum (map F l) = rsum (map G (seq off (length l))).
  Proof.
    induction l as [|x r IH]; intros off H; [reflexivity|].
    cbn [map rsum length seq]. rewrite (H 0%nat x eq_refl), Nat.add_0_r. f_equal.
    apply IH. intros i y Hi. rewrite (H (S i) y Hi). f_equal. lia.
  Qed.

  (* ---- closed form of colvar::communicate_forces ------------------------------------------------ *)
  Definition gk (gs : list (nat * R)) (k : nat) : R :=
    rsum (map (fun ag => if Nat.eqb (fst ag) k then snd ag else 0) gs).
  Definition cfac (c : cvc) : R :=
    ci_coeff c * IZR (Z.of_nat (ci_np c)) * ipow Rops (ci_val c) (ci_np c - 1).
  Definition gsum (cs : list cvc) (k : nat) : R :=
    rsum (map (fun c => cfac c * gk (ci_grads c) k) cs).

  Lemma acc_grads_closed k cf gs : forall acc, acc_grads Rops k cf gs acc = acc + cf * gk gs k.
  Proof.
    unfold acc_grads, gk. induction gs as [|ag r IH]; intros acc; cbn [fold_left map rsum]; [lra|].
    rewrite IH. destruct (Nat.eqb (fst ag) k); rops; lra.
  Qed.

  Lemma acc_cvcs_closed k f cs : forall acc,
    fold_left (fun ac c => acc_grads Rops k (cvc_force Rops f c) (ci_grads c) ac) cs acc = acc + f * gsum cs k.
  Proof.
    unfold gsum. induction cs as [|c r IH]; intros acc; cbn [fold_left map rsum]; [lra|].
    rewrite IH, acc_grads_closed. unfold cvc_force, cfac. rops. lra.
  Qed.

  Definition vterm (k : nat) (v : var) : R :=
    if var_applies v then v_f v * gsum (v_cvcs v) k else 0.

  Lemma coord_force_closed vs k : coord_force Rops vs k = rsum (map (vterm k) vs).
  Proof.
    unfold coord_force. rops.
    assert (G : forall acc, fold_left (fun ac v => acc_var Rops k v ac) vs acc = acc + rsum (map (vterm k) vs)).
    { induction vs as [|v r IH]; intros acc; cbn [fold_left map rsum]; [lra|].
      rewrite IH. unfold acc_var, vterm. destruct (var_applies v); [rewrite acc_cvcs_closed|]; lra. }
    rewrite G. lra.
  Qed.

  (* ---- energy ---------------------------------------------------------------------------------------- *)
  Definition EN (bs : list bias) : R :=
    rsum (map (fun b => if counts_energy efix b then b_energy b else 0) bs).

  Lemma total_energy_closed bs : total_energy Rops efix bs = EN bs.
  Proof.
    unfold total_energy, EN. rops.
    assert (G : forall acc, fold_left (fun acc b => if counts_energy efix b then nadd Rops acc (b_energy b) else acc) bs acc
                            = acc + rsum (map (fun b => if counts_energy efix b then b_energy b else 0) bs)).
    { induction bs as [|b r IH]; intros acc; cbn [fold_left map rsum]; [lra|].
      rewrite IH. destruct (counts_energy efix b); rops; lra. }
    rewrite G. lra.
  Qed.

  (* ---- forces from the biases to the variables ---------------------------------------------------- *)
  Fixpoint contrib (ids : list nat) (fs : list R) (i : nat) : R :=
    match ids, fs with
    | j :: ids', f :: fs' => (if Nat.eqb j i then f else 0) + contrib ids' fs' i
    | _, _ => 0
    end.

  Definition bforce (b : bias) (i : nat) : R :=
    if b_active b && b_apply b then IZR (b_tsf b) * b_fac b * contrib (b_vars b) (b_forces b) i else 0.
  Definition VF (bs : list bias) (i : nat) : R := rsum (map (fun b => bforce b i) bs).
  Definition CF (bs : list bias) (xs : list (list cvc)) (nv k : nat) : R :=
    rsum (map (fun i => VF bs i * gsum (nth i xs []) k) (seq 0 nv)).

  Lemma contrib_zero ids : forall fs i, cnt ids i = 0%nat -> contrib ids fs i = 0.
  Proof.
    induction ids as [|j r IH]; intros fs i H; [reflexivity|].
    destruct fs as [|f fs']; [reflexivity|]. cbn [contrib].
    rewrite cnt_cons in H. destruct (Nat.eqb i j) eqn:E; [discriminate|].
    rewrite Nat.eqb_sym, E. rewrite IH; [lra | exact H].
  Qed.

  (* everything but fb/fb_actual is kept, and their sum grows by d *)
  Definition FBrel (d : R) (v v' : var) : Prop :=
    same_deps v v' /\ v_x v' = v_x v /\ v_cvcs v' = v_cvcs v /\
    v_fb v' + v_fba v' = v_fb v + v_fba v + d.

  Lemma FBrel_trans d1 d2 v1 v2 v3 : FBrel d1 v1 v2 -> FBrel d2 v2 v3 -> FBrel (d1 + d2) v1 v3.
  Proof.
    unfold FBrel, same_deps. intros (S1 & X1 & C1 & F1) (S2 & X2 & C2 & F2).
    repeat split; try (intuition congruence). lra.
  Qed.

  Lemma FBrel_refl v : FBrel 0 v v.
  Proof. unfold FBrel, same_deps. repeat split; lra. Qed.

  Lemma add_forces_rel byp t fc ids : forall fs vs,
    length (fst (add_forces Rops byp t fc ids fs vs)) = length vs /\
    forall i v, nth_error vs i = Some v ->
      exists v', nth_error (fst (add_forces Rops byp t fc ids fs vs)) i = Some v' /\ FBrel (t * fc * contrib ids fs i) v v'.
  Proof.
    induction ids as [|j r IH]; intros fs vs.
    - cbn [add_forces fst contrib]. split; [reflexivity|]. intros i v Hi. exists v. split; [exact Hi|].
      rewrite Rmult_0_r. apply FBrel_refl.
    - destruct fs as [|f fs'].
      + cbn [add_forces fst contrib]. split; [reflexivity|]. intros i v Hi. exists v. split; [exact Hi|].
        rewrite Rmult_0_r. apply FBrel_refl.
      + cbn [add_forces contrib].
        set (u := fun v : var => if byp then set_vfb v (v_fb v) (nadd Rops (v_fba v) (nmul Rops (nmul Rops t f) fc))
                                else set_vfb v (nadd Rops (v_fb v) (nmul Rops (nmul Rops t f) fc)) (v_fba v)).
        destruct (IH fs' (upd_nth vs j u)) as [L1 H1].
        destruct (add_forces Rops byp t fc r fs' (upd_nth vs j u)) as [vs2 e2]. cbn [fst] in *.
        split; [rewrite L1; apply upd_nth_length|].
        intros i v Hi.
        assert (Hu : exists v1, nth_error (upd_nth vs j u) i = Some v1 /\ FBrel (if Nat.eqb j i then t * f * fc else 0) v v1).
        { rewrite upd_nth_nth, Hi. rewrite (Nat.eqb_sym j i). destruct (Nat.eqb i j).
          - cbn [option_map]. eexists; split; [reflexivity|].
            unfold u, FBrel, same_deps. destruct byp; destruct v; cbn; rops; repeat split; lra.
          - exists v. split; [reflexivity | apply FBrel_refl]. }
        destruct Hu as (v1 & Hv1 & R1).
        destruct (H1 i v1 Hv1) as (v' & Hv' & R2).
        exists v'. split; [exact Hv'|].
        replace (t * fc * ((if Nat.eqb j i then f else 0) + contrib r fs' i))
          with ((if Nat.eqb j i then t * f * fc else 0) + t * fc * contrib r fs' i) by (destruct (Nat.eqb j i); lra).
        eapply FBrel_trans; eassumption.
  Qed.

  Lemma communicate_bias_rel b vs :
    length (fst (communicate_bias Rops b vs)) = length vs /\
    forall i v, nth_error vs i = Some v ->
      exists v', nth_error (fst (communicate_bias Rops b vs)) i = Some v' /\ FBrel (bforce b i) v v'.
  Proof.
    unfold communicate_bias, bforce. destruct (b_active b && b_apply b).
    - apply add_forces_rel.
    - cbn [fst]. split; [reflexivity|]. intros i v Hi. exists v. split; [exact Hi | apply FBrel_refl].
  Qed.

  Lemma communicate_biases_rel bs : forall vs,
    length (fst (communicate_biases Rops bs vs)) = length vs /\
    forall i v, nth_error vs i = Some v ->
      exists v', nth_error (fst (communicate_biases Rops bs vs)) i = Some v' /\ FBrel (VF bs i) v v'.
  Proof.
    induction bs as [|b r IH]; intros vs.
    - cbn [communicate_biases fst]. split; [reflexivity|]. intros i v Hi. exists v. split; [exact Hi | apply FBrel_refl].
    - cbn [communicate_biases].
      destruct (communicate_bias_rel b vs) as [L1 H1].
      destruct (communicate_bias Rops b vs) as [vs1 e1]. cbn [fst] in *.
      destruct (IH vs1) as [L2 H2].
      destruct (communicate_biases Rops r vs1) as [vs2 e2]. cbn [fst] in *.
      split; [congruence|]. intros i v Hi.
      destruct (H1 i v Hi) as (v1 & Hv1 & R1). destruct (H2 i v1 Hv1) as (v2 & Hv2 & R2).
      exists v2. split; [exact Hv2|]. unfold VF. cbn [map rsum]. eapply FBrel_trans; eassumption.
  Qed.

  (* the same, separately for fb (biases acting on the reported / extended coordinate) and fb_actual (biases with
     bypassExtendedLagrangian, acting on the actual coordinate): both carry the bias's own time-step factor *)
  Definition bforce_n (b : bias) (i : nat) : R := if b_bypass b then 0 else bforce b i.
  Definition bforce_a (b : bias) (i : nat) : R := if b_bypass b then bforce b i else 0.
  Definition VFn (bs : list bias) (i : nat) : R := rsum (map (fun b => bforce_n b i) bs).
  Definition VFa (bs : list bias) (i : nat) : R := rsum (map (fun b => bforce_a b i) bs).

  Lemma VF_split (bs : list bias) i : VF bs i = VFn bs i + VFa bs i.
  Proof.
    unfold VF, VFn, VFa. rewrite <- rsum_map_add. apply rsum_map_ext. intros b _.
    unfold bforce_n, bforce_a. destruct (b_bypass b); lra.
  Qed.

  Lemma add_forces_fb byp t fc ids : forall fs vs i v,
    nth_error vs i = Some v ->
    exists v', nth_error (fst (add_forces Rops byp t fc ids fs vs)) i = Some v' /\
               v_fb v' = v_fb v + (if byp then 0 else t * fc * contrib ids fs i).
  Proof.
    induction ids as [|j r IH]; intros fs vs i v Hi.
    - cbn [add_forces fst contrib]. exists v. split; [exact Hi|]. destruct byp; lra.
    - destruct fs as [|f fs'].
      + cbn [add_forces fst contrib]. exists v. split; [exact Hi|]. destruct byp; lra.
      + cbn [add_forces contrib].
        set (u := fun v : var => if byp then set_vfb v (v_fb v) (nadd Rops (v_fba v) (nmul Rops (nmul Rops t f) fc))
                                else set_vfb v (nadd Rops (v_fb v) (nmul Rops (nmul Rops t f) fc)) (v_fba v)).
        specialize (IH fs' (upd_nth vs j u) i).
        destruct (add_forces Rops byp t fc r fs' (upd_nth vs j u)) as [vs2 e2]. cbn [fst] in *.
        assert (Hu : exists v1, nth_error (upd_nth vs j u) i = Some v1 /\
                                v_fb v1 = v_fb v + (if byp then 0 else if Nat.eqb j i then t * f * fc else 0)).
        { rewrite upd_nth_nth, Hi. rewrite (Nat.eqb_sym j i). destruct (Nat.eqb i j).
          - cbn [option_map]. eexists; split; [reflexivity|]. unfold u. destruct byp; destruct v; cbn; rops; lra.
          - exists v. split; [reflexivity|]. destruct byp; lra. }
        destruct Hu as (v1 & Hv1 & R1). destruct (IH v1 Hv1) as (v' & Hv' & R2).
        exists v'. split; [exact Hv'|]. rewrite R2, R1. destruct byp; [lra|]. destruct (Nat.eqb j i); lra.
  Qed.

  Lemma communicate_biases_fb bs : forall vs i v,
    nth_error vs i = Some v ->
    exists v', nth_error (fst (communicate_biases Rops bs vs)) i = Some v' /\ v_fb v' = v_fb v + VFn bs i.
  Proof.
    induction bs as [|b r IH]; intros vs i v Hi.
    - cbn [communicate_biases fst]. exists v. split; [exact Hi|]. unfold VFn. cbn. lra.
    - cbn [communicate_biases].
      assert (H1 : exists v1, nth_error (fst (communicate_bias Rops b vs)) i = Some v1 /\ v_fb v1 = v_fb v + bforce_n b i).
      { unfold communicate_bias, bforce_n, bforce. destruct (b_active b && b_apply b).
        - destruct (add_forces_fb (b_bypass b) (nofZ Rops (b_tsf b)) (b_fac b) (b_vars b) (b_forces b) vs i v Hi) as (v1 & A & B).
          exists v1. split; [exact A|]. rewrite B. destruct (b_bypass b); rops; lra.
        - cbn [fst]. exists v. split; [exact Hi|]. destruct (b_bypass b); lra. }
      destruct (communicate_bias Rops b vs) as [vs1 e1]. cbn [fst] in *.
      destruct H1 as (v1 & Hv1 & R1). destruct (IH vs1 i v1 Hv1) as (v2 & Hv2 & R2).
      destruct (communicate_biases Rops r vs1) as [vs2 e2]. cbn [fst] in *.
      exists v2. split; [exact Hv2|]. unfold VFn in *. cbn [map rsum]. lra.
  Qed.

  (* no reference from an active applying bias: no force *)
  Lemma bforce_zero (b : bias) i : c_app b i = 0%Z -> bforce b i = 0.
  Proof.
    unfold c_app, bforce. destruct (b_active b && b_apply b); [|reflexivity].
    intros H. rewrite contrib_zero; [lra | lia].
  Qed.

  Lemma VF_zero (bs : list bias) i : arefs bs i = 0%Z -> VF bs i = 0.
  Proof.
    unfold VF. induction bs as [|b r IH]; intros H; [reflexivity|].
    cbn [arefs] in H. cbn [map rsum].
    pose proof (c_app_nonneg b i). pose proof (arefs_nonneg r i).
    rewrite bforce_zero, IH; [lra | lia | lia].
  Qed.

  Lemma c_app_le_act (b : bias) i : (c_app b i <= c_act b i)%Z.
  Proof. unfold c_app, c_act. destruct (b_active b), (b_apply b); cbn [andb]; lia. Qed.

  Lemma arefs_le_refs (bs : list bias) i : (arefs bs i <= refs bs i)%Z.
  Proof. induction bs as [|b r IH]; cbn [arefs refs]; [lia|]. pose proof (c_app_le_act b i). lia. Qed.

  (* ---- the biases' side of one calc(): a pure function of the bias and of this step's values ----- *)
  Definition fresh (nv : nat) (xs : list (list cvc)) (i : nat) : R :=
    if (i <? nv)%nat then var_value Rops (nth i xs []) else 0.

  Definition bias_update_pure (it : Z) (nv : nat) (xs : list (list cvc)) (b : bias) : bias :=
    if b_active b then
      let '(s', (e, fs)) := b_upd b (b_st b) it (map (fresh nv xs) (b_vars b)) in
      set_bout b s' e fs (b_scale b (map (fresh nv xs) (b_vars b)))
    else b.

  Definition bias_step (it : Z) (nv : nat) (xs : list (list cvc)) (b : bias) : bias :=
    bias_update_pure it nv xs (wake_self fixed it b).

  Lemma calc_one_active it (v : var) cs :
    v_active (calc_one Rops fixed it v cs) = true ->
    v_x (calc_one Rops fixed it v cs) = var_value Rops cs /\ v_cvcs (calc_one Rops fixed it v cs) = cs.
  Proof.
    unfold calc_one. cbn zeta. destruct (v_active (fst (wake_var fixed it v))) eqn:E.
    - intros _. destruct (fst (wake_var fixed it v)); cbn; auto.
    - rewrite E. discriminate.
  Qed.

  Lemma refs_member (bs : list bias) b i : In b bs -> (c_act b i <= refs bs i)%Z.
  Proof.
    induction bs as [|b0 r IH]; intros H; [destruct H|]. cbn [refs].
    destruct H as [->|H].
    - pose proof (refs_nonneg r i). lia.
    - pose proof (c_act_nonneg b0 i). specialize (IH H). lia.
  Qed.

  Lemma values_of_fresh it (bs : list bias) vs1 xs b :
    VInv bs vs1 -> In b bs -> b_active b = true ->
    values_of Rops (reset_fb Rops (fst (calc_vars Rops fixed it vs1 xs))) (b_vars b) =
    map (fresh (length vs1) xs) (b_vars b).
  Proof.
    intros H Hb Ha. unfold values_of. apply map_ext_in. intros j Hj.
    unfold fresh. destruct (Nat.ltb_spec j (length vs1)) as [L|L].
    - destruct (nth_error vs1 j) as [v1|] eqn:E1; [|apply nth_error_None in E1; lia].
      assert (E3 : nth_error (reset_fb Rops (fst (calc_vars Rops fixed it vs1 xs))) j =
                   Some (set_vfb (calc_one Rops fixed it v1 (nth j xs [])) 0 0)).
      { unfold reset_fb. rewrite nth_error_map, calc_vars_nth, E1. reflexivity. }
      rewrite (nth_error_nth _ _ _ E3).
      assert (Hact : v_active (calc_one Rops fixed it v1 (nth j xs [])) = true).
      { pose proof (VI_calc_one Rops fixed it (refs bs j) (arefs bs j) v1 (nth j xs []) (refs_nonneg bs j) (H j v1 E1)) as (V1 & V2 & V3 & V4).
        apply V3. pose proof (refs_member bs b j Hb) as M. unfold c_act in M. rewrite Ha in M.
        assert (0 < cnt (b_vars b) j)%nat by (unfold cnt; apply count_occ_In; exact Hj).
        destruct (v_awake (calc_one Rops fixed it v1 (nth j xs []))); cbn [b2z] in V1; lia. }
      destruct (calc_one_active it v1 (nth j xs []) Hact) as [X1 _].
      destruct (calc_one Rops fixed it v1 (nth j xs [])); cbn in *; exact X1.
    - rewrite nth_overflow; [reflexivity|].
      unfold reset_fb. rewrite map_length, calc_vars_length. exact L.
  Qed.

  Lemma c_update_pure it nv xs (b : bias) i :
    c_act (bias_update_pure it nv xs b) i = c_act b i /\ c_app (bias_update_pure it nv xs b) i = c_app b i.
  Proof.
    unfold bias_update_pure. destruct (b_active b) eqn:Ea; [|auto].
    destruct (b_upd b (b_st b) it (map (fresh nv xs) (b_vars b))) as [s' [e fs]].
    unfold c_act, c_app. destruct b; cbn in *; auto.
  Qed.

  Lemma refs_update_pure it nv xs (bs : list bias) i :
    refs (map (bias_update_pure it nv xs) bs) i = refs bs i /\
    arefs (map (bias_update_pure it nv xs) bs) i = arefs bs i.
  Proof.
    induction bs as [|b r [IH1 IH2]]; [auto|]. cbn [map refs arefs].
    destruct (c_update_pure it nv xs b i) as [-> ->]. rewrite IH1, IH2. auto.
  Qed.

  Lemma vterm_final k (v2 v4 : var) cs D r a :
    VI r a v2 -> (0 <= r)%Z -> (0 <= a)%Z -> (a <= r)%Z -> (a = 0%Z -> D = 0) ->
    (v_active v2 = true -> v_cvcs v2 = cs) ->
    FBrel D (set_vfb v2 0 0) v4 ->
    vterm k (update_force Rops v4) = D * gsum cs k /\ same_deps v2 (update_force Rops v4).
  Proof.
    intros (V1 & V2 & V3 & V4) Hr Ha Har HD Hcs ((S1 & S2 & S3 & S4 & S5 & S6) & X & C & F).
    destruct v2 as [tsf2 act2 rc2 aw2 ap2 arc2 x2 cs2 fb2 fba2 f2].
    destruct v4 as [tsf4 act4 rc4 aw4 ap4 arc4 x4 cs4 fb4 fba4 f4].
    cbn in *. subst act4 rc4 aw4 ap4 arc4 tsf4 x4 cs4.
    unfold vterm, update_force, var_applies, same_deps. cbn.
    destruct act2; cbn.
    - split; [|tauto]. destruct ap2; cbn.
      + rewrite (Hcs eq_refl). rops. replace (0 + fb4 + fba4) with D by lra. reflexivity.
      + assert (a = 0%Z) as Ha0.
        { destruct (Z_lt_dec 0 arc2) as [l|l]; [apply V4 in l; discriminate | lia]. }
        rewrite (HD Ha0). lra.
    - split; [|tauto].
      assert (r = 0%Z) as Hr0.
      { destruct (Z_lt_dec 0 rc2) as [l|l]; [specialize (V3 l); discriminate|]. destruct aw2; cbn [b2z] in V1; lia. }
      rewrite HD; [lra | lia].
  Qed.

  (* ---- one calc(): closed form ------------------------------------------------------------------------ *)
  Definition var_sched (it : Z) (v : var) : Prop :=
    fixed = true -> (1 <? v_tsf v)%Z = true ->
    v_awake v = on_schedule it (v_tsf v) /\ v_active v = (0 <? v_rc v)%Z.

  Lemma calc_closed_full it vs (bs : list bias) xs :
    VInv bs vs ->
    let r := calc Rops fixed efix it vs bs xs in
    let bs2 := map (bias_step it (length vs) xs) bs in
    snd (fst (fst r)) = bs2 /\ VInv bs2 (fst (fst (fst r))) /\ length (fst (fst (fst r))) = length vs /\
    snd r = EN bs2 /\ (forall k, coord_force Rops (fst (fst (fst r))) k = CF bs2 xs (length vs) k) /\
    Forall (var_sched it) (fst (fst (fst r))) /\
    (forall i v, nth_error (fst (fst (fst r))) i = Some v -> v_fb v = VFn bs2 i /\ v_fba v = VFa bs2 i).
  Proof.
    intros H. cbn zeta. unfold calc.
    destruct (wake_biases_spec fixed it bs [] vs H) as (W1 & W2 & W3).
    destruct (wake_biases fixed it bs vs) as [[bs1' vs1] e1]. cbn [fst snd app] in *. subst bs1'.
    set (bs1 := map (wake_self fixed it) bs) in *.
    pose proof (calc_vars_nth Rops fixed it vs1 xs) as C1.
    pose proof (calc_vars_length Rops fixed it vs1 xs) as C2.
    pose proof (VInv_calc_vars Rops fixed it bs1 vs1 xs W2) as C3.
    assert (U : map (bias_update Rops it (reset_fb Rops (fst (calc_vars Rops fixed it vs1 xs)))) bs1
                = map (bias_update_pure it (length vs) xs) bs1).
    { apply map_ext_in. intros b Hb. unfold bias_update, bias_update_pure.
      destruct (b_active b) eqn:Ea; [|reflexivity].
      rewrite (values_of_fresh it bs1 vs1 xs b W2 Hb Ea), W3. reflexivity. }
    destruct (calc_vars Rops fixed it vs1 xs) as [vs2 e2]. cbn [fst] in *.
    rewrite U.
    set (bs2 := map (bias_update_pure it (length vs) xs) bs1) in *.
    assert (B2 : bs2 = map (bias_step it (length vs) xs) bs).
    { unfold bs2, bs1, bias_step. rewrite map_map. reflexivity. }
    destruct (communicate_biases_rel bs2 (reset_fb Rops vs2)) as [L4 H4].
    pose proof (communicate_biases_fb bs2 (reset_fb Rops vs2)) as H4f.
    destruct (communicate_biases Rops bs2 (reset_fb Rops vs2)) as [vs4 e3]. cbn [fst snd] in *.
    rewrite <- B2.
    assert (L3 : length (reset_fb Rops vs2) = length vs2) by (unfold reset_fb; apply map_length).
    (* per-variable description of the final list *)
    assert (P : forall i v5, nth_error (map (update_force Rops) vs4) i = Some v5 ->
              exists v2, nth_error vs2 i = Some v2 /\ same_deps v2 v5 /\
                         (forall k, vterm k v5 = VF bs2 i * gsum (nth i xs []) k) /\ var_sched it v2 /\
                         v_fb v5 = VFn bs2 i /\ v_fba v5 = VFa bs2 i).
    { intros i v5 Hi. rewrite nth_error_map in Hi.
      destruct (nth_error vs4 i) as [v4|] eqn:E4; [|discriminate]. cbn in Hi. inversion Hi; subst v5. clear Hi.
      assert (Li : (i < length vs2)%nat).
      { assert (i < length vs4)%nat by (apply nth_error_Some; congruence). lia. }
      destruct (nth_error vs2 i) as [v2|] eqn:E2; [|apply nth_error_None in E2; lia].
      assert (E3 : nth_error (reset_fb Rops vs2) i = Some (set_vfb v2 0 0)).
      { unfold reset_fb. rewrite nth_error_map, E2. reflexivity. }
      destruct (H4 i _ E3) as (v4' & E4' & Rel). rewrite E4 in E4'. inversion E4'; subst v4'. clear E4'.
      exists v2. split; [reflexivity|].
      destruct (refs_update_pure it (length vs) xs bs1 i) as [Q1 Q2]. fold bs2 in Q1, Q2.
      assert (Hcs : (v_active v2 = true -> v_cvcs v2 = nth i xs []) /\ var_sched it v2).
      { rewrite C1 in E2. destruct (nth_error vs1 i) as [v1|] eqn:E1; [|discriminate]. cbn in E2. inversion E2; subst v2.
        split; [intros A; apply (calc_one_active it v1 (nth i xs []) A)|].
        intros Hf Ht.
        pose proof (VI_calc_one Rops fixed it _ _ v1 (nth i xs []) (refs_nonneg bs1 i) (W2 i v1 E1)) as _.
        assert (Ht1 : (1 <? v_tsf v1)%Z = true).
        { unfold calc_one in Ht. cbn zeta in Ht.
          assert (Tw : v_tsf (fst (wake_var fixed it v1)) = v_tsf v1).
          { unfold wake_var, var_enable_awake, var_disable_awake, var_ref_active, var_decr_active, set_vawake, set_vact.
            destruct v1 as [tsf act rc aw ap arc x cs0 fb fba f]. cbn.
            repeat match goal with |- context [if ?c then _ else _] => destruct c; cbn end; reflexivity. }
          destruct (v_active (fst (wake_var fixed it v1))); [|congruence].
          destruct (fst (wake_var fixed it v1)); cbn in *; congruence. }
        destruct (calc_one_sched Rops fixed it _ _ v1 (nth i xs []) Hf (refs_nonneg bs1 i) (W2 i v1 E1) Ht1) as (S1 & S2 & S3).
        rewrite S1. split; assumption. }
      destruct Hcs as [Hcs Hsch].
      assert (G : forall k, vterm k (update_force Rops v4) = VF bs2 i * gsum (nth i xs []) k /\
                            same_deps v2 (update_force Rops v4)).
      { intros k. apply (vterm_final k v2 v4 (nth i xs []) (VF bs2 i) (refs bs1 i) (arefs bs1 i)).
        - apply C3; exact E2.
        - apply refs_nonneg.
        - apply arefs_nonneg.
        - apply arefs_le_refs.
        - intros Z0. apply VF_zero. rewrite Q2. exact Z0.
        - exact Hcs.
        - exact Rel. }
      split; [apply (G 0%nat)|]. split; [intros k; apply (G k)|]. split; [exact Hsch|].
      destruct (H4f i _ E3) as (v4' & E4' & Rfb). rewrite E4 in E4'. inversion E4'; subst v4'. clear E4'.
      destruct Rel as (_ & _ & _ & Rsum).
      assert (F1 : v_fb v4 = VFn bs2 i) by (rewrite Rfb; destruct v2; cbn; lra).
      assert (F2 : v_fba v4 = VFa bs2 i).
      { pose proof (VF_split bs2 i) as Sp. destruct v2; cbn in *; lra. }
      unfold update_force. destruct (v_active v4); destruct v4; cbn in *; auto. }
    split; [reflexivity|]. split; [|split; [|split; [|split; [|split]]]].
    - (* VInv *)
      intros i v5 Hi. destruct (P i v5 Hi) as (v2 & E2 & SD & _ & _).
      destruct (refs_update_pure it (length vs) xs bs1 i) as [Q1 Q2]. fold bs2 in Q1, Q2.
      unfold VInv in *. rewrite Q1, Q2. eapply VI_same_deps; [exact SD | apply C3; exact E2].
    - rewrite map_length. lia.
    - apply total_energy_closed.
    - intros k. rewrite coord_force_closed. unfold CF.
      replace (length vs) with (length (map (update_force Rops) vs4)) by (rewrite map_length; lia).
      apply rsum_index. intros i v5 Hi. destruct (P i v5 Hi) as (_ & _ & _ & G & _ & _). cbn [Nat.add]. apply G.
    - apply Forall_forall. intros v5 Hv. apply In_nth_error in Hv. destruct Hv as [i Hi].
      destruct (P i v5 Hi) as (v2 & _ & (D1 & D2 & D3 & _ & _ & D6) & _ & Hs & _).
      intros Hf Ht. unfold var_sched in Hs. rewrite D6 in Ht |- *. rewrite D1, D2, D3. apply Hs; assumption.
    - intros i v5 Hi. destruct (P i v5 Hi) as (_ & _ & _ & _ & _ & F1 & F2). auto.
  Qed.

  Lemma calc_closed it vs (bs : list bias) xs :
    VInv bs vs ->
    let r := calc Rops fixed efix it vs bs xs in
    let bs2 := map (bias_step it (length vs) xs) bs in
    snd (fst (fst r)) = bs2 /\ VInv bs2 (fst (fst (fst r))) /\ length (fst (fst (fst r))) = length vs /\
    snd r = EN bs2 /\ forall k, coord_force Rops (fst (fst (fst r))) k = CF bs2 xs (length vs) k.
  Proof. intros H. destruct (calc_closed_full it vs bs xs H) as (A & B & C & D & E & _ & _). auto. Qed.

  (* ---- whole runs ------------------------------------------------------------------------------------ *)
  (* the history of the biases is a function of the biases, the step numbers and the imposed values *)
  Definition bst := (Z * bool * list bias)%type.
  Definition sout := (Z * list bias * list (list cvc))%type.

  Definition bstep (nv : nat) (s : bst) (ev : @event R) : bst * list sout :=
    let '(it, first, bs) := s in
    match ev with
    | EStep xs =>
      let it' := if first then it else (it + 1)%Z in
      let bs' := map (bias_step it' nv xs) bs in ((it', false, bs'), [(it', bs', xs)])
    | ERepeat xs =>
      let bs' := map (bias_step it nv xs) bs in ((it, false, bs'), [(it, bs', xs)])
    | ESetActive id on => ((it, first, map (set_active_self id on) bs), [])
    | ESetApply id on => ((it, first, map (set_apply_self id on) bs), [])
    end.

  Fixpoint btrace (nv : nat) (s : bst) (evs : list (@event R)) : list sout :=
    match evs with
    | [] => []
    | ev :: r => let '(s', o) := bstep nv s ev in o ++ btrace nv s' r
    end.

  Definition out_ok (nv : nat) (o : @out R BS) (t : sout) : Prop :=
    let '(it, bs, xs) := t in
    o_it o = it /\ o_biases o = bs /\ o_energy o = EN bs /\
    forall k, coord_force Rops (o_vars o) k = CF bs xs nv k.

  Definition StInv (m : @mstate R BS) : Prop := VInv (m_biases m) (m_vars m).

  Lemma do_calc_closed (m : @mstate R BS) it xs :
    StInv m ->
    let r := do_calc Rops fixed efix m it xs in
    let bs' := map (bias_step it (length (m_vars m)) xs) (m_biases m) in
    StInv (fst r) /\ length (m_vars (fst r)) = length (m_vars m) /\
    m_it (fst r) = it /\ m_first (fst r) = false /\ m_biases (fst r) = bs' /\
    Forall2 (out_ok (length (m_vars m))) (snd r) [(it, bs', xs)].
  Proof.
    intros H. cbn zeta. unfold do_calc.
    pose proof (calc_closed it (m_vars m) (m_biases m) xs H) as C. cbn zeta in C.
    destruct (calc Rops fixed efix it (m_vars m) (m_biases m) xs) as [[[vs bs] e] en].
    cbn [fst snd] in *. destruct C as (C1 & C2 & C3 & C4 & C5). subst bs.
    unfold StInv. cbn [m_vars m_biases m_it m_first].
    repeat (split; [first [assumption | reflexivity]|]).
    constructor; [|constructor]. unfold out_ok. cbn [o_it o_biases o_energy o_vars]. auto.
  Qed.

  Lemma run_closed evs : forall (m : @mstate R BS),
    StInv m ->
    Forall2 (out_ok (length (m_vars m))) (run Rops fixed efix m evs)
            (btrace (length (m_vars m)) (m_it m, m_first m, m_biases m) evs).
  Proof.
    induction evs as [|ev r IH]; intros m H; [constructor|].
    cbn [run btrace].
    destruct ev as [xs|xs|id on|id on]; cbn [mstep bstep].
    - pose proof (do_calc_closed m (if m_first m then m_it m else (m_it m + 1)%Z) xs H) as D. cbn zeta in D.
      destruct (do_calc Rops fixed efix m (if m_first m then m_it m else (m_it m + 1)%Z) xs) as [m' o].
      cbn [fst snd] in D. destruct D as (D1 & D2 & D3 & D4 & D5 & D6).
      apply Forall2_app; [exact D6|].
      specialize (IH m' D1). rewrite D2, D3, D4, D5 in IH. exact IH.
    - pose proof (do_calc_closed m (m_it m) xs H) as D. cbn zeta in D.
      destruct (do_calc Rops fixed efix m (m_it m) xs) as [m' o].
      cbn [fst snd] in D. destruct D as (D1 & D2 & D3 & D4 & D5 & D6).
      apply Forall2_app; [exact D6|].
      specialize (IH m' D1). rewrite D2, D3, D4, D5 in IH. exact IH.
    - destruct (set_active_spec id on (m_biases m) [] (m_vars m) H) as (S1 & S2 & S3).
      destruct (set_active id on (m_biases m) (m_vars m)) as [[bs vs] e]. cbn [fst snd app] in *. subst bs.
      cbn [app].
      specialize (IH (mkM (m_it m) (m_first m) vs (map (set_active_self id on) (m_biases m))) S2).
      cbn [m_vars m_it m_first m_biases] in IH. rewrite S3 in IH. exact IH.
    - destruct (set_apply_spec id on (m_biases m) [] (m_vars m) H) as (S1 & S2 & S3).
      destruct (set_apply id on (m_biases m) (m_vars m)) as [[bs vs] e]. cbn [fst snd app] in *. subst bs.
      cbn [app].
      specialize (IH (mkM (m_it m) (m_first m) vs (map (set_apply_self id on) (m_biases m))) S2).
      cbn [m_vars m_it m_first m_biases] in IH. rewrite S3 in IH. exact IH.
  Qed.

  Lemma init_StInv it0 tsfs (cfgs : list (@bias_cfg R BS)) : StInv (init Rops it0 tsfs cfgs).
  Proof.
    unfold StInv, init. cbn [m_vars m_biases].
    apply (VInv_init_refs (map (init_bias Rops) cfgs) [] (map (init_var Rops) tsfs)).
    - intros b Hb. apply in_map_iff in Hb. destruct Hb as (c & <- & _). reflexivity.
    - apply VInv_init_vars.
  Qed.

  Lemma init_nv it0 tsfs (cfgs : list (@bias_cfg R BS)) : length (m_vars (init Rops it0 tsfs cfgs)) = length tsfs.
  Proof. unfold init. cbn [m_vars]. rewrite init_refs_length, map_length. reflexivity. Qed.

  Theorem run_cfg_closed it0 tsfs (cfgs : list (@bias_cfg R BS)) evs :
    Forall2 (out_ok (length tsfs)) (run_cfg Rops fixed efix it0 tsfs cfgs evs)
            (btrace (length tsfs) (it0, true, map (init_bias Rops) cfgs) evs).
  Proof.
    unfold run_cfg. pose proof (run_closed evs _ (init_StInv it0 tsfs cfgs)) as H.
    rewrite init_nv in H. exact H.
  Qed.

  (* ---- the schedule of a variable with its own factor -------------------------------------------------- *)
  Definition var_sched_out (o : @out R BS) : Prop :=
    forall i v, nth_error (o_vars o) i = Some v -> (1 <? v_tsf v)%Z = true ->
      v_active v = on_schedule (o_it o) (v_tsf v) || (0 <? refs (o_biases o) i)%Z.

  Lemma do_calc_sched (m : @mstate R BS) it xs :
    fixed = true -> StInv m -> Forall var_sched_out (snd (do_calc Rops fixed efix m it xs)).
  Proof.
    intros Hf H. unfold do_calc.
    pose proof (calc_closed_full it (m_vars m) (m_biases m) xs H) as C. cbn zeta in C.
    destruct (calc Rops fixed efix it (m_vars m) (m_biases m) xs) as [[[vs bs] e] en].
    cbn [fst snd] in *. destruct C as (C1 & C2 & C3 & C4 & C5 & C6 & _).
    constructor; [|constructor]. unfold var_sched_out. cbn [o_vars o_it o_biases].
    intros i v Hi Ht.
    assert (Hin : In v vs) by (eapply nth_error_In; exact Hi).
    rewrite Forall_forall in C6. destruct (C6 v Hin Hf Ht) as [S1 S2].
    rewrite C1. destruct (C2 i v Hi) as (V1 & _). rewrite S2, V1, S1.
    pose proof (refs_nonneg (map (bias_step it (length (m_vars m)) xs) (m_biases m)) i) as Hn.
    destruct (on_schedule it (v_tsf v)); cbn [b2z orb].
    - apply Z.ltb_lt. lia.
    - f_equal. lia.
  Qed.

  Lemma run_var_sched evs : forall (m : @mstate R BS),
    fixed = true -> StInv m -> Forall var_sched_out (run Rops fixed efix m evs).
  Proof.
    induction evs as [|ev r IH]; intros m Hf H; [constructor|].
    cbn [run]. destruct ev as [xs|xs|id on|id on]; cbn [mstep].
    - pose proof (do_calc_sched m (if m_first m then m_it m else (m_it m + 1)%Z) xs Hf H) as S.
      pose proof (do_calc_closed m (if m_first m then m_it m else (m_it m + 1)%Z) xs H) as D. cbn zeta in D.
      destruct (do_calc Rops fixed efix m (if m_first m then m_it m else (m_it m + 1)%Z) xs) as [m' o].
      cbn [fst snd] in *. destruct D as (D1 & _). apply Forall_app. split; [exact S | apply IH; assumption].
    - pose proof (do_calc_sched m (m_it m) xs Hf H) as S.
      pose proof (do_calc_closed m (m_it m) xs H) as D. cbn zeta in D.
      destruct (do_calc Rops fixed efix m (m_it m) xs) as [m' o].
      cbn [fst snd] in *. destruct D as (D1 & _). apply Forall_app. split; [exact S | apply IH; assumption].
    - destruct (set_active_spec id on (m_biases m) [] (m_vars m) H) as (S1 & S2 & S3).
      destruct (set_active id on (m_biases m) (m_vars m)) as [[bs vs] e]. cbn [fst snd app] in *. subst bs.
      cbn [app]. apply IH; [exact Hf | exact S2].
    - destruct (set_apply_spec id on (m_biases m) [] (m_vars m) H) as (S1 & S2 & S3).
      destruct (set_apply id on (m_biases m) (m_vars m)) as [[bs vs] e]. cbn [fst snd app] in *. subst bs.
      cbn [app]. apply IH; [exact Hf | exact S2].
  Qed.

  Theorem variable_schedule it0 tsfs (cfgs : list (@bias_cfg R BS)) evs :
    fixed = true -> Forall var_sched_out (run_cfg Rops fixed efix it0 tsfs cfgs evs).
  Proof. intros Hf. unfold run_cfg. apply run_var_sched; [exact Hf | apply init_StInv]. Qed.

  (* ---- routing: what reaches fb and what reaches fb_actual -------------------------------------------- *)
  Definition fb_routing_out (o : @out R BS) : Prop :=
    forall i v, nth_error (o_vars o) i = Some v ->
      v_fb v = VFn (o_biases o) i /\ v_fba v = VFa (o_biases o) i.

  Lemma run_fb_routing evs : forall (m : @mstate R BS),
    StInv m -> Forall fb_routing_out (run Rops fixed efix m evs).
  Proof.
    induction evs as [|ev r IH]; intros m H; [constructor|].
    assert (D : forall it xs, Forall fb_routing_out (snd (do_calc Rops fixed efix m it xs)) /\
                              StInv (fst (do_calc Rops fixed efix m it xs))).
    { intros it xs. pose proof (do_calc_closed m it xs H) as D. cbn zeta in D. destruct D as (D1 & _).
      split; [|exact D1]. unfold do_calc.
      pose proof (calc_closed_full it (m_vars m) (m_biases m) xs H) as C. cbn zeta in C.
      destruct (calc Rops fixed efix it (m_vars m) (m_biases m) xs) as [[[vs bs] e] en].
      cbn [fst snd] in *. destruct C as (C1 & _ & _ & _ & _ & _ & C7).
      constructor; [|constructor]. unfold fb_routing_out. cbn [o_vars o_biases]. rewrite C1. exact C7. }
    cbn [run]. destruct ev as [xs|xs|id on|id on]; cbn [mstep].
    - destruct (D (if m_first m then m_it m else (m_it m + 1)%Z) xs) as [D1 D2].
      destruct (do_calc Rops fixed efix m (if m_first m then m_it m else (m_it m + 1)%Z) xs) as [m' o].
      cbn [fst snd] in *. apply Forall_app. split; [exact D1 | apply IH; exact D2].
    - destruct (D (m_it m) xs) as [D1 D2].
      destruct (do_calc Rops fixed efix m (m_it m) xs) as [m' o].
      cbn [fst snd] in *. apply Forall_app. split; [exact D1 | apply IH; exact D2].
    - destruct (set_active_spec id on (m_biases m) [] (m_vars m) H) as (S1 & S2 & S3).
      destruct (set_active id on (m_biases m) (m_vars m)) as [[bs vs] e]. cbn [fst snd app] in *. subst bs.
      cbn [app]. apply IH. exact S2.
    - destruct (set_apply_spec id on (m_biases m) [] (m_vars m) H) as (S1 & S2 & S3).
      destruct (set_apply id on (m_biases m) (m_vars m)) as [[bs vs] e]. cbn [fst snd app] in *. subst bs.
      cbn [app]. apply IH. exact S2.
  Qed.

  Theorem fb_routing it0 tsfs (cfgs : list (@bias_cfg R BS)) evs :
    Forall fb_routing_out (run_cfg Rops fixed efix it0 tsfs cfgs evs).
  Proof. unfold run_cfg. apply run_fb_routing. apply init_StInv. Qed.

  (* ---- superposition ------------------------------------------------------------------------------------ *)
  Fixpoint select {A} (m : list bool) (l : list A) : list A :=
    match m, l with
    | b :: m', x :: l' => if b then x :: select m' l' else select m' l'
    | _, _ => []
    end.

  Lemma select_map {A B} (f : A -> B) m : forall l, select m (map f l) = map f (select m l).
  Proof.
    induction m as [|b m IH]; intros l; [reflexivity|]. destruct l as [|x l]; [reflexivity|].
    cbn [select map]. rewrite IH. destruct b; reflexivity.
  Qed.

  Lemma rsum_select {A} (f : A -> R) m : forall l, length m = length l ->
    rsum (map f l) = rsum (map f (select m l)) + rsum (map f (select (map negb m) l)).
  Proof.
    induction m as [|b m IH]; intros l H; destruct l as [|x l]; try discriminate; [cbn; lra|].
    cbn [select map rsum length] in *. rewrite (IH l ltac:(lia)). destruct b; cbn [negb map rsum]; lra.
  Qed.

  Lemma EN_select m (bs : list bias) : length m = length bs ->
    EN bs = EN (select m bs) + EN (select (map negb m) bs).
  Proof. intros H. unfold EN. apply rsum_select; exact H. Qed.

  Lemma VF_select m (bs : list bias) i : length m = length bs ->
    VF bs i = VF (select m bs) i + VF (select (map negb m) bs) i.
  Proof. intros H. unfold VF. apply rsum_select; exact H. Qed.

  Lemma CF_select m (bs : list bias) xs nv k : length m = length bs ->
    CF bs xs nv k = CF (select m bs) xs nv k + CF (select (map negb m) bs) xs nv k.
  Proof.
    intros H. unfold CF. rewrite <- rsum_map_add. apply rsum_map_ext. intros i _.
    rewrite (VF_select m bs i H). lra.
  Qed.

  Lemma VFn_select m (bs : list bias) i : length m = length bs ->
    VFn bs i = VFn (select m bs) i + VFn (select (map negb m) bs) i.
  Proof. intros H. unfold VFn. apply rsum_select; exact H. Qed.
  Lemma VFa_select m (bs : list bias) i : length m = length bs ->
    VFa bs i = VFa (select m bs) i + VFa (select (map negb m) bs) i.
  Proof. intros H. unfold VFa. apply rsum_select; exact H. Qed.

  Definition sel_out (m : list bool) (t : sout) : sout := let '(it, bs, xs) := t in (it, select m bs, xs).

  Lemma btrace_select nv m evs : forall it first (bs : list bias),
    btrace nv (it, first, select m bs) evs = map (sel_out m) (btrace nv (it, first, bs) evs).
  Proof.
    induction evs as [|ev r IH]; intros it first bs; [reflexivity|].
    cbn [btrace]. destruct ev as [xs|xs|id on|id on]; cbn [bstep app map sel_out].
    - rewrite <- select_map, IH. reflexivity.
    - rewrite <- select_map, IH. reflexivity.
    - rewrite <- select_map, IH. reflexivity.
    - rewrite <- select_map, IH. reflexivity.
  Qed.

  Lemma btrace_lengths nv evs : forall it first (bs : list bias),
    Forall (fun t : sout => length (snd (fst t)) = length bs) (btrace nv (it, first, bs) evs).
  Proof.
    induction evs as [|ev r IH]; intros it first bs; [constructor|].
    cbn [btrace]. destruct ev as [xs|xs|id on|id on]; cbn [bstep app].
    - constructor; [cbn; apply map_length|].
      eapply Forall_impl; [|apply IH]. intros t Ht. rewrite Ht. apply map_length.
    - constructor; [cbn; apply map_length|].
      eapply Forall_impl; [|apply IH]. intros t Ht. rewrite Ht. apply map_length.
    - eapply Forall_impl; [|apply IH]. intros t Ht. rewrite Ht. apply map_length.
    - eapply Forall_impl; [|apply IH]. intros t Ht. rewrite Ht. apply map_length.
  Qed.

  Inductive Forall3 {A B C} (P : A -> B -> C -> Prop) : list A -> list B -> list C -> Prop :=
  | F3nil : Forall3 P [] [] []
  | F3cons a b c la lb lc : P a b c -> Forall3 P la lb lc -> Forall3 P (a :: la) (b :: lb) (c :: lc).

  Lemma Forall3_from2 {A B C X} (P1 : A -> X -> Prop) (P2 : B -> X -> Prop) (P3 : C -> X -> Prop)
        (L : X -> Prop) (Q : A -> B -> C -> Prop) (f g : X -> X) (t : list X) :
    (forall a b c x, L x -> P1 a x -> P2 b (f x) -> P3 c (g x) -> Q a b c) ->
    forall l1 l2 l3, Forall L t -> Forall2 P1 l1 t -> Forall2 P2 l2 (map f t) -> Forall2 P3 l3 (map g t) ->
    Forall3 Q l1 l2 l3.
  Proof.
    intros HQ. induction t as [|x t IH]; intros l1 l2 l3 HL H1 H2 H3.
    - inversion H1; inversion H2; inversion H3; subst. constructor.
    - cbn [map] in *. inversion H1 as [|a ? la ? Pa Ha]; inversion H2 as [|b ? lb ? Pb Hb];
        inversion H3 as [|c ? lc ? Pc Hc]; inversion HL as [|? ? Lx Lt]; subst.
      constructor; [eapply HQ; eassumption | apply IH; assumption].
  Qed.

  Definition out_add (oAB oA oB : @out R BS) : Prop :=
    o_it oAB = o_it oA /\ o_it oAB = o_it oB /\
    o_energy oAB = o_energy oA + o_energy oB /\
    forall k, coord_force Rops (o_vars oAB) k = coord_force Rops (o_vars oA) k + coord_force Rops (o_vars oB) k.

  Theorem superposition it0 tsfs (cfgs : list (@bias_cfg R BS)) mask evs :
    length mask = length cfgs ->
    Forall3 out_add
      (run_cfg Rops fixed efix it0 tsfs cfgs evs)
      (run_cfg Rops fixed efix it0 tsfs (select mask cfgs) evs)
      (run_cfg Rops fixed efix it0 tsfs (select (map negb mask) cfgs) evs).
  Proof.
    intros Hm.
    pose proof (run_cfg_closed it0 tsfs cfgs evs) as HAB.
    pose proof (run_cfg_closed it0 tsfs (select mask cfgs) evs) as HA.
    pose proof (run_cfg_closed it0 tsfs (select (map negb mask) cfgs) evs) as HB.
    rewrite <- select_map, btrace_select in HA. rewrite <- select_map, btrace_select in HB.
    pose proof (btrace_lengths (length tsfs) evs it0 true (map (init_bias Rops) cfgs)) as HL.
    eapply (Forall3_from2 _ _ _ _ out_add (sel_out mask) (sel_out (map negb mask))); [|exact HL|exact HAB|exact HA|exact HB].
    intros a b c [[it bs] xs] Lx Pa Pb Pc. cbn [sel_out out_ok fst snd] in *.
    destruct Pa as (A1 & A2 & A3 & A4), Pb as (B1 & B2 & B3 & B4), Pc as (C1 & C2 & C3 & C4).
    assert (Hlen : length mask = length bs) by (rewrite Lx, map_length; exact Hm).
    unfold out_add. repeat split; try congruence.
    - rewrite A3, B3, C3. apply EN_select; exact Hlen.
    - intros k. rewrite A4, B4, C4. apply CF_select; exact Hlen.
  Qed.

  (* ---- n-ary superposition: a run = the sum of the single-bias runs ---------------------------------- *)
  Definition nth_force (outs : list (@out R BS)) (j k : nat) : R :=
    match nth_error outs j with Some o => coord_force Rops (o_vars o) k | None => 0 end.
  Definition nth_energy (outs : list (@out R BS)) (j : nat) : R :=
    match nth_error outs j with Some o => o_energy o | None => 0 end.

  Lemma Forall3_nth (lAB lA lB : list (@out R BS)) : Forall3 out_add lAB lA lB ->
    forall j, (forall k, nth_force lAB j k = nth_force lA j k + nth_force lB j k) /\
              nth_energy lAB j = nth_energy lA j + nth_energy lB j.
  Proof.
    induction 1 as [|a b c la lb lc (H1 & H2 & H3 & H4) Hr IH]; intros j.
    - unfold nth_force, nth_energy. destruct j; cbn; split; intros; lra.
    - destruct j as [|j]; [|apply IH].
      unfold nth_force, nth_energy. cbn [nth_error]. split; [exact H4 | exact H3].
  Qed.

  Lemma select_head {A} (c : A) r :
    select (true :: repeat false (length r)) (c :: r) = [c] /\
    select (map negb (true :: repeat false (length r))) (c :: r) = r.
  Proof.
    cbn [select map negb]. split.
    - f_equal. induction r as [|y r IH]; cbn [length repeat select]; [reflexivity | exact IH].
    - induction r as [|y r IH]; cbn [length repeat select map negb]; [reflexivity | rewrite IH; reflexivity].
  Qed.

  Lemma run_nobias_zero it0 tsfs evs j :
    (forall k, nth_force (run_cfg Rops fixed efix it0 tsfs [] evs) j k = 0) /\
    nth_energy (run_cfg Rops fixed efix it0 tsfs [] evs) j = 0.
  Proof.
    pose proof (run_cfg_closed it0 tsfs [] evs) as H.
    pose proof (btrace_lengths (length tsfs) evs it0 true (map (init_bias Rops) (@nil (@bias_cfg R BS)))) as HL.
    revert j HL. induction H as [|o t lo lt Ho Hr IH]; intros j HL.
    - unfold nth_force, nth_energy. destruct j; cbn; auto.
    - inversion HL as [|? ? L1 L2]; subst. destruct j as [|j]; [|apply IH; exact L2].
      unfold nth_force, nth_energy. cbn [nth_error].
      destruct t as [[it bs] xs]. cbn [fst snd length map] in L1. destruct bs; [|discriminate].
      destruct Ho as (_ & _ & O3 & O4). split.
      + intros k. rewrite O4. unfold CF. apply rsum_map_zero. intros i _. unfold VF. cbn [map rsum]. lra.
      + rewrite O3. reflexivity.
  Qed.

  Theorem superposition_all it0 tsfs (cfgs : list (@bias_cfg R BS)) evs j :
    (forall k, nth_force (run_cfg Rops fixed efix it0 tsfs cfgs evs) j k
               = rsum (map (fun c => nth_force (run_cfg Rops fixed efix it0 tsfs [c] evs) j k) cfgs)) /\
    nth_energy (run_cfg Rops fixed efix it0 tsfs cfgs evs) j
    = rsum (map (fun c => nth_energy (run_cfg Rops fixed efix it0 tsfs [c] evs) j) cfgs).
  Proof.
    induction cfgs as [|c r [IH1 IH2]].
    - destruct (run_nobias_zero it0 tsfs evs j) as [Z1 Z2]. cbn [map rsum]. auto.
    - destruct (select_head c r) as [S1 S2].
      pose proof (superposition it0 tsfs (c :: r) (true :: repeat false (length r)) evs) as H.
      rewrite S1, S2 in H.
      specialize (H ltac:(cbn [length]; rewrite repeat_length; reflexivity)).
      destruct (Forall3_nth _ _ _ H j) as [F1 F2]. cbn [map rsum]. split.
      + intros k. rewrite F1, IH1. reflexivity.
      + rewrite F2, IH2. reflexivity.
  Qed.

  (* ---- the order of the biases does not matter -------------------------------------------------------- *)
  Lemma rsum_perm {A} (f : A -> R) (l l' : list A) : Permutation l l' -> rsum (map f l) = rsum (map f l').
  Proof. induction 1; cbn [map rsum]; lra. Qed.

  Theorem order_independent it0 tsfs (cfgs cfgs' : list (@bias_cfg R BS)) evs j :
    Permutation cfgs cfgs' ->
    (forall k, nth_force (run_cfg Rops fixed efix it0 tsfs cfgs evs) j k
               = nth_force (run_cfg Rops fixed efix it0 tsfs cfgs' evs) j k) /\
    nth_energy (run_cfg Rops fixed efix it0 tsfs cfgs evs) j = nth_energy (run_cfg Rops fixed efix it0 tsfs cfgs' evs) j.
  Proof.
    intros P. destruct (superposition_all it0 tsfs cfgs evs j) as [A1 A2].
    destruct (superposition_all it0 tsfs cfgs' evs j) as [B1 B2]. split.
    - intros k. rewrite A1, B1. apply rsum_perm; exact P.
    - rewrite A2, B2. apply rsum_perm; exact P.
  Qed.

  (* forces delivered over a window of N calls starting at call j *)
  Definition window_force (outs : list (@out R BS)) (j N k : nat) : R :=
    rsum (map (fun t => nth_force outs (j + t) k) (seq 0 N)).

  Lemma rsum_exchange {A B} (f : A -> B -> R) (la : list A) (lb : list B) :
    rsum (map (fun a => rsum (map (fun b => f a b) lb)) la) = rsum (map (fun b => rsum (map (fun a => f a b) la)) lb).
  Proof.
    induction la as [|a la IH]; cbn [map rsum].
    - symmetry. apply rsum_map_zero. reflexivity.
    - rewrite IH. rewrite <- rsum_map_add. reflexivity.
  Qed.

  (* the impulse delivered by a set of biases over any window is the sum of the impulses of its members *)
  Theorem impulse_shared it0 tsfs (cfgs : list (@bias_cfg R BS)) evs j N k :
    window_force (run_cfg Rops fixed efix it0 tsfs cfgs evs) j N k
    = rsum (map (fun c => window_force (run_cfg Rops fixed efix it0 tsfs [c] evs) j N k) cfgs).
  Proof.
    unfold window_force.
    rewrite (rsum_exchange (fun c t => nth_force (run_cfg Rops fixed efix it0 tsfs [c] evs) (j + t) k) cfgs (seq 0 N)).
    apply rsum_map_ext. intros t _. apply (superposition_all it0 tsfs cfgs evs (j + t)).
  Qed.

  Lemma window_force_firstn (outs : list (@out R BS)) j N k : (j + N <= length outs)%nat ->
    window_force outs j N k = rsum (map (fun o => coord_force Rops (o_vars o) k) (firstn N (skipn j outs))).
  Proof.
    unfold window_force. revert j. induction N as [|N IH]; intros j H; [reflexivity|].
    rewrite <- cons_seq, <- seq_shift. cbn [map rsum]. rewrite map_map.
    destruct (nth_error outs j) as [o|] eqn:E; [|apply nth_error_None in E; lia].
    assert (Sk : skipn j outs = o :: skipn (S j) outs).
    { clear - E. revert outs E. induction j as [|j IHj]; intros outs E; destruct outs as [|y l]; try discriminate.
      - cbn in E. inversion E; reflexivity.
      - cbn [nth_error] in E. cbn [skipn]. apply IHj; exact E. }
    rewrite Sk. cbn [firstn map rsum]. unfold nth_force at 1. rewrite Nat.add_0_r, E. f_equal.
    rewrite <- (IH (S j)) by lia. apply rsum_map_ext. intros t _. f_equal. lia.
  Qed.

  (* ---- a bias that is inactive or does not apply forces contributes nothing ----------------------- *)
  Definition mask1 (p q : nat) : list bool := repeat true p ++ false :: repeat true q.

  Lemma select_mask1 {A} (pre : list A) c post :
    select (mask1 (length pre) (length post)) (pre ++ c :: post) = pre ++ post /\
    select (map negb (mask1 (length pre) (length post))) (pre ++ c :: post) = [c].
  Proof.
    unfold mask1. induction pre as [|x pre [IH1 IH2]]; cbn [length repeat app select map negb].
    - split.
      + induction post as [|y post IH]; cbn [length repeat select]; [reflexivity | rewrite IH; reflexivity].
      + induction post as [|y post IH]; cbn [length repeat select map negb]; [reflexivity | exact IH].
    - rewrite IH1, IH2. auto.
  Qed.

  Lemma mask1_length p q : length (mask1 p q) = (p + S q)%nat.
  Proof. unfold mask1. rewrite app_length. cbn [length]. rewrite !repeat_length. reflexivity. Qed.

  Lemma Forall3_drop3 {A B C} (P : A -> B -> Prop) l1 l2 (l3 : list C) :
    Forall3 (fun a b _ => P a b) l1 l2 l3 -> Forall2 P l1 l2.
  Proof. induction 1; constructor; assumption. Qed.

  Lemma EN_one (b : bias) : EN [b] = if counts_energy efix b then b_energy b else 0.
  Proof. unfold EN. cbn [map rsum]. lra. Qed.

  Lemma CF_one_zero (b : bias) xs nv k : b_active b && b_apply b = false -> CF [b] xs nv k = 0.
  Proof.
    intros H. unfold CF. apply rsum_map_zero. intros i _. unfold VF, bforce. cbn [map rsum]. rewrite H. lra.
  Qed.

  Definition contributes_nothing (p : nat) (oAll oRest : @out R BS) : Prop :=
    forall b, nth_error (o_biases oAll) p = Some b ->
      (b_active b = false ->
         o_energy oAll = o_energy oRest /\
         forall k, coord_force Rops (o_vars oAll) k = coord_force Rops (o_vars oRest) k) /\
      (b_apply b = false ->
         (forall k, coord_force Rops (o_vars oAll) k = coord_force Rops (o_vars oRest) k) /\
         (efix = true -> o_energy oAll = o_energy oRest)).

  Theorem inactive_nothing it0 tsfs (pre : list (@bias_cfg R BS)) c post evs :
    Forall2 (contributes_nothing (length pre))
      (run_cfg Rops fixed efix it0 tsfs (pre ++ c :: post) evs)
      (run_cfg Rops fixed efix it0 tsfs (pre ++ post) evs).
  Proof.
    set (m := mask1 (length pre) (length post)).
    pose proof (run_cfg_closed it0 tsfs (pre ++ c :: post) evs) as HAB.
    destruct (select_mask1 pre c post) as [M1 M2]. fold m in M1, M2.
    pose proof (run_cfg_closed it0 tsfs (select m (pre ++ c :: post)) evs) as HA.
    rewrite <- select_map, btrace_select in HA. rewrite M1 in HA.
    pose proof (run_cfg_closed it0 tsfs (select (map negb m) (pre ++ c :: post)) evs) as HB.
    rewrite <- select_map, btrace_select in HB. rewrite M2 in HB.
    pose proof (btrace_lengths (length tsfs) evs it0 true (map (init_bias Rops) (pre ++ c :: post))) as HL.
    apply (Forall3_drop3 _ _ _ (run_cfg Rops fixed efix it0 tsfs [c] evs)).
    eapply (Forall3_from2 _ _ _ _ _ (sel_out m) (sel_out (map negb m))); [|exact HL|exact HAB|exact HA|exact HB].
    intros a b0 c0 [[it bs] xs] Lx Pa Pb Pc. cbn [sel_out out_ok fst snd] in *.
    destruct Pa as (A1 & A2 & A3 & A4), Pb as (B1 & B2 & B3 & B4).
    rewrite map_length, app_length in Lx. cbn [length] in Lx.
    assert (Hlen : length m = length bs) by (unfold m; rewrite mask1_length; lia).
    intros b Hb. rewrite A2 in Hb.
    destruct (nth_error_split bs (length pre) Hb) as (l1 & l2 & Ebs & El1).
    assert (El2 : length l2 = length post).
    { rewrite Ebs, app_length in Lx. cbn [length] in Lx. lia. }
    assert (S2 : select (map negb m) bs = [b]).
    { unfold m. rewrite Ebs, <- El1, <- El2. apply select_mask1. }
    pose proof (EN_select m bs Hlen) as E1. rewrite S2, EN_one in E1.
    assert (F1 : forall k, CF bs xs (length tsfs) k = CF (select m bs) xs (length tsfs) k + CF [b] xs (length tsfs) k).
    { intros k. rewrite (CF_select m bs xs (length tsfs) k Hlen), S2. reflexivity. }
    split.
    - intros Hoff. split.
      + rewrite A3, B3, E1. unfold counts_energy. rewrite Hoff. cbn [andb]. lra.
      + intros k. rewrite A4, B4, F1, CF_one_zero; [lra | rewrite Hoff; reflexivity].
    - intros Hna. split.
      + intros k. rewrite A4, B4, F1, CF_one_zero; [lra | rewrite Hna; apply andb_false_r].
      + intros He. rewrite A3, B3, E1. unfold counts_energy. rewrite Hna, He. cbn [negb orb].
        rewrite andb_false_r. lra.
  Qed.

  (* ---- the awake schedule of one bias ------------------------------------------------------------------ *)
  Definition S0 (b : bias) : Prop := b_active b = true /\ b_awake b = false /\ b_rc b = 0%Z.
  Definition SA (b : bias) : Prop := b_active b = true /\ b_awake b = true /\ b_rc b = 1%Z.
  Definition SS (b : bias) : Prop := b_active b = false /\ b_awake b = false /\ b_rc b = 0%Z.
  Definition FS (b : bias) : Prop := S0 b \/ SA b \/ SS b.

  Lemma wake_self_static it (b : bias) : same_static b (wake_self fixed it b).
  Proof.
    unfold wake_self, enable_awake_self, disable_awake_self, decr_active_self, disable_active_self, enable_active_self.
    destruct b as [id tsf vars byp app upd st act rc aw e fs sc fac]. unfold same_static. cbn.
    repeat match goal with |- context [if ?c then _ else _] => destruct c; cbn end; tauto.
  Qed.

  Lemma wake_self_on it (b : bias) :
    FS b -> (1 <? b_tsf b)%Z = true -> on_schedule it (b_tsf b) = true -> SA (wake_self fixed it b).
  Proof.
    intros F Ht Hs. unfold wake_self. rewrite Ht, Hs.
    unfold enable_awake_self, enable_active_self, SA.
    destruct b as [id tsf vars byp app upd st act rc aw e fs sc fac]. unfold FS, S0, SA, SS in F. cbn in *.
    destruct F as [(-> & -> & ->) | [(-> & -> & ->) | (-> & -> & ->)]]; cbn; auto.
  Qed.

  Lemma wake_self_off it (b : bias) :
    fixed = true -> FS b -> (1 <? b_tsf b)%Z = true -> on_schedule it (b_tsf b) = false -> SS (wake_self fixed it b).
  Proof.
    intros Hf F Ht Hs. unfold wake_self. rewrite Ht, Hs, Hf.
    unfold enable_awake_self, disable_awake_self, decr_active_self, disable_active_self, enable_active_self, SS.
    destruct b as [id tsf vars byp app upd st act rc aw e fs sc fac]. unfold FS, S0, SA, SS in F. cbn in *.
    destruct F as [(-> & -> & ->) | [(-> & -> & ->) | (-> & -> & ->)]]; cbn; auto.
  Qed.

  Lemma update_pure_flags it nv xs (b : bias) :
    let b' := bias_update_pure it nv xs b in
    same_static b b' /\ b_active b' = b_active b /\ b_awake b' = b_awake b /\ b_rc b' = b_rc b.
  Proof.
    cbn zeta. unfold bias_update_pure. destruct (b_active b) eqn:Ea.
    - destruct (b_upd b (b_st b) it (map (fresh nv xs) (b_vars b))) as [s' [e fs]].
      destruct b; unfold same_static; cbn in *; tauto.
    - unfold same_static; tauto.
  Qed.

  (* a set of bias names that no script event touches *)
  Definition untouched (Tid : nat -> Prop) (evs : list (@event R)) : Prop :=
    forall id on, In (ESetActive id on) evs -> ~ Tid id.

  Definition sched_ok (Tid : nat -> Prop) (t : sout) : Prop :=
    forall b, In b (snd (fst t)) -> Tid (b_id b) -> (1 <? b_tsf b)%Z = true ->
      b_active b = on_schedule (fst (fst t)) (b_tsf b).

  Lemma bias_step_sched (Tid : nat -> Prop) it nv xs (bs : list bias) :
    fixed = true ->
    (forall b, In b bs -> Tid (b_id b) -> (1 <? b_tsf b)%Z = true -> FS b) ->
    let bs' := map (bias_step it nv xs) bs in
    (forall b, In b bs' -> Tid (b_id b) -> (1 <? b_tsf b)%Z = true -> FS b) /\
    sched_ok Tid (it, bs', xs).
  Proof.
    intros Hf H. cbn zeta.
    assert (G : forall b', In b' (map (bias_step it nv xs) bs) -> Tid (b_id b') -> (1 <? b_tsf b')%Z = true ->
                FS b' /\ b_active b' = on_schedule it (b_tsf b')).
    { intros b' Hb' Hid Ht. apply in_map_iff in Hb'. destruct Hb' as (b & <- & Hb).
      unfold bias_step in *.
      destruct (update_pure_flags it nv xs (wake_self fixed it b)) as (U1 & U2 & U3 & U4).
      pose proof (wake_self_static it b) as W1.
      destruct U1 as (I1 & T1 & _). destruct W1 as (I2 & T2 & _).
      rewrite I1, I2 in Hid. rewrite T1, T2 in Ht. rewrite T1, T2.
      specialize (H b Hb Hid Ht).
      destruct (on_schedule it (b_tsf b)) eqn:Es.
      - pose proof (wake_self_on it b H Ht Es) as (X1 & X2 & X3).
        split; [|congruence]. right; left. unfold SA. rewrite U2, U3, U4. auto.
      - pose proof (wake_self_off it b Hf H Ht Es) as (X1 & X2 & X3).
        split; [|congruence]. right; right. unfold SS. rewrite U2, U3, U4. auto. }
    split.
    - intros b Hb Hid Ht. apply (G b Hb Hid Ht).
    - intros b Hb Hid Ht. cbn [fst snd] in *. apply (G b Hb Hid Ht).
  Qed.

  Lemma btrace_sched (Tid : nat -> Prop) nv evs : fixed = true -> forall it first (bs : list bias),
    untouched Tid evs ->
    (forall b, In b bs -> Tid (b_id b) -> (1 <? b_tsf b)%Z = true -> FS b) ->
    Forall (sched_ok Tid) (btrace nv (it, first, bs) evs).
  Proof.
    intros Hf. induction evs as [|ev r IH]; intros it first bs Hu H; [constructor|].
    assert (Hu' : untouched Tid r) by (intros id on Hin; apply (Hu id on); right; exact Hin).
    cbn [btrace]. destruct ev as [xs|xs|id on|id on]; cbn [bstep app].
    - destruct (bias_step_sched Tid (if first then it else (it + 1)%Z) nv xs bs Hf H) as [G1 G2].
      constructor; [exact G2 | apply IH; assumption].
    - destruct (bias_step_sched Tid it nv xs bs Hf H) as [G1 G2].
      constructor; [exact G2 | apply IH; assumption].
    - apply IH; [exact Hu'|].
      intros b' Hb' Hid Ht. apply in_map_iff in Hb'. destruct Hb' as (b & <- & Hb).
      unfold set_active_self in *. destruct (Nat.eqb (b_id b) id) eqn:E.
      + apply Nat.eqb_eq in E. exfalso.
        assert (Hid' : Tid id).
        { destruct on; unfold enable_active_self, disable_active_self in Hid;
            destruct b as [id0 tsf vars byp app upd st act rc aw e fs sc fac]; cbn in *;
            repeat match type of Hid with context [if ?c then _ else _] => destruct c; cbn in Hid end; subst; exact Hid. }
        apply (Hu id on (or_introl eq_refl) Hid').
      + apply H; assumption.
    - apply IH; [exact Hu'|].
      intros b' Hb' Hid Ht. apply in_map_iff in Hb'. destruct Hb' as (b & <- & Hb).
      assert (G : b_id (set_apply_self id on b) = b_id b /\ b_tsf (set_apply_self id on b) = b_tsf b /\
                  (FS b -> FS (set_apply_self id on b))).
      { unfold set_apply_self, FS, S0, SA, SS. destruct b as [id0 tsf vars byp app upd st act rc aw e fs sc fac]. cbn.
        destruct (Nat.eqb id0 id); destruct on; destruct app; cbn; auto. }
      destruct G as (G1 & G2 & G3). rewrite G1 in Hid. rewrite G2 in Ht. apply G3. apply H; assumption.
  Qed.

  Lemma init_bias_FS (c : @bias_cfg R BS) : FS (init_bias Rops c).
  Proof. left. unfold S0, init_bias. cbn. auto. Qed.

  (* in any run (after the fix), a bias with factor n > 1 whose name no script event uses is active
     exactly at the steps that are multiples of n *)
  Theorem asleep_schedule (Tid : nat -> Prop) it0 tsfs (cfgs : list (@bias_cfg R BS)) evs :
    fixed = true -> untouched Tid evs ->
    Forall (fun o : @out R BS => forall b, In b (o_biases o) -> Tid (b_id b) -> (1 <? b_tsf b)%Z = true ->
                                 b_active b = on_schedule (o_it o) (b_tsf b))
           (run_cfg Rops fixed efix it0 tsfs cfgs evs).
  Proof.
    intros Hf Hu.
    pose proof (run_cfg_closed it0 tsfs cfgs evs) as HC.
    assert (HS : Forall (sched_ok Tid) (btrace (length tsfs) (it0, true, map (init_bias Rops) cfgs) evs)).
    { apply btrace_sched; try assumption.
      intros b Hb _ _. apply in_map_iff in Hb. destruct Hb as (c & <- & _). apply init_bias_FS. }
    revert HS. induction HC as [|o t lo lt Ho Hrest IH]; intros HS; [constructor|].
    inversion HS as [|? ? St Srest]; subst. constructor; [|apply IH; exact Srest].
    destruct t as [[it bs] xs]. destruct Ho as (O1 & O2 & _). unfold sched_ok in St. cbn [fst snd] in St.
    intros b Hb. rewrite O1. rewrite O2 in Hb. apply St; exact Hb.
  Qed.

  (* ---- a bias with factor 1 that the user disables stays inactive ------------------------------------ *)
  Fixpoint disabled_at (off : nat -> bool) (evs : list (@event R)) : list (nat -> bool) :=
    match evs with
    | [] => []
    | EStep _ :: r => off :: disabled_at off r
    | ERepeat _ :: r => off :: disabled_at off r
    | ESetActive id on :: r => disabled_at (fun j => if Nat.eqb j id then negb on else off j) r
    | ESetApply _ _ :: r => disabled_at off r
    end.

  Definition DInv (off : nat -> bool) (b : bias) : Prop :=
    (1 <? b_tsf b)%Z = false -> b_rc b = 0%Z /\ (off (b_id b) = true -> b_active b = false).

  Lemma bias_step_DInv off it nv xs (b : bias) : DInv off b -> DInv off (bias_step it nv xs b).
  Proof.
    intros H. unfold bias_step.
    destruct (update_pure_flags it nv xs (wake_self fixed it b)) as ((I1 & T1 & _) & U2 & U3 & U4).
    unfold DInv. rewrite I1, T1, U2, U4.
    unfold wake_self. destruct (1 <? b_tsf b)%Z eqn:Et.
    - pose proof (wake_self_static it b) as (_ & T2 & _). unfold wake_self in T2. rewrite Et in T2.
      rewrite T2, Et. discriminate.
    - exact H.
  Qed.

  Lemma set_active_self_DInv off id on (b : bias) :
    DInv off b -> DInv (fun j => if Nat.eqb j id then negb on else off j) (set_active_self id on b).
  Proof.
    destruct b as [id0 tsf vars byp app upd st act rc aw e fs sc fac].
    unfold DInv, set_active_self, enable_active_self, disable_active_self. cbn.
    intros H. destruct (Nat.eqb id0 id) eqn:E.
    - destruct on, act; cbn; try (destruct (1 <? rc)%Z eqn:Er; cbn);
        intros Ht; destruct (H Ht) as [Hrc Hoff]; subst rc; try (cbn in Er; discriminate);
        cbn; rewrite ?E; cbn;
        (split; [reflexivity|]); try (intros; discriminate); try (intros _; reflexivity).
    - cbn. rewrite E. exact H.
  Qed.

  Lemma btrace_disabled nv evs : forall off it first (bs : list bias),
    (forall b, In b bs -> DInv off b) ->
    Forall2 (fun (t : sout) (off' : nat -> bool) =>
               forall b, In b (snd (fst t)) -> (1 <? b_tsf b)%Z = false -> off' (b_id b) = true -> b_active b = false)
            (btrace nv (it, first, bs) evs) (disabled_at off evs).
  Proof.
    induction evs as [|ev r IH]; intros off it first bs H; [constructor|].
    cbn [btrace disabled_at]. destruct ev as [xs|xs|id on|id on]; cbn [bstep app].
    - assert (H' : forall b, In b (map (bias_step (if first then it else (it + 1)%Z) nv xs) bs) -> DInv off b).
      { intros b' Hb'. apply in_map_iff in Hb'. destruct Hb' as (b & <- & Hb). apply bias_step_DInv, H, Hb. }
      constructor; [|apply IH; exact H'].
      cbn [fst snd]. intros b Hb Ht Ho. apply (H' b Hb Ht), Ho.
    - assert (H' : forall b, In b (map (bias_step it nv xs) bs) -> DInv off b).
      { intros b' Hb'. apply in_map_iff in Hb'. destruct Hb' as (b & <- & Hb). apply bias_step_DInv, H, Hb. }
      constructor; [|apply IH; exact H'].
      cbn [fst snd]. intros b Hb Ht Ho. apply (H' b Hb Ht), Ho.
    - apply IH. intros b' Hb'. apply in_map_iff in Hb'. destruct Hb' as (b & <- & Hb).
      apply set_active_self_DInv, H, Hb.
    - apply IH. intros b' Hb'. apply in_map_iff in Hb'. destruct Hb' as (b & <- & Hb).
      specialize (H b Hb). unfold DInv, set_apply_self in *.
      destruct b as [id0 tsf vars byp app upd st act rc aw e fs sc fac]. cbn in *.
      destruct (Nat.eqb id0 id); destruct on; destruct app; cbn; exact H.
  Qed.

  Theorem disabled_stays_off it0 tsfs (cfgs : list (@bias_cfg R BS)) evs :
    Forall2 (fun (o : @out R BS) (off : nat -> bool) =>
               forall b, In b (o_biases o) -> (1 <? b_tsf b)%Z = false -> off (b_id b) = true -> b_active b = false)
            (run_cfg Rops fixed efix it0 tsfs cfgs evs) (disabled_at (fun _ => false) evs).
  Proof.
    pose proof (run_cfg_closed it0 tsfs cfgs evs) as HC.
    assert (HD := btrace_disabled (length tsfs) evs (fun _ => false) it0 true (map (init_bias Rops) cfgs)).
    specialize (HD ltac:(intros b Hb; apply in_map_iff in Hb; destruct Hb as (c & <- & _);
                         unfold DInv, init_bias; cbn; intros _; split; [reflexivity | discriminate])).
    revert HD. generalize (disabled_at (fun _ : nat => false) evs).
    induction HC as [|o t lo lt Ho Hrest IH]; intros l HD; inversion HD as [|? off ? l' Dt Drest]; subst; constructor.
    - destruct t as [[it bs] xs]. destruct Ho as (O1 & O2 & _). cbn [fst snd] in Dt.
      intros b Hb. rewrite O2 in Hb. apply Dt; exact Hb.
    - apply IH; exact Drest.
  Qed.

  (* ---- multiple time stepping of one bias: evaluation and impulse ----------------------------------- *)
  Definition inst_force (b : bias) (xs : list (list cvc)) (nv k : nat) : R :=
    rsum (map (fun i => b_fac b * contrib (b_vars b) (b_forces b) i * gsum (nth i xs []) k) (seq 0 nv)).

  Lemma CF_one_active (b : bias) xs nv k : b_active b && b_apply b = true ->
    CF [b] xs nv k = IZR (b_tsf b) * inst_force b xs nv k.
  Proof.
    intros H. unfold CF, inst_force. rewrite <- rsum_map_scal. apply rsum_map_ext. intros i _.
    unfold VF, bforce. cbn [map rsum]. rewrite H. ring.
  Qed.

  Definition selem := (Z * bias * list (list cvc))%type.

  Fixpoint strace (nv : nat) (it : Z) (first : bool) (b : bias) (xss : list (list (list cvc))) : list selem :=
    match xss with
    | [] => []
    | xs :: r =>
      let it' := if first then it else (it + 1)%Z in
      let b' := bias_step it' nv xs b in
      (it', b', xs) :: strace nv it' false b' r
    end.

  Definition lift1 (t : selem) : sout := let '(it, b, xs) := t in (it, [b], xs).

  Lemma btrace_single nv xss : forall it first (b : bias),
    btrace nv (it, first, [b]) (map EStep xss) = map lift1 (strace nv it first b xss).
  Proof.
    induction xss as [|xs r IH]; intros it first b; [reflexivity|].
    cbn [map btrace bstep strace app lift1]. rewrite IH. reflexivity.
  Qed.

  Lemma strace_length nv xss : forall it first (b : bias), length (strace nv it first b xss) = length xss.
  Proof. induction xss as [|xs r IH]; intros it first b; cbn [strace length]; [reflexivity | rewrite IH; reflexivity]. Qed.

  Lemma wake_self_data it (b : bias) :
    b_st (wake_self fixed it b) = b_st b /\ b_energy (wake_self fixed it b) = b_energy b /\
    b_forces (wake_self fixed it b) = b_forces b.
  Proof.
    unfold wake_self, enable_awake_self, disable_awake_self, decr_active_self, disable_active_self, enable_active_self.
    destruct b as [id tsf vars byp app upd st act rc aw e fs sc fac]. cbn.
    repeat match goal with |- context [if ?c then _ else _] => destruct c; cbn end; auto.
  Qed.

  (* what one calc() does to a bias with factor n > 1 *)
  Definition eval_step (nv : nat) (bp b : bias) (it : Z) (xs : list (list cvc)) : Prop :=
    if on_schedule it (b_tsf bp) then
      b_active b = true /\
      (b_st b, (b_energy b, b_forces b)) = b_upd bp (b_st bp) it (map (fresh nv xs) (b_vars bp))
    else
      b_active b = false /\ b_st b = b_st bp /\ b_energy b = b_energy bp /\ b_forces b = b_forces bp.

  Lemma bias_step_eval it nv xs (bp : bias) :
    fixed = true -> FS bp -> (1 <? b_tsf bp)%Z = true ->
    let b := bias_step it nv xs bp in
    FS b /\ same_static bp b /\ eval_step nv bp b it xs.
  Proof.
    intros Hf F Ht. cbn zeta. unfold bias_step, eval_step.
    pose proof (wake_self_static it bp) as W1. pose proof (wake_self_data it bp) as (D1 & D2 & D3).
    destruct (update_pure_flags it nv xs (wake_self fixed it bp)) as (U1 & U2 & U3 & U4).
    split; [|split; [eapply same_static_trans; eassumption|]].
    - destruct (on_schedule it (b_tsf bp)) eqn:Es.
      + pose proof (wake_self_on it bp F Ht Es) as (X1 & X2 & X3). right; left. unfold SA. rewrite U2, U3, U4. auto.
      + pose proof (wake_self_off it bp Hf F Ht Es) as (X1 & X2 & X3). right; right. unfold SS. rewrite U2, U3, U4. auto.
    - destruct (on_schedule it (b_tsf bp)) eqn:Es.
      + pose proof (wake_self_on it bp F Ht Es) as (X1 & X2 & X3).
        split; [congruence|].
        unfold bias_update_pure. rewrite X1.
        destruct W1 as (_ & _ & V1 & _ & _ & V2). rewrite V1, V2, D1.
        destruct (b_upd bp (b_st bp) it (map (fresh nv xs) (b_vars bp))) as [s' [e fs]].
        destruct (wake_self fixed it bp); reflexivity.
      + pose proof (wake_self_off it bp Hf F Ht Es) as (X1 & X2 & X3).
        split; [congruence|].
        unfold bias_update_pure. rewrite X1. auto.
  Qed.

  (* elements of the single-bias trace: step number, activity, evaluation *)
  Lemma strace_nth nv xss : forall it first (b0 : bias) k t,
    fixed = true -> FS b0 -> (1 <? b_tsf b0)%Z = true ->
    nth_error (strace nv it first b0 xss) k = Some t ->
    let it1 := if first then it else (it + 1)%Z in
    fst (fst t) = (it1 + Z.of_nat k)%Z /\ b_tsf (snd (fst t)) = b_tsf b0 /\
    b_active (snd (fst t)) = on_schedule (it1 + Z.of_nat k) (b_tsf b0) /\
    nth_error xss k = Some (snd t).
  Proof.
    induction xss as [|xs r IH]; intros it first b0 k t Hf F Ht Hk; [destruct k; discriminate|].
    cbn [strace] in Hk. cbn zeta.
    destruct (bias_step_eval (if first then it else (it + 1)%Z) nv xs b0 Hf F Ht) as (F' & (_ & T' & _) & Ev).
    destruct k as [|k]; cbn [nth_error] in *.
    - inversion Hk; subst t. cbn [fst snd]. rewrite Z.add_0_r. split; [reflexivity|]. split; [exact T'|].
      split; [|reflexivity]. unfold eval_step in Ev.
      destruct (on_schedule (if first then it else (it + 1)%Z) (b_tsf b0)); tauto.
    - specialize (IH (if first then it else (it + 1)%Z) false _ k t Hf F' ltac:(rewrite T'; exact Ht) Hk).
      cbn zeta in IH. rewrite T' in IH.
      replace ((if first then it else (it + 1)%Z) + Z.of_nat (S k))%Z
        with ((if first then it else (it + 1)%Z) + 1 + Z.of_nat k)%Z by lia.
      exact IH.
  Qed.

  Lemma off_schedule_inside m n d : (0 < n)%Z -> (0 <= m * n)%Z -> (0 < d < n)%Z ->
    on_schedule (m * n + d) n = false.
  Proof.
    intros Hn Hm Hd. unfold on_schedule. apply Z.eqb_neq.
    rewrite Z.rem_mod_nonneg; [|lia|lia].
    rewrite Z.add_comm, Z_mod_plus_full, Z.mod_small; lia.
  Qed.

  Lemma on_schedule_multiple m n : (0 < n)%Z -> on_schedule (m * n) n = true.
  Proof. intros Hn. unfold on_schedule. apply Z.eqb_eq. apply Z.rem_mul. lia. Qed.

  Lemma nth_error_firstn' {A} (l : list A) : forall n i, (i < n)%nat -> nth_error (firstn n l) i = nth_error l i.
  Proof.
    induction l as [|x l IH]; intros n i H.
    - rewrite firstn_nil. reflexivity.
    - destruct n as [|n]; [lia|]. destruct i as [|i]; cbn [firstn nth_error]; [reflexivity|]. apply IH. lia.
  Qed.
  Lemma nth_error_skipn' {A} (l : list A) : forall n i, nth_error (skipn n l) i = nth_error l (n + i).
  Proof.
    induction l as [|x l IH]; intros n i.
    - rewrite skipn_nil. destruct i, n; reflexivity.
    - destruct n as [|n]; cbn [skipn Nat.add nth_error]; [reflexivity|]. apply IH.
  Qed.

  (* sum of a window whose elements after the first contribute nothing *)
  Lemma window_sum {A} (F : A -> R) (l : list A) j n x :
    nth_error l j = Some x ->
    (forall d y, (0 < d < S n)%nat -> nth_error l (j + d) = Some y -> F y = 0) ->
    rsum (map F (firstn (S n) (skipn j l))) = F x.
  Proof.
    intros Hj Hz.
    assert (E : skipn j l = x :: skipn (S j) l).
    { revert l Hj Hz. induction j as [|j IH]; intros l Hj Hz; destruct l as [|y l]; try discriminate.
      - cbn in Hj. inversion Hj; reflexivity.
      - cbn [nth_error] in Hj. cbn [skipn]. apply IH; [exact Hj|].
        intros d z Hd Hn. apply (Hz d z Hd). exact Hn. }
    rewrite E. cbn [firstn map rsum].
    rewrite rsum_map_zero; [lra|].
    intros y Hy. apply In_nth_error in Hy. destruct Hy as [i Hi].
    assert (Li : (i < n)%nat).
    { assert (i < length (firstn n (skipn (S j) l)))%nat by (apply nth_error_Some; congruence).
      rewrite firstn_length in H. lia. }
    rewrite nth_error_firstn' in Hi; [|exact Li].
    rewrite nth_error_skipn' in Hi.
    apply (Hz (S i) y); [lia|]. replace (j + S i)%nat with (S j + i)%nat by lia. exact Hi.
  Qed.

  Lemma Forall2_skipn {A B} (P : A -> B -> Prop) l1 l2 : Forall2 P l1 l2 -> forall n, Forall2 P (skipn n l1) (skipn n l2).
  Proof.
    induction 1 as [|a b l1 l2 Hab Hl IH]; intros n; destruct n; cbn [skipn]; try constructor; auto.
  Qed.
  Lemma Forall2_firstn {A B} (P : A -> B -> Prop) l1 l2 : Forall2 P l1 l2 -> forall n, Forall2 P (firstn n l1) (firstn n l2).
  Proof.
    induction 1 as [|a b l1 l2 Hab Hl IH]; intros n; destruct n; cbn [firstn]; try constructor; auto.
  Qed.
  Lemma Forall2_impl' {A B} (P Q : A -> B -> Prop) l1 l2 :
    (forall a b, P a b -> Q a b) -> Forall2 P l1 l2 -> Forall2 Q l1 l2.
  Proof. intros H; induction 1; constructor; auto. Qed.
  Lemma Forall2_rsum {A B} (F : A -> R) (G : B -> R) l1 l2 :
    Forall2 (fun a b => F a = G b) l1 l2 -> rsum (map F l1) = rsum (map G l2).
  Proof. induction 1 as [|a b l1 l2 Hab Hl IH]; cbn [map rsum]; [reflexivity | rewrite Hab, IH; reflexivity]. Qed.
  Lemma Forall2_nth {A B} (P : A -> B -> Prop) l1 l2 : Forall2 P l1 l2 ->
    forall k b, nth_error l2 k = Some b -> exists a, nth_error l1 k = Some a /\ P a b.
  Proof.
    induction 1 as [|a0 b0 l1 l2 Hab Hl IH]; intros k b Hk; destruct k; try discriminate; cbn [nth_error] in *.
    - inversion Hk; subst. eauto.
    - apply IH; exact Hk.
  Qed.

  (* outputs of a single-bias run against its trace *)
  Definition out_ok1 (nv : nat) (o : @out R BS) (t : selem) : Prop :=
    let '(it, b, xs) := t in
    o_it o = it /\ o_biases o = [b] /\
    o_energy o = (if counts_energy efix b then b_energy b else 0) /\
    forall k, coord_force Rops (o_vars o) k = CF [b] xs nv k.

  Lemma run_single_closed it0 tsfs (c : @bias_cfg R BS) xss :
    Forall2 (out_ok1 (length tsfs)) (run_cfg Rops fixed efix it0 tsfs [c] (map EStep xss))
            (strace (length tsfs) it0 true (init_bias Rops c) xss).
  Proof.
    pose proof (run_cfg_closed it0 tsfs [c] (map EStep xss)) as H.
    cbn [map] in H. rewrite btrace_single in H.
    revert H. generalize (run_cfg Rops fixed efix it0 tsfs [c] (map EStep xss)).
    induction (strace (length tsfs) it0 true (init_bias Rops c) xss) as [|t l IH]; intros lo H;
      inversion H as [|o ? lo' ? Ho Hl]; subst; constructor.
    - destruct t as [[it b] xs]. cbn [lift1 out_ok out_ok1] in *. rewrite EN_one in Ho. exact Ho.
    - apply IH; exact Hl.
  Qed.

  (* every calc(): evaluated iff the step is a multiple of n; otherwise nothing is applied *)
  Fixpoint eval_ok (nv : nat) (bp : bias) (outs : list (@out R BS)) (xss : list (list (list cvc))) : Prop :=
    match outs, xss with
    | [], [] => True
    | o :: outs', xs :: xss' =>
      exists b, o_biases o = [b] /\ eval_step nv bp b (o_it o) xs /\
        (if on_schedule (o_it o) (b_tsf bp) then
           forall k, coord_force Rops (o_vars o) k = (if b_apply b then IZR (b_tsf bp) * inst_force b xs nv k else 0)
         else o_energy o = 0 /\ forall k, coord_force Rops (o_vars o) k = 0) /\
        eval_ok nv b outs' xss'
    | _, _ => False
    end.

  Lemma strace_eval_ok nv xss : forall it first (bp : bias) outs,
    fixed = true -> FS bp -> (1 <? b_tsf bp)%Z = true ->
    Forall2 (out_ok1 nv) outs (strace nv it first bp xss) -> eval_ok nv bp outs xss.
  Proof.
    induction xss as [|xs r IH]; intros it first bp outs Hf F Ht H.
    - inversion H; subst. exact I.
    - cbn [strace] in H. inversion H as [|o ? outs' ? Ho Hl]; subst. cbn [eval_ok].
      destruct (bias_step_eval (if first then it else (it + 1)%Z) nv xs bp Hf F Ht) as (F' & St & Ev).
      set (b := bias_step (if first then it else (it + 1)%Z) nv xs bp) in *.
      destruct Ho as (O1 & O2 & O3 & O4). exists b. rewrite O1.
      destruct St as (_ & T' & _ & _ & A' & _).
      split; [exact O2|]. split; [exact Ev|]. split.
      + unfold eval_step in Ev. destruct (on_schedule (if first then it else (it + 1)%Z) (b_tsf bp)).
        * destruct Ev as [Ea _]. intros k. rewrite O4. destruct (b_apply b) eqn:Eap.
          -- rewrite CF_one_active; [rewrite T'; reflexivity | rewrite Ea, Eap; reflexivity].
          -- apply CF_one_zero. rewrite Eap. apply andb_false_r.
        * destruct Ev as [Ea _]. split.
          -- rewrite O3. unfold counts_energy. rewrite Ea. reflexivity.
          -- intros k. rewrite O4. apply CF_one_zero. rewrite Ea. reflexivity.
      + apply (IH (if first then it else (it + 1)%Z) false b outs' Hf F'); [rewrite T'; exact Ht | exact Hl].
  Qed.

  Theorem mts_evaluation it0 tsfs (c : @bias_cfg R BS) xss :
    fixed = true -> (1 < bc_tsf c)%Z ->
    eval_ok (length tsfs) (init_bias Rops c) (run_cfg Rops fixed efix it0 tsfs [c] (map EStep xss)) xss.
  Proof.
    intros Hf Hn. eapply strace_eval_ok; [exact Hf | apply init_bias_FS | | apply run_single_closed].
    cbn. apply Z.ltb_lt. exact Hn.
  Qed.

  Theorem impulse_window it0 tsfs (c : @bias_cfg R BS) xss m k :
    fixed = true -> (1 < bc_tsf c)%Z -> (0 <= it0)%Z -> (it0 <= m * bc_tsf c)%Z ->
    let n := bc_tsf c in
    let j := Z.to_nat (m * n - it0) in
    (j + Z.to_nat n <= length xss)%nat ->
    let outs := run_cfg Rops fixed efix it0 tsfs [c] (map EStep xss) in
    exists o b xs,
      nth_error outs j = Some o /\ o_biases o = [b] /\ nth_error xss j = Some xs /\
      o_it o = (m * n)%Z /\ b_active b = true /\
      rsum (map (fun o => coord_force Rops (o_vars o) k) (firstn (Z.to_nat n) (skipn j outs)))
      = (if b_apply b then IZR n * inst_force b xs (length tsfs) k else 0).
  Proof.
    intros Hf Hn H0 Hm. cbn zeta. intros Hlen.
    set (n := bc_tsf c) in *. set (j := Z.to_nat (m * n - it0)) in *.
    set (nv := length tsfs).
    pose proof (run_single_closed it0 tsfs c xss) as HS. fold nv in HS.
    set (outs := run_cfg Rops fixed efix it0 tsfs [c] (map EStep xss)) in *.
    set (l := strace nv it0 true (init_bias Rops c) xss) in *.
    assert (Ht : (1 <? b_tsf (init_bias Rops c))%Z = true) by (cbn; apply Z.ltb_lt; exact Hn).
    assert (Hnth : forall i t, nth_error l i = Some t ->
              fst (fst t) = (it0 + Z.of_nat i)%Z /\ b_tsf (snd (fst t)) = n /\
              b_active (snd (fst t)) = on_schedule (it0 + Z.of_nat i) n /\ nth_error xss i = Some (snd t)).
    { intros i t Hi. apply (strace_nth nv xss it0 true (init_bias Rops c) i t Hf (init_bias_FS c) Ht Hi). }
    assert (Ll : length l = length xss).
    { unfold l. apply strace_length. }
    assert (Zn : Z.to_nat n = S (Z.to_nat n - 1)) by lia.
    destruct (nth_error l j) as [t|] eqn:Ej; [|apply nth_error_None in Ej; lia].
    destruct (Hnth j t Ej) as (T1 & T2 & T3 & T4).
    assert (Ej' : (it0 + Z.of_nat j = m * n)%Z) by (unfold j; lia).
    rewrite Ej' in T1, T3. rewrite on_schedule_multiple in T3 by lia.
    destruct (Forall2_nth _ _ _ HS j t Ej) as (o & Eo & Ho).
    destruct t as [[it b] xs]. cbn [fst snd] in *. subst it.
    destruct Ho as (O1 & O2 & O3 & O4).
    exists o, b, xs. repeat (split; [first [assumption | reflexivity]|]).
    (* the window *)
    assert (HW : Forall2 (fun (o : @out R BS) (t : selem) => coord_force Rops (o_vars o) k = CF [snd (fst t)] (snd t) nv k)
                         (firstn (Z.to_nat n) (skipn j outs)) (firstn (Z.to_nat n) (skipn j l))).
    { apply Forall2_firstn, Forall2_skipn.
      eapply Forall2_impl'; [|exact HS]. intros o' [[it' b'] xs'] (_ & _ & _ & P4). cbn [fst snd]. apply P4. }
    rewrite (Forall2_rsum _ _ _ _ HW). rewrite Zn.
    rewrite (window_sum (fun t : selem => CF [snd (fst t)] (snd t) nv k) l j (Z.to_nat n - 1) _ Ej).
    - cbn [fst snd]. destruct (b_apply b) eqn:Eap.
      + rewrite CF_one_active; [rewrite T2; reflexivity | rewrite T3, Eap; reflexivity].
      + apply CF_one_zero. rewrite Eap. apply andb_false_r.
    - intros d y Hd Hy. destruct (Hnth (j + d)%nat y Hy) as (Y1 & Y2 & Y3 & Y4).
      apply CF_one_zero. rewrite Y3.
      replace (it0 + Z.of_nat (j + d))%Z with (m * n + Z.of_nat d)%Z by lia.
      rewrite off_schedule_inside; [reflexivity | lia | lia | lia].
  Qed.

End Real.

(* ================================================================================================== *)
(* Part C: total-force coupling                                                                        *)
(* ================================================================================================== *)
Section TotalForceR.
  Local Open Scope R_scope.

  Lemma tf_trace_spec hist : forall prev fold t s f x,
    nth_error hist t = Some (s, f) ->
    nth_error (tf_trace Rops true true prev fold hist) (S t) = Some x -> x = s.
  Proof.
    induction hist as [|[s0 f0] r IH]; intros prev fold t s f x Ht Hx; [destruct t; discriminate|].
    cbn [tf_trace nth_error] in Hx.
    destruct t as [|t]; cbn [nth_error] in Ht.
    - inversion Ht; subst s0 f0. destruct r as [|[s1 f1] r']; [discriminate|].
      cbn [tf_trace nth_error] in Hx. inversion Hx; subst x.
      unfold tf_report, tf_end, engine_total. cbn [andb nadd nsub Rops]. lra.
    - apply (IH _ _ t s f x Ht Hx).
  Qed.

  (* the sample seen at step t+1 is the system force of step t, whatever Colvars applied *)
  Theorem total_force_coupling (hA hB : list (R * R)) t sA fA sB fB xA xB :
    map fst hA = map fst hB ->
    nth_error hA t = Some (sA, fA) -> nth_error hB t = Some (sB, fB) ->
    nth_error (tf_trace Rops true true None 0 hA) (S t) = Some xA ->
    nth_error (tf_trace Rops true true None 0 hB) (S t) = Some xB ->
    xA = xB /\ xA = sA.
  Proof.
    intros Hs HA HB XA XB.
    pose proof (tf_trace_spec hA None 0 t sA fA xA HA XA) as E1.
    pose proof (tf_trace_spec hB None 0 t sB fB xB HB XB) as E2.
    assert (E : sA = sB).
    { pose proof (map_nth_error fst t hA HA) as M1. pose proof (map_nth_error fst t hB HB) as M2.
      rewrite Hs in M1. rewrite M1 in M2. cbn in M2. inversion M2; reflexivity. }
    split; [congruence | exact E1].
  Qed.

  (* premises are satisfiable, including a delivered force that is exactly zero (1 + -1) *)
  Lemma total_force_coupling_premises_sat :
    exists (hA hB : list (R * R)) t sA fA sB fB xA xB,
      map fst hA = map fst hB /\ nth_error hA t = Some (sA, fA) /\ nth_error hB t = Some (sB, fB) /\
      sA + fA = 0 /\
      nth_error (tf_trace Rops true true None 0 hA) (S t) = Some xA /\
      nth_error (tf_trace Rops true true None 0 hB) (S t) = Some xB.
  Proof.
    exists [(1, -1); (0, 0)], [(1, 2); (0, 0)], 0%nat, 1, (-1), 1, 2.
    eexists. eexists. repeat split; try reflexivity; cbn; lra.
  Qed.
  (* the applied force split into its fb and fb_actual parts; f_old saved at end of step, after fb_actual *)
  Lemma tf_trace_routed_spec late hist : late = true -> forall prev fold t s fb fba x,
    nth_error hist t = Some (s, (fb, fba)) ->
    nth_error (tf_trace_routed Rops late true true prev fold hist) (S t) = Some x -> x = s.
  Proof.
    intros Hl. subst late.
    induction hist as [|[s0 [b0 a0]] r IH]; intros prev fold t s fb fba x Ht Hx; [destruct t; discriminate|].
    cbn [tf_trace_routed nth_error] in Hx.
    destruct t as [|t]; cbn [nth_error] in Ht.
    - inversion Ht; subst s0 b0 a0. destruct r as [|[s1 [b1 a1]] r']; [discriminate|].
      cbn [tf_trace_routed nth_error] in Hx. inversion Hx; subst x.
      unfold tf_report, tf_end_routed, engine_total, applied. cbn [andb nadd nsub n0 Rops]. lra.
    - apply (IH _ _ t s fb fba x Ht Hx).
  Qed.

  Theorem total_force_coupling_routed (hA hB : list (R * (R * R))) t sA bA aA sB bB aB xA xB :
    map fst hA = map fst hB ->
    nth_error hA t = Some (sA, (bA, aA)) -> nth_error hB t = Some (sB, (bB, aB)) ->
    nth_error (tf_trace_routed Rops true true true None 0 hA) (S t) = Some xA ->
    nth_error (tf_trace_routed Rops true true true None 0 hB) (S t) = Some xB ->
    xA = xB /\ xA = sA.
  Proof.
    intros Hs HA HB XA XB.
    pose proof (tf_trace_routed_spec true hA eq_refl None 0 t sA bA aA xA HA XA) as E1.
    pose proof (tf_trace_routed_spec true hB eq_refl None 0 t sB bB aB xB HB XB) as E2.
    assert (E : sA = sB).
    { pose proof (map_nth_error fst t hA HA) as M1. pose proof (map_nth_error fst t hB HB) as M2.
      rewrite Hs in M1. rewrite M1 in M2. cbn in M2. inversion M2; reflexivity. }
    split; [congruence | exact E1].
  Qed.

  Lemma total_force_coupling_routed_premises_sat :
    exists (hA hB : list (R * (R * R))) t sA bA aA sB bB aB xA xB,
      map fst hA = map fst hB /\ nth_error hA t = Some (sA, (bA, aA)) /\ nth_error hB t = Some (sB, (bB, aB)) /\
      aA <> 0 /\
      nth_error (tf_trace_routed Rops true true true None 0 hA) (S t) = Some xA /\
      nth_error (tf_trace_routed Rops true true true None 0 hB) (S t) = Some xB.
  Proof.
    exists [(1, (1, 2)); (0, (0, 0))], [(1, (0, 0)); (0, (0, 0))], 0%nat, 1, 1, 2, 1, 0, 0.
    eexists. eexists. repeat split; try reflexivity; cbn; lra.
  Qed.

  (* if f_old were saved before "f += fb_actual", the bypassing biases' force of step t would stay in the sample *)
  Lemma total_force_coupling_early_fold :
    exists (h : list (R * (R * R))) s fb fba x,
      nth_error h 0 = Some (s, (fb, fba)) /\
      nth_error (tf_trace_routed Rops false true true None 0 h) 1 = Some x /\ x = s + fba /\ x <> s.
  Proof.
    exists [(1, (0, 2)); (0, (0, 0))], 1, 0, 2, 3. repeat split; try reflexivity; try lra.
    cbn [tf_trace_routed nth_error]. unfold tf_report, tf_end_routed, engine_total, applied.
    cbn [andb nadd nsub n0 Rops]. f_equal. lra.
  Qed.
End TotalForceR.

(* ================================================================================================== *)
(* Part D: witnesses, computed in exact integer arithmetic                                             *)
(* ================================================================================================== *)
Definition Zops : NumOps Z :=
  mkNumOps Z 0%Z 1%Z Z.add Z.sub Z.mul Z.div Z.opp (fun x => x) (fun x => x) (fun x => x) (fun x => x)
           (fun x => x) (fun x => x) (fun x _ => x) (fun x _ => x) (fun z => z) (fun x => x) Z.ltb Z.leb Z.eqb.

Section Witness.
  (* one variable = z coordinate of atom 0 (coordinate index 2), value v *)
  Definition wx (v : Z) : list (list (@cvc_in Z)) := [[mkCvc 1%Z 1%nat v [(2%nat, 1%Z)]]].
  Definition wharm (tsf : Z) : (nat * Z * list nat * @kind Z * option (Z * Z * list Z)) := (0%nat, tsf, [0%nat], KHarmonic 1%Z [(0%Z, 1%Z)], None).
  (* (step, activity of the biases, activity of the variables, energy, force on the z coordinate of atom 0) *)
  Definition wview (o : @out Z (@kst Z)) :=
    (o_it o, map (fun b => b_active b) (o_biases o), map (fun v => v_active v) (o_vars o), o_energy o,
     coord_force Zops (o_vars o) 2).

  (* a bias with factor 2 disabled by the user after step 1 is active again at step 2 *)
  Lemma witness_disabled_tsf :
    map wview (run_kinds Zops true true 0 [1%Z] [wharm 2]
                 [EStep (wx 1); EStep (wx 1); ESetActive 0 false; EStep (wx 1)])
    = [(0, [true], [true], 0, -2); (1, [false], [false], 0, 0); (2, [true], [true], 0, -2)]%Z.
  Proof. vm_compute. reflexivity. Qed.

  (* a variable with factor 2 used by a bias with factor 1 is evaluated and biased at step 1 *)
  Lemma witness_variable_factor :
    map wview (run_kinds Zops true true 0 [2%Z] [wharm 1] [EStep (wx 1); EStep (wx 3)])
    = [(0, [true], [true], 0, -1); (1, [true], [true], 0, -3)]%Z.
  Proof. vm_compute. reflexivity. Qed.

  (* the same variable without a bias sleeps at step 1 *)
  Lemma witness_variable_sleeps :
    map wview (run_kinds Zops true true 0 [2%Z] [] [EStep (wx 1); EStep (wx 3); EStep (wx 3)])
    = [(0, [], [true], 0, 0); (1, [], [false], 0, 0); (2, [], [true], 0, 0)]%Z.
  Proof. vm_compute. reflexivity. Qed.

  (* before the fix: first step 1, factor 2: the bias is active and applies twice its force at step 1 *)
  Lemma witness_first_step_unfixed :
    map wview (run_kinds Zops false true 1 [1%Z] [wharm 2] [EStep (wx 1); EStep (wx 1)])
    = [(1, [true], [true], 0, -2); (2, [true], [true], 0, -2)]%Z.
  Proof. vm_compute. reflexivity. Qed.
  Lemma witness_first_step_fixed :
    map wview (run_kinds Zops true true 1 [1%Z] [wharm 2] [EStep (wx 1); EStep (wx 1)])
    = [(1, [false], [false], 0, 0); (2, [true], [true], 0, -2)]%Z.
  Proof. vm_compute. reflexivity. Qed.

  (* before the fix: a non-applying bias with energy 5 adds 5 to the reported energy *)
  Lemma witness_energy_unfixed :
    map wview (run_kinds Zops true false 0 [1%Z] [(0%nat, 1%Z, [0%nat], KConst 5%Z, None)] [EStep (wx 1)])
    = [(0, [true], [true], 5, 0)]%Z.
  Proof. vm_compute. reflexivity. Qed.
  Lemma witness_energy_fixed :
    map wview (run_kinds Zops true true 0 [1%Z] [(0%nat, 1%Z, [0%nat], KConst 5%Z, None)] [EStep (wx 1)])
    = [(0, [true], [true], 0, 0)]%Z.
  Proof. vm_compute. reflexivity. Qed.

  (* superposition on a concrete run: factor-2 harmonic + factor-1 linear sharing the variable *)
  Definition wlin : (nat * Z * list nat * @kind Z * option (Z * Z * list Z)) := (1%nat, 1%Z, [0%nat], KLinear 3%Z [(0%Z, 1%Z)], None).
  Lemma witness_superposition :
    let evs := [EStep (wx 1); EStep (wx 2); EStep (wx 4)] in
    (map wview (run_kinds Zops true true 0 [1%Z] [wharm 2; wlin] evs),
     map wview (run_kinds Zops true true 0 [1%Z] [wharm 2] evs),
     map wview (run_kinds Zops true true 0 [1%Z] [wlin] evs))
    = ([(0, [true; true], [true], 3, -5); (1, [false; true], [true], 6, -3); (2, [true; true], [true], 12, -11)],
       [(0, [true], [true], 0, -2); (1, [false], [false], 0, 0); (2, [true], [true], 0, -8)],
       [(0, [true], [true], 3, -3); (1, [true], [true], 6, -3); (2, [true], [true], 12, -3)])%Z.
  Proof. vm_compute. reflexivity. Qed.
  (* scaledBiasingForce: grid on [0,4) of width 1 with factors 2,3,1,5; harmonic k=1 centre 0: x=1 -> bin 1 -> factor 3:
     force -1*3; x=7 is outside the grid: factor 1 *)
  Lemma witness_scaled :
    map wview (run_kinds Zops true true 0 [1%Z] [(0%nat, 2%Z, [0%nat], KHarmonic 1%Z [(0%Z, 1%Z)], Some (0%Z, 1%Z, [2%Z; 3%Z; 1%Z; 5%Z]))]
                 [EStep (wx 1); EStep (wx 1); EStep (wx 7)])
    = [(0, [true], [true], 0, -6); (1, [false], [false], 0, 0); (2, [true], [true], 0, -14)]%Z.
  Proof. vm_compute. reflexivity. Qed.
  (* apply_force switched off by script for one step and on again: no force while it is off, reference counts follow *)
  Lemma witness_apply_switch :
    map wview (run_kinds Zops true true 0 [1%Z] [wharm 1]
                 [EStep (wx 1); ESetApply 0 false; EStep (wx 2); ESetApply 0 true; EStep (wx 3)])
    = [(0, [true], [true], 0, -1); (1, [true], [true], 0, 0); (2, [true], [true], 0, -3)]%Z.
  Proof. vm_compute. reflexivity. Qed.
End Witness.

Lemma impulse_premises_sat :
  exists (it0 m n : Z) (len : nat),
    (1 < n)%Z /\ (0 <= it0)%Z /\ (it0 <= m * n)%Z /\ (Z.to_nat (m * n - it0) + Z.to_nat n <= len)%nat.
Proof. exists 1%Z, 1%Z, 2%Z, 3%nat. cbn. repeat split; auto with zarith. Qed.

(* ---- runs without script events raise no error (every carrier) ------------------------------------- *)
Section NoError.
  Context {T : Type} (O : NumOps T) {BS : Type}.
  Variables fixed efix : bool.

  Definition no_script (evs : list (@event T)) : Prop :=
    forall id on, ~ In (ESetActive id on) evs /\ ~ In (ESetApply id on) evs.

  Lemma run_noerr evs : forall (m : @mstate T BS),
    no_script evs -> VInv (m_biases m) (m_vars m) -> Forall FSg (m_biases m) ->
    Forall (fun o : @out T BS => o_err o = false) (run O fixed efix m evs).
  Proof.
    induction evs as [|ev r IH]; intros m Hn H HF; [constructor|].
    assert (Hn' : no_script r).
    { intros id on. destruct (Hn id on) as [N1 N2]. split; intros Hin; [apply N1 | apply N2]; right; exact Hin. }
    cbn [run]. destruct ev as [xs|xs|id on|id on]; cbn [mstep].
    - unfold do_calc.
      destruct (calc_noerr O fixed efix (if m_first m then m_it m else (m_it m + 1)%Z) (m_vars m) (m_biases m) xs H HF) as (E & V & F).
      destruct (calc O fixed efix (if m_first m then m_it m else (m_it m + 1)%Z) (m_vars m) (m_biases m) xs) as [[[vs bs] e] en].
      cbn [fst snd] in *. subst e. cbn [app]. constructor; [reflexivity|]. apply IH; assumption.
    - unfold do_calc.
      destruct (calc_noerr O fixed efix (m_it m) (m_vars m) (m_biases m) xs H HF) as (E & V & F).
      destruct (calc O fixed efix (m_it m) (m_vars m) (m_biases m) xs) as [[[vs bs] e] en].
      cbn [fst snd] in *. subst e. cbn [app]. constructor; [reflexivity|]. apply IH; assumption.
    - exfalso. apply (proj1 (Hn id on)). left. reflexivity.
    - exfalso. apply (proj2 (Hn id on)). left. reflexivity.
  Qed.

  Theorem run_cfg_noerr it0 tsfs (cfgs : list (@bias_cfg T BS)) evs :
    no_script evs -> Forall (fun o : @out T BS => o_err o = false) (run_cfg O fixed efix it0 tsfs cfgs evs).
  Proof.
    intros Hn. unfold run_cfg. apply run_noerr; [exact Hn | |].
    - unfold init. cbn [m_vars m_biases].
      apply (VInv_init_refs (map (init_bias O) cfgs) [] (map (init_var O) tsfs)).
      + intros b Hb. apply in_map_iff in Hb. destruct Hb as (c & <- & _). reflexivity.
      + apply VInv_init_vars.
    - unfold init. cbn [m_biases]. apply Forall_map. apply Forall_forall. intros c _. left. cbn. auto.
  Qed.
End NoError.

(* ================================================================================================== *)
(* Part E: hidden Jacobian force under multiple time stepping                                          *)
(* ================================================================================================== *)
Section HiddenJacobianR.
  Local Open Scope R_scope.

  Fixpoint rsumR (l : list R) : R := match l with [] => 0 | x :: r => x + rsumR r end.

  (* a window of the schedule: the first step awake, the others asleep *)
  Definition window_of (e : R * (R * R)) (n : nat) : list (bool * (R * (R * R))) :=
    (true, e) :: repeat (false, e) n.

  Lemma rsumR_asleep scaled n hide apply e k :
    rsumR (map (jac_step Rops scaled n hide apply) (repeat (false, e) k)) = 0.
  Proof. induction k as [|k IH]; cbn [repeat map rsumR]; [reflexivity|]. rewrite IH. destruct e as [F [Fa fj]]. cbn. lra. Qed.

  (* impulse of a window of n steps = n times the instantaneous force (biases minus the hidden Jacobian force) *)
  Theorem hidden_jacobian_impulse (n : Z) (hide apply : bool) (F Fa fj : R) (k : nat) :
    rsumR (jac_trace Rops true n hide apply (window_of (F, (Fa, fj)) k))
    = IZR n * ((F + Fa) - (if hide && apply then fj else 0)).
  Proof.
    unfold jac_trace, window_of. cbn [map rsumR]. rewrite rsumR_asleep.
    unfold jac_step, jac_force. cbn [nadd nsub nmul n0 nofZ Rops]. destruct (hide && apply); lra.
  Qed.

  (* the variant that subtracts fj once (not times the factor) does not conserve the impulse *)
  Lemma hidden_jacobian_unscaled :
    exists (n : Z) (F Fa fj : R),
      rsumR (jac_trace Rops false n true true (window_of (F, (Fa, fj)) 1)) <> IZR n * ((F + Fa) - fj).
  Proof.
    exists 2%Z, 0, 0, 1. unfold jac_trace, window_of. cbn [repeat map rsumR jac_step jac_force andb nadd nsub nmul n0 nofZ Rops]. lra.
  Qed.
End HiddenJacobianR.
