(* C08: executable model of the per-step pipeline of the Colvars module
     colvarmodule::calc = calc_colvars ; calc_biases ; update_colvar_forces
   (src/colvarmodule.cpp), colvarbias::communicate_forces (src/colvarbias.cpp),
   colvar::collect_cvc_values / update_forces_energy / communicate_forces (src/colvar.cpp, scalar
   variables without extended Lagrangian), and of the part of the dependency engine
   (src/colvardeps.cpp: enable / disable / decr_ref_count / free_children_deps /
   restore_children_deps) through which "sleeping" is implemented, specialised to the features
     bias:     f_cvb_active (dynamic, children: f_cv_active), f_cvb_awake (static, self: f_cvb_active),
               f_cvb_apply_force (user, children: f_cv_apply_force)
     variable: f_cv_active (dynamic), f_cv_awake (static, self: f_cv_active), f_cv_apply_force (dynamic).
   A bias is an arbitrary update function on an arbitrary internal state (field b_upd): the theorems
   hold for every bias; the concrete kinds at the end (harmonic, linear, upper wall, ABMD, histogram,
   constant-energy non-applying) are what the correspondence check instantiates.
   Definitions only; lemmas are in ModuleProofs.v. *)
From Coq Require Import ZArith List Bool.
From CV Require Import Base.Num.
Import ListNotations.
Open Scope Z_scope.

Section Model.
  Context {T : Type} (O : NumOps T).
  Context {BS : Type}.                      (* internal state of a bias *)

  (* one component (cvc) of a scalar variable as the engine presents it at a step: coefficient and
     exponent (componentCoeff, componentExp), its value and its atomic gradients, one entry
     (coordinate index 3*atom + axis, derivative) per Cartesian coordinate of each atom of its groups
     (rvector arithmetic in the C++ is componentwise, so coordinates are independent accumulators) *)
  Record cvc_in := mkCvc { ci_coeff : T; ci_np : nat; ci_val : T; ci_grads : list (nat * T) }.

  Fixpoint ipow (x : T) (n : nat) : T :=
    match n with 0%nat => n1 O | S k => nmul O x (ipow x k) end.

  (* colvar::collect_cvc_values, scalar branch *)
  Definition cvc_term (c : cvc_in) : T :=
    nmul O (ci_coeff c) (match ci_np c with 1%nat => ci_val c | n => ipow (ci_val c) n end).
  Definition var_value (cs : list cvc_in) : T :=
    fold_left (fun acc c => nadd O acc (cvc_term c)) cs (n0 O).

  Record var := mkVar {
    v_tsf : Z;
    v_active : bool; v_rc : Z;              (* f_cv_active: enabled, ref_count *)
    v_awake : bool;                         (* f_cv_awake: enabled *)
    v_apply : bool; v_arc : Z;              (* f_cv_apply_force: enabled, ref_count *)
    v_x : T; v_cvcs : list cvc_in;          (* value and component data of the last calc() *)
    v_fb : T; v_fba : T; v_f : T            (* fb, fb_actual, f *)
  }.

  Definition vdefault : var :=
    mkVar 1 false 0 false false 0 (n0 O) [] (n0 O) (n0 O) (n0 O).

  Definition set_vact (v : var) (a : bool) (rc : Z) : var :=
    mkVar (v_tsf v) a rc (v_awake v) (v_apply v) (v_arc v) (v_x v) (v_cvcs v) (v_fb v) (v_fba v) (v_f v).
  Definition set_vawake (v : var) (w : bool) : var :=
    mkVar (v_tsf v) (v_active v) (v_rc v) w (v_apply v) (v_arc v) (v_x v) (v_cvcs v) (v_fb v) (v_fba v) (v_f v).
  Definition set_vapply (v : var) (a : bool) (rc : Z) : var :=
    mkVar (v_tsf v) (v_active v) (v_rc v) (v_awake v) a rc (v_x v) (v_cvcs v) (v_fb v) (v_fba v) (v_f v).
  Definition set_vcalc (v : var) (cs : list cvc_in) : var :=
    mkVar (v_tsf v) (v_active v) (v_rc v) (v_awake v) (v_apply v) (v_arc v) (var_value cs) cs (v_fb v) (v_fba v) (v_f v).
  Definition set_vfb (v : var) (fb fba : T) : var :=
    mkVar (v_tsf v) (v_active v) (v_rc v) (v_awake v) (v_apply v) (v_arc v) (v_x v) (v_cvcs v) fb fba (v_f v).
  Definition set_vf (v : var) (f : T) : var :=
    mkVar (v_tsf v) (v_active v) (v_rc v) (v_awake v) (v_apply v) (v_arc v) (v_x v) (v_cvcs v) (v_fb v) (v_fba v) f.

  (* ---- colvardeps on a variable ------------------------------------------------------------- *)
  (* enable(f_cv_active, dry_run=false, toplevel=false): bump the count, or turn on with count 1 *)
  Definition var_ref_active (v : var) : var :=
    if v_active v then set_vact v true (v_rc v + 1) else set_vact v true 1.
  (* decr_ref_count(f_cv_active): error when the count is not positive; a dynamic feature whose
     count reaches 0 is disabled *)
  Definition var_decr_active (v : var) : var * bool :=
    if v_rc v <=? 0 then (v, true)
    else if v_rc v - 1 =? 0 then (set_vact v false 0, false)
    else (set_vact v (v_active v) (v_rc v - 1), false).
  Definition var_ref_apply (v : var) : var :=
    if v_apply v then set_vapply v true (v_arc v + 1) else set_vapply v true 1.
  Definition var_decr_apply (v : var) : var * bool :=
    if v_arc v <=? 0 then (v, true)
    else if v_arc v - 1 =? 0 then (set_vapply v false 0, false)
    else (set_vapply v (v_apply v) (v_arc v - 1), false).
  (* enable(f_cv_awake) (toplevel; static feature; requires_self f_cv_active) *)
  Definition var_enable_awake (v : var) : var :=
    if v_awake v then v else set_vawake (var_ref_active v) true.
  (* disable(f_cv_awake) *)
  Definition var_disable_awake (v : var) : var * bool :=
    if v_awake v then let '(v1, e) := var_decr_active v in (set_vawake v1 false, e) else (v, false).

  Fixpoint upd_nth {A} (l : list A) (k : nat) (u : A -> A) : list A :=
    match l, k with
    | [], _ => []
    | x :: r, 0%nat => u x :: r
    | x :: r, S k => x :: upd_nth r k u
    end.

  (* "for (j...) children[j]->op(g)" *)
  Fixpoint on_children (op : var -> var) (ids : list nat) (vs : list var) : list var :=
    match ids with
    | [] => vs
    | i :: r => on_children op r (upd_nth vs i op)
    end.
  Fixpoint on_children_e (op : var -> var * bool) (ids : list nat) (vs : list var) : list var * bool :=
    match ids with
    | [] => (vs, false)
    | i :: r =>
      let e := match nth_error vs i with Some v => snd (op v) | None => false end in
      let '(vs', e') := on_children_e op r (upd_nth vs i (fun v => fst (op v))) in
      (vs', e || e')
    end.

  (* ---- biases --------------------------------------------------------------------------------- *)
  Record bias := mkBias {
    b_id : nat;                              (* name *)
    b_tsf : Z;                               (* timeStepFactor *)
    b_vars : list nat;                       (* its variables (children), as indices *)
    b_bypass : bool;                         (* f_cvb_bypass_ext_lagrangian (harmonicWalls) *)
    b_apply : bool;                          (* f_cvb_apply_force *)
    b_upd : BS -> Z -> list T -> BS * (T * list T);  (* update(): state, step, values -> state, energy, forces *)
    b_st : BS;
    b_active : bool; b_rc : Z;               (* f_cvb_active: enabled, ref_count *)
    b_awake : bool;                          (* f_cvb_awake: enabled *)
    b_energy : T; b_forces : list T;         (* bias_energy, colvar_forces *)
    b_scale : list T -> T;                   (* scaledBiasingForce: factor read from the scaling grid at the bin of the current
                                                values of its variables (1 outside the grid; constantly 1 without the option) *)
    b_fac : T                                (* biasing_force_factor of the last update (communicate_forces reads the grid at the
                                                same values, in the same calc()) *)
  }.

  Definition set_bact (b : bias) (a : bool) (rc : Z) : bias :=
    mkBias (b_id b) (b_tsf b) (b_vars b) (b_bypass b) (b_apply b) (b_upd b) (b_st b) a rc (b_awake b) (b_energy b) (b_forces b) (b_scale b) (b_fac b).
  Definition set_bawake (b : bias) (w : bool) : bias :=
    mkBias (b_id b) (b_tsf b) (b_vars b) (b_bypass b) (b_apply b) (b_upd b) (b_st b) (b_active b) (b_rc b) w (b_energy b) (b_forces b) (b_scale b) (b_fac b).
  Definition set_bapply (b : bias) (a : bool) : bias :=
    mkBias (b_id b) (b_tsf b) (b_vars b) (b_bypass b) a (b_upd b) (b_st b) (b_active b) (b_rc b) (b_awake b) (b_energy b) (b_forces b) (b_scale b) (b_fac b).
  Definition set_bout (b : bias) (s : BS) (e : T) (fs : list T) (fac : T) : bias :=
    mkBias (b_id b) (b_tsf b) (b_vars b) (b_bypass b) (b_apply b) (b_upd b) s (b_active b) (b_rc b) (b_awake b) e fs (b_scale b) fac.

  (* restore_children_deps: for every enabled feature, in feature order (active, then apply_force) *)
  Definition bias_restore (b : bias) (vs : list var) : list var :=
    let vs1 := if b_active b then on_children var_ref_active (b_vars b) vs else vs in
    if b_apply b then on_children var_ref_apply (b_vars b) vs1 else vs1.
  (* free_children_deps: likewise *)
  Definition bias_free (b : bias) (vs : list var) : list var * bool :=
    let '(vs1, e1) := if b_active b then on_children_e var_decr_active (b_vars b) vs else (vs, false) in
    let '(vs2, e2) := if b_apply b then on_children_e var_decr_apply (b_vars b) vs1 else (vs1, false) in
    (vs2, e1 || e2).

  (* enable(f_cvb_active, false, toplevel): the dry run on the children is assumed to pass *)
  Definition bias_enable_active (top : bool) (b : bias) (vs : list var) : bias * list var :=
    if b_active b then ((if top then b else set_bact b true (b_rc b + 1)), vs)
    else let b' := set_bact b true (if top then b_rc b else 1) in (b', bias_restore b' vs).
  (* disable(f_cvb_active) *)
  Definition bias_disable_active (b : bias) (vs : list var) : bias * list var * bool :=
    if negb (b_active b) then (b, vs, false)
    else if 1 <? b_rc b then (b, vs, true)
    else
      let '(vs1, e1) := on_children_e var_decr_active (b_vars b) vs in
      let b' := set_bact b false 0 in
      let '(vs2, e2) := bias_free b' vs1 in
      (b', vs2, e1 || e2).
  (* decr_ref_count(f_cvb_active) *)
  Definition bias_decr_active (b : bias) (vs : list var) : bias * list var * bool :=
    if b_rc b <=? 0 then (b, vs, true)
    else if b_rc b - 1 =? 0 then bias_disable_active (set_bact b (b_active b) 0) vs
    else (set_bact b (b_active b) (b_rc b - 1), vs, false).
  (* enable(f_cvb_awake) *)
  Definition bias_enable_awake (b : bias) (vs : list var) : bias * list var :=
    if b_awake b then (b, vs)
    else let '(b1, vs1) := bias_enable_active false b vs in (set_bawake b1 true, vs1).
  (* disable(f_cvb_awake) *)
  Definition bias_disable_awake (b : bias) (vs : list var) : bias * list var * bool :=
    if b_awake b then
      let '(b1, vs1, e) := bias_decr_active b vs in (set_bawake b1 false, vs1, e)
    else (b, vs, false).

  (* run-time switch of the user feature f_cvb_apply_force (`cv bias <name> set apply_force on|off`):
     enable(f_cvb_apply_force) toplevel references f_cv_apply_force of the children only while the bias is active
     (otherwise restore_children_deps does it when the bias wakes up); disable dereferences them while it is active *)
  Definition bias_enable_apply (b : bias) (vs : list var) : bias * list var :=
    if b_apply b then (b, vs)
    else (set_bapply b true, if b_active b then on_children var_ref_apply (b_vars b) vs else vs).
  Definition bias_disable_apply (b : bias) (vs : list var) : bias * list var * bool :=
    if negb (b_apply b) then (b, vs, false)
    else
      let '(vs1, e) := if b_active b then on_children_e var_decr_apply (b_vars b) vs else (vs, false) in
      (set_bapply b false, vs1, e).

  (* ---- calc_colvars: the awake schedule ---------------------------------------------------------
     [fixed] = true is the code after the fix "a bias or variable with timeStepFactor n was evaluated
     at the first step of a run when that step is not a multiple of n"; false is the code before it. *)
  Variable fixed : bool.

  Definition on_schedule (it tsf : Z) : bool := Z.rem it tsf =? 0.

  Definition wake_bias (it : Z) (b : bias) (vs : list var) : bias * list var * bool :=
    if 1 <? b_tsf b then
      if on_schedule it (b_tsf b) then let '(b', vs') := bias_enable_awake b vs in (b', vs', false)
      else
        let '(b1, vs1) :=
          if fixed && b_active b && negb (b_awake b) then bias_enable_awake b vs else (b, vs) in
        bias_disable_awake b1 vs1
    else (b, vs, false).

  Fixpoint wake_biases (it : Z) (bs : list bias) (vs : list var) : list bias * list var * bool :=
    match bs with
    | [] => ([], vs, false)
    | b :: r =>
      let '(b', vs1, e1) := wake_bias it b vs in
      let '(r', vs2, e2) := wake_biases it r vs1 in
      (b' :: r', vs2, e1 || e2)
    end.

  Definition wake_var (it : Z) (v : var) : var * bool :=
    if 1 <? v_tsf v then
      if on_schedule it (v_tsf v) then (var_enable_awake v, false)
      else
        let v1 := if fixed && v_active v && negb (v_awake v) then var_enable_awake v else v in
        var_disable_awake v1
    else (v, false).

  (* the loop over variables: schedule, then calc() of the variables that are active *)
  Fixpoint calc_vars (it : Z) (vs : list var) (xs : list (list cvc_in)) : list var * bool :=
    match vs with
    | [] => ([], false)
    | v :: r =>
      let '(v1, e1) := wake_var it v in
      let cs := match xs with c :: _ => c | [] => [] end in
      let v2 := if v_active v1 then set_vcalc v1 cs else v1 in
      let '(r', e2) := calc_vars it r (tl xs) in
      (v2 :: r', e1 || e2)
    end.

  (* ---- calc_biases ------------------------------------------------------------------------------ *)
  Definition reset_fb (vs : list var) : list var := map (fun v => set_vfb v (n0 O) (n0 O)) vs.

  Definition values_of (vs : list var) (ids : list nat) : list T :=
    map (fun i => v_x (nth i vs vdefault)) ids.

  Definition bias_update (it : Z) (vs : list var) (b : bias) : bias :=
    if b_active b then
      let '(s', (e, fs)) := b_upd b (b_st b) it (values_of vs (b_vars b)) in
      set_bout b s' e fs (b_scale b (values_of vs (b_vars b)))
    else b.

  (* [efix] = true is the code after the fix "the energy of a bias that applies no force was added to
     the energy reported to the engine" *)
  Variable efix : bool.

  Definition counts_energy (b : bias) : bool := b_active b && (negb efix || b_apply b).

  Definition total_energy (bs : list bias) : T :=
    fold_left (fun acc b => if counts_energy b then nadd O acc (b_energy b) else acc) bs (n0 O).

  (* ---- update_colvar_forces --------------------------------------------------------------------- *)
  (* colvarbias::communicate_forces: variables(i)->add_bias_force(real(tsf) * colvar_forces[i]);
     add_bias_force checks f_cv_apply_force (an error if it is off, the force is added anyway);
     with bypassExtendedLagrangian the force goes to fb_actual, unchecked.
     the whole force is multiplied by biasing_force_factor (scaledBiasingForce; 1 otherwise) *)
  Fixpoint add_forces (bypass : bool) (tsf fac : T) (ids : list nat) (fs : list T) (vs : list var) : list var * bool :=
    match ids, fs with
    | i :: ids', f :: fs' =>
      let ff := nmul O (nmul O tsf f) fac in
      let e := match nth_error vs i with Some v => negb bypass && negb (v_apply v) | None => false end in
      let vs1 := upd_nth vs i (fun v => if bypass then set_vfb v (v_fb v) (nadd O (v_fba v) ff)
                                        else set_vfb v (nadd O (v_fb v) ff) (v_fba v)) in
      let '(vs2, e2) := add_forces bypass tsf fac ids' fs' vs1 in
      (vs2, e || e2)
    | _, _ => (vs, false)
    end.

  Definition communicate_bias (b : bias) (vs : list var) : list var * bool :=
    if b_active b && b_apply b then add_forces (b_bypass b) (nofZ O (b_tsf b)) (b_fac b) (b_vars b) (b_forces b) vs
    else (vs, false).

  Fixpoint communicate_biases (bs : list bias) (vs : list var) : list var * bool :=
    match bs with
    | [] => (vs, false)
    | b :: r =>
      let '(vs1, e1) := communicate_bias b vs in
      let '(vs2, e2) := communicate_biases r vs1 in
      (vs2, e1 || e2)
    end.

  (* colvar::update_forces_energy (no Jacobian force, no extended Lagrangian) *)
  Definition update_force (v : var) : var :=
    if v_active v then set_vf v (nadd O (nadd O (n0 O) (v_fb v)) (v_fba v)) else set_vf v (n0 O).

  (* colvar::communicate_forces, scalar branch, and atom_group::apply_colvar_force: the force that
     reaches a coordinate, accumulated in the order of the loops over variables, components and atoms *)
  Definition cvc_force (f : T) (c : cvc_in) : T :=
    nmul O (nmul O (nmul O f (ci_coeff c)) (nofZ O (Z.of_nat (ci_np c)))) (ipow (ci_val c) (ci_np c - 1)).
  Definition var_applies (v : var) : bool := v_active v && v_apply v.
  Definition acc_grads (a : nat) (cf : T) (gs : list (nat * T)) (acc : T) : T :=
    fold_left (fun ac ag => if Nat.eqb (fst ag) a then nadd O ac (nmul O cf (snd ag)) else ac) gs acc.
  Definition acc_var (a : nat) (v : var) (acc : T) : T :=
    if var_applies v then
      fold_left (fun ac c => acc_grads a (cvc_force (v_f v) c) (ci_grads c) ac) (v_cvcs v) acc
    else acc.
  (* force on Cartesian coordinate a (= 3*atom + axis) *)
  Definition coord_force (vs : list var) (a : nat) : T :=
    fold_left (fun ac v => acc_var a v ac) vs (n0 O).

  (* ---- one call of colvarmodule::calc ----------------------------------------------------------- *)
  Record mstate := mkM { m_it : Z; m_first : bool; m_vars : list var; m_biases : list bias }.

  Record out := mkOut {
    o_it : Z; o_err : bool; o_energy : T;
    o_vars : list var; o_biases : list bias      (* state after the step (flags, fb, f, energies) *)
  }.

  Definition calc (it : Z) (vs : list var) (bs : list bias) (xs : list (list cvc_in))
    : list var * list bias * bool * T :=
    let '(bs1, vs1, e1) := wake_biases it bs vs in
    let '(vs2, e2) := calc_vars it vs1 xs in
    let vs3 := reset_fb vs2 in
    let bs2 := map (bias_update it vs3) bs1 in
    let en := total_energy bs2 in
    let '(vs4, e3) := communicate_biases bs2 vs3 in
    let vs5 := map update_force vs4 in
    (vs5, bs2, e1 || e2 || e3, en).

  (* what happens between two calls *)
  Inductive event :=
  | EStep (xs : list (list cvc_in))      (* the engine advances one step (not before the first call), then calc() *)
  | ERepeat (xs : list (list cvc_in))    (* calc() again at the same step number (a new run in the same process) *)
  | ESetActive (id : nat) (on : bool)    (* script: cv bias <id> set active on|off *)
  | ESetApply (id : nat) (on : bool).    (* script: cv bias <id> set apply_force on|off *)

  Fixpoint set_active (id : nat) (on : bool) (bs : list bias) (vs : list var) : list bias * list var * bool :=
    match bs with
    | [] => ([], vs, false)
    | b :: r =>
      let '(b', vs1, e1) :=
        if Nat.eqb (b_id b) id then
          if on then let '(b1, v1) := bias_enable_active true b vs in (b1, v1, false)
          else bias_disable_active b vs
        else (b, vs, false) in
      let '(r', vs2, e2) := set_active id on r vs1 in
      (b' :: r', vs2, e1 || e2)
    end.

  Fixpoint set_apply (id : nat) (on : bool) (bs : list bias) (vs : list var) : list bias * list var * bool :=
    match bs with
    | [] => ([], vs, false)
    | b :: r =>
      let '(b', vs1, e1) :=
        if Nat.eqb (b_id b) id then
          if on then let '(b1, v1) := bias_enable_apply b vs in (b1, v1, false)
          else bias_disable_apply b vs
        else (b, vs, false) in
      let '(r', vs2, e2) := set_apply id on r vs1 in
      (b' :: r', vs2, e1 || e2)
    end.

  Definition do_calc (m : mstate) (it : Z) (xs : list (list cvc_in)) : mstate * list out :=
    let '(vs, bs, e, en) := calc it (m_vars m) (m_biases m) xs in
    (mkM it false vs bs, [mkOut it e en vs bs]).

  Definition mstep (m : mstate) (ev : event) : mstate * list out :=
    match ev with
    | EStep xs => do_calc m (if m_first m then m_it m else m_it m + 1) xs
    | ERepeat xs => do_calc m (m_it m) xs
    | ESetActive id on =>
      let '(bs, vs, _) := set_active id on (m_biases m) (m_vars m) in
      (mkM (m_it m) (m_first m) vs bs, [])
    | ESetApply id on =>
      let '(bs, vs, _) := set_apply id on (m_biases m) (m_vars m) in
      (mkM (m_it m) (m_first m) vs bs, [])
    end.

  Fixpoint run (m : mstate) (evs : list event) : list out :=
    match evs with
    | [] => []
    | ev :: r => let '(m', o) := mstep m ev in o ++ run m' r
    end.

  (* ---- initial state: what colvar::init and colvarbias::init leave behind ------------------------
     variable: enable(f_cv_active) toplevel (count 0); bias: enable(f_cvb_active) toplevel, whose
     restore_children_deps references the variables, then (restraints, ABMD, ...) enable(f_cvb_apply_force)
     toplevel, which references f_cv_apply_force of the variables *)
  Definition init_var (tsf : Z) : var :=
    mkVar tsf true 0 false false 0 (n0 O) [] (n0 O) (n0 O) (n0 O).

  Record bias_cfg := mkBcfg {
    bc_id : nat; bc_tsf : Z; bc_vars : list nat; bc_bypass : bool; bc_apply : bool;
    bc_upd : BS -> Z -> list T -> BS * (T * list T); bc_st0 : BS; bc_scale : list T -> T }.

  Definition init_bias (c : bias_cfg) : bias :=
    mkBias (bc_id c) (bc_tsf c) (bc_vars c) (bc_bypass c) (bc_apply c) (bc_upd c) (bc_st0 c)
           true 0 false (n0 O) (map (fun _ => n0 O) (bc_vars c)) (bc_scale c) (n1 O).

  Definition init_refs (vs : list var) (b : bias) : list var := bias_restore b vs.

  Definition init (it0 : Z) (tsfs : list Z) (cfgs : list bias_cfg) : mstate :=
    let bs := map init_bias cfgs in
    mkM it0 true (fold_left init_refs bs (map init_var tsfs)) bs.

  Definition run_cfg (it0 : Z) (tsfs : list Z) (cfgs : list bias_cfg) (evs : list event) : list out :=
    run (init it0 tsfs cfgs) evs.

End Model.

(* ---- concrete bias kinds (what the correspondence check instantiates) --------------------------- *)
Section Kinds.
  Context {T : Type} (O : NumOps T).

  (* internal state shared by the concrete kinds: ABMD's (ref_initialized, ref_val) *)
  Definition kst := (bool * T)%type.
  Definition kst0 : kst := (false, n0 O).

  Inductive kind :=
  | KHarmonic (k : T) (cw : list (T * T))        (* forceConstant, (centre, width) per variable *)
  | KLinear (k : T) (cw : list (T * T))
  | KWallUp (k : T) (uw : list (T * T))          (* harmonicWalls with upperWalls only *)
  | KAbmd (k stop : T) (decreasing : bool)
  | KHistogram
  | KConst (e : T).                              (* stands for a non-applying bias that reports an energy (ABF / OPES with applyBias off) *)

  Definition nhalf' : T := ndiv O (n1 O) (nofZ O 2).

  Fixpoint harm_e (k : T) (cw : list (T * T)) (xs : list T) : T :=
    match cw, xs with
    | (c, w) :: cw', x :: xs' =>
      let d := nsub O x c in
      nadd O (nmul O (ndiv O (nmul O nhalf' k) (nmul O w w)) (nmul O d d)) (harm_e k cw' xs')
    | _, _ => n0 O
    end.
  Fixpoint harm_f (k : T) (cw : list (T * T)) (xs : list T) : list T :=
    match cw, xs with
    | (c, w) :: cw', x :: xs' =>
      nneg O (nmul O (ndiv O k (nmul O w w)) (nsub O x c)) :: harm_f k cw' xs'
    | _, _ => []
    end.
  Fixpoint lin_e (k : T) (cw : list (T * T)) (xs : list T) : T :=
    match cw, xs with
    | (c, w) :: cw', x :: xs' => nadd O (nmul O (ndiv O k w) (nsub O x c)) (lin_e k cw' xs')
    | _, _ => n0 O
    end.
  Fixpoint lin_f (k : T) (cw : list (T * T)) (xs : list T) : list T :=
    match cw, xs with
    | (c, w) :: cw', x :: xs' => nneg O (ndiv O k w) :: lin_f k cw' xs'
    | _, _ => []
    end.
  Definition wall_d (u x : T) : T := if nltb O u x then nsub O x u else n0 O.
  Fixpoint wall_e (k : T) (uw : list (T * T)) (xs : list T) : T :=
    match uw, xs with
    | (u, w) :: uw', x :: xs' =>
      let d := wall_d u x in
      nadd O (nmul O (ndiv O (nmul O nhalf' k) (nmul O w w)) (nmul O d d)) (wall_e k uw' xs')
    | _, _ => n0 O
    end.
  Fixpoint wall_f (k : T) (uw : list (T * T)) (xs : list T) : list T :=
    match uw, xs with
    | (u, w) :: uw', x :: xs' =>
      nneg O (nmul O (ndiv O k (nmul O w w)) (wall_d u x)) :: wall_f k uw' xs'
    | _, _ => []
    end.

  (* colvarbias_abmd::update *)
  Definition abmd_upd (k stop : T) (decreasing : bool) (s : kst) (x : T) : kst * (T * list T) :=
    let ref := if fst s then snd s else x in
    let sign := if decreasing then nneg O (n1 O) else n1 O in
    let diff := nmul O (nsub O x ref) sign in
    if nltb O (n0 O) diff then
      let ref' := if nleb O (nmul O (nsub O ref stop) sign) (n0 O) then x else ref in
      ((true, ref'), (n0 O, [n0 O]))
    else
      ((true, ref), (nmul O (nmul O (nmul O nhalf' k) diff) diff, [nneg O (nmul O (nmul O sign k) diff)])).

  Definition kind_upd (kd : kind) (s : kst) (it : Z) (xs : list T) : kst * (T * list T) :=
    match kd with
    | KHarmonic k cw => (s, (harm_e k cw xs, harm_f k cw xs))
    | KLinear k cw => (s, (lin_e k cw xs, lin_f k cw xs))
    | KWallUp k uw => (s, (wall_e k uw xs, wall_f k uw xs))
    | KAbmd k stop dec => abmd_upd k stop dec s (match xs with x :: _ => x | [] => n0 O end)
    | KHistogram => (s, (n0 O, map (fun _ => n0 O) xs))
    | KConst e => (s, (e, map (fun _ => n0 O) xs))
    end.

  Definition kind_applies (kd : kind) : bool :=
    match kd with KHistogram | KConst _ => false | _ => true end.
  Definition kind_bypass (kd : kind) : bool :=
    match kd with KWallUp _ _ => true | _ => false end.

  (* scaledBiasingForceFactorsGrid on the first variable of the bias: (lower boundary, width, values); colvar_grid::
     current_bin_scalar = floor((x - lower) / width); factor = value of the bin, 1 outside the grid *)
  Definition scale_of (g : option (T * T * list T)) (xs : list T) : T :=
    match g, xs with
    | Some (lo, w, vals), x :: _ =>
      let b := nfloor O (ndiv O (nsub O x lo) w) in
      if (0 <=? b) && (b <? Z.of_nat (length vals)) then nth (Z.to_nat b) vals (n1 O) else n1 O
    | _, _ => n1 O
    end.

  Definition kind_cfg (id : nat) (tsf : Z) (vars : list nat) (kd : kind) (g : option (T * T * list T)) : @bias_cfg T kst :=
    mkBcfg id tsf vars (kind_bypass kd) (kind_applies kd) (kind_upd kd) kst0 (scale_of g).

  (* driver entry point *)
  Definition run_kinds (fixed efix : bool) (it0 : Z) (tsfs : list Z)
             (bs : list (nat * Z * list nat * kind * option (T * T * list T))) (evs : list (@event T)) : list (@out T kst) :=
    run_cfg O fixed efix it0 tsfs
            (map (fun q => let '(id, tsf, vars, kd, g) := q in kind_cfg id tsf vars kd g) bs) evs.
End Kinds.

(* ---- total-force coupling (documented: subtractAppliedForce) ----------------------------------------
   A scalar variable whose total force is the projection of the force on one atom (one-atom group,
   fixed axis), engine with lagged total forces (total_forces_same_step() = false) that include the
   forces Colvars applied.  colvar::calc_cvcs computes ft only when step_relative > 0;
   colvar::calc_colvar_properties (after the repair "subtractAppliedForce skipped the correction when the
   measured total force was exactly zero"): "if (cvm::step_relative() > 0) ft -= f_old" when
   subtractAppliedForce is on; colvar::end_of_step: f_old = f.  [measured] = step_relative > 0.  A history is the list of (system force s_t on the coordinate,
   force f_t applied by Colvars on the variable) per step. *)
Section TotalForce.
  Context {T : Type} (O : NumOps T).

  Definition tf_report (lagged sub measured : bool) (ft fold : T) : T :=
    if sub && lagged then (if measured then nsub O ft fold else ft) else ft.

  Definition tf_end (sub : bool) (f fold : T) : T := if sub then f else fold.

  (* what the engine delivers at the next step: the force that acted at this one *)
  Definition engine_total (s f : T) : T := nadd O s f.

  Fixpoint tf_trace (lagged sub : bool) (prev : option (T * T)) (fold : T) (hist : list (T * T)) : list T :=
    match hist with
    | [] => []
    | (s, f) :: r =>
      let ft := match prev with None => n0 O | Some (sp, fp) => engine_total sp fp end in
      let measured := match prev with None => false | Some _ => true end in
      tf_report lagged sub measured ft fold :: tf_trace lagged sub (Some (s, f)) (tf_end sub f fold) r
    end.

  (* The same with the applied force split as the pipeline routes it: fb (ordinary biases) and fb_actual (biases with
     bypassExtendedLagrangian, e.g. harmonicWalls - also on ordinary variables).  colvar::update_forces_energy builds
     f = 0 + fb, then "f += fb_actual"; colvar::end_of_step saves f_old = f, i.e. AFTER fb_actual was added
     ([late] = true).  [late] = false is the variant that saves f_old before "f += fb_actual" (seeded change C08_2). *)
  Definition applied (fb fba : T) : T := nadd O (nadd O (n0 O) fb) fba.
  Definition tf_end_routed (late sub : bool) (fb fba fold : T) : T :=
    if sub then (if late then applied fb fba else nadd O (n0 O) fb) else fold.

  Fixpoint tf_trace_routed (late lagged sub : bool) (prev : option (T * (T * T))) (fold : T)
           (hist : list (T * (T * T))) : list T :=
    match hist with
    | [] => []
    | (s, (fb, fba)) :: r =>
      let ft := match prev with None => n0 O | Some (sp, (fbp, fbap)) => engine_total sp (applied fbp fbap) end in
      let measured := match prev with None => false | Some _ => true end in
      tf_report lagged sub measured ft fold
        :: tf_trace_routed late lagged sub (Some (s, (fb, fba))) (tf_end_routed late sub fb fba fold) r
    end.
End TotalForce.

(* ---- hidden Jacobian force (hideJacobian of an ABF bias) in colvar::update_forces_energy ------------------------
   f = 0; f += fb;  if (f_cv_hide_Jacobian && f_cv_apply_force) f -= fj * real(time_step_factor);  ...  f += fb_actual.
   The variable is evaluated at multiples of its factor n only; its biases (same factor, as colvarbias_abf::init
   demands) hand it n * F.  A history element = (awake, sum of the biases' instantaneous forces F, fb_actual part Fa,
   Jacobian force fj) per step; [scaled] = true is the code, false the variant that subtracts fj once (seed C08_6). *)
Section HiddenJacobian.
  Context {T : Type} (O : NumOps T).

  Definition jac_force (scaled : bool) (n : Z) (hide apply : bool) (fb fba fj : T) : T :=
    let f1 := nadd O (n0 O) fb in
    let f2 := if hide && apply then nsub O f1 (if scaled then nmul O fj (nofZ O n) else fj) else f1 in
    nadd O f2 fba.

  (* one module step of a variable with factor n whose biases have the same factor *)
  Definition jac_step (scaled : bool) (n : Z) (hide apply : bool) (e : bool * (T * (T * T))) : T :=
    let '(awake, (F, (Fa, fj))) := e in
    if awake then jac_force scaled n hide apply (nmul O (nofZ O n) F) (nmul O (nofZ O n) Fa) fj else n0 O.

  Definition jac_trace (scaled : bool) (n : Z) (hide apply : bool) (h : list (bool * (T * (T * T)))) : list T :=
    map (jac_step scaled n hide apply) h.
End HiddenJacobian.
