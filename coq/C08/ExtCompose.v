(* C08 round 2: composition of the bias pipeline (C08/ModuleModel.v) with the extended-Lagrangian step of
   C17 (C17/ExtLagModel.v, by Require): what the pipeline puts into fb and fb_actual of a variable
   (fb_routing: fb = sum of factor * force of the ordinary biases, fb_actual = the same for biases with
   bypassExtendedLagrangian) is what C17's [step] receives as i_fb / i_fba. *)
From Coq Require Import ZArith List Bool Reals Lra.
From CV Require Import Base.Num Base.RNum C08.ModuleModel C08.ModuleProofs C17.ExtLagModel C17.ExtLagProofs.
Import ListNotations.
Local Open Scope R_scope.

Section Compose.
  Context {BS : Type}.
  Notation bias := (@ModuleModel.bias R BS).

  Definition ext_input (bs : list bias) (i : nat) (stp : Z) (x rnd : R) : @input R :=
    mkInput stp x (VFn bs i) (VFa bs i) rnd true.

  (* atoms of an extended-Lagrangian variable: spring force times the variable's factor plus the forces of the
     bypassing biases, each times ITS OWN factor; the ordinary biases reach only the extended coordinate *)
  Theorem extended_routing (c : @config R) (p : @params R) (s : @state R) (bs : list bias) i stp x rnd :
    tsf_error c s (ext_input bs i stp x rnd) = false ->
    let xe := fst (props_xv Rops c s (ext_input bs i stp x rnd)) in
    let s' := step Rops c p s (ext_input bs i stp x rnd) in
    s_f s' = IZR (c_tsf c) * (- f_spring c p xe x) + VFa bs i /\
    s_fr s' = VFn bs i / IZR (c_tsf c).
  Proof.
    intros He. cbn zeta.
    destruct (routing_running c p s (ext_input bs i stp x rnd) eq_refl He) as (A & B & _).
    cbn zeta in A, B. split; [exact A | exact B].
  Qed.

  (* superposition on an extended-Lagrangian variable, relative to the spring force that is there without any
     bias: splitting the biases by any mask, the forces on the atoms of the bypassing biases add up, and so do
     the forces of the ordinary biases on the extended coordinate (same extended state and position) *)
  Theorem extended_superposition (c : @config R) (p : @params R) (s : @state R) (bs : list bias) (m : list bool) i stp x rnd :
    length m = length bs ->
    tsf_error c s (ext_input bs i stp x rnd) = false ->
    tsf_error c s (ext_input (select m bs) i stp x rnd) = false ->
    tsf_error c s (ext_input (select (map negb m) bs) i stp x rnd) = false ->
    tsf_error c s (ext_input [] i stp x rnd) = false ->
    let F := fun l => s_f (step Rops c p s (ext_input l i stp x rnd)) in
    let G := fun l => s_fr (step Rops c p s (ext_input l i stp x rnd)) in
    F bs - F [] = (F (select m bs) - F []) + (F (select (map negb m) bs) - F []) /\
    G bs = G (select m bs) + G (select (map negb m) bs).
  Proof.
    intros Hl E1 E2 E3 E4. cbn zeta.
    destruct (extended_routing c p s bs i stp x rnd E1) as [A1 B1].
    destruct (extended_routing c p s (select m bs) i stp x rnd E2) as [A2 B2].
    destruct (extended_routing c p s (select (map negb m) bs) i stp x rnd E3) as [A3 B3].
    destruct (extended_routing c p s [] i stp x rnd E4) as [A4 B4].
    cbn zeta in *. rewrite A1, A2, A3, A4, B1, B2, B3.
    assert (X : forall l, fst (props_xv Rops c s (ext_input l i stp x rnd)) = fst (props_xv Rops c s (ext_input [] i stp x rnd))).
    { intros l. unfold props_xv, ext_input. reflexivity. }
    rewrite (X bs), (X (select m bs)), (X (select (map negb m) bs)).
    rewrite (VFa_select m bs i Hl), (VFn_select m bs i Hl).
    assert (Z0 : VFa (@nil bias) i = 0) by reflexivity. rewrite Z0.
    generalize (IZR (c_tsf c) * - f_spring c p (fst (props_xv Rops c s (ext_input [] i stp x rnd))) x).
    intros S0. split; [lra|]. unfold Rdiv. lra.
  Qed.
  (* ---- histories: C17's module trace (mtrace: awake steps integrate, sleeping steps ignore their input) fed with the
     pipeline's routing of a HISTORY of bias lists ------------------------------------------------------------------- *)
  Definition hist_elem := (list bias * (Z * (R * R)))%type.      (* biases after the step, (step_relative, (x, rnd)) *)
  Definition ext_inputs (i : nat) (h : list hist_elem) : list (@input R) :=
    map (fun e => ext_input (fst e) i (fst (snd e)) (fst (snd (snd e))) (snd (snd (snd e)))) h.

  (* along the whole trace: at every awake step without a factor error the routing equations hold; a sleeping step
     leaves what C17's [sleep] leaves *)
  Fixpoint routed_ok (c : @config R) (p : @params R) (it0 : Z) (i : nat) (s : @state R) (h : list hist_elem) : Prop :=
    match h with
    | [] => True
    | e :: r =>
      let inp := ext_input (fst e) i (fst (snd e)) (fst (snd (snd e))) (snd (snd (snd e))) in
      let s' := mstep Rops c p it0 s inp in
      (awake_at c it0 inp = true -> tsf_error c s inp = false ->
         s_f s' = IZR (c_tsf c) * (- f_spring c p (fst (props_xv Rops c s inp)) (fst (snd (snd e)))) + VFa (fst e) i /\
         s_fr s' = VFn (fst e) i / IZR (c_tsf c)) /\
      (awake_at c it0 inp = false -> s' = sleep Rops s) /\
      routed_ok c p it0 i s' r
    end.

  Theorem extended_routing_history c p it0 i (h : list hist_elem) : forall s, routed_ok c p it0 i s h.
  Proof.
    induction h as [|e r IH]; intros s; [exact I|].
    cbn [routed_ok]. cbn zeta. split; [|split; [|apply IH]].
    - intros Ha He. unfold mstep. rewrite Ha.
      apply (extended_routing c p s (fst e) i (fst (snd e)) (fst (snd (snd e))) (snd (snd (snd e))) He).
    - intros Ha. unfold mstep. rewrite Ha. reflexivity.
  Qed.

  Lemma mtrace_is_routed c p it0 i s (h : list hist_elem) :
    mtrace Rops c p it0 s (ext_inputs i h) =
    (fix go (s : @state R) (h : list hist_elem) : list (@state R) :=
       match h with
       | [] => []
       | e :: r => let s' := mstep Rops c p it0 s (ext_input (fst e) i (fst (snd e)) (fst (snd (snd e))) (snd (snd (snd e)))) in
                   s' :: go s' r
       end) s h.
  Proof. revert s. induction h as [|e r IH]; intros s; cbn [ext_inputs map mtrace]; [reflexivity|]. f_equal. apply IH. Qed.
End Compose.
