(* C08 round 3: a force-reading bias (ABF, C04's model by Require) next to other biases, under the documented
   coupling: lagged engine forces and subtractAppliedForce on its variables.  Whatever forces the other biases
   apply to the variables (A++B: any history of i_o, c_other on; alone: none), the samples the ABF bias
   attributes - hence the counts and gradient sums of every bin, i.e. its whole estimator - are the same. *)
From Coq Require Import ZArith List Bool Reals Lra Lia.
From CV Require Import Base.Num Base.RNum C04.ABFModel C04.ABFProofs.
Import ListNotations.
Local Open Scope R_scope.

Definition set_other (c : @abf_cfg R) (o : list bool) : @abf_cfg R :=
  mkCfg (c_nd c) (c_lower c) (c_width c) (c_nx c) (c_periodic c) (c_full c) (c_min c) (c_update c) (c_cap c) (c_maxf c)
        (c_szd c) (c_same_step c) (c_subtract c) (c_hidej c) o (c_scaled c) (c_sfac c).

(* the same imposed history (values, engine forces, Jacobian forces, run boundaries), applyBias on, and
   ARBITRARY forces of the other biases *)
Definition same_but_other (i i' : @abf_in R) : Prop :=
  i_x i' = i_x i /\ i_e i' = i_e i /\ i_j i' = i_j i /\ i_boundary i' = i_boundary i /\
  i_apply i = true /\ i_apply i' = true.

Definition io_rel (io io' : @abf_in R * @abf_out R) : Prop :=
  same_but_other (fst io) (fst io') /\ o_rel (snd io') = o_rel (snd io) /\ o_cont (snd io') = o_cont (snd io).

Lemma traces_related (c c' : @abf_cfg R) h h' : Forall2 same_but_other h h' ->
  forall s s', s_rel s' = s_rel s -> s_started s' = s_started s ->
  Forall2 io_rel (trace_from Rops c s h) (trace_from Rops c' s' h').
Proof.
  induction 1 as [|i i' h h' Hi Hh IH]; intros s s' Hr Hs; [constructor|].
  unfold trace_from. cbn [abf_run_from snd combine].
  constructor.
  - unfold io_rel. cbn [fst snd]. split; [exact Hi|].
    unfold abf_step. cbn [snd o_rel o_cont]. unfold st_clk. destruct Hi as (_ & _ & _ & Hb & _). rewrite Hr, Hs, Hb. auto.
  - apply IH.
    + unfold abf_step. cbn [fst s_rel]. unfold st_clk. destruct Hi as (_ & _ & _ & Hb & _). rewrite Hr, Hs, Hb. reflexivity.
    + reflexivity.
Qed.

Section Coupling.
  Variable c : @abf_cfg R.
  Variable o' : list bool.
  Hypothesis Hlag : c_same_step c = false.
  Hypothesis Hsub : forall k, (k < c_nd c)%nat -> bget (c_subtract c) k = true.
  Let c' := set_other c o'.

  Lemma sample_force_same io io' : io_rel io io' -> sample_force Rops c' io' = sample_force Rops c io.
  Proof.
    intros ((Hx & He & Hj & _ & Ha & Ha') & _). unfold sample_force, vbuild. cbn [c_nd c' set_other].
    apply map_ext_in. intros k Hk. apply in_seq in Hk. assert (Hk' : (k < c_nd c)%nat) by lia.
    unfold measured, own, jac, cvapply. cbn [c_same_step c_subtract c_hidej c_other c' set_other].
    rewrite Hlag, Ha, Ha', (Hsub k Hk'), He, Hj. cbn [orb negb nadd nsub n0 Rops].
    destruct (c_hidej c); lra.
  Qed.

  Lemma deliveries_lag_same tr tr' : Forall2 io_rel tr tr' ->
    forall p p', match p, p' with Some q, Some q' => io_rel q q' | None, None => True | _, _ => False end ->
    deliveries_lag Rops c' p' tr' = deliveries_lag Rops c p tr.
  Proof.
    induction 1 as [|io io' tr tr' Hio Htr IH]; intros p p' Hp; [reflexivity|].
    cbn [deliveries_lag]. rewrite (IH (Some io) (Some io') Hio). f_equal.
    destruct p as [q|], p' as [q'|]; try contradiction; [|reflexivity].
    destruct Hio as (_ & R1 & R2). rewrite (sample_force_same q q' Hp), R1, R2.
    destruct Hp as ((Hx & _) & _). unfold bins. cbn [c_nd c_lower c_width c' set_other]. rewrite Hx. reflexivity.
  Qed.

  Lemma attributed_same h h' : Forall2 same_but_other h h' ->
    attributed Rops c' (trace_of Rops c' h') = attributed Rops c (trace_of Rops c h).
  Proof.
    intros H. unfold attributed, deliveries. cbn [c_same_step c' set_other]. rewrite Hlag.
    rewrite (deliveries_lag_same (trace_of Rops c h) (trace_of Rops c' h')
               (traces_related c c' h h' H _ _ eq_refl eq_refl) None None I).
    reflexivity.
  Qed.

  (* the estimator of the ABF bias does not depend on the forces the other biases apply *)
  Theorem abf_data_independent_of_other_biases h h' b :
    wf_cfg c -> Forall2 same_but_other h h' ->
    s_cnt (fst (abf_run Rops c' h')) b = s_cnt (fst (abf_run Rops c h)) b /\
    forall k, (k < c_nd c)%nat ->
      vget Rops (s_sum (fst (abf_run Rops c' h')) b) k = vget Rops (s_sum (fst (abf_run Rops c h)) b) k.
  Proof.
    intros Hwf H.
    assert (Hwf' : wf_cfg c') by exact Hwf.
    destruct (abf_state_is_sample_sum c h b Hwf) as [C1 S1].
    destruct (abf_state_is_sample_sum c' h' b Hwf') as [C2 S2].
    rewrite (attributed_same h h' H) in C2, S2. split; [congruence|].
    intros k Hk. rewrite (S1 k Hk). apply (S2 k Hk).
  Qed.
  (* ... and so is the force it computes at every step (the step i that follows any history h) *)
  Theorem abf_force_independent_of_other_biases h h' i i' k :
    wf_cfg c -> Forall2 same_but_other (h ++ [i]) (h' ++ [i']) ->
    (k < c_nd c)%nat -> (0 <= c_min c < c_full c)%Z -> (c_cap c = true -> 0 <= vget Rops (c_maxf c) k) ->
    vget Rops (o_fabf (snd (abf_step Rops c' (fst (abf_run Rops c' h')) i'))) k
    = vget Rops (o_fabf (snd (abf_step Rops c (fst (abf_run Rops c h)) i))) k.
  Proof.
    intros Hwf H Hk Hmf Hcap.
    rewrite (applied_force_is_smoothed_negative_mean c h i k Hwf Hk Hmf Hcap).
    rewrite (applied_force_is_smoothed_negative_mean c' h' i' k Hwf Hk Hmf Hcap).
    rewrite (attributed_same (h ++ [i]) (h' ++ [i']) H).
    assert (Hx : i_x i' = i_x i /\ i_apply i' = i_apply i).
    { clear - H. apply Forall2_app_inv_l in H. destruct H as (l1 & l2 & _ & H2 & E).
      inversion H2 as [|a b la lb Hab Hl]; subst. inversion Hl; subst.
      apply app_inj_tail in E. destruct E as [_ <-]. destruct Hab as (X & _ & _ & _ & A1 & A2). split; congruence. }
    destruct Hx as [Hx Ha]. unfold bins. cbn [c_nd c_lower c_width c' set_other]. rewrite Hx, Ha. reflexivity.
  Qed.
End Coupling.

(* The other biases' force written as the pipeline routes it (C08_fb_routing): an fb part (ordinary biases) plus an
   fb_actual part (bypassing biases such as harmonicWalls); colvar::f = ABF force + both parts, and f_old = f is saved
   after both were added (C04's st_f / st_fold).  Any history of the two parts leaves the ABF estimator unchanged. *)
Definition with_other (nd : nat) (i : @abf_in R) (on oa : @vec R) : @abf_in R :=
  mkIn (i_x i) (i_e i) (vbuild nd (fun k => vget Rops on k + vget Rops oa k)) (i_j i) (i_boundary i) (i_apply i) (i_w i).

Theorem abf_coupling_routed (c : @abf_cfg R) (o' : list bool) (hr : list (@abf_in R * (@vec R * @vec R))) (b : idx) :
  c_same_step c = false ->
  (forall k, (k < c_nd c)%nat -> bget (c_subtract c) k = true) ->
  wf_cfg c -> Forall (fun x => i_apply (fst x) = true) hr ->
  let h := map fst hr in
  let h' := map (fun x => with_other (c_nd c) (fst x) (fst (snd x)) (snd (snd x))) hr in
  s_cnt (fst (abf_run Rops (set_other c o') h')) b = s_cnt (fst (abf_run Rops c h)) b /\
  forall k, (k < c_nd c)%nat ->
    vget Rops (s_sum (fst (abf_run Rops (set_other c o') h')) b) k = vget Rops (s_sum (fst (abf_run Rops c h)) b) k.
Proof.
  intros Hlag Hsub Hwf Ha. cbn zeta.
  apply (abf_data_independent_of_other_biases c o' Hlag Hsub); [exact Hwf|].
  induction Ha as [|x l Hx Hl IH]; cbn [map]; constructor; [|exact IH].
  unfold same_but_other, with_other. cbn. repeat split; try reflexivity; exact Hx.
Qed.

(* ---- the statements that coq/C08/Properties_C08.v exports: every C04 name is used in this file only ---------- *)
Definition abf_coupling_stmt : Prop :=
  forall (c : @abf_cfg R) (o' : list bool),
    c_same_step c = false ->
    (forall k, (k < c_nd c)%nat -> bget (c_subtract c) k = true) ->
    forall (h h' : list (@abf_in R)) (b : idx),
      wf_cfg c -> Forall2 same_but_other h h' ->
      s_cnt (fst (abf_run Rops (set_other c o') h')) b = s_cnt (fst (abf_run Rops c h)) b /\
      forall k, (k < c_nd c)%nat ->
        vget Rops (s_sum (fst (abf_run Rops (set_other c o') h')) b) k = vget Rops (s_sum (fst (abf_run Rops c h)) b) k.
Lemma abf_coupling_holds : abf_coupling_stmt.
Proof. exact abf_data_independent_of_other_biases. Qed.

Definition abf_force_coupling_stmt : Prop :=
  forall (c : @abf_cfg R) (o' : list bool),
    c_same_step c = false ->
    (forall k, (k < c_nd c)%nat -> bget (c_subtract c) k = true) ->
    forall (h h' : list (@abf_in R)) (i i' : @abf_in R) (k : nat),
      wf_cfg c -> Forall2 same_but_other (h ++ [i]) (h' ++ [i']) ->
      (k < c_nd c)%nat -> (0 <= c_min c < c_full c)%Z -> (c_cap c = true -> 0 <= vget Rops (c_maxf c) k) ->
      vget Rops (o_fabf (snd (abf_step Rops (set_other c o') (fst (abf_run Rops (set_other c o') h')) i'))) k
      = vget Rops (o_fabf (snd (abf_step Rops c (fst (abf_run Rops c h)) i))) k.
Lemma abf_force_coupling_holds : abf_force_coupling_stmt.
Proof. exact abf_force_independent_of_other_biases. Qed.

Definition abf_coupling_routed_stmt : Prop :=
  forall (c : @abf_cfg R) (o' : list bool) (hr : list (@abf_in R * (@vec R * @vec R))) (b : idx),
    c_same_step c = false ->
    (forall k, (k < c_nd c)%nat -> bget (c_subtract c) k = true) ->
    wf_cfg c -> Forall (fun x => i_apply (fst x) = true) hr ->
    let h := map fst hr in
    let h' := map (fun x => with_other (c_nd c) (fst x) (fst (snd x)) (snd (snd x))) hr in
    s_cnt (fst (abf_run Rops (set_other c o') h')) b = s_cnt (fst (abf_run Rops c h)) b /\
    forall k, (k < c_nd c)%nat ->
      vget Rops (s_sum (fst (abf_run Rops (set_other c o') h')) b) k = vget Rops (s_sum (fst (abf_run Rops c h)) b) k.
Lemma abf_coupling_routed_holds : abf_coupling_routed_stmt.
Proof. exact abf_coupling_routed. Qed.
