(* C08: bias contributions superpose; multiple-time-step scaling conserves impulse.
   Model: C08/ModuleModel.v (colvarmodule::calc = calc_colvars; calc_biases; update_colvar_forces,
   colvarbias::communicate_forces, colvar::update_forces_energy / communicate_forces, and the part of
   colvardeps through which sleeping is implemented).  The theorems hold for EVERY bias (arbitrary
   update function on an arbitrary state, field b_upd) that reads variable values only, every list of
   variables and biases, every first step, every history of steps / repeated steps / script
   enable-disable events.  Numbers are the reals (instance Rops); [fixed] / [efix] select the code
   before / after the two repairs of branch fix-C08 (true = repaired, the tree the check is tied to). *)
From Coq Require Import ZArith List Bool Reals Permutation.
From CV Require Import Base.Num Base.RNum C08.ModuleModel C08.ModuleProofs C17.ExtLagModel C17.ExtLagProofs C08.ExtCompose C08.AbfCompose.
Import ListNotations.
Local Open Scope R_scope.

(* Every calc() of every run: the reported energy is the sum of the energies of the counted biases and the
   force on every Cartesian coordinate is sum_i (sum_{b active, applying} factor_b * F_b,i) * d x_i / d coordinate,
   where the biases evolve as a function of their own state, the step number and the freshly computed values
   of their variables only (btrace). *)
Theorem C08_pipeline_closed_form :
  forall (BS : Type) (fixed efix : bool) (it0 : Z) (tsfs : list Z) (cfgs : list (@bias_cfg R BS)) (evs : list (@event R)),
    Forall2 (out_ok efix (length tsfs)) (run_cfg Rops fixed efix it0 tsfs cfgs evs)
            (btrace fixed (length tsfs) (it0, true, map (init_bias Rops) cfgs) evs).
Proof. exact @run_cfg_closed. Qed.
Print Assumptions C08_pipeline_closed_form.

(* Superposition: split the bias list in two by any mask (A = the selected biases, B = the others; A ++ B is
   the mask true..true false..false): at every calc() the energy and the force on every coordinate with all
   biases equal those with A alone plus those with B alone. *)
Theorem C08_superposition :
  forall (BS : Type) (fixed efix : bool) (it0 : Z) (tsfs : list Z) (cfgs : list (@bias_cfg R BS))
         (mask : list bool) (evs : list (@event R)),
    length mask = length cfgs ->
    Forall3 out_add
      (run_cfg Rops fixed efix it0 tsfs cfgs evs)
      (run_cfg Rops fixed efix it0 tsfs (select mask cfgs) evs)
      (run_cfg Rops fixed efix it0 tsfs (select (map negb mask) cfgs) evs).
Proof. exact @superposition. Qed.
Print Assumptions C08_superposition.

Example C08_superposition_example :
  let evs := [EStep (wx 1); EStep (wx 2); EStep (wx 4)] in
  (map wview (run_kinds Zops true true 0 [1%Z] [wharm 2; wlin] evs),
   map wview (run_kinds Zops true true 0 [1%Z] [wharm 2] evs),
   map wview (run_kinds Zops true true 0 [1%Z] [wlin] evs))
  = ([(0, [true; true], [true], 3, -5); (1, [false; true], [true], 6, -3); (2, [true; true], [true], 12, -11)],
     [(0, [true], [true], 0, -2); (1, [false], [false], 0, 0); (2, [true], [true], 0, -8)],
     [(0, [true], [true], 3, -3); (1, [true], [true], 6, -3); (2, [true], [true], 12, -3)])%Z.
Proof. exact witness_superposition. Qed.

(* A bias that is inactive at a step (disabled or asleep) adds nothing to the energy and to the forces of
   that step; a bias that does not apply forces (histogram, applyBias off) adds nothing to the forces, and,
   after the repair (efix = true), nothing to the energy: the run with the bias inserted at any position
   equals the run without it. *)
Theorem C08_inactive_contribute_nothing :
  forall (BS : Type) (fixed efix : bool) (it0 : Z) (tsfs : list Z) (pre : list (@bias_cfg R BS)) (c : @bias_cfg R BS)
         (post : list (@bias_cfg R BS)) (evs : list (@event R)),
    Forall2 (contributes_nothing efix (length pre))
      (run_cfg Rops fixed efix it0 tsfs (pre ++ c :: post) evs)
      (run_cfg Rops fixed efix it0 tsfs (pre ++ post) evs).
Proof. exact @inactive_nothing. Qed.
Print Assumptions C08_inactive_contribute_nothing.

(* Before the repair the energy of a non-applying bias was reported (witness: energy 5, no force). *)
Theorem C08_nonapplying_energy_unfixed_refuted :
  map wview (run_kinds Zops true false 0 [1%Z] [(0%nat, 1%Z, [0%nat], KConst 5%Z, None)] [EStep (wx 1)]) = [(0, [true], [true], 5, 0)]%Z /\
  map wview (run_kinds Zops true true 0 [1%Z] [(0%nat, 1%Z, [0%nat], KConst 5%Z, None)] [EStep (wx 1)]) = [(0, [true], [true], 0, 0)]%Z.
Proof. exact (conj witness_energy_unfixed witness_energy_fixed). Qed.

(* Asleep: after the repair (fixed = true), in every run, a bias with factor n > 1 whose name is not used by a
   script event is active exactly at the steps that are multiples of n (whatever the first step). *)
Theorem C08_asleep_off_schedule :
  forall (BS : Type) (efix : bool) (Tid : nat -> Prop) (it0 : Z) (tsfs : list Z) (cfgs : list (@bias_cfg R BS))
         (evs : list (@event R)),
    untouched Tid evs ->
    Forall (fun o : @out R BS => forall b, In b (o_biases o) -> Tid (b_id b) -> (1 <? b_tsf b)%Z = true ->
                                 b_active b = on_schedule (o_it o) (b_tsf b))
           (run_cfg Rops true efix it0 tsfs cfgs evs).
Proof. exact (fun BS efix Tid it0 tsfs cfgs evs => @asleep_schedule BS true efix Tid it0 tsfs cfgs evs eq_refl). Qed.
Print Assumptions C08_asleep_off_schedule.

(* Before the repair this failed at a first step that is not a multiple of n. *)
Theorem C08_asleep_first_step_unfixed_refuted :
  map wview (run_kinds Zops false true 1 [1%Z] [wharm 2] [EStep (wx 1); EStep (wx 1)])
    = [(1, [true], [true], 0, -2); (2, [true], [true], 0, -2)]%Z /\
  map wview (run_kinds Zops true true 1 [1%Z] [wharm 2] [EStep (wx 1); EStep (wx 1)])
    = [(1, [false], [false], 0, 0); (2, [true], [true], 0, -2)]%Z.
Proof. exact (conj witness_first_step_unfixed witness_first_step_fixed). Qed.

(* Disabled: a bias with factor 1 that the user has switched off (cv bias <name> set active off) is inactive
   at every later calc() until the user switches it on again. *)
Theorem C08_disabled_stays_inactive :
  forall (BS : Type) (fixed efix : bool) (it0 : Z) (tsfs : list Z) (cfgs : list (@bias_cfg R BS)) (evs : list (@event R)),
    Forall2 (fun (o : @out R BS) (off : nat -> bool) =>
               forall b, In b (o_biases o) -> (1 <? b_tsf b)%Z = false -> off (b_id b) = true -> b_active b = false)
            (run_cfg Rops fixed efix it0 tsfs cfgs evs) (disabled_at (fun _ => false) evs).
Proof. exact @disabled_stays_off. Qed.
Print Assumptions C08_disabled_stays_inactive.

(* FULL STATEMENT (false of the code): the same for every factor.  Refuted: a harmonic restraint with
   timeStepFactor 2, steps 0 and 1, `cv bias set active off`, step 2: the bias is active again and applies -2. *)
Theorem C08_disabled_refuted_tsf :
  map wview (run_kinds Zops true true 0 [1%Z] [wharm 2]
               [EStep (wx 1); EStep (wx 1); ESetActive 0 false; EStep (wx 1)])
  = [(0, [true], [true], 0, -2); (1, [false], [false], 0, 0); (2, [true], [true], 0, -2)]%Z.
Proof. exact witness_disabled_tsf. Qed.

(* Evaluated only at multiples of n (single bias with factor n > 1, plain steps, after the repair): at a multiple
   of n the new (state, energy, forces) of the bias are its update function applied to its previous state and the
   values of this step, and the force on every coordinate is n times the instantaneous one; at any other step
   the bias is inactive, its state, energy and forces are unchanged, and energy and all forces are zero. *)
Theorem C08_evaluated_only_at_multiples :
  forall (BS : Type) (efix : bool) (it0 : Z) (tsfs : list Z) (c : @bias_cfg R BS) (xss : list (list (list (@cvc_in R)))),
    (1 < bc_tsf c)%Z ->
    eval_ok (length tsfs) (init_bias Rops c) (run_cfg Rops true efix it0 tsfs [c] (map EStep xss)) xss.
Proof. exact (fun BS efix it0 tsfs c xss => @mts_evaluation BS true efix it0 tsfs c xss eq_refl). Qed.
Print Assumptions C08_evaluated_only_at_multiples.

(* Impulse: over every complete window [m n, (m+1) n) of the run the forces applied to a coordinate sum to
   n * F(m n): the impulse of applying the force of step m n at each of the n steps. *)
Theorem C08_impulse :
  forall (BS : Type) (efix : bool) (it0 : Z) (tsfs : list Z) (c : @bias_cfg R BS) (xss : list (list (list (@cvc_in R))))
         (m : Z) (k : nat),
    (1 < bc_tsf c)%Z -> (0 <= it0)%Z -> (it0 <= m * bc_tsf c)%Z ->
    let n := bc_tsf c in
    let j := Z.to_nat (m * n - it0) in
    (j + Z.to_nat n <= length xss)%nat ->
    let outs := run_cfg Rops true efix it0 tsfs [c] (map EStep xss) in
    exists o b xs,
      nth_error outs j = Some o /\ o_biases o = [b] /\ nth_error xss j = Some xs /\
      o_it o = (m * n)%Z /\ b_active b = true /\
      rsum (map (fun o => coord_force Rops (o_vars o) k) (firstn (Z.to_nat n) (skipn j outs)))
      = (if b_apply b then IZR n * inst_force b xs (length tsfs) k else 0).
Proof. exact (fun BS efix it0 tsfs c xss m k => @impulse_window BS true efix it0 tsfs c xss m k eq_refl). Qed.
Print Assumptions C08_impulse.

Example C08_impulse_premises :
  exists (it0 m n : Z) (len : nat),
    (1 < n)%Z /\ (0 <= it0)%Z /\ (it0 <= m * n)%Z /\ (Z.to_nat (m * n - it0) + Z.to_nat n <= len)%nat.
Proof. exact impulse_premises_sat. Qed.

(* FULL STATEMENT for variables (false of the code): "a variable with factor n is evaluated only at multiples
   of n".  Refuted: a variable with timeStepFactor 2 used by a restraint with factor 1 is evaluated and biased at
   step 1 (the same variable without a bias sleeps at step 1). *)
Theorem C08_variable_factor_refuted :
  map wview (run_kinds Zops true true 0 [2%Z] [wharm 1] [EStep (wx 1); EStep (wx 3)])
    = [(0, [true], [true], 0, -1); (1, [true], [true], 0, -3)]%Z /\
  map wview (run_kinds Zops true true 0 [2%Z] [] [EStep (wx 1); EStep (wx 3); EStep (wx 3)])
    = [(0, [], [true], 0, 0); (1, [], [false], 0, 0); (2, [], [true], 0, 0)]%Z.
Proof. exact (conj witness_variable_factor witness_variable_sleeps). Qed.

(* Total-force coupling (lagged engine forces that include the Colvars forces, subtractAppliedForce on, variable
   whose total force is the force on one coordinate; code after the repair "subtractAppliedForce skipped the
   correction when the measured total force was exactly zero"): whatever forces two sets of biases applied
   (histories hA, hB with the same system forces), the total force reported at step t+1 is the system force of
   step t in both runs - also when the force the engine delivers is exactly zero. *)
Theorem C08_total_force_coupling :
  forall (hA hB : list (R * R)) (t : nat) (sA fA sB fB xA xB : R),
    map fst hA = map fst hB ->
    nth_error hA t = Some (sA, fA) -> nth_error hB t = Some (sB, fB) ->
    nth_error (tf_trace Rops true true None 0 hA) (S t) = Some xA ->
    nth_error (tf_trace Rops true true None 0 hB) (S t) = Some xB ->
    xA = xB /\ xA = sA.
Proof. exact total_force_coupling. Qed.
Print Assumptions C08_total_force_coupling.

Example C08_total_force_coupling_premises :
  exists (hA hB : list (R * R)) t sA fA sB fB xA xB,
    map fst hA = map fst hB /\ nth_error hA t = Some (sA, fA) /\ nth_error hB t = Some (sB, fB) /\
    sA + fA = 0 /\
    nth_error (tf_trace Rops true true None 0 hA) (S t) = Some xA /\
    nth_error (tf_trace Rops true true None 0 hB) (S t) = Some xB.
Proof. exact total_force_coupling_premises_sat. Qed.

(* The model's error flag (cvm::error raised by the dependency engine or by add_bias_force; after such an error
   the control flow of the C++ leaves the model) is never set in a run without script events: every carrier,
   every configuration, every first step, before and after the repairs. *)
Theorem C08_no_error_without_script_events :
  forall (T : Type) (O : NumOps T) (BS : Type) (fixed efix : bool) (it0 : Z) (tsfs : list Z)
         (cfgs : list (@bias_cfg T BS)) (evs : list (@event T)),
    no_script evs -> Forall (fun o : @out T BS => o_err o = false) (run_cfg O fixed efix it0 tsfs cfgs evs).
Proof. exact @run_cfg_noerr. Qed.
Print Assumptions C08_no_error_without_script_events.

(* ---- round 2 ------------------------------------------------------------------------------------------ *)

(* Variable-level timeStepFactor, positive statement (after the repair of the first step): in every run, a
   variable with factor n > 1 is active (evaluated) at a calc() exactly when the step is a multiple of n OR an
   active bias uses it.  The second disjunct is the recorded finding (C08_variable_factor_refuted); no force is
   ever scaled by a variable's factor (C08_pipeline_closed_form has only the biases' factors). *)
Theorem C08_variable_schedule :
  forall (BS : Type) (efix : bool) (it0 : Z) (tsfs : list Z) (cfgs : list (@bias_cfg R BS)) (evs : list (@event R)),
    Forall (fun o : @out R BS =>
              forall i v, nth_error (o_vars o) i = Some v -> (1 <? v_tsf v)%Z = true ->
                v_active v = on_schedule (o_it o) (v_tsf v) || (0 <? refs (o_biases o) i)%Z)
           (run_cfg Rops true efix it0 tsfs cfgs evs).
Proof. exact (fun BS efix it0 tsfs cfgs evs => @variable_schedule BS true efix it0 tsfs cfgs evs eq_refl). Qed.
Print Assumptions C08_variable_schedule.

(* n-ary superposition: at every calc() the force on every coordinate and the energy of a run with any list of
   biases are the sums over the biases of the force / energy of the run with that bias alone. *)
Theorem C08_superposition_all :
  forall (BS : Type) (fixed efix : bool) (it0 : Z) (tsfs : list Z) (cfgs : list (@bias_cfg R BS)) (evs : list (@event R)) (j : nat),
    (forall k, nth_force (run_cfg Rops fixed efix it0 tsfs cfgs evs) j k
               = rsum (map (fun c => nth_force (run_cfg Rops fixed efix it0 tsfs [c] evs) j k) cfgs)) /\
    nth_energy (run_cfg Rops fixed efix it0 tsfs cfgs evs) j
    = rsum (map (fun c => nth_energy (run_cfg Rops fixed efix it0 tsfs [c] evs) j) cfgs).
Proof. exact @superposition_all. Qed.
Print Assumptions C08_superposition_all.

(* Impulse of several biases with different factors sharing variables: over ANY window of calls the impulse
   delivered on a coordinate is the sum of the impulses of the members run alone (each of which is n_b * F_b(m n_b)
   per complete window of its own factor, C08_impulse; window_force_firstn relates the two notations). *)
Theorem C08_impulse_shared :
  forall (BS : Type) (fixed efix : bool) (it0 : Z) (tsfs : list Z) (cfgs : list (@bias_cfg R BS)) (evs : list (@event R))
         (j N k : nat),
    window_force (run_cfg Rops fixed efix it0 tsfs cfgs evs) j N k
    = rsum (map (fun c => window_force (run_cfg Rops fixed efix it0 tsfs [c] evs) j N k) cfgs).
Proof. exact @impulse_shared. Qed.
Print Assumptions C08_impulse_shared.

(* Routing of the bias forces inside a variable: at every calc() fb is the sum of factor_b * F_b,i over the
   active applying biases WITHOUT bypassExtendedLagrangian and fb_actual the same sum over those WITH it (the
   harmonicWalls default) - both branches carry the bias's own time-step factor. *)
Theorem C08_fb_routing :
  forall (BS : Type) (fixed efix : bool) (it0 : Z) (tsfs : list Z) (cfgs : list (@bias_cfg R BS)) (evs : list (@ModuleModel.event R)),
    Forall (fun o : @out R BS =>
              forall i v, nth_error (o_vars o) i = Some v ->
                v_fb v = VFn (o_biases o) i /\ v_fba v = VFa (o_biases o) i)
           (ModuleModel.run_cfg Rops fixed efix it0 tsfs cfgs evs).
Proof. exact @fb_routing. Qed.
Print Assumptions C08_fb_routing.

(* Extended-Lagrangian variables (composition with C17's model of colvar::update_extended_Lagrangian): fed with the
   pipeline's fb and fb_actual, the atoms receive factor_v * spring force + the bypassing biases' factor_b * F_b
   and nothing of the ordinary biases, whose sum / factor_v acts on the extended coordinate. *)
Theorem C08_extended_routing :
  forall (BS : Type) (c : @config R) (p : @params R) (s : @state R) (bs : list (@ModuleModel.bias R BS)) (i : nat) (stp : Z) (x rnd : R),
    tsf_error c s (ext_input bs i stp x rnd) = false ->
    let xe := fst (props_xv Rops c s (ext_input bs i stp x rnd)) in
    let s' := ExtLagModel.step Rops c p s (ext_input bs i stp x rnd) in
    s_f s' = IZR (c_tsf c) * (- f_spring c p xe x) + VFa bs i /\
    s_fr s' = VFn bs i / IZR (c_tsf c).
Proof. exact @extended_routing. Qed.
Print Assumptions C08_extended_routing.

(* Superposition on an extended-Lagrangian variable holds relative to the bias-free spring force (same extended
   state and position): bypassing biases add up on the atoms, ordinary biases add up on the extended coordinate.
   (Absolute superposition F(A+B) = F(A) + F(B) is false there: the spring force is in every run; and over a
   history the extended coordinate itself couples the biases - that part is C17's dynamics.) *)
Theorem C08_extended_superposition :
  forall (BS : Type) (c : @config R) (p : @params R) (s : @state R) (bs : list (@ModuleModel.bias R BS)) (m : list bool)
         (i : nat) (stp : Z) (x rnd : R),
    length m = length bs ->
    tsf_error c s (ext_input bs i stp x rnd) = false ->
    tsf_error c s (ext_input (select m bs) i stp x rnd) = false ->
    tsf_error c s (ext_input (select (map negb m) bs) i stp x rnd) = false ->
    tsf_error c s (@ext_input BS [] i stp x rnd) = false ->
    let F := fun l : list (@ModuleModel.bias R BS) => s_f (ExtLagModel.step Rops c p s (ext_input l i stp x rnd)) in
    let G := fun l : list (@ModuleModel.bias R BS) => s_fr (ExtLagModel.step Rops c p s (ext_input l i stp x rnd)) in
    F bs - F [] = (F (select m bs) - F []) + (F (select (map negb m) bs) - F []) /\
    G bs = G (select m bs) + G (select (map negb m) bs).
Proof. exact @extended_superposition. Qed.
Print Assumptions C08_extended_superposition.

(* ---- round 3 ------------------------------------------------------------------------------------------ *)

(* A bias that reads total forces (ABF, C04's model by Require) in A++B versus alone, under the documented coupling
   (lagged engine forces, subtractAppliedForce on its variables, applyBias on): for the same imposed history and
   ARBITRARY forces of the other biases (c_other / i_o: any history in A++B, none when alone) the ABF bias attributes
   the same samples, so the count and the gradient sum of every bin - its whole estimator - are the same. *)
(* statement: [abf_coupling_stmt] in coq/C08/AbfCompose.v (the only file that uses C04's names); hypotheses: lagged forces, subtractAppliedForce
   on the ABF's variables, C04's wf_cfg (stepZeroData only with same-step forces), applyBias on *)
Theorem C08_abf_coupling : abf_coupling_stmt.
Proof. exact abf_coupling_holds. Qed.
Print Assumptions C08_abf_coupling.

(* ... and so is the force the ABF bias computes at every step (the step i after any history h): with the estimator and
   the force of the force-reading bias unchanged by the other biases, the pair superposes exactly (colvar::f = ABF force
   + the others' force in C04's st_f; the others never read total forces: C08_superposition). *)
(* statement: [abf_force_coupling_stmt] in coq/C08/AbfCompose.v (the only file that uses C04's names); hypotheses: lagged forces, subtractAppliedForce
   on the ABF's variables, C04's wf_cfg (stepZeroData only with same-step forces), applyBias on; 0 <= minSamples < fullSamples, maxForce >= 0 *)
Theorem C08_abf_force_coupling : abf_force_coupling_stmt.
Proof. exact abf_force_coupling_holds. Qed.
Print Assumptions C08_abf_force_coupling.

(* ---- seeded change C08_2 -------------------------------------------------------------------------------- *)

(* Total-force coupling with the applied force split as the pipeline routes it (C08_fb_routing): f = fb + fb_actual, and
   f_old saved at colvar::end_of_step, AFTER fb_actual was added.  Whatever the ordinary AND the bypassing biases
   (harmonicWalls) applied in two runs with the same system forces, the total force reported at t+1 is the system force of t. *)
Theorem C08_total_force_coupling_routed :
  forall (hA hB : list (R * (R * R))) (t : nat) (sA bA aA sB bB aB xA xB : R),
    map fst hA = map fst hB ->
    nth_error hA t = Some (sA, (bA, aA)) -> nth_error hB t = Some (sB, (bB, aB)) ->
    nth_error (tf_trace_routed Rops true true true None 0 hA) (S t) = Some xA ->
    nth_error (tf_trace_routed Rops true true true None 0 hB) (S t) = Some xB ->
    xA = xB /\ xA = sA.
Proof. exact total_force_coupling_routed. Qed.
Print Assumptions C08_total_force_coupling_routed.

Example C08_total_force_coupling_routed_premises :
  exists (hA hB : list (R * (R * R))) t sA bA aA sB bB aB xA xB,
    map fst hA = map fst hB /\ nth_error hA t = Some (sA, (bA, aA)) /\ nth_error hB t = Some (sB, (bB, aB)) /\
    aA <> 0 /\
    nth_error (tf_trace_routed Rops true true true None 0 hA) (S t) = Some xA /\
    nth_error (tf_trace_routed Rops true true true None 0 hB) (S t) = Some xB.
Proof. exact total_force_coupling_routed_premises_sat. Qed.

(* The variant that saves f_old BEFORE "f += fb_actual" (late = false; the seeded change C08_2) violates it: the
   bypassing biases' force of step t stays in the sample of step t+1. *)
Theorem C08_total_force_coupling_early_fold_refuted :
  exists (h : list (R * (R * R))) s fb fba x,
    nth_error h 0 = Some (s, (fb, fba)) /\
    nth_error (tf_trace_routed Rops false true true None 0 h) 1 = Some x /\ x = s + fba /\ x <> s.
Proof. exact total_force_coupling_early_fold. Qed.

(* C08_abf_coupling with the other biases' force written as the pipeline routes it: an fb part plus an fb_actual part
   (harmonicWalls), any history of both: the ABF estimator is the one of the ABF bias alone. *)
(* statement: [abf_coupling_routed_stmt] in coq/C08/AbfCompose.v (the only file that uses C04's names); hypotheses: lagged forces, subtractAppliedForce
   on the ABF's variables, C04's wf_cfg (stepZeroData only with same-step forces), applyBias on *)
Theorem C08_abf_coupling_routed : abf_coupling_routed_stmt.
Proof. exact abf_coupling_routed_holds. Qed.
Print Assumptions C08_abf_coupling_routed.

(* ---- round 4 ------------------------------------------------------------------------------------------ *)

(* scaledBiasingForce is now inside the model (bias fields b_scale / b_fac, add_forces multiplies (factor_b * F) by the
   factor of the scaling grid): every theorem above (closed form, superposition, routing, impulse, ...) holds with it, the
   force of a bias being factor_b * grid factor * F_b,i.  Example: grid on [0,4), width 1, factors 2,3,1,5; harmonic k = 1,
   centre 0, timeStepFactor 2: x = 1 (bin 1) gives 2 * 3 * (-1); x = 7 is outside the grid: 2 * 1 * (-7). *)
Example C08_scaled_force_example :
  map wview (run_kinds Zops true true 0 [1%Z] [(0%nat, 2%Z, [0%nat], KHarmonic 1%Z [(0%Z, 1%Z)], Some (0%Z, 1%Z, [2%Z; 3%Z; 1%Z; 5%Z]))]
               [EStep (wx 1); EStep (wx 1); EStep (wx 7)])
  = [(0, [true], [true], 0, -6); (1, [false], [false], 0, 0); (2, [true], [true], 0, -14)]%Z.
Proof. exact witness_scaled. Qed.

(* The order of the biases in the module's list does not matter: for any permutation of the bias list the force on every
   coordinate and the energy of every calc() are the same (real arithmetic; this is the rule behind evaluating the biases
   in any order or in parallel, C12). *)
Theorem C08_order_independent :
  forall (BS : Type) (fixed efix : bool) (it0 : Z) (tsfs : list Z) (cfgs cfgs' : list (@bias_cfg R BS))
         (evs : list (@ModuleModel.event R)) (j : nat),
    Permutation cfgs cfgs' ->
    (forall k, nth_force (ModuleModel.run_cfg Rops fixed efix it0 tsfs cfgs evs) j k
               = nth_force (ModuleModel.run_cfg Rops fixed efix it0 tsfs cfgs' evs) j k) /\
    nth_energy (ModuleModel.run_cfg Rops fixed efix it0 tsfs cfgs evs) j
    = nth_energy (ModuleModel.run_cfg Rops fixed efix it0 tsfs cfgs' evs) j.
Proof. exact @order_independent. Qed.
Print Assumptions C08_order_independent.

(* ---- round 5 ------------------------------------------------------------------------------------------ *)

(* apply_force is no longer a configuration constant of the model: the script event ESetApply (`cv bias <name> set
   apply_force on|off`) references / dereferences f_cv_apply_force of the variables while the bias is active, and every
   theorem above holds for histories containing it (C08_inactive_contribute_nothing reads b_apply of the bias AT THAT STEP,
   so "a bias not applying for a few steps" contributes nothing exactly during those steps). *)
Example C08_apply_switch_example :
  map wview (run_kinds Zops true true 0 [1%Z] [wharm 1]
               [EStep (wx 1); ESetApply 0 false; EStep (wx 2); ESetApply 0 true; EStep (wx 3)])
  = [(0, [true], [true], 0, -1); (1, [true], [true], 0, 0); (2, [true], [true], 0, -3)]%Z.
Proof. exact witness_apply_switch. Qed.

(* Extended-Lagrangian variables over HISTORIES (C17's module trace [mtrace], with sleeping steps): feeding every step with
   the pipeline's routing of that step's bias list, at every awake step without a factor error the atoms get
   factor_v * spring + the bypassing biases and the extended coordinate the ordinary biases / factor_v; a sleeping step
   is C17's [sleep] whatever the biases. *)
Theorem C08_extended_routing_history :
  forall (BS : Type) (c : @config R) (p : @params R) (it0 : Z) (i : nat) (h : list (@hist_elem BS)) (s : @state R),
    routed_ok c p it0 i s h.
Proof. exact @extended_routing_history. Qed.
Print Assumptions C08_extended_routing_history.

(* ---- seeded change C08_6: the hidden Jacobian force under multiple time stepping ---------------------------- *)

(* colvar::update_forces_energy with hideJacobian: f = fb - fj * timeStepFactor (if the variable applies forces) + fb_actual.
   For a variable with factor n whose biases (same factor) hand it n * F at its awake steps: every window of the schedule
   (one awake step, any number of sleeping steps) delivers n times the instantaneous force (biases - hidden Jacobian force). *)
Theorem C08_hidden_jacobian_impulse :
  forall (n : Z) (hide apply : bool) (F Fa fj : R) (k : nat),
    rsumR (jac_trace Rops true n hide apply (window_of (F, (Fa, fj)) k))
    = IZR n * ((F + Fa) - (if hide && apply then fj else 0)).
Proof. exact hidden_jacobian_impulse. Qed.
Print Assumptions C08_hidden_jacobian_impulse.

(* the variant that subtracts fj once (the seeded change) does not *)
Theorem C08_hidden_jacobian_unscaled_refuted :
  exists (n : Z) (F Fa fj : R),
    rsumR (jac_trace Rops false n true true (window_of (F, (Fa, fj)) 1)) <> IZR n * ((F + Fa) - fj).
Proof. exact hidden_jacobian_unscaled. Qed.
