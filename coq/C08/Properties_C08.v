(* placeholder while the tie is brought up *)
From CV Require Import Base.Num C08.ModuleModel.
