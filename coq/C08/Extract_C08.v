From Coq Require Import Extraction ExtrOcamlBasic.
From CV Require Import Base.Num C08.ModuleModel.
Extraction Language OCaml.
Extraction "model.ml" mkNumOps mkCvc mkVar mkBias mkOut EStep KHarmonic run_kinds coord_force tf_trace tf_trace_routed jac_force.
