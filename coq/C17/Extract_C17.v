From Coq Require Import Extraction ExtrOcamlBasic.
From CV Require Import Base.Num C18.ValueModel C17.ExtLagModel.
Extraction Language OCaml.
Extraction "model.ml" mkNumOps nhalf mkConfig mkParams mkState mkInput init_params init_state restart_state step trace sleep awake_at mstep menergy mtrace saved_xv valid_config saved_xv_opt restart_state_opt saved_value restart_refused load_state route_bias bias_sees
  reported_energy.
