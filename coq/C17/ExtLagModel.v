(* Model of the extended-Lagrangian degree of freedom of a scalar collective variable
   (src/colvar.cpp): colvar::init_extended_Lagrangian (parameters from fluctuation, time constant,
   temperature, damping), the extended-Lagrangian part of colvar::calc_colvar_properties
   (initialisation, clamping to reflecting boundaries, repeated-step reversion, jump detection with the
   same clamping [fix-C17],
   reported value and velocity), colvar::update_forces_energy + colvar::update_extended_Lagrangian
   (time-step-factor guard, force split, two half kicks, two half drifts, optional O step with a
   supplied Gaussian number, reflection, wrapping, energies, reported total force) and
   colvar::end_of_step.  One call of [step] = one module step on which the variable is awake.
   The variable is geometric (not an external/alchemical parameter) and has no hidden Jacobian term.
   Distances, gradients and wrapping are those of C18's model.  Definitions only. *)
From Coq Require Import ZArith List Bool.
From CV Require Import Base.Num C18.ValueModel.
Import ListNotations.

Section ExtLag.
  Context {T : Type} (O : NumOps T).
  Local Notation "a + b" := (nadd O a b).
  Local Notation "a - b" := (nsub O a b).
  Local Notation "a * b" := (nmul O a b).
  Local Notation "a / b" := (ndiv O a b).
  Let two : T := nofZ O 2.
  Let four : T := nofZ O 4.
  Let zero : T := n0 O.
  Let one : T := n1 O.
  Let half : T := nhalf O.                 (* the literal 0.5 *)
  Let quarter : T := one / four.           (* the literal 0.25 *)
  Let milli : T := one / nofZ O 1000.      (* the literal 1.0e-3 *)
  Variable pi : T.                         (* the constant PI of the carrier *)

  (* ---- what the user and the engine supply ---- *)
  Record config := mkConfig {
    c_kB : T;            (* proxy->boltzmann() *)
    c_temp : T;          (* extendedTemp *)
    c_tol : T;           (* extendedFluctuation *)
    c_tau : T;           (* extendedTimeConstant *)
    c_damping : T;       (* extendedLangevinDamping, in 1/ps *)
    c_dt : T;            (* cvm::dt() *)
    c_tsf : Z;           (* timeStepFactor *)
    c_lower : T; c_upper : T;            (* lowerBoundary, upperBoundary *)
    c_refl_lo : bool; c_refl_up : bool;  (* reflectingLowerBoundary, reflectingUpperBoundary *)
    c_width : T;
    c_period : option (T * T);           (* (period, wrapAround) of a periodic component *)
    c_same_step : bool;                  (* proxy->total_forces_same_step(): f_cv_total_force_current_step *)
    c_subtract : bool                    (* subtractAppliedForce *)
  }.

  (* ---- colvar::init_extended_Lagrangian ---- *)
  Record params := mkParams { p_k : T; p_m : T; p_gamma : T; p_sigma : T; p_langevin : bool }.

  Definition tsf_real (c : config) : T := nofZ O (c_tsf c).

  Definition init_params (c : config) : params :=
    let k := c_kB c * c_temp c / (c_tol c * c_tol c) in
    let m := (c_kB c * c_temp c * c_tau c * c_tau c) / (four * pi * pi * c_tol c * c_tol c) in
    if neqb O (c_damping c) zero then mkParams k m (c_damping c) zero false
    else
      let g := c_damping c * milli in
      let s := nsqrt O ((one - nexp O (nneg O two * g * c_dt c * tsf_real c)) * m * c_kB c * c_temp c) in
      mkParams k m g s true.

  (* the input checks of colvar::init_extended_Lagrangian: extendedTemp > 0, extendedFluctuation > 0, extendedTimeConstant > 0,
     extendedLangevinDamping >= 0; otherwise the configuration is refused (input error) *)
  Definition valid_config (c : config) : bool :=
    nltb O zero (c_temp c) && nltb O zero (c_tol c) && nltb O zero (c_tau c) && negb (nltb O (c_damping c) zero).

  (* ---- distances of the variable (colvar::dist2, dist2_lgrad, wrap) ---- *)
  Definition cv_dist2 (c : config) (x1 x2 : T) : T :=
    match c_period c with None => sc_dist2 O x1 x2 | Some (P, _) => per_dist2 O P x1 x2 end.
  Definition cv_lgrad (c : config) (x1 x2 : T) : T :=
    match c_period c with None => sc_grad O x1 x2 | Some (P, _) => per_grad O P x1 x2 end.
  Definition cv_wrap (c : config) (x : T) : T :=
    match c_period c with None => x | Some (P, ctr) => cvc_wrap O ctr P x end.

  (* ---- state of the colvar object that matters here ---- *)
  Record state := mkState {
    s_x_ext : option T;      (* None = type_notset *)
    s_v_ext : T;
    s_prev_x : T; s_prev_v : T;          (* prev_x_ext, prev_v_ext *)
    s_prev_ts : Z;                       (* prev_timestep, -1 at construction *)
    s_x_old : T;
    s_after_restart : bool;
    s_ekin : T; s_epot : T;              (* kinetic_energy, potential_energy *)
    s_ft_rep : T;                        (* ft_reported *)
    s_fr : T;                            (* fr: bias force on the extended coordinate *)
    s_f : T;                             (* f: force that communicate_forces() applies to the atoms *)
    s_x_rep : T; s_v_rep : T;            (* x_reported, v_reported *)
    s_err : bool                         (* an error was raised during this step *)
  }.

  Definition init_state : state :=
    mkState None zero zero zero (-1)%Z zero false zero zero zero zero zero zero zero false.

  (* state after reading (extended_x, extended_v) from a saved state *)
  Definition restart_state (x v : T) : state :=
    mkState (Some x) v zero zero (-1)%Z zero true zero zero zero zero zero x v false.

  (* one awake step of the module *)
  Record input := mkInput {
    i_step : Z;          (* cvm::step_relative() *)
    i_x : T;             (* value of the variable computed from the atoms *)
    i_fb : T;            (* sum of the forces of ordinary biases (each already times its time-step factor) *)
    i_fba : T;           (* same for biases that bypass the extended coordinate (fb_actual) *)
    i_rnd : T;           (* what rand_gaussian() returns if it is called *)
    i_running : bool     (* proxy->simulation_running() *)
  }.

  Definition clamp_init (c : config) (x : T) : T :=
    let x1 := if c_refl_lo c && nltb O x (c_lower c) then c_lower c else x in
    if c_refl_up c && nltb O (c_upper c) x1 then c_upper c else x1.

  Definition xext_or (s : state) (d : T) : T := match s_x_ext s with Some x => x | None => d end.

  (* colvar::calc_colvar_properties, extended-Lagrangian branch: returns (x_ext, v_ext) *)
  Definition props_xv (c : config) (s : state) (i : input) : T * T :=
    let '(xe, ve) :=
      if (Z.eqb (i_step i) 0 && negb (s_after_restart s))
         || (match s_x_ext s with None => true | Some _ => false end)
         || negb (i_running i)
      then (clamp_init c (i_x i), zero)
      else (xext_or s zero, s_v_ext s) in
    if i_running i && Z.eqb (i_step i) (s_prev_ts s) then
      let jump2 := cv_dist2 c (i_x i) (s_x_old s) / (c_width c * c_width c) in
      if nltb O quarter jump2 then (clamp_init c (i_x i), zero) else (s_prev_x s, s_prev_v s)
    else (xe, ve).

  (* the guard at the top of colvar::update_extended_Lagrangian *)
  Definition tsf_error (c : config) (s : state) (i : input) : bool :=
    Z.ltb (-1) (s_prev_ts s)
    && negb (Z.eqb (i_step i - s_prev_ts s) 0) && negb (Z.eqb (i_step i - s_prev_ts s) (c_tsf c)).

  (* the slow time step *)
  Definition big_dt (c : config) : T := c_dt c * tsf_real c.

  (* forces of update_extended_Lagrangian: (fr, f_system, f_ext) *)
  Definition ext_forces (c : config) (p : params) (xe : T) (i : input) : T * T * T :=
    let fr := i_fb i / tsf_real c in
    let f_system := (nneg O half * p_k p) * cv_lgrad c xe (i_x i) in
    (fr, f_system, fr + f_system).

  (* reflection at the boundaries: (x_ext, v_ext, error) *)
  Definition reflect (c : config) (prev_v x v : T) : T * T * bool :=
    let dlo := x - c_lower c in
    let dup := x - c_upper c in
    let hit_lo := c_refl_lo c && nltb O dlo zero in
    let hit_up := c_refl_up c && nltb O zero dup in
    if hit_lo || hit_up then
      let delta := if hit_lo then dlo else dup in
      let x' := x - two * delta in
      let v' := nneg O half * (prev_v + v) in
      let out := (c_refl_lo c && nltb O (x' - c_lower c) zero) || (c_refl_up c && nltb O zero (x' - c_upper c)) in
      (x', v', out)
    else (x, v, false).

  (* the integrator proper: from (x_t, v_(t-1/2)) and the force at t to
     (x_(t+1), v_(t+1/2), kinetic energy at t, error) *)
  Definition integrate (c : config) (p : params) (xe ve f_ext rnd : T) : T * T * T * bool :=
    let dt := big_dt c in
    let v1 := ve + half * dt * f_ext / p_m p in
    let ekin := half * p_m p * v1 * v1 in
    let v2 := v1 + half * dt * f_ext / p_m p in
    let x1 := xe + dt * v2 / two in
    let v3 := if p_langevin p then nexp O (nneg O one * dt * p_gamma p) * v2 + p_sigma p * rnd / p_m p else v2 in
    let x2 := x1 + dt * v3 / two in
    let '(x3, v4, err) := reflect c ve x2 v3 in
    (cv_wrap c x3, v4, ekin, err).

  (* spring force on the extended coordinate: (-0.5 k) dist2_lgrad(x_ext, x) *)
  Definition spring (c : config) (p : params) (xe x : T) : T := (nneg O half * p_k p) * cv_lgrad c xe x.

  (* ft_reported after calc_colvar_properties: engines with same-step total forces get the system (spring) force of
     the current step [fix-C17-2]; otherwise it is left to update_extended_Lagrangian *)
  Definition ft_props (c : config) (p : params) (s : state) (xe x : T) : T :=
    if c_same_step c then spring c p xe x else s_ft_rep s.

  Definition step (c : config) (p : params) (s : state) (i : input) : state :=
    let '(xe, ve) := props_xv c s i in
    (* x_reported = x_ext; v_reported = v_ext; after_restart = false; then update_forces_energy: f = fb *)
    if negb (i_running i) then
      mkState (Some xe) ve (s_prev_x s) (s_prev_v s) (i_step i) (i_x i) false
              (s_ekin s) (s_epot s) (ft_props c p s xe (i_x i)) zero (i_fb i + i_fba i) xe ve false
    else if tsf_error c s i then
      mkState (Some xe) ve (s_prev_x s) (s_prev_v s) (i_step i) (i_x i) false
              (s_ekin s) (s_epot s) (ft_props c p s xe (i_x i)) zero (i_fb i + i_fba i) xe ve true
    else
      let '(fr, f_system, f_ext) := ext_forces c p xe i in
      let f_atoms := nneg O one * f_system * tsf_real c in
      let ft := if c_same_step c then ft_props c p s xe (i_x i) else if c_subtract c then f_system else f_ext in
      let epot := half * p_k p * cv_dist2 c xe (i_x i) in
      let '(xn, vn, ekin, err) := integrate c p xe ve f_ext (i_rnd i) in
      mkState (Some xn) vn xe ve (i_step i) (i_x i) false
              ekin epot ft fr (f_atoms + i_fba i) xe ve err.

  (* a module step on which the variable sleeps (timeStepFactor > 1, absolute step not a multiple of it):
     colvar::update_forces_energy resets f and fr and returns zero energy; nothing else of the object is touched
     (no calc, no end_of_step) *)
  Definition sleep (s : state) : state :=
    mkState (s_x_ext s) (s_v_ext s) (s_prev_x s) (s_prev_v s) (s_prev_ts s) (s_x_old s) (s_after_restart s)
            (s_ekin s) (s_epot s) (s_ft_rep s) zero zero (s_x_rep s) (s_v_rep s) false.

  (* colvarmodule::calc_colvars: the variable is awake iff the absolute step is a multiple of its factor;
     it0 = absolute step of relative step 0 (it_restart) *)
  Definition awake_at (c : config) (it0 : Z) (i : input) : bool := Z.eqb (Z.modulo (it0 + i_step i) (c_tsf c)) 0.

  (* one module step, awake or not; the input of a sleeping step is ignored (the variable is not computed) *)
  Definition mstep (c : config) (p : params) (it0 : Z) (s : state) (i : input) : state :=
    if awake_at c it0 i then step c p s i else sleep s.

  (* energy that the variable contributes to the engine's energy at this module step *)
  Definition menergy (c : config) (it0 : Z) (i : input) (s' : state) : T :=
    if awake_at c it0 i then s_epot s' + s_ekin s' else zero.

  Fixpoint mtrace (c : config) (p : params) (it0 : Z) (s : state) (l : list input) : list state :=
    match l with
    | [] => []
    | i :: r => let s' := mstep c p it0 s i in s' :: mtrace c p it0 s' r
    end.

  (* colvar::get_state_params: (extended_x, extended_v) written when the state is saved at relative step t:
     the values reported at the beginning of the step if the variable was updated at this step (or never),
     the integrated ones otherwise [fix-C17-2] *)
  Definition saved_xv (s : state) (t : Z) : T * T :=
    if Z.ltb (s_prev_ts s) 0 || Z.eqb (s_prev_ts s) t then (s_x_rep s, s_v_rep s) else (xext_or s zero, s_v_ext s).

  Definition run (c : config) (p : params) (s : state) (l : list input) : state :=
    fold_left (step c p) l s.

  (* all the states passed through, in order *)
  Fixpoint trace (c : config) (p : params) (s : state) (l : list input) : list state :=
    match l with
    | [] => []
    | i :: r => let s' := step c p s i in s' :: trace c p s' r
    end.

  (* nothing is written before the extended coordinate is first set (a variable with timeStepFactor > 1 in a job that started
     between two of its steps); set_state_params without the two values leaves the coordinate unset: it is initialised at
     the variable's first update *)
  Definition saved_xv_opt (s : state) (t : Z) : option (T * T) :=
    match s_x_ext s with None => None | Some _ => Some (saved_xv s t) end.

  Definition restart_state_opt (o : option (T * T)) : state :=
    match o with
    | Some (x, v) => restart_state x v
    | None => mkState None zero zero zero (-1)%Z zero true zero zero zero zero zero zero zero false
    end.

  (* value of the variable written to the state (the "x" line of get_state_params): the last computed one *)
  Definition saved_value (s : state) : T := s_x_old s.

  (* colvar::calc_value at the first evaluation after a state was read: the restart is refused (input error, the module
     aborts) when the value differs from the saved one by more than width/2 -- only at the first step of the job [fix-C17-3] *)
  Definition restart_refused (c : config) (x_saved : T) (after_restart : bool) (i : input) : bool :=
    after_restart && i_running i && Z.eqb (i_step i) 0
    && nltb O quarter (cv_dist2 c (i_x i) x_saved / (c_width c * c_width c)).

  (* colvar::set_state_params on an object that has already run (state loaded in the same session): coordinate, velocity
     and the reported ones from the file, after_restart set, the remembered step forgotten [fix-C17-3]; everything else stays *)
  Definition load_state (x v : T) (s : state) : state :=
    mkState (Some x) v (s_prev_x s) (s_prev_v s) (-1)%Z (s_x_old s) true
            (s_ekin s) (s_epot s) (s_ft_rep s) (s_fr s) (s_f s) x v false.

  (* colvarbias::communicate_forces: a bias force F (already times the bias' time-step factor) goes to fb_actual when the bias
     bypasses the extended coordinate, to fb otherwise: (ordinary, bypassing) *)
  Definition route_bias (bypass : bool) (F : T) : T * T := if bypass then (zero, F) else (F, zero).

  (* the value a bias evaluates: colvar::actual_value() when it bypasses, value() = x_reported otherwise *)
  Definition bias_sees (bypass : bool) (x_rep x_actual : T) : T := if bypass then x_actual else x_rep.

  (* energy that update_forces_energy() returns and the module adds to the engine's energy *)
  Definition reported_energy (s : state) : T := s_epot s + s_ekin s.
End ExtLag.
