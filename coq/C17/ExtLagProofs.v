(* Lemmas about the model of the extended-Lagrangian integrator (ExtLagModel.v), R instance. *)
From Coq Require Import ZArith List Bool Reals Lra Lia Psatz.
From Coquelicot Require Import Coquelicot.
From Flocq Require Import Core.Raux.
From CV Require Import Base.Num Base.RNum C18.ValueModel C18.ValueProofs C17.ExtLagModel.
Import ListNotations.
Local Open Scope R_scope.

(* ------------------------------------------------------------------ shorthands (R instance) *)
Definition Dt (c : @config R) : R := c_dt c * IZR (c_tsf c).                 (* the slow time step *)
Definition free_cfg (c : @config R) : Prop :=
  c_refl_lo c = false /\ c_refl_up c = false /\ c_period c = None.
Definition inside (c : @config R) (x : R) : Prop :=
  (c_refl_lo c = true -> c_lower c <= x) /\ (c_refl_up c = true -> x <= c_upper c).

Lemma big_dt_R c : big_dt Rops c = Dt c.
Proof. reflexivity. Qed.

(* ------------------------------------------------------------------ parameters *)
Lemma init_params_k_m c :
  p_k (init_params Rops PI c) = c_kB c * c_temp c / (c_tol c * c_tol c) /\
  p_m (init_params Rops PI c) = c_kB c * c_temp c * c_tau c * c_tau c / (4 * PI * PI * c_tol c * c_tol c).
Proof.
  unfold init_params. cbn [neqb Rops]. destruct (Reqb' (c_damping c) (n0 Rops)); cbn; split; reflexivity.
Qed.

Lemma params_documented c :
  0 < c_kB c * c_temp c -> 0 < c_tol c -> 0 < c_tau c ->
  let p := init_params Rops PI c in
  p_k p = c_kB c * c_temp c / (c_tol c) ^ 2 /\
  p_m p = c_kB c * c_temp c * (c_tau c / (2 * PI * c_tol c)) ^ 2 /\
  0 < p_k p /\ 0 < p_m p /\
  2 * PI * sqrt (p_m p / p_k p) = c_tau c /\
  sqrt (c_kB c * c_temp c / p_k p) = c_tol c.
Proof.
  intros HkT Htol Htau p.
  destruct (init_params_k_m c) as [Hk Hm]. fold p in Hk, Hm.
  pose proof PI_RGT_0 as Hpi.
  assert (HkB : c_kB c <> 0) by (intros Z; rewrite Z in HkT; lra).
  assert (HT : c_temp c <> 0) by (intros Z; rewrite Z in HkT; lra).
  assert (Hk' : p_k p = c_kB c * c_temp c / c_tol c ^ 2) by (rewrite Hk; field; lra).
  assert (Hm' : p_m p = c_kB c * c_temp c * (c_tau c / (2 * PI * c_tol c)) ^ 2) by (rewrite Hm; field; lra).
  assert (Hkpos : 0 < p_k p).
  { rewrite Hk'. apply Rdiv_lt_0_compat; [lra | apply pow_lt; lra]. }
  assert (Hq : 0 < c_tau c / (2 * PI * c_tol c)).
  { apply Rdiv_lt_0_compat; [lra | ]. apply Rmult_lt_0_compat; lra. }
  assert (Hmpos : 0 < p_m p).
  { rewrite Hm'. apply Rmult_lt_0_compat; [lra | apply pow_lt; exact Hq]. }
  repeat split; try assumption.
  - assert (E : p_m p / p_k p = (c_tau c / (2 * PI)) ^ 2).
    { rewrite Hk', Hm'. field. repeat split; (assumption || lra). }
    rewrite E. rewrite <- Rsqr_pow2. rewrite sqrt_Rsqr.
    + field. lra.
    + apply Rlt_le. apply Rdiv_lt_0_compat; lra.
  - assert (E : c_kB c * c_temp c / p_k p = (c_tol c) ^ 2).
    { rewrite Hk'. field. repeat split; (assumption || lra). }
    rewrite E. rewrite <- Rsqr_pow2. apply sqrt_Rsqr. lra.
Qed.

Lemma params_langevin c :
  c_damping c <> 0 ->
  let p := init_params Rops PI c in
  p_langevin p = true /\ p_gamma p = c_damping c / 1000 /\
  p_sigma p = sqrt ((1 - exp (- 2 * p_gamma p * Dt c)) * p_m p * c_kB c * c_temp c).
Proof.
  intros Hd p. unfold p, init_params. cbn [neqb Rops].
  destruct (Reqb' (c_damping c) (n0 Rops)) eqn:E.
  - apply Reqb_true in E. cbn in E. contradiction.
  - cbn. repeat split.
    + unfold Rdiv. ring.
    + f_equal. unfold Dt, Rdiv.
      replace (- (2) * (c_damping c * (1 * / 1000)) * c_dt c * IZR (c_tsf c))
        with (- 2 * (c_damping c * (1 * / 1000)) * (c_dt c * IZR (c_tsf c))) by ring.
      reflexivity.
Qed.

Lemma params_no_langevin c :
  c_damping c = 0 ->
  let p := init_params Rops PI c in p_langevin p = false /\ p_gamma p = 0 /\ p_sigma p = 0.
Proof.
  intros Hd p. unfold p, init_params. cbn [neqb Rops].
  destruct (Reqb' (c_damping c) (n0 Rops)) eqn:E.
  - cbn. rewrite Hd. auto.
  - exfalso. assert (Reqb' (c_damping c) (n0 Rops) = true) by (apply Reqb_true; cbn; exact Hd). congruence.
Qed.

(* noise amplitude of the velocity: sigma / m = sqrt ((1 - e^(-2 gamma Dt)) kT / m), and the O step keeps the
   thermal variance kT/m stationary: a^2 (kT/m) + (sigma/m)^2 = kT/m with a = e^(-gamma Dt) *)
Lemma langevin_fd (g dt m kT : R) :
  0 < m -> 0 <= kT -> 0 <= g * dt ->
  let a := exp (- 1 * dt * g) in
  let sg := sqrt ((1 - exp (- 2 * g * dt)) * m * kT) in
  sg / m = sqrt ((1 - exp (- 2 * g * dt)) * kT / m) /\
  a ^ 2 * (kT / m) + (sg / m) ^ 2 = kT / m.
Proof.
  intros Hm HkT Hg a sg.
  assert (He : exp (- 2 * g * dt) <= 1).
  { replace 1 with (exp 0) by apply exp_0. destruct (Req_dec (g * dt) 0) as [Z | NZ].
    - replace (- 2 * g * dt) with 0 by lra. lra.
    - left. apply exp_increasing. nra. }
  assert (Hq : 0 <= (1 - exp (- 2 * g * dt)) * kT / m).
  { unfold Rdiv. apply Rmult_le_pos; [apply Rmult_le_pos; lra | left; apply Rinv_0_lt_compat; lra]. }
  assert (Hs : sg / m = sqrt ((1 - exp (- 2 * g * dt)) * kT / m)).
  { unfold sg.
    replace ((1 - exp (- 2 * g * dt)) * m * kT) with (((1 - exp (- 2 * g * dt)) * kT / m) * (m * m)) by (field; lra).
    rewrite sqrt_mult; [ | exact Hq | nra ].
    rewrite sqrt_square by lra. field. lra. }
  split; [exact Hs | ].
  rewrite Hs. rewrite <- Rsqr_pow2 with (x := sqrt _). rewrite Rsqr_sqrt by exact Hq.
  assert (Ha : a ^ 2 = exp (- 2 * g * dt)).
  { unfold a. simpl. rewrite Rmult_1_r. rewrite <- exp_plus. f_equal. ring. }
  rewrite Ha. field. lra.
Qed.

(* ------------------------------------------------------------------ one step of the model, unfolded *)
Definition f_spring (c : @config R) (p : @params R) (xe x : R) : R := spring Rops c p xe x.

Lemma step_running_eq c p s i :
  i_running i = true -> tsf_error c s i = false ->
  step Rops c p s i =
    let xe := fst (props_xv Rops c s i) in
    let ve := snd (props_xv Rops c s i) in
    let fs := f_spring c p xe (i_x i) in
    let fr := i_fb i / IZR (c_tsf c) in
    let r := integrate Rops c p xe ve (fr + fs) (i_rnd i) in
    mkState (Some (fst (fst (fst r)))) (snd (fst (fst r))) xe ve (i_step i) (i_x i) false
            (snd (fst r)) (1 / 2 * p_k p * cv_dist2 Rops c xe (i_x i))
            (if c_same_step c then fs else if c_subtract c then fs else fr + fs)
            fr (- 1 * fs * IZR (c_tsf c) + i_fba i) xe ve (snd r).
Proof.
  intros Hrun Herr. unfold step. destruct (props_xv Rops c s i) as [xe ve] eqn:Hp.
  rewrite Hrun, Herr. cbn [negb fst snd]. unfold ext_forces, f_spring, ft_props, spring.
  destruct (integrate Rops c p xe ve _ (i_rnd i)) as [[[xn vn] ek] er] eqn:Hi.
  cbn [fst snd]. destruct (c_same_step c); reflexivity.
Qed.

Lemma step_not_running_eq c p s i :
  i_running i = false ->
  step Rops c p s i =
    mkState (Some (clamp_init Rops c (i_x i))) 0 (s_prev_x s) (s_prev_v s) (i_step i) (i_x i) false
            (s_ekin s) (s_epot s) (ft_props Rops c p s (clamp_init Rops c (i_x i)) (i_x i)) 0 (i_fb i + i_fba i) (clamp_init Rops c (i_x i)) 0 false.
Proof.
  intros Hrun. unfold step, props_xv. rewrite Hrun. cbn [negb andb orb].
  rewrite !orb_true_r. reflexivity.
Qed.

Lemma tup4 {A B C D : Type} (a a' : A) (b b' : B) (c c' : C) (d d' : D) :
  a = a' -> b = b' -> c = c' -> d = d' -> (a, b, c, d) = (a', b', c', d').
Proof. intros; subst; reflexivity. Qed.

(* the integrator without reflecting boundaries and wrapping *)
Lemma integrate_free c p xe ve F rnd :
  free_cfg c ->
  integrate Rops c p xe ve F rnd =
    let v2 := ve + Dt c * F / p_m p in
    let v3 := if p_langevin p then exp (- (p_gamma p * Dt c)) * v2 + p_sigma p * rnd / p_m p else v2 in
    (xe + Dt c * (v2 + v3) / 2, v3, 1 / 2 * p_m p * (ve + Dt c * F / p_m p / 2) ^ 2, false).
Proof.
  intros (Hlo & Hup & Hper). unfold integrate, reflect, cv_wrap. rewrite Hlo, Hup, Hper. cbn [andb orb].
  rewrite big_dt_R. cbn [nadd nsub nmul ndiv nneg nexp Rops n1 n0 nofZ nhalf].
  replace (- (1) * Dt c * p_gamma p) with (- (p_gamma p * Dt c)) by ring.
  destruct (p_langevin p); cbn zeta; apply tup4; try reflexivity; unfold Rdiv;
    generalize (/ p_m p); intro q; try (generalize (exp (- (p_gamma p * Dt c))); intro ex); field.
Qed.

(* ------------------------------------------------------------------ where a step starts from *)
Lemma props_continue c s i xe :
  i_running i = true -> i_step i <> s_prev_ts s -> s_x_ext s = Some xe ->
  (i_step i <> 0%Z \/ s_after_restart s = true) ->
  props_xv Rops c s i = (xe, s_v_ext s).
Proof.
  intros Hrun Hne Hx Hor. unfold props_xv, xext_or. rewrite Hrun, Hx. cbn [negb orb andb].
  assert (E1 : (Z.eqb (i_step i) 0 && negb (s_after_restart s)) = false).
  { destruct Hor as [H0 | Har].
    - apply Z.eqb_neq in H0. rewrite H0. reflexivity.
    - rewrite Har. apply andb_false_r. }
  rewrite E1. cbn [orb]. apply Z.eqb_neq in Hne. rewrite Hne. reflexivity.
Qed.

Lemma props_first c s i :
  i_running i = true -> i_step i <> s_prev_ts s -> s_x_ext s = None ->
  props_xv Rops c s i = (clamp_init Rops c (i_x i), 0).
Proof.
  intros Hrun Hne Hx. unfold props_xv. rewrite Hrun, Hx. cbn [negb orb andb].
  rewrite orb_true_r. cbn [orb]. apply Z.eqb_neq in Hne. rewrite Hne. reflexivity.
Qed.

Lemma props_repeat c s i :
  i_running i = true -> i_step i = s_prev_ts s ->
  props_xv Rops c s i =
    if Rltb (1 / 4) (cv_dist2 Rops c (i_x i) (s_x_old s) / (c_width c * c_width c))
    then (clamp_init Rops c (i_x i), 0)
    else (s_prev_x s, s_prev_v s).
Proof.
  intros Hrun He. unfold props_xv. rewrite Hrun. cbn [negb andb]. rewrite orb_false_r.
  rewrite He, Z.eqb_refl.
  destruct ((Z.eqb (s_prev_ts s) 0 && negb (s_after_restart s)) || match s_x_ext s with None => true | Some _ => false end);
    cbn [snd nltb Rops ndiv nmul n1 nofZ]; reflexivity.
Qed.

Lemma clamp_free c x : c_refl_lo c = false -> c_refl_up c = false -> clamp_init Rops c x = x.
Proof. intros Hlo Hup. unfold clamp_init. rewrite Hlo, Hup. reflexivity. Qed.

Lemma clamp_inside c x : c_lower c <= c_upper c -> inside c (clamp_init Rops c x).
Proof.
  intros Hle. unfold clamp_init, inside. cbn [nltb Rops].
  destruct (c_refl_lo c), (c_refl_up c); cbn [andb];
    repeat match goal with |- context [Rltb ?a ?b] => let E := fresh "E" in destruct (Rltb a b) eqn:E;
           [apply Rltb_true in E | apply Rltb_false in E] end;
    split; intros; try discriminate; lra.
Qed.

Lemma clamp_id c x : inside c x -> clamp_init Rops c x = x.
Proof.
  intros [Hlo Hup]. unfold clamp_init. cbn [nltb Rops].
  destruct (c_refl_lo c) eqn:Elo; cbn [andb].
  - destruct (Rltb x (c_lower c)) eqn:E1; [apply Rltb_true in E1; specialize (Hlo eq_refl); lra | ].
    destruct (c_refl_up c) eqn:Eup; cbn [andb]; [ | reflexivity].
    destruct (Rltb (c_upper c) x) eqn:E2; [apply Rltb_true in E2; specialize (Hup eq_refl); lra | reflexivity].
  - destruct (c_refl_up c) eqn:Eup; cbn [andb]; [ | reflexivity].
    destruct (Rltb (c_upper c) x) eqn:E2; [apply Rltb_true in E2; specialize (Hup eq_refl); lra | reflexivity].
Qed.

(* ------------------------------------------------------------------ the documented integrator (closed form) *)
(* From (x_t, v_(t-1/2)), the variable's value X_t, the bias force fb_t (already divided by the time-step factor)
   and a Gaussian number: F_t = fb_t - k (x_t - X_t);  vh = v_(t-1/2) + Dt F_t / m;
   v_(t+1/2) = vh (no friction) or e^(-gamma Dt) vh + sqrt((1 - e^(-2 gamma Dt)) m kT) rnd / m;
   x_(t+1) = x_t + Dt (vh + v_(t+1/2)) / 2   [= x_t + Dt v_(t+1/2) without friction: leap-frog]. *)
Definition doc_force (p : @params R) (x X fb : R) : R := fb - p_k p * (x - X).
Definition doc_step (c : @config R) (p : @params R) (x v X fb rnd : R) : R * R :=
  let vh := v + Dt c * doc_force p x X fb / p_m p in
  let v' := if p_langevin p then exp (- (p_gamma p * Dt c)) * vh + p_sigma p * rnd / p_m p else vh in
  (x + Dt c * (vh + v') / 2, v').
Definition doc_ekin (c : @config R) (p : @params R) (x v X fb : R) : R :=
  1 / 2 * p_m p * (v + Dt c * doc_force p x X fb / p_m p / 2) ^ 2.
Definition doc_epot (p : @params R) (x X : R) : R := 1 / 2 * p_k p * (x - X) ^ 2.

(* what is observed of a state: (x_t, v_(t-1/2)) reported, (x_(t+1), v_(t+1/2)) stored, Ek, Ep *)
Definition obs (s : @state R) : R * R * R * R * R * R :=
  (s_x_rep s, s_v_rep s, xext_or s 0, s_v_ext s, s_ekin s, s_epot s).

Fixpoint doc_run (c : @config R) (p : @params R) (x v : R) (l : list (@input R)) : list (R * R * R * R * R * R) :=
  match l with
  | [] => []
  | i :: r =>
      let fb := i_fb i / IZR (c_tsf c) in
      let '(x', v') := doc_step c p x v (i_x i) fb (i_rnd i) in
      (x, v, x', v', doc_ekin c p x v (i_x i) fb, doc_epot p x (i_x i)) :: doc_run c p x' v' r
  end.

(* an uninterrupted run: steps t, t + tsf, t + 2 tsf, ..., simulation running *)
Fixpoint consecutive (tsf t : Z) (l : list (@input R)) : Prop :=
  match l with
  | [] => True
  | i :: r => i_step i = t /\ i_running i = true /\ consecutive tsf (t + tsf) r
  end.

Lemma f_spring_free c p xe x : c_period c = None -> f_spring c p xe x = - (p_k p * (xe - x)).
Proof. intros Hper. unfold f_spring, spring, cv_lgrad, sc_grad. rewrite Hper. cbn [nmul nsub nofZ nneg nhalf ndiv n1 Rops]. field. Qed.

Lemma dist2_free c xe x : c_period c = None -> cv_dist2 Rops c xe x = (xe - x) ^ 2.
Proof. intros Hper. unfold cv_dist2, sc_dist2. rewrite Hper. cbn [nmul nsub Rops]. ring. Qed.

Lemma step_free_obs (c : @config R) (p : @params R) (s : @state R) (i : @input R) xe ve :
  free_cfg c -> i_running i = true -> tsf_error c s i = false -> props_xv Rops c s i = (xe, ve) ->
  let fb := i_fb i / IZR (c_tsf c) in
  let s' := step Rops c p s i in
  obs s' = (xe, ve, fst (doc_step c p xe ve (i_x i) fb (i_rnd i)), snd (doc_step c p xe ve (i_x i) fb (i_rnd i)),
            doc_ekin c p xe ve (i_x i) fb, doc_epot p xe (i_x i)) /\
  s_x_ext s' = Some (fst (doc_step c p xe ve (i_x i) fb (i_rnd i))) /\
  s_prev_ts s' = i_step i /\ s_err s' = false /\ s_after_restart s' = false.
Proof.
  intros Hfree Hrun Herr Hp fb s'. unfold s'. rewrite (step_running_eq c p s i Hrun Herr). rewrite Hp. cbn [fst snd].
  rewrite (integrate_free c p _ _ _ _ Hfree). destruct Hfree as (Hlo & Hup & Hper).
  unfold obs, xext_or. cbn [s_x_rep s_v_rep s_x_ext s_v_ext s_ekin s_epot s_prev_ts s_err s_after_restart fst snd].
  rewrite (f_spring_free c p xe (i_x i) Hper), (dist2_free c xe (i_x i) Hper).
  unfold doc_step, doc_ekin, doc_epot, doc_force. fold fb.
  replace (fb + - (p_k p * (xe - i_x i))) with (fb - p_k p * (xe - i_x i)) by ring.
  cbn [fst snd]. repeat split; reflexivity.
Qed.

Lemma tsf_error_consec (c : @config R) (s : @state R) (i : @input R) :
  (s_prev_ts s = (-1)%Z \/ i_step i = (s_prev_ts s + c_tsf c)%Z \/ i_step i = s_prev_ts s) -> tsf_error c s i = false.
Proof.
  intros H. unfold tsf_error. destruct H as [H | [H | H]].
  - rewrite H. reflexivity.
  - replace (i_step i - s_prev_ts s)%Z with (c_tsf c) by lia. rewrite Z.eqb_refl. cbn. rewrite !andb_false_r. reflexivity.
  - replace (i_step i - s_prev_ts s)%Z with 0%Z by lia. cbn. rewrite andb_false_r. reflexivity.
Qed.

Lemma trace_consecutive_from c p : free_cfg c -> (0 < c_tsf c)%Z ->
  forall l s xe t, s_x_ext s = Some xe -> s_prev_ts s = (t - c_tsf c)%Z -> (0 <= t - c_tsf c)%Z ->
    consecutive (c_tsf c) t l ->
    map obs (trace Rops c p s l) = doc_run c p xe (s_v_ext s) l.
Proof.
  intros Hfree Htsf. induction l as [| i r IH]; intros s xe t Hx Hts Ht Hc; [reflexivity | ].
  destruct Hc as (Hst & Hrun & Hc). cbn [trace map doc_run].
  assert (Hp : props_xv Rops c s i = (xe, s_v_ext s)).
  { apply props_continue; auto; [lia | left; lia]. }
  assert (Herr : tsf_error c s i = false) by (apply tsf_error_consec; right; left; lia).
  destruct (step_free_obs c p s i xe (s_v_ext s) Hfree Hrun Herr Hp) as (Hobs & Hx' & Hts' & _ & _).
  destruct (doc_step c p xe (s_v_ext s) (i_x i) (i_fb i / IZR (c_tsf c)) (i_rnd i)) as [x' v'] eqn:Hd.
  cbn [fst snd] in Hobs, Hx'. rewrite Hobs. f_equal.
  assert (Hv : s_v_ext (step Rops c p s i) = v').
  { unfold obs in Hobs. inversion Hobs. reflexivity. }
  rewrite <- Hv. apply (IH _ x' (t + c_tsf c)%Z); auto; lia.
Qed.

(* the whole uninterrupted run from a fresh start: the model IS the documented integrator *)
Lemma trace_fresh_documented c p l :
  free_cfg c -> (0 < c_tsf c)%Z -> consecutive (c_tsf c) 0 l ->
  map obs (trace Rops c p (init_state Rops) l) = doc_run c p (match l with i :: _ => i_x i | [] => 0 end) 0 l.
Proof.
  intros Hfree Htsf Hc. destruct l as [| i r]; [reflexivity | ].
  destruct Hc as (Hst & Hrun & Hc). cbn [trace map doc_run].
  assert (Hp : props_xv Rops c (init_state Rops) i = (i_x i, 0)).
  { rewrite props_first; auto.
    - destruct Hfree as (Hlo & Hup & _). rewrite clamp_free; auto.
    - cbn. lia. }
  assert (Herr : tsf_error c (init_state Rops) i = false) by (apply tsf_error_consec; left; reflexivity).
  destruct (step_free_obs c p (init_state Rops) i (i_x i) 0 Hfree Hrun Herr Hp) as (Hobs & Hx' & Hts' & _ & _).
  destruct (doc_step c p (i_x i) 0 (i_x i) (i_fb i / IZR (c_tsf c)) (i_rnd i)) as [x' v'] eqn:Hd.
  cbn [fst snd] in Hobs, Hx'. rewrite Hobs. f_equal.
  assert (Hv : s_v_ext (step Rops c p (init_state Rops) i) = v').
  { unfold obs in Hobs. inversion Hobs. reflexivity. }
  rewrite <- Hv. apply (trace_consecutive_from c p Hfree Htsf r _ x' (0 + c_tsf c)%Z); auto; lia.
Qed.

(* ------------------------------------------------------------------ no friction: exact discrete invariant *)
(* frozen variable X and constant bias force F0 on the extended coordinate (after division by the factor) *)
Definition frozen (c : @config R) (X F0 : R) (l : list (@input R)) : Prop :=
  List.Forall (fun i => i_x i = X /\ i_fb i / IZR (c_tsf c) = F0) l.

(* h = k Dt^2 / (4 m);  shadow energy of (x_t, v_(t-1/2)):
     1/2 m vbar^2 + 1/2 k (1 - h) (x - X - F0/k)^2,   vbar = v_(t-1/2) + Dt F_t / (2m)  (the on-step velocity) *)
Definition hfac (c : @config R) (p : @params R) : R := p_k p * Dt c ^ 2 / (4 * p_m p).
Definition shadow (c : @config R) (p : @params R) (X F0 x v : R) : R :=
  1 / 2 * p_m p * (v + Dt c * doc_force p x X F0 / p_m p / 2) ^ 2
  + 1 / 2 * p_k p * (1 - hfac c p) * (x - X - F0 / p_k p) ^ 2.

Lemma shadow_step c p X F0 x v rnd :
  p_langevin p = false -> p_m p <> 0 -> p_k p <> 0 ->
  let '(x', v') := doc_step c p x v X F0 rnd in shadow c p X F0 x' v' = shadow c p X F0 x v.
Proof.
  intros Hl Hm Hk. unfold doc_step. rewrite Hl. unfold shadow, hfac, doc_force. field. split; assumption.
Qed.

Definition ob_x (o : R * R * R * R * R * R) : R := let '(x, _, _, _, _, _) := o in x.
Definition ob_v (o : R * R * R * R * R * R) : R := let '(_, v, _, _, _, _) := o in v.
Definition ob_ek (o : R * R * R * R * R * R) : R := let '(_, _, _, _, ek, _) := o in ek.
Definition ob_ep (o : R * R * R * R * R * R) : R := let '(_, _, _, _, _, ep) := o in ep.

Lemma doc_run_shadow c p X F0 :
  p_langevin p = false -> p_m p <> 0 -> p_k p <> 0 ->
  forall l x v, frozen c X F0 l ->
    List.Forall (fun o => shadow c p X F0 (ob_x o) (ob_v o) = shadow c p X F0 x v) (doc_run c p x v l).
Proof.
  intros Hl Hm Hk. induction l as [| i r IH]; intros x v Hf; [constructor | ].
  inversion Hf as [| i' r' [HX HF] Hr]; subst i' r'. cbn [doc_run]. rewrite HX, HF.
  pose proof (shadow_step c p X F0 x v (i_rnd i) Hl Hm Hk) as Hs.
  destruct (doc_step c p x v X F0 (i_rnd i)) as [x' v'].
  constructor; [reflexivity | ]. rewrite <- Hs. apply IH. exact Hr.
Qed.

Lemma Forall_map_iff {A B} (f : A -> B) (P : B -> Prop) l : List.Forall P (map f l) <-> List.Forall (fun a => P (f a)) l.
Proof. induction l as [| a l IH]; cbn; split; intros H; try constructor; inversion H; subst; try tauto; constructor; tauto. Qed.

(* for EVERY length of the run, every state of a fresh uninterrupted frictionless run with frozen atoms and a
   constant bias force has the same shadow energy as the initial condition (x_0 = X, v = 0) *)
Lemma shadow_conserved c p X F0 l :
  free_cfg c -> (0 < c_tsf c)%Z -> p_langevin p = false -> p_m p <> 0 -> p_k p <> 0 ->
  consecutive (c_tsf c) 0 l -> frozen c X F0 l ->
  List.Forall (fun s => shadow c p X F0 (s_x_rep s) (s_v_rep s) = shadow c p X F0 X 0)
         (trace Rops c p (init_state Rops) l).
Proof.
  intros Hfree Htsf Hl Hm Hk Hc Hf.
  pose proof (trace_fresh_documented c p l Hfree Htsf Hc) as Ht.
  pose proof (doc_run_shadow c p X F0 Hl Hm Hk l (match l with i :: _ => i_x i | [] => 0 end) 0 Hf) as Hd.
  rewrite <- Ht in Hd. apply Forall_map_iff in Hd.
  assert (HX : forall s, shadow c p X F0 (ob_x (obs s)) (ob_v (obs s)) = shadow c p X F0 (s_x_rep s) (s_v_rep s)) by reflexivity.
  destruct l as [| i r]; [constructor | ].
  inversion Hf as [| i' r' [HiX _] _]; subst i' r'. rewrite HiX in Hd.
  eapply Forall_impl; [ | exact Hd]. intros s Hs. rewrite <- HX. exact Hs.
Qed.

(* with no bias force the shadow energy is Ek + (1 - h) Ep of the REPORTED energies, so
   Ek + Ep - shadow = h Ep = Dt^2 k^2/(8m) (x - X)^2   and   shadow <= Ek + Ep <= shadow / (1 - h) *)
Lemma doc_run_energies c p X :
  forall l x v, frozen c X 0 l ->
    List.Forall (fun o => ob_ek o + (1 - hfac c p) * ob_ep o = shadow c p X 0 (ob_x o) (ob_v o) /\
                     ob_ep o = 1 / 2 * p_k p * (ob_x o - X) ^ 2 /\
                     ob_ek o = 1 / 2 * p_m p * (ob_v o + Dt c * doc_force p (ob_x o) X 0 / p_m p / 2) ^ 2)
           (doc_run c p x v l).
Proof.
  induction l as [| i r IH]; intros x v Hf; [constructor | ].
  inversion Hf as [| i' r' [HX HF] Hr]; subst i' r'. cbn [doc_run]. rewrite HX, HF.
  destruct (doc_step c p x v X 0 (i_rnd i)) as [x' v'].
  constructor; [ | apply IH; exact Hr].
  cbn [ob_ek ob_ep ob_x ob_v]. unfold shadow, doc_ekin, doc_epot. repeat split.
  unfold Rdiv. ring.
Qed.

Lemma energy_no_drift c p X l :
  free_cfg c -> (0 < c_tsf c)%Z -> p_langevin p = false -> 0 < p_m p -> 0 < p_k p -> hfac c p < 1 ->
  consecutive (c_tsf c) 0 l -> frozen c X 0 l ->
  let I0 := shadow c p X 0 X 0 in
  List.Forall (fun s => s_ekin s + (1 - hfac c p) * s_epot s = I0 /\
                   s_ekin s + s_epot s - I0 = Dt c ^ 2 * p_k p ^ 2 / (8 * p_m p) * (s_x_rep s - X) ^ 2 /\
                   I0 <= s_ekin s + s_epot s <= I0 / (1 - hfac c p))
         (trace Rops c p (init_state Rops) l).
Proof.
  intros Hfree Htsf Hl Hm Hk Hh Hc Hf I0.
  pose proof (shadow_conserved c p X 0 l Hfree Htsf Hl (Rgt_not_eq _ _ Hm) (Rgt_not_eq _ _ Hk) Hc Hf) as Hs.
  pose proof (trace_fresh_documented c p l Hfree Htsf Hc) as Ht.
  pose proof (doc_run_energies c p X l (match l with i :: _ => i_x i | [] => 0 end) 0 Hf) as Hd.
  rewrite <- Ht in Hd. apply Forall_map_iff in Hd.
  rewrite Forall_forall in *. intros s Hin. specialize (Hs s Hin). specialize (Hd s Hin).
  destruct Hd as (H1 & H2 & H3).
  change (ob_ek (obs s)) with (s_ekin s) in *. change (ob_ep (obs s)) with (s_epot s) in *.
  change (ob_x (obs s)) with (s_x_rep s) in *. change (ob_v (obs s)) with (s_v_rep s) in *.
  rewrite Hs in H1. fold I0 in H1.
  assert (Hep : 0 <= s_epot s) by (rewrite H2; assert (0 <= (s_x_rep s - X) ^ 2) by (apply pow2_ge_0); nra).
  assert (Hek : 0 <= s_ekin s) by (rewrite H3; assert (0 <= (s_v_rep s + Dt c * doc_force p (s_x_rep s) X 0 / p_m p / 2) ^ 2) by (apply pow2_ge_0); nra).
  assert (Hh0 : 0 <= hfac c p).
  { unfold hfac. apply Rmult_le_pos; [ | left; apply Rinv_0_lt_compat; lra].
    apply Rmult_le_pos; [lra | apply pow2_ge_0]. }
  split; [exact H1 | ]. split.
  - replace (s_ekin s + s_epot s - I0) with (hfac c p * s_epot s) by lra. rewrite H2. unfold hfac. field. lra.
  - split; [nra | ].
    apply Rmult_le_reg_r with (r := 1 - hfac c p); [lra | ].
    replace (I0 / (1 - hfac c p) * (1 - hfac c p)) with I0 by (field; lra). nra.
Qed.

(* with the documented parameters h = (pi Dt / tau)^2 *)
Lemma hfac_documented c :
  0 < c_kB c * c_temp c -> 0 < c_tol c -> 0 < c_tau c ->
  hfac c (init_params Rops PI c) = (PI * Dt c / c_tau c) ^ 2.
Proof.
  intros HkT Htol Htau. destruct (init_params_k_m c) as [Hk Hm]. unfold hfac. rewrite Hk, Hm.
  pose proof PI_RGT_0.
  assert (c_kB c <> 0) by (intros Z; rewrite Z in HkT; lra).
  assert (c_temp c <> 0) by (intros Z; rewrite Z in HkT; lra).
  field. repeat split; (assumption || lra).
Qed.

(* the frictionless one-step map preserves phase-space area (determinant of its linear part = 1), for any
   value of the variable and any bias force *)
Lemma doc_step_area c p X fb rnd x0 v0 x1 v1 x2 v2 :
  p_langevin p = false ->
  let q0 := doc_step c p x0 v0 X fb rnd in let q1 := doc_step c p x1 v1 X fb rnd in let q2 := doc_step c p x2 v2 X fb rnd in
  (fst q1 - fst q0) * (snd q2 - snd q0) - (fst q2 - fst q0) * (snd q1 - snd q0)
  = (x1 - x0) * (v2 - v0) - (x2 - x0) * (v1 - v0).
Proof.
  intros Hl. unfold doc_step. rewrite Hl. cbn [fst snd]. unfold doc_force, Rdiv.
  generalize (/ p_m p). intro q. field.
Qed.

(* ------------------------------------------------------------------ reflecting boundaries *)
Ltac rltb_cases :=
  repeat match goal with
         | |- context [Rltb ?a ?b] => let E := fresh "E" in destruct (Rltb a b) eqn:E; [apply Rltb_true in E | apply Rltb_false in E]
         | H : context [Rltb ?a ?b] |- _ => let E := fresh "E" in destruct (Rltb a b) eqn:E; [apply Rltb_true in E | apply Rltb_false in E]
         end.

Lemma reflect_inside (c : @config R) pv x v :
  snd (reflect Rops c pv x v) = false -> inside c (fst (fst (reflect Rops c pv x v))).
Proof.
  unfold reflect, inside. cbn [nltb nsub nmul nofZ n0 Rops].
  destruct (c_refl_lo c), (c_refl_up c); cbn [andb orb]; rltb_cases; cbn [andb orb fst snd];
    intros H; try discriminate H; split; intros; try discriminate; lra.
Qed.

(* a single reflection suffices unless the overshoot is larger than the interval; one-sided boundaries never fail *)
Lemma reflect_no_error (c : @config R) pv x v :
  (c_refl_lo c = true -> c_refl_up c = true -> 2 * c_lower c - c_upper c <= x <= 2 * c_upper c - c_lower c) ->
  snd (reflect Rops c pv x v) = false.
Proof.
  unfold reflect. cbn [nltb nsub nmul nofZ n0 Rops].
  destruct (c_refl_lo c), (c_refl_up c); cbn [andb orb]; intros H; rltb_cases; cbn [andb orb fst snd];
    try reflexivity; try (specialize (H eq_refl eq_refl)); lra.
Qed.

(* ... and it does fail beyond that: the coordinate is left outside and the error is raised *)
Lemma reflect_error_beyond (c : @config R) pv x v :
  c_refl_lo c = true -> c_refl_up c = true -> c_lower c <= c_upper c ->
  (x < 2 * c_lower c - c_upper c \/ 2 * c_upper c - c_lower c < x) ->
  snd (reflect Rops c pv x v) = true /\ ~ inside c (fst (fst (reflect Rops c pv x v))).
Proof.
  intros Hlo Hup Hle Hx. unfold reflect, inside. cbn [nltb nsub nmul nofZ n0 Rops]. rewrite Hlo, Hup. cbn [andb orb].
  rltb_cases; cbn [andb orb fst snd]; try lra; (split; [reflexivity | intros [H1 H2]; specialize (H1 eq_refl); specialize (H2 eq_refl); lra]).
Qed.

Definition wrap_ok (c : @config R) : Prop :=
  match c_period c with
  | None => True
  | Some (P, ctr) => 0 < P /\ c_refl_lo c = true /\ c_refl_up c = true /\ ctr - P / 2 <= c_lower c /\ c_upper c < ctr + P / 2
  end.

Lemma wrap_inside c x : wrap_ok c -> inside c x -> cv_wrap Rops c x = x.
Proof.
  unfold wrap_ok, cv_wrap. destruct (c_period c) as [[P ctr] | ]; [ | reflexivity].
  intros (HP & Hlo & Hup & H1 & H2) [I1 I2]. specialize (I1 Hlo). specialize (I2 Hup).
  apply cvc_wrap_idem; lra.
Qed.

Lemma integrate_inside c p xe ve F rnd :
  wrap_ok c -> snd (integrate Rops c p xe ve F rnd) = false ->
  inside c (fst (fst (fst (integrate Rops c p xe ve F rnd)))).
Proof.
  intros Hw. unfold integrate.
  match goal with |- context [reflect Rops c ve ?x ?v] => pose proof (reflect_inside c ve x v) as Hr; destruct (reflect Rops c ve x v) as [[x3 v4] er] end.
  cbn [fst snd] in *. intros He. specialize (Hr He). rewrite wrap_inside; assumption.
Qed.

(* invariant of a run in which no error has been raised *)
Definition okst (c : @config R) (s : @state R) : Prop :=
  (forall x, s_x_ext s = Some x -> inside c x) /\ ((0 <= s_prev_ts s)%Z -> inside c (s_prev_x s)).

Lemma props_inside c s i :
  c_lower c <= c_upper c -> okst c s -> i_running i = true -> (0 <= i_step i)%Z ->
  inside c (fst (props_xv Rops c s i)).
Proof.
  intros Hle [Hx Hp] Hrun Hst.
  destruct (Z.eq_dec (i_step i) (s_prev_ts s)) as [He | Hne].
  - rewrite props_repeat by assumption.
    destruct (Rltb _ _); cbn [fst]; [apply clamp_inside; exact Hle | apply Hp; lia].
  - unfold props_xv. rewrite Hrun. cbn [negb andb]. rewrite orb_false_r.
    apply Z.eqb_neq in Hne. rewrite Hne.
    destruct (s_x_ext s) as [x | ] eqn:Ex.
    + rewrite orb_false_r. destruct (Z.eqb (i_step i) 0 && negb (s_after_restart s)); cbn [fst].
      * apply clamp_inside; exact Hle.
      * unfold xext_or. rewrite Ex. apply Hx. reflexivity.
    + rewrite orb_true_r. cbn [fst]. apply clamp_inside; exact Hle.
Qed.

Lemma step_inside c p s i :
  c_lower c <= c_upper c -> wrap_ok c -> okst c s -> i_running i = true -> (0 <= i_step i)%Z ->
  let s' := step Rops c p s i in
  inside c (s_x_rep s') /\ (s_err s' = false -> okst c s').
Proof.
  intros Hle Hw Hok Hrun Hst s'.
  pose proof (props_inside c s i Hle Hok Hrun Hst) as Hin.
  destruct (tsf_error c s i) eqn:Herr.
  - unfold s', step. destruct (props_xv Rops c s i) as [xe ve]. rewrite Hrun, Herr. cbn [negb fst] in *.
    cbn [s_x_rep s_err]. split; [exact Hin | discriminate].
  - unfold s'. rewrite (step_running_eq c p s i Hrun Herr). cbn zeta. cbn [s_x_rep s_err].
    split; [exact Hin | ]. intros He. unfold okst. cbn [s_x_ext s_prev_ts s_prev_x]. split.
    + intros x Hx. inversion Hx; subst x. apply integrate_inside; assumption.
    + intros _. exact Hin.
Qed.

Lemma trace_inside c p :
  c_lower c <= c_upper c -> wrap_ok c ->
  forall l s, okst c s -> List.Forall (fun i => i_running i = true /\ (0 <= i_step i)%Z) l ->
    List.Forall (fun s' => s_err s' = false) (trace Rops c p s l) ->
    List.Forall (fun s' => inside c (s_x_rep s') /\ forall x, s_x_ext s' = Some x -> inside c x) (trace Rops c p s l).
Proof.
  intros Hle Hw. induction l as [| i r IH]; intros s Hok Hl He; [constructor | ].
  inversion Hl as [| i' r' [Hrun Hst] Hr]; subst i' r'. cbn [trace] in *.
  inversion He as [| s1 r1 He1 Her]; subst s1 r1.
  destruct (step_inside c p s i Hle Hw Hok Hrun Hst) as [Hin Hok'].
  specialize (Hok' He1). constructor; [split; [exact Hin | exact (proj1 Hok')] | ].
  apply IH; assumption.
Qed.

Lemma okst_init c : okst c (init_state Rops).
Proof. split; [intros x H; discriminate H | cbn; lia]. Qed.

Lemma okst_restart c x v : inside c x -> okst c (restart_state Rops x v).
Proof. intros Hin. split; [intros y H; inversion H; subst; exact Hin | cbn; lia]. Qed.

(* the error cannot be raised when the step is shorter than the interval *)
Definition arrival (c : @config R) (p : @params R) (xe ve F rnd : R) : R :=      (* position before reflection *)
  let v2 := ve + Dt c * F / p_m p in
  let v3 := if p_langevin p then exp (- (p_gamma p * Dt c)) * v2 + p_sigma p * rnd / p_m p else v2 in
  xe + Dt c * (v2 + v3) / 2.

Lemma integrate_no_error c p xe ve F rnd :
  inside c xe ->
  (c_refl_lo c = true -> c_refl_up c = true ->
     - (c_upper c - c_lower c) <= arrival c p xe ve F rnd - xe <= c_upper c - c_lower c) ->
  snd (integrate Rops c p xe ve F rnd) = false.
Proof.
  intros [I1 I2] Hd. unfold integrate.
  match goal with |- context [reflect Rops c ve ?x ?v] =>
    assert (Hx : x = arrival c p xe ve F rnd);
      [ | pose proof (reflect_no_error c ve x v) as Hr; destruct (reflect Rops c ve x v) as [[x3 v4] er] ] end.
  { unfold arrival. rewrite big_dt_R. cbn [nadd nsub nmul ndiv nneg nexp Rops n1 n0 nofZ nhalf].
    replace (- (1) * Dt c * p_gamma p) with (- (p_gamma p * Dt c)) by ring.
    destruct (p_langevin p); unfold Rdiv; generalize (/ p_m p); intro q;
      try (generalize (exp (- (p_gamma p * Dt c))); intro ex); field. }
  cbn [fst snd] in *. apply Hr. intros Hlo Hup. specialize (Hd Hlo Hup). specialize (I1 Hlo). specialize (I2 Hup).
  rewrite Hx. lra.
Qed.

(* ------------------------------------------------------------------ force routing *)
Lemma routing_running c p s i :
  i_running i = true -> tsf_error c s i = false ->
  let xe := fst (props_xv Rops c s i) in
  let s' := step Rops c p s i in
  s_f s' = IZR (c_tsf c) * (- f_spring c p xe (i_x i)) + i_fba i /\
  s_fr s' = i_fb i / IZR (c_tsf c) /\
  s_x_rep s' = xe /\
  s_epot s' = 1 / 2 * p_k p * cv_dist2 Rops c xe (i_x i).
Proof.
  intros Hrun Herr xe s'. unfold s'. rewrite (step_running_eq c p s i Hrun Herr). cbn zeta.
  cbn [s_f s_fr s_x_rep s_epot]. fold xe. repeat split. ring.
Qed.

(* the spring force on the atoms is minus the derivative of the coupling energy with respect to the variable *)
Lemma spring_is_gradient c p xe x :
  c_period c = None ->
  is_derive (fun X => 1 / 2 * p_k p * cv_dist2 Rops c xe X) x (f_spring c p xe x).
Proof.
  intros Hper. rewrite (f_spring_free c p xe x Hper).
  apply is_derive_ext with (f := fun X => 1 / 2 * p_k p * (xe - X) ^ 2).
  - intros t. rewrite (dist2_free c xe t Hper). reflexivity.
  - auto_derive; [exact I | field].
Qed.

Lemma routing_not_running c p s i :
  i_running i = false ->
  let s' := step Rops c p s i in
  s_f s' = i_fb i + i_fba i /\ s_fr s' = 0 /\ s_x_ext s' = Some (clamp_init Rops c (i_x i)) /\ s_v_ext s' = 0 /\
  s_x_rep s' = clamp_init Rops c (i_x i).
Proof. intros Hrun s'. unfold s'. rewrite (step_not_running_eq c p s i Hrun). cbn. repeat split. Qed.

(* ------------------------------------------------------------------ repeated step at a run boundary *)
Lemma cv_dist2_self c x : cv_dist2 Rops c x x = 0.
Proof.
  unfold cv_dist2. destruct (c_period c) as [[P ctr] | ].
  - unfold per_dist2. cbn zeta. rewrite pdiff_eq. cbn [nsub Rops].
    replace (x - x) with 0 by ring. replace (0 / P + 1 / 2) with (/ 2) by (unfold Rdiv; ring).
    replace (Zfloor (/ 2)) with 0%Z; [cbn [nmul Rops]; ring | ].
    symmetry. apply Zfloor_imp. cbn. lra.
  - unfold sc_dist2. cbn [nmul nsub Rops]. ring.
Qed.

Definition no_jump (c : @config R) (x xold : R) : Prop :=
  Rltb (1 / 4) (cv_dist2 Rops c x xold / (c_width c * c_width c)) = false.

Lemma no_jump_self c x : no_jump c x x.
Proof. unfold no_jump. rewrite cv_dist2_self. apply Rltb_false. unfold Rdiv. rewrite Rmult_0_l. lra. Qed.

Lemma repeat_start c p s i i' :
  i_running i = true -> i_running i' = true -> tsf_error c s i = false ->
  i_step i' = i_step i -> no_jump c (i_x i') (i_x i) ->
  props_xv Rops c (step Rops c p s i) i' = props_xv Rops c s i /\
  tsf_error c (step Rops c p s i) i' = false.
Proof.
  intros Hrun Hrun' Herr Hst Hnj. split.
  - rewrite props_repeat; [ | exact Hrun' | rewrite (step_running_eq c p s i Hrun Herr); cbn; exact Hst ].
    rewrite (step_running_eq c p s i Hrun Herr). cbn zeta. cbn [s_x_old s_prev_x s_prev_v].
    unfold no_jump in Hnj. rewrite Hnj. destruct (props_xv Rops c s i); reflexivity.
  - apply tsf_error_consec. right; right. rewrite (step_running_eq c p s i Hrun Herr). cbn. exact Hst.
Qed.

(* the second execution replaces the first: same starting point, so the coordinate is advanced once *)
Lemma repeat_replaces c p s i i' :
  i_running i = true -> i_running i' = true -> tsf_error c s i = false ->
  i_step i' = i_step i -> no_jump c (i_x i') (i_x i) ->
  let s1 := step Rops c p s i in let s2 := step Rops c p s1 i' in
  s_x_rep s2 = s_x_rep s1 /\ s_v_rep s2 = s_v_rep s1 /\
  (i_x i' = i_x i -> i_fb i' = i_fb i -> i_fba i' = i_fba i -> i_rnd i' = i_rnd i -> s2 = s1).
Proof.
  intros Hrun Hrun' Herr Hst Hnj s1 s2.
  destruct (repeat_start c p s i i' Hrun Hrun' Herr Hst Hnj) as [Hp Herr'].
  unfold s2. rewrite (step_running_eq c p s1 i' Hrun' Herr'). fold s1 in Hp. rewrite Hp. cbn zeta.
  unfold s1. rewrite (step_running_eq c p s i Hrun Herr). cbn zeta. cbn [s_x_rep s_v_rep].
  split; [reflexivity | split; [reflexivity | ]].
  intros Hx Hfb Hfba Hrnd. rewrite Hx, Hfb, Hfba, Hrnd, Hst. reflexivity.
Qed.

Lemma repeat_idempotent c p s i :
  i_running i = true -> tsf_error c s i = false ->
  step Rops c p (step Rops c p s i) i = step Rops c p s i.
Proof.
  intros Hrun Herr. apply (repeat_replaces c p s i i Hrun Hrun Herr eq_refl (no_jump_self c (i_x i))); reflexivity.
Qed.

Lemma repeat_n_times c p s i n :
  i_running i = true -> tsf_error c s i = false ->
  run Rops c p s (i :: repeat i n) = step Rops c p s i.
Proof.
  intros Hrun Herr. induction n as [| n IH]; [reflexivity | ].
  cbn [repeat]. unfold run in *. cbn [fold_left] in *. rewrite (repeat_idempotent c p s i Hrun Herr). exact IH.
Qed.

(* ------------------------------------------------------------------ reported total force *)
(* engines with same-step total forces: the system (spring) force of the current step [fix-C17-2] *)
Lemma ft_same_step c p s i :
  c_same_step c = true ->
  s_ft_rep (step Rops c p s i) = f_spring c p (fst (props_xv Rops c s i)) (i_x i).
Proof.
  intros Hs. unfold step, f_spring. destruct (props_xv Rops c s i) as [xe ve]. cbn [fst].
  destruct (negb (i_running i)); [cbn [s_ft_rep]; unfold ft_props; rewrite Hs; reflexivity | ].
  destruct (tsf_error c s i); [cbn [s_ft_rep]; unfold ft_props; rewrite Hs; reflexivity | ].
  destruct (ext_forces Rops c p xe i) as [[fr fs] fe]. destruct (integrate Rops c p xe ve fe (i_rnd i)) as [[[xn vn] ek] er].
  cbn [s_ft_rep]. unfold ft_props. rewrite Hs. reflexivity.
Qed.

Lemma ft_lagged c p s i :
  c_same_step c = false -> i_running i = true -> tsf_error c s i = false ->
  let xe := fst (props_xv Rops c s i) in
  s_ft_rep (step Rops c p s i) =
    if c_subtract c then f_spring c p xe (i_x i) else i_fb i / IZR (c_tsf c) + f_spring c p xe (i_x i).
Proof.
  intros Hs Hrun Herr xe. rewrite (step_running_eq c p s i Hrun Herr). cbn zeta. cbn [s_ft_rep]. rewrite Hs. reflexivity.
Qed.

(* ------------------------------------------------------------------ resume from a saved state *)
Definition shift_state (d : Z) (s : @state R) : @state R :=
  mkState (s_x_ext s) (s_v_ext s) (s_prev_x s) (s_prev_v s) (s_prev_ts s - d)%Z (s_x_old s) (s_after_restart s)
          (s_ekin s) (s_epot s) (s_ft_rep s) (s_fr s) (s_f s) (s_x_rep s) (s_v_rep s) (s_err s).
Definition shift_input (d : Z) (i : @input R) : @input R :=
  mkInput (i_step i - d)%Z (i_x i) (i_fb i) (i_fba i) (i_rnd i) (i_running i).

Lemma step_shift c p d s i :
  s_after_restart s = false -> s_x_ext s <> None -> (0 <= d <= s_prev_ts s)%Z ->
  i_running i = true -> (d < i_step i)%Z ->
  step Rops c p (shift_state d s) (shift_input d i) = shift_state d (step Rops c p s i).
Proof.
  intros Har Hx Hd Hrun Hst.
  assert (E1 : Z.eqb (i_step i - d) 0 = false) by (apply Z.eqb_neq; lia).
  assert (E2 : Z.eqb (i_step i) 0 = false) by (apply Z.eqb_neq; lia).
  assert (E3 : Z.eqb (i_step i - d) (s_prev_ts s - d) = Z.eqb (i_step i) (s_prev_ts s)).
  { destruct (Z.eqb_spec (i_step i) (s_prev_ts s)) as [E | E]; [apply Z.eqb_eq; lia | apply Z.eqb_neq; lia]. }
  assert (Hp : props_xv Rops c (shift_state d s) (shift_input d i) = props_xv Rops c s i).
  { unfold props_xv, xext_or. cbn [shift_state shift_input i_step i_x i_running s_after_restart s_x_ext s_v_ext s_prev_ts s_x_old s_prev_x s_prev_v].
    rewrite E1, E2, E3. reflexivity. }
  assert (Ht : tsf_error c (shift_state d s) (shift_input d i) = tsf_error c s i).
  { unfold tsf_error. cbn [shift_state shift_input i_step s_prev_ts].
    replace (i_step i - d - (s_prev_ts s - d))%Z with (i_step i - s_prev_ts s)%Z by lia.
    replace (Z.ltb (-1) (s_prev_ts s - d)) with true by (symmetry; apply Z.ltb_lt; lia).
    replace (Z.ltb (-1) (s_prev_ts s)) with true by (symmetry; apply Z.ltb_lt; lia). reflexivity. }
  unfold step. rewrite Hp, Ht. destruct (props_xv Rops c s i) as [xe ve].
  cbn [shift_input i_running i_step i_x i_fb i_fba i_rnd]. rewrite Hrun. cbn [negb].
  destruct (tsf_error c s i); [reflexivity | ].
  unfold ext_forces. cbn [i_fb i_x].
  destruct (integrate Rops c p xe ve _ (i_rnd i)) as [[[xn vn] ek] er]. reflexivity.
Qed.

Lemma trace_shift c p d :
  forall l s, s_after_restart s = false -> s_x_ext s <> None -> (0 <= d <= s_prev_ts s)%Z ->
    List.Forall (fun i => i_running i = true /\ (d < i_step i)%Z) l ->
    trace Rops c p (shift_state d s) (map (shift_input d) l) = map (shift_state d) (trace Rops c p s l).
Proof.
  induction l as [| i r IH]; intros s Har Hx Hd Hl; [reflexivity | ].
  inversion Hl as [| i' r' [Hrun Hst] Hr]; subst i' r'. cbn [map trace].
  rewrite (step_shift c p d s i Har Hx Hd Hrun Hst). f_equal.
  apply IH; try assumption.
  - unfold step. destruct (props_xv Rops c s i) as [xe ve]. rewrite Hrun. cbn [negb].
    destruct (tsf_error c s i); [reflexivity | ].
    destruct (ext_forces Rops c p xe i) as [[fr fs] fe]. destruct (integrate Rops c p xe ve fe (i_rnd i)) as [[[xn vn] ek] er]. reflexivity.
  - unfold step. destruct (props_xv Rops c s i) as [xe ve]. rewrite Hrun. cbn [negb].
    destruct (tsf_error c s i); [discriminate | ].
    destruct (ext_forces Rops c p xe i) as [[fr fs] fe]. destruct (integrate Rops c p xe ve fe (i_rnd i)) as [[[xn vn] ek] er]. discriminate.
  - assert (s_prev_ts (step Rops c p s i) = i_step i).
    { unfold step. destruct (props_xv Rops c s i) as [xe ve]. rewrite Hrun. cbn [negb].
      destruct (tsf_error c s i); [reflexivity | ].
      destruct (ext_forces Rops c p xe i) as [[fr fs] fe]. destruct (integrate Rops c p xe ve fe (i_rnd i)) as [[[xn vn] ek] er]. reflexivity. }
    lia.
Qed.

(* the state is saved after step t (extended_x/extended_v = what was REPORTED at t); a new process loads it and executes
   step t again (relative step 0): it lands exactly where the first process was after step t *)
Lemma resume_first c p s i :
  i_running i = true -> tsf_error c s i = false -> (0 <= i_step i)%Z ->
  let s1 := step Rops c p s i in
  step Rops c p (restart_state Rops (s_x_rep s1) (s_v_rep s1)) (shift_input (i_step i) i) = shift_state (i_step i) s1.
Proof.
  intros Hrun Herr Hst s1.
  assert (Hx : s_x_rep s1 = fst (props_xv Rops c s i) /\ s_v_rep s1 = snd (props_xv Rops c s i)).
  { unfold s1. rewrite (step_running_eq c p s i Hrun Herr). cbn. split; reflexivity. }
  destruct Hx as [Hx Hv]. set (r0 := restart_state Rops (s_x_rep s1) (s_v_rep s1)). set (i0 := shift_input (i_step i) i).
  assert (Hrun0 : i_running i0 = true) by exact Hrun.
  assert (Hp0 : props_xv Rops c r0 i0 = props_xv Rops c s i).
  { unfold r0, i0. rewrite (props_continue c _ _ (s_x_rep s1)).
    - cbn [restart_state s_v_ext]. rewrite Hx, Hv. destruct (props_xv Rops c s i); reflexivity.
    - exact Hrun.
    - cbn. lia.
    - reflexivity.
    - right. reflexivity. }
  assert (Herr0 : tsf_error c r0 i0 = false) by (apply tsf_error_consec; left; reflexivity).
  rewrite (step_running_eq c p r0 i0 Hrun0 Herr0). rewrite Hp0.
  unfold s1. rewrite (step_running_eq c p s i Hrun Herr). cbn zeta.
  unfold shift_state, i0, shift_input. cbn [s_x_ext s_v_ext s_prev_x s_prev_v s_prev_ts s_x_old s_after_restart s_ekin s_epot s_ft_rep s_fr s_f s_x_rep s_v_rep s_err i_step i_x i_fb i_fba i_rnd].
  reflexivity.
Qed.

Lemma resume_trace c p s i l :
  i_running i = true -> tsf_error c s i = false -> (0 <= i_step i)%Z ->
  List.Forall (fun j => i_running j = true /\ (i_step i < i_step j)%Z) l ->
  let s1 := step Rops c p s i in
  trace Rops c p (restart_state Rops (s_x_rep s1) (s_v_rep s1)) (map (shift_input (i_step i)) (i :: l))
  = map (shift_state (i_step i)) (trace Rops c p s (i :: l)).
Proof.
  intros Hrun Herr Hst Hl s1. cbn [map trace]. fold s1.
  pose proof (resume_first c p s i Hrun Herr Hst) as H0. cbn zeta in H0. fold s1 in H0. rewrite H0. f_equal.
  assert (Hs1 : s_after_restart s1 = false /\ s_x_ext s1 <> None /\ s_prev_ts s1 = i_step i).
  { unfold s1. rewrite (step_running_eq c p s i Hrun Herr). cbn. repeat split. discriminate. }
  destruct Hs1 as (H1 & H2 & H3). apply trace_shift; try assumption. lia.
Qed.

(* ------------------------------------------------------------------ statements as used in Properties_C17.v *)
Lemma doc_step_leapfrog c p x v X fb rnd :
  p_langevin p = false ->
  let v' := v + Dt c * (fb - p_k p * (x - X)) / p_m p in
  doc_step c p x v X fb rnd = (x + Dt c * v', v').
Proof.
  intros Hl v'. unfold doc_step, doc_force. rewrite Hl. fold v'. f_equal. field.
Qed.

Lemma doc_step_langevin c p x v X fb rnd :
  p_langevin p = true ->
  let vh := v + Dt c * (fb - p_k p * (x - X)) / p_m p in
  let v' := exp (- (p_gamma p * Dt c)) * vh + p_sigma p * rnd / p_m p in
  doc_step c p x v X fb rnd = (x + Dt c / 2 * vh + Dt c / 2 * v', v').
Proof.
  intros Hl vh v'. unfold doc_step, doc_force. rewrite Hl. fold vh. fold v'. f_equal. field.
Qed.

Definition running_nonneg (l : list (@input R)) : Prop :=
  List.Forall (fun i => i_running i = true /\ (0 <= i_step i)%Z) l.

Lemma trace_inside_fresh c p l :
  c_lower c <= c_upper c -> wrap_ok c -> running_nonneg l ->
  List.Forall (fun s' => s_err s' = false) (trace Rops c p (init_state Rops) l) ->
  List.Forall (fun s' => inside c (s_x_rep s') /\ forall x, s_x_ext s' = Some x -> inside c x)
              (trace Rops c p (init_state Rops) l).
Proof. intros Hle Hw Hl He. apply trace_inside; auto. apply okst_init. Qed.

Lemma trace_inside_restart c p x v l :
  c_lower c <= c_upper c -> wrap_ok c -> inside c x -> running_nonneg l ->
  List.Forall (fun s' => s_err s' = false) (trace Rops c p (restart_state Rops x v) l) ->
  List.Forall (fun s' => inside c (s_x_rep s') /\ forall x, s_x_ext s' = Some x -> inside c x)
              (trace Rops c p (restart_state Rops x v) l).
Proof. intros Hle Hw Hin Hl He. apply trace_inside; auto. apply okst_restart. exact Hin. Qed.

(* the reported coordinate is inside even at the step that raises the error (first error of a run) *)
Lemma first_error_reported_inside c p l i :
  c_lower c <= c_upper c -> wrap_ok c -> running_nonneg (l ++ [i]) ->
  List.Forall (fun s' => s_err s' = false) (trace Rops c p (init_state Rops) l) ->
  inside c (s_x_rep (run Rops c p (init_state Rops) (l ++ [i]))).
Proof.
  intros Hle Hw Hl He.
  assert (G : forall l s, okst c s -> running_nonneg (l ++ [i]) ->
              List.Forall (fun s' => s_err s' = false) (trace Rops c p s l) ->
              inside c (s_x_rep (run Rops c p s (l ++ [i])))).
  { clear l Hl He. induction l as [| j r IH]; intros s Hok Hl He.
    - unfold running_nonneg in Hl. cbn [app] in Hl. destruct (Forall_inv Hl) as [Hrun Hst]. unfold run. cbn [app fold_left].
      apply (proj1 (step_inside c p s i Hle Hw Hok Hrun Hst)).
    - unfold running_nonneg in Hl. cbn [app] in Hl. destruct (Forall_inv Hl) as [Hrun Hst]. pose proof (Forall_inv_tail Hl) as Hr.
      cbn [trace] in He. pose proof (Forall_inv He) as He1. pose proof (Forall_inv_tail He) as Her.
      unfold run. cbn [app fold_left]. apply IH; auto.
      apply (proj2 (step_inside c p s j Hle Hw Hok Hrun Hst)). exact He1. }
  apply G; auto. apply okst_init.
Qed.

Lemma step_no_error c p s i :
  i_running i = true -> tsf_error c s i = false ->
  let xe := fst (props_xv Rops c s i) in let ve := snd (props_xv Rops c s i) in
  let F := i_fb i / IZR (c_tsf c) + f_spring c p xe (i_x i) in
  inside c xe ->
  (c_refl_lo c = true -> c_refl_up c = true ->
     - (c_upper c - c_lower c) <= arrival c p xe ve F (i_rnd i) - xe <= c_upper c - c_lower c) ->
  s_err (step Rops c p s i) = false.
Proof.
  intros Hrun Herr xe ve F Hin Hd. rewrite (step_running_eq c p s i Hrun Herr). cbn zeta. cbn [s_err].
  apply integrate_no_error; assumption.
Qed.

Lemma spring_force_gradient (c : @config R) (p : @params R) xe x :
  c_period c = None ->
  f_spring c p xe x = - (p_k p * (xe - x)) /\
  is_derive (fun X => 1 / 2 * p_k p * cv_dist2 Rops c xe X) x (f_spring c p xe x).
Proof. intros H. split; [exact (f_spring_free c p xe x H) | exact (spring_is_gradient c p xe x H)]. Qed.


(* ================================================================== round 2 *)
(* ------------------------------------------------------------------ resume with the restart step repeated at a run boundary *)
Lemma step_shift_repeat c p d s i :
  (0 <= d)%Z -> s_prev_ts s = d -> i_running i = true -> i_step i = d ->
  step Rops c p (shift_state d s) (shift_input d i) = shift_state d (step Rops c p s i).
Proof.
  intros Hd Hts Hrun Hst.
  assert (Hp : props_xv Rops c (shift_state d s) (shift_input d i) = props_xv Rops c s i).
  { rewrite props_repeat; [ | exact Hrun | cbn; lia ]. rewrite (props_repeat c s i Hrun) by lia. reflexivity. }
  assert (Ht : tsf_error c (shift_state d s) (shift_input d i) = false) by (apply tsf_error_consec; right; right; cbn; lia).
  assert (Ht' : tsf_error c s i = false) by (apply tsf_error_consec; right; right; lia).
  unfold step. rewrite Hp, Ht, Ht'. destruct (props_xv Rops c s i) as [xe ve].
  cbn [shift_input i_running i_step i_x i_fb i_fba i_rnd]. rewrite Hrun. cbn [negb].
  unfold ext_forces, ft_props. cbn [i_fb i_x shift_state s_ft_rep].
  destruct (integrate Rops c p xe ve _ (i_rnd i)) as [[[xn vn] ek] er]. reflexivity.
Qed.

(* continuation of a resumed run: later steps, or (only at its very beginning) repetitions of the restart step d *)
Fixpoint cont_ok (d : Z) (at_start : bool) (l : list (@input R)) : Prop :=
  match l with
  | [] => True
  | j :: r => i_running j = true /\
              (((d < i_step j)%Z /\ cont_ok d false r) \/ (at_start = true /\ i_step j = d /\ cont_ok d true r))
  end.

Lemma step_keeps_live c p s i :
  i_running i = true ->
  s_after_restart (step Rops c p s i) = false /\ s_x_ext (step Rops c p s i) <> None /\ s_prev_ts (step Rops c p s i) = i_step i.
Proof.
  intros Hrun. unfold step. destruct (props_xv Rops c s i) as [xe ve]. rewrite Hrun. cbn [negb].
  destruct (tsf_error c s i); [cbn; repeat split; discriminate | ].
  destruct (ext_forces Rops c p xe i) as [[fr fs] fe]. destruct (integrate Rops c p xe ve fe (i_rnd i)) as [[[xn vn] ek] er].
  cbn. repeat split; discriminate.
Qed.

Lemma trace_shift_cont c p d : (0 <= d)%Z ->
  forall l s b, s_after_restart s = false -> s_x_ext s <> None -> (d <= s_prev_ts s)%Z ->
    (b = true -> s_prev_ts s = d) -> cont_ok d b l ->
    trace Rops c p (shift_state d s) (map (shift_input d) l) = map (shift_state d) (trace Rops c p s l).
Proof.
  intros Hd. induction l as [| i r IH]; intros s b Har Hx Hts Hb Hl; [reflexivity | ].
  destruct Hl as [Hrun [[Hst Hr] | [Hbt [Hst Hr]]]]; cbn [map trace];
    destruct (step_keeps_live c p s i Hrun) as (L1 & L2 & L3).
  - rewrite (step_shift c p d s i Har Hx (conj Hd Hts) Hrun Hst). f_equal.
    apply (IH _ false); auto; [lia | discriminate].
  - rewrite (step_shift_repeat c p d s i Hd (Hb Hbt) Hrun Hst). f_equal.
    apply (IH _ true); auto; lia.
Qed.

Lemma resume_trace_cont c p s i l :
  i_running i = true -> tsf_error c s i = false -> (0 <= i_step i)%Z -> cont_ok (i_step i) true l ->
  let s1 := step Rops c p s i in
  saved_xv Rops s1 (i_step i) = (s_x_rep s1, s_v_rep s1) /\
  trace Rops c p (restart_state Rops (s_x_rep s1) (s_v_rep s1)) (map (shift_input (i_step i)) (i :: l))
  = map (shift_state (i_step i)) (trace Rops c p s (i :: l)).
Proof.
  intros Hrun Herr Hst Hl s1. destruct (step_keeps_live c p s i Hrun) as (L1 & L2 & L3). fold s1 in L1, L2, L3. split.
  - unfold saved_xv. rewrite L3, Z.eqb_refl, orb_true_r. reflexivity.
  - cbn [map trace]. fold s1.
    pose proof (resume_first c p s i Hrun Herr Hst) as H0. cbn zeta in H0. fold s1 in H0. rewrite H0. f_equal.
    apply (trace_shift_cont c p (i_step i) Hst l s1 true); auto; lia.
Qed.

(* ------------------------------------------------------------------ sleeping steps (timeStepFactor > 1) *)
Lemma step_sleep c p s i : step Rops c p (sleep Rops s) i = step Rops c p s i.
Proof. reflexivity. Qed.

Lemma trace_sleep c p s l : trace Rops c p (sleep Rops s) l = trace Rops c p s l.
Proof. destruct l as [| i r]; [reflexivity | ]. cbn [trace]. rewrite step_sleep. reflexivity. Qed.

Lemma sleep_inert (s : @state R) :
  let s' := sleep Rops s in
  s_f s' = 0 /\ s_fr s' = 0 /\ s_err s' = false /\
  s_x_ext s' = s_x_ext s /\ s_v_ext s' = s_v_ext s /\ s_x_rep s' = s_x_rep s /\ s_v_rep s' = s_v_rep s /\
  s_prev_x s' = s_prev_x s /\ s_prev_v s' = s_prev_v s /\ s_prev_ts s' = s_prev_ts s /\ s_ft_rep s' = s_ft_rep s /\
  s_ekin s' = s_ekin s /\ s_epot s' = s_epot s.
Proof. cbn. repeat split. Qed.

(* the states of the awake steps of a module run are the run of the awake inputs alone *)
Fixpoint awake_states (c : @config R) (it0 : Z) (l : list (@input R)) (tr : list (@state R)) : list (@state R) :=
  match l, tr with
  | i :: r, s :: t => if awake_at c it0 i then s :: awake_states c it0 r t else awake_states c it0 r t
  | _, _ => []
  end.

Lemma mtrace_awake c p it0 : forall l s,
  awake_states c it0 l (mtrace Rops c p it0 s l) = trace Rops c p s (filter (awake_at c it0) l).
Proof.
  induction l as [| i r IH]; intros s; [reflexivity | ].
  cbn [mtrace awake_states filter]. unfold mstep. destruct (awake_at c it0 i).
  - cbn [trace]. f_equal. apply IH.
  - rewrite IH. apply trace_sleep.
Qed.

(* engine steps t, t+1, t+2, ... with a running simulation *)
Fixpoint esteps (t : Z) (l : list (@input R)) : Prop :=
  match l with
  | [] => True
  | i :: r => i_step i = t /\ i_running i = true /\ esteps (t + 1) r
  end.

Lemma multiple_unique (f a b : Z) : (0 < f)%Z -> (a mod f = 0)%Z -> (b mod f = 0)%Z -> (a <= b < a + f)%Z -> a = b.
Proof.
  intros Hf Ha Hb Hab. apply Z.mod_divide in Ha; [ | lia]. apply Z.mod_divide in Hb; [ | lia].
  destruct Ha as [x Hx]. destruct Hb as [y Hy]. subst a b. assert (x = y) by nia. subst. reflexivity.
Qed.

Lemma filter_consecutive (c : @config R) it0 : (0 < c_tsf c)%Z ->
  forall l t u, esteps t l -> ((it0 + u) mod c_tsf c = 0)%Z -> (t <= u < t + c_tsf c)%Z ->
    consecutive (c_tsf c) u (filter (awake_at c it0) l).
Proof.
  intros Hf. induction l as [| i r IH]; intros t u He Hu Htu; [exact I | ].
  destruct He as (Hst & Hrun & He). cbn [filter]. unfold awake_at at 1. rewrite Hst.
  destruct (Z.eqb_spec ((it0 + t) mod c_tsf c) 0) as [E | E].
  - assert (it0 + t = it0 + u)%Z by (apply (multiple_unique (c_tsf c)); auto; lia).
    assert (t = u) by lia. subst u. cbn [consecutive]. repeat split; auto.
    apply (IH (t + 1)%Z); auto; [ | lia].
    replace (it0 + (t + c_tsf c))%Z with (it0 + t + 1 * c_tsf c)%Z by lia. rewrite Z.mod_add by lia. exact E.
  - apply (IH (t + 1)%Z); auto. assert (t <> u) by (intros ->; contradiction). lia.
Qed.

(* a fresh module run over ALL engine steps 0, 1, 2, ... with any time-step factor: the awake steps are the documented
   integrator with the slow step Dt = dt * factor applied to the inputs of the awake steps, no factor error is raised,
   and every sleeping step leaves the object alone and applies no force *)
Lemma mts_run_documented c p l :
  free_cfg c -> (0 < c_tsf c)%Z -> esteps 0 l ->
  let la := filter (awake_at c 0) l in
  map obs (awake_states c 0 l (mtrace Rops c p 0 (init_state Rops) l))
  = doc_run c p (match la with i :: _ => i_x i | [] => 0 end) 0 la.
Proof.
  intros Hfree Hf He la. rewrite mtrace_awake. apply trace_fresh_documented; auto.
  apply (filter_consecutive c 0 Hf l 0 0 He); [rewrite Z.mod_0_l; lia | lia].
Qed.

Lemma mstep_asleep c p it0 s i :
  awake_at c it0 i = false ->
  mstep Rops c p it0 s i = sleep Rops s /\ menergy Rops c it0 i (mstep Rops c p it0 s i) = 0.
Proof. intros H. unfold mstep, menergy. rewrite H. split; reflexivity. Qed.

(* state saved on a sleeping step and resumed: from the next awake step on, state for state the uninterrupted run *)
Lemma resume_asleep_trace c p s t xe i l :
  s_x_ext s = Some xe -> s_after_restart s = false -> (0 <= s_prev_ts s < t)%Z -> (t < i_step i)%Z ->
  i_running i = true -> tsf_error c s i = false ->
  List.Forall (fun j => i_running j = true /\ (i_step i < i_step j)%Z) l ->
  saved_xv Rops s t = (xe, s_v_ext s) /\
  trace Rops c p (restart_state Rops xe (s_v_ext s)) (map (shift_input t) (i :: l))
  = map (shift_state t) (trace Rops c p s (i :: l)).
Proof.
  intros Hx Har Hts Hst Hrun Herr Hl. split.
  - unfold saved_xv, xext_or. rewrite Hx.
    replace (Z.ltb (s_prev_ts s) 0) with false by (symmetry; apply Z.ltb_ge; lia).
    replace (Z.eqb (s_prev_ts s) t) with false by (symmetry; apply Z.eqb_neq; lia). reflexivity.
  - cbn [map trace].
    set (r0 := restart_state Rops xe (s_v_ext s)). set (i0 := shift_input t i).
    assert (Hp : props_xv Rops c s i = (xe, s_v_ext s)).
    { apply props_continue; auto; [lia | left; lia]. }
    assert (Hp0 : props_xv Rops c r0 i0 = (xe, s_v_ext s)).
    { unfold r0, i0. rewrite (props_continue c _ _ xe); [reflexivity | exact Hrun | cbn; lia | reflexivity | right; reflexivity]. }
    assert (Herr0 : tsf_error c r0 i0 = false) by (apply tsf_error_consec; left; reflexivity).
    assert (Hfirst : step Rops c p r0 i0 = shift_state t (step Rops c p s i)).
    { rewrite (step_running_eq c p r0 i0 Hrun Herr0), (step_running_eq c p s i Hrun Herr). rewrite Hp, Hp0. reflexivity. }
    rewrite Hfirst. f_equal.
    destruct (step_keeps_live c p s i Hrun) as (L1 & L2 & L3).
    apply trace_shift; auto; [lia | ].
    eapply Forall_impl; [ | exact Hl]. intros j [Hj1 Hj2]. split; [exact Hj1 | lia].
Qed.

(* ------------------------------------------------------------------ energy balance with moving atoms and a time-dependent bias force *)
(* exact discrete work-energy identity of one frictionless step.  E* = Ek + Ep - Dt^2 F_t^2/(8m)  (F_t = total force on the coordinate
   at step t; Ek - Dt^2 F_t^2/(8m) = 1/2 m v_(t-1/2) v_(t+1/2)) changes from step t to t+1 by exactly the trapezoidal work of the bias
   force on the coordinate minus the trapezoidal work of the spring on the moving variable *)
Definition doc_estar (c : @config R) (p : @params R) (x v X fb : R) : R :=
  doc_ekin c p x v X fb + doc_epot p x X - Dt c ^ 2 * doc_force p x X fb ^ 2 / (8 * p_m p).

Lemma doc_energy_balance c p x v X1 fb1 X2 fb2 rnd :
  p_langevin p = false -> p_m p <> 0 ->
  let q := doc_step c p x v X1 fb1 rnd in
  doc_estar c p (fst q) (snd q) X2 fb2 - doc_estar c p x v X1 fb1
  = 1 / 2 * (fb1 + fb2) * (fst q - x) - 1 / 2 * p_k p * ((x - X1) + (fst q - X2)) * (X2 - X1).
Proof.
  intros Hl Hm q. unfold q, doc_step. rewrite Hl. cbn [fst snd]. unfold doc_estar, doc_ekin, doc_epot, doc_force. field. exact Hm.
Qed.

Lemma doc_estar_half_steps c p x v X fb :
  p_m p <> 0 ->
  doc_ekin c p x v X fb - Dt c ^ 2 * doc_force p x X fb ^ 2 / (8 * p_m p)
  = 1 / 2 * p_m p * v * (v + Dt c * doc_force p x X fb / p_m p).
Proof. intros Hm. unfold doc_ekin. field. exact Hm. Qed.

Definition io_estar (c : @config R) (p : @params R) (io : @input R * (R * R * R * R * R * R)) : R :=
  let '(i, o) := io in
  ob_ek o + ob_ep o - Dt c ^ 2 * (i_fb i / IZR (c_tsf c) - p_k p * (ob_x o - i_x i)) ^ 2 / (8 * p_m p).

Fixpoint dwork (c : @config R) (p : @params R) (ls : list (@input R * (R * R * R * R * R * R))) : R :=
  match ls with
  | (i1, o1) :: (((i2, o2) :: _) as r) =>
      1 / 2 * (i_fb i1 / IZR (c_tsf c) + i_fb i2 / IZR (c_tsf c)) * (ob_x o2 - ob_x o1)
      - 1 / 2 * p_k p * ((ob_x o1 - i_x i1) + (ob_x o2 - i_x i2)) * (i_x i2 - i_x i1)
      + dwork c p r
  | _ => 0
  end.

Lemma doc_run_work c p :
  p_langevin p = false -> p_m p <> 0 ->
  forall l x v d,
    let ls := combine l (doc_run c p x v l) in
    io_estar c p (last ls d) - io_estar c p (hd d ls) = dwork c p ls.
Proof.
  intros Hl Hm. induction l as [| i1 r IH]; intros x v d; [cbn; ring | ].
  destruct r as [| i2 r].
  - cbn [doc_run]. destruct (doc_step c p x v (i_x i1) (i_fb i1 / IZR (c_tsf c)) (i_rnd i1)) as [x' v']. cbn. ring.
  - pose proof (doc_energy_balance c p x v (i_x i1) (i_fb i1 / IZR (c_tsf c)) (i_x i2) (i_fb i2 / IZR (c_tsf c)) (i_rnd i1) Hl Hm) as Hb.
    cbn zeta in Hb. cbn zeta in IH. cbn zeta. cbn [doc_run] in *.
    destruct (doc_step c p x v (i_x i1) (i_fb i1 / IZR (c_tsf c)) (i_rnd i1)) as [x' v'] eqn:Hd. cbn [fst snd] in Hb.
    specialize (IH x' v' d). cbn [doc_run] in IH.
    destruct (doc_step c p x' v' (i_x i2) (i_fb i2 / IZR (c_tsf c)) (i_rnd i2)) as [x'' v''] eqn:Hd2.
    cbn [combine] in *. set (tail := combine r (doc_run c p x'' v'' r)) in *.
    set (o1 := (x, v, x', v', doc_ekin c p x v (i_x i1) (i_fb i1 / IZR (c_tsf c)), doc_epot p x (i_x i1))) in *.
    set (o2 := (x', v', x'', v'', doc_ekin c p x' v' (i_x i2) (i_fb i2 / IZR (c_tsf c)), doc_epot p x' (i_x i2))) in *.
    change (last ((i1, o1) :: (i2, o2) :: tail) d) with (last ((i2, o2) :: tail) d).
    cbn [hd dwork] in *.
    assert (E1 : io_estar c p (i1, o1) = doc_estar c p x v (i_x i1) (i_fb i1 / IZR (c_tsf c))) by reflexivity.
    assert (E2 : io_estar c p (i2, o2) = doc_estar c p x' v' (i_x i2) (i_fb i2 / IZR (c_tsf c))) by reflexivity.
    rewrite E1. rewrite E2 in IH. change (ob_x o1) with x. change (ob_x o2) with x' in *. lra.
Qed.

Lemma run_energy_balance c p l d :
  free_cfg c -> (0 < c_tsf c)%Z -> p_langevin p = false -> p_m p <> 0 -> consecutive (c_tsf c) 0 l ->
  let ls := combine l (map obs (trace Rops c p (init_state Rops) l)) in
  io_estar c p (last ls d) - io_estar c p (hd d ls) = dwork c p ls.
Proof.
  intros Hfree Hf Hl Hm Hc. rewrite (trace_fresh_documented c p l Hfree Hf Hc). apply doc_run_work; assumption.
Qed.

(* the reported Ek + Ep exceeds E* by Dt^2 F_t^2/(8m): second order in the time step, bounded when the forces are *)
Lemma estar_gap c p x v X fb Fmax :
  0 < p_m p -> Rabs (doc_force p x X fb) <= Fmax ->
  0 <= (doc_ekin c p x v X fb + doc_epot p x X) - doc_estar c p x v X fb <= Dt c ^ 2 * Fmax ^ 2 / (8 * p_m p).
Proof.
  intros Hm HF. unfold doc_estar.
  replace (doc_ekin c p x v X fb + doc_epot p x X - (doc_ekin c p x v X fb + doc_epot p x X - Dt c ^ 2 * doc_force p x X fb ^ 2 / (8 * p_m p)))
    with (Dt c ^ 2 * doc_force p x X fb ^ 2 / (8 * p_m p)) by ring.
  assert (H2 : doc_force p x X fb ^ 2 <= Fmax ^ 2).
  { rewrite <- (pow2_abs (doc_force p x X fb)). apply pow_incr. split; [apply Rabs_pos | exact HF]. }
  assert (H0 : 0 <= doc_force p x X fb ^ 2) by apply pow2_ge_0.
  assert (Hd : 0 <= Dt c ^ 2) by apply pow2_ge_0.
  assert (Hi : 0 < / (8 * p_m p)) by (apply Rinv_0_lt_compat; lra).
  unfold Rdiv. split.
  - apply Rmult_le_pos; [apply Rmult_le_pos; assumption | lra].
  - apply Rmult_le_compat_r; [lra | ]. apply Rmult_le_compat_l; assumption.
Qed.

(* ------------------------------------------------------------------ Langevin: stationary covariance of the B-A-O-A scheme, harmonic case *)
(* with frozen atoms at X and no bias force the step is LINEAR in (x - X, v, xi): *)
Definition la (c : @config R) (p : @params R) : R := exp (- (p_gamma p * Dt c)).
Definition lw (c : @config R) (p : @params R) : R := Dt c * p_k p / p_m p.
Definition A11 c p : R := 1 - Dt c / 2 * (1 + la c p) * lw c p.
Definition A12 c p : R := Dt c / 2 * (1 + la c p).
Definition A21 c p : R := - (la c p * lw c p).
Definition A22 c p : R := la c p.
Definition N1 c p : R := Dt c / 2 * (p_sigma p / p_m p).
Definition N2 (p : @params R) : R := p_sigma p / p_m p.

Lemma doc_step_linear c p x v X rnd :
  p_langevin p = true -> p_m p <> 0 ->
  fst (doc_step c p x v X 0 rnd) - X = A11 c p * (x - X) + A12 c p * v + N1 c p * rnd /\
  snd (doc_step c p x v X 0 rnd) = A21 c p * (x - X) + A22 c p * v + N2 p * rnd.
Proof.
  intros Hl Hm. unfold doc_step, doc_force. rewrite Hl. cbn [fst snd].
  unfold A11, A12, A21, A22, N1, N2, lw, la. split; field; exact Hm.
Qed.

(* second moments of (x - X, v) after one step, from those before and an independent Gaussian number of unit variance *)
Definition cov_step c p (S : R * R * R) : R * R * R :=
  let '(Sxx, Sxv, Svv) := S in
  (A11 c p ^ 2 * Sxx + 2 * A11 c p * A12 c p * Sxv + A12 c p ^ 2 * Svv + N1 c p ^ 2,
   A11 c p * A21 c p * Sxx + (A11 c p * A22 c p + A12 c p * A21 c p) * Sxv + A12 c p * A22 c p * Svv + N1 c p * N2 p,
   A21 c p ^ 2 * Sxx + 2 * A21 c p * A22 c p * Sxv + A22 c p ^ 2 * Svv + N2 p ^ 2).

(* the thermal covariance <(x-X)^2> = kT/k, <v_(t-1/2)^2> = kT/m, <(x-X) v_(t-1/2)> = Dt kT/(2m) is stationary, for EVERY
   time step and friction: positions and half-step velocities sample the target temperature exactly; the on-step velocity used
   for the reported kinetic energy has variance (kT/m)(1 - h) *)
Lemma langevin_stationary c p kT :
  p_m p <> 0 -> p_k p <> 0 -> p_sigma p ^ 2 = (1 - la c p ^ 2) * p_m p * kT ->
  let S := (kT / p_k p, Dt c / 2 * (kT / p_m p), kT / p_m p) in
  cov_step c p S = S /\
  (let '(Sxx, Sxv, Svv) := S in Svv - lw c p * Sxv + (lw c p / 2) ^ 2 * Sxx) = kT / p_m p * (1 - hfac c p).
Proof.
  intros Hm Hk Hs. cbn zeta. split.
  - unfold cov_step. 
    assert (Hn2 : N2 p ^ 2 = (1 - la c p ^ 2) * kT / p_m p).
    { unfold N2. replace ((p_sigma p / p_m p) ^ 2) with (p_sigma p ^ 2 / (p_m p ^ 2)) by (field; exact Hm). rewrite Hs. field. exact Hm. }
    assert (Hn1 : N1 c p ^ 2 = (Dt c / 2) ^ 2 * N2 p ^ 2) by (unfold N1, N2; ring).
    assert (Hn12 : N1 c p * N2 p = Dt c / 2 * N2 p ^ 2) by (unfold N1, N2; ring).
    rewrite Hn1, Hn12, Hn2. unfold A11, A12, A21, A22, lw. generalize (la c p). intro a.
    apply tup4 with (d := tt) (d' := tt) || idtac.
    f_equal; [f_equal | ]; field; split; assumption.
  - unfold lw, hfac. field. split; assumption.
Qed.

Lemma sigma_sq_documented c :
  c_damping c <> 0 -> 0 <= c_kB c * c_temp c -> 0 <= p_m (init_params Rops PI c) -> 0 <= p_gamma (init_params Rops PI c) * Dt c ->
  let p := init_params Rops PI c in
  p_sigma p ^ 2 = (1 - la c p ^ 2) * p_m p * (c_kB c * c_temp c).
Proof.
  intros Hd HkT Hm Hg p. destruct (params_langevin c Hd) as (_ & _ & Hs). fold p in Hs, Hm, Hg. rewrite Hs.
  assert (Ha : la c p ^ 2 = exp (- 2 * p_gamma p * Dt c)).
  { unfold la. simpl. rewrite Rmult_1_r, <- exp_plus. f_equal. ring. }
  rewrite Ha.
  replace ((1 - exp (- 2 * p_gamma p * Dt c)) * p_m p * c_kB c * c_temp c)
    with ((1 - exp (- 2 * p_gamma p * Dt c)) * p_m p * (c_kB c * c_temp c)) by ring.
  rewrite <- Rsqr_pow2, Rsqr_sqrt; [ring | ].
  assert (He : exp (- 2 * p_gamma p * Dt c) <= 1).
  { replace 1 with (exp 0) by apply exp_0. destruct (Req_dec (p_gamma p * Dt c) 0) as [Z | NZ].
    - replace (- 2 * p_gamma p * Dt c) with 0 by lra. lra.
    - left. apply exp_increasing. nra. }
  apply Rmult_le_pos; [ | exact HkT]. apply Rmult_le_pos; lra.
Qed.

(* ------------------------------------------------------------------ periodic variable *)
Lemma integrate_norefl c p xe ve F rnd :
  c_refl_lo c = false -> c_refl_up c = false ->
  integrate Rops c p xe ve F rnd =
    let v2 := ve + Dt c * F / p_m p in
    let v3 := if p_langevin p then exp (- (p_gamma p * Dt c)) * v2 + p_sigma p * rnd / p_m p else v2 in
    (cv_wrap Rops c (xe + Dt c * (v2 + v3) / 2), v3, 1 / 2 * p_m p * (ve + Dt c * F / p_m p / 2) ^ 2, false).
Proof.
  intros Hlo Hup. unfold integrate, reflect. rewrite Hlo, Hup. cbn [andb orb].
  rewrite big_dt_R. cbn [nadd nsub nmul ndiv nneg nexp Rops n1 n0 nofZ nhalf].
  replace (- (1) * Dt c * p_gamma p) with (- (p_gamma p * Dt c)) by ring.
  assert (W : forall a b, a = b -> cv_wrap Rops c a = cv_wrap Rops c b) by (intros a b E; rewrite E; reflexivity).
  destruct (p_langevin p); cbn zeta; apply tup4; try reflexivity; try apply W; unfold Rdiv;
    generalize (/ p_m p); intro q; try (generalize (exp (- (p_gamma p * Dt c))); intro ex); field.
Qed.

(* the periodic image of the variable's value nearest to the coordinate *)
Definition near_image (P xe X : R) : R := xe - pdiff Rops P (xe - X).

(* one step of a periodic variable = the documented step towards the nearest periodic image of X, then wrapped into
   [ctr - P/2, ctr + P/2); the image is X + n P with |xe - image| <= P/2 *)
Lemma step_periodic_obs (c : @config R) (p : @params R) (s : @state R) (i : @input R) P ctr xe ve :
  c_refl_lo c = false -> c_refl_up c = false -> c_period c = Some (P, ctr) -> 0 < P ->
  i_running i = true -> tsf_error c s i = false -> props_xv Rops c s i = (xe, ve) ->
  let fb := i_fb i / IZR (c_tsf c) in
  let Xn := near_image P xe (i_x i) in
  let q := doc_step c p xe ve Xn fb (i_rnd i) in
  let s' := step Rops c p s i in
  obs s' = (xe, ve, cvc_wrap Rops ctr P (fst q), snd q, doc_ekin c p xe ve Xn fb, doc_epot p xe Xn) /\
  s_f s' = IZR (c_tsf c) * (p_k p * (xe - Xn)) + i_fba i /\
  (exists n : Z, Xn = i_x i + IZR n * P) /\ - P / 2 <= xe - Xn < P / 2 /\
  ctr - P / 2 <= cvc_wrap Rops ctr P (fst q) < ctr + P / 2 /\ (exists n : Z, cvc_wrap Rops ctr P (fst q) = fst q - IZR n * P) /\
  s_err s' = false.
Proof.
  intros Hlo Hup Hper HP Hrun Herr Hp fb Xn q s'.
  assert (Hsp : f_spring c p xe (i_x i) = - (p_k p * (xe - Xn))).
  { unfold f_spring, spring, cv_lgrad, per_grad, Xn, near_image. rewrite Hper.
    cbn [nmul nsub nofZ nneg nhalf ndiv n1 Rops]. field. }
  assert (Hd2 : cv_dist2 Rops c xe (i_x i) = (xe - Xn) ^ 2).
  { unfold cv_dist2, per_dist2, Xn, near_image. rewrite Hper. cbn [nmul nsub Rops]. ring. }
  unfold s'. rewrite (step_running_eq c p s i Hrun Herr). rewrite Hp. cbn [fst snd].
  rewrite (integrate_norefl c p _ _ _ _ Hlo Hup). rewrite Hsp, Hd2.
  unfold obs, xext_or. cbn [s_x_rep s_v_rep s_x_ext s_v_ext s_ekin s_epot s_f s_err fst snd].
  unfold cv_wrap. rewrite Hper. unfold q, doc_step, doc_ekin, doc_epot, doc_force. fold fb.
  replace (fb + - (p_k p * (xe - Xn))) with (fb - p_k p * (xe - Xn)) by ring.
  cbn [fst snd]. split; [reflexivity | ]. split; [ring | ].
  split.
  { unfold Xn, near_image. rewrite pdiff_eq. exists (Zfloor ((xe - i_x i) / P + 1 / 2)). ring. }
  split.
  { unfold Xn, near_image. replace (xe - (xe - pdiff Rops P (xe - i_x i))) with (pdiff Rops P (xe - i_x i)) by ring.
    apply pdiff_range. exact HP. }
  split; [apply cvc_wrap_range; exact HP | ]. split; [apply cvc_wrap_equiv | reflexivity].
Qed.

(* ================================================================== round 3 *)
(* ------------------------------------------------------------------ the restart consistency check never refuses a legitimate resume *)
(* state saved after an awake step and the job restarted at that step with the same coordinates: same value, accepted *)
Lemma legit_resume_accepted_awake c p s i :
  i_running i = true ->
  let s1 := step Rops c p s i in
  saved_value s1 = i_x i /\
  restart_refused Rops c (saved_value s1) true (shift_input (i_step i) i) = false.
Proof.
  intros Hrun s1.
  assert (Hx : saved_value s1 = i_x i).
  { unfold saved_value, s1, step. destruct (props_xv Rops c s i) as [xe ve]. rewrite Hrun. cbn [negb].
    destruct (tsf_error c s i); [reflexivity | ].
    destruct (ext_forces Rops c p xe i) as [[fr fs] fe]. destruct (integrate Rops c p xe ve fe (i_rnd i)) as [[[xn vn] ek] er]. reflexivity. }
  split; [exact Hx | ]. unfold restart_refused. rewrite Hx. cbn [shift_input i_x i_running i_step].
  pose proof (no_jump_self c (i_x i)) as Hn. unfold no_jump in Hn. cbn [nltb Rops ndiv nmul n1 nofZ]. 
  replace (Rltb (1 / IZR 4) (cv_dist2 Rops c (i_x i) (i_x i) / (c_width c * c_width c))) with false by (symmetry; exact Hn).
  rewrite !andb_false_r. reflexivity.
Qed.

(* state saved between two slow steps: the first evaluation of the new job is at a later step, whatever the variable did meanwhile *)
Lemma legit_resume_accepted_asleep (c : @config R) x_saved (i : @input R) :
  (0 < i_step i)%Z -> restart_refused Rops c x_saved true i = false.
Proof.
  intros Hst. unfold restart_refused. replace (Z.eqb (i_step i) 0) with false by (symmetry; apply Z.eqb_neq; lia).
  rewrite !andb_false_r. reflexivity.
Qed.

(* and a wrong state file / changed configuration IS refused at the first step *)
Lemma wrong_state_refused (c : @config R) x_saved (i : @input R) :
  i_running i = true -> i_step i = 0%Z -> 1 / 4 < cv_dist2 Rops c (i_x i) x_saved / (c_width c * c_width c) ->
  restart_refused Rops c x_saved true i = true.
Proof.
  intros Hrun Hst Hd. unfold restart_refused. rewrite Hrun, Hst. cbn [andb Z.eqb nltb Rops ndiv n1 nofZ nmul].
  apply Rltb_true. exact Hd.
Qed.

(* ------------------------------------------------------------------ a state loaded into an object that has already run *)
Lemma load_in_session c p x v s i :
  i_running i = true -> (0 <= i_step i)%Z ->
  step Rops c p (load_state x v s) i = step Rops c p (restart_state Rops x v) i.
Proof.
  intros Hrun Hst. unfold step.
  assert (E : Z.eqb (i_step i) (-1) = false) by (apply Z.eqb_neq; lia).
  assert (Hp : props_xv Rops c (load_state x v s) i = props_xv Rops c (restart_state Rops x v) i).
  { unfold props_xv, xext_or. cbn [load_state restart_state s_after_restart s_x_ext s_v_ext s_prev_ts s_x_old s_prev_x s_prev_v].
    rewrite Hrun, E. cbn [negb andb]. reflexivity. }
  rewrite Hp. destruct (props_xv Rops c (restart_state Rops x v) i) as [xe ve]. rewrite Hrun. cbn [negb].
  assert (Ht : tsf_error c (load_state x v s) i = false) by reflexivity.
  assert (Ht' : tsf_error c (restart_state Rops x v) i = false) by reflexivity.
  rewrite Ht, Ht'. unfold ft_props. cbn [load_state restart_state s_ft_rep].
  destruct (ext_forces Rops c p xe i) as [[fr fs] fe]. destruct (integrate Rops c p xe ve fe (i_rnd i)) as [[[xn vn] ek] er].
  destruct (c_same_step c); reflexivity.
Qed.

(* ------------------------------------------------------------------ periodic variable with a one-sided reflecting boundary *)
(* containment needs wrap_ok: with only the lower boundary reflecting the coordinate leaves through the other side of the window, is
   wrapped, and arrives below the reflecting boundary without any error (witness: period 4 around 0, lower boundary -1, from 3/2 with
   velocity 1 to 5/2, wrapped to -3/2) *)
Lemma reflect_periodic_one_sided_escape :
  exists (c : @config R) (p : @params R) (x v : R) (i : @input R),
    c_period c = Some (4, 0) /\ c_refl_lo c = true /\ c_refl_up c = false /\ c_lower c <= c_upper c /\ inside c x /\
    i_running i = true /\
    let s' := step Rops c p (restart_state Rops x v) i in
    s_err s' = false /\ s_x_ext s' = Some (- (3 / 2)) /\ ~ inside c (- (3 / 2)).
Proof.
  set (c := mkConfig 1 1 1 16 0 1 1%Z (-1) 1 true false 1 (Some (4, 0)) false false).
  set (p := mkParams 0 1 0 0 false).
  set (i := mkInput 0%Z (3 / 2) 0 0 0 true).
  exists c, p, (3 / 2), 1, i.
  split; [reflexivity | ]. split; [reflexivity | ]. split; [reflexivity | ]. split; [cbn; lra | ].
  split; [split; intros H; [cbn; lra | discriminate H] | ]. split; [reflexivity | ].
  assert (Hp : props_xv Rops c (restart_state Rops (3 / 2) 1) i = (3 / 2, 1)).
  { rewrite (props_continue c _ _ (3 / 2)); [reflexivity | reflexivity | cbn; lia | reflexivity | right; reflexivity]. }
  assert (He : tsf_error c (restart_state Rops (3 / 2) 1) i = false) by reflexivity.
  cbn zeta. rewrite (step_running_eq c p _ i eq_refl He). rewrite Hp. cbn [fst snd s_err s_x_ext].
  assert (Hs : f_spring c p (3 / 2) (i_x i) = 0).
  { unfold f_spring, spring. cbn [p_k p]. cbn [nmul nneg nhalf ndiv n1 nofZ Rops]. ring. }
  rewrite Hs. unfold integrate, reflect. rewrite big_dt_R.
  cbn [c_refl_lo c_refl_up c_lower c_upper c andb orb p_langevin p p_m nadd nsub nmul ndiv nneg nofZ n0 n1 nhalf nltb Rops i_fb i_rnd i c_tsf].
  unfold Dt. cbn [c_dt c_tsf c].
  match goal with |- context [Rltb ?a ?b] => replace (Rltb a b) with false by (symmetry; apply Rltb_false; lra) end.
  cbn [orb fst snd]. unfold cv_wrap. cbn [c_period c]. unfold cvc_wrap. cbn [nsub nmul ndiv nadd nofZ nfloor nhalf n1 Rops].
  match goal with |- context [Zfloor ?a] => replace (Zfloor a) with 1%Z by (symmetry; apply Zfloor_imp; cbn; lra) end.
  split; [reflexivity | ]. split; [f_equal; lra | ].
  intros [H1 _]. specialize (H1 eq_refl). cbn in H1. lra.
Qed.

(* ------------------------------------------------------------------ routing of one bias according to its bypass flag *)
Lemma routing_by_bypass c p s i (b : bool) F :
  i_running i = true -> tsf_error c s i = false ->
  i_fb i = fst (route_bias Rops b F) -> i_fba i = snd (route_bias Rops b F) ->
  let xe := fst (props_xv Rops c s i) in
  let s' := step Rops c p s i in
  s_f s' = IZR (c_tsf c) * (- f_spring c p xe (i_x i)) + (if b then F else 0) /\
  s_fr s' = (if b then 0 else F / IZR (c_tsf c)) /\
  bias_sees b (s_x_rep s') (i_x i) = (if b then i_x i else xe).
Proof.
  intros Hrun Herr Hfb Hfba xe s'.
  destruct (routing_running c p s i Hrun Herr) as (H1 & H2 & H3 & _). fold xe in H1, H3. fold s' in H1, H2, H3.
  rewrite H1, H2, H3, Hfb, Hfba. unfold route_bias, bias_sees. destruct b; cbn [fst snd n0 Rops]; repeat split; unfold Rdiv; ring.
Qed.

(* ================================================================== round 4 *)
(* a configuration that passes the input checks gives a well-defined integrator: positive force constant and mass, non-negative friction *)
Lemma valid_config_params c :
  0 < c_kB c -> valid_config Rops c = true ->
  let p := init_params Rops PI c in
  0 < p_k p /\ 0 < p_m p /\ 0 <= p_gamma p /\ (p_langevin p = true <-> c_damping c <> 0) /\
  2 * PI * sqrt (p_m p / p_k p) = c_tau c /\ sqrt (c_kB c * c_temp c / p_k p) = c_tol c.
Proof.
  intros HkB Hv p. unfold valid_config in Hv. cbn [nltb n0 Rops] in Hv.
  apply andb_prop in Hv. destruct Hv as [Hv H4]. apply andb_prop in Hv. destruct Hv as [Hv H3]. apply andb_prop in Hv. destruct Hv as [H1 H2].
  apply Rltb_true in H1. apply Rltb_true in H2. apply Rltb_true in H3.
  apply negb_true_iff in H4. apply Rltb_false in H4.
  assert (HkT : 0 < c_kB c * c_temp c) by (apply Rmult_lt_0_compat; assumption).
  destruct (params_documented c HkT H2 H3) as (_ & _ & Hk & Hm & Hper & Hfl). fold p in Hk, Hm, Hper, Hfl.
  split; [exact Hk | ]. split; [exact Hm | ].
  destruct (Req_dec (c_damping c) 0) as [Z | NZ].
  - destruct (params_no_langevin c Z) as (Hl & Hg & _). fold p in Hl, Hg. rewrite Hg, Hl.
    split; [lra | ]. split; [split; [discriminate | intros H; contradiction] | split; assumption].
  - destruct (params_langevin c NZ) as (Hl & Hg & _). fold p in Hl, Hg. rewrite Hg, Hl.
    split; [lra | ]. split; [split; [intros _; exact NZ | reflexivity] | split; assumption].
Qed.

(* ================================================================== round 5 *)
(* a job that started between two steps of a timeStepFactor > 1 variable, state written before the variable's first update: nothing
   is saved for the extended coordinate, the new job initialises it at its first update exactly as the uninterrupted job does *)
Lemma resume_before_first_update c p t i l :
  i_running i = true -> (0 <= t < i_step i)%Z ->
  List.Forall (fun j => i_running j = true /\ (i_step i < i_step j)%Z) l ->
  saved_xv_opt Rops (init_state Rops) t = None /\
  (forall n, saved_xv_opt Rops (Nat.iter n (sleep Rops) (init_state Rops)) t = None) /\
  trace Rops c p (restart_state_opt Rops None) (map (shift_input t) (i :: l))
  = map (shift_state t) (trace Rops c p (init_state Rops) (i :: l)).
Proof.
  intros Hrun Ht Hl. split; [reflexivity | ]. split.
  { intros n. assert (H : s_x_ext (Nat.iter n (sleep Rops) (init_state Rops)) = None) by (induction n as [| n IH]; [reflexivity | cbn [Nat.iter]; exact IH]).
    unfold saved_xv_opt. rewrite H. reflexivity. }
  cbn [map trace restart_state_opt].
  set (r0 := mkState None (n0 Rops) (n0 Rops) (n0 Rops) (-1)%Z (n0 Rops) true (n0 Rops) (n0 Rops) (n0 Rops) (n0 Rops) (n0 Rops) (n0 Rops) (n0 Rops) false).
  set (i0 := shift_input t i).
  assert (Hp : props_xv Rops c (init_state Rops) i = (clamp_init Rops c (i_x i), 0)).
  { apply props_first; [exact Hrun | cbn; lia | reflexivity]. }
  assert (Hp0 : props_xv Rops c r0 i0 = (clamp_init Rops c (i_x i), 0)).
  { unfold r0, i0. rewrite props_first; [reflexivity | exact Hrun | cbn; lia | reflexivity]. }
  assert (He : tsf_error c (init_state Rops) i = false) by reflexivity.
  assert (He0 : tsf_error c r0 i0 = false) by reflexivity.
  assert (Hfirst : step Rops c p r0 i0 = shift_state t (step Rops c p (init_state Rops) i)).
  { rewrite (step_running_eq c p r0 i0 Hrun He0), (step_running_eq c p _ i Hrun He). rewrite Hp, Hp0. reflexivity. }
  rewrite Hfirst. f_equal.
  destruct (step_keeps_live c p (init_state Rops) i Hrun) as (L1 & L2 & L3).
  apply trace_shift; auto; [lia | ].
  eapply Forall_impl; [ | exact Hl]. intros j [Hj1 Hj2]. split; [exact Hj1 | lia].
Qed.

(* continuing from any live state with ANY parameters (a changed engine time step, or a job with other extended-Lagrangian parameters)
   equals a fresh object started from the integrated values with those parameters: the state carries nothing else *)
Lemma continue_with_parameters c p s t xe i l :
  s_x_ext s = Some xe -> s_after_restart s = false -> (0 <= t)%Z -> (0 <= s_prev_ts s < i_step i)%Z -> (t < i_step i)%Z ->
  i_running i = true -> tsf_error c s i = false ->
  List.Forall (fun j => i_running j = true /\ (i_step i < i_step j)%Z) l ->
  trace Rops c p (restart_state Rops xe (s_v_ext s)) (map (shift_input t) (i :: l))
  = map (shift_state t) (trace Rops c p s (i :: l)).
Proof.
  intros Hx Har Ht Hts Hst Hrun Herr Hl. cbn [map trace].
  set (r0 := restart_state Rops xe (s_v_ext s)). set (i0 := shift_input t i).
  assert (Hp : props_xv Rops c s i = (xe, s_v_ext s)).
  { apply props_continue; auto; [lia | left; lia]. }
  assert (Hp0 : props_xv Rops c r0 i0 = (xe, s_v_ext s)).
  { unfold r0, i0. rewrite (props_continue c _ _ xe); [reflexivity | exact Hrun | cbn; lia | reflexivity | right; reflexivity]. }
  assert (Herr0 : tsf_error c r0 i0 = false) by (apply tsf_error_consec; left; reflexivity).
  assert (Hfirst : step Rops c p r0 i0 = shift_state t (step Rops c p s i)).
  { rewrite (step_running_eq c p r0 i0 Hrun Herr0), (step_running_eq c p s i Hrun Herr). rewrite Hp, Hp0. reflexivity. }
  rewrite Hfirst. f_equal.
  destruct (step_keeps_live c p s i Hrun) as (L1 & L2 & L3).
  apply trace_shift; auto; [lia | ].
  eapply Forall_impl; [ | exact Hl]. intros j [Hj1 Hj2]. split; [exact Hj1 | lia].
Qed.
