From Coq Require Import ZArith List Bool Reals Lra Lia.
From CV Require Import Base.Num Base.RNum C18.ValueModel C17.ExtLagModel.
Import ListNotations.
Local Open Scope R_scope.
