(* Lemmas about the model of the extended-Lagrangian integrator (ExtLagModel.v), R instance. *)
From Coq Require Import ZArith List Bool Reals Lra Lia Psatz.
From Coquelicot Require Import Coquelicot.
From CV Require Import Base.Num Base.RNum C18.ValueModel C18.ValueProofs C17.ExtLagModel.
Import ListNotations.
Local Open Scope R_scope.

(* ------------------------------------------------------------------ shorthands (R instance) *)
Definition Dt (c : @config R) : R := c_dt c * IZR (c_tsf c).                 (* the slow time step *)
Definition free_cfg (c : @config R) : Prop :=
  c_refl_lo c = false /\ c_refl_up c = false /\ c_period c = None.
Definition inside (c : @config R) (x : R) : Prop :=
  (c_refl_lo c = true -> c_lower c <= x) /\ (c_refl_up c = true -> x <= c_upper c).

Lemma big_dt_R c : big_dt Rops c = Dt c.
Proof. reflexivity. Qed.

(* ------------------------------------------------------------------ parameters *)
Lemma init_params_k_m c :
  p_k (init_params Rops PI c) = c_kB c * c_temp c / (c_tol c * c_tol c) /\
  p_m (init_params Rops PI c) = c_kB c * c_temp c * c_tau c * c_tau c / (4 * PI * PI * c_tol c * c_tol c).
Proof.
  unfold init_params. cbn [neqb Rops]. destruct (Reqb' (c_damping c) (n0 Rops)); cbn; split; reflexivity.
Qed.

Lemma params_documented c :
  0 < c_kB c * c_temp c -> 0 < c_tol c -> 0 < c_tau c ->
  let p := init_params Rops PI c in
  p_k p = c_kB c * c_temp c / (c_tol c) ^ 2 /\
  p_m p = c_kB c * c_temp c * (c_tau c / (2 * PI * c_tol c)) ^ 2 /\
  0 < p_k p /\ 0 < p_m p /\
  2 * PI * sqrt (p_m p / p_k p) = c_tau c /\
  sqrt (c_kB c * c_temp c / p_k p) = c_tol c.
Proof.
  intros HkT Htol Htau p.
  destruct (init_params_k_m c) as [Hk Hm]. fold p in Hk, Hm.
  pose proof PI_RGT_0 as Hpi.
  assert (HkB : c_kB c <> 0) by (intros Z; rewrite Z in HkT; lra).
  assert (HT : c_temp c <> 0) by (intros Z; rewrite Z in HkT; lra).
  assert (Hk' : p_k p = c_kB c * c_temp c / c_tol c ^ 2) by (rewrite Hk; field; lra).
  assert (Hm' : p_m p = c_kB c * c_temp c * (c_tau c / (2 * PI * c_tol c)) ^ 2) by (rewrite Hm; field; lra).
  assert (Hkpos : 0 < p_k p).
  { rewrite Hk'. apply Rdiv_lt_0_compat; [lra | apply pow_lt; lra]. }
  assert (Hq : 0 < c_tau c / (2 * PI * c_tol c)).
  { apply Rdiv_lt_0_compat; [lra | ]. apply Rmult_lt_0_compat; lra. }
  assert (Hmpos : 0 < p_m p).
  { rewrite Hm'. apply Rmult_lt_0_compat; [lra | apply pow_lt; exact Hq]. }
  repeat split; try assumption.
  - assert (E : p_m p / p_k p = (c_tau c / (2 * PI)) ^ 2).
    { rewrite Hk', Hm'. field. repeat split; (assumption || lra). }
    rewrite E. rewrite <- Rsqr_pow2. rewrite sqrt_Rsqr.
    + field. lra.
    + apply Rlt_le. apply Rdiv_lt_0_compat; lra.
  - assert (E : c_kB c * c_temp c / p_k p = (c_tol c) ^ 2).
    { rewrite Hk'. field. repeat split; (assumption || lra). }
    rewrite E. rewrite <- Rsqr_pow2. apply sqrt_Rsqr. lra.
Qed.

Lemma params_langevin c :
  c_damping c <> 0 ->
  let p := init_params Rops PI c in
  p_langevin p = true /\ p_gamma p = c_damping c / 1000 /\
  p_sigma p = sqrt ((1 - exp (- 2 * p_gamma p * Dt c)) * p_m p * c_kB c * c_temp c).
Proof.
  intros Hd p. unfold p, init_params. cbn [neqb Rops].
  destruct (Reqb' (c_damping c) (n0 Rops)) eqn:E.
  - apply Reqb_true in E. cbn in E. contradiction.
  - cbn. repeat split.
    + unfold Rdiv. ring.
    + f_equal. unfold Dt, Rdiv.
      replace (- (2) * (c_damping c * (1 * / 1000)) * c_dt c * IZR (c_tsf c))
        with (- 2 * (c_damping c * (1 * / 1000)) * (c_dt c * IZR (c_tsf c))) by ring.
      reflexivity.
Qed.

Lemma params_no_langevin c :
  c_damping c = 0 ->
  let p := init_params Rops PI c in p_langevin p = false /\ p_gamma p = 0 /\ p_sigma p = 0.
Proof.
  intros Hd p. unfold p, init_params. cbn [neqb Rops].
  destruct (Reqb' (c_damping c) (n0 Rops)) eqn:E.
  - cbn. rewrite Hd. auto.
  - exfalso. assert (Reqb' (c_damping c) (n0 Rops) = true) by (apply Reqb_true; cbn; exact Hd). congruence.
Qed.

(* noise amplitude of the velocity: sigma / m = sqrt ((1 - e^(-2 gamma Dt)) kT / m), and the O step keeps the
   thermal variance kT/m stationary: a^2 (kT/m) + (sigma/m)^2 = kT/m with a = e^(-gamma Dt) *)
Lemma langevin_fd (g dt m kT : R) :
  0 < m -> 0 <= kT -> 0 <= g * dt ->
  let a := exp (- 1 * dt * g) in
  let sg := sqrt ((1 - exp (- 2 * g * dt)) * m * kT) in
  sg / m = sqrt ((1 - exp (- 2 * g * dt)) * kT / m) /\
  a ^ 2 * (kT / m) + (sg / m) ^ 2 = kT / m.
Proof.
  intros Hm HkT Hg a sg.
  assert (He : exp (- 2 * g * dt) <= 1).
  { replace 1 with (exp 0) by apply exp_0. destruct (Req_dec (g * dt) 0) as [Z | NZ].
    - replace (- 2 * g * dt) with 0 by lra. lra.
    - left. apply exp_increasing. nra. }
  assert (Hq : 0 <= (1 - exp (- 2 * g * dt)) * kT / m).
  { unfold Rdiv. apply Rmult_le_pos; [apply Rmult_le_pos; lra | left; apply Rinv_0_lt_compat; lra]. }
  assert (Hs : sg / m = sqrt ((1 - exp (- 2 * g * dt)) * kT / m)).
  { unfold sg.
    replace ((1 - exp (- 2 * g * dt)) * m * kT) with (((1 - exp (- 2 * g * dt)) * kT / m) * (m * m)) by (field; lra).
    rewrite sqrt_mult; [ | exact Hq | nra ].
    rewrite sqrt_square by lra. field. lra. }
  split; [exact Hs | ].
  rewrite Hs. rewrite <- Rsqr_pow2 with (x := sqrt _). rewrite Rsqr_sqrt by exact Hq.
  assert (Ha : a ^ 2 = exp (- 2 * g * dt)).
  { unfold a. simpl. rewrite Rmult_1_r. rewrite <- exp_plus. f_equal. ring. }
  rewrite Ha. field. lra.
Qed.

(* ------------------------------------------------------------------ one step of the model, unfolded *)
Definition f_spring (c : @config R) (p : @params R) (xe x : R) : R := (- (1 / 2) * p_k p) * cv_lgrad Rops c xe x.

Lemma step_running_eq c p s i :
  i_running i = true -> tsf_error c s i = false ->
  step Rops c p s i =
    let xe := fst (props_xv Rops c s i) in
    let ve := snd (props_xv Rops c s i) in
    let fs := f_spring c p xe (i_x i) in
    let fr := i_fb i / IZR (c_tsf c) in
    let r := integrate Rops c p xe ve (fr + fs) (i_rnd i) in
    mkState (Some (fst (fst (fst r)))) (snd (fst (fst r))) xe ve (i_step i) (i_x i) false
            (snd (fst r)) (1 / 2 * p_k p * cv_dist2 Rops c xe (i_x i))
            (if c_same_step c then s_ft_rep s else if c_subtract c then fs else fr + fs)
            fr (- 1 * fs * IZR (c_tsf c) + i_fba i) xe ve (snd r).
Proof.
  intros Hrun Herr. unfold step. destruct (props_xv Rops c s i) as [xe ve] eqn:Hp.
  rewrite Hrun, Herr. cbn [negb fst snd]. unfold ext_forces, f_spring.
  destruct (integrate Rops c p xe ve _ (i_rnd i)) as [[[xn vn] ek] er] eqn:Hi.
  cbn [fst snd]. reflexivity.
Qed.

Lemma step_not_running_eq c p s i :
  i_running i = false ->
  step Rops c p s i =
    mkState (Some (clamp_init Rops c (i_x i))) 0 (s_prev_x s) (s_prev_v s) (i_step i) (i_x i) false
            (s_ekin s) (s_epot s) (s_ft_rep s) 0 (i_fb i + i_fba i) (clamp_init Rops c (i_x i)) 0 false.
Proof.
  intros Hrun. unfold step, props_xv. rewrite Hrun. cbn [negb andb orb].
  rewrite !orb_true_r. reflexivity.
Qed.

Lemma tup4 {A B C D : Type} (a a' : A) (b b' : B) (c c' : C) (d d' : D) :
  a = a' -> b = b' -> c = c' -> d = d' -> (a, b, c, d) = (a', b', c', d').
Proof. intros; subst; reflexivity. Qed.

(* the integrator without reflecting boundaries and wrapping *)
Lemma integrate_free c p xe ve F rnd :
  free_cfg c ->
  integrate Rops c p xe ve F rnd =
    let v2 := ve + Dt c * F / p_m p in
    let v3 := if p_langevin p then exp (- (p_gamma p * Dt c)) * v2 + p_sigma p * rnd / p_m p else v2 in
    (xe + Dt c * (v2 + v3) / 2, v3, 1 / 2 * p_m p * (ve + Dt c * F / p_m p / 2) ^ 2, false).
Proof.
  intros (Hlo & Hup & Hper). unfold integrate, reflect, cv_wrap. rewrite Hlo, Hup, Hper. cbn [andb orb].
  rewrite big_dt_R. cbn [nadd nsub nmul ndiv nneg nexp Rops n1 n0 nofZ nhalf].
  replace (- (1) * Dt c * p_gamma p) with (- (p_gamma p * Dt c)) by ring.
  destruct (p_langevin p); cbn zeta; apply tup4; try reflexivity; unfold Rdiv;
    generalize (/ p_m p); intro q; try (generalize (exp (- (p_gamma p * Dt c))); intro ex); field.
Qed.

(* ------------------------------------------------------------------ where a step starts from *)
Lemma props_continue c s i xe :
  i_running i = true -> i_step i <> s_prev_ts s -> s_x_ext s = Some xe ->
  (i_step i <> 0%Z \/ s_after_restart s = true) ->
  props_xv Rops c s i = (xe, s_v_ext s).
Proof.
  intros Hrun Hne Hx Hor. unfold props_xv, xext_or. rewrite Hrun, Hx. cbn [negb orb andb].
  assert (E1 : (Z.eqb (i_step i) 0 && negb (s_after_restart s)) = false).
  { destruct Hor as [H0 | Har].
    - apply Z.eqb_neq in H0. rewrite H0. reflexivity.
    - rewrite Har. apply andb_false_r. }
  rewrite E1. cbn [orb]. apply Z.eqb_neq in Hne. rewrite Hne. reflexivity.
Qed.

Lemma props_first c s i :
  i_running i = true -> i_step i <> s_prev_ts s -> s_x_ext s = None ->
  props_xv Rops c s i = (clamp_init Rops c (i_x i), 0).
Proof.
  intros Hrun Hne Hx. unfold props_xv. rewrite Hrun, Hx. cbn [negb orb andb].
  rewrite orb_true_r. cbn [orb]. apply Z.eqb_neq in Hne. rewrite Hne. reflexivity.
Qed.

Lemma props_repeat c s i :
  i_running i = true -> i_step i = s_prev_ts s ->
  props_xv Rops c s i =
    if Rltb (1 / 4) (cv_dist2 Rops c (i_x i) (s_x_old s) / (c_width c * c_width c))
    then (clamp_init Rops c (i_x i),
          snd (if (Z.eqb (i_step i) 0 && negb (s_after_restart s)) || (match s_x_ext s with None => true | Some _ => false end)
               then (clamp_init Rops c (i_x i), 0) else (xext_or s 0, s_v_ext s)))
    else (s_prev_x s, s_prev_v s).
Proof.
  intros Hrun He. unfold props_xv. rewrite Hrun. cbn [negb andb]. rewrite orb_false_r.
  rewrite He, Z.eqb_refl.
  destruct ((Z.eqb (s_prev_ts s) 0 && negb (s_after_restart s)) || match s_x_ext s with None => true | Some _ => false end);
    cbn [snd nltb Rops ndiv nmul n1 nofZ]; reflexivity.
Qed.

Lemma clamp_free c x : c_refl_lo c = false -> c_refl_up c = false -> clamp_init Rops c x = x.
Proof. intros Hlo Hup. unfold clamp_init. rewrite Hlo, Hup. reflexivity. Qed.

Lemma clamp_inside c x : c_lower c <= c_upper c -> inside c (clamp_init Rops c x).
Proof.
  intros Hle. unfold clamp_init, inside. cbn [nltb Rops].
  destruct (c_refl_lo c), (c_refl_up c); cbn [andb];
    repeat match goal with |- context [Rltb ?a ?b] => let E := fresh "E" in destruct (Rltb a b) eqn:E;
           [apply Rltb_true in E | apply Rltb_false in E] end;
    split; intros; try discriminate; lra.
Qed.

Lemma clamp_id c x : inside c x -> clamp_init Rops c x = x.
Proof.
  intros [Hlo Hup]. unfold clamp_init. cbn [nltb Rops].
  destruct (c_refl_lo c) eqn:Elo; cbn [andb].
  - destruct (Rltb x (c_lower c)) eqn:E1; [apply Rltb_true in E1; specialize (Hlo eq_refl); lra | ].
    destruct (c_refl_up c) eqn:Eup; cbn [andb]; [ | reflexivity].
    destruct (Rltb (c_upper c) x) eqn:E2; [apply Rltb_true in E2; specialize (Hup eq_refl); lra | reflexivity].
  - destruct (c_refl_up c) eqn:Eup; cbn [andb]; [ | reflexivity].
    destruct (Rltb (c_upper c) x) eqn:E2; [apply Rltb_true in E2; specialize (Hup eq_refl); lra | reflexivity].
Qed.

(* ------------------------------------------------------------------ the documented integrator (closed form) *)
(* From (x_t, v_(t-1/2)), the variable's value X_t, the bias force fb_t (already divided by the time-step factor)
   and a Gaussian number: F_t = fb_t - k (x_t - X_t);  vh = v_(t-1/2) + Dt F_t / m;
   v_(t+1/2) = vh (no friction) or e^(-gamma Dt) vh + sqrt((1 - e^(-2 gamma Dt)) m kT) rnd / m;
   x_(t+1) = x_t + Dt (vh + v_(t+1/2)) / 2   [= x_t + Dt v_(t+1/2) without friction: leap-frog]. *)
Definition doc_force (p : @params R) (x X fb : R) : R := fb - p_k p * (x - X).
Definition doc_step (c : @config R) (p : @params R) (x v X fb rnd : R) : R * R :=
  let vh := v + Dt c * doc_force p x X fb / p_m p in
  let v' := if p_langevin p then exp (- (p_gamma p * Dt c)) * vh + p_sigma p * rnd / p_m p else vh in
  (x + Dt c * (vh + v') / 2, v').
Definition doc_ekin (c : @config R) (p : @params R) (x v X fb : R) : R :=
  1 / 2 * p_m p * (v + Dt c * doc_force p x X fb / p_m p / 2) ^ 2.
Definition doc_epot (p : @params R) (x X : R) : R := 1 / 2 * p_k p * (x - X) ^ 2.

(* what is observed of a state: (x_t, v_(t-1/2)) reported, (x_(t+1), v_(t+1/2)) stored, Ek, Ep *)
Definition obs (s : @state R) : R * R * R * R * R * R :=
  (s_x_rep s, s_v_rep s, xext_or s 0, s_v_ext s, s_ekin s, s_epot s).

Fixpoint doc_run (c : @config R) (p : @params R) (x v : R) (l : list (@input R)) : list (R * R * R * R * R * R) :=
  match l with
  | [] => []
  | i :: r =>
      let fb := i_fb i / IZR (c_tsf c) in
      let '(x', v') := doc_step c p x v (i_x i) fb (i_rnd i) in
      (x, v, x', v', doc_ekin c p x v (i_x i) fb, doc_epot p x (i_x i)) :: doc_run c p x' v' r
  end.

(* an uninterrupted run: steps t, t + tsf, t + 2 tsf, ..., simulation running *)
Fixpoint consecutive (tsf t : Z) (l : list (@input R)) : Prop :=
  match l with
  | [] => True
  | i :: r => i_step i = t /\ i_running i = true /\ consecutive tsf (t + tsf) r
  end.

Lemma f_spring_free c p xe x : c_period c = None -> f_spring c p xe x = - (p_k p * (xe - x)).
Proof. intros Hper. unfold f_spring, cv_lgrad, sc_grad. rewrite Hper. cbn [nmul nsub nofZ Rops]. field. Qed.

Lemma dist2_free c xe x : c_period c = None -> cv_dist2 Rops c xe x = (xe - x) ^ 2.
Proof. intros Hper. unfold cv_dist2, sc_dist2. rewrite Hper. cbn [nmul nsub Rops]. ring. Qed.

Lemma step_free_obs (c : @config R) (p : @params R) (s : @state R) (i : @input R) xe ve :
  free_cfg c -> i_running i = true -> tsf_error c s i = false -> props_xv Rops c s i = (xe, ve) ->
  let fb := i_fb i / IZR (c_tsf c) in
  let s' := step Rops c p s i in
  obs s' = (xe, ve, fst (doc_step c p xe ve (i_x i) fb (i_rnd i)), snd (doc_step c p xe ve (i_x i) fb (i_rnd i)),
            doc_ekin c p xe ve (i_x i) fb, doc_epot p xe (i_x i)) /\
  s_x_ext s' = Some (fst (doc_step c p xe ve (i_x i) fb (i_rnd i))) /\
  s_prev_ts s' = i_step i /\ s_err s' = false /\ s_after_restart s' = false.
Proof.
  intros Hfree Hrun Herr Hp fb s'. unfold s'. rewrite (step_running_eq c p s i Hrun Herr). rewrite Hp. cbn [fst snd].
  rewrite (integrate_free c p _ _ _ _ Hfree). destruct Hfree as (Hlo & Hup & Hper).
  unfold obs, xext_or. cbn [s_x_rep s_v_rep s_x_ext s_v_ext s_ekin s_epot s_prev_ts s_err s_after_restart fst snd].
  rewrite (f_spring_free c p xe (i_x i) Hper), (dist2_free c xe (i_x i) Hper).
  unfold doc_step, doc_ekin, doc_epot, doc_force. fold fb.
  replace (fb + - (p_k p * (xe - i_x i))) with (fb - p_k p * (xe - i_x i)) by ring.
  cbn [fst snd]. repeat split; reflexivity.
Qed.

Lemma tsf_error_consec (c : @config R) (s : @state R) (i : @input R) :
  (s_prev_ts s = (-1)%Z \/ i_step i = (s_prev_ts s + c_tsf c)%Z \/ i_step i = s_prev_ts s) -> tsf_error c s i = false.
Proof.
  intros H. unfold tsf_error. destruct H as [H | [H | H]].
  - rewrite H. reflexivity.
  - replace (i_step i - s_prev_ts s)%Z with (c_tsf c) by lia. rewrite Z.eqb_refl. cbn. rewrite !andb_false_r. reflexivity.
  - replace (i_step i - s_prev_ts s)%Z with 0%Z by lia. cbn. rewrite andb_false_r. reflexivity.
Qed.

Lemma trace_consecutive_from c p : free_cfg c -> (0 < c_tsf c)%Z ->
  forall l s xe t, s_x_ext s = Some xe -> s_prev_ts s = (t - c_tsf c)%Z -> (0 <= t - c_tsf c)%Z ->
    consecutive (c_tsf c) t l ->
    map obs (trace Rops c p s l) = doc_run c p xe (s_v_ext s) l.
Proof.
  intros Hfree Htsf. induction l as [| i r IH]; intros s xe t Hx Hts Ht Hc; [reflexivity | ].
  destruct Hc as (Hst & Hrun & Hc). cbn [trace map doc_run].
  assert (Hp : props_xv Rops c s i = (xe, s_v_ext s)).
  { apply props_continue; auto; [lia | left; lia]. }
  assert (Herr : tsf_error c s i = false) by (apply tsf_error_consec; right; left; lia).
  destruct (step_free_obs c p s i xe (s_v_ext s) Hfree Hrun Herr Hp) as (Hobs & Hx' & Hts' & _ & _).
  destruct (doc_step c p xe (s_v_ext s) (i_x i) (i_fb i / IZR (c_tsf c)) (i_rnd i)) as [x' v'] eqn:Hd.
  cbn [fst snd] in Hobs, Hx'. rewrite Hobs. f_equal.
  assert (Hv : s_v_ext (step Rops c p s i) = v').
  { unfold obs in Hobs. inversion Hobs. reflexivity. }
  rewrite <- Hv. apply (IH _ x' (t + c_tsf c)%Z); auto; lia.
Qed.

(* the whole uninterrupted run from a fresh start: the model IS the documented integrator *)
Lemma trace_fresh_documented c p l :
  free_cfg c -> (0 < c_tsf c)%Z -> consecutive (c_tsf c) 0 l ->
  map obs (trace Rops c p (init_state Rops) l) = doc_run c p (match l with i :: _ => i_x i | [] => 0 end) 0 l.
Proof.
  intros Hfree Htsf Hc. destruct l as [| i r]; [reflexivity | ].
  destruct Hc as (Hst & Hrun & Hc). cbn [trace map doc_run].
  assert (Hp : props_xv Rops c (init_state Rops) i = (i_x i, 0)).
  { rewrite props_first; auto.
    - destruct Hfree as (Hlo & Hup & _). rewrite clamp_free; auto.
    - cbn. lia. }
  assert (Herr : tsf_error c (init_state Rops) i = false) by (apply tsf_error_consec; left; reflexivity).
  destruct (step_free_obs c p (init_state Rops) i (i_x i) 0 Hfree Hrun Herr Hp) as (Hobs & Hx' & Hts' & _ & _).
  destruct (doc_step c p (i_x i) 0 (i_x i) (i_fb i / IZR (c_tsf c)) (i_rnd i)) as [x' v'] eqn:Hd.
  cbn [fst snd] in Hobs, Hx'. rewrite Hobs. f_equal.
  assert (Hv : s_v_ext (step Rops c p (init_state Rops) i) = v').
  { unfold obs in Hobs. inversion Hobs. reflexivity. }
  rewrite <- Hv. apply (trace_consecutive_from c p Hfree Htsf r _ x' (0 + c_tsf c)%Z); auto; lia.
Qed.
