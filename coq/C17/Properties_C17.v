(* C17: extended-Lagrangian coordinates follow the documented integrator.
   Statements only; proofs in ExtLagProofs.v; the model (line-by-line mirror of colvar::init_extended_Lagrangian,
   calc_colvar_properties, update_forces_energy, update_extended_Lagrangian, end_of_step) in ExtLagModel.v.
   All theorems are about the R instance of the model ([step Rops], [trace Rops]); one call of [step] = one module step on
   which the variable is awake; an input carries the relative step number, the variable's value computed from the atoms, the
   ordinary and the bypassing bias forces, the Gaussian number the engine would return, and whether a simulation is running.
   Dt c = dt * timeStepFactor.  The specification objects (doc_step, doc_run, shadow, inside, ...) are defined in ExtLagProofs.v. *)
From Coq Require Import ZArith List Bool Reals Lra Lia String.
From Coquelicot Require Import Coquelicot.
From CV Require Import Base.Num Base.RNum C18.ValueModel C17.ExtLagModel C17.ExtLagProofs Gen.GenBypass C17.BypassTable.
Import ListNotations.
Local Open Scope R_scope.

(* ---- parameters ------------------------------------------------------------------------------------------------- *)
(* k = kB T / sigma^2, m = kB T (tau / 2 pi sigma)^2: the free oscillator has period tau and thermal fluctuation sigma *)
Theorem C17_params : forall c : @config R,
  0 < c_kB c * c_temp c -> 0 < c_tol c -> 0 < c_tau c ->
  let p := init_params Rops PI c in
  p_k p = c_kB c * c_temp c / (c_tol c) ^ 2 /\
  p_m p = c_kB c * c_temp c * (c_tau c / (2 * PI * c_tol c)) ^ 2 /\
  0 < p_k p /\ 0 < p_m p /\
  2 * PI * sqrt (p_m p / p_k p) = c_tau c /\
  sqrt (c_kB c * c_temp c / p_k p) = c_tol c.
Proof. exact params_documented. Qed.
Print Assumptions C17_params.

(* friction gamma = damping / 1000 (ps^-1 -> fs^-1); noise amplitude sigma = sqrt((1 - e^(-2 gamma Dt)) m kB T), with the slow step *)
Theorem C17_langevin_params : forall c : @config R,
  c_damping c <> 0 ->
  let p := init_params Rops PI c in
  p_langevin p = true /\ p_gamma p = c_damping c / 1000 /\
  p_sigma p = sqrt ((1 - exp (- 2 * p_gamma p * Dt c)) * p_m p * c_kB c * c_temp c).
Proof. exact params_langevin. Qed.
Print Assumptions C17_langevin_params.

Theorem C17_no_friction_params : forall c : @config R,
  c_damping c = 0 ->
  let p := init_params Rops PI c in p_langevin p = false /\ p_gamma p = 0 /\ p_sigma p = 0.
Proof. exact params_no_langevin. Qed.
Print Assumptions C17_no_friction_params.

(* the velocity noise sigma/m is sqrt((1 - e^(-2 gamma Dt)) kT/m), and the O step v -> a v + (sigma/m) xi with a = e^(-gamma Dt)
   leaves the thermal variance kT/m stationary (fluctuation-dissipation): a^2 kT/m + (sigma/m)^2 = kT/m *)
Theorem C17_langevin_fluctuation_dissipation : forall g dt m kT : R,
  0 < m -> 0 <= kT -> 0 <= g * dt ->
  let a := exp (- 1 * dt * g) in
  let sg := sqrt ((1 - exp (- 2 * g * dt)) * m * kT) in
  sg / m = sqrt ((1 - exp (- 2 * g * dt)) * kT / m) /\
  a ^ 2 * (kT / m) + (sg / m) ^ 2 = kT / m.
Proof. exact langevin_fd. Qed.
Print Assumptions C17_langevin_fluctuation_dissipation.

(* ---- the update is exactly the documented integrator ------------------------------------------------------------ *)
(* One awake step with a running simulation, from ANY state: reported (x_t, v_(t-1/2)) are where the step starts from,
   stored (x_(t+1), v_(t+1/2)) are doc_step of them, Ek is that of the on-step velocity v_(t-1/2) + Dt F_t/(2m), Ep = k/2 (x_t - X_t)^2
   (no reflecting boundary, non-periodic variable; time-step factor arbitrary). *)
Theorem C17_one_step_documented : forall (c : @config R) (p : @params R) (s : @state R) (i : @input R) xe ve,
  free_cfg c -> i_running i = true -> tsf_error c s i = false -> props_xv Rops c s i = (xe, ve) ->
  let fb := i_fb i / IZR (c_tsf c) in
  let s' := step Rops c p s i in
  obs s' = (xe, ve, fst (doc_step c p xe ve (i_x i) fb (i_rnd i)), snd (doc_step c p xe ve (i_x i) fb (i_rnd i)),
            doc_ekin c p xe ve (i_x i) fb, doc_epot p xe (i_x i)) /\
  s_x_ext s' = Some (fst (doc_step c p xe ve (i_x i) fb (i_rnd i))) /\
  s_prev_ts s' = i_step i /\ s_err s' = false /\ s_after_restart s' = false.
Proof. exact step_free_obs. Qed.
Print Assumptions C17_one_step_documented.

(* doc_step without friction is leap-frog: v' = v + Dt (fb - k (x - X))/m,  x' = x + Dt v' *)
Theorem C17_leapfrog : forall (c : @config R) (p : @params R) x v X fb rnd,
  p_langevin p = false ->
  let v' := v + Dt c * (fb - p_k p * (x - X)) / p_m p in
  doc_step c p x v X fb rnd = (x + Dt c * v', v').
Proof. exact doc_step_leapfrog. Qed.
Print Assumptions C17_leapfrog.

(* doc_step with friction is B-A-O-A: kick, half drift, v' = e^(-gamma Dt) vh + sigma xi / m, half drift with v' *)
Theorem C17_langevin_step : forall (c : @config R) (p : @params R) x v X fb rnd,
  p_langevin p = true ->
  let vh := v + Dt c * (fb - p_k p * (x - X)) / p_m p in
  let v' := exp (- (p_gamma p * Dt c)) * vh + p_sigma p * rnd / p_m p in
  doc_step c p x v X fb rnd = (x + Dt c / 2 * vh + Dt c / 2 * v', v').
Proof. exact doc_step_langevin. Qed.
Print Assumptions C17_langevin_step.

(* every uninterrupted run from a fresh start (steps 0, f, 2f, ... for time-step factor f), of every length, with every history of
   the variable, of the bias forces and of the Gaussian numbers: the sequence of reported/stored coordinates, velocities and energies
   is the documented integrator started at (X_0, 0) *)
Theorem C17_run_is_documented_integrator : forall (c : @config R) (p : @params R) (l : list (@input R)),
  free_cfg c -> (0 < c_tsf c)%Z -> consecutive (c_tsf c) 0 l ->
  map obs (trace Rops c p (init_state Rops) l) = doc_run c p (match l with i :: _ => i_x i | [] => 0 end) 0 l.
Proof. exact trace_fresh_documented. Qed.
Print Assumptions C17_run_is_documented_integrator.

(* ---- no friction: exact invariant, no drift, second-order fluctuation ------------------------------------------- *)
(* frozen atoms (X constant) and a constant bias force F0: for every length of the run the shadow energy
   1/2 m vbar_t^2 + 1/2 k (1 - k Dt^2/(4m)) (x_t - X - F0/k)^2   (vbar_t = on-step velocity)   is EXACTLY the initial one *)
Theorem C17_shadow_energy_conserved : forall (c : @config R) (p : @params R) X F0 (l : list (@input R)),
  free_cfg c -> (0 < c_tsf c)%Z -> p_langevin p = false -> p_m p <> 0 -> p_k p <> 0 ->
  consecutive (c_tsf c) 0 l -> frozen c X F0 l ->
  List.Forall (fun s => shadow c p X F0 (s_x_rep s) (s_v_rep s) = shadow c p X F0 X 0)
              (trace Rops c p (init_state Rops) l).
Proof. exact shadow_conserved. Qed.
Print Assumptions C17_shadow_energy_conserved.

(* no bias force: the REPORTED energies satisfy Ek + (1-h) Ep = I0 at every step (h = k Dt^2/(4m)); hence Ek + Ep differs from the
   constant I0 by the explicit term Dt^2 k^2/(8m) (x_t - X)^2 and stays in [I0, I0/(1-h)] for ever: no drift *)
Theorem C17_energy_no_drift : forall (c : @config R) (p : @params R) X (l : list (@input R)),
  free_cfg c -> (0 < c_tsf c)%Z -> p_langevin p = false -> 0 < p_m p -> 0 < p_k p -> hfac c p < 1 ->
  consecutive (c_tsf c) 0 l -> frozen c X 0 l ->
  let I0 := shadow c p X 0 X 0 in
  List.Forall (fun s => s_ekin s + (1 - hfac c p) * s_epot s = I0 /\
                        s_ekin s + s_epot s - I0 = Dt c ^ 2 * p_k p ^ 2 / (8 * p_m p) * (s_x_rep s - X) ^ 2 /\
                        I0 <= s_ekin s + s_epot s <= I0 / (1 - hfac c p))
              (trace Rops c p (init_state Rops) l).
Proof. exact energy_no_drift. Qed.
Print Assumptions C17_energy_no_drift.

(* with the documented parameters the relative width of that band is h = (pi Dt / tau)^2: second order in the time step *)
Theorem C17_energy_fluctuation_second_order : forall c : @config R,
  0 < c_kB c * c_temp c -> 0 < c_tol c -> 0 < c_tau c ->
  hfac c (init_params Rops PI c) = (PI * Dt c / c_tau c) ^ 2.
Proof. exact hfac_documented. Qed.
Print Assumptions C17_energy_fluctuation_second_order.

(* the frictionless one-step map (x_t, v_(t-1/2)) -> (x_(t+1), v_(t+1/2)) preserves phase-space area (its linear part has
   determinant 1), for every value of the variable and every bias force *)
Theorem C17_area_preserving : forall (c : @config R) (p : @params R) X fb rnd x0 v0 x1 v1 x2 v2,
  p_langevin p = false ->
  let q0 := doc_step c p x0 v0 X fb rnd in let q1 := doc_step c p x1 v1 X fb rnd in let q2 := doc_step c p x2 v2 X fb rnd in
  (fst q1 - fst q0) * (snd q2 - snd q0) - (fst q2 - fst q0) * (snd q1 - snd q0)
  = (x1 - x0) * (v2 - v0) - (x2 - x0) * (v1 - v0).
Proof. exact doc_step_area. Qed.
Print Assumptions C17_area_preserving.

(* ---- reflecting boundaries -------------------------------------------------------------------------------------- *)
(* In every run (fresh or resumed from a coordinate inside the boundaries; any values, forces, Gaussian numbers; friction or not;
   repeated steps at run boundaries with or without jumps; any time-step factor) in which the code raises no error, the reported
   and the stored coordinate are inside the reflecting boundaries after every step.  [The re-initialisation after a jump at a
   repeated step clamps like the initialisation: fix-C17; without it this theorem is false.] *)
Theorem C17_reflect_inside : forall (c : @config R) (p : @params R) (l : list (@input R)),
  c_lower c <= c_upper c -> wrap_ok c -> running_nonneg l ->
  List.Forall (fun s' => s_err s' = false) (trace Rops c p (init_state Rops) l) ->
  List.Forall (fun s' => inside c (s_x_rep s') /\ forall x, s_x_ext s' = Some x -> inside c x)
              (trace Rops c p (init_state Rops) l).
Proof. exact trace_inside_fresh. Qed.
Print Assumptions C17_reflect_inside.

Theorem C17_reflect_inside_resumed : forall (c : @config R) (p : @params R) x v (l : list (@input R)),
  c_lower c <= c_upper c -> wrap_ok c -> inside c x -> running_nonneg l ->
  List.Forall (fun s' => s_err s' = false) (trace Rops c p (restart_state Rops x v) l) ->
  List.Forall (fun s' => inside c (s_x_rep s') /\ forall x, s_x_ext s' = Some x -> inside c x)
              (trace Rops c p (restart_state Rops x v) l).
Proof. exact trace_inside_restart. Qed.
Print Assumptions C17_reflect_inside_resumed.

(* even at the step that raises the first error the reported coordinate is inside *)
Theorem C17_reflect_reported_inside_at_first_error : forall (c : @config R) (p : @params R) (l : list (@input R)) (i : @input R),
  c_lower c <= c_upper c -> wrap_ok c -> running_nonneg (l ++ [i]) ->
  List.Forall (fun s' => s_err s' = false) (trace Rops c p (init_state Rops) l) ->
  inside c (s_x_rep (run Rops c p (init_state Rops) (l ++ [i]))).
Proof. exact first_error_reported_inside. Qed.
Print Assumptions C17_reflect_reported_inside_at_first_error.

(* the error is impossible when the one-step displacement is not longer than the interval (always, for a one-sided boundary) *)
Theorem C17_reflect_no_error_short_step : forall (c : @config R) (p : @params R) (s : @state R) (i : @input R),
  i_running i = true -> tsf_error c s i = false ->
  let xe := fst (props_xv Rops c s i) in let ve := snd (props_xv Rops c s i) in
  let F := i_fb i / IZR (c_tsf c) + f_spring c p xe (i_x i) in
  inside c xe ->
  (c_refl_lo c = true -> c_refl_up c = true ->
     - (c_upper c - c_lower c) <= arrival c p xe ve F (i_rnd i) - xe <= c_upper c - c_lower c) ->
  s_err (step Rops c p s i) = false.
Proof. exact step_no_error. Qed.
Print Assumptions C17_reflect_no_error_short_step.

(* ... and an overshoot by more than one interval length is NOT handled by a second reflection: the coordinate is left outside and the
   (fatal) error is raised.  Documented limitation of the code, reported by the check as it occurs (error flag), not a silent escape. *)
Theorem C17_reflect_overshoot_raises_error : forall (c : @config R) pv x v,
  c_refl_lo c = true -> c_refl_up c = true -> c_lower c <= c_upper c ->
  (x < 2 * c_lower c - c_upper c \/ 2 * c_upper c - c_lower c < x) ->
  snd (reflect Rops c pv x v) = true /\ ~ inside c (fst (fst (reflect Rops c pv x v))).
Proof. exact reflect_error_beyond. Qed.
Print Assumptions C17_reflect_overshoot_raises_error.

(* ---- force routing ---------------------------------------------------------------------------------------------- *)
(* running simulation: the atoms receive the spring force times the time-step factor plus the forces of bypassing biases, and
   nothing of the ordinary biases' force, which (divided by the factor) acts on the extended coordinate only *)
Theorem C17_force_routing : forall (c : @config R) (p : @params R) (s : @state R) (i : @input R),
  i_running i = true -> tsf_error c s i = false ->
  let xe := fst (props_xv Rops c s i) in
  let s' := step Rops c p s i in
  s_f s' = IZR (c_tsf c) * (- f_spring c p xe (i_x i)) + i_fba i /\
  s_fr s' = i_fb i / IZR (c_tsf c) /\
  s_x_rep s' = xe /\
  s_epot s' = 1 / 2 * p_k p * cv_dist2 Rops c xe (i_x i).
Proof. exact routing_running. Qed.
Print Assumptions C17_force_routing.

(* f_spring = -k (x_ext - X) is the derivative of the coupling energy with respect to the variable: the atoms feel minus the gradient *)
Theorem C17_spring_force_is_gradient : forall (c : @config R) (p : @params R) xe x,
  c_period c = None ->
  f_spring c p xe x = - (p_k p * (xe - x)) /\
  is_derive (fun X => 1 / 2 * p_k p * cv_dist2 Rops c xe X) x (f_spring c p xe x).
Proof. exact spring_force_gradient. Qed.
Print Assumptions C17_spring_force_is_gradient.

(* no simulation running (post-processing): the coordinate is the (clamped) value of the variable, all bias forces go to the atoms *)
Theorem C17_not_running : forall (c : @config R) (p : @params R) (s : @state R) (i : @input R),
  i_running i = false ->
  let s' := step Rops c p s i in
  s_f s' = i_fb i + i_fba i /\ s_fr s' = 0 /\ s_x_ext s' = Some (clamp_init Rops c (i_x i)) /\ s_v_ext s' = 0 /\
  s_x_rep s' = clamp_init Rops c (i_x i).
Proof. exact routing_not_running. Qed.
Print Assumptions C17_not_running.

(* ---- repeated step at a run boundary ---------------------------------------------------------------------------- *)
(* executing the same step again (no jump of the variable): the second execution starts from the same (x_t, v_(t-1/2)) as the
   first, and with the same inputs ends in the same state: the coordinate advances once *)
Theorem C17_repeat_step : forall (c : @config R) (p : @params R) (s : @state R) (i i' : @input R),
  i_running i = true -> i_running i' = true -> tsf_error c s i = false ->
  i_step i' = i_step i -> no_jump c (i_x i') (i_x i) ->
  let s1 := step Rops c p s i in let s2 := step Rops c p s1 i' in
  s_x_rep s2 = s_x_rep s1 /\ s_v_rep s2 = s_v_rep s1 /\
  (i_x i' = i_x i -> i_fb i' = i_fb i -> i_fba i' = i_fba i -> i_rnd i' = i_rnd i -> s2 = s1).
Proof. exact repeat_replaces. Qed.
Print Assumptions C17_repeat_step.

Theorem C17_repeat_step_n_times : forall (c : @config R) (p : @params R) (s : @state R) (i : @input R) (n : nat),
  i_running i = true -> tsf_error c s i = false ->
  run Rops c p s (i :: repeat i n) = step Rops c p s i.
Proof. exact repeat_n_times. Qed.
Print Assumptions C17_repeat_step_n_times.

(* ---- run segmentation through a saved state --------------------------------------------------------------------- *)
(* The state is saved after the awake step t of ANY state s (what is written, saved_xv = colvar::get_state_params, is what was
   reported at t); a fresh object loads it and executes step t again, then any continuation: later steps, preceded by any number of
   repetitions of the restart step at run boundaries, with or without a jump of the variable [the jump re-initialisation zeroes the
   velocity as the initialisation does: fix-C17-2].  Every state of the resumed run equals the state of the uninterrupted run at the
   same step, up to the origin of the relative step counter. *)
Theorem C17_resume_equals_uninterrupted : forall (c : @config R) (p : @params R) (s : @state R) (i : @input R) (l : list (@input R)),
  i_running i = true -> tsf_error c s i = false -> (0 <= i_step i)%Z -> cont_ok (i_step i) true l ->
  let s1 := step Rops c p s i in
  saved_xv Rops s1 (i_step i) = (s_x_rep s1, s_v_rep s1) /\
  trace Rops c p (restart_state Rops (s_x_rep s1) (s_v_rep s1)) (map (shift_input (i_step i)) (i :: l))
  = map (shift_state (i_step i)) (trace Rops c p s (i :: l)).
Proof. exact resume_trace_cont. Qed.
Print Assumptions C17_resume_equals_uninterrupted.

(* The state is saved at a relative step t at which a variable with timeStepFactor > 1 sleeps (last update before t): what is written
   are the integrated values [fix-C17-2; the reported ones made the resumed run one slow step late]; the fresh object sleeps until the
   next multiple of the factor and from there on reproduces the uninterrupted run state for state. *)
Theorem C17_resume_between_slow_steps : forall (c : @config R) (p : @params R) (s : @state R) (t : Z) xe (i : @input R) (l : list (@input R)),
  s_x_ext s = Some xe -> s_after_restart s = false -> (0 <= s_prev_ts s < t)%Z -> (t < i_step i)%Z ->
  i_running i = true -> tsf_error c s i = false ->
  List.Forall (fun j => i_running j = true /\ (i_step i < i_step j)%Z) l ->
  saved_xv Rops s t = (xe, s_v_ext s) /\
  trace Rops c p (restart_state Rops xe (s_v_ext s)) (map (shift_input t) (i :: l))
  = map (shift_state t) (trace Rops c p s (i :: l)).
Proof. exact resume_asleep_trace. Qed.
Print Assumptions C17_resume_between_slow_steps.

(* ---- sleeping steps of a variable with timeStepFactor > 1 -------------------------------------------------------- *)
(* a module step on which the variable sleeps applies no force, contributes no energy and leaves the object alone *)
Theorem C17_sleeping_step_inert : forall (c : @config R) (p : @params R) (it0 : Z) (s : @state R) (i : @input R),
  awake_at c it0 i = false ->
  mstep Rops c p it0 s i = sleep Rops s /\ menergy Rops c it0 i (mstep Rops c p it0 s i) = 0.
Proof. exact mstep_asleep. Qed.
Print Assumptions C17_sleeping_step_inert.

Theorem C17_sleep_keeps_state : forall s : @state R,
  let s' := sleep Rops s in
  s_f s' = 0 /\ s_fr s' = 0 /\ s_err s' = false /\
  s_x_ext s' = s_x_ext s /\ s_v_ext s' = s_v_ext s /\ s_x_rep s' = s_x_rep s /\ s_v_rep s' = s_v_rep s /\
  s_prev_x s' = s_prev_x s /\ s_prev_v s' = s_prev_v s /\ s_prev_ts s' = s_prev_ts s /\ s_ft_rep s' = s_ft_rep s /\
  s_ekin s' = s_ekin s /\ s_epot s' = s_epot s.
Proof. exact sleep_inert. Qed.
Print Assumptions C17_sleep_keeps_state.

(* the states at the awake steps of ANY module run (any schedule origin, any inputs) are the run of the awake inputs alone *)
Theorem C17_mts_awake_states : forall (c : @config R) (p : @params R) (it0 : Z) (l : list (@input R)) (s : @state R),
  awake_states c it0 l (mtrace Rops c p it0 s l) = trace Rops c p s (filter (awake_at c it0) l).
Proof. exact mtrace_awake. Qed.
Print Assumptions C17_mts_awake_states.

(* a fresh module run over ALL engine steps 0, 1, 2, ... with any time-step factor: at the multiples of the factor the coordinate follows
   the documented integrator with the slow step Dt = dt * factor, fed with the inputs of those steps only *)
Theorem C17_mts_run_is_documented_integrator : forall (c : @config R) (p : @params R) (l : list (@input R)),
  free_cfg c -> (0 < c_tsf c)%Z -> esteps 0 l ->
  let la := filter (awake_at c 0) l in
  map obs (awake_states c 0 l (mtrace Rops c p 0 (init_state Rops) l))
  = doc_run c p (match la with i :: _ => i_x i | [] => 0 end) 0 la.
Proof. exact mts_run_documented. Qed.
Print Assumptions C17_mts_run_is_documented_integrator.

(* ---- energy balance with moving atoms and a time-dependent bias force --------------------------------------------- *)
(* E* = Ek + Ep - Dt^2 F_t^2/(8m) (F_t = total force on the coordinate at step t): exact discrete work-energy identity of one step *)
Theorem C17_energy_balance_step : forall (c : @config R) (p : @params R) x v X1 fb1 X2 fb2 rnd,
  p_langevin p = false -> p_m p <> 0 ->
  let q := doc_step c p x v X1 fb1 rnd in
  doc_estar c p (fst q) (snd q) X2 fb2 - doc_estar c p x v X1 fb1
  = 1 / 2 * (fb1 + fb2) * (fst q - x) - 1 / 2 * p_k p * ((x - X1) + (fst q - X2)) * (X2 - X1).
Proof. exact doc_energy_balance. Qed.
Print Assumptions C17_energy_balance_step.

(* telescoped over every uninterrupted frictionless run with ANY history of the variable and of the bias force: E* at the last step
   minus E* at the first = sum of the trapezoidal works (bias force on the coordinate, spring on the moving variable) *)
Theorem C17_energy_balance_run : forall (c : @config R) (p : @params R) (l : list (@input R)) d,
  free_cfg c -> (0 < c_tsf c)%Z -> p_langevin p = false -> p_m p <> 0 -> consecutive (c_tsf c) 0 l ->
  let ls := combine l (map obs (trace Rops c p (init_state Rops) l)) in
  io_estar c p (last ls d) - io_estar c p (hd d ls) = dwork c p ls.
Proof. exact run_energy_balance. Qed.
Print Assumptions C17_energy_balance_run.

(* the reported Ek + Ep exceeds E* by Dt^2 F_t^2/(8m): non-negative, second order in the time step, bounded when the forces are;
   and Ek - Dt^2 F_t^2/(8m) = 1/2 m v_(t-1/2) v_(t+1/2) *)
Theorem C17_energy_gap_second_order : forall (c : @config R) (p : @params R) x v X fb Fmax,
  0 < p_m p -> Rabs (doc_force p x X fb) <= Fmax ->
  0 <= (doc_ekin c p x v X fb + doc_epot p x X) - doc_estar c p x v X fb <= Dt c ^ 2 * Fmax ^ 2 / (8 * p_m p).
Proof. exact estar_gap. Qed.
Print Assumptions C17_energy_gap_second_order.

Theorem C17_modified_kinetic_energy : forall (c : @config R) (p : @params R) x v X fb,
  p_m p <> 0 ->
  doc_ekin c p x v X fb - Dt c ^ 2 * doc_force p x X fb ^ 2 / (8 * p_m p)
  = 1 / 2 * p_m p * v * (v + Dt c * doc_force p x X fb / p_m p).
Proof. exact doc_estar_half_steps. Qed.
Print Assumptions C17_modified_kinetic_energy.

(* ---- Langevin: stationary covariance of the scheme in the harmonic case ----------------------------------------- *)
(* frozen atoms, no bias force: the step is linear in (x - X, v, xi) ... *)
Theorem C17_langevin_step_linear : forall (c : @config R) (p : @params R) x v X rnd,
  p_langevin p = true -> p_m p <> 0 ->
  fst (doc_step c p x v X 0 rnd) - X = A11 c p * (x - X) + A12 c p * v + N1 c p * rnd /\
  snd (doc_step c p x v X 0 rnd) = A21 c p * (x - X) + A22 c p * v + N2 p * rnd.
Proof. exact doc_step_linear. Qed.
Print Assumptions C17_langevin_step_linear.

(* ... and the covariance <(x-X)^2> = kT/k, <(x-X) v_(t-1/2)> = Dt kT/(2m), <v_(t-1/2)^2> = kT/m is a fixed point of the propagation of
   second moments (cov_step: A S A^T + n n^T for an independent unit-variance Gaussian number), for EVERY time step and friction: the
   configurational and half-step kinetic temperatures are exactly the target; the on-step velocity behind the reported kinetic energy
   has variance (kT/m)(1 - h), h = k Dt^2/(4m).  [That cov_step is the second-moment map of the random process is textbook probability,
   not formalised here.] *)
Theorem C17_langevin_stationary_covariance : forall (c : @config R) (p : @params R) kT,
  p_m p <> 0 -> p_k p <> 0 -> p_sigma p ^ 2 = (1 - la c p ^ 2) * p_m p * kT ->
  let S := (kT / p_k p, Dt c / 2 * (kT / p_m p), kT / p_m p) in
  cov_step c p S = S /\
  (let '(Sxx, Sxv, Svv) := S in Svv - lw c p * Sxv + (lw c p / 2) ^ 2 * Sxx) = kT / p_m p * (1 - hfac c p).
Proof. exact langevin_stationary. Qed.
Print Assumptions C17_langevin_stationary_covariance.

(* the premise on sigma holds for the parameters computed at initialisation, with kT = kB * extendedTemp *)
Theorem C17_langevin_sigma_documented : forall c : @config R,
  c_damping c <> 0 -> 0 <= c_kB c * c_temp c -> 0 <= p_m (init_params Rops PI c) -> 0 <= p_gamma (init_params Rops PI c) * Dt c ->
  let p := init_params Rops PI c in
  p_sigma p ^ 2 = (1 - la c p ^ 2) * p_m p * (c_kB c * c_temp c).
Proof. exact sigma_sq_documented. Qed.
Print Assumptions C17_langevin_sigma_documented.

(* ---- periodic variable ------------------------------------------------------------------------------------------ *)
(* one step = the documented step towards the periodic image X + nP of the variable's value nearest to the coordinate (spring force and
   energy with the shortest periodic difference, C18's metric), then wrapped into [ctr - P/2, ctr + P/2) *)
Theorem C17_periodic_step : forall (c : @config R) (p : @params R) (s : @state R) (i : @input R) P ctr xe ve,
  c_refl_lo c = false -> c_refl_up c = false -> c_period c = Some (P, ctr) -> 0 < P ->
  i_running i = true -> tsf_error c s i = false -> props_xv Rops c s i = (xe, ve) ->
  let fb := i_fb i / IZR (c_tsf c) in
  let Xn := near_image P xe (i_x i) in
  let q := doc_step c p xe ve Xn fb (i_rnd i) in
  let s' := step Rops c p s i in
  obs s' = (xe, ve, cvc_wrap Rops ctr P (fst q), snd q, doc_ekin c p xe ve Xn fb, doc_epot p xe Xn) /\
  s_f s' = IZR (c_tsf c) * (p_k p * (xe - Xn)) + i_fba i /\
  (exists n : Z, Xn = i_x i + IZR n * P) /\ - P / 2 <= xe - Xn < P / 2 /\
  ctr - P / 2 <= cvc_wrap Rops ctr P (fst q) < ctr + P / 2 /\ (exists n : Z, cvc_wrap Rops ctr P (fst q) = fst q - IZR n * P) /\
  s_err s' = false.
Proof. exact step_periodic_obs. Qed.
Print Assumptions C17_periodic_step.

(* ---- time origin of the reported total force -------------------------------------------------------------------- *)
(* engines with lagged total forces: what is stored at step t, and read by the biases at step t+1, is the force that acted on the
   coordinate at step t (without the bias part under subtractAppliedForce) *)
Theorem C17_total_force_lagged : forall (c : @config R) (p : @params R) (s : @state R) (i : @input R),
  c_same_step c = false -> i_running i = true -> tsf_error c s i = false ->
  let xe := fst (props_xv Rops c s i) in
  s_ft_rep (step Rops c p s i) =
    if c_subtract c then f_spring c p xe (i_x i) else i_fb i / IZR (c_tsf c) + f_spring c p xe (i_x i).
Proof. exact ft_lagged. Qed.
Print Assumptions C17_total_force_lagged.

(* engines with same-step total forces: the reported total force is the system (spring) force on the coordinate at the CURRENT step,
   whatever the step does (running or not, error or not) [fix-C17-2: it used to stay zero for ever] *)
Theorem C17_total_force_same_step : forall (c : @config R) (p : @params R) (s : @state R) (i : @input R),
  c_same_step c = true ->
  s_ft_rep (step Rops c p s i) = f_spring c p (fst (props_xv Rops c s i)) (i_x i).
Proof. exact ft_same_step. Qed.
Print Assumptions C17_total_force_same_step.

(* ---- round 3 ---------------------------------------------------------------------------------------------------- *)
(* the consistency check of a restarted job (colvar::calc_value, "differs greatly from the value last read from the state file") never
   refuses a legitimate resume: state saved after an awake step and the step executed again with the same coordinates ... *)
Theorem C17_legit_resume_accepted : forall (c : @config R) (p : @params R) (s : @state R) (i : @input R),
  i_running i = true ->
  let s1 := step Rops c p s i in
  saved_value s1 = i_x i /\
  restart_refused Rops c (saved_value s1) true (shift_input (i_step i) i) = false.
Proof. exact legit_resume_accepted_awake. Qed.
Print Assumptions C17_legit_resume_accepted.

(* ... or saved between two slow steps: the first evaluation of the new job is at a later step, where the check no longer applies
   [fix-C17-3: it used to compare values one slow step apart and abort valid restarts] *)
Theorem C17_legit_resume_accepted_between_slow_steps : forall (c : @config R) x_saved (i : @input R),
  (0 < i_step i)%Z -> restart_refused Rops c x_saved true i = false.
Proof. exact legit_resume_accepted_asleep. Qed.
Print Assumptions C17_legit_resume_accepted_between_slow_steps.

(* while a state that does not belong to the coordinates is refused at the first step *)
Theorem C17_wrong_state_refused : forall (c : @config R) x_saved (i : @input R),
  i_running i = true -> i_step i = 0%Z -> 1 / 4 < cv_dist2 Rops c (i_x i) x_saved / (c_width c * c_width c) ->
  restart_refused Rops c x_saved true i = true.
Proof. exact wrong_state_refused. Qed.
Print Assumptions C17_wrong_state_refused.

(* a state loaded into an object that has already run (same session) behaves as in a fresh object [fix-C17-3: the remembered step number
   made the next step raise the factor error, or revert to the backup of the old trajectory] *)
Theorem C17_load_in_session : forall (c : @config R) (p : @params R) x v (s : @state R) (i : @input R),
  i_running i = true -> (0 <= i_step i)%Z ->
  step Rops c p (load_state x v s) i = step Rops c p (restart_state Rops x v) i.
Proof. exact load_in_session. Qed.
Print Assumptions C17_load_in_session.

(* FULL STATEMENT (false of the code): C17_reflect_inside without the premise wrap_ok.  A periodic variable with only ONE reflecting boundary
   (or boundaries outside the wrapping window): the coordinate leaves through the other side of the window, is wrapped and arrives beyond the
   reflecting boundary, without error (replayed on the C++ by the check: known finding) *)
Theorem C17_reflect_periodic_one_sided_refuted :
  exists (c : @config R) (p : @params R) (x v : R) (i : @input R),
    c_period c = Some (4, 0) /\ c_refl_lo c = true /\ c_refl_up c = false /\ c_lower c <= c_upper c /\ inside c x /\
    i_running i = true /\
    let s' := step Rops c p (restart_state Rops x v) i in
    s_err s' = false /\ s_x_ext s' = Some (- (3 / 2)) /\ ~ inside c (- (3 / 2)).
Proof. exact reflect_periodic_one_sided_escape. Qed.
Print Assumptions C17_reflect_periodic_one_sided_refuted.

(* which biases bypass the coordinate: the table regenerated from the binary on every run is well formed (a kind that bypasses by default
   can bypass; names unique; not empty) ... *)
Theorem C17_bypass_table_wf : table_wf bypass_table = true.
Proof. exact bypass_table_wf. Qed.
Print Assumptions C17_bypass_table_wf.

(* ... a kind of the table bypasses only if the feature is available for it, whatever the user writes ... *)
Theorem C17_bypass_needs_available :
  forall e, In e bypass_table -> forall u, effective_bypass e u = Some true -> bt_avail e = true.
Proof. exact table_effective_needs_available. Qed.
Print Assumptions C17_bypass_needs_available.

(* ... and the force F of a bias goes where its flag says: bypassing -> to the atoms, and the bias sees the actual value;
   otherwise -> to the extended coordinate (divided by the factor), and the bias sees the coordinate *)
Theorem C17_bypass_routing : forall (c : @config R) (p : @params R) (s : @state R) (i : @input R) (b : bool) F,
  i_running i = true -> tsf_error c s i = false ->
  i_fb i = fst (route_bias Rops b F) -> i_fba i = snd (route_bias Rops b F) ->
  let xe := fst (props_xv Rops c s i) in
  let s' := step Rops c p s i in
  s_f s' = IZR (c_tsf c) * (- f_spring c p xe (i_x i)) + (if b then F else 0) /\
  s_fr s' = (if b then 0 else F / IZR (c_tsf c)) /\
  bias_sees b (s_x_rep s') (i_x i) = (if b then i_x i else xe).
Proof. exact routing_by_bypass. Qed.
Print Assumptions C17_bypass_routing.

(* ---- round 4 ---------------------------------------------------------------------------------------------------- *)
(* the input checks of init_extended_Lagrangian (valid_config) are sufficient for a well-defined integrator: positive force constant and
   mass with the documented period and fluctuation, non-negative friction, thermostat on exactly when the damping is not zero *)
Theorem C17_valid_config_params : forall c : @config R,
  0 < c_kB c -> valid_config Rops c = true ->
  let p := init_params Rops PI c in
  0 < p_k p /\ 0 < p_m p /\ 0 <= p_gamma p /\ (p_langevin p = true <-> c_damping c <> 0) /\
  2 * PI * sqrt (p_m p / p_k p) = c_tau c /\ sqrt (c_kB c * c_temp c / p_k p) = c_tol c.
Proof. exact valid_config_params. Qed.
Print Assumptions C17_valid_config_params.

(* ---- round 5 ---------------------------------------------------------------------------------------------------- *)
(* a job that started between two steps of a variable with timeStepFactor > 1, state written (after any number of sleeping steps) before the
   variable's first update: no extended coordinate is written (saved_xv_opt = None); the new job leaves it unset and initialises it at its
   first update, and from there on equals the uninterrupted job state for state *)
Theorem C17_resume_before_first_update : forall (c : @config R) (p : @params R) (t : Z) (i : @input R) (l : list (@input R)),
  i_running i = true -> (0 <= t < i_step i)%Z ->
  List.Forall (fun j => i_running j = true /\ (i_step i < i_step j)%Z) l ->
  saved_xv_opt Rops (init_state Rops) t = None /\
  (forall n, saved_xv_opt Rops (Nat.iter n (sleep Rops) (init_state Rops)) t = None) /\
  trace Rops c p (restart_state_opt Rops None) (map (shift_input t) (i :: l))
  = map (shift_state t) (trace Rops c p (init_state Rops) (i :: l)).
Proof. exact resume_before_first_update. Qed.
Print Assumptions C17_resume_before_first_update.

(* the state of the extended coordinate is (x_ext, v_ext) and nothing else: continuing from any live state with ANY parameters c, p (the engine
   changed its time step in mid-session; or the state is loaded by a job with other fluctuation / time constant / friction) equals a fresh
   object started from the integrated values with those parameters *)
Theorem C17_continue_with_other_parameters : forall (c : @config R) (p : @params R) (s : @state R) (t : Z) xe (i : @input R) (l : list (@input R)),
  s_x_ext s = Some xe -> s_after_restart s = false -> (0 <= t)%Z -> (0 <= s_prev_ts s < i_step i)%Z -> (t < i_step i)%Z ->
  i_running i = true -> tsf_error c s i = false ->
  List.Forall (fun j => i_running j = true /\ (i_step i < i_step j)%Z) l ->
  trace Rops c p (restart_state Rops xe (s_v_ext s)) (map (shift_input t) (i :: l))
  = map (shift_state t) (trace Rops c p s (i :: l)).
Proof. exact continue_with_parameters. Qed.
Print Assumptions C17_continue_with_other_parameters.

(* ---- the premises are satisfiable ------------------------------------------------------------------------------- *)
Definition ex_c : @config R := mkConfig 1 1 1 16 0 (1 / 2) 2%Z 0 1 false false 1 None false false.     (* factor 2, no boundary *)
Definition ex_cr : @config R := mkConfig 1 1 1 16 0 1 1%Z 0 1 true true 1 None false false.      (* both boundaries reflecting *)
Definition ex_p : @params R := mkParams 1 1 0 0 false.
Definition ex_pl : @params R := mkParams 1 1 (1 / 8) 1 true.
Definition ex_i (t : Z) (x : R) : @input R := mkInput t x 0 0 0 true.
Definition ex_l : list (@input R) := [ex_i 0 (1 / 2); ex_i 2 (1 / 2); ex_i 4 (1 / 2)].

Example ex_params_premises : 0 < c_kB ex_c * c_temp ex_c /\ 0 < c_tol ex_c /\ 0 < c_tau ex_c /\ c_damping ex_c = 0.
Proof. cbn. repeat split; lra. Qed.
Example ex_langevin_premise : c_damping (mkConfig 1 1 1 16 5 1 1%Z 0 1 false false 1 None false false) <> 0.
Proof. cbn. lra. Qed.
Example ex_fd_premises : 0 < 1 /\ 0 <= 1 /\ 0 <= (1 / 8) * 1.
Proof. lra. Qed.
Example ex_free : free_cfg ex_c /\ (0 < c_tsf ex_c)%Z /\ consecutive (c_tsf ex_c) 0 ex_l /\ frozen ex_c (1 / 2) 0 ex_l.
Proof.
  split; [repeat split | split; [reflexivity | split]].
  - cbn. repeat split; reflexivity.
  - unfold frozen, ex_l. repeat constructor; cbn; unfold Rdiv; ring.
Qed.
Example ex_one_step : free_cfg ex_c /\ i_running (ex_i 0 (1 / 2)) = true /\ tsf_error ex_c (init_state Rops) (ex_i 0 (1 / 2)) = false /\
  props_xv Rops ex_c (init_state Rops) (ex_i 0 (1 / 2)) = (1 / 2, 0).
Proof.
  split; [repeat split | split; [reflexivity | split; [reflexivity | ]]].
  rewrite props_first; [ | reflexivity | cbn; lia | reflexivity]. rewrite clamp_free; reflexivity.
Qed.
Example ex_energy_premises : p_langevin ex_p = false /\ 0 < p_m ex_p /\ 0 < p_k ex_p /\ hfac ex_c ex_p < 1 /\ p_langevin ex_pl = true.
Proof. unfold hfac, Dt. cbn. repeat split; lra. Qed.
Example ex_reflect_premises :
  c_lower ex_cr <= c_upper ex_cr /\ wrap_ok ex_cr /\ running_nonneg [ex_i 0 (1 / 2)] /\ inside ex_cr (1 / 2) /\
  List.Forall (fun s' => s_err s' = false) (trace Rops ex_cr ex_p (init_state Rops) [ex_i 0 (1 / 2)]) /\
  List.Forall (fun s' => s_err s' = false) (trace Rops ex_cr ex_p (restart_state Rops (1 / 2) 0) [ex_i 0 (1 / 2)]).
Proof.
  assert (Hin : inside ex_cr (1 / 2)) by (split; intros _; cbn; lra).
  assert (Hclamp : clamp_init Rops ex_cr (1 / 2) = 1 / 2) by (apply clamp_id; exact Hin).
  split; [cbn; lra | ]. split; [exact I | ]. split; [repeat constructor; cbn; lia | ]. split; [exact Hin | ].
  split; (constructor; [ | constructor]); apply step_no_error; try reflexivity.
  - rewrite props_first; [ | reflexivity | cbn; lia | reflexivity]. cbn [fst]. change (i_x (ex_i 0 (1 / 2))) with (1 / 2). rewrite Hclamp. exact Hin.
  - rewrite props_first; [ | reflexivity | cbn; lia | reflexivity]. cbn [fst snd]. change (i_x (ex_i 0 (1 / 2))) with (1 / 2). rewrite Hclamp. intros _ _.
    rewrite f_spring_free by reflexivity. unfold arrival, Dt. cbn. lra.
  - rewrite (props_continue ex_cr _ _ (1 / 2)); [ | reflexivity | cbn; lia | reflexivity | right; reflexivity]. exact Hin.
  - rewrite (props_continue ex_cr _ _ (1 / 2)); [ | reflexivity | cbn; lia | reflexivity | right; reflexivity]. cbn [fst snd]. intros _ _.
    rewrite f_spring_free by reflexivity. unfold arrival, Dt. cbn. lra.
Qed.
Example ex_overshoot_premises : c_refl_lo ex_cr = true /\ c_refl_up ex_cr = true /\ c_lower ex_cr <= c_upper ex_cr /\ 2 * c_upper ex_cr - c_lower ex_cr < 5 / 2.
Proof. cbn. repeat split; lra. Qed.
Example ex_repeat_premises :
  i_running (ex_i 0 (1 / 2)) = true /\ tsf_error ex_cr (init_state Rops) (ex_i 0 (1 / 2)) = false /\
  no_jump ex_cr (i_x (ex_i 0 (1 / 2))) (i_x (ex_i 0 (1 / 2))) /\ c_same_step ex_cr = false /\ i_running (mkInput 0%Z 0 0 0 0 false) = false.
Proof. repeat split; try reflexivity. apply no_jump_self. Qed.
Example ex_resume_premises :
  let s := run Rops ex_c ex_p (init_state Rops) [ex_i 0 (1 / 2)] in
  i_running (ex_i 2 (1 / 2)) = true /\ tsf_error ex_c s (ex_i 2 (1 / 2)) = false /\ (0 <= i_step (ex_i 2 (1 / 2)))%Z /\
  cont_ok (i_step (ex_i 2 (1 / 2))) true [ex_i 2 (1 / 2); ex_i 2 3; ex_i 4 (1 / 2)].
Proof.
  intros s. split; [reflexivity | ]. split; [ | split; [cbn; lia | ]].
  - apply tsf_error_consec. right; left. unfold s, run. cbn [fold_left].
    rewrite (step_running_eq ex_c ex_p (init_state Rops) (ex_i 0 (1 / 2)) eq_refl eq_refl). reflexivity.
  - cbn. split; [reflexivity | right]. split; [reflexivity | split; [reflexivity | ]].
    split; [reflexivity | right]. split; [reflexivity | split; [reflexivity | ]].
    split; [reflexivity | left]. split; [lia | exact I].
Qed.
Example ex_resume_asleep_premises :
  let s := step Rops ex_c ex_p (init_state Rops) (ex_i 0 (1 / 2)) in
  s_x_ext s = Some (1 / 2) /\ s_after_restart s = false /\ (0 <= s_prev_ts s < 1)%Z /\ (1 < i_step (ex_i 2 (1 / 2)))%Z /\
  tsf_error ex_c s (ex_i 2 (1 / 2)) = false.
Proof.
  intros s.
  assert (Hp : props_xv Rops ex_c (init_state Rops) (ex_i 0 (1 / 2)) = (1 / 2, 0)).
  { rewrite props_first; [ | reflexivity | cbn; lia | reflexivity]. rewrite clamp_free; reflexivity. }
  destruct (step_free_obs ex_c ex_p (init_state Rops) (ex_i 0 (1 / 2)) (1 / 2) 0 (conj eq_refl (conj eq_refl eq_refl)) eq_refl eq_refl Hp)
    as (_ & Hx & Hts & _ & Har). fold s in Hx, Hts, Har.
  split.
  - rewrite Hx. f_equal. unfold doc_step, doc_force, Dt. cbn. field.
  - split; [exact Har | ]. rewrite Hts. split; [cbn; lia | ]. split; [cbn; lia | ].
    apply tsf_error_consec. right; left. rewrite Hts. reflexivity.
Qed.
Example ex_mts_premises : esteps 0 [ex_i 0 (1 / 2); ex_i 1 (1 / 2); ex_i 2 (1 / 2)] /\ awake_at ex_c 0 (ex_i 1 (1 / 2)) = false.
Proof. cbn. repeat split; reflexivity. Qed.
Example ex_langevin_stationary_premises :
  let p := mkParams 1 1 (1 / 8) (sqrt ((1 - la ex_c (mkParams 1 1 (1 / 8) 0 true) ^ 2) * 1 * 1)) true in
  p_m p <> 0 /\ p_k p <> 0 /\ p_sigma p ^ 2 = (1 - la ex_c p ^ 2) * p_m p * 1.
Proof.
  cbn zeta. cbn [p_m p_k p_sigma]. split; [lra | split; [lra | ]].
  unfold la. cbn [p_gamma]. rewrite <- Rsqr_pow2, Rsqr_sqrt; [ring | ].
  assert (H : exp (- (1 / 8 * Dt ex_c)) ^ 2 <= 1).
  { assert (0 < exp (- (1 / 8 * Dt ex_c))) by apply exp_pos.
    assert (exp (- (1 / 8 * Dt ex_c)) <= 1).
    { pose proof (exp_increasing (- (1 / 8 * Dt ex_c)) 0) as Hi. rewrite exp_0 in Hi. left. apply Hi. unfold Dt. cbn. lra. }
    nra. }
  nra.
Qed.
Example ex_periodic_premises :
  let c := mkConfig 1 1 1 16 0 1 1%Z (-1) 1 false false 1 (Some (2, 0)) false false in
  c_refl_lo c = false /\ c_refl_up c = false /\ c_period c = Some (2, 0) /\ 0 < 2 /\
  tsf_error c (init_state Rops) (ex_i 0 (1 / 2)) = false /\ props_xv Rops c (init_state Rops) (ex_i 0 (1 / 2)) = (1 / 2, 0).
Proof.
  cbn zeta. repeat split; try reflexivity; try lra.
Qed.
Example ex_same_step_premise : c_same_step (mkConfig 1 1 1 16 0 1 1%Z 0 1 false false 1 None true false) = true.
Proof. reflexivity. Qed.
Example ex_energy_gap_premises : 0 < p_m ex_p /\ Rabs (doc_force ex_p 1 0 0) <= 1.
Proof. unfold doc_force. cbn. split; [lra | ]. replace (0 - 1 * (1 - 0)) with (- (1)) by ring. rewrite Rabs_Ropp, Rabs_R1. lra. Qed.
Example ex_refused_premises :
  i_running (ex_i 0 2) = true /\ i_step (ex_i 0 2) = 0%Z /\ 1 / 4 < cv_dist2 Rops ex_c (i_x (ex_i 0 2)) 0 / (c_width ex_c * c_width ex_c).
Proof. split; [reflexivity | split; [reflexivity | ]]. rewrite dist2_free by reflexivity. cbn. lra. Qed.
Example ex_bypass_premises : exists e, In e bypass_table.
Proof. pose proof bypass_table_wf as H. destruct bypass_table as [| e t]; [discriminate H | exists e; left; reflexivity]. Qed.
Example ex_route_premises : i_fb (mkInput 0%Z 0 0 1 0 true) = fst (route_bias Rops true 1) /\ i_fba (mkInput 0%Z 0 0 1 0 true) = snd (route_bias Rops true 1).
Proof. split; reflexivity. Qed.
Example ex_valid_config : 0 < c_kB ex_c /\ valid_config Rops ex_c = true.
Proof.
  split; [cbn; lra | ]. unfold valid_config. cbn [nltb n0 Rops c_temp c_tol c_tau c_damping ex_c].
  rewrite !(proj2 (Rltb_true _ _)) by lra. rewrite (proj2 (Rltb_false _ _)) by lra. reflexivity.
Qed.
Example ex_before_first_update_premises : i_running (ex_i 2 (1 / 2)) = true /\ (0 <= 1 < i_step (ex_i 2 (1 / 2)))%Z.
Proof. split; [reflexivity | cbn; lia]. Qed.
