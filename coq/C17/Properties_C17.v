From Coq Require Import ZArith List Bool Reals Lra.
From CV Require Import Base.Num Base.RNum C18.ValueModel C17.ExtLagModel C17.ExtLagProofs.
Local Open Scope R_scope.
Theorem C17_stub : 0 < 1. Proof. lra. Qed.
Print Assumptions C17_stub.
