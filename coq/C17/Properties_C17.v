(* C17: extended-Lagrangian coordinates follow the documented integrator.
   Statements only; proofs in ExtLagProofs.v; the model (line-by-line mirror of colvar::init_extended_Lagrangian,
   calc_colvar_properties, update_forces_energy, update_extended_Lagrangian, end_of_step) in ExtLagModel.v.
   All theorems are about the R instance of the model ([step Rops], [trace Rops]); one call of [step] = one module step on
   which the variable is awake; an input carries the relative step number, the variable's value computed from the atoms, the
   ordinary and the bypassing bias forces, the Gaussian number the engine would return, and whether a simulation is running.
   Dt c = dt * timeStepFactor.  The specification objects (doc_step, doc_run, shadow, inside, ...) are defined in ExtLagProofs.v. *)
From Coq Require Import ZArith List Bool Reals Lra Lia.
From Coquelicot Require Import Coquelicot.
From CV Require Import Base.Num Base.RNum C18.ValueModel C17.ExtLagModel C17.ExtLagProofs.
Import ListNotations.
Local Open Scope R_scope.

(* ---- parameters ------------------------------------------------------------------------------------------------- *)
(* k = kB T / sigma^2, m = kB T (tau / 2 pi sigma)^2: the free oscillator has period tau and thermal fluctuation sigma *)
Theorem C17_params : forall c : @config R,
  0 < c_kB c * c_temp c -> 0 < c_tol c -> 0 < c_tau c ->
  let p := init_params Rops PI c in
  p_k p = c_kB c * c_temp c / (c_tol c) ^ 2 /\
  p_m p = c_kB c * c_temp c * (c_tau c / (2 * PI * c_tol c)) ^ 2 /\
  0 < p_k p /\ 0 < p_m p /\
  2 * PI * sqrt (p_m p / p_k p) = c_tau c /\
  sqrt (c_kB c * c_temp c / p_k p) = c_tol c.
Proof. exact params_documented. Qed.
Print Assumptions C17_params.

(* friction gamma = damping / 1000 (ps^-1 -> fs^-1); noise amplitude sigma = sqrt((1 - e^(-2 gamma Dt)) m kB T), with the slow step *)
Theorem C17_langevin_params : forall c : @config R,
  c_damping c <> 0 ->
  let p := init_params Rops PI c in
  p_langevin p = true /\ p_gamma p = c_damping c / 1000 /\
  p_sigma p = sqrt ((1 - exp (- 2 * p_gamma p * Dt c)) * p_m p * c_kB c * c_temp c).
Proof. exact params_langevin. Qed.
Print Assumptions C17_langevin_params.

Theorem C17_no_friction_params : forall c : @config R,
  c_damping c = 0 ->
  let p := init_params Rops PI c in p_langevin p = false /\ p_gamma p = 0 /\ p_sigma p = 0.
Proof. exact params_no_langevin. Qed.
Print Assumptions C17_no_friction_params.

(* the velocity noise sigma/m is sqrt((1 - e^(-2 gamma Dt)) kT/m), and the O step v -> a v + (sigma/m) xi with a = e^(-gamma Dt)
   leaves the thermal variance kT/m stationary (fluctuation-dissipation): a^2 kT/m + (sigma/m)^2 = kT/m *)
Theorem C17_langevin_fluctuation_dissipation : forall g dt m kT : R,
  0 < m -> 0 <= kT -> 0 <= g * dt ->
  let a := exp (- 1 * dt * g) in
  let sg := sqrt ((1 - exp (- 2 * g * dt)) * m * kT) in
  sg / m = sqrt ((1 - exp (- 2 * g * dt)) * kT / m) /\
  a ^ 2 * (kT / m) + (sg / m) ^ 2 = kT / m.
Proof. exact langevin_fd. Qed.
Print Assumptions C17_langevin_fluctuation_dissipation.

(* ---- the update is exactly the documented integrator ------------------------------------------------------------ *)
(* One awake step with a running simulation, from ANY state: reported (x_t, v_(t-1/2)) are where the step starts from,
   stored (x_(t+1), v_(t+1/2)) are doc_step of them, Ek is that of the on-step velocity v_(t-1/2) + Dt F_t/(2m), Ep = k/2 (x_t - X_t)^2
   (no reflecting boundary, non-periodic variable; time-step factor arbitrary). *)
Theorem C17_one_step_documented : forall (c : @config R) (p : @params R) (s : @state R) (i : @input R) xe ve,
  free_cfg c -> i_running i = true -> tsf_error c s i = false -> props_xv Rops c s i = (xe, ve) ->
  let fb := i_fb i / IZR (c_tsf c) in
  let s' := step Rops c p s i in
  obs s' = (xe, ve, fst (doc_step c p xe ve (i_x i) fb (i_rnd i)), snd (doc_step c p xe ve (i_x i) fb (i_rnd i)),
            doc_ekin c p xe ve (i_x i) fb, doc_epot p xe (i_x i)) /\
  s_x_ext s' = Some (fst (doc_step c p xe ve (i_x i) fb (i_rnd i))) /\
  s_prev_ts s' = i_step i /\ s_err s' = false /\ s_after_restart s' = false.
Proof. exact step_free_obs. Qed.
Print Assumptions C17_one_step_documented.

(* doc_step without friction is leap-frog: v' = v + Dt (fb - k (x - X))/m,  x' = x + Dt v' *)
Theorem C17_leapfrog : forall (c : @config R) (p : @params R) x v X fb rnd,
  p_langevin p = false ->
  let v' := v + Dt c * (fb - p_k p * (x - X)) / p_m p in
  doc_step c p x v X fb rnd = (x + Dt c * v', v').
Proof. exact doc_step_leapfrog. Qed.
Print Assumptions C17_leapfrog.

(* doc_step with friction is B-A-O-A: kick, half drift, v' = e^(-gamma Dt) vh + sigma xi / m, half drift with v' *)
Theorem C17_langevin_step : forall (c : @config R) (p : @params R) x v X fb rnd,
  p_langevin p = true ->
  let vh := v + Dt c * (fb - p_k p * (x - X)) / p_m p in
  let v' := exp (- (p_gamma p * Dt c)) * vh + p_sigma p * rnd / p_m p in
  doc_step c p x v X fb rnd = (x + Dt c / 2 * vh + Dt c / 2 * v', v').
Proof. exact doc_step_langevin. Qed.
Print Assumptions C17_langevin_step.

(* every uninterrupted run from a fresh start (steps 0, f, 2f, ... for time-step factor f), of every length, with every history of
   the variable, of the bias forces and of the Gaussian numbers: the sequence of reported/stored coordinates, velocities and energies
   is the documented integrator started at (X_0, 0) *)
Theorem C17_run_is_documented_integrator : forall (c : @config R) (p : @params R) (l : list (@input R)),
  free_cfg c -> (0 < c_tsf c)%Z -> consecutive (c_tsf c) 0 l ->
  map obs (trace Rops c p (init_state Rops) l) = doc_run c p (match l with i :: _ => i_x i | [] => 0 end) 0 l.
Proof. exact trace_fresh_documented. Qed.
Print Assumptions C17_run_is_documented_integrator.

(* ---- no friction: exact invariant, no drift, second-order fluctuation ------------------------------------------- *)
(* frozen atoms (X constant) and a constant bias force F0: for every length of the run the shadow energy
   1/2 m vbar_t^2 + 1/2 k (1 - k Dt^2/(4m)) (x_t - X - F0/k)^2   (vbar_t = on-step velocity)   is EXACTLY the initial one *)
Theorem C17_shadow_energy_conserved : forall (c : @config R) (p : @params R) X F0 (l : list (@input R)),
  free_cfg c -> (0 < c_tsf c)%Z -> p_langevin p = false -> p_m p <> 0 -> p_k p <> 0 ->
  consecutive (c_tsf c) 0 l -> frozen c X F0 l ->
  List.Forall (fun s => shadow c p X F0 (s_x_rep s) (s_v_rep s) = shadow c p X F0 X 0)
              (trace Rops c p (init_state Rops) l).
Proof. exact shadow_conserved. Qed.
Print Assumptions C17_shadow_energy_conserved.

(* no bias force: the REPORTED energies satisfy Ek + (1-h) Ep = I0 at every step (h = k Dt^2/(4m)); hence Ek + Ep differs from the
   constant I0 by the explicit term Dt^2 k^2/(8m) (x_t - X)^2 and stays in [I0, I0/(1-h)] for ever: no drift *)
Theorem C17_energy_no_drift : forall (c : @config R) (p : @params R) X (l : list (@input R)),
  free_cfg c -> (0 < c_tsf c)%Z -> p_langevin p = false -> 0 < p_m p -> 0 < p_k p -> hfac c p < 1 ->
  consecutive (c_tsf c) 0 l -> frozen c X 0 l ->
  let I0 := shadow c p X 0 X 0 in
  List.Forall (fun s => s_ekin s + (1 - hfac c p) * s_epot s = I0 /\
                        s_ekin s + s_epot s - I0 = Dt c ^ 2 * p_k p ^ 2 / (8 * p_m p) * (s_x_rep s - X) ^ 2 /\
                        I0 <= s_ekin s + s_epot s <= I0 / (1 - hfac c p))
              (trace Rops c p (init_state Rops) l).
Proof. exact energy_no_drift. Qed.
Print Assumptions C17_energy_no_drift.

(* with the documented parameters the relative width of that band is h = (pi Dt / tau)^2: second order in the time step *)
Theorem C17_energy_fluctuation_second_order : forall c : @config R,
  0 < c_kB c * c_temp c -> 0 < c_tol c -> 0 < c_tau c ->
  hfac c (init_params Rops PI c) = (PI * Dt c / c_tau c) ^ 2.
Proof. exact hfac_documented. Qed.
Print Assumptions C17_energy_fluctuation_second_order.

(* the frictionless one-step map (x_t, v_(t-1/2)) -> (x_(t+1), v_(t+1/2)) preserves phase-space area (its linear part has
   determinant 1), for every value of the variable and every bias force *)
Theorem C17_area_preserving : forall (c : @config R) (p : @params R) X fb rnd x0 v0 x1 v1 x2 v2,
  p_langevin p = false ->
  let q0 := doc_step c p x0 v0 X fb rnd in let q1 := doc_step c p x1 v1 X fb rnd in let q2 := doc_step c p x2 v2 X fb rnd in
  (fst q1 - fst q0) * (snd q2 - snd q0) - (fst q2 - fst q0) * (snd q1 - snd q0)
  = (x1 - x0) * (v2 - v0) - (x2 - x0) * (v1 - v0).
Proof. exact doc_step_area. Qed.
Print Assumptions C17_area_preserving.

(* ---- reflecting boundaries -------------------------------------------------------------------------------------- *)
(* In every run (fresh or resumed from a coordinate inside the boundaries; any values, forces, Gaussian numbers; friction or not;
   repeated steps at run boundaries with or without jumps; any time-step factor) in which the code raises no error, the reported
   and the stored coordinate are inside the reflecting boundaries after every step.  [The re-initialisation after a jump at a
   repeated step clamps like the initialisation: fix-C17; without it this theorem is false.] *)
Theorem C17_reflect_inside : forall (c : @config R) (p : @params R) (l : list (@input R)),
  c_lower c <= c_upper c -> wrap_ok c -> running_nonneg l ->
  List.Forall (fun s' => s_err s' = false) (trace Rops c p (init_state Rops) l) ->
  List.Forall (fun s' => inside c (s_x_rep s') /\ forall x, s_x_ext s' = Some x -> inside c x)
              (trace Rops c p (init_state Rops) l).
Proof. exact trace_inside_fresh. Qed.
Print Assumptions C17_reflect_inside.

Theorem C17_reflect_inside_resumed : forall (c : @config R) (p : @params R) x v (l : list (@input R)),
  c_lower c <= c_upper c -> wrap_ok c -> inside c x -> running_nonneg l ->
  List.Forall (fun s' => s_err s' = false) (trace Rops c p (restart_state Rops x v) l) ->
  List.Forall (fun s' => inside c (s_x_rep s') /\ forall x, s_x_ext s' = Some x -> inside c x)
              (trace Rops c p (restart_state Rops x v) l).
Proof. exact trace_inside_restart. Qed.
Print Assumptions C17_reflect_inside_resumed.

(* even at the step that raises the first error the reported coordinate is inside *)
Theorem C17_reflect_reported_inside_at_first_error : forall (c : @config R) (p : @params R) (l : list (@input R)) (i : @input R),
  c_lower c <= c_upper c -> wrap_ok c -> running_nonneg (l ++ [i]) ->
  List.Forall (fun s' => s_err s' = false) (trace Rops c p (init_state Rops) l) ->
  inside c (s_x_rep (run Rops c p (init_state Rops) (l ++ [i]))).
Proof. exact first_error_reported_inside. Qed.
Print Assumptions C17_reflect_reported_inside_at_first_error.

(* the error is impossible when the one-step displacement is not longer than the interval (always, for a one-sided boundary) *)
Theorem C17_reflect_no_error_short_step : forall (c : @config R) (p : @params R) (s : @state R) (i : @input R),
  i_running i = true -> tsf_error c s i = false ->
  let xe := fst (props_xv Rops c s i) in let ve := snd (props_xv Rops c s i) in
  let F := i_fb i / IZR (c_tsf c) + f_spring c p xe (i_x i) in
  inside c xe ->
  (c_refl_lo c = true -> c_refl_up c = true ->
     - (c_upper c - c_lower c) <= arrival c p xe ve F (i_rnd i) - xe <= c_upper c - c_lower c) ->
  s_err (step Rops c p s i) = false.
Proof. exact step_no_error. Qed.
Print Assumptions C17_reflect_no_error_short_step.

(* ... and an overshoot by more than one interval length is NOT handled by a second reflection: the coordinate is left outside and the
   (fatal) error is raised.  Documented limitation of the code, reported by the check as it occurs (error flag), not a silent escape. *)
Theorem C17_reflect_overshoot_raises_error : forall (c : @config R) pv x v,
  c_refl_lo c = true -> c_refl_up c = true -> c_lower c <= c_upper c ->
  (x < 2 * c_lower c - c_upper c \/ 2 * c_upper c - c_lower c < x) ->
  snd (reflect Rops c pv x v) = true /\ ~ inside c (fst (fst (reflect Rops c pv x v))).
Proof. exact reflect_error_beyond. Qed.
Print Assumptions C17_reflect_overshoot_raises_error.

(* ---- force routing ---------------------------------------------------------------------------------------------- *)
(* running simulation: the atoms receive the spring force times the time-step factor plus the forces of bypassing biases, and
   nothing of the ordinary biases' force, which (divided by the factor) acts on the extended coordinate only *)
Theorem C17_force_routing : forall (c : @config R) (p : @params R) (s : @state R) (i : @input R),
  i_running i = true -> tsf_error c s i = false ->
  let xe := fst (props_xv Rops c s i) in
  let s' := step Rops c p s i in
  s_f s' = IZR (c_tsf c) * (- f_spring c p xe (i_x i)) + i_fba i /\
  s_fr s' = i_fb i / IZR (c_tsf c) /\
  s_x_rep s' = xe /\
  s_epot s' = 1 / 2 * p_k p * cv_dist2 Rops c xe (i_x i).
Proof. exact routing_running. Qed.
Print Assumptions C17_force_routing.

(* f_spring = -k (x_ext - X) is the derivative of the coupling energy with respect to the variable: the atoms feel minus the gradient *)
Theorem C17_spring_force_is_gradient : forall (c : @config R) (p : @params R) xe x,
  c_period c = None ->
  f_spring c p xe x = - (p_k p * (xe - x)) /\
  is_derive (fun X => 1 / 2 * p_k p * cv_dist2 Rops c xe X) x (f_spring c p xe x).
Proof. exact spring_force_gradient. Qed.
Print Assumptions C17_spring_force_is_gradient.

(* no simulation running (post-processing): the coordinate is the (clamped) value of the variable, all bias forces go to the atoms *)
Theorem C17_not_running : forall (c : @config R) (p : @params R) (s : @state R) (i : @input R),
  i_running i = false ->
  let s' := step Rops c p s i in
  s_f s' = i_fb i + i_fba i /\ s_fr s' = 0 /\ s_x_ext s' = Some (clamp_init Rops c (i_x i)) /\ s_v_ext s' = 0 /\
  s_x_rep s' = clamp_init Rops c (i_x i).
Proof. exact routing_not_running. Qed.
Print Assumptions C17_not_running.

(* ---- repeated step at a run boundary ---------------------------------------------------------------------------- *)
(* executing the same step again (no jump of the variable): the second execution starts from the same (x_t, v_(t-1/2)) as the
   first, and with the same inputs ends in the same state: the coordinate advances once *)
Theorem C17_repeat_step : forall (c : @config R) (p : @params R) (s : @state R) (i i' : @input R),
  i_running i = true -> i_running i' = true -> tsf_error c s i = false ->
  i_step i' = i_step i -> no_jump c (i_x i') (i_x i) ->
  let s1 := step Rops c p s i in let s2 := step Rops c p s1 i' in
  s_x_rep s2 = s_x_rep s1 /\ s_v_rep s2 = s_v_rep s1 /\
  (i_x i' = i_x i -> i_fb i' = i_fb i -> i_fba i' = i_fba i -> i_rnd i' = i_rnd i -> s2 = s1).
Proof. exact repeat_replaces. Qed.
Print Assumptions C17_repeat_step.

Theorem C17_repeat_step_n_times : forall (c : @config R) (p : @params R) (s : @state R) (i : @input R) (n : nat),
  i_running i = true -> tsf_error c s i = false ->
  run Rops c p s (i :: repeat i n) = step Rops c p s i.
Proof. exact repeat_n_times. Qed.
Print Assumptions C17_repeat_step_n_times.

(* ---- run segmentation through a saved state --------------------------------------------------------------------- *)
(* after ANY history l1 the state is saved at step t (extended_x / extended_v = what was reported at t); a fresh object loads it and
   executes step t again and then any continuation l2: every state of the resumed run equals the state of the uninterrupted run at
   the same step, up to the origin of the relative step counter *)
Theorem C17_resume_equals_uninterrupted : forall (c : @config R) (p : @params R) (l1 : list (@input R)) (i : @input R) (l2 : list (@input R)),
  let s := run Rops c p (init_state Rops) l1 in
  i_running i = true -> tsf_error c s i = false -> (0 <= i_step i)%Z ->
  List.Forall (fun j => i_running j = true /\ (i_step i < i_step j)%Z) l2 ->
  let s1 := step Rops c p s i in
  trace Rops c p (restart_state Rops (s_x_rep s1) (s_v_rep s1)) (map (shift_input (i_step i)) (i :: l2))
  = map (shift_state (i_step i)) (trace Rops c p s (i :: l2)).
Proof. exact resume_after_any_history. Qed.
Print Assumptions C17_resume_equals_uninterrupted.

(* FULL STATEMENT for a state saved at ANY step (false of the code when the variable has timeStepFactor f > 1 and the state is saved
   between two slow steps): the resumed run reports at the next slow step what the uninterrupted run reports.
   The saved extended_x/extended_v are the values reported at the last slow step t while the object already holds x_(t+f): the resumed
   run is one slow step behind (witness: f = 2, saved after absolute step 1; replayed on the C++ by the check: known finding, together
   with the spurious wake-up of the variable on the first step of the new object). *)
Theorem C17_resume_between_slow_steps_refuted :
  exists (c : @config R) (p : @params R) (i1 i2 : @input R),
    free_cfg c /\ c_tsf c = 2%Z /\ consecutive (c_tsf c) 0 [i1; i2] /\
    let s1 := step Rops c p (init_state Rops) i1 in
    let s2 := step Rops c p s1 i2 in
    let r2 := step Rops c p (restart_state Rops (s_x_rep s1) (s_v_rep s1)) (shift_input 1 i2) in
    s_x_rep s2 = 1 /\ s_x_rep r2 = 0.
Proof. exact resume_sleeping_refuted. Qed.
Print Assumptions C17_resume_between_slow_steps_refuted.

(* ---- time origin of the reported total force -------------------------------------------------------------------- *)
(* engines with lagged total forces: what is stored at step t, and read by the biases at step t+1, is the force that acted on the
   coordinate at step t (without the bias part under subtractAppliedForce) *)
Theorem C17_total_force_lagged : forall (c : @config R) (p : @params R) (s : @state R) (i : @input R),
  c_same_step c = false -> i_running i = true -> tsf_error c s i = false ->
  let xe := fst (props_xv Rops c s i) in
  s_ft_rep (step Rops c p s i) =
    if c_subtract c then f_spring c p xe (i_x i) else i_fb i / IZR (c_tsf c) + f_spring c p xe (i_x i).
Proof. exact ft_lagged. Qed.
Print Assumptions C17_total_force_lagged.

(* FULL STATEMENT for engines with same-step total forces (false of the code):
     forall c p s i, c_same_step c = true -> running -> no error ->
       s_ft_rep (step c p s i) = force acting on the coordinate at this step.
   The code never assigns the reported total force in that mode: it keeps its initial value (zero) for ever ... *)
Theorem C17_total_force_same_step_never_set : forall (c : @config R) (p : @params R) (l : list (@input R)) (s : @state R),
  c_same_step c = true -> s_ft_rep (run Rops c p s l) = s_ft_rep s.
Proof. exact ft_same_step_run. Qed.
Print Assumptions C17_total_force_same_step_never_set.

(* ... while the force is not zero (witness replayed on the C++ by the check: known finding) *)
Theorem C17_total_force_same_step_refuted :
  exists (c : @config R) (p : @params R) (i : @input R),
    c_same_step c = true /\ c_subtract c = false /\ i_running i = true /\ tsf_error c (init_state Rops) i = false /\
    s_ft_rep (step Rops c p (init_state Rops) i) = 0 /\
    i_fb i / IZR (c_tsf c) + f_spring c p (fst (props_xv Rops c (init_state Rops) i)) (i_x i) = 1.
Proof. exact ft_same_step_refuted. Qed.
Print Assumptions C17_total_force_same_step_refuted.

(* ---- the premises are satisfiable ------------------------------------------------------------------------------- *)
Definition ex_c : @config R := mkConfig 1 1 1 16 0 (1 / 2) 2%Z 0 1 false false 1 None false false.     (* factor 2, no boundary *)
Definition ex_cr : @config R := mkConfig 1 1 1 16 0 1 1%Z 0 1 true true 1 None false false.      (* both boundaries reflecting *)
Definition ex_p : @params R := mkParams 1 1 0 0 false.
Definition ex_pl : @params R := mkParams 1 1 (1 / 8) 1 true.
Definition ex_i (t : Z) (x : R) : @input R := mkInput t x 0 0 0 true.
Definition ex_l : list (@input R) := [ex_i 0 (1 / 2); ex_i 2 (1 / 2); ex_i 4 (1 / 2)].

Example ex_params_premises : 0 < c_kB ex_c * c_temp ex_c /\ 0 < c_tol ex_c /\ 0 < c_tau ex_c /\ c_damping ex_c = 0.
Proof. cbn. repeat split; lra. Qed.
Example ex_langevin_premise : c_damping (mkConfig 1 1 1 16 5 1 1%Z 0 1 false false 1 None false false) <> 0.
Proof. cbn. lra. Qed.
Example ex_fd_premises : 0 < 1 /\ 0 <= 1 /\ 0 <= (1 / 8) * 1.
Proof. lra. Qed.
Example ex_free : free_cfg ex_c /\ (0 < c_tsf ex_c)%Z /\ consecutive (c_tsf ex_c) 0 ex_l /\ frozen ex_c (1 / 2) 0 ex_l.
Proof.
  split; [repeat split | split; [reflexivity | split]].
  - cbn. repeat split; reflexivity.
  - unfold frozen, ex_l. repeat constructor; cbn; unfold Rdiv; ring.
Qed.
Example ex_one_step : free_cfg ex_c /\ i_running (ex_i 0 (1 / 2)) = true /\ tsf_error ex_c (init_state Rops) (ex_i 0 (1 / 2)) = false /\
  props_xv Rops ex_c (init_state Rops) (ex_i 0 (1 / 2)) = (1 / 2, 0).
Proof.
  split; [repeat split | split; [reflexivity | split; [reflexivity | ]]].
  rewrite props_first; [ | reflexivity | cbn; lia | reflexivity]. rewrite clamp_free; reflexivity.
Qed.
Example ex_energy_premises : p_langevin ex_p = false /\ 0 < p_m ex_p /\ 0 < p_k ex_p /\ hfac ex_c ex_p < 1 /\ p_langevin ex_pl = true.
Proof. unfold hfac, Dt. cbn. repeat split; lra. Qed.
Example ex_reflect_premises :
  c_lower ex_cr <= c_upper ex_cr /\ wrap_ok ex_cr /\ running_nonneg [ex_i 0 (1 / 2)] /\ inside ex_cr (1 / 2) /\
  List.Forall (fun s' => s_err s' = false) (trace Rops ex_cr ex_p (init_state Rops) [ex_i 0 (1 / 2)]) /\
  List.Forall (fun s' => s_err s' = false) (trace Rops ex_cr ex_p (restart_state Rops (1 / 2) 0) [ex_i 0 (1 / 2)]).
Proof.
  assert (Hin : inside ex_cr (1 / 2)) by (split; intros _; cbn; lra).
  assert (Hclamp : clamp_init Rops ex_cr (1 / 2) = 1 / 2) by (apply clamp_id; exact Hin).
  split; [cbn; lra | ]. split; [exact I | ]. split; [repeat constructor; cbn; lia | ]. split; [exact Hin | ].
  split; (constructor; [ | constructor]); apply step_no_error; try reflexivity.
  - rewrite props_first; [ | reflexivity | cbn; lia | reflexivity]. cbn [fst]. change (i_x (ex_i 0 (1 / 2))) with (1 / 2). rewrite Hclamp. exact Hin.
  - rewrite props_first; [ | reflexivity | cbn; lia | reflexivity]. cbn [fst snd]. change (i_x (ex_i 0 (1 / 2))) with (1 / 2). rewrite Hclamp. intros _ _.
    rewrite f_spring_free by reflexivity. unfold arrival, Dt. cbn. lra.
  - rewrite (props_continue ex_cr _ _ (1 / 2)); [ | reflexivity | cbn; lia | reflexivity | right; reflexivity]. exact Hin.
  - rewrite (props_continue ex_cr _ _ (1 / 2)); [ | reflexivity | cbn; lia | reflexivity | right; reflexivity]. cbn [fst snd]. intros _ _.
    rewrite f_spring_free by reflexivity. unfold arrival, Dt. cbn. lra.
Qed.
Example ex_overshoot_premises : c_refl_lo ex_cr = true /\ c_refl_up ex_cr = true /\ c_lower ex_cr <= c_upper ex_cr /\ 2 * c_upper ex_cr - c_lower ex_cr < 5 / 2.
Proof. cbn. repeat split; lra. Qed.
Example ex_repeat_premises :
  i_running (ex_i 0 (1 / 2)) = true /\ tsf_error ex_cr (init_state Rops) (ex_i 0 (1 / 2)) = false /\
  no_jump ex_cr (i_x (ex_i 0 (1 / 2))) (i_x (ex_i 0 (1 / 2))) /\ c_same_step ex_cr = false /\ i_running (mkInput 0%Z 0 0 0 0 false) = false.
Proof. repeat split; try reflexivity. apply no_jump_self. Qed.
Example ex_resume_premises :
  let s := run Rops ex_c ex_p (init_state Rops) [ex_i 0 (1 / 2)] in
  i_running (ex_i 2 (1 / 2)) = true /\ tsf_error ex_c s (ex_i 2 (1 / 2)) = false /\ (0 <= i_step (ex_i 2 (1 / 2)))%Z /\
  List.Forall (fun j => i_running j = true /\ (i_step (ex_i 2 (1 / 2)) < i_step j)%Z) [ex_i 4 (1 / 2)].
Proof.
  intros s. split; [reflexivity | ]. split; [ | split; [cbn; lia | repeat constructor; cbn; lia]].
  apply tsf_error_consec. right; left. unfold s, run. cbn [fold_left].
  rewrite (step_running_eq ex_c ex_p (init_state Rops) (ex_i 0 (1 / 2)) eq_refl eq_refl). reflexivity.
Qed.
