(* Which bias kinds act on the extended coordinate and which bypass it: theorems about the table that is REGENERATED on every run
   from the freshly built binary (coq/Gen/GenBypass.v: bias type, bypassExtendedLagrangian available, enabled by default). *)
From Coq Require Import List String Bool.
From CV Require Import Gen.GenBypass.
Import ListNotations.

Definition bt_name (e : string * bool * bool) : string := fst (fst e).
Definition bt_avail (e : string * bool * bool) : bool := snd (fst e).
Definition bt_default (e : string * bool * bool) : bool := snd e.

(* colvarbias::init: get_keyval_feature "bypassExtendedLagrangian" with the default of the kind; enabling a feature that is not
   available is a configuration error (None) *)
Definition effective_bypass (e : string * bool * bool) (user : option bool) : option bool :=
  match user with
  | None => Some (bt_default e)
  | Some false => Some false
  | Some true => if bt_avail e then Some true else None
  end.

Fixpoint nodup_names (l : list string) : bool :=
  match l with
  | [] => true
  | a :: r => negb (existsb (String.eqb a) r) && nodup_names r
  end.

Definition table_wf (t : list (string * bool * bool)) : bool :=
  forallb (fun e => implb (bt_default e) (bt_avail e)) t && nodup_names (map bt_name t) && negb (Nat.eqb (List.length t) 0).

Lemma bypass_table_wf : table_wf bypass_table = true.
Proof. vm_compute. reflexivity. Qed.

Lemma effective_needs_available (e : string * bool * bool) (u : option bool) :
  implb (bt_default e) (bt_avail e) = true -> effective_bypass e u = Some true -> bt_avail e = true.
Proof.
  intros Hwf. destruct u as [[|]|]; cbn.
  - destruct (bt_avail e); [reflexivity | discriminate].
  - discriminate.
  - intros H. assert (H1 : bt_default e = true) by (injection H; auto). rewrite H1 in Hwf. destruct (bt_avail e); [reflexivity | discriminate Hwf].
Qed.

Lemma table_effective_needs_available :
  forall e, In e bypass_table -> forall u, effective_bypass e u = Some true -> bt_avail e = true.
Proof.
  intros e Hin u. apply effective_needs_available.
  pose proof bypass_table_wf as H. unfold table_wf in H. apply andb_prop in H. destruct H as [H _]. apply andb_prop in H. destruct H as [H _].
  rewrite forallb_forall in H. apply H. exact Hin.
Qed.

(* without a user setting every kind follows its default; a kind for which the feature is not available never bypasses *)
Lemma table_unavailable_never_bypasses :
  forall e, In e bypass_table -> bt_avail e = false -> forall u, effective_bypass e u <> Some true.
Proof.
  intros e Hin Ha u H. rewrite (table_effective_needs_available e Hin u H) in Ha. discriminate.
Qed.
