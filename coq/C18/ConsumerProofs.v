(* C18: the consumers of the metric (harmonic restraint, harmonic walls, finite-difference velocity) see equivalent values as
   equal.  Lemmas only. *)
From Coq Require Import ZArith List Bool Reals Lra Lia Psatz.
From Flocq Require Import Core.Raux.
From Coquelicot Require Import Coquelicot.
From CV Require Import Base.Num Base.RNum C18.ValueModel C18.ValueProofs C18.GradProofs C18.ExtraProofs.
Import ListNotations.
Local Open Scope R_scope.

(* ------------------------------------------------------------------ harmonic restraint *)
Lemma hr_wrap k w kind x c : comp_ok kind ->
  hr_energy Rops PI k w kind (comp_wrap Rops kind x) (comp_wrap Rops kind c) = hr_energy Rops PI k w kind x c /\
  hr_force Rops PI k w kind (comp_wrap Rops kind x) (comp_wrap Rops kind c) = hr_force Rops PI k w kind x c.
Proof.
  intros Hk. unfold hr_energy, hr_force. destruct (comp_wrap_dist2 kind x c Hk) as [E1 E2]. rewrite E1, E2. split; reflexivity.
Qed.

Lemma per_grad_period P x1 x2 (n m : Z) : 0 < P ->
  per_grad Rops P (x1 + IZR n * P) (x2 + IZR m * P) = per_grad Rops P x1 x2.
Proof. intros HP. unfold per_grad. cbn -[pdiff]. rewrite (pdiff_shift2 P x1 x2 n m HP). reflexivity. Qed.

Lemma hr_periodic_images k w P c0 x c (n m : Z) : 0 < P ->
  hr_energy Rops PI k w (KPeriodic P c0) (VS (x + IZR n * P)) (VS (c + IZR m * P)) = hr_energy Rops PI k w (KPeriodic P c0) (VS x) (VS c) /\
  hr_force Rops PI k w (KPeriodic P c0) (VS (x + IZR n * P)) (VS (c + IZR m * P)) = hr_force Rops PI k w (KPeriodic P c0) (VS x) (VS c).
Proof.
  intros HP. unfold hr_energy, hr_force. cbn [comp_dist2 comp_lgrad].
  rewrite (per_period P x c n m HP), (per_grad_period P x c n m HP). split; reflexivity.
Qed.

Lemma hr_quaternion_sign k w q c :
  hr_energy Rops PI k w KQuat (VQ (qneg Rops q)) (VQ c) = hr_energy Rops PI k w KQuat (VQ q) (VQ c) /\
  hr_energy Rops PI k w KQuat (VQ q) (VQ (qneg Rops c)) = hr_energy Rops PI k w KQuat (VQ q) (VQ c).
Proof. unfold hr_energy. cbn [comp_dist2]. rewrite q_sign_l, q_sign_r. split; reflexivity. Qed.

Lemma hr_scale_zero k w d : 0 < k -> w <> 0 -> (1 / 2 * k / (w * w) * d = 0 <-> d = 0).
Proof.
  intros Hk Hw. assert (Hww : 0 < w * w) by nra.
  assert (Ha : 0 < 1 / 2 * k / (w * w)) by (apply Rdiv_lt_0_compat; lra).
  split; [intros H; nra | intros ->; ring].
Qed.

(* the restraint energy vanishes exactly at the values equivalent to the centre *)
Lemma hr_zero_iff k w : 0 < k -> w <> 0 ->
  (forall P c0 x c, 0 < P ->
     (hr_energy Rops PI k w (KPeriodic P c0) (VS x) (VS c) = Some 0 <-> exists n : Z, x - c = IZR n * P)) /\
  (forall q c, q_unit q -> q_unit c ->
     (hr_energy Rops PI k w KQuat (VQ q) (VQ c) = Some 0 <-> q = c \/ q = qneg Rops c)) /\
  (forall a b, is_unit a -> is_unit b -> (hr_energy Rops PI k w KUnit (V3 a) (V3 b) = Some 0 <-> a = b)).
Proof.
  intros Hk Hw. unfold hr_energy. cbn [comp_dist2].
  split; [|split].
  - intros P c0 x c HP. split.
    + intros E; injection E as E. apply (proj1 (hr_scale_zero k w _ Hk Hw)) in E. exact (proj1 (per_zero_iff P x c HP) E).
    + intros E. f_equal. apply (proj2 (hr_scale_zero k w _ Hk Hw)). exact (proj2 (per_zero_iff P x c HP) E).
  - intros q c Hq Hc. split.
    + intros E; injection E as E. apply (proj1 (hr_scale_zero k w _ Hk Hw)) in E. exact (proj1 (q_zero_iff q c Hq Hc) E).
    + intros E. f_equal. apply (proj2 (hr_scale_zero k w _ Hk Hw)). exact (proj2 (q_zero_iff q c Hq Hc) E).
  - intros a b Ha Hb. split.
    + intros E; injection E as E. apply (proj1 (hr_scale_zero k w _ Hk Hw)) in E. exact (proj1 (uv_zero_iff a b Ha Hb) E).
    + intros E. f_equal. apply (proj2 (hr_scale_zero k w _ Hk Hw)). exact (proj2 (uv_zero_iff a b Ha Hb) E).
Qed.

(* the force is minus the derivative of the energy (scalar and, off the half-period cut, periodic variables) *)
Lemma hr_force_is_minus_derivative k w :
  (forall x c, is_derive (fun t => 1 / 2 * k / (w * w) * sc_dist2 Rops t c) x (- (- (1 / 2) * k / (w * w) * sc_grad Rops x c))) /\
  (forall P x c, 0 < P -> pdiff Rops P (x - c) <> - P / 2 ->
     is_derive (fun t => 1 / 2 * k / (w * w) * per_dist2 Rops P t c) x (- (- (1 / 2) * k / (w * w) * per_grad Rops P x c))).
Proof.
  split.
  - intros x c. pose proof (is_derive_scal (fun t => sc_dist2 Rops t c) x (1 / 2 * k / (w * w)) _ (sc_grad_derive x c)) as H.
    replace (- (- (1 / 2) * k / (w * w) * sc_grad Rops x c)) with (1 / 2 * k / (w * w) * sc_grad Rops x c) by (unfold Rdiv; ring).
    exact H.
  - intros P x c HP Hne.
    pose proof (is_derive_scal (fun t => per_dist2 Rops P t c) x (1 / 2 * k / (w * w)) _ (per_grad_derive P x c HP Hne)) as H.
    replace (- (- (1 / 2) * k / (w * w) * per_grad Rops P x c)) with (1 / 2 * k / (w * w) * per_grad Rops P x c) by (unfold Rdiv; ring).
    exact H.
Qed.
Lemma hr_model_unfold k w P c0 x c :
  hr_energy Rops PI k w (KPeriodic P c0) (VS x) (VS c) = Some (1 / 2 * k / (w * w) * per_dist2 Rops P x c) /\
  hr_force Rops PI k w (KPeriodic P c0) (VS x) (VS c) = Some (VS (- (1 / 2) * k / (w * w) * per_grad Rops P x c)) /\
  hr_energy Rops PI k w KScalar (VS x) (VS c) = Some (1 / 2 * k / (w * w) * sc_dist2 Rops x c) /\
  hr_force Rops PI k w KScalar (VS x) (VS c) = Some (VS (- (1 / 2) * k / (w * w) * sc_grad Rops x c)).
Proof. repeat split. Qed.

(* a restraint centred at 179 degrees acting on a value at -179: the value is 2 degrees past the centre across the boundary *)
Lemma hr_across_boundary :
  hr_energy Rops PI 1 1 (KPeriodic 360 0) (VS (-179)) (VS 179) = Some 2 /\
  hr_force Rops PI 1 1 (KPeriodic 360 0) (VS (-179)) (VS 179) = Some (VS (-2)).
Proof.
  destruct (hr_model_unfold 1 1 360 0 (-179) 179) as [E1 [E2 _]]. rewrite E1, E2.
  assert (Hp : pdiff Rops 360 (-179 - 179) = 2) by (apply (pdiff_unique 360 _ 2 (-1)); simpl; lra).
  unfold per_dist2, per_grad. cbn -[pdiff]. rewrite Hp. split; do 2 f_equal; lra.
Qed.

(* ------------------------------------------------------------------ finite-difference velocity *)
Lemma fd_velocity_periodic dt P c0 xo xn : 0 < dt ->
  fd_velocity Rops PI dt (KPeriodic P c0) (VS xo) (VS xn) = Some (VS (pdiff Rops P (xn - xo) / dt)).
Proof.
  intros Hdt. unfold fd_velocity. cbn [comp_lgrad cval_scale nltb n0 Rops].
  replace (Rltb 0 dt) with true by (symmetry; apply Rltb_true; exact Hdt).
  unfold per_grad, nhalf. cbn -[pdiff]. do 2 f_equal. field. lra.
Qed.
Lemma fd_velocity_bound dt P c0 xo xn v : 0 < dt -> 0 < P ->
  fd_velocity Rops PI dt (KPeriodic P c0) (VS xo) (VS xn) = Some (VS v) ->
  - P / 2 <= v * dt < P / 2 /\ exists n : Z, v * dt = xn - xo - IZR n * P.
Proof.
  intros Hdt HP H. rewrite (fd_velocity_periodic dt P c0 xo xn Hdt) in H.
  assert (Hv : v = pdiff Rops P (xn - xo) / dt) by congruence. rewrite Hv. clear H Hv.
  replace (pdiff Rops P (xn - xo) / dt * dt) with (pdiff Rops P (xn - xo)) by (field; lra).
  split; [apply pdiff_range; exact HP | eexists; apply pdiff_eq].
Qed.

(* ------------------------------------------------------------------ harmonic walls on a periodic variable *)
Lemma hw_distance_period P c0 lo up x (n m l : Z) : 0 < P ->
  hw_distance Rops (KPeriodic P c0) (lo + IZR m * P) (up + IZR l * P) (x + IZR n * P) = hw_distance Rops (KPeriodic P c0) lo up x.
Proof.
  intros HP. unfold hw_distance.
  rewrite (per_period P x lo n m HP), (per_period P x up n l HP), (per_grad_period P x lo n m HP), (per_grad_period P x up n l HP).
  reflexivity.
Qed.
(* the displacement that the walls act on is zero or the closest-image displacement from one wall, negative only from the lower
   and positive only from the upper one *)
Lemma hw_distance_cases P c0 lo up x : 0 < P ->
  let d := hw_distance Rops (KPeriodic P c0) lo up x in
  (d = 0 \/ (d = pdiff Rops P (x - lo) /\ d < 0) \/ (d = pdiff Rops P (x - up) /\ 0 < d)) /\ - P / 2 <= d < P / 2.
Proof.
  intros HP d. unfold d, hw_distance, per_grad, nhalf. cbn -[pdiff per_dist2].
  pose proof (pdiff_range P (x - lo) HP) as Hl. pose proof (pdiff_range P (x - up) HP) as Hu.
  destruct (Rltb (per_dist2 Rops P x lo) (per_dist2 Rops P x up)).
  - destruct (Rltb (2 * pdiff Rops P (x - lo)) 0) eqn:E.
    + apply Rltb_true in E. split; [right; left; split; lra | lra].
    + split; [left; reflexivity | lra].
  - destruct (Rltb 0 (2 * pdiff Rops P (x - up))) eqn:E.
    + apply Rltb_true in E. split; [right; right; split; lra | lra].
    + split; [left; reflexivity | lra].
Qed.
Lemma hw_energy_period k w lk uk P c0 lo up x (n m l : Z) : 0 < P ->
  hw_energy Rops k w lk uk (KPeriodic P c0) (lo + IZR m * P) (up + IZR l * P) (x + IZR n * P) = hw_energy Rops k w lk uk (KPeriodic P c0) lo up x /\
  hw_force Rops k w lk uk (KPeriodic P c0) (lo + IZR m * P) (up + IZR l * P) (x + IZR n * P) = hw_force Rops k w lk uk (KPeriodic P c0) lo up x.
Proof. intros HP. unfold hw_energy, hw_force. rewrite (hw_distance_period P c0 lo up x n m l HP). split; reflexivity. Qed.

(* ------------------------------------------------------------------ unit vectors at the two singular geometries: the reported
   gradient (hence the restraint force) is the null vector at coincident AND at exactly opposite vectors (never infinite) *)
Lemma tiny28_pos : 0 < tiny28 Rops.
Proof. unfold tiny28; cbn. apply Rdiv_lt_0_compat; lra. Qed.
Lemma uv_grad_singular (a b : vec3 (T:=R)) : v3dot Rops a b = 1 \/ v3dot Rops a b = -1 -> uv_grad Rops a b = (0, 0, 0).
Proof.
  intros Hc. unfold uv_grad. cbn -[v3dot tiny28 v3scale]. pose proof tiny28_pos as Ht.
  replace (Rltb (1 - v3dot Rops a b * v3dot Rops a b) (tiny28 Rops)) with true; [reflexivity|].
  symmetry; apply Rltb_true. destruct Hc as [-> | ->]; lra.
Qed.
Lemma v3dot_opp_self (a : vec3 (T:=R)) : is_unit a -> v3dot Rops a a = 1 /\ v3dot Rops a (v3scale Rops (-1) a) = -1.
Proof.
  destruct a as [[x y] z]. unfold is_unit, v3norm2, v3dot, v3scale; cbn. intros H. split; [exact H | lra].
Qed.
Lemma hr_unit_singular_force k w (a : vec3 (T:=R)) : is_unit a ->
  hr_force Rops PI k w KUnit (V3 a) (V3 a) = Some (V3 (- (1 / 2) * k / (w * w) * 0, - (1 / 2) * k / (w * w) * 0, - (1 / 2) * k / (w * w) * 0)) /\
  hr_force Rops PI k w KUnit (V3 a) (V3 (v3scale Rops (-1) a)) = Some (V3 (- (1 / 2) * k / (w * w) * 0, - (1 / 2) * k / (w * w) * 0, - (1 / 2) * k / (w * w) * 0)).
Proof.
  intros Ha. destruct (v3dot_opp_self a Ha) as [H1 H2]. unfold hr_force. cbn [comp_lgrad].
  rewrite (uv_grad_singular a a (or_introl H1)), (uv_grad_singular a _ (or_intror H2)). split; reflexivity.
Qed.

(* ------------------------------------------------------------------ one metadynamics hill / one OPES kernel *)
Lemma hill_wrap W sigma kind x c : comp_ok kind ->
  hill_energy Rops PI W sigma kind (comp_wrap Rops kind x) (comp_wrap Rops kind c) = hill_energy Rops PI W sigma kind x c /\
  hill_force Rops PI W sigma kind (comp_wrap Rops kind x) (comp_wrap Rops kind c) = hill_force Rops PI W sigma kind x c.
Proof.
  intros Hk. unfold hill_energy, hill_force, hill_value. destruct (comp_wrap_dist2 kind x c Hk) as [E1 E2]. rewrite E1, E2. split; reflexivity.
Qed.
Lemma hill_periodic_images W sigma P c0 x c (n m : Z) : 0 < P ->
  hill_energy Rops PI W sigma (KPeriodic P c0) (VS (x + IZR n * P)) (VS (c + IZR m * P)) = hill_energy Rops PI W sigma (KPeriodic P c0) (VS x) (VS c) /\
  hill_force Rops PI W sigma (KPeriodic P c0) (VS (x + IZR n * P)) (VS (c + IZR m * P)) = hill_force Rops PI W sigma (KPeriodic P c0) (VS x) (VS c).
Proof.
  intros HP. unfold hill_energy, hill_force, hill_value. cbn [comp_dist2 comp_lgrad].
  rewrite (per_period P x c n m HP), (per_grad_period P x c n m HP). split; reflexivity.
Qed.
Lemma hill_quaternion_sign W sigma q c :
  hill_energy Rops PI W sigma KQuat (VQ (qneg Rops q)) (VQ c) = hill_energy Rops PI W sigma KQuat (VQ q) (VQ c) /\
  hill_energy Rops PI W sigma KQuat (VQ q) (VQ (qneg Rops c)) = hill_energy Rops PI W sigma KQuat (VQ q) (VQ c).
Proof. unfold hill_energy, hill_value. cbn [comp_dist2]. rewrite q_sign_l, q_sign_r. split; reflexivity. Qed.
Lemma opes_kernel_images h sigma cut vac P c0 kc x (n m : Z) : 0 < P ->
  opes_kernel Rops PI h sigma cut vac (KPeriodic P c0) (kc + IZR n * P) (x + IZR m * P) = opes_kernel Rops PI h sigma cut vac (KPeriodic P c0) kc x /\
  opes_kernel Rops PI h sigma cut vac (KPeriodic P c0) (cvc_wrap Rops c0 P kc) (cvc_wrap Rops c0 P x) = opes_kernel Rops PI h sigma cut vac (KPeriodic P c0) kc x.
Proof.
  intros HP. unfold opes_kernel. cbn [comp_dist2]. rewrite (per_period P kc x n m HP).
  destruct (wrap_dist2_both c0 c0 P kc x HP) as [E _]. rewrite E. split; reflexivity.
Qed.

(* ------------------------------------------------------------------ on the manifolds: along every (tangent) curve through the
   value the derivative of the restraint energy is minus <restraint force, velocity> *)
Lemma v3dot_scale_l s (g e : vec3 (T:=R)) : v3dot Rops (v3scale Rops s g) e = s * v3dot Rops g e.
Proof. destruct g as [[a b] c], e as [[x y] z]. unfold v3dot, v3scale; cbn. ring. Qed.
Lemma qdot_scale_l s (g e : quat (T:=R)) : qdot Rops (qscale Rops s g) e = s * qdot Rops g e.
Proof. destruct g as [[[a b] c] d], e as [[[x y] z] u]. unfold qdot, qscale; cbn. ring. Qed.

Lemma hr_unit_force_curve k w (x y z : R -> R) (ex ey ez : R) (c : vec3 (T:=R)) :
  is_derive x 0 ex -> is_derive y 0 ey -> is_derive z 0 ez -> uv_nonsingular (x 0, y 0, z 0) c ->
  is_derive (fun t => 1 / 2 * k / (w * w) * uv_dist2 Rops (x t, y t, z t) c) 0
            (- v3dot Rops (v3scale Rops (- (1 / 2) * k / (w * w)) (uv_grad Rops (x 0, y 0, z 0) c)) (ex, ey, ez)).
Proof.
  intros Hx Hy Hz Hns.
  pose proof (is_derive_scal (fun t => uv_dist2 Rops (x t, y t, z t) c) 0 (1 / 2 * k / (w * w)) _
                (uv_grad_curve_derive x y z ex ey ez c Hx Hy Hz Hns)) as H.
  rewrite v3dot_scale_l.
  match type of H with is_derive _ _ ?l => match goal with |- is_derive _ _ ?r => replace r with l by (unfold Rdiv; ring) end end.
  exact H.
Qed.
Lemma hr_quat_force_curve k w (a0 a1 a2 a3 : R -> R) (e0 e1 e2 e3 : R) (c : quat (T:=R)) :
  is_derive a0 0 e0 -> is_derive a1 0 e1 -> is_derive a2 0 e2 -> is_derive a3 0 e3 ->
  qdot Rops (a0 0, a1 0, a2 0, a3 0) (e0, e1, e2, e3) = 0 -> q_nonsingular (a0 0, a1 0, a2 0, a3 0) c ->
  is_derive (fun t => 1 / 2 * k / (w * w) * q_dist2 Rops PI (a0 t, a1 t, a2 t, a3 t) c) 0
            (- qdot Rops (qscale Rops (- (1 / 2) * k / (w * w)) (q_grad Rops PI (a0 0, a1 0, a2 0, a3 0) c)) (e0, e1, e2, e3)).
Proof.
  intros H0 H1 H2 H3 Ht Hns.
  pose proof (is_derive_scal (fun t => q_dist2 Rops PI (a0 t, a1 t, a2 t, a3 t) c) 0 (1 / 2 * k / (w * w)) _
                (q_grad_curve_derive a0 a1 a2 a3 e0 e1 e2 e3 c H0 H1 H2 H3 Ht Hns)) as H.
  rewrite qdot_scale_l.
  match type of H with is_derive _ _ ?l => match goal with |- is_derive _ _ ?r => replace r with l by (unfold Rdiv; ring) end end.
  exact H.
Qed.
Lemma hr_manifold_unfold k w a b q c :
  hr_energy Rops PI k w KUnit (V3 a) (V3 b) = Some (1 / 2 * k / (w * w) * uv_dist2 Rops a b) /\
  hr_force Rops PI k w KUnit (V3 a) (V3 b) = Some (V3 (v3scale Rops (- (1 / 2) * k / (w * w)) (uv_grad Rops a b))) /\
  hr_energy Rops PI k w KQuat (VQ q) (VQ c) = Some (1 / 2 * k / (w * w) * q_dist2 Rops PI q c) /\
  hr_force Rops PI k w KQuat (VQ q) (VQ c) = Some (VQ (qscale Rops (- (1 / 2) * k / (w * w)) (q_grad Rops PI q c))).
Proof. repeat split. Qed.
