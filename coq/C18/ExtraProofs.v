(* C18 extensions: apply_constraints, quaternion interpolation, right gradients, generic-vector gradient, the per-component
   dispatch, wrap/dist2 commutation (also along histories), bias centres (moving restraint, OPES kernel merge).  Lemmas only. *)
From Coq Require Import ZArith List Bool Reals Lra Lia Psatz.
From Flocq Require Import Core.Raux.
From Coquelicot Require Import Coquelicot.
From CV Require Import Base.Num Base.RNum C18.ValueModel C18.ValueProofs C18.GradProofs.
Import ListNotations.
Local Open Scope R_scope.

(* ------------------------------------------------------------------ apply_constraints *)
Lemma uv_constrain_unit v : v3norm2 Rops v <> 0 -> is_unit (uv_constrain Rops v).
Proof.
  unfold uv_constrain, is_unit. destruct v as [[x y] z]. intros Hn.
  unfold v3norm2, v3dot in *; cbn in *.
  set (s := x * x + y * y + z * z) in *.
  assert (Hs : 0 < s) by (unfold s in *; nra).
  assert (Hq : sqrt s * sqrt s = s) by (apply sqrt_sqrt; lra).
  assert (Hq0 : sqrt s <> 0) by (intros E; rewrite E in Hq; lra).
  replace (x / sqrt s * (x / sqrt s) + y / sqrt s * (y / sqrt s) + z / sqrt s * (z / sqrt s))
    with ((x * x + y * y + z * z) / (sqrt s * sqrt s)) by (field; auto).
  rewrite Hq. fold s. field. lra.
Qed.
Lemma uv_constrain_fix v : is_unit v -> uv_constrain Rops v = v.
Proof.
  intros H. unfold uv_constrain. destruct v as [[x y] z]. unfold is_unit in H. rewrite H. cbn.
  rewrite sqrt_1. f_equal; [f_equal|]; field.
Qed.
Lemma uv_constrain_idem v : v3norm2 Rops v <> 0 -> uv_constrain Rops (uv_constrain Rops v) = uv_constrain Rops v.
Proof. intros H. apply uv_constrain_fix, uv_constrain_unit, H. Qed.
Lemma uv_interp_is_constrain a b l : uv_interp Rops a b l = uv_constrain Rops (v3_interp Rops a b l).
Proof. unfold uv_interp, uv_constrain. destruct (v3_interp Rops a b l) as [[x y] z]. reflexivity. Qed.

Lemma q_constrain_unit q : qnorm2 Rops q <> 0 -> q_unit (q_constrain Rops q).
Proof.
  unfold q_constrain, q_unit, qnorm2. destruct q as [[[x y] z] u]. intros Hn.
  unfold qdot in *; cbn in *.
  set (s := x * x + y * y + z * z + u * u) in *.
  assert (Hs : 0 < s) by (unfold s in *; nra).
  assert (Hq : sqrt s * sqrt s = s) by (apply sqrt_sqrt; lra).
  assert (Hq0 : sqrt s <> 0) by (intros E; rewrite E in Hq; lra).
  replace (x / sqrt s * (x / sqrt s) + y / sqrt s * (y / sqrt s) + z / sqrt s * (z / sqrt s) + u / sqrt s * (u / sqrt s))
    with ((x * x + y * y + z * z + u * u) / (sqrt s * sqrt s)) by (field; auto).
  rewrite Hq. fold s. field. lra.
Qed.
Lemma q_constrain_fix q : q_unit q -> q_constrain Rops q = q.
Proof.
  intros H. unfold q_constrain. destruct q as [[[x y] z] u]. unfold q_unit in H. rewrite H. cbn.
  rewrite sqrt_1. f_equal; [f_equal; [f_equal|]|]; field.
Qed.
Lemma q_constrain_idem q : qnorm2 Rops q <> 0 -> q_constrain Rops (q_constrain Rops q) = q_constrain Rops q.
Proof. intros H. apply q_constrain_fix, q_constrain_unit, H. Qed.

(* ------------------------------------------------------------------ quaternion interpolation *)
Lemma q_lin_0 q1 q2 : q_lin Rops q1 q2 0 = q1.
Proof. destruct q1 as [[[a b] c] d], q2 as [[[e f] g] h]. unfold q_lin, qadd, qscale; cbn. f_equal; [f_equal; [f_equal|]|]; ring. Qed.
Lemma q_lin_1 q1 q2 : q_lin Rops q1 q2 1 = q2.
Proof. destruct q1 as [[[a b] c] d], q2 as [[[e f] g] h]. unfold q_lin, qadd, qscale; cbn. f_equal; [f_equal; [f_equal|]|]; ring. Qed.
Lemma q_interp_unit q1 q2 l : qnorm2 Rops (q_lin Rops q1 q2 l) <> 0 -> q_unit (q_interp Rops q1 q2 l).
Proof. apply q_constrain_unit. Qed.
Lemma q_interp_0 q1 q2 : q_unit q1 -> q_interp Rops q1 q2 0 = q1.
Proof. intros H. unfold q_interp. rewrite q_lin_0. apply q_constrain_fix, H. Qed.
Lemma q_interp_1 q1 q2 : q_unit q2 -> q_interp Rops q1 q2 1 = q2.
Proof. intros H. unfold q_interp. rewrite q_lin_1. apply q_constrain_fix, H. Qed.

Lemma tiny6_pos : 0 < tiny6 Rops.
Proof. unfold tiny6; cbn. apply Rdiv_lt_0_compat; lra. Qed.

(* whenever the implementation does not raise its "undefined" error, the interpolated value is on the manifold *)
Lemma q_interp_defined_unit q1 q2 l : q_interp_undefined Rops PI q1 q2 l = false -> q_unit (q_interp Rops q1 q2 l).
Proof.
  unfold q_interp_undefined. intros H. apply negb_false_iff in H. cbn [nleb ndiv nsqrt Rops] in H. apply Rleb_true in H.
  apply q_interp_unit. intros E. rewrite E, sqrt_0 in H. pose proof tiny6_pos. unfold Rdiv in H. rewrite Rmult_0_l in H. lra.
Qed.
Lemma uv_interp_defined_unit a b l : uv_interp_undefined Rops a b l = false -> is_unit (uv_interp Rops a b l).
Proof.
  unfold uv_interp_undefined. intros H. apply negb_false_iff in H. cbn [nleb ndiv nsqrt Rops] in H. apply Rleb_true in H.
  apply uv_interp_unit. intros E. rewrite E, sqrt_0 in H. pose proof tiny6_pos. unfold Rdiv in H. rewrite Rmult_0_l in H. lra.
Qed.

(* ------------------------------------------------------------------ right gradients *)
Lemma sc_rgrad_derive x1 x2 : is_derive (fun y => sc_dist2 Rops x1 y) x2 (sc_rgrad Rops x1 x2).
Proof.
  apply (is_derive_ext (fun y => sc_dist2 Rops y x1)); [intros y; apply sc_sym|]. apply sc_grad_derive.
Qed.
Lemma sc_rgrad_minus x1 x2 : sc_rgrad Rops x1 x2 = - sc_grad Rops x1 x2.
Proof. unfold sc_rgrad, sc_grad; cbn. ring. Qed.

Lemma per_rgrad_derive P x1 x2 : 0 < P -> pdiff Rops P (x2 - x1) <> - P / 2 ->
  is_derive (fun y => per_dist2 Rops P x1 y) x2 (per_rgrad Rops P x1 x2).
Proof.
  intros HP Hne.
  apply (is_derive_ext (fun y => per_dist2 Rops P y x1)); [intros y; apply per_sym; exact HP|].
  apply per_grad_derive; assumption.
Qed.
(* off the half-period cut the right gradient is minus the left one; ON the cut both are -P *)
Lemma pdiff_opp P d : 0 < P -> pdiff Rops P d <> - P / 2 -> pdiff Rops P (- d) = - pdiff Rops P d.
Proof.
  intros HP Hne. pose proof (pdiff_range P d HP) as [Hlo Hhi].
  apply (pdiff_unique P (- d) _ (- Zfloor (d / P + 1 / 2))); [lra|lra|].
  rewrite pdiff_eq, opp_IZR. ring.
Qed.
Lemma per_rgrad_minus P x1 x2 : 0 < P -> pdiff Rops P (x1 - x2) <> - P / 2 ->
  per_rgrad Rops P x1 x2 = - per_grad Rops P x1 x2.
Proof.
  intros HP Hne. unfold per_rgrad, per_grad. cbn -[pdiff].
  replace (x2 - x1) with (- (x1 - x2)) by ring. rewrite pdiff_opp by assumption. ring.
Qed.
Lemma per_rgrad_on_cut P x1 x2 : 0 < P -> pdiff Rops P (x1 - x2) = - P / 2 ->
  per_rgrad Rops P x1 x2 = - P /\ per_grad Rops P x1 x2 = - P.
Proof.
  intros HP He. unfold per_rgrad, per_grad. cbn -[pdiff]. rewrite He. split; [|field].
  assert (pdiff Rops P (x2 - x1) = - P / 2) as ->; [|field].
  rewrite pdiff_eq in He.
  apply (pdiff_unique P (x2 - x1) (- P / 2) (- Zfloor ((x1 - x2) / P + 1 / 2) + 1)); [lra|lra|].
  rewrite plus_IZR, opp_IZR. set (f := IZR (Zfloor ((x1 - x2) / P + 1 / 2))) in *. nra.
Qed.

Lemma v3_rgrad_minus a b : v3_rgrad Rops a b = v3scale Rops (-1) (v3_grad Rops a b).
Proof.
  destruct a as [[ax ay] az], b as [[bx by_] bz]. unfold v3_rgrad, v3_grad, v3scale, v3sub; cbn.
  f_equal; [f_equal|]; ring.
Qed.
Lemma v3_rgrad_derive_x (a : vec3 (T:=R)) bx by_ bz :
  is_derive (fun t => v3_dist2 Rops a (t, by_, bz)) bx (fst (fst (v3_rgrad Rops a (bx, by_, bz)))).
Proof. apply (is_derive_ext (fun t => v3_dist2 Rops (t, by_, bz) a)); [intros t; apply v3_sym|]. apply v3_grad_derive_x. Qed.
Lemma v3_rgrad_derive_y (a : vec3 (T:=R)) bx by_ bz :
  is_derive (fun t => v3_dist2 Rops a (bx, t, bz)) by_ (snd (fst (v3_rgrad Rops a (bx, by_, bz)))).
Proof. apply (is_derive_ext (fun t => v3_dist2 Rops (bx, t, bz) a)); [intros t; apply v3_sym|]. apply v3_grad_derive_y. Qed.
Lemma v3_rgrad_derive_z (a : vec3 (T:=R)) bx by_ bz :
  is_derive (fun t => v3_dist2 Rops a (bx, by_, t)) bz (snd (v3_rgrad Rops a (bx, by_, bz))).
Proof. apply (is_derive_ext (fun t => v3_dist2 Rops (bx, by_, t) a)); [intros t; apply v3_sym|]. apply v3_grad_derive_z. Qed.

Lemma uv_rgrad_curve_derive (x y z : R -> R) (ex ey ez : R) (v1 : vec3 (T:=R)) :
  is_derive x 0 ex -> is_derive y 0 ey -> is_derive z 0 ez ->
  uv_nonsingular (x 0, y 0, z 0) v1 ->
  is_derive (fun t => uv_dist2 Rops v1 (x t, y t, z t)) 0
            (v3dot Rops (uv_rgrad Rops v1 (x 0, y 0, z 0)) (ex, ey, ez)).
Proof.
  intros Hx Hy Hz Hns.
  apply (is_derive_ext (fun t => uv_dist2 Rops (x t, y t, z t) v1)); [intros t; apply uv_sym|].
  apply uv_grad_curve_derive; assumption.
Qed.
Lemma q_rgrad_curve_derive (a0 a1 a2 a3 : R -> R) (e0 e1 e2 e3 : R) (q1 : quat (T:=R)) :
  is_derive a0 0 e0 -> is_derive a1 0 e1 -> is_derive a2 0 e2 -> is_derive a3 0 e3 ->
  qdot Rops (a0 0, a1 0, a2 0, a3 0) (e0, e1, e2, e3) = 0 ->
  q_nonsingular (a0 0, a1 0, a2 0, a3 0) q1 ->
  is_derive (fun t => q_dist2 Rops PI q1 (a0 t, a1 t, a2 t, a3 t)) 0
            (qdot Rops (q_rgrad Rops PI q1 (a0 0, a1 0, a2 0, a3 0)) (e0, e1, e2, e3)).
Proof.
  intros H0 H1 H2 H3 Ht Hns.
  apply (is_derive_ext (fun t => q_dist2 Rops PI (a0 t, a1 t, a2 t, a3 t) q1)); [intros t; apply q_sym|].
  apply q_grad_curve_derive; assumption.
Qed.
(* on the manifolds the right gradient is NOT minus the left one as a vector (it lives in the tangent space at x2) *)
Lemma uv_rgrad_not_minus_lgrad : exists a b : vec3 (T:=R), is_unit a /\ is_unit b /\
  uv_rgrad Rops a b <> v3scale Rops (-1) (uv_grad Rops a b).
Proof.
  exists (1, 0, 0), (0, 1, 0). unfold is_unit, v3norm2, v3dot. cbn [nadd nmul Rops]. repeat split; try ring.
  unfold uv_rgrad, uv_grad, v3scale, v3dot. cbn [nadd nmul nsub ndiv nneg nacos nsqrt nofZ n0 n1 nltb Rops].
  replace (0 * 1 + 1 * 0 + 0 * 0) with 0 by ring. replace (1 * 0 + 0 * 1 + 0 * 0) with 0 by ring.
  replace (1 - 0 * 0) with 1 by ring.
  assert (Ht : tiny28 Rops < 1).
  { unfold tiny28; cbn. apply Rmult_lt_reg_r with (100000000000000 * 100000000000000); [lra|].
    unfold Rdiv. rewrite Rmult_assoc, Rinv_l by lra. lra. }
  replace (Rltb 1 (tiny28 Rops)) with false by (symmetry; apply Rltb_false; lra).
  intros E. injection E as E1 E2 E3.
  rewrite sqrt_1, acos_0 in E1.
  pose proof PI_RGT_0. lra.
Qed.

(* ------------------------------------------------------------------ generic vector: gradient = partial derivatives *)
Fixpoint upd (l : list R) (i : nat) (t : R) : list R :=
  match l, i with
  | [], _ => []
  | _ :: r, O => t :: r
  | a :: r, S j => a :: upd r j t
  end.
Lemma vec_grad_derive l1 : forall l2 i, length l1 = length l2 -> (i < length l1)%nat ->
  is_derive (fun t => vec_dist2 Rops (upd l1 i t) l2) (nth i l1 0) (nth i (vec_grad Rops l1 l2) 0).
Proof.
  induction l1 as [|a r IH]; intros [|b r2] i Hl Hi; cbn [length] in *; try lia; try discriminate.
  destruct i as [|j]; cbn [upd nth vec_grad].
  - apply (is_derive_ext (fun t => (t - b) * (t - b) + vec_dist2 Rops r r2)); [intros t; reflexivity|].
    cbn [nmul nsub nofZ Rops]. auto_derive; [exact I|]. ring.
  - apply (is_derive_ext (fun t => (a - b) * (a - b) + vec_dist2 Rops (upd r j t) r2)); [intros t; reflexivity|].
    assert (Hj : (j < length r)%nat) by lia. injection Hl as Hl.
    pose proof (IH r2 j Hl Hj) as H.
    pose proof (is_derive_plus (fun _ : R => (a - b) * (a - b)) _ (nth j r 0) 0 _ (is_derive_const _ _) H) as Hp.
    match type of Hp with is_derive _ _ ?l => replace (nth j (vec_grad Rops r r2) 0) with l by (unfold plus, zero; simpl; ring) end.
    exact Hp.
Qed.
Lemma vec_rgrad_derive l1 l2 i : length l1 = length l2 -> (i < length l2)%nat ->
  is_derive (fun t => vec_dist2 Rops l1 (upd l2 i t)) (nth i l2 0) (nth i (vec_rgrad Rops l1 l2) 0).
Proof.
  intros Hl Hi. apply (is_derive_ext (fun t => vec_dist2 Rops (upd l2 i t) l1)); [intros t; apply vec_sym|].
  apply vec_grad_derive; [symmetry; exact Hl | exact Hi].
Qed.

(* ------------------------------------------------------------------ wrap commutes with dist2 *)
Lemma cvc_wrap_shift c P x : exists n : Z, cvc_wrap Rops c P x = x + IZR n * P.
Proof. exists (- Zfloor ((x - c) / P + 1 / 2))%Z. unfold cvc_wrap; cbn. rewrite opp_IZR. ring. Qed.
Lemma wrap_dist2_l c P x y : 0 < P -> per_dist2 Rops P (cvc_wrap Rops c P x) y = per_dist2 Rops P x y.
Proof.
  intros HP. destruct (cvc_wrap_shift c P x) as [n ->].
  replace y with (y + IZR 0 * P) at 1 by (simpl; ring). apply per_period; exact HP.
Qed.
Lemma wrap_dist2_r c P x y : 0 < P -> per_dist2 Rops P x (cvc_wrap Rops c P y) = per_dist2 Rops P x y.
Proof.
  intros HP. destruct (cvc_wrap_shift c P y) as [n ->].
  replace x with (x + IZR 0 * P) at 1 by (simpl; ring). apply per_period; exact HP.
Qed.
Lemma wrap_grad_l c P x y : 0 < P -> per_grad Rops P (cvc_wrap Rops c P x) y = per_grad Rops P x y.
Proof.
  intros HP. destruct (cvc_wrap_shift c P x) as [n ->]. unfold per_grad. cbn -[pdiff].
  replace (x + IZR n * P - y) with (x - y + IZR n * P) by ring. rewrite pdiff_period by exact HP. reflexivity.
Qed.
Lemma wrap_grad_r c P x y : 0 < P -> per_grad Rops P x (cvc_wrap Rops c P y) = per_grad Rops P x y.
Proof.
  intros HP. destruct (cvc_wrap_shift c P y) as [n ->]. unfold per_grad. cbn -[pdiff].
  replace (x - (y + IZR n * P)) with (x - y + IZR (- n) * P) by (rewrite opp_IZR; ring).
  rewrite pdiff_period by exact HP. reflexivity.
Qed.
(* both arguments, wrapped around ANY two centres *)
Lemma wrap_dist2_both c1 c2 P x y : 0 < P ->
  per_dist2 Rops P (cvc_wrap Rops c1 P x) (cvc_wrap Rops c2 P y) = per_dist2 Rops P x y /\
  per_grad Rops P (cvc_wrap Rops c1 P x) (cvc_wrap Rops c2 P y) = per_grad Rops P x y.
Proof. intros HP. rewrite wrap_dist2_l, wrap_dist2_r, wrap_grad_l, wrap_grad_r by exact HP. split; reflexivity. Qed.
Lemma cvc_wrap_period c P x (n : Z) : 0 < P -> cvc_wrap Rops c P (x + IZR n * P) = cvc_wrap Rops c P x.
Proof.
  intros HP. unfold cvc_wrap; cbn.
  replace ((x + IZR n * P - c) / P + 1 / 2) with ((x - c) / P + 1 / 2 + IZR n) by (field; lra).
  rewrite Zfloor_add_IZR, plus_IZR. ring.
Qed.

(* after EVERY history of parameter changes: the distance (and gradient) between the wrapped values equals the one between
   the unwrapped values, both taken with the parameters in force *)
Lemma pv_history_wrap_dist2 (s : pvar (T:=R)) h x1 x2 :
  let s' := pv_in_force s h in
  0 < pv_P s' ->
  snd (pv_run Rops s (h ++ [PvDist2 (cvc_wrap Rops (pv_c s') (pv_P s') x1) (cvc_wrap Rops (pv_c s') (pv_P s') x2)])) =
  snd (pv_run Rops s (h ++ [PvDist2 x1 x2])) /\
  pv_wrapped_dist2 Rops s' x1 x2 = [per_dist2 Rops (pv_P s') x1 x2; per_grad Rops (pv_P s') x1 x2].
Proof.
  intros s' HP. rewrite !pv_run_app. cbn [snd]. rewrite pv_run_state. fold s'.
  cbn [pv_run pv_step snd]. unfold pv_wrapped_dist2.
  destruct (wrap_dist2_both (pv_c s') (pv_c s') (pv_P s') x1 x2 HP) as [E1 E2].
  rewrite E1, E2. split; reflexivity.
Qed.

(* ------------------------------------------------------------------ per-component dispatch *)
Definition comp_ok (k : comp_kind (T:=R)) : Prop :=
  match k with
  | KPeriodic P _ => 0 < P
  | KVec3 _ (Some (lx, ly, lz)) => 0 < lx /\ 0 < ly /\ 0 < lz
  | _ => True
  end.
Lemma dv_sym pbc cell x1 x2 : comp_ok (KVec3 pbc cell) -> dv_dist2 Rops pbc cell x1 x2 = dv_dist2 Rops pbc cell x2 x1.
Proof.
  destruct x1 as [[a1 b1] c1], x2 as [[a2 b2] c2]. unfold dv_dist2, comp_ok.
  destruct pbc; [|intros _; unfold v3norm2, v3dot, v3sub; cbn; ring].
  destruct cell as [[[lx ly] lz]|]; [|intros _; unfold position_distance, v3norm2, v3dot, v3sub; cbn; ring].
  intros [Hx [Hy Hz]]. unfold position_distance, v3sub, v3norm2, v3dot. cbn -[min_image1]. rewrite !min_image1_pdiff.
  replace (a1 - a2) with (- (a2 - a1)) by ring. replace (b1 - b2) with (- (b2 - b1)) by ring.
  replace (c1 - c2) with (- (c2 - c1)) by ring.
  rewrite (pdiff_neg_sq lx _ Hx), (pdiff_neg_sq ly _ Hy), (pdiff_neg_sq lz _ Hz). reflexivity.
Qed.
Lemma comp_dist2_sym k a b : comp_ok k -> comp_dist2 Rops PI k a b = comp_dist2 Rops PI k b a.
Proof.
  intros Hk. destruct k as [|P c|pbc cell| | |]; destruct a as [x|x|x|x], b as [y|y|y|y]; cbn [comp_dist2]; try reflexivity; f_equal.
  - apply sc_sym.
  - apply per_sym; exact Hk.
  - apply dv_sym; exact Hk.
  - apply uv_sym.
  - apply q_sym.
  - apply vec_sym.
Qed.
Lemma comp_rgrad_is_swapped_lgrad k a b : comp_rgrad Rops PI k a b = comp_lgrad Rops PI k b a.
Proof. reflexivity. Qed.
(* wrap: identity for every non-periodic component; for a periodic one the equivalent value in the interval around the
   component's wrapAround; it never changes a distance or a gradient *)
Lemma comp_wrap_spec k a : comp_ok k ->
  match k, a with
  | KPeriodic P c, VS x => exists y, comp_wrap Rops k a = VS y /\ c - P / 2 <= y < c + P / 2 /\ (exists n : Z, y = x - IZR n * P)
  | _, _ => comp_wrap Rops k a = a
  end.
Proof.
  intros Hk. destruct k as [|P c|pbc cell| | |]; destruct a as [x|x|x|x]; cbn [comp_wrap]; try reflexivity.
  eexists; split; [reflexivity|]. split; [apply cvc_wrap_range; exact Hk | apply cvc_wrap_equiv].
Qed.
Lemma comp_wrap_dist2 k a b : comp_ok k ->
  comp_dist2 Rops PI k (comp_wrap Rops k a) (comp_wrap Rops k b) = comp_dist2 Rops PI k a b /\
  comp_lgrad Rops PI k (comp_wrap Rops k a) (comp_wrap Rops k b) = comp_lgrad Rops PI k a b.
Proof.
  intros Hk. destruct k as [|P c|pbc cell| | |]; destruct a as [x|x|x|x], b as [y|y|y|y];
    cbn [comp_wrap comp_dist2 comp_lgrad]; try (split; reflexivity).
  destruct (wrap_dist2_both c c P x y Hk) as [E1 E2]. rewrite E1, E2. split; reflexivity.
Qed.

(* ------------------------------------------------------------------ bias centres *)
(* moving restraint: the wrapped centre lies in the wrap interval and is seen by the restraint exactly like the
   unwrapped interpolated centre; the schedule reaches both configured centres up to whole periods *)
Lemma mr_center_props c P x0 x1 l x : 0 < P ->
  c - P / 2 <= mr_center Rops c P x0 x1 l < c + P / 2 /\
  per_dist2 Rops P x (mr_center Rops c P x0 x1 l) = per_dist2 Rops P x (sc_interp Rops x0 x1 l) /\
  per_grad Rops P x (mr_center Rops c P x0 x1 l) = per_grad Rops P x (sc_interp Rops x0 x1 l) /\
  per_dist2 Rops P (mr_center Rops c P x0 x1 0) x0 = 0 /\ per_dist2 Rops P (mr_center Rops c P x0 x1 1) x1 = 0.
Proof.
  intros HP. unfold mr_center. split; [apply cvc_wrap_range; exact HP|].
  split; [apply wrap_dist2_r; exact HP|]. split; [apply wrap_grad_r; exact HP|].
  rewrite !wrap_dist2_l by exact HP. rewrite sc_interp_0, sc_interp_1.
  split; apply per_zero_iff; try exact HP; exists 0%Z; simpl; ring.
Qed.
(* colvarvalue::interpolate of a periodic scalar is the plain linear interpolation: it does NOT follow the shortest image
   (from 170 to -170 with period 360 it passes through 0, 170 away from the start, although the end points are 20 apart).
   The property only requires the end points and the manifold; recorded as behaviour, not as a defect. *)
Lemma periodic_interp_not_shortest_image : exists P x0 x1 l : R, 0 < P /\ 0 <= l <= 1 /\
  per_dist2 Rops P x1 x0 < per_dist2 Rops P (sc_interp Rops x0 x1 l) x0.
Proof.
  exists 360, 170, (-170), (1 / 2). split; [lra|]. split; [lra|].
  unfold per_dist2, sc_interp. cbn -[pdiff].
  assert (pdiff Rops 360 (-170 - 170) = 20) as -> by (apply (pdiff_unique 360 _ 20 (-1)); simpl; lra).
  assert (pdiff Rops 360 ((1 - 1 / 2) * 170 + 1 / 2 * -170 - 170) = -170) as ->
    by (apply (pdiff_unique 360 _ (-170) 0); simpl; lra).
  lra.
Qed.

(* OPES kernel merge on a periodic variable: the merged centre is unchanged when either kernel centre is replaced by a
   periodic image, and lies in the wrap interval *)
Lemma opes_merge_center_period c P h1 k1 h2 k2 (n m : Z) : 0 < P -> h1 + h2 <> 0 ->
  opes_merge_center Rops c P h1 (k1 + IZR n * P) h2 (k2 + IZR m * P) = opes_merge_center Rops c P h1 k1 h2 k2.
Proof.
  intros HP Hh. unfold opes_merge_center, per_grad, nhalf. cbn -[pdiff cvc_wrap].
  rewrite (pdiff_shift2 P k1 k2 n m HP).
  set (d := pdiff Rops P (k1 - k2)).
  replace ((h1 * (k2 + IZR m * P + 1 / 2 * (2 * d)) + h2 * (k2 + IZR m * P)) / (h1 + h2))
    with ((h1 * (k2 + 1 / 2 * (2 * d)) + h2 * k2) / (h1 + h2) + IZR m * P) by (field; exact Hh).
  apply cvc_wrap_period; exact HP.
Qed.
Lemma opes_merge_center_range c P h1 k1 h2 k2 : 0 < P ->
  c - P / 2 <= opes_merge_center Rops c P h1 k1 h2 k2 < c + P / 2.
Proof. intros HP. unfold opes_merge_center. apply cvc_wrap_range; exact HP. Qed.

(* ------------------------------------------------------------------ record of a repaired defect: the distance of a periodic
   scripted / custom-function variable (colvar::dist2 before the repair) compared the DIFFERENCE with the wrap interval
   [c - P/2, c + P/2] of the VALUES and shifted by at most one period: with c <> 0 it was neither symmetric nor the shortest image *)
Definition scripted_diff_before_fix (c P d : R) : R :=
  if Rltb d (c - P / 2) then d + P else if Rltb (c + P / 2) d then d - P else d.
Lemma scripted_dist2_before_fix_not_symmetric : exists c P x1 x2 : R, 0 < P /\
  (scripted_diff_before_fix c P (x1 - x2))² <> (scripted_diff_before_fix c P (x2 - x1))².
Proof.
  exists 180, 360, 350, 10. split; [lra|]. unfold scripted_diff_before_fix.
  replace (Rltb (350 - 10) (180 - 360 / 2)) with false by (symmetry; apply Rltb_false; lra).
  replace (Rltb (180 + 360 / 2) (350 - 10)) with false by (symmetry; apply Rltb_false; lra).
  replace (Rltb (10 - 350) (180 - 360 / 2)) with true by (symmetry; apply Rltb_true; lra).
  unfold Rsqr. lra.
Qed.
