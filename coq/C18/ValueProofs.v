From Coq Require Import ZArith List Bool Reals Lra Lia Psatz.
From Flocq Require Import Core.Raux.
From Coquelicot Require Import Coquelicot.
From CV Require Import Base.Num Base.RNum C18.ValueModel.
Import ListNotations.
Local Open Scope R_scope.

Lemma sq_nonneg (a : R) : 0 <= a * a.
Proof. nra. Qed.
Lemma sq_zero (a : R) : a * a = 0 -> a = 0.
Proof. nra. Qed.

(* ------------------------------------------------------------------ scalar *)
Lemma sc_nonneg x1 x2 : 0 <= sc_dist2 Rops x1 x2.
Proof. unfold sc_dist2; cbn. set (d := x1 - x2). nra. Qed.
Lemma sc_sym x1 x2 : sc_dist2 Rops x1 x2 = sc_dist2 Rops x2 x1.
Proof. unfold sc_dist2; cbn. ring. Qed.
Lemma sc_zero_iff x1 x2 : sc_dist2 Rops x1 x2 = 0 <-> x1 = x2.
Proof.
  unfold sc_dist2; cbn. split; intros H; [|subst; ring].
  set (d := x1 - x2) in *. assert (d = 0) by nra. unfold d in *. lra.
Qed.
Lemma sc_grad_derive x1 x2 : is_derive (fun x => sc_dist2 Rops x x2) x1 (sc_grad Rops x1 x2).
Proof. unfold sc_dist2, sc_grad; cbn. auto_derive; auto. ring. Qed.

(* ------------------------------------------------------------------ periodic scalar *)
Lemma pdiff_eq P d : pdiff Rops P d = d - IZR (Zfloor (d / P + 1 / 2)) * P.
Proof. reflexivity. Qed.

Lemma pdiff_range P d : 0 < P -> - P / 2 <= pdiff Rops P d < P / 2.
Proof.
  intros HP. rewrite pdiff_eq. set (y := d / P + 1 / 2).
  pose proof (Zfloor_lb y) as H1. pose proof (Zfloor_ub y) as H2.
  assert (Hy : y * P = d + P / 2) by (unfold y; field; lra).
  assert (H1' : IZR (Zfloor y) * P <= y * P) by (apply Rmult_le_compat_r; lra).
  assert (H2' : y * P < (IZR (Zfloor y) + 1) * P) by (apply Rmult_lt_compat_r; lra).
  lra.
Qed.

Lemma pdiff_period P d n : 0 < P -> pdiff Rops P (d + IZR n * P) = pdiff Rops P d.
Proof.
  intros HP. rewrite !pdiff_eq.
  replace ((d + IZR n * P) / P + 1 / 2) with (d / P + 1 / 2 + IZR n) by (field; lra).
  rewrite Zfloor_add_IZR, plus_IZR. ring.
Qed.

(* the value in [-P/2, P/2) congruent to d is unique *)
Lemma pdiff_unique P d r (n : Z) : 0 < P -> - P / 2 <= r < P / 2 -> r = d - IZR n * P -> pdiff Rops P d = r.
Proof.
  intros HP Hr He. rewrite pdiff_eq.
  assert (Zfloor (d / P + 1 / 2) = n) as ->; [|lra].
  apply Zfloor_imp. rewrite plus_IZR; simpl.
  assert (Hd : d / P = r / P + IZR n) by (subst r; field; lra).
  rewrite Hd.
  assert (-1 / 2 <= r / P < 1 / 2).
  { split.
    - apply Rmult_le_reg_r with P; [lra|]. unfold Rdiv at 2. rewrite Rmult_assoc, Rinv_l by lra. lra.
    - apply Rmult_lt_reg_r with P; [lra|]. unfold Rdiv at 1. rewrite Rmult_assoc, Rinv_l by lra. lra. }
  lra.
Qed.

(* shortest image: no integer number of periods gives a smaller |.| *)
Lemma pdiff_min P d (n : Z) : 0 < P -> (pdiff Rops P d) ^ 2 <= (d - IZR n * P) ^ 2.
Proof.
  intros HP. pose proof (pdiff_range P d HP) as [Hlo Hhi].
  rewrite pdiff_eq in *. set (m := Zfloor (d / P + 1 / 2)) in *.
  set (r := d - IZR m * P) in *.
  replace (d - IZR n * P) with (r + IZR (m - n) * P) by (unfold r; rewrite minus_IZR; ring).
  destruct (Z.eq_dec (m - n) 0) as [->|Hne].
  - simpl. right. ring.
  - assert (Hk : IZR (m - n) <= -1 \/ 1 <= IZR (m - n)).
    { destruct (Z_lt_le_dec (m - n) 0); [left; apply IZR_le; lia | right; apply IZR_le; lia]. }
    set (k := IZR (m - n)) in *.
    assert (Hprod : 0 <= (k * P) * (2 * r + k * P)).
    { destruct Hk as [Hk|Hk].
      - assert (k * P <= - P) by nra.
        replace (k * P * (2 * r + k * P)) with ((- (k * P)) * (- (2 * r + k * P))) by ring.
        apply Rmult_le_pos; lra.
      - assert (P <= k * P) by nra. apply Rmult_le_pos; lra. }
    replace ((r + k * P) ^ 2) with (r ^ 2 + k * P * (2 * r + k * P)) by ring. lra.
Qed.

Lemma per_nonneg P x1 x2 : 0 <= per_dist2 Rops P x1 x2.
Proof. unfold per_dist2. cbn -[pdiff]. apply sq_nonneg. Qed.

Lemma pdiff_neg_sq P d : 0 < P -> pdiff Rops P (- d) * pdiff Rops P (- d) = pdiff Rops P d * pdiff Rops P d.
Proof.
  intros HP. pose proof (pdiff_range P d HP) as [Hlo Hhi].
  destruct (Req_dec (pdiff Rops P d) (- P / 2)) as [He|Hne].
  - (* d on the boundary image: both give -P/2 *)
    assert (pdiff Rops P (- d) = - P / 2) as ->; [|rewrite He; ring].
    rewrite pdiff_eq in He.
    apply (pdiff_unique P (- d) (- P / 2) (- Zfloor (d / P + 1 / 2) + 1)); [lra|lra|].
    rewrite plus_IZR, opp_IZR. set (f := IZR (Zfloor (d / P + 1 / 2))) in *. nra.
  - assert (pdiff Rops P (- d) = - pdiff Rops P d) as ->; [|ring].
    apply (pdiff_unique P (- d) _ (- Zfloor (d / P + 1 / 2))); [lra|lra|].
    rewrite pdiff_eq, opp_IZR. ring.
Qed.

Lemma per_sym P x1 x2 : 0 < P -> per_dist2 Rops P x1 x2 = per_dist2 Rops P x2 x1.
Proof.
  intros HP. unfold per_dist2. cbn -[pdiff].
  replace (x2 - x1) with (- (x1 - x2)) by ring.
  exact (eq_sym (pdiff_neg_sq P (x1 - x2) HP)).
Qed.

Lemma per_zero_iff P x1 x2 : 0 < P ->
  (per_dist2 Rops P x1 x2 = 0 <-> exists n : Z, x1 - x2 = IZR n * P).
Proof.
  intros HP. unfold per_dist2. cbn -[pdiff]. split.
  - intros H. assert (H0 : pdiff Rops P (x1 - x2) = 0) by (apply sq_zero; exact H).
    rewrite pdiff_eq in H0. eexists. apply Rminus_diag_uniq. exact H0.
  - intros [n Hn]. assert (pdiff Rops P (x1 - x2) = 0) as ->; [|ring].
    apply (pdiff_unique P _ 0 n); lra.
Qed.

Lemma per_period P x1 x2 (n m : Z) : 0 < P ->
  per_dist2 Rops P (x1 + IZR n * P) (x2 + IZR m * P) = per_dist2 Rops P x1 x2.
Proof.
  intros HP. unfold per_dist2. cbn -[pdiff].
  replace (x1 + IZR n * P - (x2 + IZR m * P)) with (x1 - x2 + IZR (n - m) * P)
    by (rewrite minus_IZR; ring).
  rewrite pdiff_period by auto. reflexivity.
Qed.

(* the reported gradient is the derivative wherever the shortest image is not on the cut *)
Lemma per_grad_derive P x1 x2 : 0 < P -> pdiff Rops P (x1 - x2) <> - P / 2 ->
  is_derive (fun x => per_dist2 Rops P x x2) x1 (per_grad Rops P x1 x2).
Proof.
  intros HP Hne. pose proof (pdiff_range P (x1 - x2) HP) as [Hlo Hhi].
  set (n := Zfloor ((x1 - x2) / P + 1 / 2)).
  set (r := pdiff Rops P (x1 - x2)) in *.
  assert (Hr : r = x1 - x2 - IZR n * P) by reflexivity.
  (* locally, pdiff (x - x2) = x - x2 - n P *)
  apply (is_derive_ext_loc (fun x => (x - x2 - IZR n * P) * (x - x2 - IZR n * P))).
  - set (eps := Rmin (r + P / 2) (P / 2 - r)).
    assert (Heps : 0 < eps) by (unfold eps; apply Rmin_pos; lra).
    exists (mkposreal eps Heps). intros y Hy.
    unfold ball in Hy; simpl in Hy; unfold AbsRing_ball, abs, minus, plus, opp in Hy; simpl in Hy.
    apply Rabs_def2 in Hy. destruct Hy as [Hy1 Hy2].
    pose proof (Rmin_l (r + P / 2) (P / 2 - r)). pose proof (Rmin_r (r + P / 2) (P / 2 - r)).
    fold eps in H, H0.
    unfold per_dist2. cbn -[pdiff].
    assert (pdiff Rops P (y - x2) = y - x2 - IZR n * P) as ->; [|reflexivity].
    apply (pdiff_unique P _ _ n); lra.
  - unfold per_grad. cbn -[pdiff]. fold r. rewrite Hr. auto_derive; auto. ring.
Qed.

(* ------------------------------------------------------------------ 3-vector *)
Lemma v3_nonneg a b : 0 <= v3_dist2 Rops a b.
Proof.
  destruct a as [[ax ay] az], b as [[bx by_] bz]. unfold v3_dist2, v3norm2, v3dot, v3sub; cbn.
  pose proof (sq_nonneg (ax - bx)). pose proof (sq_nonneg (ay - by_)). pose proof (sq_nonneg (az - bz)). lra.
Qed.
Lemma v3_sym a b : v3_dist2 Rops a b = v3_dist2 Rops b a.
Proof. destruct a as [[ax ay] az], b as [[bx by_] bz]. unfold v3_dist2, v3norm2, v3dot, v3sub; cbn. ring. Qed.
Lemma v3_zero_iff a b : v3_dist2 Rops a b = 0 <-> a = b.
Proof.
  destruct a as [[ax ay] az], b as [[bx by_] bz]. unfold v3_dist2, v3norm2, v3dot, v3sub; cbn. split.
  - intros H.
    pose proof (sq_nonneg (ax - bx)). pose proof (sq_nonneg (ay - by_)). pose proof (sq_nonneg (az - bz)).
    assert (ax - bx = 0) by (apply sq_zero; lra). assert (ay - by_ = 0) by (apply sq_zero; lra).
    assert (az - bz = 0) by (apply sq_zero; lra).
    f_equal; [f_equal|]; lra.
  - intros H; inversion H; subst. ring.
Qed.
Lemma v3_grad_derive_x ax ay az b :
  is_derive (fun t => v3_dist2 Rops (t, ay, az) b) ax (fst (fst (v3_grad Rops (ax, ay, az) b))).
Proof. destruct b as [[bx by_] bz]. unfold v3_dist2, v3_grad, v3norm2, v3dot, v3sub, v3scale; cbn. auto_derive; auto. ring. Qed.
Lemma v3_grad_derive_y ax ay az b :
  is_derive (fun t => v3_dist2 Rops (ax, t, az) b) ay (snd (fst (v3_grad Rops (ax, ay, az) b))).
Proof. destruct b as [[bx by_] bz]. unfold v3_dist2, v3_grad, v3norm2, v3dot, v3sub, v3scale; cbn. auto_derive; auto. ring. Qed.
Lemma v3_grad_derive_z ax ay az b :
  is_derive (fun t => v3_dist2 Rops (ax, ay, t) b) az (snd (v3_grad Rops (ax, ay, az) b)).
Proof. destruct b as [[bx by_] bz]. unfold v3_dist2, v3_grad, v3norm2, v3dot, v3sub, v3scale; cbn. auto_derive; auto. ring. Qed.

(* ------------------------------------------------------------------ unit vector *)
Definition is_unit (v : vec3 (T := R)) : Prop := v3norm2 Rops v = 1.

Lemma uv_nonneg a b : 0 <= uv_dist2 Rops a b.
Proof. unfold uv_dist2. cbn -[v3dot clamp1]. apply sq_nonneg. Qed.
Lemma v3dot_sym (a b : vec3 (T := R)) : v3dot Rops a b = v3dot Rops b a.
Proof. destruct a as [[ax ay] az], b as [[bx by_] bz]. unfold v3dot; cbn. ring. Qed.
Lemma uv_sym a b : uv_dist2 Rops a b = uv_dist2 Rops b a.
Proof. unfold uv_dist2. rewrite v3dot_sym. reflexivity. Qed.

Lemma unit_dot_bound a b : is_unit a -> is_unit b -> -1 <= v3dot Rops a b <= 1.
Proof.
  destruct a as [[ax ay] az], b as [[bx by_] bz]. unfold is_unit, v3norm2, v3dot; cbn. intros Ha Hb.
  pose proof (sq_nonneg (ax - bx)). pose proof (sq_nonneg (ay - by_)). pose proof (sq_nonneg (az - bz)).
  pose proof (sq_nonneg (ax + bx)). pose proof (sq_nonneg (ay + by_)). pose proof (sq_nonneg (az + bz)).
  split; lra.
Qed.

Lemma clamp1_id c : -1 <= c <= 1 -> clamp1 Rops c = c.
Proof.
  intros Hc. unfold clamp1; cbn.
  replace (Rltb 1 c) with false by (symmetry; apply Rltb_false; lra).
  replace (Rltb c (- (1))) with false by (symmetry; apply Rltb_false; lra). reflexivity.
Qed.

Lemma uv_zero_iff a b : is_unit a -> is_unit b -> (uv_dist2 Rops a b = 0 <-> a = b).
Proof.
  intros Ha Hb. pose proof (unit_dot_bound a b Ha Hb) as Hc.
  unfold uv_dist2. rewrite clamp1_id by lra. cbn -[v3dot]. split.
  - intros H. assert (H0 : acos (v3dot Rops a b) = 0) by (apply sq_zero; exact H).
    assert (Hd : v3dot Rops a b = 1).
    { rewrite <- (cos_acos (v3dot Rops a b)) by lra. rewrite H0. apply cos_0. }
    apply (proj1 (v3_zero_iff a b)).
    destruct a as [[ax ay] az], b as [[bx by_] bz].
    unfold is_unit, v3norm2, v3dot, v3_dist2, v3sub in *; cbn in *. lra.
  - intros ->. assert (v3dot Rops b b = 1) as -> by exact Hb. rewrite acos_1. ring.
Qed.

(* ------------------------------------------------------------------ quaternion *)
Lemma qdot_sym (a b : quat (T := R)) : qdot Rops a b = qdot Rops b a.
Proof. destruct a as [[[a0 a1] a2] a3], b as [[[b0 b1] b2] b3]. unfold qdot; cbn. ring. Qed.
Lemma qdot_neg_r (a b : quat (T := R)) : qdot Rops a (qneg Rops b) = - qdot Rops a b.
Proof. destruct a as [[[a0 a1] a2] a3], b as [[[b0 b1] b2] b3]. unfold qdot, qneg; cbn. ring. Qed.
Lemma qdot_neg_l (a b : quat (T := R)) : qdot Rops (qneg Rops a) b = - qdot Rops a b.
Proof. destruct a as [[[a0 a1] a2] a3], b as [[[b0 b1] b2] b3]. unfold qdot, qneg; cbn. ring. Qed.

Lemma clamp1_range c : -1 <= clamp1 Rops c <= 1.
Proof.
  unfold clamp1; cbn. destruct (Rltb 1 c) eqn:E1; cbv iota; [split; lra|].
  apply Rltb_false in E1. destruct (Rltb c (- (1))) eqn:E2; cbv iota; [split; lra|]. apply Rltb_false in E2. split; lra.
Qed.
Lemma clamp1_opp c : clamp1 Rops (- c) = - clamp1 Rops c.
Proof.
  unfold clamp1; cbn.
  destruct (Rltb 1 (- c)) eqn:E1; destruct (Rltb (- c) (- (1))) eqn:E2;
  destruct (Rltb 1 c) eqn:E3; destruct (Rltb c (- (1))) eqn:E4; cbv iota;
  repeat match goal with
         | H : Rltb _ _ = true |- _ => apply Rltb_true in H
         | H : Rltb _ _ = false |- _ => apply Rltb_false in H
         end; lra.
Qed.

Definition qd2 (c : R) : R :=
  let om := acos (clamp1 Rops c) in if Rltb 0 c then om * om else (PI - om) * (PI - om).

Lemma q_dist2_qd2 a b : q_dist2 Rops PI a b = qd2 (qdot Rops a b).
Proof. reflexivity. Qed.

Lemma qd2_opp c : qd2 (- c) = qd2 c.
Proof.
  unfold qd2. rewrite clamp1_opp, acos_opp.
  destruct (Rltb 0 (- c)) eqn:E1; destruct (Rltb 0 c) eqn:E2; cbv iota;
  repeat match goal with
         | H : Rltb _ _ = true |- _ => apply Rltb_true in H
         | H : Rltb _ _ = false |- _ => apply Rltb_false in H
         end; try lra; try ring.
  (* c = 0 *)
  assert (c = 0) by lra. subst c. unfold clamp1; cbn.
  replace (Rltb 1 0) with false by (symmetry; apply Rltb_false; lra).
  replace (Rltb 0 (- (1))) with false by (symmetry; apply Rltb_false; lra).
  rewrite acos_0. field.
Qed.

Lemma q_nonneg a b : 0 <= q_dist2 Rops PI a b.
Proof. rewrite q_dist2_qd2. unfold qd2. destruct (Rltb 0 (qdot Rops a b)); apply sq_nonneg. Qed.
Lemma q_sym a b : q_dist2 Rops PI a b = q_dist2 Rops PI b a.
Proof. rewrite !q_dist2_qd2, qdot_sym. reflexivity. Qed.
Lemma q_sign_r a b : q_dist2 Rops PI a (qneg Rops b) = q_dist2 Rops PI a b.
Proof. rewrite !q_dist2_qd2, qdot_neg_r. apply qd2_opp. Qed.
Lemma q_sign_l a b : q_dist2 Rops PI (qneg Rops a) b = q_dist2 Rops PI a b.
Proof. rewrite !q_dist2_qd2, qdot_neg_l. apply qd2_opp. Qed.

Definition q_unit (q : quat (T := R)) : Prop := qdot Rops q q = 1.

Lemma q_self_zero q : q_unit q -> q_dist2 Rops PI q q = 0.
Proof.
  intros H. rewrite q_dist2_qd2, H. unfold qd2.
  replace (Rltb 0 1) with true by (symmetry; apply Rltb_true; lra).
  unfold clamp1; cbn.
  replace (Rltb 1 1) with false by (symmetry; apply Rltb_false; lra).
  replace (Rltb 1 (- (1))) with false by (symmetry; apply Rltb_false; lra).
  rewrite acos_1. ring.
Qed.
Lemma q_flip_zero q : q_unit q -> q_dist2 Rops PI q (qneg Rops q) = 0.
Proof. intros H. rewrite q_sign_r. apply q_self_zero; auto. Qed.

Lemma q_dot_bound a b : q_unit a -> q_unit b -> -1 <= qdot Rops a b <= 1.
Proof.
  destruct a as [[[a0 a1] a2] a3], b as [[[b0 b1] b2] b3]. unfold q_unit, qdot; cbn. intros Ha Hb.
  pose proof (sq_nonneg (a0 - b0)). pose proof (sq_nonneg (a1 - b1)). pose proof (sq_nonneg (a2 - b2)). pose proof (sq_nonneg (a3 - b3)).
  pose proof (sq_nonneg (a0 + b0)). pose proof (sq_nonneg (a1 + b1)). pose proof (sq_nonneg (a2 + b2)). pose proof (sq_nonneg (a3 + b3)).
  split; lra.
Qed.

(* zero only for equivalent values: q2 = q1 or q2 = -q1 *)
Lemma q_zero_iff a b : q_unit a -> q_unit b ->
  (q_dist2 Rops PI a b = 0 <-> a = b \/ a = qneg Rops b).
Proof.
  intros Ha Hb. pose proof (q_dot_bound a b Ha Hb) as Hc. split.
  - rewrite q_dist2_qd2. unfold qd2.
    assert (Hcl : clamp1 Rops (qdot Rops a b) = qdot Rops a b).
    { unfold clamp1; cbn.
      replace (Rltb 1 (qdot Rops a b)) with false by (symmetry; apply Rltb_false; lra).
      replace (Rltb (qdot Rops a b) (- (1))) with false by (symmetry; apply Rltb_false; lra). reflexivity. }
    rewrite Hcl. destruct (Rltb 0 (qdot Rops a b)) eqn:E; intros H.
    + left. assert (H0 : acos (qdot Rops a b) = 0) by (apply sq_zero; exact H).
      assert (Hd : qdot Rops a b = 1).
      { rewrite <- (cos_acos (qdot Rops a b)) by lra. rewrite H0. apply cos_0. }
      destruct a as [[[a0 a1] a2] a3], b as [[[b0 b1] b2] b3]. unfold q_unit, qdot in *; cbn in *.
      pose proof (sq_nonneg (a0 - b0)). pose proof (sq_nonneg (a1 - b1)). pose proof (sq_nonneg (a2 - b2)). pose proof (sq_nonneg (a3 - b3)).
      assert (a0 - b0 = 0) by (apply sq_zero; lra). assert (a1 - b1 = 0) by (apply sq_zero; lra).
      assert (a2 - b2 = 0) by (apply sq_zero; lra). assert (a3 - b3 = 0) by (apply sq_zero; lra).
      repeat f_equal; lra.
    + right. assert (H0 : acos (qdot Rops a b) = PI) by (apply sq_zero in H; lra).
      assert (Hd : qdot Rops a b = -1).
      { rewrite <- (cos_acos (qdot Rops a b)) by lra. rewrite H0. apply cos_PI. }
      destruct a as [[[a0 a1] a2] a3], b as [[[b0 b1] b2] b3]. unfold q_unit, qdot, qneg in *; cbn in *.
      pose proof (sq_nonneg (a0 + b0)). pose proof (sq_nonneg (a1 + b1)). pose proof (sq_nonneg (a2 + b2)). pose proof (sq_nonneg (a3 + b3)).
      assert (a0 + b0 = 0) by (apply sq_zero; lra). assert (a1 + b1 = 0) by (apply sq_zero; lra).
      assert (a2 + b2 = 0) by (apply sq_zero; lra). assert (a3 + b3 = 0) by (apply sq_zero; lra).
      repeat f_equal; lra.
  - intros [->| ->]; [apply q_self_zero; auto | rewrite q_sign_l; apply q_self_zero; auto].
Qed.

(* ------------------------------------------------------------------ generic vector *)
Lemma vec_dist2_cons a r b r2 : vec_dist2 Rops (a :: r) (b :: r2) = (a - b) * (a - b) + vec_dist2 Rops r r2.
Proof. reflexivity. Qed.
Lemma vec_dist2_nil_l l : vec_dist2 Rops [] l = 0.
Proof. reflexivity. Qed.
Lemma vec_dist2_nil_r l : vec_dist2 Rops l [] = 0.
Proof. destruct l; reflexivity. Qed.
Lemma vec_nonneg l1 l2 : 0 <= vec_dist2 Rops l1 l2.
Proof.
  revert l2; induction l1 as [|a r IH]; intros [|b r2]; rewrite ?vec_dist2_nil_l, ?vec_dist2_nil_r, ?vec_dist2_cons; try lra.
  specialize (IH r2). pose proof (sq_nonneg (a - b)). lra.
Qed.
Lemma vec_sym l1 l2 : vec_dist2 Rops l1 l2 = vec_dist2 Rops l2 l1.
Proof.
  revert l2; induction l1 as [|a r IH]; intros [|b r2]; rewrite ?vec_dist2_nil_l, ?vec_dist2_nil_r, ?vec_dist2_cons; try lra.
  rewrite (IH r2). ring.
Qed.
Lemma vec_zero_iff l1 l2 : length l1 = length l2 -> (vec_dist2 Rops l1 l2 = 0 <-> l1 = l2).
Proof.
  revert l2; induction l1 as [|a r IH]; intros [|b r2] Hl; cbn [length] in Hl; try discriminate.
  - split; auto.
  - rewrite vec_dist2_cons. pose proof (vec_nonneg r r2) as Hn. injection Hl as Hl. specialize (IH r2 Hl).
    pose proof (sq_nonneg (a - b)) as Hs. split.
    + intros H. assert (a - b = 0) by (apply sq_zero; lra). assert (a = b) by lra. subst. f_equal. apply IH. lra.
    + intros H; inversion H; subst. assert (vec_dist2 Rops r2 r2 = 0) by (apply IH; auto). replace (b - b) with 0 by ring. lra.
Qed.

(* ------------------------------------------------------------------ distanceVec *)
Lemma min_image1_pdiff L d : min_image1 Rops L d = pdiff Rops L d.
Proof. reflexivity. Qed.

(* minimum image: unchanged by lattice translations of either end, each component within half a cell *)
Lemma dv_dist2_lattice (lx ly lz : R) x1 x2 (n1 n2 n3 : Z) : 0 < lx -> 0 < ly -> 0 < lz ->
  let '(a, b, c) := x2 in
  dv_dist2 Rops true (Some (lx, ly, lz)) x1 (a + IZR n1 * lx, b + IZR n2 * ly, c + IZR n3 * lz)
  = dv_dist2 Rops true (Some (lx, ly, lz)) x1 x2.
Proof.
  intros Hx Hy Hz. destruct x2 as [[a b] c], x1 as [[a1 b1] c1].
  unfold dv_dist2, position_distance, v3sub, v3norm2, v3dot. cbn -[min_image1].
  rewrite !min_image1_pdiff.
  replace (a + IZR n1 * lx - a1) with (a - a1 + IZR n1 * lx) by ring.
  replace (b + IZR n2 * ly - b1) with (b - b1 + IZR n2 * ly) by ring.
  replace (c + IZR n3 * lz - c1) with (c - c1 + IZR n3 * lz) by ring.
  rewrite !pdiff_period by auto. reflexivity.
Qed.

(* without a cell (or with forceNoPBC) the distance is the plain one *)
Lemma dv_dist2_nopbc x1 x2 : dv_dist2 Rops false None x1 x2 = v3_dist2 Rops x1 x2.
Proof. unfold dv_dist2. rewrite v3_sym. reflexivity. Qed.

(* the gradient reported by the forceNoPBC branch is the plain 3-vector gradient
   (after the fix of distance_vec::dist2_lgrad; before it, it was minus that) *)
Lemma dv_lgrad_nopbc x1 x2 cell : dv_lgrad Rops false cell x1 x2 = v3_grad Rops x1 x2.
Proof. reflexivity. Qed.

Lemma dv_lgrad_pbc_nocell x1 x2 : dv_lgrad Rops true None x1 x2 = v3_grad Rops x1 x2.
Proof.
  destruct x1 as [[a1 b1] c1], x2 as [[a2 b2] c2].
  unfold dv_lgrad, position_distance, v3_grad, v3scale, v3sub; cbn. reflexivity.
Qed.

(* ------------------------------------------------------------------ wrap and interpolation *)
Lemma cvc_wrap_range c P x : 0 < P -> c - P / 2 <= cvc_wrap Rops c P x < c + P / 2.
Proof.
  intros HP. unfold cvc_wrap; cbn.
  pose proof (pdiff_range P (x - c) HP) as H. rewrite pdiff_eq in H. lra.
Qed.
Lemma cvc_wrap_equiv c P x : exists n : Z, cvc_wrap Rops c P x = x - IZR n * P.
Proof. eexists; reflexivity. Qed.
Lemma cvc_wrap_idem c P x : 0 < P -> c - P / 2 <= x < c + P / 2 -> cvc_wrap Rops c P x = x.
Proof.
  intros HP Hx. unfold cvc_wrap; cbn.
  assert (Zfloor ((x - c) / P + 1 / 2) = 0%Z) as ->; [|simpl; ring].
  apply Zfloor_imp. simpl.
  assert ((x - c) / P * P = x - c) by (field; lra).
  split.
  - assert (- (1 / 2) * P <= (x - c) / P * P) by lra. nra.
  - assert ((x - c) / P * P < 1 / 2 * P) by lra. nra.
Qed.

Lemma sc_interp_0 x1 x2 : sc_interp Rops x1 x2 0 = x1.
Proof. unfold sc_interp; cbn. ring. Qed.
Lemma sc_interp_1 x1 x2 : sc_interp Rops x1 x2 1 = x2.
Proof. unfold sc_interp; cbn. ring. Qed.
Lemma v3_interp_0 x1 x2 : v3_interp Rops x1 x2 0 = x1.
Proof. destruct x1 as [[a b] c], x2 as [[d e] f]. unfold v3_interp, v3add, v3scale; cbn. f_equal; [f_equal|]; ring. Qed.
Lemma v3_interp_1 x1 x2 : v3_interp Rops x1 x2 1 = x2.
Proof. destruct x1 as [[a b] c], x2 as [[d e] f]. unfold v3_interp, v3add, v3scale; cbn. f_equal; [f_equal|]; ring. Qed.
Lemma vec_interp_0 l1 l2 : length l1 = length l2 -> vec_interp Rops l1 l2 0 = l1.
Proof.
  revert l2; induction l1 as [|a r IH]; intros [|b r2] Hl; cbn in *; try discriminate; auto.
  injection Hl as Hl. rewrite (IH r2 Hl). f_equal. ring.
Qed.
Lemma vec_interp_1 l1 l2 : length l1 = length l2 -> vec_interp Rops l1 l2 1 = l2.
Proof.
  revert l2; induction l1 as [|a r IH]; intros [|b r2] Hl; cbn in *; try discriminate; auto.
  injection Hl as Hl. rewrite (IH r2 Hl). f_equal. ring.
Qed.

(* unit vectors: the interpolated value is normalised whenever the linear combination is non-zero,
   and the end points are reached *)
Lemma uv_interp_unit x1 x2 l : v3norm2 Rops (v3_interp Rops x1 x2 l) <> 0 ->
  is_unit (uv_interp Rops x1 x2 l).
Proof.
  unfold uv_interp, is_unit. destruct (v3_interp Rops x1 x2 l) as [[x y] z]. intros Hn.
  unfold v3norm2, v3dot in *; cbn in *.
  set (s := x * x + y * y + z * z) in *.
  assert (Hs : 0 < s) by (unfold s in *; nra).
  assert (Hq : sqrt s * sqrt s = s) by (apply sqrt_sqrt; lra).
  assert (Hq0 : sqrt s <> 0) by (intros E; rewrite E in Hq; lra).
  replace (x / sqrt s * (x / sqrt s) + y / sqrt s * (y / sqrt s) + z / sqrt s * (z / sqrt s))
    with ((x * x + y * y + z * z) / (sqrt s * sqrt s)) by (field; auto).
  rewrite Hq. fold s. field. lra.
Qed.
Lemma uv_interp_0 x1 x2 : is_unit x1 -> uv_interp Rops x1 x2 0 = x1.
Proof.
  intros H. unfold uv_interp. rewrite v3_interp_0. destruct x1 as [[x y] z].
  unfold is_unit in H. rewrite H. cbn. rewrite sqrt_1. f_equal; [f_equal|]; field.
Qed.
Lemma uv_interp_1 x1 x2 : is_unit x2 -> uv_interp Rops x1 x2 1 = x2.
Proof.
  intros H. unfold uv_interp. rewrite v3_interp_1. destruct x2 as [[x y] z].
  unfold is_unit in H. rewrite H. cbn. rewrite sqrt_1. f_equal; [f_equal|]; field.
Qed.

(* ------------------------------------------------------------------ periodic variable with run-time history *)
Lemma pv_run_state {T} (O : NumOps T) (s : pvar (T:=T)) ops : fst (pv_run O s ops) = pv_in_force s ops.
Proof.
  revert s; induction ops as [|o r IH]; intros s; cbn [pv_run pv_in_force]; [reflexivity|].
  destruct o as [P c|x|x1 x2]; cbn [pv_step];
    (destruct (pv_run O _ r) as [s2 outs] eqn:E; cbn [fst];
     match goal with |- s2 = pv_in_force ?s0 r => specialize (IH s0); rewrite E in IH; exact IH end).
Qed.
Lemma pv_run_app {T} (O : NumOps T) (s : pvar (T:=T)) h1 h2 :
  pv_run O s (h1 ++ h2) =
  (fst (pv_run O (fst (pv_run O s h1)) h2), snd (pv_run O s h1) ++ snd (pv_run O (fst (pv_run O s h1)) h2)).
Proof.
  revert s; induction h1 as [|o r IH]; intros s; cbn [app pv_run fst snd].
  - destruct (pv_run O s h2); reflexivity.
  - destruct (pv_step O s o) as [s1 out]. rewrite IH.
    destruct (pv_run O s1 r) as [s2 outs]; cbn [fst snd]. reflexivity.
Qed.
Lemma pv_history_wrap (s : pvar (T:=R)) h x :
  let s' := pv_in_force s h in
  0 < pv_P s' ->
  exists y, snd (pv_run Rops s (h ++ [PvWrap x])) = snd (pv_run Rops s h) ++ [[y]] /\
    pv_c s' - pv_P s' / 2 <= y < pv_c s' + pv_P s' / 2 /\ (exists n : Z, y = x - IZR n * pv_P s') /\
    (pv_c s' - pv_P s' / 2 <= x < pv_c s' + pv_P s' / 2 -> y = x).
Proof.
  intros s' HP. rewrite pv_run_app. cbn [snd]. rewrite pv_run_state. fold s'.
  cbn [pv_run pv_step snd]. eexists; split; [reflexivity|].
  split; [apply cvc_wrap_range; exact HP|]. split; [apply cvc_wrap_equiv|apply cvc_wrap_idem; exact HP].
Qed.
Lemma pdiff_shift2 P x1 x2 (n m : Z) : 0 < P ->
  pdiff Rops P ((x1 + IZR n * P) - (x2 + IZR m * P)) = pdiff Rops P (x1 - x2).
Proof.
  intros HP.
  replace (x1 + IZR n * P - (x2 + IZR m * P)) with ((x1 - x2) + IZR (n - m) * P)
    by (rewrite minus_IZR; ring).
  apply pdiff_period; exact HP.
Qed.
Lemma pv_history_dist2 (s : pvar (T:=R)) h x1 x2 (n m : Z) :
  let s' := pv_in_force s h in
  0 < pv_P s' ->
  snd (pv_run Rops s (h ++ [PvDist2 (x1 + IZR n * pv_P s') (x2 + IZR m * pv_P s')])) =
  snd (pv_run Rops s (h ++ [PvDist2 x1 x2])).
Proof.
  intros s' HP. rewrite !pv_run_app. cbn [snd]. rewrite pv_run_state. fold s'.
  cbn [pv_run pv_step snd]. unfold per_dist2, per_grad.
  pose proof (pdiff_shift2 (pv_P s') x1 x2 n m HP) as E. cbn [nadd nsub nmul Rops] in E |- *.
  rewrite E. reflexivity.
Qed.
