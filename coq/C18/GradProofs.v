(* C18: the gradient reported for unit vectors and quaternions is the derivative of the squared distance along
   every differentiable curve through the first argument (tangent curves for quaternions), away from the
   singular geometries.  Lemmas only. *)
From Coq Require Import ZArith List Bool Reals Lra Lia Psatz.
From Coquelicot Require Import Coquelicot.
From CV Require Import Base.Num Base.RNum C18.ValueModel C18.ValueProofs.
Import ListNotations.
Local Open Scope R_scope.

Lemma is_derive_acos c : -1 < c < 1 -> is_derive acos c (-1 / sqrt (1 - c²)).
Proof.
  intros Hc. apply is_derive_Reals.
  rewrite <- (derive_pt_acos c Hc). unfold derive_pt.
  exact (proj2_sig (derivable_pt_acos c Hc)).
Qed.

(* a function differentiable at 0 stays inside an open interval around its value there *)
Lemma derive_locally_between (c : R -> R) (dc lo hi : R) :
  is_derive c 0 dc -> lo < c 0 < hi -> locally 0 (fun t => lo < c t < hi).
Proof.
  intros Hd Hc.
  assert (Hcont : continuous c 0).
  { apply (ex_derive_continuous (K:=R_AbsRing) (V:=R_NormedModule) c 0). exists dc; exact Hd. }
  set (eps := Rmin (c 0 - lo) (hi - c 0)).
  assert (Heps : 0 < eps) by (unfold eps; apply Rmin_pos; lra).
  pose proof (proj1 (filterlim_locally c (c 0)) Hcont (mkposreal eps Heps)) as Hl.
  revert Hl. apply filter_imp. intros t Ht.
  unfold ball in Ht; simpl in Ht; unfold AbsRing_ball, abs, minus, plus, opp in Ht; simpl in Ht.
  apply Rabs_def2 in Ht. destruct Ht as [H1 H2].
  pose proof (Rmin_l (c 0 - lo) (hi - c 0)). pose proof (Rmin_r (c 0 - lo) (hi - c 0)). fold eps in H, H0.
  lra.
Qed.

(* d/dt acos(c t)^2 *)
Lemma is_derive_acos_sq (c : R -> R) (dc : R) :
  is_derive c 0 dc -> -1 < c 0 < 1 ->
  is_derive (fun t => acos (c t) * acos (c t)) 0 (2 * acos (c 0) * (-1 / sqrt (1 - (c 0)²)) * dc).
Proof.
  intros Hd Hc.
  assert (Ha : is_derive (fun t => acos (c t)) 0 (dc * (-1 / sqrt (1 - (c 0)²)))).
  { apply (is_derive_comp acos c 0 (-1 / sqrt (1 - (c 0)²)) dc); [apply is_derive_acos; exact Hc | exact Hd]. }
  pose proof (is_derive_mult (fun t => acos (c t)) (fun t => acos (c t)) 0 _ _ Ha Ha Rmult_comm) as Hm.
  match type of Hm with is_derive _ _ ?l =>
    replace (2 * acos (c 0) * (-1 / sqrt (1 - (c 0)²)) * dc) with l by (unfold plus, mult; simpl; ring) end.
  exact Hm.
Qed.

(* d/dt (PI - acos(c t))^2 *)
Lemma is_derive_pi_acos_sq (c : R -> R) (dc : R) :
  is_derive c 0 dc -> -1 < c 0 < 1 ->
  is_derive (fun t => (PI - acos (c t)) * (PI - acos (c t))) 0
            (-2 * (PI - acos (c 0)) * (-1 / sqrt (1 - (c 0)²)) * dc).
Proof.
  intros Hd Hc.
  assert (Ha : is_derive (fun t => acos (c t)) 0 (dc * (-1 / sqrt (1 - (c 0)²)))).
  { apply (is_derive_comp acos c 0 (-1 / sqrt (1 - (c 0)²)) dc); [apply is_derive_acos; exact Hc | exact Hd]. }
  assert (Hb : is_derive (fun t => PI - acos (c t)) 0 (- (dc * (-1 / sqrt (1 - (c 0)²))))).
  { pose proof (is_derive_minus (fun _ : R => PI) (fun t => acos (c t)) 0 0 _
                  (is_derive_const PI 0) Ha) as Hmn.
    match type of Hmn with is_derive _ _ ?l =>
      replace (- (dc * (-1 / sqrt (1 - (c 0)²)))) with l by (unfold minus, plus, opp, zero; simpl; ring) end.
    exact Hmn. }
  pose proof (is_derive_mult (fun t => PI - acos (c t)) (fun t => PI - acos (c t)) 0 _ _ Hb Hb Rmult_comm) as Hm.
  match type of Hm with is_derive _ _ ?l =>
    replace (-2 * (PI - acos (c 0)) * (-1 / sqrt (1 - (c 0)²)) * dc) with l by (unfold plus, mult; simpl; ring) end.
  exact Hm.
Qed.

Lemma sqrt_1mc2_pos c : -1 < c < 1 -> 0 < sqrt (1 - c²).
Proof. intros Hc. apply sqrt_lt_R0. unfold Rsqr. nra. Qed.

(* ------------------------------------------------------------------ unit vector *)
(* non-singular geometry: the two vectors are neither coincident nor antipodal, and the implementation's
   null-gradient threshold (sin^2 < 1e-28, at coincident and at exactly opposite vectors) is not met *)
Definition uv_nonsingular (v1 v2 : vec3 (T:=R)) : Prop :=
  let c := v3dot Rops v1 v2 in -1 < c < 1 /\ tiny28 Rops <= 1 - c * c.

Lemma v3dot_curve_derive (x y z : R -> R) (ex ey ez : R) (v2 : vec3 (T:=R)) :
  is_derive x 0 ex -> is_derive y 0 ey -> is_derive z 0 ez ->
  is_derive (fun t => v3dot Rops (x t, y t, z t) v2) 0 (v3dot Rops (ex, ey, ez) v2).
Proof.
  intros Hx Hy Hz. destruct v2 as [[bx by_] bz]. unfold v3dot; cbn.
  pose proof (is_derive_scal_l x 0 ex bx Hx) as H1.
  pose proof (is_derive_scal_l y 0 ey by_ Hy) as H2.
  pose proof (is_derive_scal_l z 0 ez bz Hz) as H3.
  pose proof (is_derive_plus _ _ 0 _ _ (is_derive_plus _ _ 0 _ _ H1 H2) H3) as H.
  exact H.
Qed.

Lemma uv_grad_nonsingular v1 v2 : uv_nonsingular v1 v2 ->
  uv_grad Rops v1 v2 =
  v3scale Rops (2 * acos (v3dot Rops v1 v2) * - (1) / sqrt (1 - v3dot Rops v1 v2 * v3dot Rops v1 v2)) v2.
Proof.
  intros [Hc Hs]. unfold uv_grad. cbn -[v3dot tiny28 v3scale].
  set (c := v3dot Rops v1 v2) in *.
  replace (Rltb (1 - c * c) (tiny28 Rops)) with false by (symmetry; apply Rltb_false; lra).
  reflexivity.
Qed.

(* along EVERY differentiable curve (x,y,z) through v1 = (x 0, y 0, z 0) with velocity e, the derivative of the
   squared distance to v2 is <uv_grad v1 v2, e> (the reported gradient is the full gradient of the extension
   acos(v.v2)^2 to R^3; for curves on the sphere e is tangent and only its tangent projection matters) *)
Lemma uv_grad_curve_derive (x y z : R -> R) (ex ey ez : R) (v2 : vec3 (T:=R)) :
  is_derive x 0 ex -> is_derive y 0 ey -> is_derive z 0 ez ->
  uv_nonsingular (x 0, y 0, z 0) v2 ->
  is_derive (fun t => uv_dist2 Rops (x t, y t, z t) v2) 0
            (v3dot Rops (uv_grad Rops (x 0, y 0, z 0) v2) (ex, ey, ez)).
Proof.
  intros Hx Hy Hz Hns. pose proof Hns as [Hc Hs].
  set (c := fun t => v3dot Rops (x t, y t, z t) v2).
  assert (Hdc : is_derive c 0 (v3dot Rops (ex, ey, ez) v2)) by (apply v3dot_curve_derive; assumption).
  change (-1 < c 0 < 1) in Hc.
  apply (is_derive_ext_loc (fun t => acos (c t) * acos (c t))).
  - pose proof (derive_locally_between c _ (-1) 1 Hdc Hc) as Hl.
    revert Hl. apply filter_imp. intros t Ht.
    unfold uv_dist2. fold (c t). rewrite clamp1_id by lra. reflexivity.
  - rewrite (uv_grad_nonsingular _ _ Hns). fold (c 0).
    pose proof (is_derive_acos_sq c _ Hdc Hc) as H.
    match type of H with is_derive _ _ ?l => match goal with |- is_derive _ _ ?r => replace r with l; [exact H|] end end.
    destruct v2 as [[bx by_] bz]. unfold v3dot, v3scale; cbn.
    pose proof (sqrt_1mc2_pos (c 0) Hc) as Hq. unfold Rsqr in *.
    field. unfold c, v3dot in Hq; cbn in Hq. lra.
Qed.

(* ------------------------------------------------------------------ quaternion *)
(* non-singular geometry: inner product not 0 (where the shorter geodesic switches from q2 to -q2) and not +-1,
   and the implementation's null-gradient threshold |sin(omega)| < 1e-14 is not met *)
Definition q_nonsingular (q1 q2 : quat (T:=R)) : Prop :=
  let c := qdot Rops q1 q2 in -1 < c < 1 /\ c <> 0 /\ 1 / IZR 100000000000000 <= sqrt (1 - c * c).

Lemma qdot_curve_derive (a0 a1 a2 a3 : R -> R) (e0 e1 e2 e3 : R) (q2 : quat (T:=R)) :
  is_derive a0 0 e0 -> is_derive a1 0 e1 -> is_derive a2 0 e2 -> is_derive a3 0 e3 ->
  is_derive (fun t => qdot Rops (a0 t, a1 t, a2 t, a3 t) q2) 0 (qdot Rops (e0, e1, e2, e3) q2).
Proof.
  intros H0 H1 H2 H3. destruct q2 as [[[b0 b1] b2] b3]. unfold qdot; cbn.
  pose proof (is_derive_scal_l a0 0 e0 b0 H0) as G0.
  pose proof (is_derive_scal_l a1 0 e1 b1 H1) as G1.
  pose proof (is_derive_scal_l a2 0 e2 b2 H2) as G2.
  pose proof (is_derive_scal_l a3 0 e3 b3 H3) as G3.
  exact (is_derive_plus _ _ 0 _ _ (is_derive_plus _ _ 0 _ _ (is_derive_plus _ _ 0 _ _ G0 G1) G2) G3).
Qed.

Lemma qg_core (k s c a0 a1 a2 a3 b0 b1 b2 b3 e0 e1 e2 e3 : R) :
  s <> 0 -> s * s = 1 - c * c -> a0 * e0 + a1 * e1 + a2 * e2 + a3 * e3 = 0 ->
  k * (- (1) * s * b0 + c * (a0 - c * b0) / s) * e0 + k * (- (1) * s * b1 + c * (a1 - c * b1) / s) * e1 +
  k * (- (1) * s * b2 + c * (a2 - c * b2) / s) * e2 + k * (- (1) * s * b3 + c * (a3 - c * b3) / s) * e3 =
  k * (-1 / s) * (e0 * b0 + e1 * b1 + e2 * b2 + e3 * b3).
Proof.
  intros Hs Hsq Hae.
  replace (k * (- (1) * s * b0 + c * (a0 - c * b0) / s) * e0 + k * (- (1) * s * b1 + c * (a1 - c * b1) / s) * e1 +
           k * (- (1) * s * b2 + c * (a2 - c * b2) / s) * e2 + k * (- (1) * s * b3 + c * (a3 - c * b3) / s) * e3)
    with (k * ((- (s * s + c * c) * (e0 * b0 + e1 * b1 + e2 * b2 + e3 * b3) + c * (a0 * e0 + a1 * e1 + a2 * e2 + a3 * e3)) / s))
    by (field; exact Hs).
  rewrite Hsq, Hae. field. exact Hs.
Qed.

(* the value of the model's gradient in a non-singular geometry, contracted with a tangent vector *)
Lemma q_grad_tangent_contract (q1 q2 e : quat (T:=R)) :
  qdot Rops q1 e = 0 -> q_nonsingular q1 q2 ->
  qdot Rops (q_grad Rops PI q1 q2) e =
  (if Rltb 0 (qdot Rops q1 q2) then 2 * acos (qdot Rops q1 q2) else - (2) * (PI - acos (qdot Rops q1 q2)))
  * (-1 / sqrt (1 - (qdot Rops q1 q2)²)) * qdot Rops e q2.
Proof.
  intros Ht [Hc [Hc0 Hs]].
  unfold q_grad. remember (qdot Rops q1 q2) as c eqn:Ec.
  assert (Hq : 0 < sqrt (1 - c²)) by (apply sqrt_1mc2_pos; exact Hc).
  assert (Hsq : sqrt (1 - c²) * sqrt (1 - c²) = 1 - c * c) by (apply sqrt_sqrt; unfold Rsqr; nra).
  rewrite clamp1_id by lra. cbn [nsin nacos Rops]. rewrite sin_acos by lra.
  remember (sqrt (1 - c²)) as s eqn:Es.
  assert (Eabs : nltb Rops (nabs Rops s) (ndiv Rops (n1 Rops) (nofZ Rops 100000000000000)) = false).
  { cbn [nltb ndiv n1 nofZ Rops]. apply Rltb_false. unfold nabs; cbn [nltb n0 nneg Rops].
    replace (Rltb s 0) with false by (symmetry; apply Rltb_false; lra).
    subst s. unfold Rsqr. exact Hs. }
  rewrite Eabs.
  cbn [nltb n0 n1 nmul nsub nadd ndiv nneg nofZ Rops].
  remember (if Rltb 0 c then 2 * acos c else - (2) * (PI - acos c)) as k eqn:Ek.
  destruct q1 as [[[a0 a1] a2] a3], q2 as [[[b0 b1] b2] b3], e as [[[e0 e1] e2] e3].
  unfold qdot in Ht |- *; cbn [nmul nadd Rops] in Ht |- *.
  apply qg_core; [lra | exact Hsq | exact Ht].
Qed.

(* along EVERY differentiable curve a = (a0,a1,a2,a3) through q1 = a(0) whose velocity e is tangent to the sphere at q1
   (<q1, e> = 0: every curve on the unit sphere), the derivative of the squared distance to q2 is <q_grad q1 q2, e>;
   the sign rule (q and -q equivalent) is the implementation's branch on the sign of the inner product *)
Lemma q_grad_curve_derive (a0 a1 a2 a3 : R -> R) (e0 e1 e2 e3 : R) (q2 : quat (T:=R)) :
  is_derive a0 0 e0 -> is_derive a1 0 e1 -> is_derive a2 0 e2 -> is_derive a3 0 e3 ->
  qdot Rops (a0 0, a1 0, a2 0, a3 0) (e0, e1, e2, e3) = 0 ->
  q_nonsingular (a0 0, a1 0, a2 0, a3 0) q2 ->
  is_derive (fun t => q_dist2 Rops PI (a0 t, a1 t, a2 t, a3 t) q2) 0
            (qdot Rops (q_grad Rops PI (a0 0, a1 0, a2 0, a3 0) q2) (e0, e1, e2, e3)).
Proof.
  intros H0 H1 H2 H3 Ht Hns. pose proof Hns as [Hc [Hc0 Hs]].
  rewrite (q_grad_tangent_contract _ _ _ Ht Hns).
  set (c := fun t => qdot Rops (a0 t, a1 t, a2 t, a3 t) q2).
  assert (Hdc : is_derive c 0 (qdot Rops (e0, e1, e2, e3) q2)) by (apply qdot_curve_derive; assumption).
  change (-1 < c 0 < 1) in Hc. change (c 0 <> 0) in Hc0. fold (c 0).
  destruct (Rltb 0 (c 0)) eqn:E.
  - apply Rltb_true in E.
    apply (is_derive_ext_loc (fun t => acos (c t) * acos (c t))).
    + pose proof (derive_locally_between c _ 0 1 Hdc (conj E (proj2 Hc))) as Hl.
      revert Hl. apply filter_imp. intros t Ht'.
      rewrite q_dist2_qd2. fold (c t). unfold qd2. rewrite clamp1_id by lra.
      replace (Rltb 0 (c t)) with true by (symmetry; apply Rltb_true; lra). reflexivity.
    + exact (is_derive_acos_sq c _ Hdc Hc).
  - apply Rltb_false in E. assert (E' : c 0 < 0) by lra.
    apply (is_derive_ext_loc (fun t => (PI - acos (c t)) * (PI - acos (c t)))).
    + pose proof (derive_locally_between c _ (-1) 0 Hdc (conj (proj1 Hc) E')) as Hl.
      revert Hl. apply filter_imp. intros t Ht'.
      rewrite q_dist2_qd2. fold (c t). unfold qd2. rewrite clamp1_id by lra.
      replace (Rltb 0 (c t)) with false by (symmetry; apply Rltb_false; lra). reflexivity.
    + pose proof (is_derive_pi_acos_sq c _ Hdc Hc) as H.
      match type of H with is_derive _ _ ?l => match goal with |- is_derive _ _ ?r => replace r with l by ring end end.
      exact H.
Qed.

(* ------------------------------------------------------------------ the straight line v1 + t e, put back on the manifold
   by apply_constraints, is a curve on the manifold through v1 with velocity e when e is tangent at v1 *)
Lemma is_derive_normalised_component (a e m : R) (w : R) :
  0 < m ->
  (* n(t) = m + 2 t w + t^2 * ee is the squared norm along the line; w = <v1, e> *)
  forall ee : R, is_derive (fun t => (a + t * e) / sqrt (m + 2 * t * w + t * t * ee)) 0
                   (e / sqrt m - a * w / (m * sqrt m)).
Proof.
  intros Hm ee.
  assert (Hq : 0 < sqrt m) by (apply sqrt_lt_R0; exact Hm).
  assert (Hsq : sqrt m * sqrt m = m) by (apply sqrt_sqrt; lra).
  auto_derive; replace (m + 2 * 0 * w + 0 * 0 * ee) with m by ring.
  - repeat split; lra.
  - rewrite Hsq. field. lra.
Qed.

Lemma uv_constrain_line_derive (v1 e : vec3 (T:=R)) :
  is_unit v1 -> v3dot Rops v1 e = 0 ->
  let g := fun t => uv_constrain Rops (v3add Rops v1 (v3scale Rops t e)) in
  g 0 = v1 /\
  is_derive (fun t => fst (fst (g t))) 0 (fst (fst e)) /\
  is_derive (fun t => snd (fst (g t))) 0 (snd (fst e)) /\
  is_derive (fun t => snd (g t)) 0 (snd e).
Proof.
  destruct v1 as [[x y] z], e as [[ex ey] ez]. unfold is_unit, v3norm2, v3dot. cbn [nadd nmul Rops].
  intros Hu Ht. set (g := fun t => uv_constrain Rops (v3add Rops (x, y, z) (v3scale Rops t (ex, ey, ez)))).
  change (g 0 = (x, y, z) /\ is_derive (fun t => fst (fst (g t))) 0 ex /\ is_derive (fun t => snd (fst (g t))) 0 ey /\ is_derive (fun t => snd (g t)) 0 ez).
  assert (En : forall t, v3norm2 Rops (v3add Rops (x, y, z) (v3scale Rops t (ex, ey, ez)))
                         = 1 + 2 * t * 0 + t * t * (ex * ex + ey * ey + ez * ez)).
  { intros t. unfold v3norm2, v3dot, v3add, v3scale; cbn [nadd nmul Rops].
    replace (2 * t * 0) with (2 * t * (x * ex + y * ey + z * ez)) by (rewrite Ht; ring).
    rewrite <- Hu. ring. }
  assert (Eg : forall t, g t = ((x + t * ex) / sqrt (1 + 2 * t * 0 + t * t * (ex * ex + ey * ey + ez * ez)),
                                (y + t * ey) / sqrt (1 + 2 * t * 0 + t * t * (ex * ex + ey * ey + ez * ez)),
                                (z + t * ez) / sqrt (1 + 2 * t * 0 + t * t * (ex * ex + ey * ey + ez * ez)))).
  { intros t. unfold g, uv_constrain. rewrite En. unfold v3add, v3scale; cbn [nadd nmul ndiv nsqrt Rops]. reflexivity. }
  split; [|split; [|split]].
  - rewrite Eg. replace (1 + 2 * 0 * 0 + 0 * 0 * (ex * ex + ey * ey + ez * ez)) with 1 by ring. rewrite sqrt_1.
    f_equal; [f_equal|]; field.
  - apply (is_derive_ext (fun t => (x + t * ex) / sqrt (1 + 2 * t * 0 + t * t * (ex * ex + ey * ey + ez * ez)))).
    { intros t. rewrite Eg. reflexivity. }
    pose proof (is_derive_normalised_component x ex 1 0 Rlt_0_1 (ex * ex + ey * ey + ez * ez)) as H.
    replace (ex / sqrt 1 - x * 0 / (1 * sqrt 1)) with ex in H by (rewrite sqrt_1; field). exact H.
  - apply (is_derive_ext (fun t => (y + t * ey) / sqrt (1 + 2 * t * 0 + t * t * (ex * ex + ey * ey + ez * ez)))).
    { intros t. rewrite Eg. reflexivity. }
    pose proof (is_derive_normalised_component y ey 1 0 Rlt_0_1 (ex * ex + ey * ey + ez * ez)) as H.
    replace (ey / sqrt 1 - y * 0 / (1 * sqrt 1)) with ey in H by (rewrite sqrt_1; field). exact H.
  - apply (is_derive_ext (fun t => (z + t * ez) / sqrt (1 + 2 * t * 0 + t * t * (ex * ex + ey * ey + ez * ez)))).
    { intros t. rewrite Eg. reflexivity. }
    pose proof (is_derive_normalised_component z ez 1 0 Rlt_0_1 (ex * ex + ey * ey + ez * ez)) as H.
    replace (ez / sqrt 1 - z * 0 / (1 * sqrt 1)) with ez in H by (rewrite sqrt_1; field). exact H.
Qed.

Lemma v3_eta (v : vec3 (T:=R)) : (fst (fst v), snd (fst v), snd v) = v.
Proof. destruct v as [[a b] c]. reflexivity. Qed.

(* unit vector: derivative along the normalised straight line through v1 in every tangent direction e *)
Lemma uv_grad_line_derive (v1 v2 e : vec3 (T:=R)) :
  is_unit v1 -> v3dot Rops v1 e = 0 -> uv_nonsingular v1 v2 ->
  is_derive (fun t => uv_dist2 Rops (uv_constrain Rops (v3add Rops v1 (v3scale Rops t e))) v2) 0
            (v3dot Rops (uv_grad Rops v1 v2) e).
Proof.
  intros Hu Ht Hns.
  destruct (uv_constrain_line_derive v1 e Hu Ht) as [G0 [Gx [Gy Gz]]].
  set (g := fun t => uv_constrain Rops (v3add Rops v1 (v3scale Rops t e))) in *.
  apply (is_derive_ext (fun t => uv_dist2 Rops (fst (fst (g t)), snd (fst (g t)), snd (g t)) v2)).
  { intros t. rewrite v3_eta. reflexivity. }
  pose proof (uv_grad_curve_derive (fun t => fst (fst (g t))) (fun t => snd (fst (g t))) (fun t => snd (g t))
                (fst (fst e)) (snd (fst e)) (snd e) v2 Gx Gy Gz) as H.
  change (g 0 = v1) in G0. cbv beta in H. rewrite !v3_eta, G0 in H. exact (H Hns).
Qed.

Lemma q_eta (q : quat (T:=R)) : (fst (fst (fst q)), snd (fst (fst q)), snd (fst q), snd q) = q.
Proof. destruct q as [[[a b] c] d]. reflexivity. Qed.

Lemma q_constrain_line_derive (q1 e : quat (T:=R)) :
  q_unit q1 -> qdot Rops q1 e = 0 ->
  let g := fun t => q_constrain Rops (qadd Rops q1 (qscale Rops t e)) in
  g 0 = q1 /\
  is_derive (fun t => fst (fst (fst (g t)))) 0 (fst (fst (fst e))) /\
  is_derive (fun t => snd (fst (fst (g t)))) 0 (snd (fst (fst e))) /\
  is_derive (fun t => snd (fst (g t))) 0 (snd (fst e)) /\
  is_derive (fun t => snd (g t)) 0 (snd e).
Proof.
  destruct q1 as [[[x y] z] u], e as [[[ex ey] ez] eu]. unfold q_unit, qdot. cbn [nadd nmul Rops].
  intros Hu Ht.
  set (g := fun t => q_constrain Rops (qadd Rops (x, y, z, u) (qscale Rops t (ex, ey, ez, eu)))).
  change (g 0 = (x, y, z, u) /\ is_derive (fun t => fst (fst (fst (g t)))) 0 ex /\ is_derive (fun t => snd (fst (fst (g t)))) 0 ey /\
          is_derive (fun t => snd (fst (g t))) 0 ez /\ is_derive (fun t => snd (g t)) 0 eu).
  set (ee := ex * ex + ey * ey + ez * ez + eu * eu).
  assert (En : forall t, qdot Rops (qadd Rops (x, y, z, u) (qscale Rops t (ex, ey, ez, eu)))
                              (qadd Rops (x, y, z, u) (qscale Rops t (ex, ey, ez, eu)))
                         = 1 + 2 * t * 0 + t * t * ee).
  { intros t. unfold qdot, qadd, qscale, ee; cbn [nadd nmul Rops].
    replace (2 * t * 0) with (2 * t * (x * ex + y * ey + z * ez + u * eu)) by (rewrite Ht; ring).
    rewrite <- Hu. ring. }
  assert (Eg : forall t, g t = ((x + t * ex) / sqrt (1 + 2 * t * 0 + t * t * ee),
                                (y + t * ey) / sqrt (1 + 2 * t * 0 + t * t * ee),
                                (z + t * ez) / sqrt (1 + 2 * t * 0 + t * t * ee),
                                (u + t * eu) / sqrt (1 + 2 * t * 0 + t * t * ee))).
  { intros t. unfold g, q_constrain. rewrite En. unfold qadd, qscale; cbn [nadd nmul ndiv nsqrt Rops]. reflexivity. }
  split; [|split; [|split; [|split]]].
  - rewrite Eg. replace (1 + 2 * 0 * 0 + 0 * 0 * ee) with 1 by ring. rewrite sqrt_1.
    f_equal; [f_equal; [f_equal|]|]; field.
  - apply (is_derive_ext (fun t => (x + t * ex) / sqrt (1 + 2 * t * 0 + t * t * ee))).
    { intros t. rewrite Eg. reflexivity. }
    pose proof (is_derive_normalised_component x ex 1 0 Rlt_0_1 ee) as H.
    replace (ex / sqrt 1 - x * 0 / (1 * sqrt 1)) with ex in H by (rewrite sqrt_1; field). exact H.
  - apply (is_derive_ext (fun t => (y + t * ey) / sqrt (1 + 2 * t * 0 + t * t * ee))).
    { intros t. rewrite Eg. reflexivity. }
    pose proof (is_derive_normalised_component y ey 1 0 Rlt_0_1 ee) as H.
    replace (ey / sqrt 1 - y * 0 / (1 * sqrt 1)) with ey in H by (rewrite sqrt_1; field). exact H.
  - apply (is_derive_ext (fun t => (z + t * ez) / sqrt (1 + 2 * t * 0 + t * t * ee))).
    { intros t. rewrite Eg. reflexivity. }
    pose proof (is_derive_normalised_component z ez 1 0 Rlt_0_1 ee) as H.
    replace (ez / sqrt 1 - z * 0 / (1 * sqrt 1)) with ez in H by (rewrite sqrt_1; field). exact H.
  - apply (is_derive_ext (fun t => (u + t * eu) / sqrt (1 + 2 * t * 0 + t * t * ee))).
    { intros t. rewrite Eg. reflexivity. }
    pose proof (is_derive_normalised_component u eu 1 0 Rlt_0_1 ee) as H.
    replace (eu / sqrt 1 - u * 0 / (1 * sqrt 1)) with eu in H by (rewrite sqrt_1; field). exact H.
Qed.

(* quaternion: derivative along the normalised straight line through q1 in every tangent direction e *)
Lemma q_grad_line_derive (q1 q2 e : quat (T:=R)) :
  q_unit q1 -> qdot Rops q1 e = 0 -> q_nonsingular q1 q2 ->
  is_derive (fun t => q_dist2 Rops PI (q_constrain Rops (qadd Rops q1 (qscale Rops t e))) q2) 0
            (qdot Rops (q_grad Rops PI q1 q2) e).
Proof.
  intros Hu Ht Hns.
  destruct (q_constrain_line_derive q1 e Hu Ht) as [G0 [Ga [Gb [Gc Gd]]]].
  set (g := fun t => q_constrain Rops (qadd Rops q1 (qscale Rops t e))) in *.
  apply (is_derive_ext (fun t => q_dist2 Rops PI (fst (fst (fst (g t))), snd (fst (fst (g t))), snd (fst (g t)), snd (g t)) q2)).
  { intros t. rewrite q_eta. reflexivity. }
  pose proof (q_grad_curve_derive (fun t => fst (fst (fst (g t)))) (fun t => snd (fst (fst (g t)))) (fun t => snd (fst (g t)))
                (fun t => snd (g t)) (fst (fst (fst e))) (snd (fst (fst e))) (snd (fst e)) (snd e) q2 Ga Gb Gc Gd) as H.
  change (g 0 = q1) in G0. cbv beta in H. rewrite !q_eta, G0 in H. exact (H Ht Hns).
Qed.
