(* C18: colvar::init's decision whether a sum of components is a periodic variable (sum_periodic), for lists of any length. *)
From Coq Require Import ZArith List Bool Reals Lra Lia Psatz Permutation.
From CV Require Import Base.Num Base.RNum C18.ValueModel C18.ValueProofs.
Import ListNotations.
Local Open Scope R_scope.

(* what every component of a periodic sum must satisfy: periodic, period P, exponent 1, coefficient +-1 (within 1e-10) *)
Definition sc_ok (P : R) (k : scomp (T:=R)) : Prop :=
  sc_per k = true /\ sc_P k = P /\ sc_exp k = 1%Z /\ Rabs (Rabs (sc_coeff k) - 1) <= tol10 Rops.

Lemma nabs_Rabs x : nabs Rops x = Rabs x.
Proof.
  unfold nabs; cbn. unfold Rabs. destruct (Rcase_abs x) as [H|H].
  - replace (Rltb x 0) with true by (symmetry; apply Rltb_true; lra). reflexivity.
  - replace (Rltb x 0) with false by (symmetry; apply Rltb_false; lra). reflexivity.
Qed.

Lemma sum_loop_false p (r : list (scomp (T:=R))) : fst (sum_loop Rops false p r) = false.
Proof.
  revert p; induction r as [|k r IH]; intros p; cbn [sum_loop]; [reflexivity|].
  destruct (negb (sc_per k) || negb (neqb Rops (sc_P k) p)); apply IH.
Qed.

Lemma sum_loop_true b P (r : list (scomp (T:=R))) P' :
  sum_loop Rops b P r = (true, P') <-> b = true /\ P' = P /\ List.Forall (fun k => sc_per k = true /\ sc_P k = P) r.
Proof.
  revert b P; induction r as [|k r IH]; intros b P; cbn [sum_loop].
  - split.
    + intros H; injection H as -> ->. repeat split; constructor.
    + intros [-> [-> _]]. reflexivity.
  - destruct (sc_per k) eqn:Ep; cbn [negb orb].
    + cbn [neqb Rops]. destruct (Reqb' (sc_P k) P) eqn:Eq; cbn [negb].
      * apply Reqb_true in Eq. rewrite IH. split.
        -- intros [Hb [HP HF]]. repeat split; auto.
        -- intros [Hb [HP HF]]. inversion HF; subst. repeat split; auto.
      * split.
        -- intros H. pose proof (sum_loop_false (n0 Rops) r) as Hf. cbn [n0 Rops] in Hf. change (n0 Rops) with 0 in H.
           rewrite H in Hf. discriminate.
        -- intros [_ [_ HF]]. inversion HF as [|? ? [_ HPk] _]; subst.
           assert (Reqb' (sc_P k) (sc_P k) = true) by (apply Reqb_true; reflexivity). congruence.
    + split.
      * intros H. pose proof (sum_loop_false 0 r) as Hf. change (n0 Rops) with 0 in H. rewrite H in Hf. discriminate.
      * intros [_ [_ HF]]. inversion HF as [|? ? [Hk _] _]; subst. congruence.
Qed.

Lemma sum_homogeneous_spec (l : list (scomp (T:=R))) :
  sum_homogeneous Rops l = true <-> List.Forall (fun k => sc_exp k = 1%Z /\ Rabs (Rabs (sc_coeff k) - 1) <= tol10 Rops) l.
Proof.
  unfold sum_homogeneous, sum_linear. rewrite andb_true_iff, !forallb_forall, Forall_forall. split.
  - intros [H1 H2] k Hk. specialize (H1 k Hk). specialize (H2 k Hk). apply Z.eqb_eq in H1. split; [exact H1|].
    apply negb_true_iff in H2. cbn [nltb nsub n1 Rops] in H2. apply Rltb_false in H2. rewrite !nabs_Rabs in H2. exact H2.
  - intros H. split; intros k Hk; destruct (H k Hk) as [H1 H2].
    + apply Z.eqb_eq; exact H1.
    + apply negb_true_iff. cbn [nltb nsub n1 Rops]. apply Rltb_false. rewrite !nabs_Rabs. exact H2.
Qed.

(* THE DECISION, for lists of any length: the variable is periodic with period P and centre c exactly when the list is not
   empty, c is the first component's centre, and EVERY component is periodic with period P, exponent 1 and coefficient +-1 *)
Lemma sum_periodic_iff (l : list (scomp (T:=R))) P c :
  sum_periodic Rops l = Some (P, c) <-> (exists k0 r, l = k0 :: r /\ c = sc_wc k0) /\ List.Forall (sc_ok P) l.
Proof.
  unfold sum_periodic. destruct l as [|k0 r].
  - split; [discriminate | intros [[k [r' [E _]]] _]; discriminate].
  - destruct (sum_homogeneous Rops (k0 :: r)) eqn:Eh; cbn [andb].
    + apply sum_homogeneous_spec in Eh. destruct (sc_per k0) eqn:Ep.
      * destruct (sum_loop Rops true (sc_P k0) r) as [b P'] eqn:El. destruct b.
        -- apply sum_loop_true in El. destruct El as [_ [-> HF]]. split.
           ++ intros H; injection H as <- <-. split; [eexists; eexists; split; reflexivity|].
              apply Forall_forall. intros k Hk. rewrite Forall_forall in Eh. destruct (Eh k Hk) as [He Hc].
              destruct Hk as [<-|Hk]; [repeat split; auto|].
              rewrite Forall_forall in HF. destruct (HF k Hk) as [H1 H2]. repeat split; auto.
           ++ intros [[k [r' [E Ec]]] HF']. injection E as <- <-. subst c.
              inversion HF' as [|? ? [_ [HP _]] _]; subst. reflexivity.
        -- split; [discriminate|]. intros [_ HF'].
           assert (sum_loop Rops true (sc_P k0) r = (true, sc_P k0)); [|congruence].
           apply sum_loop_true. repeat split. inversion HF' as [|? ? [_ [HP0 _]] HFr]; subst.
           apply Forall_forall. intros k Hk. rewrite Forall_forall in HFr. destruct (HFr k Hk) as [H1 [H2 _]]. split; auto.
      * split; [discriminate|]. intros [_ HF']. inversion HF' as [|? ? [H1 _] _]; subst. congruence.
    + split; [discriminate|]. intros [_ HF'].
      assert (sum_homogeneous Rops (k0 :: r) = true); [|congruence].
      apply sum_homogeneous_spec. apply Forall_forall. intros k Hk. rewrite Forall_forall in HF'.
      destruct (HF' k Hk) as [_ [_ [H3 H4]]]. split; auto.
Qed.

(* whether (and with which period) the variable is periodic does not depend on the order of the components *)
Lemma sum_periodic_period_perm (l l' : list (scomp (T:=R))) : Permutation l l' ->
  option_map fst (sum_periodic Rops l) = option_map fst (sum_periodic Rops l').
Proof.
  intros Hp.
  assert (Hdir : forall a b : list (scomp (T:=R)), Permutation a b -> forall P c, sum_periodic Rops a = Some (P, c) ->
                 exists c', sum_periodic Rops b = Some (P, c')).
  { intros a b Hab P c H. apply sum_periodic_iff in H. destruct H as [[k0 [r [E _]]] HF].
    destruct b as [|k1 r1]; [subst a; apply Permutation_sym, Permutation_nil in Hab; discriminate|].
    exists (sc_wc k1). apply sum_periodic_iff. split; [eexists; eexists; split; reflexivity|].
    apply (Permutation_Forall Hab). exact HF. }
  destruct (sum_periodic Rops l) as [[P c]|] eqn:E1; destruct (sum_periodic Rops l') as [[P' c']|] eqn:E2; cbn; auto.
  - destruct (Hdir l l' Hp P c E1) as [c'' E]. rewrite E2 in E. injection E as -> _. reflexivity.
  - destruct (Hdir l l' Hp P c E1) as [c'' E]. congruence.
  - destruct (Hdir l' l (Permutation_sym Hp) P' c' E2) as [c'' E]. congruence.
Qed.

(* a variable that is not flagged periodic has the plain metric: zero only for equal values, wrap = identity;
   a periodic one has the periodic metric of the common period around the first component's centre *)
Lemma sum_kind_metric (l : list (scomp (T:=R))) x y :
  (sum_periodic Rops l = None ->
     sum_kind Rops l = KScalar /\ (comp_dist2 Rops PI (sum_kind Rops l) (VS x) (VS y) = Some 0 <-> x = y) /\
     comp_wrap Rops (sum_kind Rops l) (VS x) = VS x) /\
  (forall P c, sum_periodic Rops l = Some (P, c) -> sum_kind Rops l = KPeriodic P c).
Proof.
  unfold sum_kind. split.
  - intros H. rewrite H. split; [reflexivity|]. cbn [comp_dist2 comp_wrap]. split; [|reflexivity]. split.
    + intros E. injection E as E. apply sc_zero_iff. exact E.
    + intros ->. f_equal. apply sc_zero_iff. reflexivity.
  - intros P c H. rewrite H. reflexivity.
Qed.

(* after EVERY history of run-time modifications of the components the decision is the one of the components in force *)
Lemma sum_history_decision (l : list (scomp (T:=R))) mods P c :
  sum_periodic Rops (sum_history l mods) = Some (P, c) <->
  (exists k0 r, sum_history l mods = k0 :: r /\ c = sc_wc k0) /\ List.Forall (sc_ok P) (sum_history l mods).
Proof. apply sum_periodic_iff. Qed.
Lemma sum_modify_length j pn cn (l : list (scomp (T:=R))) : length (sum_modify j pn cn l) = length l.
Proof. revert j; induction l as [|k r IH]; intros [|j]; cbn [sum_modify length]; auto. Qed.
Lemma sum_history_length (l : list (scomp (T:=R))) mods : length (sum_history l mods) = length l.
Proof.
  revert l; induction mods as [|[[j pn] cn] r IH]; intros l; cbn [sum_history]; [reflexivity|].
  rewrite IH. apply sum_modify_length.
Qed.
