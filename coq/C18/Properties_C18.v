(* C18: distances, gradients and wrapping of variable values form a consistent metric.
   Statements only (proofs in ValueProofs.v); all over the real-number instance of the model. *)
From Coq Require Import ZArith List Bool Reals Lra.
From Coquelicot Require Import Coquelicot.
From CV Require Import Base.Num Base.RNum C18.ValueModel C18.ValueProofs.
Import ListNotations.
Local Open Scope R_scope.

(* ---- scalar ---- *)
Theorem C18_scalar_metric : forall x1 x2 : R,
  0 <= sc_dist2 Rops x1 x2 /\ sc_dist2 Rops x1 x2 = sc_dist2 Rops x2 x1 /\ (sc_dist2 Rops x1 x2 = 0 <-> x1 = x2).
Proof. intros; split; [apply sc_nonneg | split; [apply sc_sym | apply sc_zero_iff]]. Qed.
Print Assumptions C18_scalar_metric.
Theorem C18_scalar_grad_is_derivative : forall x1 x2 : R,
  is_derive (fun x => sc_dist2 Rops x x2) x1 (sc_grad Rops x1 x2).
Proof. exact sc_grad_derive. Qed.
Print Assumptions C18_scalar_grad_is_derivative.

(* ---- periodic scalar (cvc::dist2 with a period) ---- *)
Theorem C18_periodic_metric : forall P x1 x2 : R, 0 < P ->
  0 <= per_dist2 Rops P x1 x2 /\ per_dist2 Rops P x1 x2 = per_dist2 Rops P x2 x1 /\
  (per_dist2 Rops P x1 x2 = 0 <-> exists n : Z, x1 - x2 = IZR n * P).
Proof. intros P x1 x2 HP; split; [apply per_nonneg | split; [apply per_sym; auto | apply per_zero_iff; auto]]. Qed.
Print Assumptions C18_periodic_metric.
Theorem C18_period_invariant : forall (P x1 x2 : R) (n m : Z), 0 < P ->
  per_dist2 Rops P (x1 + IZR n * P) (x2 + IZR m * P) = per_dist2 Rops P x1 x2.
Proof. exact per_period. Qed.
Print Assumptions C18_period_invariant.
(* the distance is the one to the closest periodic image *)
Theorem C18_periodic_shortest_image : forall (P d : R) (n : Z), 0 < P ->
  (pdiff Rops P d) ^ 2 <= (d - IZR n * P) ^ 2 /\ - P / 2 <= pdiff Rops P d < P / 2.
Proof. intros P d n HP; split; [apply pdiff_min; auto | apply pdiff_range; auto]. Qed.
Print Assumptions C18_periodic_shortest_image.
Theorem C18_periodic_grad_is_derivative : forall P x1 x2 : R, 0 < P -> pdiff Rops P (x1 - x2) <> - P / 2 ->
  is_derive (fun x => per_dist2 Rops P x x2) x1 (per_grad Rops P x1 x2).
Proof. exact per_grad_derive. Qed.
Print Assumptions C18_periodic_grad_is_derivative.

(* ---- 3-vector ---- *)
Theorem C18_vector3_metric : forall a b : vec3,
  0 <= v3_dist2 Rops a b /\ v3_dist2 Rops a b = v3_dist2 Rops b a /\ (v3_dist2 Rops a b = 0 <-> a = b).
Proof. intros; split; [apply v3_nonneg | split; [apply v3_sym | apply v3_zero_iff]]. Qed.
Print Assumptions C18_vector3_metric.
Theorem C18_vector3_grad_is_derivative : forall (ax ay az : R) (b : vec3),
  is_derive (fun t => v3_dist2 Rops (t, ay, az) b) ax (fst (fst (v3_grad Rops (ax, ay, az) b))) /\
  is_derive (fun t => v3_dist2 Rops (ax, t, az) b) ay (snd (fst (v3_grad Rops (ax, ay, az) b))) /\
  is_derive (fun t => v3_dist2 Rops (ax, ay, t) b) az (snd (v3_grad Rops (ax, ay, az) b)).
Proof. intros; split; [apply v3_grad_derive_x | split; [apply v3_grad_derive_y | apply v3_grad_derive_z]]. Qed.
Print Assumptions C18_vector3_grad_is_derivative.

(* ---- unit vector ---- *)
Theorem C18_unitvector_metric : forall a b : vec3, is_unit a -> is_unit b ->
  0 <= uv_dist2 Rops a b /\ uv_dist2 Rops a b = uv_dist2 Rops b a /\ (uv_dist2 Rops a b = 0 <-> a = b).
Proof. intros a b Ha Hb; split; [apply uv_nonneg | split; [apply uv_sym | apply uv_zero_iff; auto]]. Qed.
Print Assumptions C18_unitvector_metric.

(* ---- quaternion ---- *)
Theorem C18_quaternion_metric : forall a b : quat, q_unit a -> q_unit b ->
  0 <= q_dist2 Rops PI a b /\ q_dist2 Rops PI a b = q_dist2 Rops PI b a /\
  (q_dist2 Rops PI a b = 0 <-> a = b \/ a = qneg Rops b).
Proof. intros a b Ha Hb; split; [apply q_nonneg | split; [apply q_sym | apply q_zero_iff; auto]]. Qed.
Print Assumptions C18_quaternion_metric.
Theorem C18_quaternion_sign_invariant : forall a b : quat,
  q_dist2 Rops PI a (qneg Rops b) = q_dist2 Rops PI a b /\ q_dist2 Rops PI (qneg Rops a) b = q_dist2 Rops PI a b.
Proof. intros; split; [apply q_sign_r | apply q_sign_l]. Qed.
Print Assumptions C18_quaternion_sign_invariant.

(* ---- generic vector ---- *)
Theorem C18_vector_metric : forall l1 l2 : list R, length l1 = length l2 ->
  0 <= vec_dist2 Rops l1 l2 /\ vec_dist2 Rops l1 l2 = vec_dist2 Rops l2 l1 /\ (vec_dist2 Rops l1 l2 = 0 <-> l1 = l2).
Proof. intros l1 l2 Hl; split; [apply vec_nonneg | split; [apply vec_sym | apply vec_zero_iff; auto]]. Qed.
Print Assumptions C18_vector_metric.

(* ---- distanceVec override ---- *)
Theorem C18_distvec_lattice_invariant : forall (lx ly lz : R) (x1 x2 : vec3) (n1 n2 n3 : Z), 0 < lx -> 0 < ly -> 0 < lz ->
  let '(a, b, c) := x2 in
  dv_dist2 Rops true (Some (lx, ly, lz)) x1 (a + IZR n1 * lx, b + IZR n2 * ly, c + IZR n3 * lz)
  = dv_dist2 Rops true (Some (lx, ly, lz)) x1 x2.
Proof. exact dv_dist2_lattice. Qed.
Print Assumptions C18_distvec_lattice_invariant.
Theorem C18_distvec_mic_grad : forall x1 x2 : vec3,
  dv_dist2 Rops false None x1 x2 = v3_dist2 Rops x1 x2 /\ dv_lgrad Rops true None x1 x2 = v3_grad Rops x1 x2.
Proof. intros; split; [apply dv_dist2_nopbc | apply dv_lgrad_pbc_nocell]. Qed.
Print Assumptions C18_distvec_mic_grad.

(* the forceNoPBC branch reports the plain gradient (this statement was refuted by the code before the
   fix of distance_vec::dist2_lgrad, which returned 2*(x2 - x1); see known_findings.txt) *)
Theorem C18_distvec_nopbc_lgrad_correct : forall (x1 x2 : vec3) (cell : option vec3),
  dv_lgrad Rops false cell x1 x2 = v3_grad Rops x1 x2.
Proof. exact dv_lgrad_nopbc. Qed.
Print Assumptions C18_distvec_nopbc_lgrad_correct.

(* ---- wrapping ---- *)
Theorem C18_wrap_range : forall c P x : R, 0 < P ->
  c - P / 2 <= cvc_wrap Rops c P x < c + P / 2 /\ (exists n : Z, cvc_wrap Rops c P x = x - IZR n * P) /\
  (c - P / 2 <= x < c + P / 2 -> cvc_wrap Rops c P x = x).
Proof. intros c P x HP; split; [apply cvc_wrap_range; auto | split; [apply cvc_wrap_equiv | apply cvc_wrap_idem; auto]]. Qed.
Print Assumptions C18_wrap_range.

(* ---- wrapping and distance of a periodic variable whose component parameters change at run time
   (modifycvcs): after EVERY history of modifications and calls, wrap lands in the one-period interval
   around the wrapping centre IN FORCE (that of the last modification), on an equivalent value under the
   period in force, and is the identity inside that interval; the distance and its gradient are invariant
   under whole periods of the period in force.  The state reached by the model is the last modification. ---- *)
Theorem C18_object_state_is_last_modification : forall (s : pvar (T:=R)) (h : list pv_op),
  fst (pv_run Rops s h) = pv_in_force s h.
Proof. exact (pv_run_state Rops). Qed.
Print Assumptions C18_object_state_is_last_modification.

Theorem C18_object_wrap_follows_history : forall (s : pvar (T:=R)) (h : list pv_op) (x : R),
  let s' := pv_in_force s h in
  0 < pv_P s' ->
  exists y, snd (pv_run Rops s (h ++ [PvWrap x])) = snd (pv_run Rops s h) ++ [[y]] /\
    pv_c s' - pv_P s' / 2 <= y < pv_c s' + pv_P s' / 2 /\ (exists n : Z, y = x - IZR n * pv_P s') /\
    (pv_c s' - pv_P s' / 2 <= x < pv_c s' + pv_P s' / 2 -> y = x).
Proof. exact pv_history_wrap. Qed.
Print Assumptions C18_object_wrap_follows_history.

Theorem C18_object_dist2_follows_history : forall (s : pvar (T:=R)) (h : list pv_op) (x1 x2 : R) (n m : Z),
  let s' := pv_in_force s h in
  0 < pv_P s' ->
  snd (pv_run Rops s (h ++ [PvDist2 (x1 + IZR n * pv_P s') (x2 + IZR m * pv_P s')])) =
  snd (pv_run Rops s (h ++ [PvDist2 x1 x2])).
Proof. exact pv_history_dist2. Qed.
Print Assumptions C18_object_dist2_follows_history.

Example C18_example_object_history :
  pv_in_force {| pv_P := 10; pv_c := 0 |} [PvWrap 13; PvModify 25 3; PvDist2 1 2] = {| pv_P := 25; pv_c := 3 |} /\ 0 < 25.
Proof. split; [reflexivity | lra]. Qed.

(* ---- interpolation ---- *)
Theorem C18_interpolate_endpoints : forall (x1 x2 : R) (a b : vec3) (l1 l2 : list R), length l1 = length l2 ->
  sc_interp Rops x1 x2 0 = x1 /\ sc_interp Rops x1 x2 1 = x2 /\
  v3_interp Rops a b 0 = a /\ v3_interp Rops a b 1 = b /\
  vec_interp Rops l1 l2 0 = l1 /\ vec_interp Rops l1 l2 1 = l2.
Proof.
  intros. repeat split; [apply sc_interp_0 | apply sc_interp_1 | apply v3_interp_0 | apply v3_interp_1
                        | apply vec_interp_0; auto | apply vec_interp_1; auto].
Qed.
Print Assumptions C18_interpolate_endpoints.
Theorem C18_interpolate_unit_on_manifold : forall (a b : vec3) (l : R),
  (v3norm2 Rops (v3_interp Rops a b l) <> 0 -> is_unit (uv_interp Rops a b l)) /\
  (is_unit a -> uv_interp Rops a b 0 = a) /\ (is_unit b -> uv_interp Rops a b 1 = b).
Proof. intros; split; [apply uv_interp_unit | split; [apply uv_interp_0 | apply uv_interp_1]]. Qed.
Print Assumptions C18_interpolate_unit_on_manifold.

(* non-vacuity *)
Example C18_example_unit : is_unit (0, 1, 0) /\ q_unit (1, 0, 0, 0) /\ (0 < 360).
Proof. unfold is_unit, q_unit, v3norm2, v3dot, qdot; cbn. repeat split; lra. Qed.
