(* C18: distances, gradients and wrapping of variable values form a consistent metric.
   Statements only (proofs in ValueProofs.v); all over the real-number instance of the model. *)
From Coq Require Import ZArith List Bool Reals Lra Lia Permutation.
From Coquelicot Require Import Coquelicot.
From Flocq Require Import Core.Raux.
From CV Require Import Base.Num Base.RNum C18.ValueModel C18.ValueProofs C18.GradProofs C18.ExtraProofs C18.Round3Proofs C18.SumProofs C18.ConsumerProofs.
Import ListNotations.
Local Open Scope R_scope.

(* ---- scalar ---- *)
Theorem C18_scalar_metric : forall x1 x2 : R,
  0 <= sc_dist2 Rops x1 x2 /\ sc_dist2 Rops x1 x2 = sc_dist2 Rops x2 x1 /\ (sc_dist2 Rops x1 x2 = 0 <-> x1 = x2).
Proof. intros; split; [apply sc_nonneg | split; [apply sc_sym | apply sc_zero_iff]]. Qed.
Print Assumptions C18_scalar_metric.
Theorem C18_scalar_grad_is_derivative : forall x1 x2 : R,
  is_derive (fun x => sc_dist2 Rops x x2) x1 (sc_grad Rops x1 x2).
Proof. exact sc_grad_derive. Qed.
Print Assumptions C18_scalar_grad_is_derivative.

(* ---- periodic scalar (cvc::dist2 with a period) ---- *)
Theorem C18_periodic_metric : forall P x1 x2 : R, 0 < P ->
  0 <= per_dist2 Rops P x1 x2 /\ per_dist2 Rops P x1 x2 = per_dist2 Rops P x2 x1 /\
  (per_dist2 Rops P x1 x2 = 0 <-> exists n : Z, x1 - x2 = IZR n * P).
Proof. intros P x1 x2 HP; split; [apply per_nonneg | split; [apply per_sym; auto | apply per_zero_iff; auto]]. Qed.
Print Assumptions C18_periodic_metric.
Theorem C18_period_invariant : forall (P x1 x2 : R) (n m : Z), 0 < P ->
  per_dist2 Rops P (x1 + IZR n * P) (x2 + IZR m * P) = per_dist2 Rops P x1 x2.
Proof. exact per_period. Qed.
Print Assumptions C18_period_invariant.
(* the distance is the one to the closest periodic image *)
Theorem C18_periodic_shortest_image : forall (P d : R) (n : Z), 0 < P ->
  (pdiff Rops P d) ^ 2 <= (d - IZR n * P) ^ 2 /\ - P / 2 <= pdiff Rops P d < P / 2.
Proof. intros P d n HP; split; [apply pdiff_min; auto | apply pdiff_range; auto]. Qed.
Print Assumptions C18_periodic_shortest_image.
Theorem C18_periodic_grad_is_derivative : forall P x1 x2 : R, 0 < P -> pdiff Rops P (x1 - x2) <> - P / 2 ->
  is_derive (fun x => per_dist2 Rops P x x2) x1 (per_grad Rops P x1 x2).
Proof. exact per_grad_derive. Qed.
Print Assumptions C18_periodic_grad_is_derivative.

(* ---- 3-vector ---- *)
Theorem C18_vector3_metric : forall a b : vec3,
  0 <= v3_dist2 Rops a b /\ v3_dist2 Rops a b = v3_dist2 Rops b a /\ (v3_dist2 Rops a b = 0 <-> a = b).
Proof. intros; split; [apply v3_nonneg | split; [apply v3_sym | apply v3_zero_iff]]. Qed.
Print Assumptions C18_vector3_metric.
Theorem C18_vector3_grad_is_derivative : forall (ax ay az : R) (b : vec3),
  is_derive (fun t => v3_dist2 Rops (t, ay, az) b) ax (fst (fst (v3_grad Rops (ax, ay, az) b))) /\
  is_derive (fun t => v3_dist2 Rops (ax, t, az) b) ay (snd (fst (v3_grad Rops (ax, ay, az) b))) /\
  is_derive (fun t => v3_dist2 Rops (ax, ay, t) b) az (snd (v3_grad Rops (ax, ay, az) b)).
Proof. intros; split; [apply v3_grad_derive_x | split; [apply v3_grad_derive_y | apply v3_grad_derive_z]]. Qed.
Print Assumptions C18_vector3_grad_is_derivative.

(* ---- unit vector ---- *)
Theorem C18_unitvector_metric : forall a b : vec3, is_unit a -> is_unit b ->
  0 <= uv_dist2 Rops a b /\ uv_dist2 Rops a b = uv_dist2 Rops b a /\ (uv_dist2 Rops a b = 0 <-> a = b).
Proof. intros a b Ha Hb; split; [apply uv_nonneg | split; [apply uv_sym | apply uv_zero_iff; auto]]. Qed.
Print Assumptions C18_unitvector_metric.

(* ---- quaternion ---- *)
Theorem C18_quaternion_metric : forall a b : quat, q_unit a -> q_unit b ->
  0 <= q_dist2 Rops PI a b /\ q_dist2 Rops PI a b = q_dist2 Rops PI b a /\
  (q_dist2 Rops PI a b = 0 <-> a = b \/ a = qneg Rops b).
Proof. intros a b Ha Hb; split; [apply q_nonneg | split; [apply q_sym | apply q_zero_iff; auto]]. Qed.
Print Assumptions C18_quaternion_metric.
Theorem C18_quaternion_sign_invariant : forall a b : quat,
  q_dist2 Rops PI a (qneg Rops b) = q_dist2 Rops PI a b /\ q_dist2 Rops PI (qneg Rops a) b = q_dist2 Rops PI a b.
Proof. intros; split; [apply q_sign_r | apply q_sign_l]. Qed.
Print Assumptions C18_quaternion_sign_invariant.

(* ---- generic vector ---- *)
Theorem C18_vector_metric : forall l1 l2 : list R, length l1 = length l2 ->
  0 <= vec_dist2 Rops l1 l2 /\ vec_dist2 Rops l1 l2 = vec_dist2 Rops l2 l1 /\ (vec_dist2 Rops l1 l2 = 0 <-> l1 = l2).
Proof. intros l1 l2 Hl; split; [apply vec_nonneg | split; [apply vec_sym | apply vec_zero_iff; auto]]. Qed.
Print Assumptions C18_vector_metric.

(* ---- distanceVec override ---- *)
Theorem C18_distvec_lattice_invariant : forall (lx ly lz : R) (x1 x2 : vec3) (n1 n2 n3 : Z), 0 < lx -> 0 < ly -> 0 < lz ->
  let '(a, b, c) := x2 in
  dv_dist2 Rops true (Some (lx, ly, lz)) x1 (a + IZR n1 * lx, b + IZR n2 * ly, c + IZR n3 * lz)
  = dv_dist2 Rops true (Some (lx, ly, lz)) x1 x2.
Proof. exact dv_dist2_lattice. Qed.
Print Assumptions C18_distvec_lattice_invariant.
Theorem C18_distvec_mic_grad : forall x1 x2 : vec3,
  dv_dist2 Rops false None x1 x2 = v3_dist2 Rops x1 x2 /\ dv_lgrad Rops true None x1 x2 = v3_grad Rops x1 x2.
Proof. intros; split; [apply dv_dist2_nopbc | apply dv_lgrad_pbc_nocell]. Qed.
Print Assumptions C18_distvec_mic_grad.

(* the forceNoPBC branch reports the plain gradient (this statement was refuted by the code before the
   fix of distance_vec::dist2_lgrad, which returned 2*(x2 - x1); see known_findings.txt) *)
Theorem C18_distvec_nopbc_lgrad_correct : forall (x1 x2 : vec3) (cell : option vec3),
  dv_lgrad Rops false cell x1 x2 = v3_grad Rops x1 x2.
Proof. exact dv_lgrad_nopbc. Qed.
Print Assumptions C18_distvec_nopbc_lgrad_correct.

(* ---- wrapping ---- *)
Theorem C18_wrap_range : forall c P x : R, 0 < P ->
  c - P / 2 <= cvc_wrap Rops c P x < c + P / 2 /\ (exists n : Z, cvc_wrap Rops c P x = x - IZR n * P) /\
  (c - P / 2 <= x < c + P / 2 -> cvc_wrap Rops c P x = x).
Proof. intros c P x HP; split; [apply cvc_wrap_range; auto | split; [apply cvc_wrap_equiv | apply cvc_wrap_idem; auto]]. Qed.
Print Assumptions C18_wrap_range.

(* ---- wrapping and distance of a periodic variable whose component parameters change at run time
   (modifycvcs): after EVERY history of modifications and calls, wrap lands in the one-period interval
   around the wrapping centre IN FORCE (that of the last modification), on an equivalent value under the
   period in force, and is the identity inside that interval; the distance and its gradient are invariant
   under whole periods of the period in force.  The state reached by the model is the last modification. ---- *)
Theorem C18_object_state_is_last_modification : forall (s : pvar (T:=R)) (h : list pv_op),
  fst (pv_run Rops s h) = pv_in_force s h.
Proof. exact (pv_run_state Rops). Qed.
Print Assumptions C18_object_state_is_last_modification.

Theorem C18_object_wrap_follows_history : forall (s : pvar (T:=R)) (h : list pv_op) (x : R),
  let s' := pv_in_force s h in
  0 < pv_P s' ->
  exists y, snd (pv_run Rops s (h ++ [PvWrap x])) = snd (pv_run Rops s h) ++ [[y]] /\
    pv_c s' - pv_P s' / 2 <= y < pv_c s' + pv_P s' / 2 /\ (exists n : Z, y = x - IZR n * pv_P s') /\
    (pv_c s' - pv_P s' / 2 <= x < pv_c s' + pv_P s' / 2 -> y = x).
Proof. exact pv_history_wrap. Qed.
Print Assumptions C18_object_wrap_follows_history.

Theorem C18_object_dist2_follows_history : forall (s : pvar (T:=R)) (h : list pv_op) (x1 x2 : R) (n m : Z),
  let s' := pv_in_force s h in
  0 < pv_P s' ->
  snd (pv_run Rops s (h ++ [PvDist2 (x1 + IZR n * pv_P s') (x2 + IZR m * pv_P s')])) =
  snd (pv_run Rops s (h ++ [PvDist2 x1 x2])).
Proof. exact pv_history_dist2. Qed.
Print Assumptions C18_object_dist2_follows_history.

Example C18_example_object_history :
  pv_in_force {| pv_P := 10; pv_c := 0 |} [PvWrap 13; PvModify 25 3; PvDist2 1 2] = {| pv_P := 25; pv_c := 3 |} /\ 0 < 25.
Proof. split; [reflexivity | lra]. Qed.

(* ---- interpolation ---- *)
Theorem C18_interpolate_endpoints : forall (x1 x2 : R) (a b : vec3) (l1 l2 : list R), length l1 = length l2 ->
  sc_interp Rops x1 x2 0 = x1 /\ sc_interp Rops x1 x2 1 = x2 /\
  v3_interp Rops a b 0 = a /\ v3_interp Rops a b 1 = b /\
  vec_interp Rops l1 l2 0 = l1 /\ vec_interp Rops l1 l2 1 = l2.
Proof.
  intros. repeat split; [apply sc_interp_0 | apply sc_interp_1 | apply v3_interp_0 | apply v3_interp_1
                        | apply vec_interp_0; auto | apply vec_interp_1; auto].
Qed.
Print Assumptions C18_interpolate_endpoints.
Theorem C18_interpolate_unit_on_manifold : forall (a b : vec3) (l : R),
  (v3norm2 Rops (v3_interp Rops a b l) <> 0 -> is_unit (uv_interp Rops a b l)) /\
  (is_unit a -> uv_interp Rops a b 0 = a) /\ (is_unit b -> uv_interp Rops a b 1 = b).
Proof. intros; split; [apply uv_interp_unit | split; [apply uv_interp_0 | apply uv_interp_1]]. Qed.
Print Assumptions C18_interpolate_unit_on_manifold.

(* non-vacuity *)
Example C18_example_unit : is_unit (0, 1, 0) /\ q_unit (1, 0, 0, 0) /\ (0 < 360).
Proof. unfold is_unit, q_unit, v3norm2, v3dot, qdot; cbn. repeat split; lra. Qed.

(* =====================================================================================================
   Extensions
   ===================================================================================================== *)

(* ---- gradient = tangent derivative for unit vectors and quaternions.
   Non-singularity guards (explicit):
     uv_nonsingular v1 v2 :=  -1 < v1.v2 < 1  /\  1e-28 <= 1 - (v1.v2)^2
        (not coincident, not antipodal, and outside the implementation's null-gradient threshold);
     q_nonsingular q1 q2  :=  -1 < q1.q2 < 1  /\  q1.q2 <> 0  /\  1e-14 <= sqrt(1 - (q1.q2)^2)
        (not equivalent, not at the switch of the shorter geodesic, outside the null-gradient threshold).
   Curve form: for EVERY differentiable curve through the first argument (for quaternions: with velocity tangent
   to the sphere, which every curve on the manifold has) the derivative of the squared distance at the first
   argument is <gradient reported by the code, velocity>.  Line form: along t |-> apply_constraints(v1 + t e). ---- *)
Theorem C18_unitvector_grad_is_tangent_derivative : forall (v1 v2 e : vec3),
  is_unit v1 -> v3dot Rops v1 e = 0 -> uv_nonsingular v1 v2 ->
  is_derive (fun t => uv_dist2 Rops (uv_constrain Rops (v3add Rops v1 (v3scale Rops t e))) v2) 0
            (v3dot Rops (uv_grad Rops v1 v2) e).
Proof. exact uv_grad_line_derive. Qed.
Print Assumptions C18_unitvector_grad_is_tangent_derivative.
Theorem C18_unitvector_grad_is_derivative_along_curves : forall (x y z : R -> R) (ex ey ez : R) (v2 : vec3),
  is_derive x 0 ex -> is_derive y 0 ey -> is_derive z 0 ez ->
  uv_nonsingular (x 0, y 0, z 0) v2 ->
  is_derive (fun t => uv_dist2 Rops (x t, y t, z t) v2) 0 (v3dot Rops (uv_grad Rops (x 0, y 0, z 0) v2) (ex, ey, ez)).
Proof. exact uv_grad_curve_derive. Qed.
Print Assumptions C18_unitvector_grad_is_derivative_along_curves.
Theorem C18_quaternion_grad_is_tangent_derivative : forall (q1 q2 e : quat),
  q_unit q1 -> qdot Rops q1 e = 0 -> q_nonsingular q1 q2 ->
  is_derive (fun t => q_dist2 Rops PI (q_constrain Rops (qadd Rops q1 (qscale Rops t e))) q2) 0
            (qdot Rops (q_grad Rops PI q1 q2) e).
Proof. exact q_grad_line_derive. Qed.
Print Assumptions C18_quaternion_grad_is_tangent_derivative.
Theorem C18_quaternion_grad_is_derivative_along_curves : forall (a0 a1 a2 a3 : R -> R) (e0 e1 e2 e3 : R) (q2 : quat),
  is_derive a0 0 e0 -> is_derive a1 0 e1 -> is_derive a2 0 e2 -> is_derive a3 0 e3 ->
  qdot Rops (a0 0, a1 0, a2 0, a3 0) (e0, e1, e2, e3) = 0 ->
  q_nonsingular (a0 0, a1 0, a2 0, a3 0) q2 ->
  is_derive (fun t => q_dist2 Rops PI (a0 t, a1 t, a2 t, a3 t) q2) 0
            (qdot Rops (q_grad Rops PI (a0 0, a1 0, a2 0, a3 0) q2) (e0, e1, e2, e3)).
Proof. exact q_grad_curve_derive. Qed.
Print Assumptions C18_quaternion_grad_is_derivative_along_curves.
(* premises are satisfiable: perpendicular unit vectors; quaternions at inner product 1/2 (positive branch) and -1/2 (negative branch) *)
Example C18_example_uv_nonsingular :
  is_unit (1, 0, 0) /\ v3dot Rops (1, 0, 0) (0, 0, 1) = 0 /\ uv_nonsingular (1, 0, 0) (0, 1, 0).
Proof.
  unfold is_unit, uv_nonsingular, v3norm2, v3dot; cbn. repeat split; try lra.
Qed.
Example C18_example_q_nonsingular :
  q_unit (1, 0, 0, 0) /\ qdot Rops (1, 0, 0, 0) (0, 0, 0, 1) = 0 /\
  q_nonsingular (1, 0, 0, 0) (1 / 2, sqrt 3 / 2, 0, 0) /\ q_nonsingular (1, 0, 0, 0) (- (1 / 2), sqrt 3 / 2, 0, 0).
Proof.
  assert (Hs : 1 / IZR 100000000000000 <= sqrt (1 - 1 / 2 * (1 / 2))).
  { apply Rle_trans with (1 / 2); [lra|]. replace (1 / 2) with (sqrt (1 / 4)) at 1.
    - apply sqrt_le_1; lra.
    - replace (1 / 4) with ((1 / 2) * (1 / 2)) by lra. apply sqrt_square; lra. }
  unfold q_unit, q_nonsingular, qdot; cbn. repeat split; try lra.
  - replace (1 * (1 / 2) + 0 * (sqrt 3 / 2) + 0 * 0 + 0 * 0) with (1 / 2) by ring. exact Hs.
  - replace (1 * - (1 / 2) + 0 * (sqrt 3 / 2) + 0 * 0 + 0 * 0) with (- (1 / 2)) by ring.
    replace (1 - - (1 / 2) * - (1 / 2)) with (1 - 1 / 2 * (1 / 2)) by ring. exact Hs.
Qed.

(* ---- generic vector (colvarvalue::dist2_grad for type_vector; cartesian, distancePairs): every component of the
   reported gradient is the partial derivative ---- *)
Theorem C18_vector_grad_is_derivative : forall (l1 l2 : list R) (i : nat), length l1 = length l2 -> (i < length l1)%nat ->
  is_derive (fun t => vec_dist2 Rops (upd l1 i t) l2) (nth i l1 0) (nth i (vec_grad Rops l1 l2) 0).
Proof. exact vec_grad_derive. Qed.
Print Assumptions C18_vector_grad_is_derivative.
Example C18_example_vector_index : length [1; 2] = length [3; 4] /\ (1 < length [1; 2])%nat.
Proof. cbn. split; [reflexivity | lia]. Qed.

(* ---- apply_constraints: lands on the manifold, fixes the manifold pointwise, idempotent ---- *)
Theorem C18_apply_constraints : forall (v : vec3) (q : quat),
  (v3norm2 Rops v <> 0 -> is_unit (uv_constrain Rops v) /\ uv_constrain Rops (uv_constrain Rops v) = uv_constrain Rops v) /\
  (is_unit v -> uv_constrain Rops v = v) /\
  (qnorm2 Rops q <> 0 -> q_unit (q_constrain Rops q) /\ q_constrain Rops (q_constrain Rops q) = q_constrain Rops q) /\
  (q_unit q -> q_constrain Rops q = q).
Proof.
  intros v q. split; [intros H; split; [apply uv_constrain_unit | apply uv_constrain_idem]; exact H|].
  split; [apply uv_constrain_fix|]. split; [intros H; split; [apply q_constrain_unit | apply q_constrain_idem]; exact H|].
  apply q_constrain_fix.
Qed.
Print Assumptions C18_apply_constraints.
Example C18_example_constrain : v3norm2 Rops (3, 0, 4) <> 0 /\ qnorm2 Rops (1, 1, 1, 1) <> 0.
Proof. unfold v3norm2, v3dot, qnorm2, qdot; cbn. split; lra. Qed.

(* ---- quaternion interpolation (apply_constraints of the linear combination; NO sign alignment of the end points):
   both end points are reached, the result is a unit quaternion whenever the linear combination is non-zero, in particular
   whenever the implementation does not raise its documented "undefined" error (same for unit vectors) ---- *)
Theorem C18_interpolate_quaternion_on_manifold : forall (q1 q2 : quat) (l : R),
  (q_unit q1 -> q_interp Rops q1 q2 0 = q1) /\ (q_unit q2 -> q_interp Rops q1 q2 1 = q2) /\
  (qnorm2 Rops (q_lin Rops q1 q2 l) <> 0 -> q_unit (q_interp Rops q1 q2 l)) /\
  (q_interp_undefined Rops PI q1 q2 l = false -> q_unit (q_interp Rops q1 q2 l)).
Proof.
  intros q1 q2 l. split; [apply q_interp_0|]. split; [apply q_interp_1|]. split; [apply q_interp_unit | apply q_interp_defined_unit].
Qed.
Print Assumptions C18_interpolate_quaternion_on_manifold.
Theorem C18_interpolate_unit_defined_on_manifold : forall (a b : vec3) (l : R),
  uv_interp Rops a b l = uv_constrain Rops (v3_interp Rops a b l) /\
  (uv_interp_undefined Rops a b l = false -> is_unit (uv_interp Rops a b l)).
Proof. intros a b l. split; [apply uv_interp_is_constrain | apply uv_interp_defined_unit]. Qed.
Print Assumptions C18_interpolate_unit_defined_on_manifold.
(* the implementation's undefined-result test passes (no error) half-way between two perpendicular quaternions *)
Example C18_example_q_interp_defined : q_interp_undefined Rops PI (1, 0, 0, 0) (0, 1, 0, 0) (1 / 2) = false.
Proof.
  unfold q_interp_undefined. apply negb_false_iff. cbn [nleb ndiv nsqrt Rops]. apply Rleb_true.
  assert (En : qnorm2 Rops (q_lin Rops (1, 0, 0, 0) (0, 1, 0, 0) (1 / 2)) = 1 / 2)
    by (unfold qnorm2, qdot, q_lin, qadd, qscale; cbn; field).
  assert (Ed : q_dist2 Rops PI (1, 0, 0, 0) (0, 1, 0, 0) = (PI / 2) * (PI / 2)).
  { rewrite q_dist2_qd2. assert (qdot Rops (1, 0, 0, 0) (0, 1, 0, 0) = 0) as -> by (unfold qdot; cbn; ring).
    unfold qd2. replace (Rltb 0 0) with false by (symmetry; apply Rltb_false; lra).
    rewrite clamp1_id by lra. rewrite acos_0. field. }
  rewrite En, Ed. pose proof PI_RGT_0 as Hp. pose proof PI_4 as Hp4.
  rewrite sqrt_square by lra.
  assert (H1 : 1 / 2 <= sqrt (1 / 2)).
  { replace (1 / 2) with (sqrt (1 / 4)) at 1 by (replace (1 / 4) with ((1 / 2) * (1 / 2)) by lra; apply sqrt_square; lra).
    apply sqrt_le_1; lra. }
  unfold tiny6; cbn [ndiv n1 nofZ Rops].
  apply Rle_trans with ((1 / 2) / 2); [lra|].
  unfold Rdiv at 1 3. apply Rmult_le_compat; try lra.
  apply Rinv_le_contravar; lra.
Qed.
Example C18_example_q_lin_nonzero : qnorm2 Rops (q_lin Rops (1, 0, 0, 0) (0, 1, 0, 0) (1 / 2)) <> 0.
Proof. unfold qnorm2, qdot, q_lin, qadd, qscale; cbn. lra. Qed.

(* ---- dist2_rgrad (gradient with respect to the SECOND argument), per type: it is the derivative with respect to the second
   argument; for the flat types it equals minus the left gradient, for a periodic scalar off the half-period cut (on the cut
   both are -P), for the manifold types it is NOT minus the left gradient (it is tangent at the second argument) ---- *)
Theorem C18_rgrad_is_derivative_in_second_argument :
  (forall x1 x2 : R, is_derive (fun y => sc_dist2 Rops x1 y) x2 (sc_rgrad Rops x1 x2)) /\
  (forall P x1 x2 : R, 0 < P -> pdiff Rops P (x2 - x1) <> - P / 2 ->
     is_derive (fun y => per_dist2 Rops P x1 y) x2 (per_rgrad Rops P x1 x2)) /\
  (forall (a : vec3) (bx by_ bz : R),
     is_derive (fun t => v3_dist2 Rops a (t, by_, bz)) bx (fst (fst (v3_rgrad Rops a (bx, by_, bz)))) /\
     is_derive (fun t => v3_dist2 Rops a (bx, t, bz)) by_ (snd (fst (v3_rgrad Rops a (bx, by_, bz)))) /\
     is_derive (fun t => v3_dist2 Rops a (bx, by_, t)) bz (snd (v3_rgrad Rops a (bx, by_, bz)))) /\
  (forall (l1 l2 : list R) (i : nat), length l1 = length l2 -> (i < length l2)%nat ->
     is_derive (fun t => vec_dist2 Rops l1 (upd l2 i t)) (nth i l2 0) (nth i (vec_rgrad Rops l1 l2) 0)) /\
  (forall (x y z : R -> R) (ex ey ez : R) (v1 : vec3),
     is_derive x 0 ex -> is_derive y 0 ey -> is_derive z 0 ez -> uv_nonsingular (x 0, y 0, z 0) v1 ->
     is_derive (fun t => uv_dist2 Rops v1 (x t, y t, z t)) 0 (v3dot Rops (uv_rgrad Rops v1 (x 0, y 0, z 0)) (ex, ey, ez))) /\
  (forall (a0 a1 a2 a3 : R -> R) (e0 e1 e2 e3 : R) (q1 : quat),
     is_derive a0 0 e0 -> is_derive a1 0 e1 -> is_derive a2 0 e2 -> is_derive a3 0 e3 ->
     qdot Rops (a0 0, a1 0, a2 0, a3 0) (e0, e1, e2, e3) = 0 -> q_nonsingular (a0 0, a1 0, a2 0, a3 0) q1 ->
     is_derive (fun t => q_dist2 Rops PI q1 (a0 t, a1 t, a2 t, a3 t)) 0
               (qdot Rops (q_rgrad Rops PI q1 (a0 0, a1 0, a2 0, a3 0)) (e0, e1, e2, e3))).
Proof.
  split; [exact sc_rgrad_derive|]. split; [exact per_rgrad_derive|].
  split; [intros a bx by_ bz; split; [apply v3_rgrad_derive_x | split; [apply v3_rgrad_derive_y | apply v3_rgrad_derive_z]]|].
  split; [exact vec_rgrad_derive|]. split; [exact uv_rgrad_curve_derive | exact q_rgrad_curve_derive].
Qed.
Print Assumptions C18_rgrad_is_derivative_in_second_argument.
Theorem C18_rgrad_vs_minus_lgrad :
  (forall x1 x2 : R, sc_rgrad Rops x1 x2 = - sc_grad Rops x1 x2) /\
  (forall a b : vec3, v3_rgrad Rops a b = v3scale Rops (-1) (v3_grad Rops a b)) /\
  (forall P x1 x2 : R, 0 < P -> pdiff Rops P (x1 - x2) <> - P / 2 -> per_rgrad Rops P x1 x2 = - per_grad Rops P x1 x2) /\
  (forall P x1 x2 : R, 0 < P -> pdiff Rops P (x1 - x2) = - P / 2 -> per_rgrad Rops P x1 x2 = - P /\ per_grad Rops P x1 x2 = - P) /\
  (exists a b : vec3, is_unit a /\ is_unit b /\ uv_rgrad Rops a b <> v3scale Rops (-1) (uv_grad Rops a b)).
Proof.
  split; [exact sc_rgrad_minus|]. split; [exact v3_rgrad_minus|]. split; [exact per_rgrad_minus|].
  split; [exact per_rgrad_on_cut | exact uv_rgrad_not_minus_lgrad].
Qed.
Print Assumptions C18_rgrad_vs_minus_lgrad.
Example C18_example_cut : 0 < 360 /\ pdiff Rops 360 (190 - 10) = - 360 / 2 /\ pdiff Rops 360 (20 - 10) <> - 360 / 2.
Proof.
  split; [lra|]. split.
  - apply (pdiff_unique 360 _ _ 1); simpl; lra.
  - assert (pdiff Rops 360 (20 - 10) = 10) as -> by (apply (pdiff_unique 360 _ 10 0); simpl; lra). lra.
Qed.

(* ---- the components of this build, through colvar::dist2/dist2_lgrad/dist2_rgrad/wrap of a single-component variable
   (comp_kind: which modelled function, which period/centre): symmetric distance, right gradient = left gradient with the
   arguments exchanged, wrap = identity on every non-periodic kind and the equivalent value in [c-P/2, c+P/2) on a periodic
   one, and wrapping both arguments never changes the distance or the gradient ---- *)
Theorem C18_component_dispatch : forall (k : comp_kind) (a b : cval), comp_ok k ->
  comp_dist2 Rops PI k a b = comp_dist2 Rops PI k b a /\
  comp_rgrad Rops PI k a b = comp_lgrad Rops PI k b a /\
  comp_dist2 Rops PI k (comp_wrap Rops k a) (comp_wrap Rops k b) = comp_dist2 Rops PI k a b /\
  comp_lgrad Rops PI k (comp_wrap Rops k a) (comp_wrap Rops k b) = comp_lgrad Rops PI k a b /\
  match k, a with
  | KPeriodic P c, VS x => exists y, comp_wrap Rops k a = VS y /\ c - P / 2 <= y < c + P / 2 /\ (exists n : Z, y = x - IZR n * P)
  | _, _ => comp_wrap Rops k a = a
  end.
Proof.
  intros k a b Hk. split; [apply comp_dist2_sym; exact Hk|]. split; [apply comp_rgrad_is_swapped_lgrad|].
  destruct (comp_wrap_dist2 k a b Hk) as [E1 E2]. split; [exact E1|]. split; [exact E2|]. apply comp_wrap_spec; exact Hk.
Qed.
Print Assumptions C18_component_dispatch.
Example C18_example_comp_ok : comp_ok (KPeriodic 360 (-180)) /\ comp_ok (KVec3 true (Some (8, 8, 16))) /\ comp_ok (KQuat (T:=R)).
Proof. cbn. repeat split; lra. Qed.

(* ---- wrap commutes with dist2 (and with the gradient), for any two wrapping centres, and after EVERY history of
   run-time parameter changes on a periodic variable ---- *)
Theorem C18_wrap_commutes_with_dist2 : forall c1 c2 P x y : R, 0 < P ->
  per_dist2 Rops P (cvc_wrap Rops c1 P x) (cvc_wrap Rops c2 P y) = per_dist2 Rops P x y /\
  per_grad Rops P (cvc_wrap Rops c1 P x) (cvc_wrap Rops c2 P y) = per_grad Rops P x y.
Proof. exact wrap_dist2_both. Qed.
Print Assumptions C18_wrap_commutes_with_dist2.
Theorem C18_object_wrap_commutes_with_dist2 : forall (s : pvar (T:=R)) (h : list pv_op) (x1 x2 : R),
  let s' := pv_in_force s h in
  0 < pv_P s' ->
  snd (pv_run Rops s (h ++ [PvDist2 (cvc_wrap Rops (pv_c s') (pv_P s') x1) (cvc_wrap Rops (pv_c s') (pv_P s') x2)])) =
  snd (pv_run Rops s (h ++ [PvDist2 x1 x2])) /\
  pv_wrapped_dist2 Rops s' x1 x2 = [per_dist2 Rops (pv_P s') x1 x2; per_grad Rops (pv_P s') x1 x2].
Proof. exact pv_history_wrap_dist2. Qed.
Print Assumptions C18_object_wrap_commutes_with_dist2.

(* ---- biases that wrap their centres see equivalent values: the moving restraint's centre (interpolate, then colvar::wrap)
   and the centre of two merged OPES kernels ---- *)
Theorem C18_moving_restraint_centre_equivalent : forall c P x0 x1 l x : R, 0 < P ->
  c - P / 2 <= mr_center Rops c P x0 x1 l < c + P / 2 /\
  per_dist2 Rops P x (mr_center Rops c P x0 x1 l) = per_dist2 Rops P x (sc_interp Rops x0 x1 l) /\
  per_grad Rops P x (mr_center Rops c P x0 x1 l) = per_grad Rops P x (sc_interp Rops x0 x1 l) /\
  per_dist2 Rops P (mr_center Rops c P x0 x1 0) x0 = 0 /\ per_dist2 Rops P (mr_center Rops c P x0 x1 1) x1 = 0.
Proof. exact mr_center_props. Qed.
Print Assumptions C18_moving_restraint_centre_equivalent.
Theorem C18_opes_merged_centre_equivalent : forall (c P h1 k1 h2 k2 : R) (n m : Z), 0 < P -> h1 + h2 <> 0 ->
  opes_merge_center Rops c P h1 (k1 + IZR n * P) h2 (k2 + IZR m * P) = opes_merge_center Rops c P h1 k1 h2 k2 /\
  c - P / 2 <= opes_merge_center Rops c P h1 k1 h2 k2 < c + P / 2.
Proof. intros c P h1 k1 h2 k2 n m HP Hh. split; [apply opes_merge_center_period; assumption | apply opes_merge_center_range; exact HP]. Qed.
Print Assumptions C18_opes_merged_centre_equivalent.
Example C18_example_opes : 0 < 360 /\ 1 + 2 <> 0.
Proof. split; lra. Qed.
(* interpolation of a periodic scalar is plain linear interpolation (it does not take the shortest image): behaviour, see NOTES.md *)
Theorem C18_periodic_interpolation_is_linear : exists P x0 x1 l : R, 0 < P /\ 0 <= l <= 1 /\
  per_dist2 Rops P x1 x0 < per_dist2 Rops P (sc_interp Rops x0 x1 l) x0.
Proof. exact periodic_interp_not_shortest_image. Qed.
Print Assumptions C18_periodic_interpolation_is_linear.

(* ---- inner products on the manifolds stay in [-1, 1] (the clamp in dist2 only absorbs rounding) ---- *)
Theorem C18_inner_bounded_on_manifold : forall (a b : vec3) (p q : quat),
  (is_unit a -> is_unit b -> -1 <= v3dot Rops a b <= 1 /\ clamp1 Rops (v3dot Rops a b) = v3dot Rops a b) /\
  (q_unit p -> q_unit q -> -1 <= qdot Rops p q <= 1 /\ clamp1 Rops (qdot Rops p q) = qdot Rops p q).
Proof.
  intros a b p q. split; intros H1 H2.
  - pose proof (unit_dot_bound a b H1 H2) as Hb. split; [exact Hb | apply clamp1_id; exact Hb].
  - pose proof (q_dot_bound p q H1 H2) as Hb. split; [exact Hb | apply clamp1_id; exact Hb].
Qed.
Print Assumptions C18_inner_bounded_on_manifold.

(* =====================================================================================================
   Round 3
   ===================================================================================================== *)

(* ---- a variable that is a sum / difference of scalar components (coefficients +-1): it is periodic exactly when every
   component has the period of the first one; otherwise it is an ordinary scalar: its distance is zero ONLY for equal values and
   wrap is the identity (before the repair a non-periodic sum such as dihedral + distance used the period of its first component:
   hv_before_fix_refuted in Round3Proofs.v) ---- *)
Theorem C18_sum_of_components_metric : forall (c : R) (ps : list (option R)),
  (forall P, hv_period Rops ps = Some P <-> (exists r, ps = Some P :: r) /\ List.Forall (fun q => q = Some P) ps) /\
  (forall P, hv_period Rops ps = Some P -> hv_kind Rops c ps = KPeriodic P c) /\
  (hv_period Rops ps = None -> forall x y : R,
     hv_kind Rops c ps = KScalar /\
     (comp_dist2 Rops PI (hv_kind Rops c ps) (VS x) (VS y) = Some 0 <-> x = y) /\
     comp_wrap Rops (hv_kind Rops c ps) (VS x) = VS x).
Proof.
  intros c ps. split; [intros P; apply hv_period_some|]. split; [intros P; apply hv_periodic_kind|].
  intros H x y. apply hv_nonperiodic_metric; exact H.
Qed.
Print Assumptions C18_sum_of_components_metric.
Example C18_example_sums : hv_period Rops [Some 360; None] = None /\ hv_period Rops [Some 10; Some 20] = None /\
  hv_period Rops [Some 360; Some 360] = Some 360.
Proof.
  unfold hv_period; cbn [forallb neqb Rops andb].
  assert (E1 : Reqb' 20 10 = false) by (unfold Reqb'; destruct (Req_EM_T 20 10); [lra | reflexivity]).
  assert (E2 : Reqb' 360 360 = true) by (apply Reqb_true; reflexivity).
  rewrite E1, E2. repeat split.
Qed.

(* ---- distanceVec in an orthorhombic cell: the left and the right gradient are the partial derivatives in the first and in
   the second argument, component by component, off the half-cell cut of that component ---- *)
Theorem C18_distvec_cell_grad_is_derivative : forall lx ly lz : R, 0 < lx -> 0 < ly -> 0 < lz ->
  forall a1 b1 c1 a2 b2 c2 : R,
  let cell := Some (lx, ly, lz) in
  (pdiff Rops lx (a1 - a2) <> - lx / 2 ->
     is_derive (fun t => dv_dist2 Rops true cell (t, b1, c1) (a2, b2, c2)) a1 (fst (fst (dv_lgrad Rops true cell (a1, b1, c1) (a2, b2, c2))))) /\
  (pdiff Rops ly (b1 - b2) <> - ly / 2 ->
     is_derive (fun t => dv_dist2 Rops true cell (a1, t, c1) (a2, b2, c2)) b1 (snd (fst (dv_lgrad Rops true cell (a1, b1, c1) (a2, b2, c2))))) /\
  (pdiff Rops lz (c1 - c2) <> - lz / 2 ->
     is_derive (fun t => dv_dist2 Rops true cell (a1, b1, t) (a2, b2, c2)) c1 (snd (dv_lgrad Rops true cell (a1, b1, c1) (a2, b2, c2)))).
Proof. intros lx ly lz Hx Hy Hz a1 b1 c1 a2 b2 c2. exact (dv_cell_lgrad_derive lx ly lz Hx Hy Hz a1 b1 c1 a2 b2 c2). Qed.
Print Assumptions C18_distvec_cell_grad_is_derivative.
Theorem C18_distvec_cell_rgrad_is_derivative : forall lx ly lz : R, 0 < lx -> 0 < ly -> 0 < lz ->
  forall a1 b1 c1 a2 b2 c2 : R,
  let cell := Some (lx, ly, lz) in
  (pdiff Rops lx (a2 - a1) <> - lx / 2 ->
     is_derive (fun t => dv_dist2 Rops true cell (a1, b1, c1) (t, b2, c2)) a2 (fst (fst (dv_rgrad Rops true cell (a1, b1, c1) (a2, b2, c2))))) /\
  (pdiff Rops ly (b2 - b1) <> - ly / 2 ->
     is_derive (fun t => dv_dist2 Rops true cell (a1, b1, c1) (a2, t, c2)) b2 (snd (fst (dv_rgrad Rops true cell (a1, b1, c1) (a2, b2, c2))))) /\
  (pdiff Rops lz (c2 - c1) <> - lz / 2 ->
     is_derive (fun t => dv_dist2 Rops true cell (a1, b1, c1) (a2, b2, t)) c2 (snd (dv_rgrad Rops true cell (a1, b1, c1) (a2, b2, c2)))).
Proof. intros lx ly lz Hx Hy Hz a1 b1 c1 a2 b2 c2. exact (dv_cell_rgrad_derive lx ly lz Hx Hy Hz a1 b1 c1 a2 b2 c2). Qed.
Print Assumptions C18_distvec_cell_rgrad_is_derivative.
Example C18_example_cell_off_cut : 0 < 8 /\ pdiff Rops 8 (1 - 7) <> - 8 / 2.
Proof. split; [lra|]. assert (pdiff Rops 8 (1 - 7) = 2) as -> by (apply (pdiff_unique 8 _ 2 (-1)); simpl; lra). lra. Qed.

(* ---- distanceVec in a GENERAL (triclinic) cell with vectors a, b, c (colvarproxy_system::update_pbc_lattice +
   position_distance): non-negative, zero exactly for lattice-equivalent points, invariant under lattice translations,
   equal to the orthorhombic model for an orthogonal cell, and - off the cut - symmetric with rgrad = -lgrad ---- *)
Theorem C18_distvec_triclinic_metric : forall (a b c x1 x2 : vec3) (n1 n2 n3 : Z), det3 a b c <> 0 ->
  0 <= dvt_dist2 Rops a b c x1 x2 /\
  (dvt_dist2 Rops a b c x1 x2 = 0 <-> exists m1 m2 m3 : Z, v3sub Rops x2 x1 = lat3 a b c (IZR m1) (IZR m2) (IZR m3)) /\
  dvt_dist2 Rops a b c x1 (v3add Rops x2 (lat3 a b c (IZR n1) (IZR n2) (IZR n3))) = dvt_dist2 Rops a b c x1 x2.
Proof. exact dvt_metric. Qed.
Print Assumptions C18_distvec_triclinic_metric.
Theorem C18_distvec_triclinic_symmetric_partial : forall (a b c x1 x2 : vec3), off_cut3 a b c (v3sub Rops x2 x1) ->
  dvt_dist2 Rops a b c x2 x1 = dvt_dist2 Rops a b c x1 x2 /\
  dvt_rgrad Rops a b c x1 x2 = v3scale Rops (-1) (dvt_lgrad Rops a b c x1 x2).
Proof. exact dvt_sym. Qed.
Print Assumptions C18_distvec_triclinic_symmetric_partial.
Theorem C18_distvec_triclinic_extends_orthorhombic : forall (lx ly lz : R) (p1 p2 : vec3), 0 < lx -> 0 < ly -> 0 < lz ->
  tri_position_distance Rops (lx, 0, 0) (0, ly, 0) (0, 0, lz) p1 p2 = position_distance Rops (Some (lx, ly, lz)) p1 p2.
Proof. exact tri_pd_ortho. Qed.
Print Assumptions C18_distvec_triclinic_extends_orthorhombic.
Example C18_example_triclinic : det3 (8, 0, 0) (2, 8, 0) (0, 0, 8) <> 0 /\ off_cut3 (8, 0, 0) (2, 8, 0) (0, 0, 8) (1, 0, 0).
Proof.
  split; [unfold det3, v3dot, v3cross; cbn; lra|].
  unfold off_cut3.
  assert (E : frac3 (8, 0, 0) (2, 8, 0) (0, 0, 8) (1, 0, 0) = (1 / 8, 0, 0))
    by (unfold frac3, recip, v3dot, v3cross; cbn; f_equal; [f_equal|]; field).
  rewrite E.
  assert (F : forall s : R, 0 <= s < 1 / 2 -> IZR (Zfloor (s + 1 / 2)) <> s + 1 / 2).
  { intros s Hs. assert (Zfloor (s + 1 / 2) = 0%Z) as -> by (apply Zfloor_imp; simpl; lra). simpl. lra. }
  repeat split; apply F; lra.
Qed.

(* =====================================================================================================
   colvar::init(): when is a variable made of several components periodic?  (sum_periodic mirrors the code's loops: linear,
   homogeneous, then the loop over components 1.. that clears the flag and resets the period)
   ===================================================================================================== *)
(* for component lists of ANY length: the variable is flagged periodic, with period P and wrapping centre c, exactly when the
   list is not empty, c is the centre of the first component (creation order), and EVERY component is periodic with period P,
   exponent 1 and coefficient +-1 (sc_ok) *)
Theorem C18_sum_periodic_iff_all_components : forall (l : list scomp) (P c : R),
  sum_periodic Rops l = Some (P, c) <-> (exists k0 r, l = k0 :: r /\ c = sc_wc k0) /\ List.Forall (sc_ok P) l.
Proof. exact sum_periodic_iff. Qed.
Print Assumptions C18_sum_periodic_iff_all_components.
(* ... hence the decision (and the period) does not depend on the order in which the components are created *)
Theorem C18_sum_periodic_order_independent : forall l l' : list scomp, Permutation l l' ->
  option_map fst (sum_periodic Rops l) = option_map fst (sum_periodic Rops l').
Proof. exact sum_periodic_period_perm. Qed.
Print Assumptions C18_sum_periodic_order_independent.
(* ... and a variable that is not periodic has the plain metric (distance zero only for equal values, wrap = identity), a
   periodic one the periodic metric of the common period around the first component's centre *)
Theorem C18_sum_metric_follows_decision : forall (l : list scomp) (x y : R),
  (sum_periodic Rops l = None ->
     sum_kind Rops l = KScalar /\ (comp_dist2 Rops PI (sum_kind Rops l) (VS x) (VS y) = Some 0 <-> x = y) /\
     comp_wrap Rops (sum_kind Rops l) (VS x) = VS x) /\
  (forall P c, sum_periodic Rops l = Some (P, c) -> sum_kind Rops l = KPeriodic P c).
Proof. exact sum_kind_metric. Qed.
Print Assumptions C18_sum_metric_follows_decision.
(* dihedral + distance + polarPhi (periodic, not periodic, periodic) is NOT periodic; three periodic components of period 360 are *)
Example C18_example_sum3 :
  let dih := {| sc_per := true; sc_P := 360; sc_wc := 0; sc_coeff := 1; sc_exp := 1; sc_rank := 1 |} in
  let dst := {| sc_per := false; sc_P := 0; sc_wc := 0; sc_coeff := 1; sc_exp := 1; sc_rank := 2 |} in
  let phi := {| sc_per := true; sc_P := 360; sc_wc := 0; sc_coeff := -1; sc_exp := 1; sc_rank := 5 |} in
  sum_periodic Rops [dih; dst; phi] = None /\ List.Forall (sc_ok 360) [dih; phi; phi].
Proof.
  cbv zeta. split.
  - match goal with |- ?t = None => destruct t as [[P c]|] eqn:E; [|reflexivity] end.
    apply sum_periodic_iff in E. destruct E as [_ HF].
    inversion HF as [|? ? _ HF1]; subst. inversion HF1 as [|? ? [Hper _] _]; subst. cbn in Hper. discriminate.
  - assert (Ht : 0 <= tol10 Rops) by (unfold tol10; cbn; apply Rlt_le, Rdiv_lt_0_compat; lra).
    assert (Hk : forall k : scomp, sc_per k = true -> sc_P k = 360 -> sc_exp k = 1%Z -> Rabs (sc_coeff k) = 1 -> sc_ok 360 k).
    { intros k H1 H2 H3 H4. unfold sc_ok. rewrite H4. replace (1 - 1) with 0 by ring. rewrite Rabs_R0. auto. }
    apply Forall_cons; [apply Hk; cbn; auto; apply Rabs_R1|].
    apply Forall_cons; [apply Hk; cbn; auto; unfold Rabs; destruct (Rcase_abs (-1)); lra|].
    apply Forall_cons; [apply Hk; cbn; auto; unfold Rabs; destruct (Rcase_abs (-1)); lra|]. apply Forall_nil.
Qed.

(* =====================================================================================================
   Round 4: the consumers of the metric (harmonic restraint, harmonic walls, finite-difference velocity) see equivalent
   values as equal
   ===================================================================================================== *)
(* harmonic restraint (energy 0.5 k/w^2 dist2, force -0.5 k/w^2 dist2_lgrad, through the variable's own functions): for EVERY kind
   of variable wrapping value and centre changes nothing; for a periodic variable whole periods of value and centre change
   nothing; for an orientation the sign of the value or of the centre changes nothing *)
Theorem C18_restraint_sees_equivalent_values : forall (k w : R),
  (forall kind x c, comp_ok kind ->
     hr_energy Rops PI k w kind (comp_wrap Rops kind x) (comp_wrap Rops kind c) = hr_energy Rops PI k w kind x c /\
     hr_force Rops PI k w kind (comp_wrap Rops kind x) (comp_wrap Rops kind c) = hr_force Rops PI k w kind x c) /\
  (forall P c0 x c (n m : Z), 0 < P ->
     hr_energy Rops PI k w (KPeriodic P c0) (VS (x + IZR n * P)) (VS (c + IZR m * P)) = hr_energy Rops PI k w (KPeriodic P c0) (VS x) (VS c) /\
     hr_force Rops PI k w (KPeriodic P c0) (VS (x + IZR n * P)) (VS (c + IZR m * P)) = hr_force Rops PI k w (KPeriodic P c0) (VS x) (VS c)) /\
  (forall q c,
     hr_energy Rops PI k w KQuat (VQ (qneg Rops q)) (VQ c) = hr_energy Rops PI k w KQuat (VQ q) (VQ c) /\
     hr_energy Rops PI k w KQuat (VQ q) (VQ (qneg Rops c)) = hr_energy Rops PI k w KQuat (VQ q) (VQ c)).
Proof.
  intros k w. split; [intros kind x c Hk; apply hr_wrap; exact Hk|].
  split; [intros P c0 x c n m HP; apply hr_periodic_images; exact HP | intros q c; apply hr_quaternion_sign].
Qed.
Print Assumptions C18_restraint_sees_equivalent_values.
(* with a positive force constant the restraint energy vanishes exactly at the values equivalent to the centre *)
Theorem C18_restraint_zero_iff_equivalent : forall k w : R, 0 < k -> w <> 0 ->
  (forall P c0 x c, 0 < P ->
     (hr_energy Rops PI k w (KPeriodic P c0) (VS x) (VS c) = Some 0 <-> exists n : Z, x - c = IZR n * P)) /\
  (forall q c, q_unit q -> q_unit c ->
     (hr_energy Rops PI k w KQuat (VQ q) (VQ c) = Some 0 <-> q = c \/ q = qneg Rops c)) /\
  (forall a b, is_unit a -> is_unit b -> (hr_energy Rops PI k w KUnit (V3 a) (V3 b) = Some 0 <-> a = b)).
Proof. exact hr_zero_iff. Qed.
Print Assumptions C18_restraint_zero_iff_equivalent.
(* the restraint force is minus the derivative of the restraint energy (scalar; periodic off the half-period cut) *)
Theorem C18_restraint_force_is_minus_energy_derivative : forall k w : R,
  (forall P c0 x c,
     hr_energy Rops PI k w (KPeriodic P c0) (VS x) (VS c) = Some (1 / 2 * k / (w * w) * per_dist2 Rops P x c) /\
     hr_force Rops PI k w (KPeriodic P c0) (VS x) (VS c) = Some (VS (- (1 / 2) * k / (w * w) * per_grad Rops P x c)) /\
     hr_energy Rops PI k w KScalar (VS x) (VS c) = Some (1 / 2 * k / (w * w) * sc_dist2 Rops x c) /\
     hr_force Rops PI k w KScalar (VS x) (VS c) = Some (VS (- (1 / 2) * k / (w * w) * sc_grad Rops x c))) /\
  (forall x c, is_derive (fun t => 1 / 2 * k / (w * w) * sc_dist2 Rops t c) x (- (- (1 / 2) * k / (w * w) * sc_grad Rops x c))) /\
  (forall P x c, 0 < P -> pdiff Rops P (x - c) <> - P / 2 ->
     is_derive (fun t => 1 / 2 * k / (w * w) * per_dist2 Rops P t c) x (- (- (1 / 2) * k / (w * w) * per_grad Rops P x c))).
Proof.
  intros k w. split; [intros P c0 x c; apply hr_model_unfold|]. exact (hr_force_is_minus_derivative k w).
Qed.
Print Assumptions C18_restraint_force_is_minus_energy_derivative.
(* a restraint centred at 179 degrees pulls a value at -179 degrees by 2 degrees (energy 2, force -2 for k = width = 1) *)
Example C18_example_restraint_across_boundary :
  hr_energy Rops PI 1 1 (KPeriodic 360 0) (VS (-179)) (VS 179) = Some 2 /\
  hr_force Rops PI 1 1 (KPeriodic 360 0) (VS (-179)) (VS 179) = Some (VS (-2)).
Proof. exact hr_across_boundary. Qed.
(* finite-difference velocity of a periodic variable: the closest-image displacement over the time step *)
Theorem C18_velocity_is_closest_image_displacement : forall dt P c0 xo xn : R, 0 < dt -> 0 < P ->
  fd_velocity Rops PI dt (KPeriodic P c0) (VS xo) (VS xn) = Some (VS (pdiff Rops P (xn - xo) / dt)) /\
  (forall v, fd_velocity Rops PI dt (KPeriodic P c0) (VS xo) (VS xn) = Some (VS v) ->
     - P / 2 <= v * dt < P / 2 /\ exists n : Z, v * dt = xn - xo - IZR n * P).
Proof.
  intros dt P c0 xo xn Hdt HP. split; [apply fd_velocity_periodic; exact Hdt | intros v; apply fd_velocity_bound; assumption].
Qed.
Print Assumptions C18_velocity_is_closest_image_displacement.
(* harmonic walls on a periodic variable: invariant under whole periods of the value and of either wall; the displacement acted on
   is zero or the closest-image displacement from the nearer wall (negative only from the lower, positive only from the upper) *)
Theorem C18_walls_on_periodic_variable : forall (k w lk uk P c0 lo up x : R) (n m l : Z), 0 < P ->
  hw_energy Rops k w lk uk (KPeriodic P c0) (lo + IZR m * P) (up + IZR l * P) (x + IZR n * P) = hw_energy Rops k w lk uk (KPeriodic P c0) lo up x /\
  hw_force Rops k w lk uk (KPeriodic P c0) (lo + IZR m * P) (up + IZR l * P) (x + IZR n * P) = hw_force Rops k w lk uk (KPeriodic P c0) lo up x /\
  (let d := hw_distance Rops (KPeriodic P c0) lo up x in
   (d = 0 \/ (d = pdiff Rops P (x - lo) /\ d < 0) \/ (d = pdiff Rops P (x - up) /\ 0 < d)) /\ - P / 2 <= d < P / 2).
Proof.
  intros k w lk uk P c0 lo up x n m l HP. destruct (hw_energy_period k w lk uk P c0 lo up x n m l HP) as [E1 E2].
  split; [exact E1|]. split; [exact E2|]. apply hw_distance_cases; exact HP.
Qed.
Print Assumptions C18_walls_on_periodic_variable.

(* ---- unit vectors at the two singular geometries (coincident, exactly opposite): the reported gradient is the null vector, so a
   restraint centred exactly opposite to the value applies a zero force, never an infinite or undefined one (after the repair) ---- *)
Theorem C18_unitvector_null_gradient_at_singular_geometries : forall (k w : R) (a b : vec3),
  (v3dot Rops a b = 1 \/ v3dot Rops a b = -1 -> uv_grad Rops a b = (0, 0, 0)) /\
  (is_unit a ->
   hr_force Rops PI k w KUnit (V3 a) (V3 (v3scale Rops (-1) a)) =
     Some (V3 (- (1 / 2) * k / (w * w) * 0, - (1 / 2) * k / (w * w) * 0, - (1 / 2) * k / (w * w) * 0))).
Proof. intros k w a b. split; [apply uv_grad_singular | intros Ha; apply (hr_unit_singular_force k w a Ha)]. Qed.
Print Assumptions C18_unitvector_null_gradient_at_singular_geometries.

(* run-time modifications of the components (modifycvcs): after EVERY history the variable is periodic exactly when every component
   IN FORCE is periodic with the common period, coefficient +-1, exponent 1; the number of components never changes *)
Theorem C18_sum_decision_follows_history : forall (l : list scomp) (mods : list (nat * option R * R)) (P c : R),
  (sum_periodic Rops (sum_history l mods) = Some (P, c) <->
   (exists k0 r, sum_history l mods = k0 :: r /\ c = sc_wc k0) /\ List.Forall (sc_ok P) (sum_history l mods)) /\
  length (sum_history l mods) = length l.
Proof. intros l mods P c. split; [apply sum_history_decision | apply sum_history_length]. Qed.
Print Assumptions C18_sum_decision_follows_history.

(* ---- one metadynamics hill and one OPES kernel, evaluated through the variable's own distance: the same energy and force for
   equivalent values and centres (wrapped, whole periods, quaternion sign) - in particular across the periodic boundary ---- *)
Theorem C18_hill_and_kernel_see_equivalent_values : forall (W sigma : R),
  (forall kind x c, comp_ok kind ->
     hill_energy Rops PI W sigma kind (comp_wrap Rops kind x) (comp_wrap Rops kind c) = hill_energy Rops PI W sigma kind x c /\
     hill_force Rops PI W sigma kind (comp_wrap Rops kind x) (comp_wrap Rops kind c) = hill_force Rops PI W sigma kind x c) /\
  (forall P c0 x c (n m : Z), 0 < P ->
     hill_energy Rops PI W sigma (KPeriodic P c0) (VS (x + IZR n * P)) (VS (c + IZR m * P)) = hill_energy Rops PI W sigma (KPeriodic P c0) (VS x) (VS c) /\
     hill_force Rops PI W sigma (KPeriodic P c0) (VS (x + IZR n * P)) (VS (c + IZR m * P)) = hill_force Rops PI W sigma (KPeriodic P c0) (VS x) (VS c)) /\
  (forall q c,
     hill_energy Rops PI W sigma KQuat (VQ (qneg Rops q)) (VQ c) = hill_energy Rops PI W sigma KQuat (VQ q) (VQ c) /\
     hill_energy Rops PI W sigma KQuat (VQ q) (VQ (qneg Rops c)) = hill_energy Rops PI W sigma KQuat (VQ q) (VQ c)) /\
  (forall cut vac P c0 kc x (n m : Z), 0 < P ->
     opes_kernel Rops PI W sigma cut vac (KPeriodic P c0) (kc + IZR n * P) (x + IZR m * P) = opes_kernel Rops PI W sigma cut vac (KPeriodic P c0) kc x /\
     opes_kernel Rops PI W sigma cut vac (KPeriodic P c0) (cvc_wrap Rops c0 P kc) (cvc_wrap Rops c0 P x) = opes_kernel Rops PI W sigma cut vac (KPeriodic P c0) kc x).
Proof.
  intros W sigma. split; [intros kind x c Hk; apply hill_wrap; exact Hk|].
  split; [intros P c0 x c n m HP; apply hill_periodic_images; exact HP|].
  split; [intros q c; apply hill_quaternion_sign | intros cut vac P c0 kc x n m HP; apply opes_kernel_images; exact HP].
Qed.
Print Assumptions C18_hill_and_kernel_see_equivalent_values.

(* ---- on the manifolds (distanceDir: unit vectors; orientation: quaternions): along every differentiable curve through the value
   (tangent for quaternions) the derivative of the harmonic restraint energy is minus <restraint force, velocity>, away from the
   singular geometries ---- *)
Theorem C18_restraint_force_is_minus_energy_derivative_on_manifolds : forall k w : R,
  (forall a b q c,
     hr_energy Rops PI k w KUnit (V3 a) (V3 b) = Some (1 / 2 * k / (w * w) * uv_dist2 Rops a b) /\
     hr_force Rops PI k w KUnit (V3 a) (V3 b) = Some (V3 (v3scale Rops (- (1 / 2) * k / (w * w)) (uv_grad Rops a b))) /\
     hr_energy Rops PI k w KQuat (VQ q) (VQ c) = Some (1 / 2 * k / (w * w) * q_dist2 Rops PI q c) /\
     hr_force Rops PI k w KQuat (VQ q) (VQ c) = Some (VQ (qscale Rops (- (1 / 2) * k / (w * w)) (q_grad Rops PI q c)))) /\
  (forall (x y z : R -> R) (ex ey ez : R) (c : vec3),
     is_derive x 0 ex -> is_derive y 0 ey -> is_derive z 0 ez -> uv_nonsingular (x 0, y 0, z 0) c ->
     is_derive (fun t => 1 / 2 * k / (w * w) * uv_dist2 Rops (x t, y t, z t) c) 0
               (- v3dot Rops (v3scale Rops (- (1 / 2) * k / (w * w)) (uv_grad Rops (x 0, y 0, z 0) c)) (ex, ey, ez))) /\
  (forall (a0 a1 a2 a3 : R -> R) (e0 e1 e2 e3 : R) (c : quat),
     is_derive a0 0 e0 -> is_derive a1 0 e1 -> is_derive a2 0 e2 -> is_derive a3 0 e3 ->
     qdot Rops (a0 0, a1 0, a2 0, a3 0) (e0, e1, e2, e3) = 0 -> q_nonsingular (a0 0, a1 0, a2 0, a3 0) c ->
     is_derive (fun t => 1 / 2 * k / (w * w) * q_dist2 Rops PI (a0 t, a1 t, a2 t, a3 t) c) 0
               (- qdot Rops (qscale Rops (- (1 / 2) * k / (w * w)) (q_grad Rops PI (a0 0, a1 0, a2 0, a3 0) c)) (e0, e1, e2, e3))).
Proof.
  intros k w. split; [intros a b q c; apply hr_manifold_unfold|].
  split; [exact (hr_unit_force_curve k w) | exact (hr_quat_force_curve k w)].
Qed.
Print Assumptions C18_restraint_force_is_minus_energy_derivative_on_manifolds.
