(* C18 round 3: sums of components with different periodicities, derivative of the distanceVec distance in an orthorhombic
   cell (both arguments), position_distance in a general (triclinic) cell.  Lemmas only. *)
From Coq Require Import ZArith List Bool Reals Lra Lia Psatz.
From Flocq Require Import Core.Raux.
From Coquelicot Require Import Coquelicot.
From CV Require Import Base.Num Base.RNum C18.ValueModel C18.ValueProofs C18.GradProofs C18.ExtraProofs.
Import ListNotations.
Local Open Scope R_scope.

(* ------------------------------------------------------------------ sums of components *)
Lemma hv_period_some (ps : list (option R)) P : hv_period Rops ps = Some P <-> (exists r, ps = Some P :: r) /\ List.Forall (fun q => q = Some P) ps.
Proof.
  unfold hv_period. destruct ps as [|[Q|] r].
  - split; [discriminate | intros [[r' E] _]; discriminate].
  - destruct (forallb _ r) eqn:E.
    + split.
      * intros H; injection H as ->. split; [eexists; reflexivity|]. constructor; [reflexivity|].
        apply Forall_forall. intros q Hq. rewrite forallb_forall in E. specialize (E q Hq).
        destruct q as [Q'|]; [|discriminate]. cbn [neqb Rops] in E. apply Reqb_true in E. subst; reflexivity.
      * intros [[r' E'] _]. injection E' as -> _. reflexivity.
    + split; [discriminate|]. intros [[r' E'] HF]. injection E' as -> ->. exfalso.
      inversion HF as [|? ? _ HF']; subst.
      assert (forallb (fun q : option R => match q with Some Q => neqb Rops Q P | None => false end) r' = true); [|congruence].
      apply forallb_forall. intros q Hq. rewrite Forall_forall in HF'. rewrite (HF' q Hq). cbn [neqb Rops]. apply Reqb_true. reflexivity.
  - split; [discriminate | intros [[r' E] _]; discriminate].
Qed.

(* a sum whose components do not all share the period of the first one is an ordinary scalar: its distance is zero only for
   equal values, and wrap is the identity *)
Lemma hv_nonperiodic_metric c ps x y : hv_period Rops ps = None ->
  hv_kind Rops c ps = KScalar /\
  (comp_dist2 Rops PI (hv_kind Rops c ps) (VS x) (VS y) = Some 0 <-> x = y) /\
  comp_wrap Rops (hv_kind Rops c ps) (VS x) = VS x.
Proof.
  intros H. unfold hv_kind. rewrite H. split; [reflexivity|]. cbn [comp_dist2 comp_wrap]. split; [|reflexivity].
  split.
  - intros E. injection E as E. apply sc_zero_iff. exact E.
  - intros ->. f_equal. apply sc_zero_iff. reflexivity.
Qed.
Lemma hv_periodic_kind c ps P : hv_period Rops ps = Some P -> hv_kind Rops c ps = KPeriodic P c.
Proof. intros H. unfold hv_kind. rewrite H. reflexivity. Qed.

(* record of the repaired defect: before the repair colvar::dist2 of a homogeneous variable always used the first component *)
Definition hv_kind_before_fix (c : R) (ps : list (option R)) : comp_kind :=
  match ps with Some P :: _ => KPeriodic P c | _ => KScalar end.
Lemma hv_before_fix_refuted : exists (ps : list (option R)) (x y : R),
  hv_period Rops ps = None /\ x <> y /\ comp_dist2 Rops PI (hv_kind_before_fix 0 ps) (VS x) (VS y) = Some 0.
Proof.
  exists [Some 360; None], 370, 10. split; [reflexivity|]. split; [lra|].
  cbn [hv_kind_before_fix comp_dist2]. f_equal. apply per_zero_iff; [lra|]. exists 1%Z. lra.
Qed.

(* ------------------------------------------------------------------ distanceVec in an orthorhombic cell: both gradients are
   the partial derivatives, component by component, off the half-cell cut of that component *)
Lemma dv_cell_dist2_eq lx ly lz a1 b1 c1 a2 b2 c2 :
  dv_dist2 Rops true (Some (lx, ly, lz)) (a1, b1, c1) (a2, b2, c2) =
  per_dist2 Rops lx a2 a1 + per_dist2 Rops ly b2 b1 + per_dist2 Rops lz c2 c1.
Proof. reflexivity. Qed.
Lemma dv_cell_lgrad_eq lx ly lz a1 b1 c1 a2 b2 c2 :
  dv_lgrad Rops true (Some (lx, ly, lz)) (a1, b1, c1) (a2, b2, c2) =
  (per_grad Rops lx a1 a2, per_grad Rops ly b1 b2, per_grad Rops lz c1 c2).
Proof. reflexivity. Qed.

Lemma is_derive_plus_const_l (f : R -> R) (k x l : R) : is_derive f x l -> is_derive (fun t => f t + k) x l.
Proof.
  intros H. pose proof (is_derive_plus f (fun _ => k) x l 0 H (is_derive_const k x)) as Hp.
  replace l with (plus l 0) by (unfold plus; simpl; ring). exact Hp.
Qed.
Lemma is_derive_plus_const_r (f : R -> R) (k x l : R) : is_derive f x l -> is_derive (fun t => k + f t) x l.
Proof.
  intros H. pose proof (is_derive_plus (fun _ => k) f x 0 l (is_derive_const k x) H) as Hp.
  replace l with (plus 0 l) by (unfold plus; simpl; ring). exact Hp.
Qed.

Section CellDerive.
  Variables lx ly lz : R.
  Hypothesis Hx : 0 < lx. Hypothesis Hy : 0 < ly. Hypothesis Hz : 0 < lz.
  Let cell := Some (lx, ly, lz).
  Variables a1 b1 c1 a2 b2 c2 : R.

  Lemma dv_cell_lgrad_derive :
    (pdiff Rops lx (a1 - a2) <> - lx / 2 ->
       is_derive (fun t => dv_dist2 Rops true cell (t, b1, c1) (a2, b2, c2)) a1 (fst (fst (dv_lgrad Rops true cell (a1, b1, c1) (a2, b2, c2))))) /\
    (pdiff Rops ly (b1 - b2) <> - ly / 2 ->
       is_derive (fun t => dv_dist2 Rops true cell (a1, t, c1) (a2, b2, c2)) b1 (snd (fst (dv_lgrad Rops true cell (a1, b1, c1) (a2, b2, c2))))) /\
    (pdiff Rops lz (c1 - c2) <> - lz / 2 ->
       is_derive (fun t => dv_dist2 Rops true cell (a1, b1, t) (a2, b2, c2)) c1 (snd (dv_lgrad Rops true cell (a1, b1, c1) (a2, b2, c2)))).
  Proof.
    unfold cell. rewrite dv_cell_lgrad_eq. cbn [fst snd]. split; [|split]; intros Hne.
    - apply (is_derive_ext (fun t => per_dist2 Rops lx a2 t + per_dist2 Rops ly b2 b1 + per_dist2 Rops lz c2 c1)).
      { intros t. rewrite dv_cell_dist2_eq. reflexivity. }
      apply is_derive_plus_const_l, is_derive_plus_const_l. apply (per_rgrad_derive lx a2 a1 Hx Hne).
    - apply (is_derive_ext (fun t => per_dist2 Rops lx a2 a1 + per_dist2 Rops ly b2 t + per_dist2 Rops lz c2 c1)).
      { intros t. rewrite dv_cell_dist2_eq. reflexivity. }
      apply is_derive_plus_const_l, is_derive_plus_const_r. apply (per_rgrad_derive ly b2 b1 Hy Hne).
    - apply (is_derive_ext (fun t => per_dist2 Rops lx a2 a1 + per_dist2 Rops ly b2 b1 + per_dist2 Rops lz c2 t)).
      { intros t. rewrite dv_cell_dist2_eq. reflexivity. }
      apply is_derive_plus_const_r. apply (per_rgrad_derive lz c2 c1 Hz Hne).
  Qed.

  Lemma dv_cell_rgrad_derive :
    (pdiff Rops lx (a2 - a1) <> - lx / 2 ->
       is_derive (fun t => dv_dist2 Rops true cell (a1, b1, c1) (t, b2, c2)) a2 (fst (fst (dv_rgrad Rops true cell (a1, b1, c1) (a2, b2, c2))))) /\
    (pdiff Rops ly (b2 - b1) <> - ly / 2 ->
       is_derive (fun t => dv_dist2 Rops true cell (a1, b1, c1) (a2, t, c2)) b2 (snd (fst (dv_rgrad Rops true cell (a1, b1, c1) (a2, b2, c2))))) /\
    (pdiff Rops lz (c2 - c1) <> - lz / 2 ->
       is_derive (fun t => dv_dist2 Rops true cell (a1, b1, c1) (a2, b2, t)) c2 (snd (dv_rgrad Rops true cell (a1, b1, c1) (a2, b2, c2)))).
  Proof.
    unfold cell, dv_rgrad. rewrite dv_cell_lgrad_eq. cbn [fst snd]. split; [|split]; intros Hne.
    - apply (is_derive_ext (fun t => per_dist2 Rops lx t a1 + per_dist2 Rops ly b2 b1 + per_dist2 Rops lz c2 c1)).
      { intros t. rewrite dv_cell_dist2_eq. reflexivity. }
      apply is_derive_plus_const_l, is_derive_plus_const_l. apply (per_grad_derive lx a2 a1 Hx Hne).
    - apply (is_derive_ext (fun t => per_dist2 Rops lx a2 a1 + per_dist2 Rops ly t b1 + per_dist2 Rops lz c2 c1)).
      { intros t. rewrite dv_cell_dist2_eq. reflexivity. }
      apply is_derive_plus_const_l, is_derive_plus_const_r. apply (per_grad_derive ly b2 b1 Hy Hne).
    - apply (is_derive_ext (fun t => per_dist2 Rops lx a2 a1 + per_dist2 Rops ly b2 b1 + per_dist2 Rops lz t c1)).
      { intros t. rewrite dv_cell_dist2_eq. reflexivity. }
      apply is_derive_plus_const_r. apply (per_grad_derive lz c2 c1 Hz Hne).
  Qed.
End CellDerive.

(* ------------------------------------------------------------------ general (triclinic) cell *)
Definition det3 (a b c : vec3 (T:=R)) : R := v3dot Rops (v3cross Rops b c) a.

Lemma det3_cyclic a b c : det3 b c a = det3 a b c /\ det3 c a b = det3 a b c.
Proof.
  destruct a as [[ax ay] az], b as [[bx by_] bz], c as [[cx cy] cz]. unfold det3, v3dot, v3cross; cbn. split; ring.
Qed.

(* fractional coordinates: the three numbers whose rounding gives the lattice shifts *)
Definition frac3 (a b c d : vec3 (T:=R)) : R * R * R :=
  (v3dot Rops (recip Rops a b c) d, v3dot Rops (recip Rops b c a) d, v3dot Rops (recip Rops c a b) d).
Definition lat3 (a b c : vec3 (T:=R)) (k1 k2 k3 : R) : vec3 :=
  v3add Rops (v3add Rops (v3scale Rops k1 a) (v3scale Rops k2 b)) (v3scale Rops k3 c).

Lemma tri_pd_eq a b c p1 p2 :
  tri_position_distance Rops a b c p1 p2 =
  let d := v3sub Rops p2 p1 in let '(s1, s2, s3) := frac3 a b c d in
  v3sub Rops d (lat3 a b c (IZR (Zfloor (s1 + 1 / 2))) (IZR (Zfloor (s2 + 1 / 2))) (IZR (Zfloor (s3 + 1 / 2)))).
Proof.
  destruct a as [[ax ay] az], b as [[bx by_] bz], c as [[cx cy] cz], p1 as [[x1 y1] z1], p2 as [[x2 y2] z2].
  unfold tri_position_distance, frac3, lat3, v3sub, v3add, v3scale, nhalf. cbn -[recip v3dot].
  reflexivity.
Qed.

(* the fractional coordinates are linear and dual to the cell vectors *)
Lemma frac3_lattice a b c d k1 k2 k3 : det3 a b c <> 0 ->
  frac3 a b c (v3add Rops d (lat3 a b c k1 k2 k3)) =
  let '(s1, s2, s3) := frac3 a b c d in (s1 + k1, s2 + k2, s3 + k3).
Proof.
  intros Hd. destruct (det3_cyclic a b c) as [E1 E2].
  assert (H1 : det3 b c a <> 0) by (rewrite E1; exact Hd). assert (H2 : det3 c a b <> 0) by (rewrite E2; exact Hd).
  destruct a as [[ax ay] az], b as [[bx by_] bz], c as [[cx cy] cz], d as [[dx dy] dz].
  unfold det3, frac3, recip, lat3, v3dot, v3cross, v3add, v3scale in *; cbn in *.
  f_equal; [f_equal|]; field; assumption.
Qed.

(* position_distance is unchanged when either end is translated by a lattice vector *)
Lemma tri_pd_lattice a b c p1 p2 (n1 n2 n3 : Z) : det3 a b c <> 0 ->
  tri_position_distance Rops a b c p1 (v3add Rops p2 (lat3 a b c (IZR n1) (IZR n2) (IZR n3))) =
  tri_position_distance Rops a b c p1 p2.
Proof.
  intros Hd. rewrite !tri_pd_eq. cbv zeta.
  assert (Ed : v3sub Rops (v3add Rops p2 (lat3 a b c (IZR n1) (IZR n2) (IZR n3))) p1 =
               v3add Rops (v3sub Rops p2 p1) (lat3 a b c (IZR n1) (IZR n2) (IZR n3))).
  { destruct a as [[ax ay] az], b as [[bx by_] bz], c as [[cx cy] cz], p1 as [[x1 y1] z1], p2 as [[x2 y2] z2].
    unfold lat3, v3sub, v3add, v3scale; cbn. f_equal; [f_equal|]; ring. }
  rewrite Ed, (frac3_lattice a b c _ _ _ _ Hd).
  destruct (frac3 a b c (v3sub Rops p2 p1)) as [[s1 s2] s3].
  replace (s1 + IZR n1 + 1 / 2) with (s1 + 1 / 2 + IZR n1) by ring.
  replace (s2 + IZR n2 + 1 / 2) with (s2 + 1 / 2 + IZR n2) by ring.
  replace (s3 + IZR n3 + 1 / 2) with (s3 + 1 / 2 + IZR n3) by ring.
  rewrite !Zfloor_add_IZR, !plus_IZR.
  destruct a as [[ax ay] az], b as [[bx by_] bz], c as [[cx cy] cz], (v3sub Rops p2 p1) as [[dx dy] dz].
  unfold lat3, v3sub, v3add, v3scale; cbn. f_equal; [f_equal|]; ring.
Qed.

(* zero exactly for lattice-equivalent points *)
Lemma tri_pd_zero_iff a b c p1 p2 : det3 a b c <> 0 ->
  (tri_position_distance Rops a b c p1 p2 = (0, 0, 0) <->
   exists n1 n2 n3 : Z, v3sub Rops p2 p1 = lat3 a b c (IZR n1) (IZR n2) (IZR n3)).
Proof.
  intros Hd. split.
  - rewrite tri_pd_eq. cbv zeta. destruct (frac3 a b c (v3sub Rops p2 p1)) as [[s1 s2] s3]. intros H.
    exists (Zfloor (s1 + 1 / 2)), (Zfloor (s2 + 1 / 2)), (Zfloor (s3 + 1 / 2)).
    destruct (v3sub Rops p2 p1) as [[dx dy] dz].
    destruct (lat3 a b c _ _ _) as [[lx ly] lz]. unfold v3sub in H; cbn in H. injection H as H1 H2 H3.
    f_equal; [f_equal|]; lra.
  - intros [n1 [n2 [n3 E]]].
    assert (Ep : p2 = v3add Rops p1 (lat3 a b c (IZR n1) (IZR n2) (IZR n3))).
    { destruct p1 as [[x1 y1] z1], p2 as [[x2 y2] z2], (lat3 a b c (IZR n1) (IZR n2) (IZR n3)) as [[lx ly] lz].
      unfold v3sub, v3add in *; cbn in *. injection E as E1 E2 E3. f_equal; [f_equal|]; lra. }
    rewrite Ep, (tri_pd_lattice a b c p1 p1 n1 n2 n3 Hd). rewrite tri_pd_eq. cbv zeta.
    assert (E0 : v3sub Rops p1 p1 = (0, 0, 0)).
    { destruct p1 as [[x1 y1] z1]. unfold v3sub; cbn. f_equal; [f_equal|]; ring. }
    rewrite E0.
    assert (F0 : frac3 a b c (0, 0, 0) = (0, 0, 0)).
    { destruct a as [[ax ay] az], b as [[bx by_] bz], c as [[cx cy] cz].
      unfold frac3, recip, v3dot, v3cross; cbn. f_equal; [f_equal|]; unfold Rdiv; ring. }
    rewrite F0.
    assert (Zfloor (0 + 1 / 2) = 0%Z) as -> by (apply Zfloor_imp; simpl; lra).
    destruct a as [[ax ay] az], b as [[bx by_] bz], c as [[cx cy] cz].
    unfold lat3, v3sub, v3add, v3scale; cbn. f_equal; [f_equal|]; ring.
Qed.

Lemma v3norm2_zero (v : vec3 (T:=R)) : v3norm2 Rops v = 0 <-> v = (0, 0, 0).
Proof.
  destruct v as [[x y] z]. unfold v3norm2, v3dot; cbn. split.
  - intros H. pose proof (sq_nonneg x). pose proof (sq_nonneg y). pose proof (sq_nonneg z).
    assert (x = 0) by (apply sq_zero; lra). assert (y = 0) by (apply sq_zero; lra). assert (z = 0) by (apply sq_zero; lra).
    subst; reflexivity.
  - intros H; injection H as -> -> ->. ring.
Qed.

(* an orthorhombic cell given by its three vectors is the orthorhombic model *)
Lemma tri_pd_ortho lx ly lz p1 p2 : 0 < lx -> 0 < ly -> 0 < lz ->
  tri_position_distance Rops (lx, 0, 0) (0, ly, 0) (0, 0, lz) p1 p2 = position_distance Rops (Some (lx, ly, lz)) p1 p2.
Proof.
  intros Hx Hy Hz. destruct p1 as [[x1 y1] z1], p2 as [[x2 y2] z2].
  unfold tri_position_distance, position_distance, min_image1, recip, v3cross, v3dot, v3sub, nhalf. cbn.
  replace ((ly * lz - 0 * 0) / ((ly * lz - 0 * 0) * lx + (0 * 0 - 0 * lz) * 0 + (0 * 0 - ly * 0) * 0) * (x2 - x1) +
           (0 * 0 - 0 * lz) / ((ly * lz - 0 * 0) * lx + (0 * 0 - 0 * lz) * 0 + (0 * 0 - ly * 0) * 0) * (y2 - y1) +
           (0 * 0 - ly * 0) / ((ly * lz - 0 * 0) * lx + (0 * 0 - 0 * lz) * 0 + (0 * 0 - ly * 0) * 0) * (z2 - z1))
    with ((x2 - x1) / lx) by (field; lra).
  replace ((0 * 0 - lz * 0) / ((0 * 0 - lz * 0) * 0 + (lz * lx - 0 * 0) * ly + (0 * 0 - 0 * lx) * 0) * (x2 - x1) +
           (lz * lx - 0 * 0) / ((0 * 0 - lz * 0) * 0 + (lz * lx - 0 * 0) * ly + (0 * 0 - 0 * lx) * 0) * (y2 - y1) +
           (0 * 0 - 0 * lx) / ((0 * 0 - lz * 0) * 0 + (lz * lx - 0 * 0) * ly + (0 * 0 - 0 * lx) * 0) * (z2 - z1))
    with ((y2 - y1) / ly) by (field; lra).
  replace ((0 * 0 - 0 * ly) / ((0 * 0 - 0 * ly) * 0 + (0 * 0 - lx * 0) * 0 + (lx * ly - 0 * 0) * lz) * (x2 - x1) +
           (0 * 0 - lx * 0) / ((0 * 0 - 0 * ly) * 0 + (0 * 0 - lx * 0) * 0 + (lx * ly - 0 * 0) * lz) * (y2 - y1) +
           (lx * ly - 0 * 0) / ((0 * 0 - 0 * ly) * 0 + (0 * 0 - lx * 0) * 0 + (lx * ly - 0 * 0) * lz) * (z2 - z1))
    with ((z2 - z1) / lz) by (field; lra).
  f_equal; [f_equal|]; ring.
Qed.

(* symmetry: off the cut (no fractional coordinate exactly half-way between two lattice planes) exchanging the two points
   negates position_distance, so the squared distance is symmetric and the right gradient is minus the left one.
   ON the cut of a non-orthogonal cell this fails (the same rounding is applied to d and -d): see NOTES.md. *)
Lemma Zfloor_neg_half s : IZR (Zfloor (s + 1 / 2)) <> s + 1 / 2 -> Zfloor (- s + 1 / 2) = (- Zfloor (s + 1 / 2))%Z.
Proof.
  intros Hne. pose proof (Zfloor_lb (s + 1 / 2)) as H1. pose proof (Zfloor_ub (s + 1 / 2)) as H2.
  apply Zfloor_imp. rewrite plus_IZR, opp_IZR. simpl. split; lra.
Qed.
Definition off_cut3 (a b c d : vec3 (T:=R)) : Prop :=
  let '(s1, s2, s3) := frac3 a b c d in
  IZR (Zfloor (s1 + 1 / 2)) <> s1 + 1 / 2 /\ IZR (Zfloor (s2 + 1 / 2)) <> s2 + 1 / 2 /\ IZR (Zfloor (s3 + 1 / 2)) <> s3 + 1 / 2.
Lemma frac3_opp a b c d : frac3 a b c (v3scale Rops (-1) d) = let '(s1, s2, s3) := frac3 a b c d in (- s1, - s2, - s3).
Proof.
  destruct a as [[ax ay] az], b as [[bx by_] bz], c as [[cx cy] cz], d as [[dx dy] dz].
  unfold frac3, recip, v3dot, v3cross, v3scale; cbn. f_equal; [f_equal|]; unfold Rdiv; ring.
Qed.
Lemma tri_pd_antisym a b c p1 p2 : off_cut3 a b c (v3sub Rops p2 p1) ->
  tri_position_distance Rops a b c p2 p1 = v3scale Rops (-1) (tri_position_distance Rops a b c p1 p2).
Proof.
  intros Hoff. rewrite !tri_pd_eq. cbv zeta.
  assert (Ed : v3sub Rops p1 p2 = v3scale Rops (-1) (v3sub Rops p2 p1)).
  { destruct p1 as [[x1 y1] z1], p2 as [[x2 y2] z2]. unfold v3sub, v3scale; cbn. f_equal; [f_equal|]; ring. }
  rewrite Ed, frac3_opp. unfold off_cut3 in Hoff.
  destruct (frac3 a b c (v3sub Rops p2 p1)) as [[s1 s2] s3]. destruct Hoff as [H1 [H2 H3]].
  rewrite (Zfloor_neg_half s1 H1), (Zfloor_neg_half s2 H2), (Zfloor_neg_half s3 H3), !opp_IZR.
  destruct a as [[ax ay] az], b as [[bx by_] bz], c as [[cx cy] cz], (v3sub Rops p2 p1) as [[dx dy] dz].
  unfold lat3, v3sub, v3add, v3scale; cbn. f_equal; [f_equal|]; ring.
Qed.
Lemma v3norm2_opp (v : vec3 (T:=R)) : v3norm2 Rops (v3scale Rops (-1) v) = v3norm2 Rops v.
Proof. destruct v as [[x y] z]. unfold v3norm2, v3dot, v3scale; cbn. ring. Qed.
Lemma dvt_sym a b c x1 x2 : off_cut3 a b c (v3sub Rops x2 x1) ->
  dvt_dist2 Rops a b c x2 x1 = dvt_dist2 Rops a b c x1 x2 /\
  dvt_rgrad Rops a b c x1 x2 = v3scale Rops (-1) (dvt_lgrad Rops a b c x1 x2).
Proof.
  intros Hoff. unfold dvt_dist2, dvt_rgrad, dvt_lgrad. rewrite (tri_pd_antisym a b c x1 x2 Hoff). split; [apply v3norm2_opp|].
  destruct (tri_position_distance Rops a b c x1 x2) as [[x y] z]. unfold v3scale; cbn. f_equal; [f_equal|]; ring.
Qed.
Lemma dvt_metric a b c x1 x2 (n1 n2 n3 : Z) : det3 a b c <> 0 ->
  0 <= dvt_dist2 Rops a b c x1 x2 /\
  (dvt_dist2 Rops a b c x1 x2 = 0 <-> exists m1 m2 m3 : Z, v3sub Rops x2 x1 = lat3 a b c (IZR m1) (IZR m2) (IZR m3)) /\
  dvt_dist2 Rops a b c x1 (v3add Rops x2 (lat3 a b c (IZR n1) (IZR n2) (IZR n3))) = dvt_dist2 Rops a b c x1 x2.
Proof.
  intros Hd. unfold dvt_dist2. split.
  - destruct (tri_position_distance Rops a b c x1 x2) as [[x y] z]. unfold v3norm2, v3dot; cbn.
    pose proof (sq_nonneg x). pose proof (sq_nonneg y). pose proof (sq_nonneg z). lra.
  - split.
    + rewrite v3norm2_zero. apply tri_pd_zero_iff; exact Hd.
    + rewrite tri_pd_lattice by exact Hd. reflexivity.
Qed.
