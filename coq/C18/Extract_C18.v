From Coq Require Import Extraction ExtrOcamlBasic.
From CV Require Import Base.Num C18.ValueModel.
Extraction Language OCaml.
Extraction "model.ml" mkNumOps nhalf sc_dist2 sc_grad pdiff per_dist2 per_grad cvc_wrap v3_dist2 v3_grad
  uv_dist2 uv_grad q_dist2 q_grad vec_dist2 vec_grad position_distance dv_dist2 dv_lgrad
  sc_interp v3_interp uv_interp vec_interp pv_run pv_in_force
  v3add v3sub v3scale qadd qsub qscale v3dot v3norm2 qdot uv_constrain q_constrain qnorm2 vec_inner q_interp uv_interp_undefined q_interp_undefined
  dv_rgrad comp_dist2 comp_lgrad comp_rgrad comp_wrap mr_center opes_merge_center pv_wrapped_dist2
  hill_energy hill_force opes_kernel hr_energy hr_force hw_distance hw_energy hw_force fd_velocity hv_kind sum_periodic sum_kind sum_creation_order sum_modify sum_history dvt_dist2 dvt_lgrad dvt_rgrad.
