(* Model of the squared distances, their gradients, wrapping and interpolation of collective-
   variable values: colvarvalue::dist2/dist2_grad/interpolate/apply_constraints (src/colvarvalue.cpp),
   quaternion::dist2/dist2_grad (src/colvartypes.h), cvc::dist2/dist2_lgrad/wrap (src/colvarcomp.cpp),
   distance_vec::dist2/dist2_lgrad with position_distance for an orthorhombic cell
   (src/colvarcomp_distances.cpp, src/colvarproxy_system.cpp).  Definitions only. *)
From Coq Require Import ZArith List Bool.
From CV Require Import Base.Num.
Import ListNotations.

Section Value.
  Context {T : Type} (O : NumOps T).
  Local Notation "a + b" := (nadd O a b).
  Local Notation "a - b" := (nsub O a b).
  Local Notation "a * b" := (nmul O a b).
  Local Notation "a / b" := (ndiv O a b).
  Let two : T := nofZ O 2.
  Let zero : T := n0 O.
  Let one : T := n1 O.

  Definition vec3 : Type := (T * T * T)%type.
  Definition quat : Type := (T * T * T * T)%type.

  Definition v3sub (a b : vec3) : vec3 :=
    let '(ax, ay, az) := a in let '(bx, by_, bz) := b in (ax - bx, ay - by_, az - bz).
  Definition v3add (a b : vec3) : vec3 :=
    let '(ax, ay, az) := a in let '(bx, by_, bz) := b in (ax + bx, ay + by_, az + bz).
  Definition v3scale (s : T) (a : vec3) : vec3 := let '(ax, ay, az) := a in (s * ax, s * ay, s * az).
  Definition v3dot (a b : vec3) : T :=
    let '(ax, ay, az) := a in let '(bx, by_, bz) := b in ax * bx + ay * by_ + az * bz.
  Definition v3norm2 (a : vec3) : T := v3dot a a.

  (* ---- scalar ---- *)
  Definition sc_dist2 (x1 x2 : T) : T := (x1 - x2) * (x1 - x2).
  Definition sc_grad (x1 x2 : T) : T := two * (x1 - x2).

  (* ---- periodic scalar: colvar::cvc::dist2 / dist2_lgrad ---- *)
  Definition pshift (P d : T) : Z := nfloor O (d / P + nhalf O).
  Definition pdiff (P d : T) : T := d - nofZ O (pshift P d) * P.
  Definition per_dist2 (P x1 x2 : T) : T := let d := pdiff P (x1 - x2) in d * d.
  Definition per_grad (P x1 x2 : T) : T := two * pdiff P (x1 - x2).
  (* colvar::cvc::wrap *)
  Definition cvc_wrap (c P x : T) : T := x - nofZ O (nfloor O ((x - c) / P + nhalf O)) * P.

  (* ---- 3-vector ---- *)
  Definition v3_dist2 (x1 x2 : vec3) : T := v3norm2 (v3sub x1 x2).
  Definition v3_grad (x1 x2 : vec3) : vec3 := v3scale two (v3sub x1 x2).

  (* ---- unit vector (the cosine is clamped to [-1,1]; coincident and exactly opposite vectors get a null derivative) ---- *)
  Definition clamp1 (c : T) : T := if nltb O one c then one else if nltb O c (nneg O one) then nneg O one else c.
  Definition uv_dist2 (v1 v2 : vec3) : T := let th := nacos O (clamp1 (v3dot v1 v2)) in th * th.
  Definition tiny28 : T := ndiv O one (nmul O (nofZ O 100000000000000) (nofZ O 100000000000000)).
  Definition uv_grad (v1 v2 : vec3) : vec3 :=
    let c := v3dot v1 v2 in
    let s2 := one - c * c in
    if nltb O s2 tiny28 then (zero, zero, zero)
    else v3scale (two * nacos O c * nneg O one / nsqrt O s2) v2.

  (* ---- quaternion ---- *)
  Definition qdot (a b : quat) : T :=
    let '(a0, a1, a2, a3) := a in let '(b0, b1, b2, b3) := b in a0 * b0 + a1 * b1 + a2 * b2 + a3 * b3.
  Definition qneg (a : quat) : quat :=
    let '(a0, a1, a2, a3) := a in (nneg O a0, nneg O a1, nneg O a2, nneg O a3).
  Variable pi : T.   (* the constant PI of the carrier *)
  Definition q_dist2 (q1 q2 : quat) : T :=
    let c := qdot q1 q2 in
    let om := nacos O (clamp1 c) in
    if nltb O zero c then om * om else (pi - om) * (pi - om).
  Definition q_grad (q1 q2 : quat) : quat :=
    let c := qdot q1 q2 in
    let om := nacos O (clamp1 c) in
    let s := nsin O om in
    if nltb O (nabs O s) (ndiv O one (nofZ O 100000000000000)) then (zero, zero, zero, zero)
    else
      let '(a0, a1, a2, a3) := q1 in let '(b0, b1, b2, b3) := q2 in
      let g x y := nneg O one * s * y + c * (x - c * y) / s in
      let k := if nltb O zero c then two * om else nneg O two * (pi - om) in
      (k * g a0 b0, k * g a1 b1, k * g a2 b2, k * g a3 b3).

  (* ---- generic vector (vector1d) ---- *)
  Fixpoint vec_dist2 (l1 l2 : list T) : T :=
    match l1, l2 with
    | a :: r1, b :: r2 => (a - b) * (a - b) + vec_dist2 r1 r2
    | _, _ => zero
    end.
  Fixpoint vec_grad (l1 l2 : list T) : list T :=
    match l1, l2 with
    | a :: r1, b :: r2 => two * (a - b) :: vec_grad r1 r2
    | _, _ => []
    end.

  (* ---- distanceVec: minimum image in an orthorhombic cell (position_distance) ---- *)
  Definition min_image1 (L d : T) : T := d - nofZ O (nfloor O (d / L + nhalf O)) * L.
  (* position_distance(pos1, pos2) = minimum image of pos2 - pos1 *)
  Definition position_distance (cell : option vec3) (p1 p2 : vec3) : vec3 :=
    let d := v3sub p2 p1 in
    match cell with
    | None => d
    | Some (lx, ly, lz) => let '(dx, dy, dz) := d in (min_image1 lx dx, min_image1 ly dy, min_image1 lz dz)
    end.
  (* distance_vec::dist2 : pbc on -> |position_distance(x1,x2)|^2, off -> |x2 - x1|^2 *)
  Definition dv_dist2 (pbc : bool) (cell : option vec3) (x1 x2 : vec3) : T :=
    if pbc then v3norm2 (position_distance cell x1 x2) else v3norm2 (v3sub x2 x1).
  (* distance_vec::dist2_lgrad : pbc on -> 2*position_distance(x2,x1); off -> 2*(x1 - x2) *)
  Definition dv_lgrad (pbc : bool) (cell : option vec3) (x1 x2 : vec3) : vec3 :=
    if pbc then v3scale two (position_distance cell x2 x1)
    else v3scale two (v3sub x1 x2).

  (* ---- interpolation: (1-l)*x1 + l*x2, normalised for unit vectors and quaternions ---- *)
  Definition sc_interp (x1 x2 l : T) : T := (one - l) * x1 + l * x2.
  Definition v3_interp (x1 x2 : vec3) (l : T) : vec3 := v3add (v3scale (one - l) x1) (v3scale l x2).
  Definition v3_normalize (v : vec3) : vec3 := v3scale (one / nsqrt O (v3norm2 v)) v.
  Definition uv_interp (x1 x2 : vec3) (l : T) : vec3 :=
    let '(x, y, z) := v3_interp x1 x2 l in
    let n := nsqrt O (v3norm2 (x, y, z)) in (x / n, y / n, z / n).
  Fixpoint vec_interp (l1 l2 : list T) (l : T) : list T :=
    match l1, l2 with
    | a :: r1, b :: r2 => ((one - l) * a + l * b) :: vec_interp r1 r2 l
    | _, _ => []
    end.

  (* ---- a periodic variable as an object with run-time history: the component's period and wrapping
     centre can be changed after initialisation (colvar::update_cvc_config <- `cv colvar X modifycvcs`,
     cvc::set_param); colvar::wrap and colvar::dist2/dist2_lgrad of a periodic (non-scripted) variable
     delegate to cvcs[0], i.e. they use the parameters in force at the time of the call. ---- *)
  Record pvar := { pv_P : T; pv_c : T }.
  Inductive pv_op :=
  | PvModify (P c : T)        (* modifycvcs "period P wrapAround c" *)
  | PvWrap (x : T)            (* colvar::wrap *)
  | PvDist2 (x1 x2 : T).      (* colvar::dist2 and colvar::dist2_lgrad *)
  Definition pv_step (s : pvar) (o : pv_op) : pvar * list T :=
    match o with
    | PvModify P c => ({| pv_P := P; pv_c := c |}, [])
    | PvWrap x => (s, [cvc_wrap (pv_c s) (pv_P s) x])
    | PvDist2 x1 x2 => (s, [per_dist2 (pv_P s) x1 x2; per_grad (pv_P s) x1 x2])
    end.
  Fixpoint pv_run (s : pvar) (ops : list pv_op) : pvar * list (list T) :=
    match ops with
    | [] => (s, [])
    | o :: r => let '(s1, out) := pv_step s o in let '(s2, outs) := pv_run s1 r in (s2, out :: outs)
    end.
  (* specification: the parameters in force after a history are those of its last modification *)
  Fixpoint pv_in_force (s : pvar) (ops : list pv_op) : pvar :=
    match ops with
    | [] => s
    | PvModify P c :: r => pv_in_force {| pv_P := P; pv_c := c |} r
    | _ :: r => pv_in_force s r
    end.

  (* ================= extensions: constraints, right gradients, quaternion interpolation, components, bias centres ================= *)

  (* ---- colvarvalue::apply_constraints: unit vectors and quaternions are divided by their norm; every other type is unchanged ---- *)
  Definition uv_constrain (v : vec3) : vec3 :=
    let n := nsqrt O (v3norm2 v) in let '(x, y, z) := v in (x / n, y / n, z / n).
  Definition q_constrain (q : quat) : quat :=
    let n := nsqrt O (qdot q q) in let '(a, b, c, d) := q in (a / n, b / n, c / n, d / n).

  (* ---- colvarvalue arithmetic on 4-vectors (operator +, real * value, inner, norm2) ---- *)
  Definition qadd (a b : quat) : quat :=
    let '(a0, a1, a2, a3) := a in let '(b0, b1, b2, b3) := b in (a0 + b0, a1 + b1, a2 + b2, a3 + b3).
  Definition qsub (a b : quat) : quat :=
    let '(a0, a1, a2, a3) := a in let '(b0, b1, b2, b3) := b in (a0 - b0, a1 - b1, a2 - b2, a3 - b3).
  Definition qscale (s : T) (a : quat) : quat := let '(a0, a1, a2, a3) := a in (s * a0, s * a1, s * a2, s * a3).
  Definition qnorm2 (a : quat) : T := qdot a a.
  Fixpoint vec_inner (l1 l2 : list T) : T :=
    match l1, l2 with
    | a :: r1, b :: r2 => a * b + vec_inner r1 r2
    | _, _ => zero
    end.

  (* ---- quaternion interpolation: colvarvalue::interpolate = apply_constraints((1-l)*q1 + l*q2); the two end points are
     NOT sign-aligned (q2 and -q2 give different paths; l = 1 returns q2 itself) ---- *)
  Definition q_lin (x1 x2 : quat) (l : T) : quat := qadd (qscale (one - l) x1) (qscale l x2).
  Definition q_interp (x1 x2 : quat) (l : T) : quat := q_constrain (q_lin x1 x2 l).
  (* the documented "interpolation ... is undefined" error of colvarvalue::interpolate for unit vectors and quaternions:
     raised unless |linear combination| / sqrt(dist2(x1,x2)) >= 1e-6 (a NaN ratio, 0/0, raises it too) *)
  Definition tiny6 : T := one / nofZ O 1000000.
  Definition uv_interp_undefined (x1 x2 : vec3) (l : T) : bool :=
    negb (nleb O tiny6 (nsqrt O (v3norm2 (v3_interp x1 x2 l)) / nsqrt O (uv_dist2 x1 x2))).
  Definition q_interp_undefined (x1 x2 : quat) (l : T) : bool :=
    negb (nleb O tiny6 (nsqrt O (qnorm2 (q_lin x1 x2 l)) / nsqrt O (q_dist2 x1 x2))).

  (* ---- dist2_rgrad: the gradient with respect to the SECOND argument.  Every implementation is the left gradient with the
     arguments exchanged: colvarvalue level x2.dist2_grad(x1) (colvar::dist2_rgrad of a non-homogeneous variable, distanceDir,
     orientation, linearCombination), distance_vec::dist2_lgrad(x2, x1), and (after the repair of cvc::dist2_rgrad,
     distance_pairs::dist2_rgrad and cartesian::dist2_rgrad, which returned the LEFT gradient) cvc::dist2_lgrad(x2, x1) ---- *)
  Definition sc_rgrad (x1 x2 : T) : T := sc_grad x2 x1.
  Definition per_rgrad (P x1 x2 : T) : T := per_grad P x2 x1.
  Definition v3_rgrad (x1 x2 : vec3) : vec3 := v3_grad x2 x1.
  Definition uv_rgrad (x1 x2 : vec3) : vec3 := uv_grad x2 x1.
  Definition q_rgrad (x1 x2 : quat) : quat := q_grad x2 x1.
  Definition vec_rgrad (l1 l2 : list T) : list T := vec_grad l2 l1.
  Definition dv_rgrad (pbc : bool) (cell : option vec3) (x1 x2 : vec3) : vec3 := dv_lgrad pbc cell x2 x1.

  (* ---- the components of this build, as seen by colvar::dist2/dist2_lgrad/dist2_rgrad/wrap of a single-component variable:
     which modelled function each one reaches, with which period and wrapping centre ---- *)
  Inductive comp_kind :=
  | KScalar                     (* non-periodic scalar components (distance, angle, orientationAngle, tilt, eulerTheta, polarTheta ...) : cvc:: functions, no period *)
  | KPeriodic (P c : T)         (* dihedral, spinAngle, eulerPhi, eulerPsi, polarPhi (P = 360), distanceZ with `period`: cvc:: functions; c = wrapAround *)
  | KVec3 (pbc : bool) (cell : option vec3)   (* distanceVec *)
  | KUnit                       (* distanceDir *)
  | KQuat                       (* orientation *)
  | KVector.                    (* cartesian, distancePairs *)
  Inductive cval := VS (x : T) | V3 (v : vec3) | VQ (q : quat) | VL (l : list T).
  Definition comp_dist2 (k : comp_kind) (a b : cval) : option T :=
    match k, a, b with
    | KScalar, VS x, VS y => Some (sc_dist2 x y)
    | KPeriodic P _, VS x, VS y => Some (per_dist2 P x y)
    | KVec3 pbc cell, V3 x, V3 y => Some (dv_dist2 pbc cell x y)
    | KUnit, V3 x, V3 y => Some (uv_dist2 x y)
    | KQuat, VQ x, VQ y => Some (q_dist2 x y)
    | KVector, VL x, VL y => Some (vec_dist2 x y)
    | _, _, _ => None
    end.
  Definition comp_lgrad (k : comp_kind) (a b : cval) : option cval :=
    match k, a, b with
    | KScalar, VS x, VS y => Some (VS (sc_grad x y))
    | KPeriodic P _, VS x, VS y => Some (VS (per_grad P x y))
    | KVec3 pbc cell, V3 x, V3 y => Some (V3 (dv_lgrad pbc cell x y))
    | KUnit, V3 x, V3 y => Some (V3 (uv_grad x y))
    | KQuat, VQ x, VQ y => Some (VQ (q_grad x y))
    | KVector, VL x, VL y => Some (VL (vec_grad x y))
    | _, _, _ => None
    end.
  Definition comp_rgrad (k : comp_kind) (a b : cval) : option cval := comp_lgrad k b a.
  Definition comp_wrap (k : comp_kind) (a : cval) : cval :=
    match k, a with
    | KPeriodic P c, VS x => VS (cvc_wrap c P x)
    | _, _ => a
    end.

  (* ---- a moving restraint's centre on a periodic variable (colvarbias_restraint_centers_moving::update_centers):
     linear interpolation of the two configured centres, then colvar::wrap ---- *)
  Definition mr_center (c P x0 x1 l : T) : T := cvc_wrap c P (sc_interp x0 x1 l).
  (* ---- OPES: centre of two merged kernels on a periodic variable (colvarbias_opes::mergeKernels): the first centre is
     replaced by its image closest to the second, the height-weighted mean is wrapped ---- *)
  Definition opes_merge_center (c P h1 k1 h2 k2 : T) : T :=
    let k1' := k2 + nhalf O * per_grad P k1 k2 in
    cvc_wrap c P ((h1 * k1' + h2 * k2) / (h1 + h2)).

  (* ---- histories on one periodic variable, extended: wrap both arguments with the parameters in force, then take the
     distance (what a bias does when it keeps wrapped centres) ---- *)
  Definition pv_wrapped_dist2 (s : pvar) (x1 x2 : T) : list T :=
    let y1 := cvc_wrap (pv_c s) (pv_P s) x1 in let y2 := cvc_wrap (pv_c s) (pv_P s) x2 in
    [per_dist2 (pv_P s) y1 y2; per_grad (pv_P s) y1 y2].

  (* ================= round 3: sums of components, general (triclinic) cells ================= *)

  (* ---- a variable that is a sum / difference of scalar components (every coefficient +-1: "homogeneous").  Each component has a
     period or none.  colvar::init: the variable is periodic iff EVERY component is periodic with the SAME period as the first
     (the first component in alphabetical keyword order); its wrapping centre is the first component's.  colvar::dist2 /
     dist2_lgrad / dist2_rgrad / wrap use the first component's functions only when the variable is periodic or the first
     component is not (after the repair; before it a non-periodic sum inherited the period of a periodic first component). ---- *)
  Definition hv_period (ps : list (option T)) : option T :=
    match ps with
    | Some P :: r => if forallb (fun q => match q with Some Q => neqb O Q P | None => false end) r then Some P else None
    | _ => None
    end.
  Definition hv_kind (c : T) (ps : list (option T)) : comp_kind :=
    match hv_period ps with Some P => KPeriodic P c | None => KScalar end.

  (* ---- colvarproxy_system::update_pbc_lattice and position_distance for a general cell with vectors a, b, c ---- *)
  Definition v3cross (a b : vec3) : vec3 :=
    let '(ax, ay, az) := a in let '(bx, by_, bz) := b in (ay * bz - az * by_, az * bx - ax * bz, ax * by_ - ay * bx).
  Definition recip (a b c : vec3) : vec3 :=     (* reciprocal vector of a:  (b x c) / ((b x c) . a) *)
    let v := v3cross b c in let d := v3dot v a in let '(vx, vy, vz) := v in (vx / d, vy / d, vz / d).
  Definition tri_position_distance (a b c p1 p2 : vec3) : vec3 :=
    let d := v3sub p2 p1 in
    let sx := nofZ O (nfloor O (v3dot (recip a b c) d + nhalf O)) in
    let sy := nofZ O (nfloor O (v3dot (recip b c a) d + nhalf O)) in
    let sz := nofZ O (nfloor O (v3dot (recip c a b) d + nhalf O)) in
    let '(dx, dy, dz) := d in let '(ax, ay, az) := a in let '(bx, by_, bz) := b in let '(cx, cy, cz) := c in
    (dx - (sx * ax + sy * bx + sz * cx), dy - (sx * ay + sy * by_ + sz * cy), dz - (sx * az + sy * bz + sz * cz)).
  Definition dvt_dist2 (a b c x1 x2 : vec3) : T := v3norm2 (tri_position_distance a b c x1 x2).
  Definition dvt_lgrad (a b c x1 x2 : vec3) : vec3 := v3scale two (tri_position_distance a b c x2 x1).
  Definition dvt_rgrad (a b c x1 x2 : vec3) : vec3 := dvt_lgrad a b c x2 x1.

  (* ================= colvar::init(): is a variable with these components periodic?  (mirror of the code's loops) =================
     A component as colvar::init sees it: periodic flag, period, wrapping centre, coefficient (componentCoeff), exponent
     (componentExp).  The list is in CREATION order (std::map iteration over the component keywords: alphabetical by keyword,
     config order within a keyword), see sc_rank / sum_creation_order. *)
  Record scomp := { sc_per : bool; sc_P : T; sc_wc : T; sc_coeff : T; sc_exp : Z; sc_rank : Z }.
  (* f_cv_linear: every exponent is 1;  f_cv_homogeneous: linear and | |coeff| - 1 | <= 1e-10 for every component *)
  Definition sum_linear (l : list scomp) : bool := forallb (fun k => Z.eqb (sc_exp k) 1) l.
  Definition tol10 : T := one / nofZ O 10000000000.
  Definition sum_homogeneous (l : list scomp) : bool :=
    sum_linear l && forallb (fun k => negb (nltb O tol10 (nabs O (nabs O (sc_coeff k) - one)))) l.
  (* the loop over components 1.. : a component that is not periodic or whose period differs from `period` clears the flag and
     resets `period` to 0 (so that later components are compared with 0) *)
  Fixpoint sum_loop (b : bool) (period : T) (l : list scomp) : bool * T :=
    match l with
    | [] => (b, period)
    | k :: r => if negb (sc_per k) || negb (neqb O (sc_P k) period) then sum_loop false zero r else sum_loop b period r
    end.
  (* Some (period, wrapping centre) when the variable is flagged periodic (f_cv_periodic), None otherwise *)
  Definition sum_periodic (l : list scomp) : option (T * T) :=
    match l with
    | [] => None
    | k0 :: r =>
      if sum_homogeneous l && sc_per k0 then
        let '(b, P) := sum_loop true (sc_P k0) r in if b then Some (P, sc_wc k0) else None
      else None
    end.
  (* the metric and wrap of a variable made of scalar components (after the repair of the dispatch: the first component's
     periodic functions are used only when the variable itself is periodic) *)
  Definition sum_kind (l : list scomp) : comp_kind :=
    match sum_periodic l with Some (P, c) => KPeriodic P c | None => KScalar end.
  (* creation order: stable insertion sort by keyword rank *)
  Fixpoint sc_insert (k : scomp) (l : list scomp) : list scomp :=
    match l with
    | [] => [k]
    | h :: r => if Z.leb (sc_rank k) (sc_rank h) then k :: l else h :: sc_insert k r
    end.
  Fixpoint sum_creation_order (l : list scomp) : list scomp :=
    match l with [] => [] | k :: r => sc_insert k (sum_creation_order r) end.

  (* ================= consumers of the metric =================
     harmonic restraint (colvarbias_restraint_harmonic::restraint_potential / restraint_force): energy 0.5 k / w^2 * dist2(x, centre),
     force -0.5 k / w^2 * dist2_lgrad(x, centre), both through colvar::dist2 / dist2_lgrad of the variable (any kind) *)
  Definition cval_scale (s : T) (v : cval) : cval :=
    match v with
    | VS x => VS (s * x)
    | V3 x => V3 (v3scale s x)
    | VQ q => VQ (qscale s q)
    | VL l => VL (map (fun a => s * a) l)
    end.
  Definition hr_energy (k w : T) (kind : comp_kind) (x c : cval) : option T :=
    match comp_dist2 kind x c with Some d => Some (nhalf O * k / (w * w) * d) | None => None end.
  Definition hr_force (k w : T) (kind : comp_kind) (x c : cval) : option cval :=
    match comp_lgrad kind x c with Some g => Some (cval_scale (nneg O (nhalf O) * k / (w * w)) g) | None => None end.
  (* harmonic walls on a scalar variable (colvarbias_restraint_harmonic_walls::colvar_distance / restraint_potential /
     restraint_force): for a periodic variable the closer wall (by the variable's distance) is the one that may act *)
  Definition hw_distance (kind : comp_kind) (lo up x : T) : T :=
    match kind with
    | KPeriodic P _ =>
      if nltb O (per_dist2 P x lo) (per_dist2 P x up)
      then (let g := per_grad P x lo in if nltb O g zero then nhalf O * g else zero)
      else (let g := per_grad P x up in if nltb O zero g then nhalf O * g else zero)
    | _ =>
      let g := sc_grad x lo in
      if nltb O g zero then nhalf O * g
      else let g2 := sc_grad x up in if nltb O zero g2 then nhalf O * g2 else zero
    end.
  Definition hw_energy (k w lk uk : T) (kind : comp_kind) (lo up x : T) : T :=
    let d := hw_distance kind lo up x in
    let scale := if nltb O zero d then uk else lk in
    nhalf O * k * scale / (w * w) * d * d.
  Definition hw_force (k w lk uk : T) (kind : comp_kind) (lo up x : T) : T :=
    let d := hw_distance kind lo up x in
    let scale := if nltb O zero d then uk else lk in
    nneg O k * scale / (w * w) * d.
  (* finite-difference velocity (colvar::fdiff_velocity): half the left gradient of the distance between the new and the old value,
     over the time step: the closest-image displacement for periodic variables, the tangent displacement on the manifolds *)
  Definition fd_velocity (dt : T) (kind : comp_kind) (xold xnew : cval) : option cval :=
    match comp_lgrad kind xnew xold with
    | Some g => Some (cval_scale ((if nltb O zero dt then one / dt else one) * nhalf O) g)
    | None => None
    end.
  (* run-time modification of the components (modifycvcs): component number j (creation order) gets a new period (None = unchanged;
     a period makes the component periodic) and a new coefficient; colvar::update_cvc_config re-evaluates the decision on the
     modified components (after the repair; before it the decision of colvar::init was kept) *)
  Definition sc_modify (pn : option T) (cn : T) (k : scomp) : scomp :=
    match pn with
    | Some P => {| sc_per := true; sc_P := P; sc_wc := sc_wc k; sc_coeff := cn; sc_exp := sc_exp k; sc_rank := sc_rank k |}
    | None => {| sc_per := sc_per k; sc_P := sc_P k; sc_wc := sc_wc k; sc_coeff := cn; sc_exp := sc_exp k; sc_rank := sc_rank k |}
    end.
  Fixpoint sum_modify (j : nat) (pn : option T) (cn : T) (l : list scomp) : list scomp :=
    match l with
    | [] => []
    | k :: r => match j with
                | 0%nat => sc_modify pn cn k :: r
                | S j' => k :: sum_modify j' pn cn r
                end
    end.
  Fixpoint sum_history (l : list scomp) (mods : list (nat * option T * T)) : list scomp :=
    match mods with
    | [] => l
    | (j, pn, cn) :: r => sum_history (sum_modify j pn cn l) r
    end.
  (* metadynamics: energy and force of ONE hill (colvarbias_meta::calc_hills / calc_hills_force): W exp(-dist2/(2 sigma^2)) with the
     variable's distance (set to 0 beyond exponent 23), force W * value * 0.5/sigma^2 * dist2_lgrad *)
  Definition hill_value (sigma : T) (kind : comp_kind) (x c : cval) : option T :=
    match comp_dist2 kind x c with
    | Some d => let s := zero + d / (sigma * sigma) in
                Some (if nltb O (nofZ O 23) s then zero else nexp O (nneg O (nhalf O) * s))
    | None => None
    end.
  Definition hill_energy (W sigma : T) (kind : comp_kind) (x c : cval) : option T :=
    match hill_value sigma kind x c with Some v => Some (W * v) | None => None end.
  Definition hill_force (W sigma : T) (kind : comp_kind) (x c : cval) : option cval :=
    match hill_value sigma kind x c, comp_lgrad kind x c with
    | Some v, Some g => Some (cval_scale (W * v * (nhalf O / (sigma * sigma))) g)
    | _, _ => None
    end.
  (* OPES: value of one kernel at x on a scalar variable (colvarbias_opes::evaluateKernel, first overload) *)
  Definition opes_kernel (h sigma cutoff2 vac : T) (kind : comp_kind) (c x : T) : option T :=
    match comp_dist2 kind (VS c) (VS x) with
    | Some d => let n2 := zero + d / (sigma * sigma) in
                Some (if nleb O cutoff2 n2 then zero else h * (nexp O (nneg O (nhalf O) * n2) - vac))
    | None => None
    end.
End Value.
