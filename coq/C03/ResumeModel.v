(* C03 -- resume from a saved state.  Generic part of the model: what a "stateful object with a
   saved state" is, the run protocol under which the engine and colvarmodule drive it, and the
   combinators with which objects are put together.  Definitions only (extracted).

   Mirrors, at module level (src/colvarmodule.cpp):
     it, it_restart                      colvarmodule::it / it_restart (static)
     mod_tick                            the engine's step: the first calc() of a process does not
                                         advance `it`, every later one does (harness/vsim.h, as NAMD/LAMMPS)
     mod_save / mod_load                 write_state_template_: `configuration { step it }`;
                                         read_state_template_: it = it_restart = step
   so that a resumed run re-executes the step at which the state was written, with
   step_relative() = it - it_restart = 0, and every object's update() sees that. *)
From Coq Require Import ZArith List Bool.
Import ListNotations.
Local Open Scope Z_scope.

(* a stateful object (variable, bias, or a system of them) *)
Record machine (Cfg St In Out Saved : Type) := mkMachine {
  m_init : Cfg -> St;                              (* constructor + init(conf) *)
  m_step : Cfg -> St -> Z -> Z -> In -> St * Out;  (* update at step_absolute, step_relative *)
  m_save : Cfg -> St -> Saved;                     (* get_state_params + write_state_data: what is written *)
  m_after_save : Cfg -> St -> St;                  (* what writing the state does to the object itself *)
  m_load : Cfg -> Saved -> St                      (* fresh object (m_init) + set_state_params + read_state_data *)
}.
Arguments mkMachine {Cfg St In Out Saved}.
Arguments m_init {Cfg St In Out Saved}.
Arguments m_step {Cfg St In Out Saved}.
Arguments m_save {Cfg St In Out Saved}.
Arguments m_after_save {Cfg St In Out Saved}.
Arguments m_load {Cfg St In Out Saved}.

(* module-level counters *)
Record modst := mkMod { md_it : Z; md_itr : Z; md_started : bool }.
Definition mod_init (it0 : Z) : modst := mkMod it0 it0 false.
Definition mod_tick (m : modst) : modst :=
  if md_started m then mkMod (md_it m + 1) (md_itr m) true else mkMod (md_it m) (md_itr m) true.
Definition mod_rel (m : modst) : Z := md_it m - md_itr m.
Definition mod_save (m : modst) : Z := md_it m.
Definition mod_load (k : Z) : modst := mkMod k k false.

Section Protocol.
  Context {Cfg St In Out Saved : Type} (M : machine Cfg St In Out Saved).

  (* the engine runs the inputs of h, one step each; reports (step number, output) per step *)
  Fixpoint run_from (c : Cfg) (m : modst) (s : St) (h : list In) : modst * St * list (Z * Out) :=
    match h with
    | [] => (m, s, [])
    | i :: r =>
        let m' := mod_tick m in
        let so := m_step M c s (md_it m') (mod_rel m') i in
        let res := run_from c m' (fst so) r in
        (fst (fst res), snd (fst res), (md_it m', snd so) :: snd res)
    end.

  Definition run (c : Cfg) (it0 : Z) (h : list In) := run_from c (mod_init it0) (m_init M c) h.

  (* the state file written after the steps of a run *)
  Definition state_file (c : Cfg) (ms : modst * St) : Z * Saved := (mod_save (fst ms), m_save M c (snd ms)).
  (* a fresh instance with the same configuration loads the file and runs h *)
  Definition resume (c : Cfg) (f : Z * Saved) (h : list In) :=
    run_from c (mod_load (fst f)) (m_load M c (snd f)) h.
  (* the run that wrote the file goes on *)
  Definition go_on (c : Cfg) (ms : modst * St) (h : list In) :=
    run_from c (fst ms) (m_after_save M c (snd ms)) h.
End Protocol.

(* ---- combinators ---- *)

(* two objects side by side, each with its own input *)
Definition pair_machine {C1 S1 I1 O1 V1 C2 S2 I2 O2 V2}
  (M1 : machine C1 S1 I1 O1 V1) (M2 : machine C2 S2 I2 O2 V2)
  : machine (C1 * C2) (S1 * S2) (I1 * I2) (O1 * O2) (V1 * V2) :=
  mkMachine
    (fun c => (m_init M1 (fst c), m_init M2 (snd c)))
    (fun c s it rel i =>
       let r1 := m_step M1 (fst c) (fst s) it rel (fst i) in
       let r2 := m_step M2 (snd c) (snd s) it rel (snd i) in
       ((fst r1, fst r2), (snd r1, snd r2)))
    (fun c s => (m_save M1 (fst c) (fst s), m_save M2 (snd c) (snd s)))
    (fun c s => (m_after_save M1 (fst c) (fst s), m_after_save M2 (snd c) (snd s)))
    (fun c v => (m_load M1 (fst c) (fst v), m_load M2 (snd c) (snd v))).

(* the second object's input is computed from the common input and the first object's output of the
   same step (the biases updated earlier in the step: e.g. the force the restraints apply, which ABF sees) *)
Definition cascade_machine {C1 S1 I O1 V1 C2 S2 I2 O2 V2}
  (M1 : machine C1 S1 I O1 V1) (M2 : machine C2 S2 I2 O2 V2) (wire : I -> O1 -> I2)
  : machine (C1 * C2) (S1 * S2) I (O1 * O2) (V1 * V2) :=
  mkMachine
    (fun c => (m_init M1 (fst c), m_init M2 (snd c)))
    (fun c s it rel i =>
       let r1 := m_step M1 (fst c) (fst s) it rel i in
       let r2 := m_step M2 (snd c) (snd s) it rel (wire i (snd r1)) in
       ((fst r1, fst r2), (snd r1, snd r2)))
    (fun c s => (m_save M1 (fst c) (fst s), m_save M2 (snd c) (snd s)))
    (fun c s => (m_after_save M1 (fst c) (fst s), m_after_save M2 (snd c) (snd s)))
    (fun c v => (m_load M1 (fst c) (fst v), m_load M2 (snd c) (snd v))).

(* any number of objects of one kind on a common input (all the restraints, all the histograms, ...) *)
Fixpoint map2l {A B C} (f : A -> B -> C) (la : list A) (lb : list B) : list C :=
  match la, lb with
  | a :: ra, b :: rb => f a b :: map2l f ra rb
  | _, _ => []
  end.

(* like map2l, but total on the second list (so that it is the identity when f c is) *)
Fixpoint map2r {A B} (f : A -> B -> B) (la : list A) (lb : list B) : list B :=
  match lb with
  | [] => []
  | b :: rb => match la with
               | a :: ra => f a b :: map2r f ra rb
               | [] => b :: rb
               end
  end.

Definition list_machine {C S I O V} (M : machine C S I O V)
  : machine (list C) (list S) I (list O) (list V) :=
  mkMachine
    (fun cs => map (m_init M) cs)
    (fun cs ss it rel i =>
       let rs := map2l (fun c s => m_step M c s it rel i) cs ss in
       (map fst rs, map snd rs))
    (fun cs ss => map2l (m_save M) cs ss)
    (fun cs ss => map2r (m_after_save M) cs ss)
    (fun cs vs => map2l (m_load M) cs vs).
