(* C03 -- a state file with several objects: colvarmodule::read_objects_state.
   Formatted (text) state: the blocks are read in file order; each block goes to the first object of the same
   keyword (state_keyword / bias_type, or "colvar") whose name it carries (check_matching_state); a block that no
   object claims is discarded; an object without a block keeps what it had.
   Unformatted (binary) state: the blocks are read in the order of the objects ("an unformatted stream must match
   the objects' exact configuration").  Definitions only. *)
From Coq Require Import List Bool Arith.
Import ListNotations.

Section Blocks.
  Context {P S : Type}.                       (* payload of a block; state of an object *)
  Variable load : nat -> P -> S -> S.         (* keyword -> set_state_params + read_state_data on the existing object *)

  Record block := mkBlock { b_kind : nat; b_name : nat; b_data : P }.
  Record obj := mkObj { o_kind : nat; o_name : nat; o_st : S }.

  Definition key_eqb (k1 n1 k2 n2 : nat) : bool := Nat.eqb k1 k2 && Nat.eqb n1 n2.
  Definition claims (o : obj) (b : block) : bool := key_eqb (o_kind o) (o_name o) (b_kind b) (b_name b).
  Definition take (o : obj) (b : block) : obj := mkObj (o_kind o) (o_name o) (load (o_kind o) (b_data b) (o_st o)).

  (* one block: the first object that claims it reads it *)
  Fixpoint apply_block (b : block) (objs : list obj) : list obj :=
    match objs with
    | [] => []
    | o :: r => if claims o b then take o b :: r else o :: apply_block b r
    end.

  Definition read_text (file : list block) (objs : list obj) : list obj :=
    fold_left (fun os b => apply_block b os) file objs.

  (* binary: object i reads block i *)
  Fixpoint read_binary (file : list block) (objs : list obj) : list obj :=
    match objs, file with
    | o :: r, b :: fr => take o b :: read_binary fr r
    | _, _ => objs
    end.

  (* the block of a given object in a file, if any *)
  Fixpoint find_block (k n : nat) (file : list block) : option block :=
    match file with
    | [] => None
    | b :: r => if key_eqb k n (b_kind b) (b_name b) then Some b else find_block k n r
    end.

  (* block-wise reading: every object on its own *)
  Definition read_own (file : list block) (o : obj) : obj :=
    match find_block (o_kind o) (o_name o) file with Some b => take o b | None => o end.

  Definition okey (o : obj) : nat * nat := (o_kind o, o_name o).
  Definition bkey (b : block) : nat * nat := (b_kind b, b_name b).

  (* writing: one block per object, in the order of the objects *)
  Variable save : nat -> S -> P.
  Definition write_file (objs : list obj) : list block :=
    map (fun o => mkBlock (o_kind o) (o_name o) (save (o_kind o) (o_st o))) objs.
End Blocks.
