(* C03 -- A run resumed from a saved state is indistinguishable from an uninterrupted run.

   Objects (variables, biases, systems of them) are [machine]s (ResumeModel.v): init / step at
   (step_absolute, step_relative) / save (what the state file carries) / load (fresh object + what is read
   back).  The run protocol is colvarmodule's: the state file carries the step number, a fresh instance sets
   it = it_restart = that number and RE-EXECUTES that step with step_relative = 0.
   [resumes_like_uninterrupted M Ok OutEq0 OutEq SavedEq] (ResumeProofs.v) says: for every configuration with
   Ok, every first step number, every history h1 ++ i :: h2 -- hence every stop step --, the fresh instance
   that loads the state written after the step with input i produces at that (re-executed) step an output
   related by OutEq0 to the original one, at every later step an output related by OutEq to that of the
   uninterrupted run, ends at the same step number and writes the same final state (SavedEq).
   [resumes_like_go_on] is the same against the run that wrote the state and went on (they coincide when
   writing the state does not change the object), [saves_what_it_loaded]: writing the state right after
   loading it reproduces it. *)
From Coq Require Import ZArith QArith List Bool Reals Lia Permutation.
From CV Require Import Base.Num Base.RNum C03.ResumeModel C03.ResumeProofs C03.ObjectsModel C03.UsesC06
  C03.RestraintResume C03.RestraintMachine C03.ObjectsProofs C03.SystemProofs C03.Witness
  C03.UsesC04 C03.UsesC04Proofs C03.AbfSystem C03.UsesC05 C03.UsesC05Proofs C03.FormatModel C03.FormatProofs C03.BlocksModel C03.BlocksProofs.
Import ListNotations.
Local Open Scope Z_scope.

(* The local obligations suffice, for every object, every history and every stop step. *)
Theorem C03_resume_bisim_generic :
  forall (Cfg St In Out Saved : Type) (M : machine Cfg St In Out Saved)
         (Ok : Cfg -> Prop) (Inv : Cfg -> St -> Prop) (Eqv : Cfg -> St -> St -> Prop)
         (OutEq0 OutEq : Out -> Out -> Prop) (SavedEq : Saved -> Saved -> Prop),
    resumable M Ok Inv Eqv OutEq0 OutEq SavedEq ->
    resumes_like_go_on M Ok OutEq0 OutEq SavedEq /\ saves_what_it_loaded M Ok SavedEq /\
    ((forall c s, m_after_save M c s = s) -> resumes_like_uninterrupted M Ok OutEq0 OutEq SavedEq).
Proof.
  intros Cfg St In Out Saved M Ok Inv Eqv OutEq0 OutEq SavedEq HR.
  split; [exact (resumable_resumes M Ok Inv Eqv OutEq0 OutEq SavedEq HR)|].
  split; [exact (resumable_saves M Ok Inv Eqv OutEq0 OutEq SavedEq HR)|].
  intros Hid. exact (resumes_uninterrupted_of_go_on M Ok OutEq0 OutEq SavedEq Hid
                       (resumable_resumes M Ok Inv Eqv OutEq0 OutEq SavedEq HR)).
Qed.
Print Assumptions C03_resume_bisim_generic.

(* Restraints (harmonic, harmonicWalls, linear; fixed, moving centres continuous / staged, changing force
   constant continuous / staged / lambdaSchedule, accumulated work, staged TI), for every numeric carrier:
   energy and forces of the re-executed step, everything (energy, forces, dA/dLambda line) afterwards, and
   the final firstStep / stage / centers / forceConstant / restraintFE / accumulatedWork.
   r_ok excludes only the combination init() rejects (outputAccumulatedWork with staged centres). *)
Theorem C03_restraint_resumes :
  forall (T : Type) (O : NumOps T),
    resumes_like_uninterrupted (restraint_machine O) r_ok (@r_out_eq0 T) (@r_out_eq T) eq /\
    saves_what_it_loaded (restraint_machine O) r_ok eq.
Proof.
  intros T O. pose proof (restraint_resumable O) as HR. split.
  - apply resumes_uninterrupted_of_go_on; [reflexivity|].
    exact (resumable_resumes _ _ _ _ _ _ _ HR).
  - exact (resumable_saves _ _ _ _ _ _ _ HR).
Qed.
Print Assumptions C03_restraint_resumes.

(* Module level: the step counter (part of the protocol: the resumed run numbers its steps like the
   uninterrupted one) and the output schedules (trajectory lines; periodic state files). *)
Theorem C03_module_schedule_resumes :
  resumes_like_uninterrupted module_machine (fun _ => True) (fun o o' => fst o = fst o') eq eq.
Proof.
  apply resumes_uninterrupted_of_go_on; [reflexivity|].
  exact (resumable_resumes _ _ _ _ _ _ _ module_resumable).
Qed.
Print Assumptions C03_module_schedule_resumes.

(* Histogram (scalar variables), for every carrier: bins and the final grid, bin by bin. *)
Theorem C03_histogram_resumes :
  forall (T : Type) (O : NumOps T),
    resumes_like_uninterrupted (histogram_machine O) (@h_ok T) eq eq grid_eq /\
    saves_what_it_loaded (histogram_machine O) (@h_ok T) grid_eq.
Proof.
  intros T O. pose proof (histogram_resumable O) as HR. split.
  - apply resumes_uninterrupted_of_go_on; [reflexivity|].
    exact (resumable_resumes _ _ _ _ _ _ _ HR).
  - exact (resumable_saves _ _ _ _ _ _ _ HR).
Qed.
Print Assumptions C03_histogram_resumes.

(* The full statement ("every combination") fails for a histogram with stepZeroData: the re-executed step is
   counted a second time.  Grid [0,4) of width 1, values 1/2, 3/2, 3/2, stop after the second step:
   bin [1] holds 2 in the run that went on and 3 in the resumed run.  (Documented behaviour of stepZeroData:
   "accumulate data starting at step 0 of a simulation run"; recorded as a known finding.) *)
Theorem C03_histogram_stepZeroData_refuted :
  snd (fst wh_A) [1] = 2 /\ snd (fst wh_B) [1] = 3.
Proof. vm_compute. split; reflexivity. Qed.
Print Assumptions C03_histogram_stepZeroData_refuted.

(* Objects without state (fixed restraints; histogramRestraint on the C06 model of its update): every carrier. *)
Theorem C03_stateless_resumes :
  (forall (C I Ou : Type) (f : C -> Z -> I -> Ou),
     resumes_like_uninterrupted (stateless_machine f) (fun _ => True) eq eq eq) /\
  (forall (T : Type) (O : NumOps T),
     resumes_like_uninterrupted (histrestraint_machine O) (fun _ => True) eq eq eq).
Proof.
  assert (H : forall (C I Ou : Type) (f : C -> Z -> I -> Ou),
             resumes_like_uninterrupted (stateless_machine f) (fun _ => True) eq eq eq).
  { intros C I Ou f. apply resumes_uninterrupted_of_go_on; [reflexivity|].
    exact (resumable_resumes _ _ _ _ _ _ _ (stateless_resumable f)). }
  split; [exact H|]. intros T O. apply H.
Qed.
Print Assumptions C03_stateless_resumes.

(* ABMD over the reals: energy, force, final reference value. *)
Theorem C03_abmd_resumes :
  resumes_like_uninterrupted (abmd_machine Rops) (fun _ => True) eq eq a_saved_eq /\
  saves_what_it_loaded (abmd_machine Rops) (fun _ => True) a_saved_eq.
Proof.
  pose proof abmd_resumable as HR. split.
  - apply resumes_uninterrupted_of_go_on; [reflexivity|].
    exact (resumable_resumes _ _ _ _ _ _ _ HR).
  - exact (resumable_saves _ _ _ _ _ _ _ HR).
Qed.
Print Assumptions C03_abmd_resumes.

(* ALB (adaptive linear bias, one variable; the update as repaired on fix-C03-6: the coupling constant that gave the
   force of the last step is part of the state and is applied again when that step is recomputed), every carrier:
   energy, force and the complete state (set point, current coupling, range, rate, accumulated steps, running mean
   and variance, step count, equilibration flag). *)
Theorem C03_alb_resumes :
  forall (T : Type) (O : NumOps T),
    resumes_like_uninterrupted (alb_machine O) (fun _ => True) eq eq eq /\
    saves_what_it_loaded (alb_machine O) (fun _ => True) eq /\
    resumes_repeatedly (alb_machine O) (fun _ => True).
Proof. exact alb_resumes. Qed.
Print Assumptions C03_alb_resumes.

(* A system (over the reals): an extended-Lagrangian variable (optional Langevin term and reflecting
   boundaries) driven by any number of restraints, together with any number of restraints, histograms and
   ABMD biases on plain variables: reported extended value, spring force on the atoms, every bias output,
   and the final x / extended_x / extended_v and bias states. *)
Theorem C03_system_resumes :
  resumes_like_uninterrupted sys_machine sys_ok sys_out_eq0 sys_out_eq sys_saved_eq.
Proof. exact sys_resumes_uninterrupted. Qed.
Print Assumptions C03_system_resumes.

(* ABF (plain ABF on a grid: samples / gradients, bin hand-over with lagged total forces, subtractAppliedForce,
   ramp, cap, scaled force; C04 model in closed loop with the engine), every carrier: bin, ABF force computed and
   applied, total force on the variables at the re-executed step and afterwards (then also the reported total
   force), and the final samples / gradients.  abf_ok excludes stepZeroData (see the histogram). *)
Theorem C03_abf_resumes :
  forall (T : Type) (O : NumOps T),
    resumes_like_uninterrupted (abf_machine O) (@abf_ok T) (@abf_out_eq0 T) (@abf_out_eq T) eq /\
    saves_what_it_loaded (abf_machine O) (@abf_ok T) eq.
Proof.
  intros T O. pose proof (abf_resumable O) as HR. split.
  - apply resumes_uninterrupted_of_go_on; [reflexivity|].
    exact (resumable_resumes _ _ _ _ _ _ _ HR).
  - exact (resumable_saves _ _ _ _ _ _ _ HR).
Qed.
Print Assumptions C03_abf_resumes.

(* ABF together with any number of restraints on its variables (the restraints' forces enter the total force
   that ABF measures one step later): every carrier. *)
Theorem C03_abf_with_restraints_resumes :
  forall (T : Type) (O : NumOps T),
    resumes_like_uninterrupted (abf_sys_machine' O)
      (fun c => Forall r_ok (fst c) /\ abf_ok (snd c))
      (pair_rel (all2 (@r_out_eq0 T)) (@abf_out_eq0 T))
      (pair_rel (all2 (@r_out_eq T)) (@abf_out_eq T))
      (pair_rel (all2 eq) eq).
Proof. intros T O. exact (abf_sys_resumes O). Qed.
Print Assumptions C03_abf_with_restraints_resumes.

(* eABF: ABF on an extended-Lagrangian variable (C04 model fed by the extended coordinate and the spring force, inside
   the extended-Lagrangian combinator, Langevin term included), every carrier: reported extended value, spring force on
   the atoms, ABF outputs; final x / extended_x / extended_v and samples / gradients.  (The CZAR grids are not modelled.) *)
Theorem C03_eabf_resumes :
  forall (T : Type) (O : NumOps T),
    resumes_like_uninterrupted (eabf_machine O)
      (fun c => abf_ok (snd c))
      (xl_out_eq (@abf_out_eq0 T)) (xl_out_eq (@abf_out_eq T))
      (fun v v' => fst v = fst v' /\ snd v = snd v').
Proof. intros T O. exact (eabf_resumes O). Qed.
Print Assumptions C03_eabf_resumes.

(* Metadynamics (C05 model of one replica: hills, both grids, hills near the edges, keepHills, well-tempered,
   with or without grids; state = grids + geometry + the explicit hills), over the reals, grids compared bin
   by bin.  PARTIAL with respect to the property text: the resumed run is indistinguishable from the run that
   WROTE THE STATE AND WENT ON, from the step after the stop step (at the re-executed step the resumed run reads
   from the grids the hills that the other run was still summing analytically: nothing is claimed there).
   Writing the state is not neutral for this bias (write_state_data projects the pending hills): the run that went
   on is not the uninterrupted run when gridsUpdateFrequency does not divide newHillFrequency (known finding
   save-changes-run:meta+pending-hills, shown by the oracle on the implementation).  meta_ok excludes stepZeroData
   and expandBoundaries. *)
Theorem C03_metadynamics_resumes_partial :
  resumes_like_go_on (meta_machine Rops) meta_ok (fun _ _ => True) eq meta_saved_eq /\
  saves_what_it_loaded (meta_machine Rops) meta_ok meta_saved_eq.
Proof.
  pose proof meta_resumable as HR. split.
  - exact (resumable_resumes _ _ _ _ _ _ _ HR).
  - exact (resumable_saves _ _ _ _ _ _ _ HR).
Qed.
Print Assumptions C03_metadynamics_resumes_partial.

(* Metadynamics, FULL statement, whenever no hill is pending when the state is written: without grids, or with
   gridsUpdateFrequency dividing newHillFrequency (the default: they are equal).  The resumed run has the energy and
   forces of the UNINTERRUPTED run at the re-executed step and at every later step, and the same final grids (bin by
   bin), geometry and explicit hills; keepHills and well-tempered included; meta_ok2 = meta_ok + that condition. *)
Theorem C03_metadynamics_resumes :
  resumes_like_uninterrupted (meta_machine Rops) meta_ok2 eq eq meta_saved_eq.
Proof. exact meta_resumes_uninterrupted. Qed.
Print Assumptions C03_metadynamics_resumes.

(* A job stopped and resumed any number of times (every job a fresh instance that loads the file of its predecessor,
   executes the predecessor's last step again, its own steps, and writes its state): the file written by the last job
   is the file the uninterrupted run writes at that step.  Generic for objects whose files are compared by equality;
   restraints and ABF on every carrier, the module's step counters. *)
Theorem C03_resume_chain :
  (forall (Cfg St In Out Saved : Type) (M : machine Cfg St In Out Saved) (Ok : Cfg -> Prop) (OutEq0 OutEq : Out -> Out -> Prop),
     resumes_like_uninterrupted M Ok OutEq0 OutEq eq -> resumes_repeatedly M Ok) /\
  (forall (T : Type) (O : NumOps T), resumes_repeatedly (restraint_machine O) r_ok) /\
  (forall (T : Type) (O : NumOps T), resumes_repeatedly (abf_machine O) (@abf_ok T)) /\
  resumes_repeatedly module_machine (fun _ => True).
Proof. exact resume_chain_objects. Qed.
Print Assumptions C03_resume_chain.

(* Both state formats carry the same fields.  A state is a list of fields (keyword, values); the text format
   writes `keyword values newline`, the binary format `keyword count values`; decoding what either encoder wrote
   returns the field list, for every field list; the restraint's six optional keywords are recovered from it; hence a
   restraint read from a text state and from a binary state is the same object, namely the one the resume theorems
   are about (m_load (m_save s)). *)
Theorem C03_formats_equivalent :
  forall (T : Type),
    (forall (f : format) (fs : list (@field T)), decode f (encode f fs) = fs) /\
    (forall (O : NumOps T) (f : format) c s, r_read O f c (r_write O f c s) = m_load (restraint_machine O) c (m_save (restraint_machine O) c s)) /\
    (forall (O : NumOps T) c s, r_read O Text c (r_write O Text c s) = r_read O Binary c (r_write O Binary c s)) /\
    (* the fields of every modelled object survive either format: ABMD (refValue, stoppingValue, forceConstant,
       decreasing), a variable with an extended coordinate (x, extended_x, extended_v), the module's step, a grid
       written as the list of its values (histogram, ABF samples), the restraint's optional keywords *)
    (forall (f : format),
      (forall (d : T) (v : T * (T * T * bool)), a_of_fields d (decode f (encode f (a_fields v))) = v) /\
      (forall (d : T) (v : T * T * T), x_of_fields d (decode f (encode f (x_fields v))) = v) /\
      (forall k, m_of_fields (T:=T) (decode f (encode f (m_fields k))) = k) /\
      (forall k vals, grid_of_fields (T:=T) k (decode f (encode f (grid_field k vals))) = Some vals) /\
      (forall v : rsaved (T:=T), r_of_fields (decode f (encode f (r_fields v))) = v)).
Proof.
  intros T. split; [exact (@decode_encode T)|]. split; [intros O f c s; exact (r_read_write O f c s)|].
  split; [intros O c s; exact (r_formats_agree O c s)|]. exact (@objects_read_write T).
Qed.
Print Assumptions C03_formats_equivalent.

(* Several objects in one state file (colvarmodule::read_objects_state).  With distinct (keyword, name) pairs among
   the objects and among the blocks: (1) the text reader is block-wise -- every object ends up as if it had read its
   own block alone (or nothing, if the file has no block for it), whatever else the file contains; (2) the order of
   the blocks does not matter; (3) on a file written by the same configuration the text reader and the binary reader
   (which reads the blocks in the order of the objects) give the same objects.  So the single-object theorems above
   apply to each object of a configuration with several variables and biases. *)
Theorem C03_blockwise_loading :
  forall (P S : Type) (load : nat -> P -> S -> S) (save : nat -> S -> P),
    (forall file objs, NoDup (map okey objs) -> NoDup (map bkey file) ->
       read_text load file objs = map (read_own load file) objs) /\
    (forall f f' objs, NoDup (map okey objs) -> NoDup (map bkey f) -> Permutation f f' ->
       read_text load f objs = read_text load f' objs) /\
    (forall src objs, NoDup (map okey src) -> map okey objs = map okey src ->
       read_text load (write_file save src) objs = read_binary load (write_file save src) objs).
Proof.
  intros P S load save. split; [exact (read_text_blockwise load)|]. split.
  - exact (read_text_order_independent load).
  - exact (read_text_binary_agree load save).
Qed.
Print Assumptions C03_blockwise_loading.

(* With same-step total forces the total force of the re-executed step is reported again by the resumed run
   (with lagged total forces a restarted engine does not have it: it is excluded from abf_out_eq0). *)
Theorem C03_abf_total_force_at_restart_step :
  forall (T : Type) (O : NumOps T) c s i, abf_ok c -> abf_inv O c s -> abf_same_step c = true ->
    abf_reported_total_force O c s i =
    abf_reported_total_force O c (abf_load O c (abf_saved_after_step O c s i)) i.
Proof. intros T O c s i. exact (reexec_total_force_same_step O c s i). Qed.
Print Assumptions C03_abf_total_force_at_restart_step.

(* ---- non-vacuity ---- *)
Example C03_ok_satisfiable :
  exists c : r_cfg Q, r_ok c /\ r_flags c = (true, true).
Proof.
  exists (r_example_cfg 0%Q 1%Q 1%Q 0%Q 2%Q true true 4).
  unfold r_ok. cbn. auto.
Qed.

Example C03_sys_ok_satisfiable :
  exists c, sys_ok c /\ length (snd (fst c)) = 1%nat /\ length (fst (snd (snd c))) = 1%nat.
Proof.
  exists ((mkXCfg 1%R 1%R 1%R false 1%R 0%R false 0%R false 0%R,
           [r_example_cfg 0%R 1%R 1%R 0%R 0%R false false 0]),
          ([], ([mkHCfg [0%R] [1%R] [4] false], []))).
  unfold sys_ok, r_ok, h_ok. cbn.
  repeat split; repeat constructor.
Qed.

(* a moving restraint with accumulated work, resumed after its third step: same final state as the run that
   went on (computed: the statement of C03_restraint_resumes on one concrete history) *)
Example C03_meta_ok2_satisfiable :
  exists c, meta_ok2 c /\ meta_flags c = (true, true, true).
Proof.
  exists (meta_example_cfg 1%R 2%R 300%R).
  unfold meta_ok2, meta_ok. cbn. repeat split; auto; try lia. exists 2. reflexivity.
Qed.

Example C03_restraint_example :
  let c := r_example_cfg 0%Q 1%Q 1%Q 0%Q 2%Q true true 4 in
  let M := restraint_machine Qops in
  let h1 := [[1#2]; [1]]%Q in let i := [3#2]%Q in let h2 := [[2]; [5#2]; [2]]%Q in
  let P := ResumeModel.run M c 0 (h1 ++ [i]) in
  m_save M c (snd (fst (go_on M c (fst P) h2))) = m_save M c (snd (fst (resume M c (state_file M c (fst P)) (i :: h2)))) /\
  sv_W (m_save M c (snd (fst (go_on M c (fst P) h2)))) <> Some 0%Q.
Proof. vm_compute. split; [reflexivity | discriminate]. Qed.
