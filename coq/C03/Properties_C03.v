(* C03 -- A run resumed from a saved state is indistinguishable from an uninterrupted run. (stub; theorems follow) *)
From Coq Require Import ZArith List Bool.
From CV Require Import Base.Num C03.ResumeModel C03.ResumeProofs.
Import ListNotations.
Local Open Scope Z_scope.

Theorem C03_resume_bisim_generic :
  forall (Cfg St In Out Saved : Type) (M : machine Cfg St In Out Saved)
         (Ok : Cfg -> Prop) (Inv : Cfg -> St -> Prop) (Eqv : Cfg -> St -> St -> Prop)
         (OutEq0 OutEq : Out -> Out -> Prop) (SavedEq : Saved -> Saved -> Prop),
    resumable M Ok Inv Eqv OutEq0 OutEq SavedEq ->
    forall c, Ok c -> forall it0 h1 i h2,
    let P := run M c it0 (h1 ++ [i]) in
    let A := go_on M c (fst P) h2 in
    let B := resume M c (state_file M c (fst P)) (i :: h2) in
    exists oP o0 oB,
      snd P = oP ++ [o0] /\
      snd B = (fst o0, snd (hd o0 (snd B))) :: oB /\
      OutEq0 (snd o0) (snd (hd o0 (snd B))) /\
      outs_eq OutEq (snd A) oB /\
      md_it (fst (fst A)) = md_it (fst (fst B)) /\
      SavedEq (m_save M c (snd (fst A))) (m_save M c (snd (fst B))).
Proof. exact (@resume_vs_go_on). Qed.
Print Assumptions C03_resume_bisim_generic.
