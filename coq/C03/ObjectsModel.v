(* C03 -- the stateful objects of Colvars as [machine]s: what each one writes to the state file
   (get_state_params / write_state_data) and how a fresh object is rebuilt from it (constructor + init +
   set_state_params / read_state_data).  The per-object update functions are those of the slices that
   own them (C06 restraints, C04 ABF, C05 metadynamics); here only save / load are added on top.
   Definitions only (extracted). *)
From Coq Require Import ZArith List Bool.
From CV Require Import Base.Num C03.ResumeModel.
Import ListNotations.
Local Open Scope Z_scope.


(* ------------------------------------------------------------------------------------------------
   Module-level output schedule (src/colvarmodule.cpp, calc()):
     trajectory line      if (cv_traj_freq && ...) write_traj_files(): step_absolute % cv_traj_freq == 0
     periodic state file  if (restart_out_freq && step_relative() > 0 && step_absolute % restart_out_freq == 0)
   No state of its own: the step counters are those of the run protocol (ResumeModel). *)
Record mcfg := mkMCfg { mc_traj_freq : Z; mc_restart_freq : Z }.
Definition module_machine : machine mcfg unit unit (bool * bool) unit :=
  mkMachine (fun _ => tt)
            (fun c _ it rel _ =>
               (tt, (negb (mc_traj_freq c =? 0) && (Z.rem it (mc_traj_freq c) =? 0),
                     negb (mc_restart_freq c =? 0) && (0 <? rel) && (Z.rem it (mc_restart_freq c) =? 0))))
            (fun _ _ => tt) (fun _ s => s) (fun _ _ => tt).

(* ------------------------------------------------------------------------------------------------
   Objects without state: what they compute at a step is a function of the configuration, the step number and the
   input of the step only (fixed restraints are of this kind; so is histogramRestraint, whose state block holds
   nothing but its name and step). *)
Definition stateless_machine {C I Ou : Type} (f : C -> Z -> I -> Ou) : machine C unit I Ou unit :=
  mkMachine (fun _ => tt) (fun c _ it rel i => (tt, f c it i)) (fun _ _ => tt) (fun _ s => s) (fun _ _ => tt).


(* ------------------------------------------------------------------------------------------------
   Histogram on scalar variables (src/colvarbias_histogram.cpp, update(): bin of the current values;
   `if (can_accumulate_data()) if (grid->index_ok(bin)) grid->acc_value(bin, 1.0)`; write_state_data:
   the whole grid; read_state_data: the whole grid).  The grid is a total function of the index vector
   (DESIGN 3.3); only bins with index_ok are ever written. *)
Section HistogramObject.
  Context {T : Type} (O : NumOps T).

  Record hcfg := mkHCfg {
    h_lower : list T; h_width : list T; h_nx : list Z;    (* grid of the histogram *)
    h_step_zero : bool                                    (* stepZeroData *)
  }.
  Definition hbin (l w x : T) : Z := nfloor O (ndiv O (nsub O x l) w).
  Fixpoint hbins (ls ws xs : list T) : list Z :=
    match ls, ws, xs with
    | l :: ls', w :: ws', x :: xs' => hbin l w x :: hbins ls' ws' xs'
    | _, _, _ => []
    end.
  Fixpoint hindex_ok (nx ix : list Z) : bool :=
    match nx, ix with
    | n :: nx', i :: ix' => (0 <=? i) && (i <? n) && hindex_ok nx' ix'
    | [], [] => true
    | _, _ => false
    end.
  Fixpoint ix_eqb (a b : list Z) : bool :=
    match a, b with
    | [], [] => true
    | x :: a', y :: b' => (x =? y) && ix_eqb a' b'
    | _, _ => false
    end.
  (* colvarbias::can_accumulate_data (no run boundary inside one process here) *)
  Definition h_can_acc (c : hcfg) (rel : Z) : bool := (0 <? rel) || h_step_zero c.

  Definition hstate := list Z -> Z.          (* counts (stored as doubles; every count is an integer) *)
  Definition h_step (c : hcfg) (g : hstate) (it rel : Z) (xs : list T) : hstate * list Z :=
    let b := hbins (h_lower c) (h_width c) xs in
    (if h_can_acc c rel && hindex_ok (h_nx c) b
     then (fun ix => if ix_eqb ix b then g ix + 1 else g ix) else g, b).

  Definition histogram_machine : machine hcfg hstate (list T) (list Z) hstate :=
    mkMachine (fun _ _ => 0) h_step (fun _ g => g) (fun _ g => g) (fun _ g => g).
End HistogramObject.


(* ------------------------------------------------------------------------------------------------
   A scalar variable with an extended Lagrangian coordinate, driven by a bias object B whose input is the
   list of (reported) variable values and whose output carries the force on each variable
   (src/colvar.cpp: calc_colvar_properties, update_forces_energy, update_extended_Lagrangian,
   get_state_params / set_state_params: x, extended_x = x_reported, extended_v = v_reported).
   One variable; no Langevin noise term is drawn from a random source here: the engine's random
   number of the step is part of the input (the correspondence uses a constant sequence). *)
Section ExtLagObject.
  Context {T : Type} (O : NumOps T).

  Record xcfg := mkXCfg {
    x_dt : T; x_mass : T; x_k : T;                 (* cvm::dt(), ext_mass, ext_force_k *)
    x_langevin : bool; x_gamma_factor : T; x_sigma : T;   (* exp(-dt*gamma), ext_sigma *)
    x_refl_lo : bool; x_lo : T; x_refl_up : bool; x_up : T   (* reflecting boundaries *)
  }.
  Record xstate := mkXSt {
    xs_set : bool;            (* x_ext.type() != type_notset *)
    xs_x : T; xs_v : T;       (* x_ext, v_ext *)
    xs_xr : T; xs_vr : T;     (* x_reported, v_reported *)
    xs_after_restart : bool;  (* after_restart *)
    xs_xval : T               (* x (last computed value of the variable) *)
  }.
  Record xin := mkXIn { xi_x : T; xi_rnd : T }.     (* value from the atoms; the engine's gaussian number *)

  (* calc_colvar_properties, extended-Lagrangian branch; the repeated-step branch (prev_timestep) cannot
     occur without a run boundary inside the process *)
  Definition x_pre (c : xcfg) (s : xstate) (rel : Z) (x : T) : xstate :=
    let init := ((rel =? 0) && negb (xs_after_restart s)) || negb (xs_set s) in
    let x0 := if init
              then (let a := if x_refl_lo c && nltb O x (x_lo c) then x_lo c else x in
                    if x_refl_up c && nltb O (x_up c) a then x_up c else a)
              else xs_x s in
    let v0 := if init then n0 O else xs_v s in
    mkXSt true x0 v0 x0 v0 false x.

  Definition nhalfO : T := ndiv O (n1 O) (nofZ O 2).

  (* update_extended_Lagrangian with force f from the biases (time_step_factor 1, non-periodic) *)
  Definition x_post (c : xcfg) (s : xstate) (f rnd : T) : xstate * T :=
    let x := xs_xval s in
    let f_system := nmul O (nmul O (nneg O nhalfO) (x_k c)) (nmul O (nofZ O 2) (nsub O (xs_x s) x)) in
    let f_atoms := nmul O (nneg O (n1 O)) f_system in
    let f_ext := nadd O f f_system in
    let pv := xs_v s in
    let v1 := nadd O pv (ndiv O (nmul O (nmul O nhalfO (x_dt c)) f_ext) (x_mass c)) in
    let v2 := nadd O v1 (ndiv O (nmul O (nmul O nhalfO (x_dt c)) f_ext) (x_mass c)) in
    let x1 := nadd O (xs_x s) (ndiv O (nmul O (x_dt c) v2) (nofZ O 2)) in
    let v3 := if x_langevin c
              then nadd O (nmul O (x_gamma_factor c) v2) (ndiv O (nmul O (x_sigma c) rnd) (x_mass c))
              else v2 in
    let x2 := nadd O x1 (ndiv O (nmul O (x_dt c) v3) (nofZ O 2)) in
    let below := x_refl_lo c && nltb O (nsub O x2 (x_lo c)) (n0 O) in
    let above := x_refl_up c && nltb O (n0 O) (nsub O x2 (x_up c)) in
    let delta := if below then nsub O x2 (x_lo c) else nsub O x2 (x_up c) in
    let x3 := if below || above then nsub O x2 (nmul O (nofZ O 2) delta) else x2 in
    let v4 := if below || above then nmul O (nneg O nhalfO) (nadd O pv v3) else v3 in
    (mkXSt true x3 v4 (xs_xr s) (xs_vr s) false x, f_atoms).

  (* the state file of a variable: x, extended_x, extended_v *)
  Definition xsaved := (T * T * T)%type.
  Definition x_save (s : xstate) : xsaved := (xs_xval s, xs_xr s, xs_vr s).
  (* set_state_params: x, x_restart, after_restart = true; x_ext, v_ext; x_reported = x_ext, v_reported = v_ext *)
  Definition x_load (v : xsaved) : xstate :=
    mkXSt true (snd (fst v)) (snd v) (snd (fst v)) (snd v) true (fst (fst v)).
  Definition x_init : xstate := mkXSt false (n0 O) (n0 O) (n0 O) (n0 O) false (n0 O).

  (* the variable together with the biases that act on it: B sees the reported value; the sum of its
     forces drives the extended coordinate; the atoms feel the spring *)
  (* [bin]: what the bias reads of the variable at this step (its reported value; for ABF also the force the
     system exerts on the extended coordinate), computed from the variable's state after calc_colvar_properties *)
  Context {BC BS BI BO BV : Type} (B : machine BC BS BI BO BV) (force_of : BO -> T)
          (bin : xcfg -> xstate -> BI).

  Definition extlag_machine : machine (xcfg * BC) (xstate * BS) xin (T * T * BO) (xsaved * BV) :=
    mkMachine
      (fun c => (x_init, m_init B (snd c)))
      (fun c s it rel i =>
         let s1 := x_pre (fst c) (fst s) rel (xi_x i) in
         let rb := m_step B (snd c) (snd s) it rel (bin (fst c) s1) in
         let rx := x_post (fst c) s1 (force_of (snd rb)) (xi_rnd i) in
         ((fst rx, fst rb), (xs_xr s1, snd rx, snd rb)))
      (fun c s => (x_save (fst s), m_save B (snd c) (snd s)))
      (fun c s => (fst s, m_after_save B (snd c) (snd s)))
      (fun c v => (x_load (fst v), m_load B (snd c) (snd v))).

  (* force of the system (the spring) on the extended coordinate: (-0.5 k) * dist2_lgrad(x_ext, x) *)
  Definition x_fsys (c : xcfg) (s : xstate) : T :=
    nmul O (nmul O (nneg O nhalfO) (x_k c)) (nmul O (nofZ O 2) (nsub O (xs_x s) (xs_xval s))).
  (* the biases of an ordinary configuration read the reported value *)
  Definition bin_value (c : xcfg) (s : xstate) : list T := [xs_xr s].
End ExtLagObject.

(* ------------------------------------------------------------------------------------------------
   Adaptive linear bias (src/colvarbias_alb.cpp, one variable, as repaired on fix-C03-6).
   A step computes force and energy from the CURRENT coupling constant, then counts the step and updates
   either the running mean / variance (Welford) or, while "equilibrating", ramps the current coupling towards
   the set point; every update_freq counted steps a new set point is computed from the statistics.
   forceCoupling (the coupling that gave the force of the last step) is part of the state: a step that is
   computed a second time -- step_relative = 0 in a job that loaded a state -- applies it again and leaves the
   statistics alone.  get_state_params writes every field but the "state just loaded" flag. *)
Section AlbObject.
  Context {T : Type} (O : NumOps T).

  Record alb_cfg := mkAlbCfg {
    al_center : T; al_width : T;
    al_freq : Z;          (* updateFrequency / 2 *)
    al_kT : T;            (* target temperature x boltzmann (boltzmann alone at temperature 0) *)
    al_range0 : T;        (* forceRange *)
    al_max_rate : T;      (* rateMax, default forceRange / (10 update_freq) *)
    al_hard : bool;       (* hardForceRange *)
    al_k0 : T             (* forceConstant (initial set point) *)
  }.

  Record alb_state := mkAlbState {
    al_set : T; al_cur : T; al_range : T; al_rate : T; al_accum : T; al_mean : T; al_ssd : T;
    al_calls : Z; al_equil : bool; al_force_c : T; al_loaded : bool
  }.

  Definition alb_saved : Type := (T * T * T * T * T * T * T) * (Z * bool * T).

  Definition alb_init (c : alb_cfg) : alb_state :=
    mkAlbState (al_k0 c) (n0 O) (al_range0 c) (ndiv O (nsub O (al_k0 c) (n0 O)) (nofZ O (al_freq c)))
               (n0 O) (n0 O) (n0 O) 0 true (n0 O) false.

  (* energy and force of the linear restraint with coupling k: k/width * (x - center), k/width *)
  Definition alb_out (c : alb_cfg) (k x : T) : T * T :=
    let kw := ndiv O k (al_width c) in (nmul O kw (nsub O x (al_center c)), kw).

  Definition alb_copysign (a b : T) : T :=        (* |a| with the sign of b *)
    if nltb O b (n0 O) then nneg O (nabs O a) else nabs O a.

  Definition alb_step (c : alb_cfg) (s : alb_state) (rel : Z) (x : T) : alb_state * (T * T) :=
    if (rel =? 0) && al_loaded s then
      (mkAlbState (al_set s) (al_cur s) (al_range s) (al_rate s) (al_accum s) (al_mean s) (al_ssd s)
                  (al_calls s) (al_equil s) (al_force_c s) false,
       alb_out c (al_force_c s) x)
    else
      let out := alb_out c (al_cur s) x in
      let fc := al_cur s in
      let calls1 := al_calls s + 1 in
      (* statistics or ramp *)
      let '(mean1, ssd1, cur1, range1, finished) :=
        if negb (al_equil s) then
          let delta := nsub O x (al_mean s) in
          let m := nadd O (al_mean s) (ndiv O delta (nofZ O calls1)) in
          (m, nadd O (al_ssd s) (nmul O delta (nsub O x m)), al_cur s, al_range s, true)
        else
          let diff := nsub O (al_cur s) (al_set s) in
          let reached := neqb O (al_rate s) (n0 O) || nltb O (nmul O diff diff) (nmul O (al_rate s) (al_rate s)) in
          let cur' := if reached then al_cur s else nadd O (al_cur s) (al_rate s) in
          let range' := if negb (al_hard c) && nltb O (al_range s) (nabs O cur')
                        then nmul O (al_range s) (ndiv O (nofZ O 5) (nofZ O 4)) else al_range s in
          (al_mean s, al_ssd s, cur', range', reached) in
      let equil2 := if al_equil s && finished then false else al_equil s in
      let calls2 := if al_equil s && finished then 0 else calls1 in
      if negb equil2 && (calls2 =? al_freq c) then
        let temp := ndiv O (nmul O (nmul O (nofZ O 2) (nsub O (ndiv O mean1 (al_center c)) (n1 O))) ssd1)
                           (nofZ O (calls2 - 1)) in
        let step := ndiv O temp (al_kT c) in
        let accum' := nadd O (al_accum s) (nmul O step step) in
        let cur' := al_set s in
        let set' := if nltb O (n0 O) accum'
                    then nadd O (al_set s) (nmul O (ndiv O range1 (nsqrt O accum')) step) else al_set s in
        let rate0 := ndiv O (nsub O set' cur') (nofZ O (al_freq c)) in
        let rate' := alb_copysign (nmin O (nabs O rate0) (al_max_rate c)) rate0 in
        (mkAlbState set' cur' range1 rate' accum' (n0 O) (n0 O) 0 true fc false, out)
      else
        (mkAlbState (al_set s) cur1 range1 (al_rate s) (al_accum s) mean1 ssd1 calls2 equil2 fc false, out).

  Definition alb_save (s : alb_state) : alb_saved :=
    ((al_set s, al_cur s, al_range s, al_rate s, al_accum s, al_mean s, al_ssd s), (al_calls s, al_equil s, al_force_c s)).

  Definition alb_load (v : alb_saved) : alb_state :=
    let '((se, cu, ra, rt, ac, me, ss), (ca, eq, fc)) := v in
    mkAlbState se cu ra rt ac me ss ca eq fc true.

  Definition alb_machine : machine alb_cfg alb_state T (T * T) alb_saved :=
    mkMachine alb_init
              (fun c s it rel x => alb_step c s rel x)
              (fun c s => alb_save s)
              (fun c s => s)
              (fun c v => alb_load v).
End AlbObject.
