(* C03 -- the ABF object is resumable (every numeric carrier). *)
From Coq Require Import ZArith List Bool Lia Arith.
From CV Require Import Base.Num C03.ResumeModel C03.ResumeProofs C04.ABFModel C03.UsesC04.
Import ListNotations.
Local Open Scope Z_scope.

Section AbfResume.
  Context {T : Type} (O : NumOps T).
  Notation cfg := (@abf_cfg T). Notation state := (@abf_state T). Notation vec := (@vec T).

  Lemma vbuild_ext (n : nat) (f g : nat -> T) : (forall k, (k < n)%nat -> f k = g k) -> vbuild n f = vbuild n g.
  Proof. intros H. unfold vbuild. apply map_ext_in. intros k Hk. apply in_seq in Hk. apply H. lia. Qed.

  Lemma vget_vbuild (n : nat) (f : nat -> T) (k : nat) :
    vget O (vbuild n f) k = if (k <? n)%nat then f k else n0 O.
  Proof.
    unfold vget, vbuild. destruct (k <? n)%nat eqn:E.
    - apply Nat.ltb_lt in E. rewrite (nth_indep _ (n0 O) (f 0%nat)) by (rewrite map_length, seq_length; exact E).
      rewrite map_nth. rewrite seq_nth by exact E. reflexivity.
    - apply Nat.ltb_ge in E. apply nth_overflow. rewrite map_length, seq_length. exact E.
  Qed.

  Lemma vget_vzero (n k : nat) : vget O (vzero O n) k = n0 O.
  Proof. unfold vzero. rewrite vget_vbuild. destruct (k <? n)%nat; reflexivity. Qed.

  Definition measured (c : cfg) (k : nat) : bool := c_update c || bget (c_subtract c) k.

  (* stepZeroData: a sample at step 0 of every run, hence a second one at the re-executed step (same-step forces) *)
  Definition abf_ok (c : cfg) : Prop := c_szd c = false.

  Definition abf_inv (c : cfg) (s : state) : Prop :=
    0 <= s_rel s /\
    (forall k, measured c k = false -> vget O (s_ft s) k = n0 O) /\
    (forall k, bget (c_subtract c) k = false -> vget O (s_fold s) k = n0 O).

  Definition abf_eqv (c : cfg) (s s' : state) : Prop :=
    s_started s = true /\ s_started s' = true /\ 0 <= s_rel s /\ 0 <= s_rel s' /\
    s_cnt s = s_cnt s' /\ s_sum s = s_sum s' /\ s_bin s = s_bin s' /\ s_fbin s = s_fbin s' /\
    s_fabf s = s_fabf s' /\ s_fprev s = s_fprev s' /\ s_fold s = s_fold s' /\ s_eng s = s_eng s' /\
    s_fj s = s_fj s' /\ s_japp s = s_japp s' /\ s_tfok s = true /\ s_tfok s' = true /\
    (forall k, measured c k = false -> vget O (s_ft s) k = vget O (s_ft s') k).

  (* what must agree: the bin, the ABF force computed and applied, the total force on the variables
     (not: the step counter relative to the start of the run, nor the total force reported at the re-executed
     step, which a restarted engine does not have) *)
  Definition abf_out_eq0 (o o' : @abf_out T) : Prop :=
    o_bin o = o_bin o' /\ o_fabf o = o_fabf o' /\ o_fapp o = o_fapp o' /\ o_f o = o_f o'.
  Definition abf_out_eq (o o' : @abf_out T) : Prop :=
    abf_out_eq0 o o' /\ o_tf o = o_tf o' /\ o_cont o = o_cont o'.

  Ltac prj := cbn [s_cnt s_sum s_bin s_fbin s_fabf s_fprev s_ft s_fold s_eng s_fj s_rel s_started s_japp s_tfok
                   o_bin o_fabf o_fapp o_f o_rel o_cont o_tf i_x i_e i_o i_j i_boundary fst snd] in *.

  (* ---- two states that agree as abf_eqv demands, both past their first step, make the same step ---- *)
  Lemma step_congr c s s' i : abf_eqv c s s' ->
    abf_eqv c (fst (abf_step O c s (no_boundary i))) (fst (abf_step O c s' (no_boundary i))) /\
    abf_out_eq (snd (abf_step O c s (no_boundary i))) (snd (abf_step O c s' (no_boundary i))).
  Proof.
    intros (A1 & A2 & A3 & A4 & A5 & A6 & A7 & A8 & A9 & A10 & A11 & A12 & A13 & A15 & A16 & A17 & A14).
    (* the two states are read through their fields only: no use is made of the shape of the record *)
    set (j := no_boundary i).
    assert (P : (0 <? fst (st_clk s j)) = true /\ (0 <? fst (st_clk s' j)) = true /\
                snd (st_clk s j) = false /\ snd (st_clk s' j) = false /\
                0 <= fst (st_clk s j) /\ 0 <= fst (st_clk s' j)).
    { unfold st_clk, clock, j, no_boundary. prj. rewrite A1, A2. cbn [fst snd]. repeat split; try (apply Z.ltb_lt); lia. }
    destruct P as (P1 & P2 & P3 & P4 & P5 & P6).
    assert (Fa : forall k, addj c s k = addj c s' k) by (intros k; unfold addj; rewrite A15; reflexivity).
    assert (F0 : st_ft0 O c s j = st_ft0 O c s' j).
    { unfold st_ft0. apply vbuild_ext. intros k Hk. rewrite P1, P2, Fa, A12, A13, A16, A17. cbn [andb].
      destruct (c_update c || bget (c_subtract c) k) eqn:E; [reflexivity|]. apply A14. exact E. }
    assert (F1 : st_ft O c s j = st_ft O c s' j).
    { unfold st_ft. rewrite F0, P1, P2, A11, A16, A17. reflexivity. }
    assert (F2 : st_fbin O c s j = st_fbin O c s' j) by (unfold st_fbin; rewrite A8; reflexivity).
    assert (F3 : st_doacc O c s j = st_doacc O c s' j).
    { unfold st_doacc. cbn zeta. rewrite P1, P2, P3, P4, F2, A16, A17. reflexivity. }
    assert (F4 : st_sysf O c s j = st_sysf O c s' j).
    { unfold st_sysf. rewrite F1, A10. reflexivity. }
    assert (F5 : st_cnt O c s j = st_cnt O c s' j).
    { unfold st_cnt. rewrite F3, F2, A5. reflexivity. }
    assert (F6 : st_sum O c s j = st_sum O c s' j).
    { unfold st_sum. rewrite F3, F2, F4, A6. reflexivity. }
    assert (F7 : st_fabf O c s j = st_fabf O c s' j) by (unfold st_fabf; rewrite F5, F6; reflexivity).
    assert (F8 : st_fapp O c s j = st_fapp O c s' j) by (unfold st_fapp; rewrite F7; reflexivity).
    assert (F9 : st_f O c s j = st_f O c s' j) by (unfold st_f; rewrite F8; reflexivity).
    assert (F10 : st_fold O c s j = st_fold O c s' j).
    { unfold st_fold. rewrite F9, A11. reflexivity. }
    assert (F11 : st_eng O c s j = st_eng O c s' j) by (unfold st_eng; rewrite F9; reflexivity).
    unfold abf_step, abf_eqv, abf_out_eq, abf_out_eq0. prj.
    rewrite F1, F5, F6, F7, F8, F9, F10, F11, P3, P4.
    repeat split; auto.
  Qed.

  (* ---- invariant ---- *)
  Lemma inv_init c : abf_inv c (abf_init O c).
  Proof.
    unfold abf_inv, abf_init. prj. split; [lia|]. split; intros k _; apply vget_vzero.
  Qed.

  Lemma clk_nonneg (s : state) i : 0 <= s_rel s -> 0 <= fst (st_clk s (no_boundary i)).
  Proof. unfold st_clk, clock, no_boundary. prj. destruct (s_started s); cbn [fst]; lia. Qed.

  Lemma ft0_unmeasured c s j k : measured c k = false -> vget O (s_ft s) k = n0 O ->
    vget O (st_ft0 O c s j) k = n0 O.
  Proof.
    intros Hm H0. unfold st_ft0. rewrite vget_vbuild. destruct (k <? c_nd c)%nat; [|reflexivity].
    unfold measured in Hm. rewrite Hm. exact H0.
  Qed.

  Lemma ft_unmeasured c s j k : measured c k = false -> vget O (s_ft s) k = n0 O ->
    vget O (st_ft O c s j) k = n0 O.
  Proof.
    intros Hm H0. unfold st_ft. destruct (c_same_step c); [apply ft0_unmeasured; auto|].
    rewrite vget_vbuild. destruct (k <? c_nd c)%nat; [|reflexivity].
    assert (Hs : bget (c_subtract c) k = false).
    { unfold measured in Hm. apply orb_false_iff in Hm. tauto. }
    rewrite Hs. cbn [andb]. apply ft0_unmeasured; auto.
  Qed.

  Lemma fold_unsubtracted c s j k : bget (c_subtract c) k = false -> vget O (s_fold s) k = n0 O ->
    vget O (st_fold O c s j) k = n0 O.
  Proof.
    intros Hs H0. unfold st_fold. rewrite vget_vbuild. destruct (k <? c_nd c)%nat; [|reflexivity].
    rewrite Hs. exact H0.
  Qed.

  Lemma inv_step c s i : abf_inv c s -> abf_inv c (fst (abf_step O c s (no_boundary i))).
  Proof.
    intros (I1 & I2 & I3). unfold abf_inv, abf_step. prj. split; [apply clk_nonneg; auto|]. split.
    - intros k Hm. apply ft_unmeasured; auto.
    - intros k Hs. apply fold_unsubtracted; auto.
  Qed.

  (* ---- re-execution of the step after which the state was written ---- *)
  Lemma reexec c s i : abf_ok c -> abf_inv c s ->
    let so := abf_step O c s (no_boundary i) in
    let so' := abf_step O c (abf_load O c (s_cnt (fst so), s_sum (fst so))) (no_boundary i) in
    abf_eqv c (fst so) (fst so') /\ abf_out_eq0 (snd so) (snd so').
  Proof.
    intros Hc (I1 & I2 & I3). cbn zeta.
    set (j := no_boundary i).
    unfold abf_step at 1 2 4. prj.
    set (L := abf_load O c (st_cnt O c s j, st_sum O c s j)).
    assert (D : st_doacc O c L j = false).
    { unfold st_doacc, st_clk, clock, L, abf_load, abf_init, j, no_boundary. prj. unfold abf_ok in Hc. rewrite Hc. reflexivity. }
    assert (G1 : st_cnt O c L j = st_cnt O c s j) by (unfold st_cnt at 1; rewrite D; reflexivity).
    assert (G2 : st_sum O c L j = st_sum O c s j) by (unfold st_sum at 1; rewrite D; reflexivity).
    assert (G3 : st_fabf O c L j = st_fabf O c s j).
    { unfold st_fabf. rewrite G1, G2. reflexivity. }
    assert (G4 : st_fapp O c L j = st_fapp O c s j) by (unfold st_fapp; rewrite G3; reflexivity).
    assert (G5 : st_f O c L j = st_f O c s j) by (unfold st_f; rewrite G4; reflexivity).
    assert (G6 : st_fold O c L j = st_fold O c s j).
    { unfold st_fold. rewrite G5. apply vbuild_ext. intros k Hk.
      destruct (bget (c_subtract c) k) eqn:E; [reflexivity|].
      unfold L, abf_load, abf_init. prj. rewrite vget_vzero. symmetry. apply I3. exact E. }
    assert (G7 : st_eng O c L j = st_eng O c s j) by (unfold st_eng; rewrite G5; reflexivity).
    unfold abf_step. prj. fold L. rewrite G1, G2, G3, G4, G5, G6, G7.
    unfold abf_eqv, abf_out_eq0. prj.
    repeat split; auto.
    - apply clk_nonneg; auto.
    - unfold st_clk, clock, L, abf_load, abf_init, j, no_boundary. prj. lia.
    - intros k Hm. rewrite (ft_unmeasured c s j k Hm (I2 k Hm)).
      symmetry. apply ft_unmeasured; auto. unfold L, abf_load, abf_init. prj. apply vget_vzero.
  Qed.

  (* with same-step total forces the engine has the total force of the re-executed step: it is reported again *)
  Lemma reexec_total_force_same_step c s i : abf_ok c -> abf_inv c s -> abf_same_step c = true ->
    abf_reported_total_force O c s i =
    abf_reported_total_force O c (abf_load O c (abf_saved_after_step O c s i)) i.
  Proof.
    intros Hc (I1 & I2 & I3) Hs. unfold abf_same_step in Hs. unfold abf_reported_total_force, abf_saved_after_step. cbn zeta. unfold abf_step. prj.
    unfold st_ft. rewrite Hs. unfold st_ft0. apply vbuild_ext. intros k Hk. rewrite Hs.
    unfold addj. rewrite Hs, !orb_true_r. cbn [orb].
    destruct (c_update c || bget (c_subtract c) k) eqn:E; [reflexivity|].
    unfold abf_load, abf_init. prj. rewrite vget_vzero. apply I2. exact E.
  Qed.

  Theorem abf_resumable :
    resumable (abf_machine O) abf_ok abf_inv abf_eqv abf_out_eq0 abf_out_eq eq.
  Proof.
    constructor; cbn [m_init m_step m_save m_after_save m_load abf_machine].
    - intros c _. apply inv_init.
    - intros c s it rel i _ Hi _. apply inv_step; auto.
    - intros c s it rel i Hc Hi _. apply reexec; auto.
    - intros c s s' it rel rel' i _ He _ _. apply step_congr; auto.
    - intros c s s' _ (_ & _ & _ & _ & E1 & E2 & _). rewrite E1, E2. reflexivity.
    - intros c s _ _. reflexivity.
  Qed.
End AbfResume.
