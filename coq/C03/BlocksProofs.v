(* C03 -- loading a state with several objects is block-wise: every object reads its own block and nothing else;
   hence the order of the blocks does not matter (text), foreign blocks are ignored, and the text and the binary
   readers agree on a file written by the same configuration. *)
From Coq Require Import List Bool Arith Lia Permutation.
From CV Require Import C03.BlocksModel.
Import ListNotations.

Section BlocksProofs.
  Context {P S : Type}.
  Variable load : nat -> P -> S -> S.
  Notation block := (@block P). Notation obj := (@obj S).

  Lemma key_eqb_true k1 n1 k2 n2 : key_eqb k1 n1 k2 n2 = true <-> (k1, n1) = (k2, n2).
  Proof.
    unfold key_eqb. rewrite andb_true_iff, !Nat.eqb_eq. split.
    - intros [-> ->]. reflexivity.
    - intros H. inversion H. auto.
  Qed.
  Lemma key_eqb_false k1 n1 k2 n2 : key_eqb k1 n1 k2 n2 = false <-> (k1, n1) <> (k2, n2).
  Proof.
    split.
    - intros H E. apply key_eqb_true in E. congruence.
    - intros H. destruct (key_eqb k1 n1 k2 n2) eqn:E; [apply key_eqb_true in E; contradiction | reflexivity].
  Qed.

  Lemma okey_take (o : obj) (b : block) : okey (take load o b) = okey o.
  Proof. reflexivity. Qed.

  (* one block, objects with distinct keys: exactly the object that claims it changes *)
  Lemma apply_block_map (b : block) (objs : list obj) : NoDup (map okey objs) ->
    apply_block load b objs = map (fun o => if claims o b then take load o b else o) objs.
  Proof.
    induction objs as [|o r IH]; intros Hnd; cbn [apply_block map]; [reflexivity|].
    inversion Hnd as [|x l Hnot Hnd' E]. subst.
    destruct (claims o b) eqn:Ec.
    - f_equal. symmetry. rewrite <- (map_id r) at 2. apply map_ext_in. intros o' Hin.
      destruct (claims o' b) eqn:Ec'; [|reflexivity]. exfalso. apply Hnot.
      unfold claims in Ec, Ec'. apply key_eqb_true in Ec. apply key_eqb_true in Ec'.
      assert (okey o' = okey o) by (unfold okey; congruence).
      rewrite <- H. apply in_map. exact Hin.
    - f_equal. apply IH. exact Hnd'.
  Qed.

  Lemma map_okey_apply (b : block) (objs : list obj) :
    map okey (map (fun o => if claims o b then take load o b else o) objs) = map okey objs.
  Proof. rewrite map_map. apply map_ext. intros o. destruct (claims o b); reflexivity. Qed.

  (* the text reader, for objects with distinct (keyword, name) and a file with distinct (keyword, name) *)
  Theorem read_text_blockwise (file : list block) : forall (objs : list obj),
    NoDup (map okey objs) -> NoDup (map bkey file) ->
    read_text load file objs = map (read_own load file) objs.
  Proof.
    induction file as [|b r IH]; intros objs Ho Hf; cbn [read_text fold_left].
    - unfold read_own. cbn [find_block]. rewrite map_id. reflexivity.
    - inversion Hf as [|x l Hnot Hf' E]. subst.
      rewrite (apply_block_map b objs Ho).
      change (fold_left (fun os b0 => apply_block load b0 os) r ?l) with (read_text load r l).
      rewrite IH; [| rewrite map_okey_apply; exact Ho | exact Hf'].
      rewrite map_map. apply map_ext. intros o.
      unfold read_own at 2. cbn [find_block]. unfold claims.
      destruct (key_eqb (o_kind o) (o_name o) (b_kind b) (b_name b)) eqn:Ec.
      + (* o reads b; no later block has its key *)
        unfold read_own. cbn [take o_kind o_name].
        assert (Hn : find_block (o_kind o) (o_name o) r = None).
        { apply key_eqb_true in Ec. clear - Ec Hnot. induction r as [|b' r' IHr]; cbn [find_block]; [reflexivity|].
          destruct (key_eqb (o_kind o) (o_name o) (b_kind b') (b_name b')) eqn:E'.
          - exfalso. apply Hnot. apply key_eqb_true in E'. cbn [map]. left. unfold bkey. congruence.
          - apply IHr. intros Hin. apply Hnot. cbn [map]. right. exact Hin. }
        rewrite Hn. reflexivity.
      + reflexivity.
  Qed.

  Lemma find_block_perm (k n : nat) (f f' : list block) : NoDup (map bkey f) -> Permutation f f' ->
    find_block k n f = find_block k n f'.
  Proof.
    intros Hnd Hp. induction Hp as [|b l l' Hp IH|b1 b2 l|l1 l2 l3 H12 IH12 H23 IH23].
    - reflexivity.
    - cbn [find_block]. inversion Hnd. subst. rewrite IH; auto.
    - cbn [find_block].
      destruct (key_eqb k n (b_kind b2) (b_name b2)) eqn:E2, (key_eqb k n (b_kind b1) (b_name b1)) eqn:E1; try reflexivity.
      exfalso. apply key_eqb_true in E1. apply key_eqb_true in E2.
      inversion Hnd as [|x l0 Hnot _ E]. subst. apply Hnot. cbn [map]. left. unfold bkey. congruence.
    - rewrite IH12 by exact Hnd. apply IH23. eapply Permutation_NoDup; [apply Permutation_map; exact H12 | exact Hnd].
  Qed.

  (* the order of the blocks in a text state does not matter *)
  Theorem read_text_order_independent (f f' : list block) (objs : list obj) :
    NoDup (map okey objs) -> NoDup (map bkey f) -> Permutation f f' ->
    read_text load f objs = read_text load f' objs.
  Proof.
    intros Ho Hf Hp.
    assert (Hf' : NoDup (map bkey f')) by (eapply Permutation_NoDup; [apply Permutation_map; exact Hp | exact Hf]).
    rewrite !read_text_blockwise by assumption.
    apply map_ext. intros o. unfold read_own. rewrite (find_block_perm _ _ f f' Hf Hp). reflexivity.
  Qed.

  (* a file written by the same configuration: text and binary readers agree, object by object *)
  Variable save : nat -> S -> P.

  Lemma find_own_block (objs : list obj) (o : obj) : NoDup (map okey objs) -> In o objs ->
    find_block (o_kind o) (o_name o) (write_file save objs) =
    Some (mkBlock (o_kind o) (o_name o) (save (o_kind o) (o_st o))).
  Proof.
    induction objs as [|o' r IH]; intros Hnd Hin; [contradiction|].
    inversion Hnd as [|x l Hnot Hnd' E]. subst. cbn [write_file map find_block b_kind b_name].
    destruct Hin as [-> | Hin].
    - assert (E : key_eqb (o_kind o) (o_name o) (o_kind o) (o_name o) = true) by (apply key_eqb_true; reflexivity).
      rewrite E. reflexivity.
    - destruct (key_eqb (o_kind o) (o_name o) (o_kind o') (o_name o')) eqn:E.
      + exfalso. apply Hnot. apply key_eqb_true in E.
        assert (okey o = okey o') by (unfold okey; congruence). rewrite <- H. apply in_map. exact Hin.
      + apply IH; auto.
  Qed.

  Lemma write_keys (objs : list obj) : map bkey (write_file save objs) = map okey objs.
  Proof. unfold write_file. rewrite map_map. reflexivity. Qed.

  Lemma read_binary_written (src : list obj) : forall (objs : list obj),
    map okey objs = map okey src ->
    read_binary load (write_file save src) objs =
    map (fun p => take load (fst p) (mkBlock (o_kind (snd p)) (o_name (snd p)) (save (o_kind (snd p)) (o_st (snd p)))))
        (combine objs src).
  Proof.
    induction src as [|s r IH]; intros objs Hk; destruct objs as [|o ro]; cbn in Hk; try discriminate; [reflexivity|].
    cbn [write_file map read_binary combine fst snd]. f_equal. apply IH. inversion Hk. reflexivity.
  Qed.

  (* fresh objects [objs] with the keys of the objects [src] that wrote the file, in the same order *)
  Theorem read_text_binary_agree (src objs : list obj) :
    NoDup (map okey src) -> map okey objs = map okey src ->
    read_text load (write_file save src) objs = read_binary load (write_file save src) objs.
  Proof.
    intros Hnd Hk.
    rewrite read_text_blockwise; [| rewrite Hk; exact Hnd | rewrite write_keys; exact Hnd].
    rewrite (read_binary_written src objs Hk).
    revert objs Hk. induction src as [|s r IH]; intros objs Hk; destruct objs as [|o ro]; cbn in Hk; try discriminate; [reflexivity|].
    unfold okey in Hk at 1 3. cbn [map] in Hk. injection Hk as Hkind Hname Hk2.
    inversion Hnd as [|x l Hnot Hnd' E]. subst.
    cbn [map combine fst snd]. f_equal.
    - unfold read_own. cbn [write_file map find_block b_kind b_name].
      assert (E : key_eqb (o_kind o) (o_name o) (o_kind s) (o_name s) = true).
      { apply key_eqb_true. congruence. }
      rewrite E. unfold take. cbn [b_data]. rewrite Hkind. reflexivity.
    - rewrite <- (IH Hnd' ro Hk2). apply map_ext_in. intros o' Hin.
      unfold read_own. cbn [write_file map find_block b_kind b_name].
      destruct (key_eqb (o_kind o') (o_name o') (o_kind s) (o_name s)) eqn:E; [|reflexivity].
      exfalso. apply Hnot. apply key_eqb_true in E.
      assert (Hin' : In (okey o') (map okey ro)) by (apply in_map; exact Hin).
      rewrite Hk2 in Hin'. unfold okey in Hin' at 1. rewrite E in Hin'. exact Hin'.
  Qed.
End BlocksProofs.
