From Coq Require Import Extraction ExtrOcamlBasic.
From CV Require Import Base.Num C03.ResumeModel C03.ObjectsModel C03.UsesC06 C03.UsesC04.
From CV Require Import C03.UsesC05.
Extraction Language OCaml.
Extraction "model.ml" mkNumOps nhalf
  mkMachine mkMod run_from run state_file resume go_on pair_machine cascade_machine list_machine
  mkRSaved restraint_machine mkHCfg histogram_machine mkACfg abmd_machine mkAlbCfg alb_machine
  mkHRCfg histrestraint_machine mkXCfg mkXSt mkXIn extlag_machine bin_value x_fsys mkMCfg module_machine
  abf_machine eabf_machine meta_machine.
