From Coq Require Import Extraction ExtrOcamlBasic.
From CV Require Import Base.Num C06.RestraintModel C03.ResumeModel C03.ObjectsModel C03.AbfObject.
From CV Require C04.ABFModel C05.MetaModel.
From CV Require Import C03.MetaObject.
Extraction Language OCaml.
Extraction "model.ml" mkNumOps nhalf mkVar mkCfg mkSt mkOut
  mkMachine mkMod run_from run state_file resume go_on pair_machine cascade_machine list_machine
  mkRSaved restraint_machine mkHCfg histogram_machine mkACfg abmd_machine mkAb
  mkHRCfg histrestraint_machine mkXCfg mkXSt mkXIn extlag_machine bin_value x_fsys mkMCfg module_machine
  abf_machine eabf_machine ABFModel.mkCfg ABFModel.mkSt ABFModel.mkIn ABFModel.mkOut ABFModel.index_ok
  meta_machine MetaModel.mkCfg MetaModel.mkVar MetaModel.mkBound MetaModel.mkHill MetaModel.mkState.
