(* ADAPTER: every use that coq/C03 makes of the C05 slice's definitions is in this file (definitions) and in
   UsesC05Proofs.v (lemmas that unfold them); the other C03 files refer to the names defined here only.

   C03 -- the metadynamics object (C05 model of colvarbias_meta::update for one replica, with its model of
   write_state_data / read_state_data) as a [machine].  Writing the state is not neutral: with grids the hills
   not yet projected are projected first (m_after_save = save_state).  Definitions only. *)
From Coq Require Import ZArith List Bool.
From CV Require Import Base.Num C15.GridModel C03.ResumeModel C05.MetaModel.
Import ListNotations.
Local Open Scope Z_scope.

Section MetaObject.
  Context {T : Type} (O : NumOps T).

  (* the state file: both grids with their geometry, and the hills that are written explicitly *)
  Definition meta_saved : Type :=
    ((list Z -> T) * (list Z -> nat -> T) * list (@bound T) * list (@hill T))%type.

  Definition meta_save (c : @cfg T) (s : @state T) : meta_saved :=
    let s' := save_state O c s in (st_e s', st_g s', st_geom s', state_hills c s').

  Definition meta_load (c : @cfg T) (v : meta_saved) : @state T :=
    let e := fst (fst (fst v)) in let g := snd (fst (fst v)) in
    let geom := snd (fst v) in let hs := snd v in
    if c_use_grids c
    then mkState hs [] (filter (near_hill O c geom) hs) [] e g geom []
    else mkState [] hs [] [] e g geom [].

  Definition meta_machine : machine (@cfg T) (@state T) (list (list T)) (T * list (list T)) meta_saved :=
    mkMachine (init_state O)
              (fun c s it rel x => step O c s (mkIn it rel false x))
              meta_save (save_state O) meta_load.

  (* names used by the other C03 files: a configuration with grids, keepHills, well-tempered, newHillFrequency 2,
     gridsUpdateFrequency 1 (non-vacuity example), and the three flags *)
  Definition meta_example_cfg (one two temp : T) : @cfg T :=
    mkCfg [] [] [] one two 2 1 true true true temp one false false 0 (fun _ => one).
  Definition meta_flags (c : @cfg T) : bool * bool * bool := (c_use_grids c, c_keep c, c_wt c).
End MetaObject.
