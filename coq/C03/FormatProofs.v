(* C03 -- both state formats carry the same fields: decoding what was encoded gives the field list back, in either
   format, for every list of fields; hence an object read from a text state and the same object read from a binary
   state are the same object, and every resume theorem holds for both formats. *)
From Coq Require Import ZArith List Bool Lia Arith.
From CV Require Import Base.Num C03.ResumeModel C03.ObjectsModel C03.UsesC06 C03.FormatModel.
Import ListNotations.
Local Open Scope Z_scope.

Section FormatProofs.
  Context {T : Type}.
  Notation field := (@field T). Notation item := (@item T). Notation value := (@value T).

  Lemma take_line_vals (vs : list value) (rest : list item) :
    take_line (map IVal vs ++ INewline :: rest) = (vs, rest).
  Proof. induction vs as [|v r IH]; cbn [map app take_line]; [reflexivity|]. rewrite IH. reflexivity. Qed.

  Lemma take_n_vals (vs : list value) (rest : list item) :
    take_n (length vs) (map IVal vs ++ rest) = (vs, rest).
  Proof.
    induction vs as [|v r IH]; cbn [map app take_n length].
    - destruct rest as [|i rest]; reflexivity.
    - rewrite IH. reflexivity.
  Qed.

  Lemma text_roundtrip (fs : list field) : forall fuel, (length fs <= fuel)%nat ->
    text_decode fuel (text_encode fs) = fs.
  Proof.
    induction fs as [|[k vs] r IH]; intros fuel Hf.
    - destruct fuel; reflexivity.
    - destruct fuel as [|n]; [cbn in Hf; lia|].
      assert (Hn : (length r <= n)%nat) by (cbn [length] in Hf; lia).
      cbn [text_encode flat_map text_field fst snd app text_decode]. rewrite <- app_assoc. cbn [app].
      rewrite take_line_vals. cbn [fst snd]. fold (text_encode r). rewrite IH by exact Hn. reflexivity.
  Qed.

  Lemma bin_roundtrip (fs : list field) : forall fuel, (length fs <= fuel)%nat ->
    bin_decode fuel (bin_encode fs) = fs.
  Proof.
    induction fs as [|[k vs] r IH]; intros fuel Hf.
    - destruct fuel; reflexivity.
    - destruct fuel as [|n]; [cbn in Hf; lia|].
      assert (Hn : (length r <= n)%nat) by (cbn [length] in Hf; lia).
      cbn [bin_encode flat_map bin_field fst snd app bin_decode].
      rewrite take_n_vals. cbn [fst snd]. fold (bin_encode r). rewrite IH by exact Hn. reflexivity.
  Qed.

  Lemma text_length (fs : list field) : (length fs <= length (text_encode fs))%nat.
  Proof.
    unfold text_encode. induction fs as [|f r IH]; cbn [flat_map length]; [lia|].
    rewrite app_length. unfold text_field at 1. cbn [length]. lia.
  Qed.
  Lemma bin_length (fs : list field) : (length fs <= length (bin_encode fs))%nat.
  Proof.
    unfold bin_encode. induction fs as [|f r IH]; cbn [flat_map length]; [lia|].
    rewrite app_length. unfold bin_field at 1. cbn [length]. lia.
  Qed.

  Theorem decode_encode (f : format) (fs : list field) : decode f (encode f fs) = fs.
  Proof.
    destruct f; unfold decode, encode.
    - apply text_roundtrip, text_length.
    - apply bin_roundtrip, bin_length.
  Qed.

  Lemma as_nums_map (l : list T) : as_nums (map VNum l) = Some l.
  Proof. induction l as [|x r IH]; cbn [map as_nums]; [reflexivity|]. rewrite IH. reflexivity. Qed.

  Theorem r_fields_roundtrip (v : rsaved (T:=T)) : r_of_fields (r_fields v) = v.
  Proof.
    destruct v as [f st ce k fe w]. unfold r_of_fields, r_fields. cbn [sv_first sv_stage sv_centers sv_k sv_FE sv_W].
    destruct f, st, ce, k, fe, w; cbn [opt_field app lookup Nat.eqb bind as_int as_num]; rewrite ?as_nums_map; reflexivity.
  Qed.

  (* a restraint written in either format is read back as the object that [m_load (m_save ..)] builds *)
  Theorem r_read_write (O : NumOps T) (f : format) (c : r_cfg T) (s : r_state T) :
    r_read O f c (r_write O f c s) = r_load O c (r_save c s).
  Proof. unfold r_read, r_write. rewrite decode_encode, r_fields_roundtrip. reflexivity. Qed.

  Corollary r_formats_agree (O : NumOps T) (c : r_cfg T) (s : r_state T) :
    r_read O Text c (r_write O Text c s) = r_read O Binary c (r_write O Binary c s).
  Proof. rewrite !r_read_write. reflexivity. Qed.

  Theorem a_fields_roundtrip (d : T) (v : T * (T * T * bool)) : a_of_fields d (a_fields v) = v.
  Proof. destruct v as [r [[st k] dec]]. destruct dec; reflexivity. Qed.

  Theorem x_fields_roundtrip (d : T) (v : T * T * T) : x_of_fields d (x_fields v) = v.
  Proof. destruct v as [[x xr] vr]. reflexivity. Qed.

  Theorem m_fields_roundtrip (k : Z) : m_of_fields (T:=T) (m_fields k) = k.
  Proof. reflexivity. Qed.

  Lemma as_ints_map (l : list Z) : as_ints (T:=T) (map VInt l) = Some l.
  Proof. induction l as [|x r IH]; cbn [map as_ints]; [reflexivity|]. rewrite IH. reflexivity. Qed.

  Theorem grid_fields_roundtrip (k : nat) (vals : list Z) : grid_of_fields (T:=T) k (grid_field k vals) = Some vals.
  Proof. unfold grid_of_fields, grid_field. cbn [lookup bind]. rewrite Nat.eqb_refl. apply as_ints_map. Qed.

  (* every modelled object's fields survive either format *)
  Theorem objects_read_write (f : format) :
    (forall (d : T) (v : T * (T * T * bool)), a_of_fields d (decode f (encode f (a_fields v))) = v) /\
    (forall (d : T) (v : T * T * T), x_of_fields d (decode f (encode f (x_fields v))) = v) /\
    (forall k, m_of_fields (T:=T) (decode f (encode f (m_fields k))) = k) /\
    (forall k vals, grid_of_fields (T:=T) k (decode f (encode f (grid_field k vals))) = Some vals) /\
    (forall v : rsaved (T:=T), r_of_fields (decode f (encode f (r_fields v))) = v).
  Proof.
    repeat split; intros; rewrite decode_encode.
    - apply a_fields_roundtrip. - apply x_fields_roundtrip. - apply m_fields_roundtrip.
    - apply grid_fields_roundtrip. - apply r_fields_roundtrip.
  Qed.
End FormatProofs.
