(* C03 -- the restraint object (C06 model of the repaired code + what the state file persists) is resumable. *)
From Coq Require Import ZArith List Bool Lia.
From CV Require Import Base.Num C03.ResumeModel C03.ResumeProofs C06.RestraintModel C06.RestraintSched C03.ObjectsModel C03.UsesC06.
Import ListNotations.
Local Open Scope Z_scope.

Section RestraintResume.
  Context {T : Type} (O : NumOps T).
  Notation rcfg := (@rcfg T). Notation rstate := (@rstate T). Notation rout := (@rout T).

  (* the combination that restraint_moving::init() rejects
     ("outputAccumulatedWork and targetNumStages are incompatible") *)
  Definition r_ok (c : rcfg) : Prop :=
    c_chg_centers c && c_acc_work c && negb (c_nstages c =? 0) = false.

  (* fields that are not persisted have their initial value whenever the flags say they are not written *)
  Definition r_inv (c : rcfg) (s : rstate) : Prop :=
    (c_chg_centers c = false -> s_centers s = c_centers0 c) /\
    (c_chg_k c = false -> s_k s = c_k0 c) /\
    (r_moving c && r_staged c = false -> s_stage s = 0) /\
    (r_moving c && c_acc_work c = false -> s_W s = n0 O) /\
    (c_chg_k c && r_staged c = false -> s_FE s = n0 O) /\
    (c_chg_k c && negb (r_staged c) = false -> s_kincr s = n0 O).

  (* indistinguishable from now on: everything but the increments that the next update recomputes before
     it reads them (centers_incr; force_k_incr of a continuously changing force constant), and first_step
     of a restraint that does not move (never read) *)
  Definition r_eqv (c : rcfg) (s s' : rstate) : Prop :=
    s_centers s = s_centers s' /\ s_k s = s_k s' /\ s_stage s = s_stage s' /\
    s_W s = s_W s' /\ s_FE s = s_FE s' /\
    (r_moving c = true -> s_first s = s_first s') /\
    (c_chg_k c && negb (r_staged c) = false -> s_kincr s = s_kincr s').

  Definition r_out_eq0 (o o' : rout) : Prop := o_energy o = o_energy o' /\ o_forces o = o_forces o'.
  Definition r_out_eq (o o' : rout) : Prop := o = o'.

  Lemma r_load_save_restore c s : r_load O c (r_save c s) = restore O c s.
  Proof.
    unfold r_load, r_save, restore, r_moving, r_staged, opt. cbn [sv_first sv_stage sv_centers sv_k sv_FE sv_W].
    destruct (c_chg_centers c), (c_chg_k c), (negb (c_nstages c =? 0)), (c_acc_work c); reflexivity.
  Qed.

  Lemma pos_flags rel : 0 < rel -> (0 <? rel) = true /\ (rel =? 0) = false.
  Proof. intros H. split. apply Z.ltb_lt; lia. apply Z.eqb_neq; lia. Qed.

  Ltac prj := cbn [s_centers s_k s_stage s_W s_FE s_kincr s_incr s_first fst snd] in *.

  (* ---- what each part of the update reads ---- *)
  Lemma terms_ext (c : rcfg) (s s' : rstate) xs :
    s_k s = s_k s' -> s_centers s = s_centers s' -> terms O c s xs = terms O c s' xs.
  Proof. intros Hk Hc. unfold terms. rewrite Hk, Hc. reflexivity. Qed.

  Lemma dUdk_ext (c : rcfg) (s s' : rstate) xs :
    s_k s = s_k s' -> s_centers s = s_centers s' -> dUdk_sum O c s xs = dUdk_sum O c s' xs.
  Proof. intros Hk Hc. unfold dUdk_sum. rewrite (terms_ext c s s' xs Hk Hc). reflexivity. Qed.

  (* dU/dk as a function of the two fields it reads *)
  Definition dU (c : rcfg) (k : T) (ce : list T) (xs : list T) : T :=
    dUdk_sum O c (mkSt ce [] k (n0 O) 0 0 (n0 O) (n0 O)) xs.
  Lemma dUdk_norm (c : rcfg) (s : rstate) xs : dUdk_sum O c s xs = dU c (s_k s) (s_centers s) xs.
  Proof. unfold dU. apply dUdk_ext; reflexivity. Qed.

  (* the relation between the two runs in the middle of an update: r_eqv, and the centre increments agree
     whenever update_acc_work is going to read them at this step *)
  Definition guard (c : rcfg) (s : rstate) (t : Z) : bool :=
    c_chg_centers c && c_acc_work c && (t - s_first s <=? c_nsteps c).
  Definition mid (c : rcfg) (t : Z) (s s' : rstate) : Prop :=
    r_eqv c s s' /\ (guard c s t = true -> s_incr s = s_incr s').

  Lemma centers_update_congr c s s' t rel rel' : r_ok c -> r_eqv c s s' -> 0 < rel -> 0 < rel' ->
    mid c t (centers_update O c s t rel false) (centers_update O c s' t rel' false).
  Proof.
    intros Hc He Hr Hr'. destruct (pos_flags rel Hr) as [P1 P2]. destruct (pos_flags rel' Hr') as [Q1 Q2].
    unfold mid, guard, r_eqv, r_ok, r_moving, r_staged in *.
    unfold centers_update, first_time. rewrite P1, P2, Q1, Q2.
    destruct He as (E1 & E2 & E3 & E4 & E5 & E6 & E7).
    destruct (c_chg_centers c) eqn:Ecc; cbn [andb orb negb] in *.
    2:{ split. repeat split; auto. intros; discriminate. }
    specialize (E6 eq_refl).
    destruct (c_nstages c =? 0) eqn:Ens; cbn [negb andb] in *.
    - (* continuous *)
      rewrite <- E6.
      destruct (t - s_first s <=? c_nsteps c) eqn:Et.
      + unfold update_centers. prj. rewrite <- E1. split; [repeat split; auto|]. intros _. reflexivity.
      + unfold set_incr. prj. split; [repeat split; auto|]. rewrite Et, andb_false_r. intros; discriminate.
    - (* staged: accumulated work is off *)
      rewrite andb_true_r in Hc. rewrite Hc. cbn [andb]. split; [|intros; discriminate].
      rewrite <- E3, <- E6.
      destruct (s_stage s <=? c_nstages c); [|repeat split; auto].
      destruct ((s_first s <? t) && (Z.rem (t - s_first s - 1) (c_nsteps c) =? 0)).
      + unfold set_stage, update_centers. prj. repeat split; auto.
      + unfold set_incr. prj. repeat split; auto.
  Qed.

  Ltac ifs :=
    repeat (match goal with
            | |- context [if ?b then _ else _] =>
                lazymatch b with
                | context [if _ then _ else _] => fail
                | _ => destruct b eqn:?
                end
            end; cbn [s_centers s_k s_stage s_W s_FE s_kincr s_incr s_first fst snd]).

  Lemma k_update_congr c s s' t rel rel' xs : mid c t s s' -> 0 < rel -> 0 < rel' ->
    let r := k_update O c s t rel false xs in
    let r' := k_update O c s' t rel' false xs in
    mid c t (fst r) (fst r') /\ s_kincr (fst r) = s_kincr (fst r') /\ snd r = snd r'.
  Proof.
    intros [He Hg] Hr Hr'. destruct (pos_flags rel Hr) as [P1 P2]. destruct (pos_flags rel' Hr') as [Q1 Q2].
    cbn zeta. unfold mid, guard, r_eqv, r_moving, r_staged in *. unfold k_update, first_time. rewrite P1, Q1.
    destruct s as [ce inc k ki st f W FE]. destruct s' as [ce' inc' k' ki' st' f' W' FE']. prj.
    destruct He as (E1 & E2 & E3 & E4 & E5 & E6 & E7). subst ce' k' st' W' FE'.
    destruct (c_chg_k c) eqn:Eck; cbn [andb orb negb] in *.
    2:{ prj. specialize (E7 eq_refl). repeat split; auto. }
    rewrite orb_true_r in E6. specialize (E6 eq_refl). subst f'.
    destruct (c_nstages c =? 0) eqn:Ens; cbn [negb andb] in *.
    - (* continuous *)
      destruct (t - f <=? c_nsteps c) eqn:Et; unfold set_k; prj; rewrite ?Et;
        (split; [split; [repeat split; auto; intros; discriminate | exact Hg] | split; reflexivity]).
    - (* staged *)
      specialize (E7 eq_refl). subst ki'.
      unfold set_k. rewrite !dUdk_norm. prj.
      ifs; prj; (split; [split; [repeat split; auto | exact Hg] | split; reflexivity]).
  Qed.

  Lemma r_congr_l c s s' it rel rel' xs : r_ok c -> r_eqv c s s' -> 0 < rel -> 0 < rel' ->
    r_eqv c (fst (rstep O c s it rel false xs)) (fst (rstep O c s' it rel' false xs)) /\
    r_out_eq (snd (rstep O c s it rel false xs)) (snd (rstep O c s' it rel' false xs)).
  Proof.
    intros Hc He Hr Hr'. destruct (pos_flags rel Hr) as [P1 P2]. destruct (pos_flags rel' Hr') as [Q1 Q2].
    pose proof (centers_update_congr c s s' it rel rel' Hc He Hr Hr') as H1.
    pose proof (k_update_congr c _ _ it rel rel' xs H1 Hr Hr') as H2. cbn zeta in H2.
    unfold rstep, r_out_eq.
    destruct (k_update O c (centers_update O c s it rel false) it rel false xs) as [s2 line].
    destruct (k_update O c (centers_update O c s' it rel' false) it rel' false xs) as [s2' line'].
    cbn [fst snd] in *. destruct H2 as ([He2 Hg2] & Hki & Hl). subst line'.
    unfold r_eqv, guard, r_moving, r_staged in *.
    destruct s2 as [ce inc k ki st f W FE]. destruct s2' as [ce' inc' k' ki' st' f' W' FE']. prj.
    destruct He2 as (E1 & E2 & E3 & E4 & E5 & E6 & E7). subst ce' k' st' W' FE' ki'.
    rewrite (terms_ext c (mkSt ce inc' k ki st f' W FE) (mkSt ce inc k ki st f W FE) xs eq_refl eq_refl).
    split; [|reflexivity].
    unfold work_k, work_centers. rewrite P1, Q1. rewrite !dUdk_norm. unfold set_W. prj.
    destruct (c_chg_centers c) eqn:Ecc; cbn [andb orb] in *.
    - specialize (E6 eq_refl). subst f'.
      destruct (c_acc_work c) eqn:Eaw; cbn [andb] in *.
      + destruct (it - f <=? c_nsteps c) eqn:Et; cbn [andb] in *.
        * specialize (Hg2 eq_refl). subst inc'.
          destruct (c_chg_k c); cbn [andb]; prj; repeat split; auto.
        * destruct (c_chg_k c); cbn [andb]; prj; repeat split; auto.
      + destruct (c_chg_k c); cbn [andb]; prj; repeat split; auto.
    - destruct (c_chg_k c) eqn:Eck; cbn [andb orb] in *.
      + specialize (E6 eq_refl). subst f'.
        destruct (c_acc_work c) eqn:Eaw; cbn [andb] in *; prj; repeat split; auto.
      + prj. repeat split; auto.
  Qed.

End RestraintResume.
