(* C03 -- the two state formats.  A saved object is a list of fields (keyword, values).  The formatted (text)
   state writes `keyword v1 v2 ... <newline>`; the unformatted (binary) state writes the keyword, the number of
   values and the values (colvarbias::write_state_data_key / memory_stream: length-prefixed).  Both are read back
   by looking the keywords up.  Definitions only. *)
From Coq Require Import ZArith List Bool.
From CV Require Import Base.Num C03.ResumeModel C03.ObjectsModel C03.UsesC06.
Import ListNotations.
Local Open Scope Z_scope.

Section Format.
  Context {T : Type}.

  Inductive value := VInt (z : Z) | VNum (x : T).
  Definition field : Type := (nat * list value)%type.          (* keyword id, values *)

  Inductive item := IKey (k : nat) | IVal (v : value) | INewline | ILen (n : nat).

  (* ---- text ---- *)
  Definition text_field (f : field) : list item := IKey (fst f) :: map IVal (snd f) ++ [INewline].
  Definition text_encode (fs : list field) : list item := flat_map text_field fs.

  (* values up to the end of the line; the rest *)
  Fixpoint take_line (l : list item) : list value * list item :=
    match l with
    | IVal v :: r => let p := take_line r in (v :: fst p, snd p)
    | INewline :: r => ([], r)
    | _ => ([], l)
    end.
  Fixpoint text_decode (fuel : nat) (l : list item) : list field :=
    match fuel with
    | O => []
    | S n => match l with
             | IKey k :: r => let p := take_line r in (k, fst p) :: text_decode n (snd p)
             | _ => []
             end
    end.

  (* ---- binary ---- *)
  Definition bin_field (f : field) : list item := IKey (fst f) :: ILen (length (snd f)) :: map IVal (snd f).
  Definition bin_encode (fs : list field) : list item := flat_map bin_field fs.

  Fixpoint take_n (n : nat) (l : list item) : list value * list item :=
    match n, l with
    | S m, IVal v :: r => let p := take_n m r in (v :: fst p, snd p)
    | _, _ => ([], l)
    end.
  Fixpoint bin_decode (fuel : nat) (l : list item) : list field :=
    match fuel with
    | O => []
    | S n => match l with
             | IKey k :: ILen len :: r => let p := take_n len r in (k, fst p) :: bin_decode n (snd p)
             | _ => []
             end
    end.

  Inductive format := Text | Binary.
  Definition encode (f : format) (fs : list field) : list item :=
    match f with Text => text_encode fs | Binary => bin_encode fs end.
  Definition decode (f : format) (l : list item) : list field :=
    match f with Text => text_decode (length l) l | Binary => bin_decode (length l) l end.

  (* first field with keyword k *)
  Fixpoint lookup (k : nat) (fs : list field) : option (list value) :=
    match fs with
    | [] => None
    | (k', vs) :: r => if Nat.eqb k k' then Some vs else lookup k r
    end.

  (* ---- the restraint's fields: firstStep, stage, centers, forceConstant, restraintFE, accumulatedWork ---- *)
  Definition opt_field {A} (k : nat) (enc : A -> list value) (o : option A) : list field :=
    match o with Some a => [(k, enc a)] | None => [] end.
  Definition r_fields (v : rsaved (T:=T)) : list field :=
    opt_field 0 (fun z => [VInt z]) (sv_first v) ++ opt_field 1 (fun z => [VInt z]) (sv_stage v) ++
    opt_field 2 (map VNum) (sv_centers v) ++ opt_field 3 (fun x => [VNum x]) (sv_k v) ++
    opt_field 4 (fun x => [VNum x]) (sv_FE v) ++ opt_field 5 (fun x => [VNum x]) (sv_W v).

  Definition as_int (vs : list value) : option Z := match vs with [VInt z] => Some z | _ => None end.
  Definition as_num (vs : list value) : option T := match vs with [VNum x] => Some x | _ => None end.
  Fixpoint as_nums (vs : list value) : option (list T) :=
    match vs with
    | [] => Some []
    | VNum x :: r => match as_nums r with Some l => Some (x :: l) | None => None end
    | _ => None
    end.
  Definition bind {A B} (o : option A) (f : A -> option B) : option B := match o with Some a => f a | None => None end.
  Definition r_of_fields (fs : list field) : rsaved (T:=T) :=
    mkRSaved (bind (lookup 0 fs) as_int) (bind (lookup 1 fs) as_int) (bind (lookup 2 fs) as_nums)
             (bind (lookup 3 fs) as_num) (bind (lookup 4 fs) as_num) (bind (lookup 5 fs) as_num).

  (* writing and reading a restraint in a given format *)
  Definition r_write (O : NumOps T) (f : format) (c : r_cfg T) (s : r_state T) : list item :=
    encode f (r_fields (r_save c s)).
  Definition r_read (O : NumOps T) (f : format) (c : r_cfg T) (file : list item) : r_state T :=
    r_load O c (r_of_fields (decode f file)).

  (* ---- ABMD: refValue, stoppingValue, forceConstant, decreasing ---- *)
  Definition a_fields (v : T * (T * T * bool)) : list field :=
    [(0%nat, [VNum (fst v)]); (1%nat, [VNum (fst (fst (snd v)))]); (2%nat, [VNum (snd (fst (snd v)))]);
     (3%nat, [VInt (if snd (snd v) then 1 else 0)])].
  Definition a_of_fields (d : T) (fs : list field) : T * (T * T * bool) :=
    (opt (bind (lookup 0 fs) as_num) d,
     (opt (bind (lookup 1 fs) as_num) d, opt (bind (lookup 2 fs) as_num) d,
      match bind (lookup 3 fs) as_int with Some z => negb (z =? 0) | None => false end)).

  (* ---- a variable with an extended coordinate: x, extended_x, extended_v ---- *)
  Definition x_fields (v : T * T * T) : list field :=
    [(0%nat, [VNum (fst (fst v))]); (1%nat, [VNum (snd (fst v))]); (2%nat, [VNum (snd v)])].
  Definition x_of_fields (d : T) (fs : list field) : T * T * T :=
    (opt (bind (lookup 0 fs) as_num) d, opt (bind (lookup 1 fs) as_num) d, opt (bind (lookup 2 fs) as_num) d).

  (* ---- the module's `configuration` block: step ---- *)
  Definition m_fields (k : Z) : list field := [(0%nat, [VInt k])].
  Definition m_of_fields (fs : list field) : Z := opt (bind (lookup 0 fs) as_int) 0.

  (* ---- a grid written as the list of its values in the order of colvar_grid::incr (histogram; ABF samples):
     the payload of one keyword; what is read back is the list ---- *)
  Definition grid_field (k : nat) (vals : list Z) : list field := [(k, map VInt vals)].
  Fixpoint as_ints (vs : list value) : option (list Z) :=
    match vs with
    | [] => Some []
    | VInt z :: r => match as_ints r with Some l => Some (z :: l) | None => None end
    | _ => None
    end.
  Definition grid_of_fields (k : nat) (fs : list field) : option (list Z) := bind (lookup k fs) as_ints.
End Format.
