(* C03 -- generic resume theorem: an object that satisfies the four local obligations of
   [resumable] (re-executing the step at which the state was written, from the loaded state and with
   step_relative = 0, reaches a state equivalent to the one the running object is in, with the same
   observable output; equivalent states stay equivalent and produce the same output at every later
   step, whatever the two positive relative step numbers are; equivalent states write the same state
   file; writing a just-loaded state reproduces it) resumes like the run that went on, for every
   history and every stop step.  The obligations are closed under the combinators of ResumeModel. *)
From Coq Require Import ZArith List Bool Lia.
From CV Require Import C03.ResumeModel.
Import ListNotations.
Local Open Scope Z_scope.

Section Generic.
  Context {Cfg St In Out Saved : Type} (M : machine Cfg St In Out Saved).
  Variable Ok : Cfg -> Prop.                 (* configurations the object accepts (init() succeeds) *)
  Variable Inv : Cfg -> St -> Prop.          (* holds of every state a run reaches *)
  Variable Eqv : Cfg -> St -> St -> Prop.    (* "indistinguishable from now on" *)
  Variable OutEq0 : Out -> Out -> Prop.      (* what must agree at the re-executed step *)
  Variable OutEq : Out -> Out -> Prop.       (* what must agree at every later step *)
  Variable SavedEq : Saved -> Saved -> Prop. (* "the same state file" (equality, or pointwise equality of grids) *)

  Record resumable : Prop := mkResumable {
    r_inv_init : forall c, Ok c -> Inv c (m_init M c);
    r_inv_step : forall c s it rel i, Ok c -> Inv c s -> 0 <= rel -> Inv c (fst (m_step M c s it rel i));
    r_reexec : forall c s it rel i, Ok c -> Inv c s -> 0 <= rel ->
      let so := m_step M c s it rel i in
      let so' := m_step M c (m_load M c (m_save M c (fst so))) it 0 i in
      Eqv c (m_after_save M c (fst so)) (fst so') /\ OutEq0 (snd so) (snd so');
    r_congr : forall c s s' it rel rel' i, Ok c -> Eqv c s s' -> 0 < rel -> 0 < rel' ->
      Eqv c (fst (m_step M c s it rel i)) (fst (m_step M c s' it rel' i)) /\
      OutEq (snd (m_step M c s it rel i)) (snd (m_step M c s' it rel' i));
    rs_save : forall c s s', Ok c -> Eqv c s s' -> SavedEq (m_save M c s) (m_save M c s');
    rs_save_load : forall c s, Ok c -> Inv c s -> SavedEq (m_save M c (m_load M c (m_save M c s))) (m_save M c s)
  }.

  Definition step_out_eq (R : Out -> Out -> Prop) (a b : Z * Out) : Prop := fst a = fst b /\ R (snd a) (snd b).
  Definition outs_eq (l1 l2 : list (Z * Out)) : Prop := Forall2 (step_out_eq OutEq) l1 l2.

  Lemma run_from_app c h1 : forall m s h2,
    run_from M c m s (h1 ++ h2) =
    let r1 := run_from M c m s h1 in
    let r2 := run_from M c (fst (fst r1)) (snd (fst r1)) h2 in
    (fst (fst r2), snd (fst r2), snd r1 ++ snd r2).
  Proof.
    induction h1 as [|i r IH]; intros m s h2.
    - cbn [app run_from fst snd]. destruct (run_from M c m s h2) as [[m2 s2] o2]. reflexivity.
    - cbn [app run_from]. rewrite IH. cbn [fst snd app]. reflexivity.
  Qed.

  (* counters *)
  Definition mod_ok (m : modst) : Prop := md_started m = true /\ 0 <= mod_rel m.
  Lemma mod_tick_started m : md_started (mod_tick m) = true.
  Proof. unfold mod_tick. destruct (md_started m); reflexivity. Qed.
  Lemma mod_tick_ok m : mod_ok m -> mod_ok (mod_tick m) /\ md_it (mod_tick m) = md_it m + 1 /\ 0 < mod_rel (mod_tick m).
  Proof.
    intros [Hs Hr]. unfold mod_tick, mod_ok, mod_rel in *. rewrite Hs. cbn [md_it md_itr md_started]. lia.
  Qed.
  Lemma mod_tick_fresh k : mod_ok (mod_tick (mod_load k)) /\ md_it (mod_tick (mod_load k)) = k /\ mod_rel (mod_tick (mod_load k)) = 0.
  Proof. unfold mod_tick, mod_load, mod_ok, mod_rel. cbn [md_it md_itr md_started]. lia. Qed.
  Lemma mod_tick_rel_nonneg m : 0 <= mod_rel m -> 0 <= mod_rel (mod_tick m).
  Proof. unfold mod_tick, mod_rel. destruct (md_started m); cbn [md_it md_itr]; lia. Qed.

  Lemma run_from_inv c (Hc : Ok c) h : forall m s, Inv c s -> 0 <= mod_rel m -> resumable ->
    Inv c (snd (fst (run_from M c m s h))) /\ 0 <= mod_rel (fst (fst (run_from M c m s h))).
  Proof.
    induction h as [|i r IH]; intros m s Hs Hm HR.
    - cbn [run_from fst snd]. auto.
    - cbn [run_from fst snd]. apply IH; auto.
      + apply (r_inv_step HR); auto. apply mod_tick_rel_nonneg; auto.
      + apply mod_tick_rel_nonneg; auto.
  Qed.

  (* equivalent states, both past the first step of their run: same outputs from then on *)
  Lemma bisim_tail (HR : resumable) c (Hc : Ok c) h : forall m m' s s',
    Eqv c s s' -> mod_ok m -> mod_ok m' -> md_it m = md_it m' ->
    let rA := run_from M c m s h in
    let rB := run_from M c m' s' h in
    outs_eq (snd rA) (snd rB) /\ Eqv c (snd (fst rA)) (snd (fst rB)) /\
    md_it (fst (fst rA)) = md_it (fst (fst rB)).
  Proof.
    induction h as [|i r IH]; intros m m' s s' He Hm Hm' Hit.
    - cbn [run_from fst snd]. repeat split; auto. constructor.
    - cbn [run_from fst snd].
      destruct (mod_tick_ok _ Hm) as (Hk & Hi & Hr). destruct (mod_tick_ok _ Hm') as (Hk' & Hi' & Hr').
      assert (Heq : md_it (mod_tick m') = md_it (mod_tick m)) by lia.
      rewrite Heq.
      destruct (r_congr HR c s s' (md_it (mod_tick m)) (mod_rel (mod_tick m)) (mod_rel (mod_tick m')) i Hc He Hr Hr') as [He2 Ho].
      specialize (IH (mod_tick m) (mod_tick m') _ _ He2 Hk Hk' (eq_sym Heq)).
      cbn zeta in IH. destruct IH as (IH1 & IH2 & IH3).
      repeat split; auto.
      constructor; auto. split; auto.
  Qed.

  (* The resumed run against the run that went on.
     h1: the steps before the stop step; i: the input of the stop step; h2: the steps after it. *)
  Theorem resume_vs_go_on (HR : resumable) c (Hc : Ok c) it0 h1 i h2 :
    let P := run M c it0 (h1 ++ [i]) in                        (* the run up to and including the stop step *)
    let A := go_on M c (fst P) h2 in                           (* it writes its state and goes on *)
    let B := resume M c (state_file M c (fst P)) (i :: h2) in  (* fresh instance, load, re-execute, go on *)
    exists oP o0 oB,
      snd P = oP ++ [o0] /\
      snd B = (fst o0, snd (hd o0 (snd B))) :: oB /\
      OutEq0 (snd o0) (snd (hd o0 (snd B))) /\
      outs_eq (snd A) oB /\
      md_it (fst (fst A)) = md_it (fst (fst B)) /\
      SavedEq (m_save M c (snd (fst A))) (m_save M c (snd (fst B))).
  Proof.
    intros P A B. subst P A B. unfold run, go_on, resume, state_file.
    rewrite run_from_app. cbn zeta.
    set (r0 := run_from M c (mod_init it0) (m_init M c) h1).
    cbn [run_from fst snd app].
    set (m0 := fst (fst r0)). set (s0 := snd (fst r0)).
    assert (Hinv0 : Inv c s0 /\ 0 <= mod_rel m0).
    { subst m0 s0 r0. apply run_from_inv; auto. apply (r_inv_init HR); auto. unfold mod_rel, mod_init; cbn; lia. }
    destruct Hinv0 as [Hs0 Hm0].
    set (m1 := mod_tick m0).
    assert (Hm1 : mod_ok m1).
    { split. apply mod_tick_started. apply mod_tick_rel_nonneg; auto. }
    unfold mod_save.
    destruct (mod_tick_fresh (md_it m1)) as (Hf1 & Hf2 & Hf3).
    rewrite Hf2, Hf3.
    destruct (r_reexec HR c s0 (md_it m1) (mod_rel m1) i Hc Hs0 (proj2 Hm1)) as [He Ho]. cbn zeta in He, Ho.
    set (so := m_step M c s0 (md_it m1) (mod_rel m1) i) in *.
    set (so' := m_step M c (m_load M c (m_save M c (fst so))) (md_it m1) 0 i) in *.
    destruct (bisim_tail HR c Hc h2 m1 (mod_tick (mod_load (md_it m1))) _ _ He Hm1 Hf1 (eq_sym Hf2)) as (H1 & H2 & H3).
    exists (snd r0), (md_it m1, snd so), (snd (run_from M c (mod_tick (mod_load (md_it m1))) (fst so') h2)).
    cbn [fst snd hd]. repeat split; auto.
    apply (rs_save HR); auto.
  Qed.

  (* saving immediately after loading reproduces the state that was loaded (as data) *)
  Theorem save_after_load (HR : resumable) c (Hc : Ok c) it0 h :
    let P := run M c it0 h in
    let f := state_file M c (fst P) in
    let f' := state_file M c (mod_load (fst f), m_load M c (snd f)) in
    fst f' = fst f /\ SavedEq (snd f') (snd f).
  Proof.
    intros P f f'. subst f f'. unfold state_file, mod_save, mod_load. cbn [fst snd md_it].
    split; [reflexivity|]. apply (rs_save_load HR); [exact Hc|].
    subst P. unfold run. apply run_from_inv; auto. apply (r_inv_init HR); auto. unfold mod_rel, mod_init; cbn; lia.
  Qed.

  (* when writing the state leaves the object unchanged, the run that went on IS the uninterrupted run *)
  Theorem go_on_is_uninterrupted c it0 h1 i h2 :
    (forall c s, m_after_save M c s = s) ->
    let P := run M c it0 (h1 ++ [i]) in
    let A := go_on M c (fst P) h2 in
    let U := run M c it0 ((h1 ++ [i]) ++ h2) in
    fst U = fst A /\ snd U = snd P ++ snd A.
  Proof.
    intros Hid P A U. subst P A U. unfold run, go_on. rewrite (run_from_app c (h1 ++ [i])). cbn zeta.
    rewrite Hid. cbn [fst snd].
    destruct (run_from M c (fst (fst (run_from M c (mod_init it0) (m_init M c) (h1 ++ [i]))))
                (snd (fst (run_from M c (mod_init it0) (m_init M c) (h1 ++ [i])))) h2) as [[m2 s2] o2].
    cbn [fst snd]. auto.
  Qed.
  (* ---- when writing the state changes the object only up to Eqv, the run that went on is, observationally,
     the uninterrupted run ---- *)
  Lemma run_from_started c h : forall m s, (h <> [] \/ md_started m = true) ->
    md_started (fst (fst (run_from M c m s h))) = true.
  Proof.
    induction h as [|i r IH]; intros m s H.
    - cbn [run_from fst]. destruct H as [H|H]; [congruence | exact H].
    - cbn [run_from fst snd]. apply IH. right. apply mod_tick_started.
  Qed.

  Lemma outs_eq_trans : (forall a b c, OutEq a b -> OutEq b c -> OutEq a c) ->
    forall l1 l2 l3, outs_eq l1 l2 -> outs_eq l2 l3 -> outs_eq l1 l3.
  Proof.
    intros Ht l1 l2 l3 H12. revert l3. induction H12 as [|a b r1 r2 [Ha1 Ha2] H12 IH]; intros l3 H23.
    - inversion H23. constructor.
    - inversion H23 as [|b' c r2' r3 [Hb1 Hb2] H23' E1 E2]. subst. constructor.
      + split; [congruence | eapply Ht; eauto].
      + apply IH; auto.
  Qed.

  Theorem resume_vs_uninterrupted_neutral (HR : resumable)
    (Hneutral : forall c s, Ok c -> Inv c s -> Eqv c s (m_after_save M c s))
    (HtO : forall a b c, OutEq a b -> OutEq b c -> OutEq a c)
    (HtS : forall a b c, SavedEq a b -> SavedEq b c -> SavedEq a c)
    c (Hc : Ok c) it0 h1 i h2 :
    let U := run M c it0 (h1 ++ i :: h2) in
    let P := run M c it0 (h1 ++ [i]) in
    let B := resume M c (state_file M c (fst P)) (i :: h2) in
    exists oP o0 oU oB,
      snd U = oP ++ o0 :: oU /\
      snd B = (fst o0, snd (hd o0 (snd B))) :: oB /\
      OutEq0 (snd o0) (snd (hd o0 (snd B))) /\
      outs_eq oU oB /\
      md_it (fst (fst U)) = md_it (fst (fst B)) /\
      SavedEq (m_save M c (snd (fst U))) (m_save M c (snd (fst B))).
  Proof.
    intros U P B.
    destruct (resume_vs_go_on HR c Hc it0 h1 i h2) as (oP & o0 & oB & H1 & H2 & H3 & H4 & H5 & H6).
    cbn zeta in H1, H2, H3, H4, H5, H6. fold P in H1, H2, H3, H4, H5, H6. fold B in H2, H3, H5, H6.
    set (m1 := fst (fst P)) in *. set (s1 := snd (fst P)) in *.
    assert (HP : Inv c s1 /\ 0 <= mod_rel m1).
    { subst m1 s1 P. unfold run. apply run_from_inv; auto. apply (r_inv_init HR); auto. unfold mod_rel, mod_init; cbn; lia. }
    assert (Hst : md_started m1 = true).
    { subst m1 P. unfold run. apply run_from_started. left. destruct h1; discriminate. }
    assert (Hok : mod_ok m1) by (split; [exact Hst | exact (proj2 HP)]).
    destruct (bisim_tail HR c Hc h2 m1 m1 s1 (m_after_save M c s1) (Hneutral c s1 Hc (proj1 HP)) Hok Hok eq_refl)
      as (T1 & T2 & T3). cbn zeta in T1, T2, T3.
    assert (HU : U = (fst (fst (run_from M c m1 s1 h2)), snd (fst (run_from M c m1 s1 h2)),
                      snd P ++ snd (run_from M c m1 s1 h2))).
    { subst U. replace (h1 ++ i :: h2) with ((h1 ++ [i]) ++ h2) by (rewrite <- app_assoc; reflexivity).
      unfold run. rewrite run_from_app. cbn zeta. reflexivity. }
    exists oP, o0, (snd (run_from M c m1 s1 h2)), oB.
    rewrite HU. cbn [fst snd]. rewrite H1, <- app_assoc. cbn [app].
    unfold go_on in H4, H5, H6. fold m1 s1 in H4, H5, H6.
    repeat split; auto.
    - eapply outs_eq_trans; eauto.
    - congruence.
    - eapply HtS; [apply (rs_save HR c _ _ Hc T2) | exact H6].
  Qed.
End Generic.

(* ---- the statements, as predicates of an object ---- *)
Section Statements.
  Context {Cfg St In Out Saved : Type} (M : machine Cfg St In Out Saved).
  Variable Ok : Cfg -> Prop.
  Variable OutEq0 OutEq : Out -> Out -> Prop.
  Variable SavedEq : Saved -> Saved -> Prop.

  (* For every accepted configuration, first step number, history h1 ++ i :: h2 and hence every stop step
     (the one with input i): the fresh instance that loads the state written after that step re-executes it with
     the same observable output (OutEq0), then produces at every later step the output (OutEq) of the run that
     wrote the state and went on, ends at the same step number and writes the same final state. *)
  Definition resumes_like_go_on : Prop :=
    forall c, Ok c -> forall it0 h1 i h2,
    let P := run M c it0 (h1 ++ [i]) in
    let A := go_on M c (fst P) h2 in
    let B := resume M c (state_file M c (fst P)) (i :: h2) in
    exists oP o0 oB,
      snd P = oP ++ [o0] /\
      snd B = (fst o0, snd (hd o0 (snd B))) :: oB /\
      OutEq0 (snd o0) (snd (hd o0 (snd B))) /\
      outs_eq OutEq (snd A) oB /\
      md_it (fst (fst A)) = md_it (fst (fst B)) /\
      SavedEq (m_save M c (snd (fst A))) (m_save M c (snd (fst B))).

  (* the same against the uninterrupted run U (no state written before the end) *)
  Definition resumes_like_uninterrupted : Prop :=
    forall c, Ok c -> forall it0 h1 i h2,
    let U := run M c it0 (h1 ++ i :: h2) in
    let P := run M c it0 (h1 ++ [i]) in
    let B := resume M c (state_file M c (fst P)) (i :: h2) in
    exists oP o0 oU oB,
      snd U = oP ++ o0 :: oU /\
      snd B = (fst o0, snd (hd o0 (snd B))) :: oB /\
      OutEq0 (snd o0) (snd (hd o0 (snd B))) /\
      outs_eq OutEq oU oB /\
      md_it (fst (fst U)) = md_it (fst (fst B)) /\
      SavedEq (m_save M c (snd (fst U))) (m_save M c (snd (fst B))).

  (* writing the state immediately after loading one reproduces it *)
  Definition saves_what_it_loaded : Prop :=
    forall c, Ok c -> forall it0 h,
    let f := state_file M c (fst (run M c it0 h)) in
    let f' := state_file M c (mod_load (fst f), m_load M c (snd f)) in
    fst f' = fst f /\ SavedEq (snd f') (snd f).

  Lemma resumes_uninterrupted_of_go_on :
    (forall c s, m_after_save M c s = s) -> resumes_like_go_on -> resumes_like_uninterrupted.
  Proof.
    intros Hid H c Hc it0 h1 i h2. cbn zeta.
    destruct (H c Hc it0 h1 i h2) as (oP & o0 & oB & H1 & H2 & H3 & H4 & H5 & H6). cbn zeta in *.
    destruct (go_on_is_uninterrupted M c it0 h1 i h2 Hid) as [G1 G2]. cbn zeta in G1, G2.
    replace (h1 ++ i :: h2) with ((h1 ++ [i]) ++ h2) by (rewrite <- app_assoc; reflexivity).
    exists oP, o0, (snd (go_on M c (fst (run M c it0 (h1 ++ [i]))) h2)), oB.
    rewrite G2, H1, <- app_assoc. cbn [app]. rewrite G1. repeat split; auto.
  Qed.
End Statements.

(* ---- chains of resumed runs ----
   A job is stopped and resumed any number of times: the first run executes h0 ++ [i0] and writes its state; every
   later job is a fresh instance that loads the file of its predecessor, executes the predecessor's last step again,
   then its own segment h ++ [i'], and writes its state.  When "the same state file" is equality, the file written
   by the last job is the file the uninterrupted run writes at that step. *)
Section Chains.
  Context {Cfg St In Out Saved : Type} (M : machine Cfg St In Out Saved).
  Variable Ok : Cfg -> Prop.
  Variable OutEq0 OutEq : Out -> Out -> Prop.

  Fixpoint chain_file (c : Cfg) (f : Z * Saved) (i : In) (segs : list (list In * In)) : Z * Saved :=
    match segs with
    | [] => f
    | (h, i') :: r => chain_file c (state_file M c (fst (resume M c f (i :: h ++ [i'])))) i' r
    end.

  Fixpoint chain_history (segs : list (list In * In)) : list In :=
    match segs with
    | [] => []
    | (h, i') :: r => h ++ i' :: chain_history r
    end.

  Definition resumes_repeatedly : Prop :=
    forall c, Ok c -> forall it0 h0 i0 segs,
      chain_file c (state_file M c (fst (run M c it0 (h0 ++ [i0])))) i0 segs =
      state_file M c (fst (run M c it0 (h0 ++ i0 :: chain_history segs))).

  Lemma resumes_file_eq : resumes_like_uninterrupted M Ok OutEq0 OutEq eq ->
    forall c, Ok c -> forall it0 h1 i h2,
      state_file M c (fst (resume M c (state_file M c (fst (run M c it0 (h1 ++ [i])))) (i :: h2))) =
      state_file M c (fst (run M c it0 (h1 ++ i :: h2))).
  Proof.
    intros H c Hc it0 h1 i h2.
    destruct (H c Hc it0 h1 i h2) as (oP & o0 & oU & oB & _ & _ & _ & _ & H5 & H6). cbn zeta in H5, H6.
    unfold state_file at 1 3. unfold mod_save. cbn [fst snd]. rewrite H5, H6. reflexivity.
  Qed.

  Theorem resume_chain : resumes_like_uninterrupted M Ok OutEq0 OutEq eq -> resumes_repeatedly.
  Proof.
    intros H c Hc it0 h0 i0 segs. revert h0 i0.
    induction segs as [|[h i'] r IH]; intros h0 i0.
    - cbn [chain_file chain_history]. reflexivity.
    - cbn [chain_file chain_history].
      rewrite (resumes_file_eq H c Hc it0 h0 i0 (h ++ [i'])).
      replace (h0 ++ i0 :: h ++ [i']) with ((h0 ++ i0 :: h) ++ [i']) by (rewrite <- app_assoc; reflexivity).
      rewrite IH. rewrite <- app_assoc. reflexivity.
  Qed.
End Chains.

Theorem resumable_resumes {Cfg St In Out Saved} (M : machine Cfg St In Out Saved) Ok Inv Eqv OutEq0 OutEq SavedEq :
  resumable M Ok Inv Eqv OutEq0 OutEq SavedEq -> resumes_like_go_on M Ok OutEq0 OutEq SavedEq.
Proof. intros HR c Hc it0 h1 i h2. exact (resume_vs_go_on M Ok Inv Eqv OutEq0 OutEq SavedEq HR c Hc it0 h1 i h2). Qed.

Theorem resumable_saves {Cfg St In Out Saved} (M : machine Cfg St In Out Saved) Ok Inv Eqv OutEq0 OutEq SavedEq :
  resumable M Ok Inv Eqv OutEq0 OutEq SavedEq -> saves_what_it_loaded M Ok SavedEq.
Proof. intros HR c Hc it0 h. exact (save_after_load M Ok Inv Eqv OutEq0 OutEq SavedEq HR c Hc it0 h). Qed.

Arguments r_inv_init {Cfg St In Out Saved M Ok Inv Eqv OutEq0 OutEq SavedEq} _.
Arguments r_inv_step {Cfg St In Out Saved M Ok Inv Eqv OutEq0 OutEq SavedEq} _.
Arguments r_reexec {Cfg St In Out Saved M Ok Inv Eqv OutEq0 OutEq SavedEq} _.
Arguments r_congr {Cfg St In Out Saved M Ok Inv Eqv OutEq0 OutEq SavedEq} _.
Arguments rs_save {Cfg St In Out Saved M Ok Inv Eqv OutEq0 OutEq SavedEq} _.
Arguments rs_save_load {Cfg St In Out Saved M Ok Inv Eqv OutEq0 OutEq SavedEq} _.
