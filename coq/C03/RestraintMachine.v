(* C03 -- the restraint object satisfies the obligations of [resumable]. *)
From Coq Require Import ZArith List Bool Lia.
From CV Require Import Base.Num C03.ResumeModel C03.ResumeProofs C06.RestraintModel C06.RestraintSched C03.ObjectsModel C03.UsesC06
  C03.RestraintResume C03.RestraintReexec.
Import ListNotations.
Local Open Scope Z_scope.

Section RestraintMachine.
  Context {T : Type} (O : NumOps T).
  Notation rcfg := (@rcfg T). Notation rstate := (@rstate T). Notation rout := (@rout T).
  Ltac prj := cbn [s_centers s_k s_stage s_W s_FE s_kincr s_incr s_first fst snd] in *.
  Ltac ifs :=
    repeat (match goal with
            | |- context [if ?b then _ else _] =>
                lazymatch b with
                | context [if _ then _ else _] => fail
                | _ => destruct b eqn:?
                end
            end; cbn [s_centers s_k s_stage s_W s_FE s_kincr s_incr s_first fst snd]).

  (* ---- which update touches which non-persisted field ---- *)
  Lemma centers_update_stage_frame (c : rcfg) s t rel :
    c_chg_centers c && r_staged c = false -> s_stage (centers_update O c s t rel false) = s_stage s.
  Proof.
    unfold centers_update, r_staged. intros H.
    destruct (c_chg_centers c); [|reflexivity]. cbn [andb] in H. rewrite H.
    unfold update_centers, set_incr. ifs; reflexivity.
  Qed.

  Lemma k_update_frames (c : rcfg) s t rel xs :
    (c_chg_k c && r_staged c = false -> s_stage (fst (k_update O c s t rel false xs)) = s_stage s /\
                                         s_FE (fst (k_update O c s t rel false xs)) = s_FE s) /\
    (c_chg_k c && negb (r_staged c) = false -> s_kincr (fst (k_update O c s t rel false xs)) = s_kincr s).
  Proof.
    unfold k_update, r_staged, set_k.
    destruct (c_chg_k c); cbn [andb]; [|repeat split; reflexivity].
    destruct (c_nstages c =? 0); cbn [negb]; split; intros H; try discriminate.
    - ifs; split; reflexivity.
    - ifs; reflexivity.
  Qed.

  Lemma work_W_frame (c : rcfg) s t rel xs forces :
    r_moving c && c_acc_work c = false ->
    s_W (work_k O c (work_centers O c s t rel forces) rel xs) = s_W s.
  Proof.
    unfold r_moving, work_k, work_centers. intros H.
    destruct (c_chg_centers c), (c_chg_k c), (c_acc_work c); cbn [andb orb] in *; try discriminate; reflexivity.
  Qed.

  Lemma r_inv_init_l (c : rcfg) : r_inv O c (init_state O c).
  Proof. unfold r_inv, init_state. prj. repeat split; reflexivity. Qed.

  Lemma r_inv_step_l (c : rcfg) s it rel xs : r_inv O c s -> r_inv O c (fst (rstep O c s it rel false xs)).
  Proof.
    intros (I1 & I2 & I3 & I4 & I5 & I6).
    destruct (rstep_fields O c s it rel false xs) as (F1 & F2 & F3 & F4 & F5 & F6 & F7). cbn zeta in *.
    unfold r_inv. rewrite F1, F2, F4, F5, F7. unfold upd.
    destruct (k_update_frames c (centers_update O c s it rel false) it rel xs) as [K1 K2].
    repeat split.
    - intros H. rewrite k_update_centers, (centers_update_off O c s it rel false H). auto.
    - intros H. rewrite (k_update_off O c _ it rel false xs H). cbn [fst]. rewrite centers_update_k. auto.
    - intros H. unfold r_moving in H.
      assert (H1 : c_chg_k c && r_staged c = false) by (destruct (c_chg_centers c), (c_chg_k c), (r_staged c); auto).
      assert (H2 : c_chg_centers c && r_staged c = false) by (destruct (c_chg_centers c), (c_chg_k c), (r_staged c); auto).
      rewrite (proj1 (K1 H1)), (centers_update_stage_frame c s it rel H2). apply I3. exact H.
    - intros H. unfold rstep.
      destruct (k_update O c (centers_update O c s it rel false) it rel false xs) as [s2 line] eqn:Ek. cbn [fst].
      rewrite (work_W_frame c s2 it rel xs _ H).
      pose proof (k_update_W O c (centers_update O c s it rel false) it rel false xs) as HW. rewrite Ek in HW. cbn [fst] in HW.
      rewrite HW, centers_update_W. auto.
    - intros H. rewrite (proj2 (K1 H)), centers_update_FE. auto.
    - intros H. rewrite (K2 H), centers_update_kincr. auto.
  Qed.

  Lemma r_save_l (c : rcfg) s s' : r_eqv c s s' -> r_save c s = r_save c s'.
  Proof.
    intros (E1 & E2 & E3 & E4 & E5 & E6 & E7). unfold r_save. rewrite E1, E2, E3, E4, E5.
    destruct (r_moving c) eqn:Em; [rewrite (E6 eq_refl)|]; reflexivity.
  Qed.

  Lemma r_save_load_l (c : rcfg) s : r_save c (r_load O c (r_save c s)) = r_save c s.
  Proof.
    unfold r_save, r_load, r_moving, r_staged, opt. prj.
    cbn [sv_first sv_stage sv_centers sv_k sv_FE sv_W].
    destruct (c_chg_centers c), (c_chg_k c), (negb (c_nstages c =? 0)), (c_acc_work c); reflexivity.
  Qed.

  Theorem restraint_resumable :
    resumable (restraint_machine O) r_ok (r_inv O) r_eqv r_out_eq0 r_out_eq eq.
  Proof.
    constructor; cbn [m_init m_step m_save m_after_save m_load restraint_machine].
    - intros c _. apply r_inv_init_l.
    - intros c s it rel i _ Hi _. apply r_inv_step_l; auto.
    - intros c s it rel xs Hc Hi Hr. cbn zeta. rewrite r_load_save_restore.
      pose proof (r_inv_step_l c s it rel xs Hi) as Hi1.
      pose proof (rstep_fresh O c s it rel xs) as Hf.
      destruct (reexec_restored O c _ it xs Hc Hi1 Hf) as (He & H1 & H2). cbn zeta in He, H1, H2.
      destruct (rstep_out O c s it rel xs) as [O1 O2]. cbn zeta in O1, O2.
      split; [exact He|]. unfold r_out_eq0. rewrite O1, O2, H1, H2. split; reflexivity.
    - intros c s s' it rel rel' xs Hc He Hr Hr'. apply r_congr_l; auto.
    - intros c s s' _ He. apply r_save_l; auto.
    - intros c s _ _. apply r_save_load_l.
  Qed.
End RestraintMachine.
