(* ADAPTER: every use that coq/C03 makes of the C06 slice's DEFINITIONS is in this file; the lemmas that unfold them
   are in RestraintResume.v, RestraintReexec.v, RestraintMachine.v (restraints) and in the ABMD section of
   ObjectsProofs.v.  The other C03 files refer to the names defined here (and to the record types rcfg / rstate / rout,
   re-exported below under the names r_cfg / r_state / r_out).

   The restraint, ABMD and histogramRestraint objects as [machine]s: what each writes to the state file and how a
   fresh object is rebuilt from it; the update functions are those of the C06 model.  Definitions only (extracted). *)
From Coq Require Import ZArith List Bool.
From CV Require Import Base.Num C03.ResumeModel C03.ObjectsModel C06.RestraintModel.
Import ListNotations.
Local Open Scope Z_scope.

(* ------------------------------------------------------------------------------------------------
   Restraints (harmonic, harmonicWalls, linear; src/colvarbias_restraint.cpp)
     colvarbias_restraint_moving::get_state_params          firstStep, stage
     colvarbias_restraint_centers_moving::get_state_params  centers, accumulatedWork
     colvarbias_restraint_k_moving::get_state_params        forceConstant, restraintFE, accumulatedWork
   each written only under the flags below; set_state_params reads the same keys under the same flags. *)
Section RestraintObject.
  Context {T : Type} (O : NumOps T).

  Record rsaved := mkRSaved {
    sv_first : option Z; sv_stage : option Z; sv_centers : option (list T);
    sv_k : option T; sv_FE : option T; sv_W : option T }.

  Definition r_moving (c : @rcfg T) : bool := c_chg_centers c || c_chg_k c.
  Definition r_staged (c : @rcfg T) : bool := negb (c_nstages c =? 0).

  Definition r_save (c : @rcfg T) (s : @rstate T) : rsaved :=
    mkRSaved (if r_moving c then Some (s_first s) else None)
             (if r_moving c && r_staged c then Some (s_stage s) else None)
             (if c_chg_centers c then Some (s_centers s) else None)
             (if c_chg_k c then Some (s_k s) else None)
             (if c_chg_k c && r_staged c then Some (s_FE s) else None)
             (if r_moving c && c_acc_work c then Some (s_W s) else None).

  Definition opt {A} (o : option A) (d : A) : A := match o with Some a => a | None => d end.

  (* a fresh restraint (configured at step 0 of the new process), then the keys that are present *)
  Definition r_load (c : @rcfg T) (v : rsaved) : @rstate T :=
    mkSt (opt (sv_centers v) (c_centers0 c)) (zeros O (c_centers0 c))
         (opt (sv_k v) (c_k0 c)) (n0 O)
         (opt (sv_stage v) 0) (opt (sv_first v) 0)
         (opt (sv_W v) (n0 O)) (opt (sv_FE v) (n0 O)).

  Definition restraint_machine : machine (@rcfg T) (@rstate T) (list T) (@rout T) rsaved :=
    mkMachine (init_state O)
              (fun c s it rel xs => rstep O c s it rel false xs)
              r_save (fun _ s => s) r_load.
End RestraintObject.

(* ------------------------------------------------------------------------------------------------
   ABMD (src/colvarbias_abmd.cpp): refValue (and the three parameters) are written and read back. *)
Section AbmdObject.
  Context {T : Type} (O : NumOps T).
  Record acfg := mkACfg { a_k : T; a_stop : T; a_decreasing : bool }.
  Definition abmd_machine : machine acfg (@abmd_state T) T (T * T) (T * (T * T * bool)) :=
    mkMachine (fun _ => mkAb false (n0 O))
              (fun c s it rel x => abmd_step O (a_k c) (a_stop c) (a_decreasing c) s x)
              (* get_state_params writes ref_val even before the first update (it is then 0) *)
              (fun c s => (ab_ref s, (a_stop c, a_k c, a_decreasing c)))
              (fun _ s => s)
              (* set_state_params: ref_val = refValue; ref_initialized = true (parameters: same configuration) *)
              (fun c v => mkAb true (fst v)).
End AbmdObject.

(* ------------------------------------------------------------------------------------------------
   histogramRestraint: no state; energy and forces on the entries of a vector variable (C06 model of update()) *)
Section HistogramRestraintObject.
  Context {T : Type} (O : NumOps T).
  (* colvarbias_restraint_histogram (C06 model of update()): energy and forces on the entries of a vector variable *)
  Record hrcfg := mkHRCfg { hr_k : T; hr_pi : T; hr_sigma : T; hr_lower : T; hr_width : T; hr_ref : list T }.
  Definition histrestraint_machine : machine hrcfg unit (list T) (T * list T) unit :=
    stateless_machine (fun c _ xs =>
      (hist_energy O (hr_k c) (hr_pi c) (hr_sigma c) (hr_lower c) (hr_width c) (hr_ref c) xs,
       hist_forces O (hr_k c) (hr_pi c) (hr_sigma c) (hr_lower c) (hr_width c) (hr_ref c) xs)).
End HistogramRestraintObject.

(* names used by the other C03 files *)
Definition r_cfg (T : Type) : Type := @rcfg T.
Definition r_state (T : Type) : Type := @rstate T.
Definition r_out (T : Type) : Type := @rout T.
Definition r_out_forces {T : Type} (o : @rout T) : list T := o_forces o.
(* a harmonic restraint on one non-periodic variable of width 1 (non-vacuity examples):
   centre c0, moving to c1 in n steps when [moving], force constant k, accumulated work when [work] *)
Definition r_example_cfg {T : Type} (zero one k c0 c1 : T) (moving work : bool) (n : Z) : @rcfg T :=
  mkCfg Harmonic [mkVar one false one zero] [c0] moving [c1] k false false zero zero one [] n 0 0 work
        false false [] [] one one 0.
Definition r_flags {T : Type} (c : @rcfg T) : bool * bool := (c_chg_centers c, c_acc_work c).
