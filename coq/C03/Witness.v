(* C03 -- counterexamples, computed with the same generic models at exact rational arithmetic. *)
From Coq Require Import ZArith QArith Qround List Bool.
From CV Require Import Base.Num C03.ResumeModel C03.ObjectsModel.
Import ListNotations.
Local Open Scope Q_scope.

Definition Qltb (a b : Q) : bool := negb (Qle_bool b a).
Definition Qops : NumOps Q :=
  mkNumOps Q 0 1 Qplus Qminus Qmult Qdiv Qopp
           (fun x => x) (fun x => x) (fun x => x) (fun x => x) (fun x => x) (fun x => x)   (* sqrt .. acos: unused here *)
           (fun x _ => x) (fun x _ => x)                                                     (* atan2, pow: unused here *)
           inject_Z Qfloor Qltb Qle_bool Qeq_bool.

(* histogram with stepZeroData on, grid [0,4) of width 1; values 1/2, 3/2, 3/2; stop after the second step.
   The run that goes on counts bin [1] twice (steps 1 and 2); the resumed run counts the re-executed step 1
   again: three. *)
Definition wh_cfg : hcfg (T:=Q) := mkHCfg [0] [1] [4%Z] true.
Definition wh_h1 : list (list Q) := [[1#2]].
Definition wh_i : list Q := [3#2].
Definition wh_h2 : list (list Q) := [[3#2]].
Definition wh_P := run (histogram_machine Qops) wh_cfg 0%Z (wh_h1 ++ [wh_i]).
Definition wh_A := go_on (histogram_machine Qops) wh_cfg (fst wh_P) wh_h2.
Definition wh_B := resume (histogram_machine Qops) wh_cfg (state_file (histogram_machine Qops) wh_cfg (fst wh_P)) (wh_i :: wh_h2).
