(* C03 -- ABF next to any number of restraints on the same variables: the restraints are updated first, the
   force they apply to each variable is what ABF sees as "the other biases" (C04's i_o), and with lagged total
   forces it is part of the next step's measured force.  Over every numeric carrier. *)
From Coq Require Import ZArith List Bool Lia.
From CV Require Import Base.Num C03.ResumeModel C03.ResumeProofs C03.ObjectsModel C03.UsesC06 C03.ObjectsProofs
  C03.RestraintResume C03.RestraintMachine C03.UsesC04 C03.UsesC04Proofs.
Import ListNotations.
Local Open Scope Z_scope.

Section AbfSystem.
  Context {T : Type} (O : NumOps T).

  (* common input of a step: the variables' values, the engine's force on each, the Jacobian force of each, and
     whether the ABF bias applies its force at this step (applyBias; a script may switch it) *)
  Definition abf_sys_in : Type := (list T * list T * list T * bool)%type.

  (* force of all restraints on variable k *)
  Definition other_force (os : list (r_out T)) (k : nat) : T :=
    fold_left (fun a o => nadd O a (nth k (r_out_forces o) (n0 O))) os (n0 O).

  Definition wire_abf (i : abf_sys_in) (os : list (r_out T)) : abf_in_t (T:=T) :=
    let xs := fst (fst (fst i)) in
    abf_input O xs (snd (fst (fst i))) (map (other_force os) (seq 0 (length xs))) (snd (fst i)) (snd i).

  (* the restraints' input is the list of values *)
  Definition abf_sys_machine' :=
    cascade_machine
      (mkMachine (m_init (list_machine (restraint_machine O)))
                 (fun c s it rel (i : abf_sys_in) => m_step (list_machine (restraint_machine O)) c s it rel (fst (fst (fst i))))
                 (m_save (list_machine (restraint_machine O)))
                 (m_after_save (list_machine (restraint_machine O)))
                 (m_load (list_machine (restraint_machine O))))
      (abf_machine O) wire_abf.

  Lemma other_force_eq0 os : forall os' k, all2 (@r_out_eq0 T) os os' -> other_force os k = other_force os' k.
  Proof.
    unfold other_force. generalize (n0 O) at 2 4.
    induction os as [|o r IH]; intros a os' k H; destruct os' as [|o' r']; cbn [all2 fold_left] in *; try contradiction; auto.
    destruct H as [[_ Hf] Hr]. unfold r_out_forces. rewrite Hf. apply IH; auto.
  Qed.

  Lemma wire_eq0 i os os' : all2 (@r_out_eq0 T) os os' -> wire_abf i os = wire_abf i os'.
  Proof.
    intros H. unfold wire_abf. f_equal. apply map_ext. intros k. apply other_force_eq0; auto.
  Qed.

  Lemma all2_eq_eq0 os : forall os', all2 (@r_out_eq T) os os' -> all2 (@r_out_eq0 T) os os'.
  Proof.
    induction os as [|o r IH]; intros os' H; destruct os' as [|o' r']; cbn [all2] in *; auto.
    destruct H as [Hf Hr]. unfold r_out_eq in Hf. subst. split; [split; reflexivity | apply IH; auto].
  Qed.

  Lemma wire_eq i os os' : all2 (@r_out_eq T) os os' -> wire_abf i os = wire_abf i os'.
  Proof. intros H. apply wire_eq0. apply all2_eq_eq0; auto. Qed.

  (* a machine whose input is projected from a larger input keeps its obligations *)
  Lemma premap_resumable {C S I I' Ou V} (M : machine C S I Ou V) (p : I' -> I) Ok Inv Eqv OE0 OE SE :
    resumable M Ok Inv Eqv OE0 OE SE ->
    resumable (mkMachine (m_init M) (fun c s it rel i => m_step M c s it rel (p i)) (m_save M) (m_after_save M) (m_load M))
              Ok Inv Eqv OE0 OE SE.
  Proof.
    intros H. constructor; cbn [m_init m_step m_save m_after_save m_load].
    - apply (r_inv_init H).
    - intros c s it rel i. apply (r_inv_step H).
    - intros c s it rel i. apply (r_reexec H).
    - intros c s s' it rel rel' i. apply (r_congr H).
    - apply (rs_save H).
    - apply (rs_save_load H).
  Qed.

  Theorem abf_sys_resumes :
    resumes_like_uninterrupted abf_sys_machine'
      (fun c => Forall r_ok (fst c) /\ abf_ok (snd c))
      (pair_rel (all2 (@r_out_eq0 T)) (@abf_out_eq0 T))
      (pair_rel (all2 (@r_out_eq T)) (@abf_out_eq T))
      (pair_rel (all2 eq) eq).
  Proof.
    apply resumes_uninterrupted_of_go_on.
    - intros c s. destruct s as [sl sa]. destruct c as [cl ca].
      cbn [m_after_save abf_sys_machine' cascade_machine list_machine restraint_machine abf_machine fst snd].
      f_equal. clear. revert cl. induction sl as [|s r IH]; intros cl; destruct cl as [|c rc]; cbn [map2r]; auto.
      rewrite IH. reflexivity.
    - pose proof (list_resumable _ _ _ _ _ _ _ (restraint_resumable O)) as HL.
      pose proof (premap_resumable _ (fun i : abf_sys_in => fst (fst (fst i))) _ _ _ _ _ _ HL) as HL'.
      pose proof (abf_resumable O) as HA.
      exact (resumable_resumes _ _ _ _ _ _ _
               (cascade_resumable _ _ wire_abf _ _ _ _ _ _ _ _ _ _ _ _ wire_eq0 wire_eq HL' HA)).
  Qed.

  (* eABF resumes: the extended coordinate, the spring force on the atoms, the ABF force, and the final
     x / extended_x / extended_v / samples / gradients *)
  Theorem eabf_resumes :
    resumes_like_uninterrupted (eabf_machine O)
      (fun c => abf_ok (snd c))
      (xl_out_eq (@abf_out_eq0 T)) (xl_out_eq (@abf_out_eq T))
      (fun v v' => fst v = fst v' /\ snd v = snd v').
  Proof.
    apply resumes_uninterrupted_of_go_on.
    - intros c s. destruct s as [sx sa]. reflexivity.
    - pose proof (abf_resumable O) as HA.
      assert (F0 : forall o o', @abf_out_eq0 T o o' -> eabf_force O o = eabf_force O o').
      { intros o o' (_ & _ & _ & Hf). unfold eabf_force. rewrite Hf. reflexivity. }
      assert (F1 : forall o o', @abf_out_eq T o o' -> eabf_force O o = eabf_force O o').
      { intros o o' [H _]. apply F0; auto. }
      exact (resumable_resumes _ _ _ _ _ _ _
               (extlag_resumable O (abf_machine O) (eabf_force O) (eabf_bin O) _ _ _ _ _ _ F0 F1 HA)).
  Qed.
End AbfSystem.

(* Chains of resumed runs: objects whose state files are compared by equality. *)
Lemma resume_chain_objects :
  (forall (Cfg St In Out Saved : Type) (M : machine Cfg St In Out Saved) (Ok : Cfg -> Prop) (OutEq0 OutEq : Out -> Out -> Prop),
     resumes_like_uninterrupted M Ok OutEq0 OutEq eq -> resumes_repeatedly M Ok) /\
  (forall (T : Type) (O : NumOps T), resumes_repeatedly (restraint_machine O) r_ok) /\
  (forall (T : Type) (O : NumOps T), resumes_repeatedly (abf_machine O) (@abf_ok T)) /\
  resumes_repeatedly module_machine (fun _ => True).
Proof.
  split; [|split; [|split]].
  - intros. eapply resume_chain; eauto.
  - intros T O. apply (resume_chain _ _ (@r_out_eq0 T) (@r_out_eq T)).
    apply resumes_uninterrupted_of_go_on; [reflexivity|].
    exact (resumable_resumes _ _ _ _ _ _ _ (restraint_resumable O)).
  - intros T O. apply (resume_chain _ _ (@abf_out_eq0 T) (@abf_out_eq T)).
    apply resumes_uninterrupted_of_go_on; [reflexivity|].
    exact (resumable_resumes _ _ _ _ _ _ _ (abf_resumable O)).
  - apply (resume_chain _ _ (fun o o' => fst o = fst o') eq).
    apply resumes_uninterrupted_of_go_on; [reflexivity|].
    exact (resumable_resumes _ _ _ _ _ _ _ module_resumable).
Qed.

Lemma alb_resumes :
  forall (T : Type) (O : NumOps T),
    resumes_like_uninterrupted (alb_machine O) (fun _ => True) eq eq eq /\
    saves_what_it_loaded (alb_machine O) (fun _ => True) eq /\
    resumes_repeatedly (alb_machine O) (fun _ => True).
Proof.
  intros T O. pose proof (alb_resumable O) as HR.
  assert (HU : resumes_like_uninterrupted (alb_machine O) (fun _ => True) eq eq eq).
  { apply resumes_uninterrupted_of_go_on; [reflexivity|]. exact (resumable_resumes _ _ _ _ _ _ _ HR). }
  split; [exact HU|]. split.
  - exact (resumable_saves _ _ _ _ _ _ _ HR).
  - exact (resume_chain _ _ eq eq HU).
Qed.
