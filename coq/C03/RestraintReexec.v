(* C03 -- the restraint object: re-executing the step at which the state was written. *)
From Coq Require Import ZArith List Bool Lia.
From CV Require Import Base.Num C03.ResumeModel C03.ResumeProofs C06.RestraintModel C06.RestraintSched C03.ObjectsModel C03.UsesC06
  C03.RestraintResume.
Import ListNotations.
Local Open Scope Z_scope.

Section RestraintReexec.
  Context {T : Type} (O : NumOps T).
  Notation rcfg := (@rcfg T). Notation rstate := (@rstate T). Notation rout := (@rout T).
  Ltac prj := cbn [s_centers s_k s_stage s_W s_FE s_kincr s_incr s_first fst snd] in *.
  Ltac ifs :=
    repeat (match goal with
            | |- context [if ?b then _ else _] =>
                lazymatch b with
                | context [if _ then _ else _] => fail
                | _ => destruct b eqn:?
                end
            end; cbn [s_centers s_k s_stage s_W s_FE s_kincr s_incr s_first fst snd]).

  (* ---- the state after the update of step t is "up to date at t": what a re-execution at t recomputes is
     what it already holds ---- *)
  Definition lam_cont (c : rcfg) (t first : Z) : T :=
    let l := ratio O (t - first) (c_nsteps c) in if c_decoupling c then nsub O (n1 O) l else l.
  Definition lam0 (c : rcfg) : T :=
    match c_lambda_sched c with [] => if c_decoupling c then n1 O else n0 O | l0 :: _ => l0 end.
  Definition fresh_at (c : rcfg) (t : Z) (s : rstate) : Prop :=
    (c_chg_centers c = true -> (c_nstages c =? 0) = true -> (t - s_first s <=? c_nsteps c) = true ->
       s_centers s = map2 (wrapv O) (c_vars c) (new_centers O c (ratio O (t - s_first s) (c_nsteps c)))) /\
    (c_chg_k c = true -> (c_nstages c =? 0) = true -> (t - s_first s <=? c_nsteps c) = true ->
       s_k s = k_of_lambda O c (lam_cont c t (s_first s))) /\
    (c_chg_k c = true -> (c_nstages c =? 0) = false -> (t =? s_first s) = true ->
       s_k s = k_of_lambda O c (lam0 c)).

  Lemma centers_update_fresh c s t rel :
    c_chg_centers c = true -> (c_nstages c =? 0) = true -> (t - s_first s <=? c_nsteps c) = true ->
    s_centers (centers_update O c s t rel false) =
    map2 (wrapv O) (c_vars c) (new_centers O c (ratio O (t - s_first s) (c_nsteps c))).
  Proof.
    intros H1 H2 H3. unfold centers_update. rewrite H1, H2, H3. cbn [negb].
    destruct (rel =? 0); unfold set_incr, update_centers; prj; reflexivity.
  Qed.

  Lemma k_update_fresh_cont c s t rel xs :
    c_chg_k c = true -> (c_nstages c =? 0) = true -> (t - s_first s <=? c_nsteps c) = true ->
    s_k (fst (k_update O c s t rel false xs)) = k_of_lambda O c (lam_cont c t (s_first s)).
  Proof.
    intros H1 H2 H3. unfold k_update, lam_cont. rewrite H1, H2, H3. cbn [negb]. unfold set_k. prj. reflexivity.
  Qed.

  Lemma k_update_fresh_staged c s t rel xs :
    c_chg_k c = true -> (c_nstages c =? 0) = false -> (t =? s_first s) = true ->
    s_k (fst (k_update O c s t rel false xs)) = k_of_lambda O c (lam0 c).
  Proof.
    intros H1 H2 H3. unfold k_update, lam0. rewrite H1, H2, H3. cbn [negb].
    assert (Hlt : (s_first s <? t) = false).
    { apply Z.ltb_ge. apply Z.eqb_eq in H3. lia. }
    unfold set_k. prj. do 4 (rewrite ?Hlt, ?andb_false_r; cbn [andb]; prj). reflexivity.
  Qed.

  Lemma rstep_fresh c s t rel xs : fresh_at c t (fst (rstep O c s t rel false xs)).
  Proof.
    unfold fresh_at. rewrite (rstep_first O c s t rel false xs).
    repeat split; intros H1 H2 H3.
    - rewrite (rstep_centers O c s t rel false xs). apply centers_update_fresh; auto.
    - rewrite (rstep_k O c s t rel false xs). unfold upd.
      rewrite <- (centers_update_first O c s t rel false) in *. apply k_update_fresh_cont; auto.
    - rewrite (rstep_k O c s t rel false xs). unfold upd.
      rewrite <- (centers_update_first O c s t rel false) in *. apply k_update_fresh_staged; auto.
  Qed.

  (* the output of an update is computed from the parameters the object holds after it *)
  Lemma rstep_out c s t rel xs :
    let so := rstep O c s t rel false xs in
    o_energy (snd so) = sumT O (map (@pot3 T) (terms O c (fst so) xs)) /\
    o_forces (snd so) = map (@frc3 T) (terms O c (fst so) xs).
  Proof.
    cbn zeta. destruct (rstep_fields O c s t rel false xs) as (F1 & F2 & _). cbn zeta in F1, F2.
    unfold rstep in *. unfold upd in *.
    destruct (k_update O c (centers_update O c s t rel false) t rel false xs) as [s2 line]. cbn [fst snd o_energy o_forces] in *.
    rewrite (terms_ext O c _ s2 xs F2 F1). split; reflexivity.
  Qed.

  (* ---- an update at relative step 0, field by field ---- *)
  Lemma centers_update_rel0 c (r : rstate) t :
    s_centers (centers_update O c r t 0 false) =
      (if c_chg_centers c && (c_nstages c =? 0) && (t - s_first r <=? c_nsteps c)
       then map2 (wrapv O) (c_vars c) (new_centers O c (ratio O (t - s_first r) (c_nsteps c)))
       else s_centers r) /\
    s_stage (centers_update O c r t 0 false) = s_stage r.
  Proof.
    unfold centers_update, first_time. cbn [Z.ltb Z.eqb Z.compare andb].
    destruct (c_chg_centers c); cbn [andb]; [|split; reflexivity].
    destruct (c_nstages c =? 0); cbn [negb andb].
    - destruct (t - s_first r <=? c_nsteps c); unfold set_incr, update_centers; prj; split; reflexivity.
    - destruct (s_stage r <=? c_nstages c); unfold set_incr; prj; split; reflexivity.
  Qed.

  Lemma k_update_rel0 c (r : rstate) t xs :
    let u := fst (k_update O c r t 0 false xs) in
    s_k u = (if c_chg_k c
             then if c_nstages c =? 0
                  then if t - s_first r <=? c_nsteps c then k_of_lambda O c (lam_cont c t (s_first r)) else s_k r
                  else if t =? s_first r then k_of_lambda O c (lam0 c) else s_k r
             else s_k r) /\
    s_stage u = s_stage r /\ s_FE u = s_FE r /\
    (c_chg_k c && (c_nstages c =? 0) = false -> s_kincr u = s_kincr r).
  Proof.
    cbn zeta. unfold k_update, first_time, lam_cont, lam0. cbn [Z.ltb Z.compare andb].
    destruct (c_chg_k c); cbn [andb]; [|repeat split; reflexivity].
    destruct (c_nstages c =? 0); cbn [negb].
    - destruct (t - s_first r <=? c_nsteps c); unfold set_k; prj; repeat split; intros; try discriminate; reflexivity.
    - destruct (t =? s_first r); unfold set_k; prj; rewrite ?andb_false_r; cbn [andb]; prj;
        rewrite ?andb_false_r; cbn [andb]; prj; repeat split; reflexivity.
  Qed.

  (* re-executing step t from the restored state, with step_relative = 0 *)
  Lemma reexec_restored c s1 t xs : r_ok c -> r_inv O c s1 -> fresh_at c t s1 ->
    let so' := rstep O c (restore O c s1) t 0 false xs in
    r_eqv c s1 (fst so') /\
    o_energy (snd so') = sumT O (map (@pot3 T) (terms O c s1 xs)) /\
    o_forces (snd so') = map (@frc3 T) (terms O c s1 xs).
  Proof.
    intros Hc Hi Hf. cbn zeta.
    destruct (rstep_out c (restore O c s1) t 0 xs) as [O1 O2]. cbn zeta in O1, O2. rewrite O1, O2. clear O1 O2.
    assert (Hmain : r_eqv c s1 (fst (rstep O c (restore O c s1) t 0 false xs))).
    2:{ split; [exact Hmain|]. destruct Hmain as (E1 & E2 & _).
        rewrite (terms_ext O c _ s1 xs (eq_sym E2) (eq_sym E1)). split; reflexivity. }
    destruct (rstep_fields O c (restore O c s1) t 0 false xs) as (F1 & F2 & F3 & F4 & F5 & F6 & F7). cbn zeta in *.
    unfold r_eqv. rewrite F1, F2, F4, F5, F3, F7. clear F1 F2 F3 F4 F5 F6 F7.
    (* the accumulated work is not touched at relative step 0 *)
    assert (HW : s_W (fst (rstep O c (restore O c s1) t 0 false xs)) = s_W (restore O c s1)).
    { unfold rstep. destruct (k_update O c (centers_update O c (restore O c s1) t 0 false) t 0 false xs) as [s2 line] eqn:Ek.
      cbn [fst]. unfold work_k, work_centers. replace (0 <? 0) with false by reflexivity.
      rewrite !andb_false_r. cbn [andb].
      pose proof (k_update_W O c (centers_update O c (restore O c s1) t 0 false) t 0 false xs) as HkW.
      rewrite Ek in HkW. cbn [fst] in HkW. rewrite HkW. apply centers_update_W. }
    rewrite HW. clear HW.
    unfold upd.
    set (rA := centers_update O c (restore O c s1) t 0 false).
    destruct (k_update_rel0 c rA t xs) as (K1 & K2 & K3 & K4). cbn zeta in K1, K2, K3, K4.
    rewrite K1, K2, K3. rewrite k_update_centers, k_update_first.
    assert (HfA : s_first rA = s_first (restore O c s1)) by apply centers_update_first.
    assert (HkA : s_k rA = s_k (restore O c s1)) by apply centers_update_k.
    assert (HFA : s_FE rA = s_FE (restore O c s1)) by apply centers_update_FE.
    assert (HkiA : s_kincr rA = s_kincr (restore O c s1)) by apply centers_update_kincr.
    destruct (centers_update_rel0 c (restore O c s1) t) as [C1 C2]. fold rA in C1, C2.
    rewrite HfA, HkA, HFA, C1, C2. clear K1 K2 K3 C1 C2. rewrite HkiA in K4. clear HfA HkA HFA HkiA. clearbody rA.
    unfold fresh_at, r_inv, r_ok, r_moving, r_staged in *.
    destruct s1 as [ce inc k ki st f W FE]. unfold restore in *. prj.
    destruct Hi as (I1 & I2 & I3 & I4 & I5 & I6). destruct Hf as (G1 & G2 & G3).
    destruct (c_chg_centers c) eqn:Ecc, (c_chg_k c) eqn:Eck, (c_nstages c =? 0) eqn:Ens, (c_acc_work c) eqn:Eaw;
      cbn [negb andb orb] in *; try discriminate;
      try (specialize (I1 eq_refl)); try (specialize (I2 eq_refl)); try (specialize (I3 eq_refl));
      try (specialize (I4 eq_refl)); try (specialize (I5 eq_refl)); try (specialize (I6 eq_refl));
      try (specialize (G1 eq_refl eq_refl)); try (specialize (G2 eq_refl eq_refl)); try (specialize (G3 eq_refl eq_refl));
      try (specialize (K4 eq_refl)); subst; prj.
    all: repeat match goal with
           | |- context [if ?b then _ else _] => destruct b eqn:?
           end.
    all: try (specialize (G1 eq_refl)); try (specialize (G2 eq_refl)); try (specialize (G3 eq_refl)).
    all: repeat split; intros; try discriminate; try reflexivity; auto; try congruence.
  Qed.
End RestraintReexec.
