(* C03 -- the metadynamics object resumes like the run that wrote its state and went on (over the reals:
   projecting an empty batch of hills adds 0 to every bin).  Grids are compared bin by bin. *)
From Coq Require Import ZArith List Bool Lia Reals Lra.
From CV Require Import Base.Num Base.RNum C15.GridModel C03.ResumeModel C03.ResumeProofs C05.MetaModel C03.UsesC05.
Import ListNotations.
Local Open Scope Z_scope.

Section MetaResume.
  Notation T := R.
  Notation O := Rops.
  Notation cfg := (@cfg T). Notation state := (@state T). Notation hill := (@hill T).

  Definition near (c : cfg) (h : hill) : bool := near_hill O c (c_geom0 c) h.

  (* no stepZeroData (the re-executed step would deposit again), no expandBoundaries (geometry fixed) *)
  Definition meta_ok (c : cfg) : Prop := c_step_zero c = false /\ existsb (@v_expand T) (c_vars c) = false.

  Definition meta_inv (c : cfg) (s : state) : Prop :=
    st_geom s = c_geom0 c /\
    (c_use_grids c = false -> st_old s = [] /\ st_off_old s = [] /\ st_off_new s = []) /\
    (c_use_grids c = true ->
       st_off_new s = filter (near c) (st_new s) /\
       (c_keep c = true -> st_off_old s = filter (near c) (st_old s)) /\
       (c_keep c = false -> forallb (near c) (st_off_old s) = true)).

  Definition meta_eqv (c : cfg) (s s' : state) : Prop :=
    st_geom s = st_geom s' /\ st_new s = st_new s' /\ st_off_old s = st_off_old s' /\ st_off_new s = st_off_new s' /\
    (c_keep c || negb (c_use_grids c) = true -> st_old s = st_old s') /\
    (forall ix, st_e s ix = st_e s' ix) /\ (forall ix k, st_g s ix k = st_g s' ix k).

  Definition meta_saved_eq (v v' : meta_saved (T:=T)) : Prop :=
    (forall ix, fst (fst (fst v)) ix = fst (fst (fst v')) ix) /\
    (forall ix k, snd (fst (fst v)) ix k = snd (fst (fst v')) ix k) /\
    snd (fst v) = snd (fst v') /\ snd v = snd v'.

  Ltac prj := cbn [st_old st_new st_off_old st_off_new st_e st_g st_geom st_traj fst snd i_it i_rel i_cont i_x] in *.

  Lemma filter_all {A} (f : A -> bool) l : forallb f l = true -> filter f l = l.
  Proof.
    induction l as [|a r IH]; cbn [forallb filter]; auto. intros H. apply andb_true_iff in H. destruct H as [Ha Hr].
    rewrite Ha, IH; auto.
  Qed.
  Lemma forallb_filter {A} (f : A -> bool) l : forallb f (filter f l) = true.
  Proof. induction l as [|a r IH]; cbn [filter forallb]; auto. destruct (f a) eqn:E; cbn [forallb]; rewrite ?E; auto. Qed.
  Lemma forallb_app' {A} (f : A -> bool) l1 l2 : forallb f l1 = true -> forallb f l2 = true -> forallb f (l1 ++ l2) = true.
  Proof. intros H1 H2. rewrite forallb_app, H1, H2. reflexivity. Qed.

  Lemma ugp_id c s x : meta_ok c -> update_grid_params O c s x = s.
  Proof. intros [_ He]. unfold update_grid_params. rewrite He, andb_false_r. reflexivity. Qed.

  Lemma pos_rel rel : 0 < rel -> (0 <? rel) = true.
  Proof. intros. apply Z.ltb_lt. lia. Qed.

  (* ---- invariant ---- *)
  Lemma inv_init c : meta_inv c (init_state O c).
  Proof.
    unfold meta_inv, init_state. prj. repeat split; auto.
  Qed.

  Lemma inv_project c s : c_use_grids c = true -> meta_inv c s -> meta_inv c (project O c s).
  Proof.
    intros Hg (I1 & I2 & I3). destruct (I3 Hg) as (J1 & J2 & J3).
    unfold meta_inv, project. prj. split; [exact I1|]. split; [intros H; rewrite H in Hg; discriminate|].
    intros _. repeat split.
    - intros Hk. rewrite Hk, filter_app, <- J1, <- (J2 Hk). reflexivity.
    - intros Hk. apply forallb_app'; [apply J3; auto | rewrite J1; apply forallb_filter].
  Qed.

  Lemma inv_update_bias c s i : meta_inv c s -> meta_inv c (update_bias O c s i).
  Proof.
    intros (I1 & I2 & I3). unfold update_bias. destruct (deposit_now c i); [|exact (conj I1 (conj I2 I3))].
    unfold meta_inv. prj. split; [exact I1|]. split.
    - intros Hg. destruct (I2 Hg) as (A & B & C). rewrite Hg. cbn [andb]. auto.
    - intros Hg. destruct (I3 Hg) as (J1 & J2 & J3). rewrite Hg. cbn [andb]. repeat split; auto.
      rewrite filter_app, <- J1. cbn [filter]. unfold near, near_hill. cbn [h_c h_s]. rewrite I1.
      destruct (near_edge O c (c_geom0 c) (c_sigmas c) (i_x i)); rewrite ?app_nil_r; reflexivity.
  Qed.

  Lemma inv_step c s i : meta_ok c -> meta_inv c s -> meta_inv c (step_state O c s i).
  Proof.
    intros Hc Hi. unfold step_state. rewrite (ugp_id c s (i_x i) Hc).
    pose proof (inv_update_bias c s i Hi) as H2.
    destruct (c_use_grids c) eqn:Hg; [|exact H2].
    unfold update_grid_data. destruct (i_it i mod c_gfreq c =? 0); [apply inv_project; auto | exact H2].
  Qed.

  (* ---- congruence ---- *)
  Lemma energy_congr c s s' x : meta_eqv c s s' -> calc_energy O c s x = calc_energy O c s' x.
  Proof.
    intros (E1 & E2 & E3 & E4 & E5 & E6 & E7). unfold calc_energy, inside. rewrite E1, E2, E3, (E6 _). reflexivity.
  Qed.
  Lemma forces_congr c s s' x : meta_eqv c s s' -> calc_forces O c s x = calc_forces O c s' x.
  Proof.
    intros (E1 & E2 & E3 & E4 & E5 & E6 & E7). unfold calc_forces. apply map_ext. intros k.
    unfold calc_force, inside. rewrite E1, E2, E3, (E7 _ _). reflexivity.
  Qed.

  Lemma project_congr c s s' : meta_eqv c s s' -> meta_eqv c (project O c s) (project O c s').
  Proof.
    intros (E1 & E2 & E3 & E4 & E5 & E6 & E7). unfold meta_eqv, project. prj.
    rewrite E1, E2, E3, E4. repeat split; auto.
    - intros H. destruct (c_keep c) eqn:Hk; [|reflexivity]. rewrite (E5 eq_refl). reflexivity.
    - intros ix. rewrite (E6 ix). reflexivity.
    - intros ix k. rewrite (E7 ix k). reflexivity.
  Qed.

  Lemma update_bias_congr c s s' it rel rel' x : meta_eqv c s s' -> 0 < rel -> 0 < rel' ->
    meta_eqv c (update_bias O c s (mkIn it rel false x)) (update_bias O c s' (mkIn it rel' false x)).
  Proof.
    intros He Hr Hr'. pose proof He as (E1 & E2 & E3 & E4 & E5 & E6 & E7).
    unfold update_bias, deposit_now, can_accumulate, wt_energy_here. prj.
    rewrite (pos_rel rel Hr), (pos_rel rel' Hr'). cbn [negb andb orb].
    destruct ((it mod c_freq c =? 0) && true && (0 <? c_freq c)); [|exact He].
    rewrite (energy_congr c s s' x He). unfold meta_eqv. prj. rewrite E1, E2, E3, E4. repeat split; auto.
  Qed.

  Lemma step_congr c s s' it rel rel' x : meta_ok c -> meta_eqv c s s' -> 0 < rel -> 0 < rel' ->
    meta_eqv c (step_state O c s (mkIn it rel false x)) (step_state O c s' (mkIn it rel' false x)).
  Proof.
    intros Hc He Hr Hr'. unfold step_state. prj. rewrite !ugp_id by exact Hc.
    pose proof (update_bias_congr c s s' it rel rel' x He Hr Hr') as H2.
    destruct (c_use_grids c); [|exact H2].
    unfold update_grid_data. prj. destruct (it mod c_gfreq c =? 0); [apply project_congr; auto | exact H2].
  Qed.

  (* ---- re-execution ---- *)
  Lemma load_save c s : meta_load O c (meta_save O c s) = read_state O c (save_state O c s).
  Proof. unfold meta_load, meta_save, read_state. prj. reflexivity. Qed.

  Lemma no_deposit_rel0 c s it x : meta_ok c -> update_bias O c s (mkIn it 0 false x) = s.
  Proof.
    intros [Hz _]. unfold update_bias, deposit_now, can_accumulate. prj. rewrite Hz.
    cbn [Z.ltb Z.compare andb orb]. rewrite andb_false_r. reflexivity.
  Qed.

  Lemma Rops_add0 (a : R) : nadd O a (n0 O) = a.
  Proof. cbn [nadd n0 Rops]. lra. Qed.

  Lemma off_rebuilt c old new offo offn :
    offn = filter (near c) new ->
    (c_keep c = true -> offo = filter (near c) old) ->
    (c_keep c = false -> forallb (near c) offo = true) ->
    filter (near_hill O c (c_geom0 c)) (if c_keep c then old ++ new else offo ++ offn) = offo ++ offn.
  Proof.
    intros J1 J2 J3. change (near_hill O c (c_geom0 c)) with (near c). destruct (c_keep c) eqn:Hk.
    - rewrite filter_app, <- J1, <- (J2 eq_refl). reflexivity.
    - apply filter_all. apply forallb_app'; [apply J3; auto | rewrite J1; apply forallb_filter].
  Qed.

  Lemma reexec c s1 it x : meta_ok c -> meta_inv c s1 ->
    meta_eqv c (save_state O c s1) (step_state O c (read_state O c (save_state O c s1)) (mkIn it 0 false x)).
  Proof.
    intros Hc (I1 & I2 & I3).
    unfold step_state. prj. rewrite (ugp_id c _ x Hc), (no_deposit_rel0 c _ it x Hc).
    destruct s1 as [old new offo offn e g geom trj]. prj. subst geom.
    unfold save_state, read_state, state_hills.
    destruct (c_use_grids c) eqn:Hg; cbn [negb orb].
    - (* with grids *)
      destruct (I3 eq_refl) as (J1 & J2 & J3).
      pose proof (off_rebuilt c old new offo offn J1 J2 J3) as Hoff.
      unfold update_grid_data. prj. unfold project. prj. rewrite !app_nil_r.
      assert (Hoff' : filter (near_hill O c (c_geom0 c))
                        (if c_keep c then (if c_keep c then old ++ new else []) else offo ++ offn) = offo ++ offn).
      { destruct (c_keep c); exact Hoff. }
      destruct (it mod c_gfreq c =? 0); unfold meta_eqv; prj; rewrite ?app_nil_r, ?Hoff'.
      + repeat split; auto.
        * intros H. rewrite Hg in H. destruct (c_keep c); [reflexivity | try reflexivity; cbn in H; discriminate H].
        * intros ix. cbn [hills_energy fold_left]. rewrite Rops_add0. reflexivity.
        * intros ix k. cbn [hills_force fold_left sc]. cbn [nsub n0 Rops]. lra.
      + repeat split; auto.
        intros H. rewrite Hg in H. destruct (c_keep c); [reflexivity | try reflexivity; cbn in H; discriminate H].
    - (* without grids: nothing is projected; all hills are explicit and pending *)
      destruct (I2 eq_refl) as (A & B & C). unfold meta_eqv. prj. subst. cbn [app]. repeat split; auto.
  Qed.

  Theorem meta_resumable :
    resumable (meta_machine O) meta_ok meta_inv meta_eqv (fun _ _ => True) eq meta_saved_eq.
  Proof.
    constructor; cbn [m_init m_step m_save m_after_save m_load meta_machine].
    - intros c _. apply inv_init.
    - intros c s it rel x Hc Hi _. unfold step. cbn [fst]. apply inv_step; auto.
    - intros c s it rel x Hc Hi _. cbn zeta. unfold step at 1 2. cbn [fst snd]. rewrite load_save.
      split; [|exact I]. unfold step. cbn [fst]. apply reexec; auto. apply inv_step; auto.
    - intros c s s' it rel rel' x Hc He Hr Hr'. unfold step. cbn [fst snd].
      pose proof (step_congr c s s' it rel rel' x Hc He Hr Hr') as H.
      split; [exact H|]. cbn [i_x]. rewrite (energy_congr c _ _ x H), (forces_congr c _ _ x H). reflexivity.
    - intros c s s' Hc He. unfold meta_save, meta_saved_eq, save_state, state_hills. prj.
      destruct (c_use_grids c) eqn:Hg; cbn [negb orb].
      + pose proof (project_congr c s s' He) as (P1 & P2 & P3 & P4 & P5 & P6 & P7).
        repeat split; auto.
        destruct (c_keep c) eqn:Hk; [rewrite (P5 eq_refl), P2 | rewrite P3, P4]; reflexivity.
      + destruct He as (E1 & E2 & E3 & E4 & E5 & E6 & E7). repeat split; auto.
        assert (Hp : c_keep c || negb (c_use_grids c) = true) by (rewrite Hg; apply orb_true_r).
        rewrite E2, (E5 Hp). reflexivity.
    - intros c s Hc Hi. rewrite load_save.
      (* the state read back, written again: one more (empty) projection *)
      destruct Hi as (I1 & I2 & I3).
      destruct s as [old new offo offn e g geom trj]. prj. subst geom.
      unfold meta_save, meta_saved_eq, save_state, read_state, state_hills. prj.
      destruct (c_use_grids c) eqn:Hg; cbn [negb orb].
      + destruct (I3 eq_refl) as (J1 & J2 & J3).
        pose proof (off_rebuilt c old new offo offn J1 J2 J3) as Hoff.
        unfold project. prj. rewrite !app_nil_r.
        assert (Hoff' : filter (near_hill O c (c_geom0 c))
                          (if c_keep c then (if c_keep c then old ++ new else []) else offo ++ offn) = offo ++ offn).
        { destruct (c_keep c); exact Hoff. }
        rewrite ?Hoff'. repeat split.
        * intros ix. cbn [hills_energy fold_left]. rewrite Rops_add0. reflexivity.
        * intros ix k. cbn [hills_force fold_left sc]. cbn [nsub n0 Rops]. lra.
        * destruct (c_keep c); reflexivity.
      + destruct (I2 eq_refl) as (A & B & C). subst. cbn [app]. repeat split; auto.
  Qed.

  (* ---- no hill is ever pending when the state is written: without grids (writing projects nothing), or when
     every deposition step is a projection step (gridsUpdateFrequency divides newHillFrequency: the default) ---- *)
  Definition meta_ok2 (c : cfg) : Prop :=
    meta_ok c /\ (c_use_grids c = true -> 0 < c_gfreq c /\ (c_gfreq c | c_freq c)).
  Definition meta_inv2 (c : cfg) (s : state) : Prop :=
    meta_inv c s /\ (c_use_grids c = true -> st_new s = []).

  Lemma project_new c s : st_new (project O c s) = [].
  Proof. reflexivity. Qed.

  Lemma inv2_step c s it rel x : meta_ok2 c -> meta_inv2 c s -> meta_inv2 c (step_state O c s (mkIn it rel false x)).
  Proof.
    intros [Hc Hd] [Hi Hn]. split; [apply inv_step; auto|]. intros Hg. specialize (Hn Hg). destruct (Hd Hg) as [Hpos Hdiv].
    unfold step_state. prj. rewrite (ugp_id c s x Hc), Hg. unfold update_grid_data. prj.
    destruct (it mod c_gfreq c =? 0) eqn:Em; [apply project_new|].
    unfold update_bias, deposit_now. prj.
    destruct (it mod c_freq c =? 0) eqn:Ef; cbn [andb]; [|exact Hn].
    destruct (0 <? c_freq c) eqn:Ep; rewrite ?andb_false_r; [|exact Hn].
    exfalso. apply Z.eqb_eq in Ef. apply Z.ltb_lt in Ep. apply Z.eqb_neq in Em. apply Em.
    apply Z.mod_divide; [lia|]. apply Z.divide_trans with (c_freq c); auto. apply Z.mod_divide; [lia | exact Ef].
  Qed.

  Lemma eqv_trans c s1 s2 s3 : meta_eqv c s1 s2 -> meta_eqv c s2 s3 -> meta_eqv c s1 s3.
  Proof.
    intros (A1 & A2 & A3 & A4 & A5 & A6 & A7) (B1 & B2 & B3 & B4 & B5 & B6 & B7). unfold meta_eqv.
    repeat split; try congruence; intros;
      try (rewrite A5 by auto; apply B5; auto); try (rewrite A6; apply B6); try (rewrite A7; apply B7).
  Qed.

  (* writing the state of an object without pending hills changes nothing observable *)
  Lemma save_neutral c s : meta_inv2 c s -> meta_eqv c s (save_state O c s).
  Proof.
    intros [(I1 & I2 & I3) Hn]. unfold save_state. destruct (c_use_grids c) eqn:Hg.
    - specialize (Hn eq_refl). destruct (I3 eq_refl) as (J1 & J2 & J3).
      destruct s as [old new offo offn e g geom trj]. prj. subst new. cbn [filter] in J1. subst offn.
      unfold project, meta_eqv. prj. rewrite !app_nil_r. repeat split; auto.
      + (* without keepHills the list of binned hills is not compared *)
        intros H. rewrite Hg in H. destruct (c_keep c) eqn:Hk; [reflexivity | cbn in H; discriminate H].
      + intros ix. cbn [hills_energy fold_left]. rewrite Rops_add0. reflexivity.
      + intros ix k. cbn [hills_force fold_left sc]. cbn [nsub n0 Rops]. lra.
    - unfold meta_eqv. repeat split; auto.
  Qed.

  Theorem meta_resumable_full :
    resumable (meta_machine O) meta_ok2 meta_inv2 meta_eqv eq eq meta_saved_eq.
  Proof.
    pose proof meta_resumable as HR.
    constructor; cbn [m_init m_step m_save m_after_save m_load meta_machine].
    - intros c [Hc _]. split; [apply inv_init | reflexivity].
    - intros c s it rel x Hc Hi _. unfold step. cbn [fst]. apply inv2_step; auto.
    - intros c s it rel x Hc Hi Hr. cbn zeta.
      destruct (r_reexec HR c s it rel x (proj1 Hc) (proj1 Hi) Hr) as [He _]. cbn zeta in He.
      cbn [m_step m_save m_after_save m_load meta_machine] in He.
      split; [exact He|].
      pose proof (inv2_step c s it rel x Hc Hi) as Hi1.
      pose proof (save_neutral c _ Hi1) as Hn.
      pose proof (eqv_trans c _ _ _ Hn He) as Ht. unfold step in *. cbn [fst snd] in *. cbn [i_x].
      rewrite (energy_congr c _ _ x Ht), (forces_congr c _ _ x Ht). reflexivity.
    - intros c s s' it rel rel' x Hc He Hr Hr'. exact (r_congr HR c s s' it rel rel' x (proj1 Hc) He Hr Hr').
    - intros c s s' Hc He. exact (rs_save HR c s s' (proj1 Hc) He).
    - intros c s Hc Hi. exact (rs_save_load HR c s (proj1 Hc) (proj1 Hi)).
  Qed.

  Lemma saved_eq_trans (a b c : meta_saved (T:=T)) : meta_saved_eq a b -> meta_saved_eq b c -> meta_saved_eq a c.
  Proof.
    intros (A1 & A2 & A3 & A4) (B1 & B2 & B3 & B4). unfold meta_saved_eq.
    repeat split; try congruence; intros; try (rewrite A1; apply B1); try (rewrite A2; apply B2).
  Qed.

  Theorem meta_resumes_uninterrupted :
    resumes_like_uninterrupted (meta_machine O) meta_ok2 eq eq meta_saved_eq.
  Proof.
    intros c Hc it0 h1 i h2.
    apply (resume_vs_uninterrupted_neutral (meta_machine O) meta_ok2 meta_inv2 meta_eqv eq eq meta_saved_eq meta_resumable_full).
    - intros c0 s _ Hi. apply save_neutral; auto.
    - intros a b d -> ->. reflexivity.
    - apply saved_eq_trans.
    - exact Hc.
  Qed.
End MetaResume.
