(* ADAPTER: every use that coq/C03 makes of the C04 slice's definitions is in this file (definitions) and in
   UsesC04Proofs.v (lemmas that unfold them); the other C03 files refer to the names defined here only.

   C03 -- the ABF object (C04 model of colvarbias_abf::update in closed loop with its variables and the
   engine) as a [machine]: write_state_data writes the `samples` and `gradient` grids, read_state_data reads them
   back; everything else (bin, force_bin, last forces, the variables' ft / f_old / fj) is as after construction.
   The engine's memory of the force that acted at the previous step is not part of the state file either; it is
   never read at relative step 0.  Definitions only. *)
From Coq Require Import ZArith List Bool.
From CV Require Import Base.Num C03.ResumeModel C04.ABFModel.
From CV Require C03.ObjectsModel.
Import ListNotations.
Local Open Scope Z_scope.

Section AbfObject.
  Context {T : Type} (O : NumOps T).

  Definition abf_saved : Type := ((idx -> Z) * (idx -> @vec T))%type.

  (* a fresh bias (abf_init) whose two grids are replaced by what was read *)
  Definition abf_load (c : @abf_cfg T) (v : abf_saved) : @abf_state T :=
    let s0 := abf_init O c in
    mkSt (fst v) (snd v) (s_bin s0) (s_fbin s0) (s_fabf s0) (s_fprev s0) (s_ft s0) (s_fold s0) (s_eng s0) (s_fj s0)
         (s_rel s0) (s_started s0) (s_japp s0) (s_tfok s0).

  (* the protocol of ResumeModel has no run boundary inside a process *)
  Definition no_boundary (i : @abf_in T) : @abf_in T := mkIn (i_x i) (i_e i) (i_o i) (i_j i) false (i_apply i) (i_w i).

  Definition abf_machine : machine (@abf_cfg T) (@abf_state T) (@abf_in T) (@abf_out T) abf_saved :=
    mkMachine (abf_init O)
              (fun c s it rel i => abf_step O c s (no_boundary i))
              (fun c s => (s_cnt s, s_sum s))
              (fun _ s => s)
              abf_load.

  (* eABF: ABF on an extended-Lagrangian variable (src/colvar.cpp update_extended_Lagrangian + colvarbias_abf).
     ABF reads the extended coordinate as the variable's value; the "total force" it receives one step later is
     ft_reported = f_ext = (force of the system on the extended coordinate: the spring) + (the bias forces),
     i.e. the lagged convention of the C04 model with the spring force in the place of the engine's force.
     The CZAR estimator's own grids (z_samples, z_gradient) are not modelled. *)
  Definition eabf_bin (c : ObjectsModel.xcfg (T:=T)) (s : ObjectsModel.xstate (T:=T)) : @abf_in T :=
    mkIn [ObjectsModel.xs_xr s] [ObjectsModel.x_fsys O c s] [n0 O] [n0 O] false true [n0 O].
  Definition eabf_force (o : @abf_out T) : T := hd (n0 O) (o_f o).
  Definition eabf_machine :=
    ObjectsModel.extlag_machine O abf_machine eabf_force eabf_bin.

  (* names used by the other C03 files *)
  Definition abf_in_t : Type := @abf_in T.
  Definition abf_input (xs e o j : list T) (apply : bool) : abf_in_t := mkIn xs e o j false apply (map (fun _ => n0 O) xs).
  Definition abf_same_step (c : @abf_cfg T) : bool := c_same_step c.
  Definition abf_reported_total_force (c : @abf_cfg T) (s : @abf_state T) (i : @abf_in T) : list T :=
    o_tf (snd (abf_step O c s (no_boundary i))).
  Definition abf_saved_after_step (c : @abf_cfg T) (s : @abf_state T) (i : @abf_in T) : abf_saved :=
    let so := abf_step O c s (no_boundary i) in (s_cnt (fst so), s_sum (fst so)).
End AbfObject.
