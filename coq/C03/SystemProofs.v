(* C03 -- a system: one extended-Lagrangian variable driven by any number of restraints, next to any number of
   plain variables restrained by any number of restraints and recorded by any number of histograms and ABMD biases. *)
From Coq Require Import ZArith List Bool Lia Reals.
From CV Require Import Base.Num Base.RNum C03.ResumeModel C03.ResumeProofs C03.ObjectsModel C03.UsesC06
  C03.RestraintResume C03.RestraintMachine C03.ObjectsProofs.
Import ListNotations.
Local Open Scope Z_scope.

Section System.
  Notation T := R.
  Notation O := Rops.

  (* total force of a list of restraints on their first variable *)
  Definition sumf (a : T) (os : list (r_out T)) : T :=
    fold_left (fun a o => nadd O a (hd (n0 O) (r_out_forces o))) os a.
  Definition sum_forces (os : list (r_out T)) : T := sumf (n0 O) os.

  Definition sys_machine :=
    pair_machine
      (extlag_machine O (list_machine (restraint_machine O)) sum_forces (@bin_value T))
      (pair_machine (list_machine (restraint_machine O))
         (pair_machine (list_machine (histogram_machine O)) (list_machine (abmd_machine O)))).

  Lemma sumf_eq0 os : forall os' a, all2 (@r_out_eq0 T) os os' -> sumf a os = sumf a os'.
  Proof.
    unfold sumf. induction os as [|o r IH]; intros os' a H; destruct os' as [|o' r']; cbn [all2 fold_left] in *; try contradiction; auto.
    destruct H as [[_ Hf] Hr]. unfold r_out_forces. rewrite Hf. apply IH; auto.
  Qed.
  Lemma sumf_eq os : forall os' a, all2 (@r_out_eq T) os os' -> sumf a os = sumf a os'.
  Proof.
    unfold sumf. induction os as [|o r IH]; intros os' a H; destruct os' as [|o' r']; cbn [all2 fold_left] in *; try contradiction; auto.
    destruct H as [Hf Hr]. unfold r_out_eq in Hf. unfold r_out_forces. rewrite Hf. apply IH; auto.
  Qed.
  Lemma sum_forces_eq0 os os' : all2 (@r_out_eq0 T) os os' -> sum_forces os = sum_forces os'.
  Proof. apply sumf_eq0. Qed.
  Lemma sum_forces_eq os os' : all2 (@r_out_eq T) os os' -> sum_forces os = sum_forces os'.
  Proof. apply sumf_eq. Qed.

  Definition sys_ok (c : (xcfg (T:=T) * list (r_cfg T)) * (list (r_cfg T) * (list (hcfg (T:=T)) * list (acfg (T:=T))))) : Prop :=
    Forall r_ok (snd (fst c)) /\ Forall r_ok (fst (snd c)) /\ Forall h_ok (fst (snd (snd c))) /\ Forall (fun _ => True) (snd (snd (snd c))).

  Definition sys_out_eq0 :=
    pair_rel (@xl_out_eq T (list (r_out T)) (all2 (@r_out_eq0 T)))
      (pair_rel (all2 (@r_out_eq0 T)) (pair_rel (all2 (@eq (list Z))) (all2 (@eq (T * T))))).
  Definition sys_out_eq :=
    pair_rel (@xl_out_eq T (list (r_out T)) (all2 (@r_out_eq T)))
      (pair_rel (all2 (@r_out_eq T)) (pair_rel (all2 (@eq (list Z))) (all2 (@eq (T * T))))).
  Definition sys_saved_eq :=
    pair_rel (fun v v' : xsaved (T:=T) * list (rsaved (T:=T)) => fst v = fst v' /\ all2 eq (snd v) (snd v'))
      (pair_rel (all2 (@eq (rsaved (T:=T)))) (pair_rel (all2 grid_eq) (all2 a_saved_eq))).

  Theorem sys_resumes_go_on : resumes_like_go_on sys_machine sys_ok sys_out_eq0 sys_out_eq sys_saved_eq.
  Proof.
    pose proof (list_resumable _ _ _ _ _ _ _ (restraint_resumable O)) as HL.
    pose proof (extlag_resumable O _ sum_forces (@bin_value T) _ _ _ _ _ _ sum_forces_eq0 sum_forces_eq HL) as HX.
    pose proof (list_resumable _ _ _ _ _ _ _ (histogram_resumable O)) as HH.
    pose proof (list_resumable _ _ _ _ _ _ _ abmd_resumable) as HA.
    pose proof (pair_resumable _ _ _ _ _ _ _ _ _ _ _ _ _ _ HH HA) as H1.
    pose proof (pair_resumable _ _ _ _ _ _ _ _ _ _ _ _ _ _ HL H1) as H2.
    pose proof (pair_resumable _ _ _ _ _ _ _ _ _ _ _ _ _ _ HX H2) as H3.
    intros c Hc. apply (resumable_resumes _ _ _ _ _ _ _ H3).
    destruct Hc as (A & B & C & D). cbn [fst snd]. auto.
  Qed.

  Lemma map2r_id {C S} (f : C -> S -> S) : (forall c s, f c s = s) -> forall cs ss, map2r f cs ss = ss.
  Proof.
    intros Hid cs ss. revert cs. induction ss as [|s r IH]; intros cs; destruct cs as [|c rc]; cbn [map2r]; auto.
    rewrite Hid, IH. reflexivity.
  Qed.

  Lemma sys_after_save_id c s : m_after_save sys_machine c s = s.
  Proof.
    destruct s as [[sx sl] [sr [sh sa]]]. destruct c as [[cx cl] [cr [ch ca]]].
    cbn [m_after_save sys_machine pair_machine extlag_machine list_machine restraint_machine histogram_machine abmd_machine fst snd].
    rewrite !map2r_id; auto.
  Qed.

  Theorem sys_resumes_uninterrupted : resumes_like_uninterrupted sys_machine sys_ok sys_out_eq0 sys_out_eq sys_saved_eq.
  Proof. apply resumes_uninterrupted_of_go_on. apply sys_after_save_id. apply sys_resumes_go_on. Qed.
End System.
