(* C03 -- the simple objects (histogram, ABMD), the extended-Lagrangian variable over a bias, and the
   combinators preserve [resumable]. *)
From Coq Require Import ZArith List Bool Lia Reals Lra.
From CV Require Import Base.Num Base.RNum C03.ResumeModel C03.ResumeProofs C06.RestraintModel C03.ObjectsModel C03.UsesC06.
Import ListNotations.
Local Open Scope Z_scope.

(* ------------------------------------------------------------------------------------------------ module schedule *)
(* at the re-executed step the trajectory line is written again (same flag); the periodic state file is not
   (it is the one that was just loaded); afterwards both schedules are those of the uninterrupted run *)
Theorem module_resumable :
  resumable module_machine (fun _ => True) (fun _ _ => True) (fun _ _ _ => True)
            (fun o o' => fst o = fst o') eq eq.
Proof.
  constructor; cbn [m_init m_step m_save m_after_save m_load module_machine fst snd]; auto.
  intros c s s' it rel rel' i _ _ Hr Hr'. split; auto.
  replace (0 <? rel) with true by (symmetry; apply Z.ltb_lt; lia).
  replace (0 <? rel') with true by (symmetry; apply Z.ltb_lt; lia). reflexivity.
Qed.

(* ------------------------------------------------------------------------------------------------ stateless objects *)
Theorem stateless_resumable {C I Ou : Type} (f : C -> Z -> I -> Ou) :
  resumable (stateless_machine f) (fun _ => True) (fun _ _ => True) (fun _ _ _ => True) eq eq eq.
Proof. constructor; cbn [m_init m_step m_save m_after_save m_load stateless_machine fst snd]; auto. Qed.

(* ------------------------------------------------------------------------------------------------ histogram *)
Section Histogram.
  Context {T : Type} (O : NumOps T).

  (* stepZeroData asks for a sample at step 0 of every run, hence also at the first step of a resumed
     run, which the run that wrote the state has already counted: excluded here, shown separately *)
  Definition h_ok (c : hcfg (T:=T)) : Prop := h_step_zero c = false.
  Definition h_eqv (c : hcfg (T:=T)) (g g' : hstate) : Prop := forall ix, g ix = g' ix.
  Definition grid_eq (g g' : hstate) : Prop := forall ix, g ix = g' ix.

  Theorem histogram_resumable :
    resumable (histogram_machine O) h_ok (fun _ _ => True) h_eqv eq eq grid_eq.
  Proof.
    constructor; cbn [m_init m_step m_save m_after_save m_load histogram_machine]; auto.
    - intros c g it rel xs Hc _ Hr. cbn zeta. unfold h_step, h_can_acc. rewrite Hc.
      cbn [fst snd]. replace (0 <? 0) with false by reflexivity. cbn [orb andb].
      split; [intros ix; reflexivity | reflexivity].
    - intros c g g' it rel rel' xs Hc He Hr Hr'. unfold h_step, h_can_acc.
      assert (P : (0 <? rel) = true) by (apply Z.ltb_lt; lia).
      assert (Q : (0 <? rel') = true) by (apply Z.ltb_lt; lia).
      rewrite P, Q. cbn [orb andb fst snd]. split; [|reflexivity].
      destruct (hindex_ok (h_nx c) (hbins O (h_lower c) (h_width c) xs)); intros ix; cbn beta.
      + rewrite (He ix). reflexivity.
      + apply He.
    - intros c g _ _ ix. reflexivity.
  Qed.
End Histogram.

(* ------------------------------------------------------------------------------------------------ ABMD (over R) *)
Section Abmd.
  Local Open Scope R_scope.

  Definition a_eqv (c : acfg (T:=R)) (s s' : abmd_state (T:=R)) : Prop := s = s' /\ ab_init s = true.
  Definition a_saved_eq (v v' : R * (R * R * bool)) : Prop := v = v'.

  Lemma Rltb_irrefl_mul (x s : R) : Rltb 0 ((x - x) * s) = false.
  Proof. apply Rltb_false. replace ((x - x) * s) with 0 by ring. lra. Qed.

  Theorem abmd_resumable :
    resumable (abmd_machine Rops) (fun _ => True) (fun _ _ => True) a_eqv eq eq a_saved_eq.
  Proof.
    constructor; cbn [m_init m_step m_save m_after_save m_load abmd_machine]; auto.
    - (* re-execution *)
      intros c s it rel x _ _ _. cbn zeta. unfold abmd_step, a_eqv.
      cbn [nltb nleb nmul nsub nneg n0 n1 Rops fst snd ab_init ab_ref].
      set (r0 := if ab_init s then ab_ref s else x).
      set (sg := if a_decreasing c then - (1) else 1).
      destruct (Rltb 0 ((x - r0) * sg)) eqn:E0; cbn [fst snd ab_init ab_ref].
      + destruct (Rleb' ((r0 - a_stop c) * sg) 0) eqn:E1; cbn [fst snd ab_init ab_ref].
        * (* the reference moved to x: the re-executed step sees a zero difference *)
          rewrite Rltb_irrefl_mul. cbn [fst snd]. split; [split; reflexivity|].
          f_equal; unfold half, nhalf; cbn [nmul ndiv nneg n1 nofZ Rops]; ring.
        * rewrite E0, E1. cbn [fst snd]. split; [split; reflexivity | reflexivity].
      + rewrite E0. cbn [fst snd]. split; [split; reflexivity | reflexivity].
    - intros c s s' it rel rel' x _ [-> Hi] _ _. unfold a_eqv, abmd_step.
      destruct (nltb Rops (n0 Rops) _); cbn [fst snd ab_init]; repeat split; reflexivity.
    - intros c s s' _ [-> _]. reflexivity.
    - intros c s _ _. reflexivity.
  Qed.
End Abmd.

(* ------------------------------------------------------------------------------------------------ ALB (every carrier) *)
Section Alb.
  Context {T : Type} (O : NumOps T).

  Definition alb_inv (c : alb_cfg (T:=T)) (s : alb_state (T:=T)) : Prop := al_loaded s = false.
  Definition alb_eqv (c : alb_cfg (T:=T)) (s s' : alb_state (T:=T)) : Prop := s = s' /\ al_loaded s = false.

  Ltac alb_ifs := repeat match goal with |- context [if ?b then _ else _] => destruct b end.

  (* every step leaves the "state just loaded" flag off, and reports the energy and force of forceCoupling *)
  Lemma alb_step_facts c s rel x :
    al_loaded (fst (alb_step O c s rel x)) = false /\
    snd (alb_step O c s rel x) = alb_out O c (al_force_c (fst (alb_step O c s rel x))) x.
  Proof.
    unfold alb_step. destruct ((rel =? 0) && al_loaded s); [split; reflexivity|].
    destruct (negb (al_equil s)); cbn zeta; alb_ifs; split; reflexivity.
  Qed.

  Lemma alb_load_save (s : alb_state (T:=T)) : al_loaded s = false ->
    mkAlbState (al_set s) (al_cur s) (al_range s) (al_rate s) (al_accum s) (al_mean s) (al_ssd s)
               (al_calls s) (al_equil s) (al_force_c s) false = s.
  Proof. destruct s; cbn. intros ->. reflexivity. Qed.

  Theorem alb_resumable : resumable (alb_machine O) (fun _ => True) alb_inv alb_eqv eq eq eq.
  Proof.
    constructor; cbn [m_init m_step m_save m_after_save m_load alb_machine].
    - intros c _. reflexivity.
    - intros c s it rel x _ _ _. apply alb_step_facts.
    - intros c s it rel x _ _ _. cbn zeta.
      destruct (alb_step_facts c s rel x) as [Hl Ho].
      set (s1 := fst (alb_step O c s rel x)) in *.
      unfold alb_step at 1 2. unfold alb_load, alb_save. cbn [Z.eqb andb al_loaded al_set al_cur al_range al_rate al_accum
        al_mean al_ssd al_calls al_equil al_force_c fst snd].
      rewrite (alb_load_save s1 Hl). repeat split; auto.
    - intros c s s' it rel rel' x _ [<- Hl] Hr Hr'. unfold alb_eqv.
      assert (E : forall r, 0 < r -> alb_step O c s r x = alb_step O c s 1 x).
      { intros r Hp. unfold alb_step. rewrite Hl. rewrite !Bool.andb_false_r. reflexivity. }
      rewrite (E rel Hr), (E rel' Hr'). repeat split. apply alb_step_facts.
    - intros c s s' _ [<- _]. reflexivity.
    - intros c s _ _. unfold alb_load, alb_save. destruct s; reflexivity.
  Qed.
End Alb.

(* ------------------------------------------------------------------------------------------------ combinators *)
Section Pair.
  Context {C1 S1 I1 O1 V1 C2 S2 I2 O2 V2 : Type}
          (M1 : machine C1 S1 I1 O1 V1) (M2 : machine C2 S2 I2 O2 V2).
  Variables (Ok1 : C1 -> Prop) (Inv1 : C1 -> S1 -> Prop) (Eqv1 : C1 -> S1 -> S1 -> Prop)
            (OE01 OE1 : O1 -> O1 -> Prop) (SE1 : V1 -> V1 -> Prop).
  Variables (Ok2 : C2 -> Prop) (Inv2 : C2 -> S2 -> Prop) (Eqv2 : C2 -> S2 -> S2 -> Prop)
            (OE02 OE2 : O2 -> O2 -> Prop) (SE2 : V2 -> V2 -> Prop).

  Definition pair_rel {A B} (R1 : A -> A -> Prop) (R2 : B -> B -> Prop) (x y : A * B) : Prop :=
    R1 (fst x) (fst y) /\ R2 (snd x) (snd y).

  Theorem pair_resumable :
    resumable M1 Ok1 Inv1 Eqv1 OE01 OE1 SE1 -> resumable M2 Ok2 Inv2 Eqv2 OE02 OE2 SE2 ->
    resumable (pair_machine M1 M2)
      (fun c => Ok1 (fst c) /\ Ok2 (snd c))
      (fun c s => Inv1 (fst c) (fst s) /\ Inv2 (snd c) (snd s))
      (fun c s s' => Eqv1 (fst c) (fst s) (fst s') /\ Eqv2 (snd c) (snd s) (snd s'))
      (pair_rel OE01 OE02) (pair_rel OE1 OE2) (pair_rel SE1 SE2).
  Proof.
    intros H1 H2.
    constructor; cbn [m_init m_step m_save m_after_save m_load pair_machine fst snd]; unfold pair_rel; cbn [fst snd].
    - intros c [A B]. split; [apply (r_inv_init H1) | apply (r_inv_init H2)]; auto.
    - intros c s it rel i [A B] [IA IB] Hr. split; [apply (r_inv_step H1) | apply (r_inv_step H2)]; auto.
    - intros c s it rel i [A B] [IA IB] Hr. cbn zeta. cbn [fst snd].
      destruct (r_reexec H1 (fst c) (fst s) it rel (fst i) A IA Hr) as [E1 Q1].
      destruct (r_reexec H2 (snd c) (snd s) it rel (snd i) B IB Hr) as [E2 Q2].
      cbn zeta in *. auto.
    - intros c s s' it rel rel' i [A B] [EA EB] Hr Hr'.
      destruct (r_congr H1 (fst c) _ _ it rel rel' (fst i) A EA Hr Hr') as [E1 Q1].
      destruct (r_congr H2 (snd c) _ _ it rel rel' (snd i) B EB Hr Hr') as [E2 Q2]. auto.
    - intros c s s' [A B] [EA EB]. split; [apply (rs_save H1) | apply (rs_save H2)]; auto.
    - intros c s [A B] [IA IB]. split; [apply (rs_save_load H1) | apply (rs_save_load H2)]; auto.
  Qed.
End Pair.

Section Cascade.
  Context {C1 S1 I O1 V1 C2 S2 I2 O2 V2 : Type}
          (M1 : machine C1 S1 I O1 V1) (M2 : machine C2 S2 I2 O2 V2) (wire : I -> O1 -> I2).
  Variables (Ok1 : C1 -> Prop) (Inv1 : C1 -> S1 -> Prop) (Eqv1 : C1 -> S1 -> S1 -> Prop)
            (OE01 OE1 : O1 -> O1 -> Prop) (SE1 : V1 -> V1 -> Prop).
  Variables (Ok2 : C2 -> Prop) (Inv2 : C2 -> S2 -> Prop) (Eqv2 : C2 -> S2 -> S2 -> Prop)
            (OE02 OE2 : O2 -> O2 -> Prop) (SE2 : V2 -> V2 -> Prop).

  (* what the second object is fed must be the same in both runs whenever the first object's outputs agree *)
  Hypothesis wire0 : forall i o o', OE01 o o' -> wire i o = wire i o'.
  Hypothesis wire1 : forall i o o', OE1 o o' -> wire i o = wire i o'.

  Theorem cascade_resumable :
    resumable M1 Ok1 Inv1 Eqv1 OE01 OE1 SE1 -> resumable M2 Ok2 Inv2 Eqv2 OE02 OE2 SE2 ->
    resumable (cascade_machine M1 M2 wire)
      (fun c => Ok1 (fst c) /\ Ok2 (snd c))
      (fun c s => Inv1 (fst c) (fst s) /\ Inv2 (snd c) (snd s))
      (fun c s s' => Eqv1 (fst c) (fst s) (fst s') /\ Eqv2 (snd c) (snd s) (snd s'))
      (pair_rel OE01 OE02) (pair_rel OE1 OE2) (pair_rel SE1 SE2).
  Proof.
    intros H1 H2.
    constructor; cbn [m_init m_step m_save m_after_save m_load cascade_machine fst snd]; unfold pair_rel; cbn [fst snd].
    - intros c [A B]. split; [apply (r_inv_init H1) | apply (r_inv_init H2)]; auto.
    - intros c s it rel i [A B] [IA IB] Hr. split; [apply (r_inv_step H1) | apply (r_inv_step H2)]; auto.
    - intros c s it rel i [A B] [IA IB] Hr. cbn zeta. cbn [fst snd].
      destruct (r_reexec H1 (fst c) (fst s) it rel i A IA Hr) as [E1 Q1]. cbn zeta in E1, Q1.
      rewrite <- (wire0 i _ _ Q1).
      destruct (r_reexec H2 (snd c) (snd s) it rel (wire i (snd (m_step M1 (fst c) (fst s) it rel i))) B IB Hr) as [E2 Q2].
      cbn zeta in *. auto.
    - intros c s s' it rel rel' i [A B] [EA EB] Hr Hr'.
      destruct (r_congr H1 (fst c) _ _ it rel rel' i A EA Hr Hr') as [E1 Q1].
      rewrite <- (wire1 i _ _ Q1).
      destruct (r_congr H2 (snd c) _ _ it rel rel' (wire i (snd (m_step M1 (fst c) (fst s) it rel i))) B EB Hr Hr') as [E2 Q2]. auto.
    - intros c s s' [A B] [EA EB]. split; [apply (rs_save H1) | apply (rs_save H2)]; auto.
    - intros c s [A B] [IA IB]. split; [apply (rs_save_load H1) | apply (rs_save_load H2)]; auto.
  Qed.
End Cascade.

Section ListOf.
  Context {C S I Ou V : Type} (M : machine C S I Ou V).
  Variables (Ok : C -> Prop) (Inv : C -> S -> Prop) (Eqv : C -> S -> S -> Prop)
            (OE0 OE : Ou -> Ou -> Prop) (SE : V -> V -> Prop).

  Fixpoint all2 {A B} (P : A -> B -> Prop) (la : list A) (lb : list B) : Prop :=
    match la, lb with
    | [], [] => True
    | a :: ra, b :: rb => P a b /\ all2 P ra rb
    | _, _ => False
    end.
  Fixpoint all3 {A B} (P : A -> B -> B -> Prop) (la : list A) (lb lb' : list B) : Prop :=
    match la, lb, lb' with
    | [], [], [] => True
    | a :: ra, b :: rb, b' :: rb' => P a b b' /\ all3 P ra rb rb'
    | _, _, _ => False
    end.

  Lemma l_inv_init cs : Forall Ok cs -> resumable M Ok Inv Eqv OE0 OE SE -> all2 Inv cs (map (m_init M) cs).
  Proof.
    intros H HR. induction H as [|c r Hc Hr IH]; cbn [map all2]; auto. split; auto. apply (r_inv_init HR); auto.
  Qed.

  Theorem list_resumable :
    resumable M Ok Inv Eqv OE0 OE SE ->
    resumable (list_machine M) (Forall Ok) (all2 Inv) (all3 Eqv) (all2 OE0) (all2 OE) (all2 SE).
  Proof.
    intros HR.
    constructor; cbn [m_init m_step m_save m_after_save m_load list_machine fst snd].
    - intros cs H. apply l_inv_init; auto.
    - intros cs ss it rel i H. revert ss. induction H as [|c r Hc Hr IH]; intros ss Hi Hrel; destruct ss as [|s ss];
        cbn [all2 map2l map fst] in *; auto; try contradiction.
      destruct Hi as [Hi1 Hi2]. split; [apply (r_inv_step HR); auto | apply IH; auto].
    - intros cs ss it rel i H. revert ss. induction H as [|c r Hc Hr IH]; intros ss Hi Hrel; destruct ss as [|s ss];
        cbn [all2 all3 map2l map2r map fst snd] in *; auto; try contradiction.
      destruct Hi as [Hi1 Hi2].
      destruct (r_reexec HR c s it rel i Hc Hi1 Hrel) as [E Q]. cbn zeta in E, Q.
      destruct (IH ss Hi2 Hrel) as [E' Q']. cbn zeta in E', Q'. cbn zeta. cbn [fst snd map map2l map2r all2 all3]. auto.
    - intros cs ss ss' it rel rel' i H. revert ss ss'.
      induction H as [|c r Hc Hr IH]; intros ss ss' He Hrel Hrel'; destruct ss as [|s ss]; destruct ss' as [|s' ss'];
        cbn [all2 all3 map2l map fst snd] in *; auto; try contradiction.
      destruct He as [He1 He2].
      destruct (r_congr HR c s s' it rel rel' i Hc He1 Hrel Hrel') as [E Q].
      destruct (IH ss ss' He2 Hrel Hrel') as [E' Q']. auto.
    - intros cs ss ss' H. revert ss ss'.
      induction H as [|c r Hc Hr IH]; intros ss ss' He; destruct ss as [|s ss]; destruct ss' as [|s' ss'];
        cbn [all2 all3 map2l] in *; auto; try contradiction.
      destruct He as [He1 He2]. split; [apply (rs_save HR); auto | apply IH; auto].
    - intros cs ss H. revert ss.
      induction H as [|c r Hc Hr IH]; intros ss Hi; destruct ss as [|s ss]; cbn [all2 map2l] in *; auto; try contradiction.
      destruct Hi as [Hi1 Hi2]. split; [apply (rs_save_load HR); auto | apply IH; auto].
  Qed.
End ListOf.

(* ------------------------------------------------------------------------------------------------ extended Lagrangian *)
Section ExtLag.
  Context {T : Type} (O : NumOps T).
  Context {BC BS BI BO BV : Type} (B : machine BC BS BI BO BV) (force_of : BO -> T) (bin : xcfg (T:=T) -> xstate (T:=T) -> BI).
  Variables (OkB : BC -> Prop) (InvB : BC -> BS -> Prop) (EqvB : BC -> BS -> BS -> Prop)
            (OE0B OEB : BO -> BO -> Prop) (SEB : BV -> BV -> Prop).
  Hypothesis force0 : forall o o', OE0B o o' -> force_of o = force_of o'.
  Hypothesis force1 : forall o o', OEB o o' -> force_of o = force_of o'.

  Definition xl_out_eq (R : BO -> BO -> Prop) (o o' : T * T * BO) : Prop :=
    fst (fst o) = fst (fst o') /\ snd (fst o) = snd (fst o') /\ R (snd o) (snd o').

  Lemma x_pre_shape (c : xcfg (T:=T)) s rel x :
    let p := x_pre O c s rel x in
    xs_set p = true /\ xs_x p = xs_xr p /\ xs_v p = xs_vr p /\ xs_after_restart p = false /\ xs_xval p = x.
  Proof. cbn zeta. unfold x_pre. cbn [xs_set xs_x xs_v xs_xr xs_vr xs_after_restart xs_xval]. auto. Qed.

  Lemma x_reexec (c : xcfg (T:=T)) s rel x f rnd :
    let p := x_pre O c s rel x in
    x_pre O c (x_load (x_save (fst (x_post O c p f rnd)))) 0 x = p.
  Proof.
    cbn zeta. destruct (x_pre_shape c s rel x) as (P1 & P2 & P3 & P4 & P5). cbn zeta in *.
    set (p := x_pre O c s rel x) in *.
    unfold x_post, x_save, x_load. cbn [fst snd xs_xval xs_xr xs_vr].
    unfold x_pre. cbn [xs_set xs_x xs_v xs_xr xs_vr xs_after_restart xs_xval Z.eqb negb andb orb].
    destruct p as [a b c0 d e f0 g]. cbn [xs_set xs_x xs_v xs_xr xs_vr xs_after_restart xs_xval] in *. subst. reflexivity.
  Qed.

  Theorem extlag_resumable :
    resumable B OkB InvB EqvB OE0B OEB SEB ->
    resumable (extlag_machine O B force_of bin)
      (fun c => OkB (snd c))
      (fun c s => InvB (snd c) (snd s))
      (fun c s s' => fst s = fst s' /\ EqvB (snd c) (snd s) (snd s'))
      (xl_out_eq OE0B) (xl_out_eq OEB)
      (fun v v' => fst v = fst v' /\ SEB (snd v) (snd v')).
  Proof.
    intros HB.
    constructor; cbn [m_init m_step m_save m_after_save m_load extlag_machine fst snd].
    - intros c Hc. apply (r_inv_init HB); auto.
    - intros c s it rel i Hc Hi Hr. apply (r_inv_step HB); auto.
    - intros c s it rel i Hc Hi Hr. cbn zeta. cbn [fst snd].
      set (p := x_pre O (fst c) (fst s) rel (xi_x i)).
      set (rb := m_step B (snd c) (snd s) it rel (bin (fst c) p)).
      pose proof (x_reexec (fst c) (fst s) rel (xi_x i) (force_of (snd rb)) (xi_rnd i)) as Hx.
      cbn zeta in Hx. fold p in Hx. rewrite Hx. clear Hx.
      destruct (r_reexec HB (snd c) (snd s) it rel (bin (fst c) p) Hc Hi Hr) as [E Q]. cbn zeta in E, Q. fold rb in E, Q.
      rewrite <- (force0 _ _ Q). unfold xl_out_eq. cbn [fst snd]. auto.
    - intros c s s' it rel rel' i Hc [E1 E2] Hr Hr'. rewrite <- E1.
      assert (Hp : x_pre O (fst c) (fst s) rel (xi_x i) = x_pre O (fst c) (fst s) rel' (xi_x i)).
      { unfold x_pre. replace (rel =? 0) with false by (symmetry; apply Z.eqb_neq; lia).
        replace (rel' =? 0) with false by (symmetry; apply Z.eqb_neq; lia). reflexivity. }
      rewrite <- Hp.
      set (p := x_pre O (fst c) (fst s) rel (xi_x i)).
      destruct (r_congr HB (snd c) _ _ it rel rel' (bin (fst c) p) Hc E2 Hr Hr') as [E Q].
      rewrite <- (force1 _ _ Q). unfold xl_out_eq. cbn [fst snd]. auto.
    - intros c s s' Hc [E1 E2]. rewrite E1. split; [reflexivity | apply (rs_save HB); auto].
    - intros c s Hc Hi. split; [|apply (rs_save_load HB); auto].
      unfold x_save, x_load. cbn [xs_xval xs_xr xs_vr fst snd]. destruct (fst s); reflexivity.
  Qed.
End ExtLag.
