(* Abstract numeric carrier: every numeric model is written once over [NumOps T] and
   instantiated at R (theorems, Base/RNum.v) and at OCaml floats (correspondence driver). *)
From Coq Require Import ZArith List.

Record NumOps (T : Type) := mkNumOps {
  n0 : T; n1 : T;
  nadd : T -> T -> T; nsub : T -> T -> T; nmul : T -> T -> T; ndiv : T -> T -> T;
  nneg : T -> T;
  nsqrt : T -> T; nexp : T -> T; nlog : T -> T; ncos : T -> T; nsin : T -> T; nacos : T -> T;
  natan2 : T -> T -> T; npow : T -> T -> T;
  nofZ : Z -> T; nfloor : T -> Z;
  nltb : T -> T -> bool; nleb : T -> T -> bool; neqb : T -> T -> bool
}.

Arguments n0 {T}. Arguments n1 {T}. Arguments nadd {T}. Arguments nsub {T}. Arguments nmul {T}.
Arguments ndiv {T}. Arguments nneg {T}. Arguments nsqrt {T}. Arguments nexp {T}. Arguments nlog {T}.
Arguments ncos {T}. Arguments nsin {T}. Arguments nacos {T}. Arguments natan2 {T}. Arguments npow {T}.
Arguments nofZ {T}. Arguments nfloor {T}. Arguments nltb {T}. Arguments nleb {T}. Arguments neqb {T}.

Section Derived.
  Context {T : Type} (O : NumOps T).
  Definition nhalf : T := ndiv O (n1 O) (nofZ O 2).
  Definition nsq (x : T) : T := nmul O x x.
  Definition nsum (l : list T) : T := fold_left (nadd O) l (n0 O).
  Definition nmax (a b : T) : T := if nltb O a b then b else a.
  Definition nmin (a b : T) : T := if nltb O b a then b else a.
  Definition nabs (a : T) : T := if nltb O a (n0 O) then nneg O a else a.
End Derived.
