(* The instance of NumOps at Coq's real numbers.  Theorems about numeric models are stated
   for this instance.  floor is Flocq's Zfloor; atan2 and pow are only used where noted. *)
From Coq Require Import ZArith Reals Lra Lia.
From Flocq Require Import Core.Raux.
From CV Require Import Base.Num.
Local Open Scope R_scope.

Definition Rltb (a b : R) : bool := if Rlt_dec a b then true else false.
Definition Rleb' (a b : R) : bool := if Rle_dec a b then true else false.
Definition Reqb' (a b : R) : bool := if Req_EM_T a b then true else false.

(* atan2 as used by the C++ (principal value in (-pi, pi]) *)
Definition Ratan2 (y x : R) : R :=
  if Rlt_dec 0 x then atan (y / x)
  else if Rlt_dec x 0 then (if Rle_dec 0 y then atan (y / x) + PI else atan (y / x) - PI)
  else if Rlt_dec 0 y then PI / 2 else if Rlt_dec y 0 then - PI / 2 else 0.

Definition Rops : NumOps R :=
  mkNumOps R 0 1 Rplus Rminus Rmult Rdiv Ropp sqrt exp ln cos sin acos Ratan2 Rpower
           IZR Zfloor Rltb Rleb' Reqb'.

Lemma Rltb_true a b : Rltb a b = true <-> a < b.
Proof. unfold Rltb; destruct (Rlt_dec a b); split; intros; try easy. Qed.
Lemma Rltb_false a b : Rltb a b = false <-> b <= a.
Proof. unfold Rltb; destruct (Rlt_dec a b); split; intros; try easy; lra. Qed.
Lemma Rleb_true a b : Rleb' a b = true <-> a <= b.
Proof. unfold Rleb'; destruct (Rle_dec a b); split; intros; try easy. Qed.
Lemma Rleb_false a b : Rleb' a b = false <-> b < a.
Proof. unfold Rleb'; destruct (Rle_dec a b); split; intros; try easy; lra. Qed.
Lemma Reqb_true a b : Reqb' a b = true <-> a = b.
Proof. unfold Reqb'; destruct (Req_EM_T a b); split; intros; try easy. Qed.

(* floor facts used by the grid and periodic-distance theorems *)
Lemma Zfloor_spec x i : Zfloor x = i <-> IZR i <= x < IZR i + 1.
Proof.
  split.
  - intros <-. split; [apply Zfloor_lb | apply Zfloor_ub].
  - intros [H1 H2]. apply Zfloor_imp. rewrite plus_IZR. simpl. lra.
Qed.

Lemma Zfloor_add_IZR x n : Zfloor (x + IZR n) = (Zfloor x + n)%Z.
Proof.
  apply Zfloor_imp. rewrite !plus_IZR. simpl.
  pose proof (Zfloor_lb x). pose proof (Zfloor_ub x). lra.
Qed.
