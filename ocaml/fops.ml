(* Shared by all drivers: the float instance of NumOps and Z <-> int conversions.
   Compiled after the extracted model.ml of the property (module Model). *)
open Model

let rec pos_of_int (n : int) : positive =
  if n <= 1 then XH
  else if n land 1 = 0 then XO (pos_of_int (n lsr 1))
  else XI (pos_of_int (n lsr 1))

let z_of_int (n : int) : z =
  if n = 0 then Z0 else if n > 0 then Zpos (pos_of_int n) else Zneg (pos_of_int (- n))

let rec int_of_pos (p : positive) : int =
  match p with XH -> 1 | XO q -> 2 * int_of_pos q | XI q -> 2 * int_of_pos q + 1

let int_of_z (x : z) : int =
  match x with Z0 -> 0 | Zpos p -> int_of_pos p | Zneg p -> - (int_of_pos p)

(* nat conversions are not defined here: not every extracted model contains nat; a driver that needs
   them defines  let rec nat_of_int n = if n <= 0 then O else S (nat_of_int (n - 1))  itself *)

(* floor to Z: the C++ casts cvm::floor(x) to int; inputs are generated well inside the int range *)
let z_of_float_floor (x : float) : z =
  if Float.is_nan x then Z0
  else
    let f = Float.floor x in
    if f > 4.0e18 then z_of_int max_int else if f < -4.0e18 then z_of_int min_int
    else z_of_int (int_of_float f)

let fops : float numOps = {
  n0 = 0.0; n1 = 1.0;
  nadd = ( +. ); nsub = ( -. ); nmul = ( *. ); ndiv = ( /. );
  nneg = (fun x -> -. x);
  nsqrt = sqrt; nexp = exp; nlog = log; ncos = cos; nsin = sin; nacos = acos;
  natan2 = Float.atan2; npow = Float.pow;
  nofZ = (fun z -> float_of_int (int_of_z z));
  nfloor = z_of_float_floor;
  nltb = (fun a b -> a < b); nleb = (fun a b -> a <= b); neqb = (fun a b -> a = b);
}

let hex (x : float) : string = Printf.sprintf "%h" x
let fl (s : string) : float = float_of_string s
let words (s : string) : string list =
  List.filter (fun w -> w <> "") (String.split_on_char ' ' (String.trim s))
