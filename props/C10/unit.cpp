// c10sim: the engine simulator (harness/vsim.h) as a one-scenario-per-process host for the C10 sweeps.
// Differences from vsim: stdout is unbuffered (what was printed before a death is kept), `objs` prints the
// object lists, `frame F k` loads atom positions from frame k of an xyz trajectory, and main() prints EXIT at the
// end so a clean exit is distinguishable from exit() called inside the library.  Exceptions are NOT caught: an
// exception that leaves the library terminates the host, which is what the property forbids.
#include "vsim.h"

struct c10_session : public vsim_session {
  c10_session(std::ostream *o) : vsim_session(o) {}
  bool exec_extra(std::string const &cmd, std::vector<std::string> const &a, std::istream &) override
  {
    std::ostream &o = *out;
    if (cmd == "objs") {
      colvarmodule *cv = proxy->colvars;
      o << "OBJS cv=";
      for (colvar *c : *(cv->variables())) o << c->name << ",";
      o << " bias=";
      for (colvarbias *b : cv->biases) o << b->name << ",";
      o << " nfeat=" << cv->variables_active()->size() << "\n";
      return true;
    }
    if (cmd == "frame") {
      std::ifstream f(a[0].c_str());
      int k = atoi(a[1].c_str());
      std::string line;
      for (int fr = 0; fr <= k; fr++) {
        int n = 0;
        if (!(f >> n)) { o << "FRAME err\n"; return true; }
        std::getline(f, line); std::getline(f, line);
        for (int i = 0; i < n; i++) {
          std::string sym; double x, y, z;
          f >> sym >> x >> y >> z;
          if (fr == k && i < eng.natoms) eng.pos[i] = cvm::rvector(x, y, z);
        }
      }
      return true;
    }
    return false;
  }
};

int main(int argc, char **argv)
{
  std::cout << std::unitbuf;
  c10_session s(&std::cout);
  if (argc > 1 && std::string(argv[1]) != "-") {
    std::ifstream f(argv[1]);
    if (!f) { std::cerr << "cannot open " << argv[1] << "\n"; return 2; }
    s.run(f);
  } else {
    s.run(std::cin);
  }
  std::cout << "EXIT\n";
  std::cout.flush();
  return 0;
}
