// c10sim: the engine simulator (harness/vsim.h) as a one-scenario-per-process host for the C10 sweeps.
// Differences from vsim: stdout is unbuffered (what was printed before a death is kept), `objs` prints the
// object lists, `frame F k` loads atom positions from frame k of an xyz trajectory, and main() prints EXIT at the
// end so a clean exit is distinguishable from exit() called inside the library.  Exceptions are NOT caught: an
// exception that leaves the library terminates the host, which is what the property forbids.
#include "vsim.h"

struct c10_session : public vsim_session {
  c10_session(std::ostream *o) : vsim_session(o) {}
  bool exec_extra(std::string const &cmd, std::vector<std::string> const &a, std::istream &) override
  {
    std::ostream &o = *out;
    if (cmd == "objs") {
      colvarmodule *cv = proxy->colvars;
      o << "OBJS cv=";
      for (colvar *c : *(cv->variables())) o << c->name << ",";
      o << " bias=";
      for (colvarbias *b : cv->biases) o << b->name << ",";
      o << " nfeat=" << cv->variables_active()->size() << "\n";
      return true;
    }
    if (cmd == "outprefix") {
      // (re)run the output set-up after the configuration: this is when multiple-walker biases register themselves
      proxy->set_output_prefix(a.size() ? a[0] : "");
      cvm::clear_error();
      int err = proxy->colvars->setup_output();
      o << "OUTPREFIX err=" << vs_errclass(err | cvm::get_error()) << "\n";
      cvm::clear_error();
      return true;
    }
    if (cmd == "scriptv") {
      // script command with verbatim arguments (they may contain blanks and double quotes): the rest of the line,
      // split at '|'.  modifycvcs takes ONE argument holding double-quoted strings: scriptv cv|colvar|x|modifycvcs|"componentExp 2"
      std::string rest;
      for (size_t i = 0; i < a.size(); i++) rest += (i ? " " : "") + a[i];
      std::vector<std::string> words;
      size_t pos = 0;
      while (true) {
        size_t q = rest.find('|', pos);
        words.push_back(rest.substr(pos, q == std::string::npos ? std::string::npos : q - pos));
        if (q == std::string::npos) break;
        pos = q + 1;
      }
      std::vector<unsigned char *> argv;
      for (auto &w : words) argv.push_back((unsigned char *) w.c_str());
      cvm::clear_error();
      int err = run_colvarscript_command(argv.size(), argv.data());
      std::string res = get_colvarscript_result();
      std::replace(res.begin(), res.end(), '\n', ' ');
      o << "SCRIPT err=" << (err == COLVARS_OK ? "ok" : "error") << " result=" << res.substr(0, 120) << "\n";
      cvm::clear_error();
      return true;
    }
    if (cmd == "putfile") {
      // putfile NAME text...   ("\n" in the text = line break): (re)write an auxiliary input file between configurations
      std::string rest;
      for (size_t i = 1; i < a.size(); i++) rest += (i > 1 ? " " : "") + a[i];
      std::string txt;
      for (size_t i = 0; i < rest.size(); i++) {
        if (rest[i] == '\\' && i + 1 < rest.size() && rest[i + 1] == 'n') { txt += '\n'; i++; } else txt += rest[i];
      }
      std::ofstream f(a[0].c_str());
      f << txt << "\n";
      return true;
    }
    if (cmd == "globals") {
      // module-level state other than the object lists: the values set by module-level keywords, the index-group
      // registry (a NULL entry is printed as such, not dereferenced) and the names of the registered named atom groups
      colvarmodule *cv = proxy->colvars;
      o << "GLOBALS trajfreq=" << cvm::cv_traj_freq << " restartfreq=" << cvm::restart_out_freq
        << " scriptedforces=" << (cvm::use_scripted_forces ? 1 : 0) << " scriptingafter=" << (cvm::scripting_after_biases ? 1 : 0)
        << " smp=" << int(proxy->get_smp_mode()) << " units=" << proxy->units << "\n";
      o << "GROUPS";
      for (size_t i = 0; i < cv->index_group_names.size(); i++) {
        o << " " << cv->index_group_names[i] << "=";
        if (i >= cv->index_groups.size()) { o << "MISSING"; continue; }
        if (cv->index_groups[i] == NULL) { o << "NULL"; continue; }
        for (size_t j = 0; j < cv->index_groups[i]->size(); j++) o << (j ? "," : "") << (*(cv->index_groups[i]))[j];
        if (cv->index_groups[i]->size() == 0) o << "empty";
      }
      o << " files=" << cv->index_file_names.size() << "\n";
      o << "ACTIVE";
      for (colvar *c : *(cv->variables())) if (c->is_enabled()) o << " " << c->name;
      o << "\n";
      o << "NAMED";
      for (size_t i = 0; i < a.size(); i++) o << " " << a[i] << "=" << (cvm::atom_group_by_name(a[i]) != NULL ? 1 : 0);
      o << "\n";
      return true;
    }
    if (cmd == "frame") {
      std::ifstream f(a[0].c_str());
      int k = atoi(a[1].c_str());
      std::string line;
      for (int fr = 0; fr <= k; fr++) {
        int n = 0;
        if (!(f >> n)) { o << "FRAME err\n"; return true; }
        std::getline(f, line); std::getline(f, line);
        for (int i = 0; i < n; i++) {
          std::string sym; double x, y, z;
          f >> sym >> x >> y >> z;
          if (fr == k && i < eng.natoms) eng.pos[i] = cvm::rvector(x, y, z);
        }
      }
      return true;
    }
    return false;
  }
};

int main(int argc, char **argv)
{
  std::cout << std::unitbuf;
  c10_session s(&std::cout);
  if (argc > 1 && std::string(argv[1]) != "-") {
    std::ifstream f(argv[1]);
    if (!f) { std::cerr << "cannot open " << argv[1] << "\n"; return 2; }
    s.run(f);
  } else {
    s.run(std::cin);
  }
  std::cout << "EXIT\n";
  std::cout.flush();
  return 0;
}
