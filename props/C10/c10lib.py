# C10 support library: running one scenario per process and classifying the outcome, harvesting the
# keywords that the parser looks up from the echo lines of a valid parse, and building mutated configurations.
import os, re, signal, subprocess, resource, shutil, json
import concurrent.futures as cf
import vcommon as V

INPUTS = os.path.join(V.REPO, "tests", "input_files")
JOBS = max(1, min(4, int(os.environ.get("VERIF_JOBS", "4"))))

BOUNDARY_VALUES = ["0", "-1", "1", "2147483647", "1e300", "nan", "inf"]
EXTRA_VALUES = ["2", "-2147483648", "4294967296", "2305843009213693952", "18446744073709551615", "1e-300", "-1e300", "0.5"]

MEM_LIMIT = 3 << 30         # address-space limit of a plain run (bytes): an unchecked huge size fails to allocate
ASAN_OPTS = "detect_leaks=0:max_allocation_size_mb=3072:allocator_may_return_null=0:abort_on_error=0:exitcode=99"
UBSAN_OPTS = "print_stacktrace=0:halt_on_error=1:exitcode=99"


def _limits():
    resource.setrlimit(resource.RLIMIT_AS, (MEM_LIMIT, MEM_LIMIT))
    resource.setrlimit(resource.RLIMIT_CORE, (0, 0))
    resource.setrlimit(resource.RLIMIT_FSIZE, (1 << 28, 1 << 28))


def _nocore():
    resource.setrlimit(resource.RLIMIT_CORE, (0, 0))
    resource.setrlimit(resource.RLIMIT_FSIZE, (1 << 28, 1 << 28))


def run_scenario(exe, text, workdir, variant="plain", timeout=20):
    """see _run_scenario; a run that times out is repeated once with four times the allowance, so that a loaded machine
    (the sanitizer build is slow to start) is not reported as a hang: a genuine hang times out twice"""
    res = _run_scenario(exe, text, workdir, variant, timeout)
    if res["cls"] == "timeout":
        res = _run_scenario(exe, text, workdir, variant, 4 * timeout)
    return res


def _run_scenario(exe, text, workdir, variant="plain", timeout=20):
    """Run one scenario in its own process (cwd = workdir). Returns dict(cls, detail, out, rc).
    cls: 'ok' (process ended normally; see CONFIG lines for accepted/rejected) or a death class:
    'signal:<NAME>', 'sanitizer', 'exception', 'timeout', 'exit-in-library'."""
    os.makedirs(workdir, exist_ok=True)
    scn = os.path.join(workdir, "case.scn")
    with open(scn, "w") as f:
        f.write(text)
    env = dict(os.environ)
    env["OMP_NUM_THREADS"] = "1"
    if variant == "asan":
        env["ASAN_OPTIONS"] = ASAN_OPTS
        env["UBSAN_OPTIONS"] = UBSAN_OPTS
    try:
        p = subprocess.run([exe, scn], cwd=workdir, env=env, timeout=timeout, stdout=subprocess.PIPE,
                           stderr=subprocess.PIPE, preexec_fn=(_limits if variant == "plain" else _nocore))
        rc, out, err = p.returncode, p.stdout.decode("utf8", "replace"), p.stderr.decode("utf8", "replace")
    except subprocess.TimeoutExpired as ex:
        out = (ex.stdout or b"").decode("utf8", "replace")
        return {"cls": "timeout", "detail": "no result within %d s" % timeout, "out": out, "rc": None}
    cls, detail = "ok", ""
    if re.search(r"AddressSanitizer: (requested allocation size|allocator is out of memory|out of memory)", err):
        # under ASan a refused operator new is always fatal (it never throws std::bad_alloc): what the library does
        # with a refused allocation can only be observed in the plain build -> inconclusive here
        return {"cls": "ok", "detail": "allocation refused by the sanitizer's allocator", "out": out + "\nEXIT\n", "rc": rc, "skipped": True}
    if "AddressSanitizer" in err or "runtime error:" in err or "LeakSanitizer" in err:
        cls = "sanitizer"
        m = re.search(r"(ERROR: AddressSanitizer[^\n]*|[^\n]*runtime error:[^\n]*)", err)
        detail = m.group(1)[:300] if m else err[:300]
    elif "terminate called" in err:
        cls = "exception"
        m = re.search(r"terminate called[^\n]*\n?[^\n]*", err)
        detail = m.group(0).replace("\n", " ")[:300]
    elif rc == -signal.SIGXFSZ:
        # the harness's own output-size limit: not an event of the property (the case is counted as skipped)
        return {"cls": "ok", "detail": "output larger than the harness limit", "out": out + "\nEXIT\n", "rc": rc, "skipped": True}
    elif rc < 0:
        try:
            cls = "signal:" + signal.Signals(-rc).name
        except ValueError:
            cls = "signal:%d" % (-rc)
        detail = err[-200:]
    elif rc != 0:
        cls = "exit-in-library"
        detail = "exit status %d: %s" % (rc, err[-200:])
    elif "\nEXIT\n" not in ("\n" + out):        # (messages printed while the module is destroyed may follow EXIT)
        cls = "exit-in-library"
        detail = "process ended with status 0 before the end of the scenario"
    return {"cls": cls, "detail": detail, "out": out, "rc": rc}


def config_results(out):
    """[(errclass, ncv, nbias)] for every CONFIG line of a run"""
    return [(m.group(1), int(m.group(2)), int(m.group(3)))
            for m in re.finditer(r"CONFIG err=(\S+) ncv=(\d+) nbias=(\d+)", out)]


def death_site(out):
    """where in the scenario the process died: the phase after the last line it printed"""
    lines = [l for l in out.strip().split("\n") if l]
    if not lines:
        return "start"
    last = lines[-1].split()[0]
    n_cfg = sum(1 for l in lines if l.startswith("CONFIG"))
    n_step = sum(1 for l in lines if l.startswith("STEP"))
    if n_step == 0 and last in ("FRESH", "OBJS", "CONFIG", "LOAD") and n_cfg < 2 and "OBJS" not in [l.split()[0] for l in lines[-1:]]:
        pass
    return "after:%s cfg=%d steps=%d" % (last, n_cfg, n_step)


def run_many(jobs):
    """jobs: list of (key, exe, text, workdir, variant, timeout) -> {key: result}; at most JOBS processes"""
    res = {}
    with cf.ThreadPoolExecutor(max_workers=JOBS) as ex:
        futs = {ex.submit(run_scenario, j[1], j[2], j[3], j[4], j[5]): j[0] for j in jobs}
        for f in cf.as_completed(futs):
            res[futs[f]] = f.result()
    return res


# ------------------------------------------------------------------------------------------------
# configuration text as a tree of blocks
# ------------------------------------------------------------------------------------------------

class Block:
    def __init__(self, key, parent=None):
        self.key = key            # lower-case keyword that opened the block ('' = top level)
        self.items = []           # ('kv', keyword, value_text) | ('block', Block) | ('raw', text)
        self.parent = parent

    def children(self):
        return [it[1] for it in self.items if it[0] == "block"]

    def render(self, depth=0):
        ind = "  " * depth
        L = []
        for it in self.items:
            if it[0] == "kv":
                L.append("%s%s %s" % (ind, it[1], it[2]))
            elif it[0] == "raw":
                L.append(ind + it[1])
            else:
                L.append("%s%s {" % (ind, it[1].key_text))
                L.append(it[1].render(depth + 1))
                L.append(ind + "}")
        return "\n".join(L)


def parse_config(text):
    """Line-oriented parse of the test configurations (keyword value / keyword { ... } possibly on one line)."""
    # normalise: strip comments, put braces on their own tokens
    lines = []
    for l in text.split("\n"):
        l = l.split("#")[0].rstrip()
        if l.strip():
            lines.append(l.strip())
    root = Block("")
    root.key_text = ""
    cur = root
    for l in lines:
        # handle one-line blocks "main { atomNumbers 1 }" and "}" lines, "key {" lines
        toks = l
        while toks:
            toks = toks.strip()
            if not toks:
                break
            if toks.startswith("}"):
                cur = cur.parent if cur.parent is not None else cur
                toks = toks[1:]
                continue
            m = re.match(r"([A-Za-z_][A-Za-z0-9_]*)\s*\{(.*)$", toks)
            if m:
                b = Block(m.group(1).lower(), cur)
                b.key_text = m.group(1)
                cur.items.append(("block", b))
                cur = b
                toks = m.group(2)
                continue
            # keyword value (up to a closing brace on the same line, if the value has no braces of its own)
            m = re.match(r"([A-Za-z_][A-Za-z0-9_]*)\s*(.*)$", toks)
            if not m:
                cur.items.append(("raw", toks))
                break
            kw, rest = m.group(1), m.group(2)
            if "{" in rest:       # value with braces (e.g. customFunction never has; refPositions lists use parentheses)
                cur.items.append(("raw", toks))
                break
            if "}" in rest:
                val, after = rest.split("}", 1)
                cur.items.append(("kv", kw, val.strip()))
                toks = "}" + after
                continue
            cur.items.append(("kv", kw, rest.strip()))
            break
    return root


def all_blocks(root):
    out = [root]
    for c in root.children():
        out += all_blocks(c)
    return out


def block_path(b):
    p = []
    while b is not None and b.key != "":
        p.append(b.key)
        b = b.parent
    return "/".join(reversed(p))


BIAS_KEYS = ["abf", "abmd", "alb", "harmonic", "harmonicwalls", "histogram", "histogramrestraint", "linear",
             "metadynamics", "reweightamd", "opes_metad"]


def harvest(logtext):
    """Keywords echoed by a valid parse: list of (path, keyword, is_default) where path is a tuple of
    (label, ordinal) for the enclosing 'Initializing ...' markers (label = colvar | cvc:<type> | group:<key> |
    bias:<type>; ordinal counts markers with the same label under the same parent)."""
    out = []
    stack = []      # (depth, label, ordinal, counters-of-children)
    top_counts = {}
    for line in logtext.split("\n"):
        if not line.strip():
            continue
        depth = (len(line) - len(line.lstrip(" "))) // 2
        s = line.strip()
        lab = None
        if re.match(r'Initializing a new collective variable', s):
            lab = "colvar"
        m = re.match(r'Initializing a new "([^"]+)" component', s)
        if m:
            lab = "cvc:" + m.group(1).lower()
        m = re.match(r'Initializing atom group "([^"]+)"', s)
        if m:
            lab = "group:" + m.group(1).lower()
        m = re.match(r'Initializing a new "([^"]+)" instance', s)
        if m:
            lab = "bias:" + m.group(1).lower()
        if lab:
            while stack and stack[-1][0] >= depth:
                stack.pop()
            counts = stack[-1][3] if stack else top_counts
            k = counts.get(lab, 0)
            counts[lab] = k + 1
            stack.append((depth, lab, k, {}))
            continue
        m = re.match(r'# ([A-Za-z_][A-Za-z0-9_]*) = (.*)$', s)
        if m:
            # an echo line is printed at the depth of the marker of the object that looks the keyword up
            while stack and stack[-1][0] > depth:
                stack.pop()
            out.append((tuple((l, k) for _, l, k, _ in stack), m.group(1), s.endswith("[default]")))
    return out


def resolve(root, path):
    """config block that a harvested path refers to (deepest one that can be resolved)"""
    cur = root
    for lab, k in path:
        if lab == "colvar":
            want = "colvar"
        else:
            want = lab.split(":", 1)[1]
        cands = [c for c in cur.children() if c.key == want]
        if lab.startswith("group:"):
            k = 0
        if k < len(cands):
            cur = cands[k]
        else:
            break
    return cur


def mutate(root, block, keyword, value, first_only=False):
    """render the configuration with `keyword` set to `value` in `block` (replaced if present, else inserted)"""
    saved = list(block.items)
    done = False
    for i, it in enumerate(block.items):
        if it[0] == "kv" and it[1].lower() == keyword.lower():
            v = value
            if first_only:
                parts = it[2].split()
                v = " ".join([value] + parts[1:])
            block.items[i] = ("kv", it[1], v)
            done = True
            break
    if not done:
        block.items.insert(0, ("kv", keyword, value))
    txt = root.render()
    block.items = saved
    return txt


def remove_keyword(root, block, keyword):
    """render the configuration with `keyword` removed from `block` (the keyword is then ABSENT: its default is used)"""
    saved = list(block.items)
    block.items = [it for it in block.items if not (it[0] == "kv" and it[1].lower() == keyword.lower())]
    txt = root.render()
    block.items = saved
    return txt
