# Static harvest of guard-relevant keywords from the CURRENT source tree (V.REPO/src):
# every get_keyval(conf, "keyword", destination, ...) whose destination is an integer used somewhere as a divisor, a
# modulus, an allocation size / array length, a loop bound or an index, or a real that is cast to an integer or used
# as a size.  The result is diffed with the hand-written guard table on every run (check.py) and written to
# coq/Gen/GenGuards.v, against which the coverage theorem of Properties_C10.v is re-checked.
# Regex-based and therefore conservative by identifier name (no scoping): a false match is resolved by hand in
# table.py (COVERED / EXEMPT with a reason), a NEW match that is in neither list fails the check.
import os, re, glob

INT_TYPES = ("size_t", "int", "long", "unsigned", "cvm::step_number", "long long", "unsigned int", "std::size_t")
REAL_TYPES = ("cvm::real", "double", "float")

# accessors / local copies through which a destination reaches a use site (found by reading the code once;
# the scanner also picks up `T const x = ...dest...;` copies automatically)
ALIASES = {
    "time_step_factor": ["get_time_step_factor"],
    "replica_update_freq": ["get_replica_update_freq"],
}


def strip_comments(txt):
    txt = re.sub(r"/\*.*?\*/", lambda m: "\n" * m.group(0).count("\n"), txt, flags=re.S)
    txt = re.sub(r"//[^\n]*", "", txt)
    return txt


def load_sources(src):
    files = {}
    for p in sorted(glob.glob(os.path.join(src, "*.cpp")) + glob.glob(os.path.join(src, "*.h"))):
        b = os.path.basename(p)
        if b.startswith("lepton") or b == "colvarparse.cpp" or b == "colvarparse.h":
            continue
        files[b] = strip_comments(open(p, errors="replace").read())
    return files


KEYVAL = re.compile(r'get_keyval\s*\(\s*[\w.>()-]+\s*,\s*"(\w+)"\s*,\s*([^,;]+?)\s*(?:,|\)\s*[;){&|])', re.S)


def keyval_sites(files):
    out = []
    for f, txt in files.items():
        if not f.endswith(".cpp") and f != "colvargrid_def.h" and f != "colvargrid.h":
            continue
        for m in KEYVAL.finditer(txt):
            kw, dest = m.group(1), m.group(2).strip()
            dest = re.sub(r"^\(?\s*this->", "", dest).strip("&() ")
            if not re.fullmatch(r"[A-Za-z_]\w*", dest):
                # member of something / call result: keep the last identifier when it is a plain member access
                mm = re.fullmatch(r"[\w.>-]+(?:\.|->)([A-Za-z_]\w*)", dest)
                if not mm:
                    continue
                dest = mm.group(1)
            line = txt.count("\n", 0, m.start()) + 1
            out.append((f, line, kw, dest))
    return out


def decl_type(files, f, dest):
    """declared type of an identifier: the class header of the file first, then the file, then every header"""
    stem = f.rsplit(".", 1)[0]
    order = [stem + ".h", f] + [h for h in files if h.endswith(".h")]
    pat = re.compile(r"(?<![\w:])(std::vector\s*<[^;>]+>|(?:unsigned\s+|long\s+)?(?:std::)?(?:cvm::)?[A-Za-z_]\w*)\s+(?:const\s+)?(?:\w+\s*,\s*)*" +
                     re.escape(dest) + r"\s*(?:=[^;,]*)?[;,)]")
    for h in order:
        txt = files.get(h)
        if not txt:
            continue
        for m in pat.finditer(txt):
            t = re.sub(r"\s+", " ", m.group(1)).strip()
            if t in ("return", "delete", "new", "else", "case", "typename", "class", "struct", "goto", "const"):
                continue
            return t
    return None


def uses_of(files, names):
    """guard-relevant uses of any of the identifiers `names`: [(kind, file, line, text)]"""
    alt = "|".join(re.escape(n) for n in names)
    idn = r"(?:\(\*\w+\)->|\w+->|\w+\.|cvm::|\w+::)*(?:%s)\b(?:\s*\(\s*\))?" % alt
    pats = [
        ("mod", re.compile(r"%\s*\(?\s*" + idn)),
        ("div", re.compile(r"(?<![/*])/\s*\(?\s*(?:static_cast<\s*(?:int|size_t|long)\s*>\s*\(\s*)?" + idn)),
        ("size", re.compile(r"\b(?:resize|reserve|assign)\s*\(\s*[^;()]*?" + idn)),
        ("size", re.compile(r"\bnew\s+[\w:<> ]+\[[^\];]*?" + idn)),
        ("loop", re.compile(r"\bfor\s*\([^;]*;[^;]*?<=?\s*" + idn + r"\s*[;)&|+-]")),
        ("index", re.compile(r"\[\s*" + idn + r"\s*(?:[-+]\s*\d+\s*)?\]")),
        ("cast", re.compile(r"(?:\(\s*(?:int|size_t)\s*\)|static_cast<\s*(?:int|size_t)\s*>)\s*\(?[^;]*?" + idn)),
    ]
    out = []
    for f, txt in files.items():
        if not any(n in txt for n in names):
            continue
        for ln, ltxt in enumerate(txt.split("\n")):
            if not any(n in ltxt for n in names):
                continue
            for kind, p in pats:
                m = p.search(ltxt)
                if not m:
                    continue
                if kind == "div" and re.search(r"/\s*\(?\s*(?:cvm::real|double|static_cast<\s*(?:cvm::real|double)\s*>)\s*\(", m.group(0)):
                    continue
                rec = (kind, f, ln + 1, ltxt.strip()[:110])
                if rec not in out:
                    out.append(rec)
    return out


def scoped_uses(files, f, ext, is_local, names):
    stem = f.rsplit(".", 1)[0]
    out = []
    if is_local:
        sub = {f: files[f][ext[0]:ext[1]]}
        base_line = files[f].count("\n", 0, ext[0])
        for (kind, ff, ln, t) in uses_of(sub, names):
            out.append((kind, ff, ln + base_line, t))
        return out
    for (kind, ff, ln, t) in uses_of(files, names):
        own = ff.rsplit(".", 1)[0] in (stem, stem + "_def")
        via_object = any(re.search(r"(?:->|\.|::)\s*%s\b" % re.escape(n), t) for n in names)
        if own or via_object or any(n in ALIASES.get(names[0], []) and n in t for n in names):
            out.append((kind, ff, ln, t))
    # local copies (T const x = ... dest ...;): uses of the copy inside the function that makes it
    for n in names[:1] + ALIASES.get(names[0], []):
        pat = re.compile(r"\b(?:int|size_t|long|cvm::step_number|auto)\s+(?:const\s+)?(\w+)\s*=\s*[^;]*\b" + re.escape(n) + r"\b(?:\s*\(\s*\))?[^;]*;")
        for ff, txt in files.items():
            for m in pat.finditer(txt):
                e2 = function_extent(txt, m.start())
                if not e2 or len(m.group(1)) < 2:
                    continue
                base_line = txt.count("\n", 0, e2[0])
                for (kind, _f, ln, t) in uses_of({ff: txt[e2[0]:e2[1]]}, [m.group(1)]):
                    rec = (kind, ff, ln + base_line, t)
                    if rec not in out:
                        out.append(rec)
    return out


def function_extent(txt, pos):
    """(start, end) offsets of the body of the function that contains offset pos: the outermost enclosing block whose
    opening brace follows a parameter list; None at file scope"""
    stack, best = [], None
    i, n = 0, len(txt)
    opens = []
    for m in re.finditer(r"[{}]", txt):
        if m.start() >= pos:
            break
        if m.group(0) == "{":
            opens.append(m.start())
        elif opens:
            opens.pop()
    for o in opens:                      # outermost first
        head = txt[max(0, o - 200):o]
        if re.search(r"\)\s*(?:const\s*)?(?:override\s*)?(?:noexcept\s*)?(?::[^{;]*)?$", head) and not re.search(r"\b(?:if|for|while|switch|catch)\s*\([^{;]*$", head):
            depth, j = 0, o
            for m in re.finditer(r"[{}]", txt[o:]):
                depth += 1 if m.group(0) == "{" else -1
                if depth == 0:
                    return (o, o + m.end())
            return (o, n)
    return None


def local_copies(files, name):
    """identifiers initialised from `name` (or its accessor): `T const x = ... name ...;`"""
    out = set()
    pat = re.compile(r"\b(?:int|size_t|long|cvm::step_number|auto)\s+(?:const\s+)?(\w+)\s*=\s*[^;]*\b" + re.escape(name) + r"\b(?:\s*\(\s*\))?[^;]*;")
    for f, txt in files.items():
        for m in pat.finditer(txt):
            out.add(m.group(1))
    return out


def scan(src, cache_dir=None):
    files = load_sources(src)
    import hashlib, json
    h = hashlib.sha1()
    for f in sorted(files):
        h.update(f.encode()); h.update(files[f].encode())
    h.update(open(os.path.abspath(__file__), "rb").read())
    cpath = os.path.join(cache_dir, "guardscan-%s.json" % h.hexdigest()[:16]) if cache_dir else None
    if cpath and os.path.exists(cpath):
        return [dict(r, uses=[tuple(u) for u in r["uses"]]) for r in json.load(open(cpath))]
    recs = _scan(files)
    if cpath:
        os.makedirs(cache_dir, exist_ok=True)
        json.dump(recs, open(cpath, "w"))
    return recs


def _scan(files):
    recs = {}
    for f, line, kw, dest in keyval_sites(files):
        t = decl_type(files, f, dest)
        if t is None:
            continue
        vec = t.startswith("std::vector")
        base = t
        if vec:
            base = re.sub(r"std::vector\s*<\s*([^>]+?)\s*>", r"\1", t)
        if base in INT_TYPES:
            cls = "int"
        elif base in REAL_TYPES:
            cls = "real"
        else:
            continue
        names = [dest] + ALIASES.get(dest, [])
        # scoping: a destination declared inside the function that reads the keyword is only looked for in that
        # function; a member is looked for in the files of its class and wherever it is reached through an object
        # (x->dest, x.dest, Class::dest) or an accessor; local copies only in the function that makes them
        txt = files[f]
        site = [m.start() for m in KEYVAL.finditer(txt) if m.group(1) == kw]
        ext = function_extent(txt, site[0]) if site else None
        is_local = bool(ext and re.search(r"(?<![\w:.>])(?:%s)\s+(?:const\s+)?(?:\w+\s*,\s*)*%s\s*[;=,]" % (
            "|".join(re.escape(x) for x in INT_TYPES + REAL_TYPES), re.escape(dest)), txt[ext[0]:ext[1]]))
        names = [n for n in dict.fromkeys(names) if len(n) > 1]
        if not names:
            continue
        us = scoped_uses(files, f, ext, is_local, names)
        if cls == "real":
            us = [u for u in us if u[0] in ("cast", "size", "loop", "index")]
        else:
            us = [u for u in us if u[0] != "cast"]
        # float division by an integer converted to real is not a trap
        us = [u for u in us if not (u[0] == "div" and re.search(r"(cvm::real|double)\s*\(\s*[^)]*$", u[3].split("/")[0][-40:] or ""))]
        if not us:
            continue
        key = (f, kw)
        r = recs.setdefault(key, {"file": f, "line": line, "keyword": kw, "dest": dest, "type": t, "uses": []})
        for u in us:
            if u not in r["uses"]:
                r["uses"].append(u)
    for r in scan_key_lookup(files):
        recs.setdefault((r["file"], r["keyword"]), r)
    return sorted(recs.values(), key=lambda r: (r["file"], r["keyword"]))


KEYLOOKUP = re.compile(r'key_lookup\s*\(\s*[\w.>()-]+\s*,\s*"(\w+)"\s*,\s*&\s*(\w+)')


def scan_key_lookup(files):
    """keywords read with key_lookup() and parsed by hand: integers extracted from the looked-up text with
    `std::istringstream is(text); is >> a >> b`, and their guard-relevant uses inside the same function"""
    out = []
    for f, txt in files.items():
        if not f.endswith(".cpp"):
            continue
        for m in KEYLOOKUP.finditer(txt):
            kw, var = m.group(1), m.group(2)
            ext = function_extent(txt, m.start())
            if not ext:
                continue
            body = txt[ext[0]:ext[1]]
            # the text may be handed to a helper: follow one call `helper(var)` into the same file
            bodies = [(body, ext[0])]
            for c in re.finditer(r"\b(\w+)\s*\(\s*(?:\w+\s*,\s*)*%s\s*\)" % re.escape(var), body):
                d = re.search(r"\b\w[\w:]*::%s\s*\([^)]*\)\s*\{" % re.escape(c.group(1)), txt)
                if d:
                    e2 = function_extent(txt, d.end() + 1)
                    if e2:
                        bodies.append((txt[e2[0]:e2[1]], e2[0]))
            for b, off in bodies:
                for s_ in re.finditer(r"std::istringstream\s+(\w+)\s*\(\s*\w+\s*\)", b):
                    ints = []
                    for d in re.finditer(r"\b(?:int|size_t|long)\s+([\w\s,]+);", b):
                        ints += [x.strip() for x in d.group(1).split(",")]
                    got = [x for x in ints if re.search(r"%s\s*>>\s*%s\b|>>\s*%s\b" % (s_.group(1), re.escape(x), re.escape(x)), b)]
                    if not got:
                        continue
                    base_line = txt.count("\n", 0, off)
                    us = [(k, f, ln + base_line, t) for (k, _f, ln, t) in uses_of({f: b}, got) if k != "cast"]
                    if us:
                        out.append({"file": f, "line": txt.count("\n", 0, m.start()) + 1, "keyword": kw, "dest": "/".join(got),
                                    "type": "int (key_lookup)", "uses": us})
    # one record per (file, keyword)
    seen, res = set(), []
    for r in out:
        if (r["file"], r["keyword"]) not in seen:
            seen.add((r["file"], r["keyword"]))
            res.append(r)
    return res


def kinds(r):
    return sorted(set(u[0] for u in r["uses"]))


def write_gen(recs, coqdir):
    os.makedirs(os.path.join(coqdir, "Gen"), exist_ok=True)
    rows = ['("%s", "%s", "%s")' % (r["file"], r["keyword"], "+".join(kinds(r))) for r in recs]
    body = ("(* GENERATED by props/C10/guardscan.py from the current source tree: get_keyval destinations used as divisor, modulus,\n"
            "   size, loop bound, index or integer cast; do not edit *)\n"
            "From Coq Require Import List String. Import ListNotations. Local Open Scope string_scope.\n"
            "Definition gen_guards : list (string * string * string) := [\n  " + ";\n  ".join(rows) + "].\n")
    p = os.path.join(coqdir, "Gen", "GenGuards.v")
    if not os.path.exists(p) or open(p).read() != body:
        open(p, "w").write(body)
    return p


if __name__ == "__main__":
    import sys
    for r in scan(sys.argv[1] if len(sys.argv) > 1 else "/repo/src"):
        print("%-32s %-28s %-22s %-18s %s" % (r["file"], r["keyword"], r["dest"], r["type"], ",".join(kinds(r))))
        for u in r["uses"][:4]:
            print("      %-5s %s:%d  %s" % u)
