(* C10 model driver: one case per line "KIND key=value ...", one answer line per case.
   Values are the value TEXT of the keyword as it stands in the configuration ("-" = keyword absent). *)
open Model

(* ---- Z <-> text (values up to 2^64 and beyond: built with the extracted Z operations) *)
let rec pos_of_int (n : int) : positive =
  if n <= 1 then XH else if n land 1 = 0 then XO (pos_of_int (n lsr 1)) else XI (pos_of_int (n lsr 1))
let z_of_int (n : int) : z = if n = 0 then Z0 else if n > 0 then Zpos (pos_of_int n) else Zneg (pos_of_int (- n))
let z_of_digits (s : String.t) : z =
  let ten = z_of_int 10 in
  let acc = ref Z0 in
  String.iter (fun c -> acc := Z.add (Z.mul !acc ten) (z_of_int (Char.code c - 48))) s; !acc
let is_digits s = s <> "" && (let ok = ref true in String.iter (fun c -> if c < '0' || c > '9' then ok := false) s; !ok)
let z_of_string (s : String.t) : z option =
  let neg, body = if String.length s > 0 && (s.[0] = '-' || s.[0] = '+') then (s.[0] = '-', String.sub s 1 (String.length s - 1)) else (false, s) in
  if is_digits body then Some (if neg then Z.opp (z_of_digits body) else z_of_digits body) else None
let rec int_of_pos (p : positive) : int = match p with XH -> 1 | XO q -> 2 * int_of_pos q | XI q -> 2 * int_of_pos q + 1
let rec pos_bits (p : positive) : int = match p with XH -> 1 | XO q | XI q -> 1 + pos_bits q
let string_of_z (x : z) : String.t =
  match x with
  | Z0 -> "0"
  | Zpos p -> if pos_bits p <= 61 then string_of_int (int_of_pos p) else "big"
  | Zneg p -> if pos_bits p <= 61 then string_of_int (- (int_of_pos p)) else "-big"

(* ---- value text -> tok *)
let tok_of_text (s : String.t) : tok option =
  if s = "-" then None
  else match z_of_string s with
    | Some z -> Some (TokInt z)
    | None ->
      (* <int>e<int> *)
      let lower = String.lowercase_ascii s in
      (match String.index_opt lower 'e' with
       | Some i when (match z_of_string (String.sub s 0 i), z_of_string (String.sub s (i + 1) (String.length s - i - 1)) with
                      | Some _, Some _ -> true | _ -> false) ->
         (match z_of_string (String.sub s 0 i), z_of_string (String.sub s (i + 1) (String.length s - i - 1)) with
          | Some m, Some e -> Some (TokSci (m, e)) | _ -> Some TokWord)
       | _ ->
         (* decimal fraction [sign]digits.digits *)
         (match String.index_opt s '.' with
          | Some i ->
            let ip = String.sub s 0 i and fp = String.sub s (i + 1) (String.length s - i - 1) in
            let neg = String.length ip > 0 && ip.[0] = '-' in
            let ipd = if String.length ip > 0 && (ip.[0] = '-' || ip.[0] = '+') then String.sub ip 1 (String.length ip - 1) else ip in
            if (ipd = "" || is_digits ipd) && is_digits fp then begin
              let ipz = if ipd = "" then Z0 else z_of_digits ipd in
              let den = Z.pow (z_of_int 10) (z_of_int (String.length fp)) in
              let num = Z.add (Z.mul ipz den) (z_of_digits fp) in
              let num = if neg then Z.opp num else num in
              Some (TokFrac ((if neg then Z.opp ipz else ipz), num, Z.to_pos den))
            end else Some TokWord
          | None -> Some TokWord))

let coq_string (s : String.t) : Model.string =
  let n = String.length s in
  let rec go i = if i >= n then EmptyString else
      let c = Char.code s.[i] in
      let b k = (c lsr k) land 1 = 1 in
      String (Ascii (b 0, b 1, b 2, b 3, b 4, b 5, b 6, b 7), go (i + 1)) in
  go 0
let rec ocaml_string (s : Model.string) : String.t =
  match s with
  | EmptyString -> ""
  | String (Ascii (b0, b1, b2, b3, b4, b5, b6, b7), r) ->
    let v = List.fold_left (fun acc (b, k) -> if b then acc lor (1 lsl k) else acc) 0
        [ (b0, 0); (b1, 1); (b2, 2); (b3, 3); (b4, 4); (b5, 5); (b6, 6); (b7, 7) ] in
    String.make 1 (Char.chr v) ^ ocaml_string r

let words (s : String.t) : String.t list = List.filter (fun w -> w <> "") (String.split_on_char ' ' (String.trim s))

let () =
  let harness_bytes = Z.mul (z_of_int 3) (Z.pow (z_of_int 2) (z_of_int 30)) in
  try
    while true do
      let line = input_line stdin in
      (match words line with
       | [] -> print_endline "empty"
       | kind :: kvs ->
         let tbl = Hashtbl.create 16 in
         List.iter (fun kv -> match String.index_opt kv '=' with
             | Some i -> Hashtbl.replace tbl (String.sub kv 0 i) (String.sub kv (i + 1) (String.length kv - i - 1))
             | None -> ()) kvs;
         let get k = try Hashtbl.find tbl k with Not_found -> "-" in
         let tk k = tok_of_text (get k) in
         let on k = (get k = "on") in
         let zi k d = match z_of_string (get k) with Some z -> z | None -> z_of_int d in
         let rof = zi "rof" 0 in
         let base () = { b_outfreq = tk "outfreq"; b_tsf = tk "btsf" } in
         let steps = [0; 1; 2; 3; 4; 5; 6; 7; 8; 9; 10; 11; 12] in
         let verdict err = if err then "reject" else "accept" in
         let out err init_uses step_ok =
           Printf.printf "%s initsafe=%d stepsafe=%d\n" (verdict err) (if all_ok init_uses then 1 else 0) (if step_ok then 1 else 0) in
         (match kind with
          | "module" ->
            let r = module_init { traj_freq = zi "engtraj" 1; restart_freq = rof } { mc_traj = tk "traj"; mc_restart = tk "restart" } in
            let ok = List.for_all (fun s -> all_ok (module_step_uses r.r_state true (s = 0) (z_of_int s) (z_of_int s))) steps in
            out r.r_err r.r_uses ok
          | "colvar" ->
            let c = { c_tsf = tk "tsf"; c_runave = on "runave"; c_ralen = tk "ralen"; c_rastride = tk "rastride";
                      c_corr = on "corr"; c_cflen = tk "cflen"; c_cfstride = tk "cfstride"; c_cfoff = tk "cfoff";
                      c_u_ralen = Z0; c_u_rastride = zi "u" 0; c_u_cflen = Z0; c_u_cfstride = zi "u" 0; c_u_cfoff = Z0 } in
            let r = colvar_init rof c in
            let ok = List.for_all (fun s -> all_ok (colvar_step_uses r.r_state (z_of_int s) (z_of_int s))) steps in
            let corr_ok = List.for_all (fun h -> all_ok (corrfunc_uses r.r_state (z_of_int h))) steps in
            Printf.printf "%s initsafe=%d stepsafe=%d corrsafe=%d\n" (verdict r.r_err) (if all_ok r.r_uses then 1 else 0)
              (if ok then 1 else 0) (if corr_ok then 1 else 0)
          | "bias" ->
            let r = bias_init rof (base ()) in
            out r.r_err r.r_uses (List.for_all (fun s -> all_ok (bias_step_uses r.r_state (z_of_int s))) steps)
          | "meta" ->
            let r = meta_init rof { m_base = base (); m_newhill = tk "newhill"; m_usegrids = (get "usegrids" <> "off"); m_gridsfreq = tk "gridsfreq";
                                  m_replicas = on "replicas"; m_upfreq = tk "upfreq" } in
            out r.r_err r.r_uses (r.r_err || List.for_all (fun s -> all_ok (meta_step_uses r.r_state (z_of_int s))) steps)
          | "abf" ->
            let r = abf_init rof { a_base = base (); a_full = tk "full"; a_min = tk "min"; a_hist = tk "hist"; a_u_min = Z0 } in
            out r.r_err r.r_uses (List.for_all (fun s -> all_ok (abf_step_uses r.r_state (z_of_int s))) steps)
          | "moving" ->
            let r = moving_init rof { v_base = base (); v_moving = on "moving"; v_nsteps = tk "nsteps"; v_nstages = tk "nstages" } in
            out r.r_err r.r_uses (List.for_all (fun s -> all_ok (moving_step_uses r.r_state (z_of_int s))) steps)
          | "coordnum" ->
            let r = coordnum_init { p_tolerance_pos = on "tol"; p_freq = tk "freq" } in
            out r.r_err r.r_uses (all_ok (coordnum_step_uses r.r_state))
          | "opes" ->
            let r = opes_init rof (zi "tf" 1) { o_base = base (); o_pace = tk "pace"; o_adaptive = on "adaptive"; o_adstride = tk "adstride";
                                               o_pmf = on "pmf"; o_pmfhist = tk "pmfhist"; o_trajfreq = tk "trajfreq"; o_u_adstride = Z0;
                                               o_replicas = on "replicas"; o_nlist = on "nlist"; o_shared = tk "shared"; o_u_shared = Z0 } in
            let rof2 = zi "rof2" 0 in
            out r.r_err r.r_uses (r.r_err || List.for_all (fun s -> all_ok (opes_step_uses r.r_state rof2 (z_of_int s))) steps)
          | "opesmod" ->
            (* the module's restart frequency is the keyword under test; the OPES bias is constructed afterwards *)
            let m = module_init { traj_freq = zi "engtraj" 1; restart_freq = rof } { mc_traj = None; mc_restart = tk "restart" } in
            if m.r_err then out true [] true
            else begin
              let rf = m.r_state.restart_freq in
              let r = opes_init rf (zi "tf" 1) { o_base = base (); o_pace = tk "pace"; o_adaptive = on "adaptive"; o_adstride = tk "adstride";
                                                 o_pmf = on "pmf"; o_pmfhist = tk "pmfhist"; o_trajfreq = tk "trajfreq"; o_u_adstride = Z0;
                                               o_replicas = on "replicas"; o_nlist = on "nlist"; o_shared = tk "shared"; o_u_shared = Z0 } in
              out r.r_err r.r_uses (r.r_err || List.for_all (fun s -> all_ok (opes_step_uses r.r_state rf (z_of_int s))
                                                                && all_ok (module_step_uses m.r_state true (s = 0) (z_of_int s) (z_of_int s))) steps)
            end
          | "cvgrid" ->
            (* a variable's own width/lowerBoundary/upperBoundary (both boundaries given) feeding a grid of a bias *)
            let pr k = parse_real (tk k) in
            (match pr "lower", pr "upper", pr "width" with
             | QVal lo, QVal up, QVal w ->
               if qle_bool w { qnum = Z0; qden = XH } || qle_bool up lo then print_endline "reject check"
               else begin
                 let ((v, nt), _) = grid_init harness_bytes true [ { d_lower = lo; d_upper = up; d_width = w } ] (zi "mult" 1) (zi "elt" 8) in
                 Printf.printf "%s nt=%s\n" (match v with Accept -> "accept" | Reject -> "reject") (string_of_z nt)
               end
             | _ -> print_endline "reject parse")
          | "vector" ->
            (* n=2 presized=on|off elem=any|nonneg toks=t1,t2,... ("-" = keyword absent, "" = keyword without value) *)
            let n = int_of_string (get "n") in
            let rec nat_of_int k = if k <= 0 then O else S (nat_of_int (k - 1)) in
            let raw = get "toks" in
            let toks = if raw = "-" then None
              else Some (List.filter_map (fun w -> if w = "" then None else (match tok_of_text w with Some t -> Some t | None -> None))
                           (String.split_on_char ',' raw)) in
            let elem_ok = if get "elem" = "nonneg" then (fun q -> qle_bool { qnum = Z0; qden = XH } q)
              else if get "elem" = "pos" then (fun q -> not (qle_bool q { qnum = Z0; qden = XH })) else (fun _ -> true) in
            let (_, e) = vector_keyword (nat_of_int n) (on "presized") elem_ok toks in
            Printf.printf "%s initsafe=1 stepsafe=1\n" (verdict e)
          | "scripted" ->
            let r = scripted_init harness_bytes (tk "size") in
            Printf.printf "%s initsafe=%d stepsafe=1 n=%s\n" (verdict r.r_err) (if all_ok r.r_uses then 1 else 0) (string_of_z r.r_state)
          | "histrestr" ->
            let r = histrestr_init harness_bytes { h_lower = tk "lower"; h_upper = tk "upper"; h_width = tk "width" } in
            Printf.printf "%s initsafe=%d stepsafe=1 nbins=%s\n" (verdict r.r_err) (if all_ok r.r_uses then 1 else 0) (string_of_z r.r_state)
          | "grid" ->
            (* dims=l:u:w,l:u:w  cw=1|0 mult=.. elt=.. *)
            let bad = ref false in
            let qv t = match parse_real (tok_of_text t) with QVal q -> q | _ -> bad := true; { qnum = Z0; qden = XH } in
            let dims = List.map (fun d -> match String.split_on_char ':' d with
                | [l; u; w] -> { d_lower = qv l; d_upper = qv u; d_width = qv w }
                | _ -> bad := true; { d_lower = qv "0"; d_upper = qv "1"; d_width = qv "1" })
                (List.filter (fun x -> x <> "") (String.split_on_char ',' (get "dims"))) in
            if !bad then print_endline "reject parse"
            else begin
              let ((v, nt), nxc) = grid_init harness_bytes (get "cw" <> "0") dims (zi "mult" 1) (zi "elt" 8) in
              Printf.printf "%s nt=%s nx=%s nxc=%s\n" (match v with Accept -> "accept" | Reject -> "reject") (string_of_z nt)
                (String.concat "," (List.map string_of_z (grid_sizes dims))) (String.concat "," (List.map string_of_z nxc))
            end
          | "validate" ->
            (* validate kind=<k> n=<n> rof=<r> temp=<q> kbt=<q> bfinf=0|1 explore=0|1  s:<kw>=<text>  l:<kw>=<t1,t2,..>  f:<kw>=on|off *)
            let scal = ref [] and lists = ref [] and flags = ref [] in
            Hashtbl.iter (fun k v ->
                if String.length k > 2 && k.[1] = ':' then begin
                  let kw = String.sub k 2 (String.length k - 2) in
                  match k.[0] with
                  | 's' -> (match tok_of_text v with Some t -> scal := (coq_string kw, t) :: !scal | None -> ())
                  | 'l' -> lists := (coq_string kw, List.filter_map (fun w -> if w = "" then None else tok_of_text w) (String.split_on_char ',' v)) :: !lists
                  | 'f' -> flags := (coq_string kw, (v = "on")) :: !flags
                  | _ -> ()
                end) tbl;
            let e = { e_scalars = !scal; e_lists = !lists; e_flags = !flags } in
            let qof k d = match parse_real (tok_of_text (let v = get k in if v = "-" then d else v)) with QVal q -> q | _ -> { qnum = Z0; qden = XH } in
            let rec nat_of_int k = if k <= 0 then O else S (nat_of_int (k - 1)) in
            let n = nat_of_int (int_of_string (let v = get "n" in if v = "-" then "1" else v)) in
            let x = (match get "kind" with
                | "colvarx" -> fst (colvarx_validate (qof "temp" "300") e)
                | "walls" ->
                  let ws = (match get "w" with "-" -> [] | v -> List.map (fun t -> match parse_real (tok_of_text t) with QVal q -> q | _ -> { qnum = z_of_int 1; qden = XH })
                                                                   (List.filter (fun x -> x <> "") (String.split_on_char ',' v))) in
                  fst (walls_validate ws n e)
                | "opesx" -> fst (opesx_validate (qof "kbt" "1") (get "bfinf" = "1") (get "explore" = "1") e)
                | "metax" -> fst (metax_validate n e)
                | "abfshared" -> fst (abfshared_validate rof e)
                | "alb" -> fst (alb_validate n e)
                | "kmoving" -> fst (kmoving_validate rof e)
                | "opessn" -> fst (opes_sigma_nlist_validate n e)
                | "rmsd" ->
                  let nat_opt k = let v = get k in if v = "-" then None else Some (nat_of_int (int_of_string v)) in
                  let file = (match get "file" with "-" -> None | "missing" -> Some (false, O) | v -> Some (true, nat_of_int (int_of_string v))) in
                  fst (rmsd_validate (nat_of_int (int_of_string (get "g"))) (nat_opt "inline") file)
                | "ebmeta" ->
                  let file = (match get "vals" with "-" -> None
                                                   | v -> Some (List.map (fun w -> match parse_real (tok_of_text w) with QVal q -> q | _ -> { qnum = Z0; qden = XH })
                                                                  (List.filter (fun w -> w <> "") (String.split_on_char ',' v)))) in
                  fst (ebmeta_validate (get "expand" = "1") file e)
                | _ -> { x_err = true; x_bug = true; x_mem = true; x_file = true }) in
            print_endline (if not x.x_err then "ok" else "input" ^ (if x.x_file then ",file" else "") ^ (if x.x_bug then ",bug" else "") ^ (if x.x_mem then ",memory" else ""))
          | "session" ->
            (* have_cv=.. have_bias=n:t,.. cfgs=<cfg>|<cfg>|RESET|...  with <cfg> = cvs/biases,
               cvs = name:fails:walls,...  (walls 1 = the variable queues a harmonicWalls block "<name>w"),
               biases = type:name:fails,...;type:...   ("-" = none).  Prints the lists after every configuration. *)
            let split c s = List.filter (fun x -> x <> "" && x <> "-") (String.split_on_char c s) in
            let g k = let v = get k in if v = "-" then "" else v in
            let have_cv = List.map coq_string (split ',' (g "have_cv")) in
            let have_b = List.map (fun nb -> match String.split_on_char ':' nb with [n; t] -> (coq_string n, coq_string t) | _ -> (coq_string nb, coq_string ""))
                (split ',' (g "have_bias")) in
            let st = ref { ms_lists = { l_colvars = have_cv; l_biases = have_b; l_err = false }; ms_pending = [] } in
            let outs = ref [] in
            List.iter (fun cfg ->
                if cfg = "RESET" then
                  st := { ms_lists = { l_colvars = []; l_biases = []; l_err = false }; ms_pending = !st.ms_pending }   (* reset() does not touch extra_conf *)
                else begin
                  let cvs_s, b_s = match String.split_on_char '/' cfg with [a; b] -> (a, b) | [a] -> (a, "") | _ -> ("", "") in
                  let cvs = List.map (fun b -> match String.split_on_char ':' b with
                      | [n; f; w] -> { cb_block = { k_name = coq_string n; k_type = coq_string "colvar"; k_fails = (f = "1") };
                                       cb_walls = (if w = "1" then Some { k_name = coq_string (n ^ "w"); k_type = coq_string "harmonicwalls"; k_fails = false } else None) }
                      | _ -> { cb_block = { k_name = coq_string b; k_type = coq_string "colvar"; k_fails = false }; cb_walls = None }) (split ',' cvs_s) in
                  let by_type = List.map (fun grp -> List.map (fun b -> match String.split_on_char ':' b with
                      | [t; n; f] -> { k_name = coq_string n; k_type = coq_string t; k_fails = (f = "1") }
                      | _ -> { k_name = coq_string b; k_type = coq_string ""; k_fails = false }) (split ',' grp)) (split ';' b_s) in
                  st := parse_config_ext true cvs by_type !st
                end;
                if cfg <> "RESET" then outs := (Printf.sprintf "%s cv=%s bias=%s" (if !st.ms_lists.l_err then "reject" else "accept")
                           (String.concat "," (List.map ocaml_string !st.ms_lists.l_colvars))
                           (String.concat "," (List.map (fun (n, _) -> ocaml_string n) !st.ms_lists.l_biases))) :: !outs)
              (List.filter (fun x -> x <> "") (String.split_on_char '|' (get "cfgs")));
            print_endline (String.concat " ; " (List.rev !outs))
          | "session6" ->
            (* module-level state: traj0= restart0= cfgs=<cfg>|RESET|<cfg>...;  <cfg> = fields joined by ';':
               T:<value text> R:<value text> F:<file>,<file> C:<cv>,<cv> B:<bias>,<bias>
               <file> = missing | tokens joined by '.': h~NAME (header), b (malformed header), a~Z (number), x (text)
               <cv> = name~fails~<group>~<group>..., <group> = <name or _>^<n | iNAME | oNAME>
               <bias> = type~<name or _>~fails~cv+cv   (grouped by type in the order of parse_biases).
               Prints the module state after every configuration. *)
            let split c s = List.filter (fun x -> x <> "" && x <> "-") (String.split_on_char c s) in
            let type_order = ["abf"; "abmd"; "alb"; "harmonic"; "harmonicwalls"; "histogram"; "histogramrestraint"; "linear"; "metadynamics"; "reweightamd"; "opes_metad"] in
            let zget k d = match z_of_string (get k) with Some z -> z | None -> z_of_int d in
            let st = ref { q_cvs = []; q_biases = []; q_reg = []; q_named = []; q_counters = []; q_traj = zget "traj0" 1; q_restart = zget "restart0" 0;
                           q_active = []; q_err = false; q_crash = false } in
            let variant = (match get "variant" with "keep" -> IvKeep | "null" -> IvNull | _ -> IvRollback) in
            let restore = get "restore" <> "0" in
            let outs = ref [] in
            let field cfg tag = (match List.filter (fun f -> String.length f >= 2 && String.sub f 0 2 = tag ^ ":") (String.split_on_char ';' cfg) with
                | f :: _ -> String.sub f 2 (String.length f - 2) | [] -> "") in
            let opt_name n = if n = "_" || n = "" then None else Some (coq_string n) in
            List.iter (fun cfg ->
                let is_op = cfg = "RESET" || (String.length cfg > 5 && (String.sub cfg 0 5 = "DELB:" || String.sub cfg 0 5 = "DELC:")) in
                if cfg = "RESET" then st := reset6 !st
                else if is_op && String.sub cfg 0 5 = "DELB:" then st := delete_bias6 (coq_string (String.sub cfg 5 (String.length cfg - 5))) !st
                else if is_op then st := delete_cv6 (coq_string (String.sub cfg 5 (String.length cfg - 5))) !st
                else begin
                  let tokfield tag = (match field cfg tag with "" -> None | v -> tok_of_text v) in
                  let files = List.map (fun f -> if f = "missing" then None else if f = "empty" then Some [] else
                                           Some (List.map (fun t -> match String.split_on_char '~' t with
                                               | ["h"; n] -> IHdr (coq_string n)
                                               | ["a"; z] -> (match z_of_string z with Some v -> IAtom v | None -> IText)
                                               | ["b"] -> IBadHdr
                                               | _ -> IText) (split '.' f))) (split ',' (field cfg "F")) in
                  let cvs = List.map (fun c -> match String.split_on_char '~' c with
                      | n :: f :: gs -> { cvd_name = coq_string n; cvd_fails = (f = "1");
                                          cvd_groups = List.map (fun g -> match String.split_on_char '^' g with
                                              | [gn; src] -> { gd_name = opt_name gn;
                                                               gd_src = (if src = "n" then GNumbers
                                                                         else if src.[0] = 'i' then GIndex (coq_string (String.sub src 1 (String.length src - 1)))
                                                                         else GOfGroup (coq_string (String.sub src 1 (String.length src - 1)))) }
                                              | _ -> { gd_name = None; gd_src = GNumbers }) gs }
                      | _ -> { cvd_name = coq_string c; cvd_fails = false; cvd_groups = [] }) (split ',' (field cfg "C")) in
                  let biases = List.map (fun b -> match String.split_on_char '~' b with
                      | [t; n; f; cs] -> { bd_type = coq_string t; bd_name = opt_name n; bd_cvs = List.map coq_string (split '+' cs); bd_fails = (f = "1") }
                      | _ -> { bd_type = coq_string b; bd_name = None; bd_cvs = []; bd_fails = true }) (split ',' (field cfg "B")) in
                  let by_type = List.filter (fun l -> l <> []) (List.map (fun t -> List.filter (fun b -> ocaml_string b.bd_type = t) biases) type_order) in
                  st := parse_config6 variant restore { c6_traj = tokfield "T"; c6_restart = tokfield "R"; c6_files = files; c6_cvs = cvs; c6_biases = by_type } !st
                end;
                let s = !st in
                let reg = String.concat "/" (List.map (fun (n, v) -> ocaml_string n ^ ":" ^ (match v with
                    | None -> "NULL" | Some [] -> "empty" | Some l -> String.concat "," (List.map string_of_z l))) s.q_reg) in
                outs := (Printf.sprintf "%s cv=%s bias=%s reg=%s named=%s act=%s traj=%s restart=%s crash=%d"
                           (if is_op then "reset" else if s.q_err then "reject" else "accept")
                           (String.concat "," (List.map ocaml_string s.q_cvs))
                           (String.concat "," (List.map (fun ((n, _), _) -> ocaml_string n) s.q_biases))
                           reg
                           (String.concat "," (List.map (fun (g, _) -> ocaml_string g) s.q_named))
                           (String.concat "," (List.map ocaml_string s.q_active))
                           (string_of_z s.q_traj) (string_of_z s.q_restart) (if s.q_crash then 1 else 0)) :: !outs)
              (List.filter (fun x -> x <> "") (String.split_on_char '|' (get "cfgs")));
            print_endline (String.concat " ; " (List.rev !outs))
          | "rollback" ->
            (* have_cv=a,b have_bias=n:t,n:t cvs=name:0|1,... biases=type:name:0|1,...;type:... (fails flag) *)
            let split c s = List.filter (fun x -> x <> "") (String.split_on_char c s) in
            let g k = let v = get k in if v = "-" then "" else v in
            let have_cv = List.map coq_string (split ',' (g "have_cv")) in
            let have_b = List.map (fun nb -> match String.split_on_char ':' nb with [n; t] -> (coq_string n, coq_string t) | _ -> (coq_string nb, coq_string ""))
                (split ',' (g "have_bias")) in
            let cvs = List.map (fun b -> match String.split_on_char ':' b with
                | [n; f] -> { k_name = coq_string n; k_type = coq_string "colvar"; k_fails = (f = "1") }
                | _ -> { k_name = coq_string b; k_type = coq_string "colvar"; k_fails = false }) (split ',' (g "cvs")) in
            let by_type = List.map (fun grp -> List.map (fun b -> match String.split_on_char ':' b with
                | [t; n; f] -> { k_name = coq_string n; k_type = coq_string t; k_fails = (f = "1") }
                | _ -> { k_name = coq_string b; k_type = coq_string ""; k_fails = false }) (split ',' grp)) (split ';' (g "biases")) in
            let r = parse_config cvs by_type { l_colvars = have_cv; l_biases = have_b; l_err = false } in
            Printf.printf "%s cv=%s bias=%s\n" (if r.l_err then "reject" else "accept")
              (String.concat "," (List.map ocaml_string r.l_colvars))
              (String.concat "," (List.map (fun (n, _) -> ocaml_string n) r.l_biases))
          | _ -> print_endline "unknown-kind"))
    done
  with End_of_file -> ()
