# C10: sessions over the module-level state that a rejected configuration can have touched before its error
# (index-group registry, named atom groups, bias-type counters, module-level keywords, active variables).
# Each session: base variable zz0 (no bias) -> one step -> "toucher" configurations (rejected or accepted in many ways)
# -> a "consumer" configuration that uses the touched state -> steps.  The model (GuardModel.v: parse_config6) predicts
# the module state after every configuration; where the model says that the rejected configurations changed nothing,
# the session must also behave exactly like the session without them.
import re

NATOMS = 8
GROUPS = {"first": [1, 2, 3], "second": [5, 6, 7, 8], "third": [4, 5], "fourth": [2, 7]}
NAMED = ["g", "h"]


def positions(step):
    return ["pos %d %g %g %g" % (i + 1, 0.25 * i + 0.125 * step * (i % 3), 0.5 * (i % 4) - 0.0625 * step * (i % 2), 0.375 * ((i * i) % 5) + 0.25 * step)
            for i in range(NATOMS)]


# ---------------------------------------------------------------------------------------------- index files
def file_tokens(groups, defect=None, where=0):
    """token list [('h', name) | ('a', z) | ('x', text) | ('b', text)] of an index file listing `groups`
    [(name, atoms)], with one defect: text / nonpositive / badheader after atom `where` of the LAST group,
    'badstart', 'empty', or None"""
    toks = []
    if defect == "empty":
        return toks
    if defect == "badstart":
        toks.append(("b", "[ broken"))
    for k, (n, atoms) in enumerate(groups):
        toks.append(("h", n))
        last = k == len(groups) - 1
        for i, a in enumerate(atoms):
            if last and defect in ("text", "nonpositive", "badheader", "float") and i == where:
                toks.append({"text": ("x", "x%d" % a), "nonpositive": ("x", "0"), "badheader": ("b", "[ broken"), "float": ("x", ".5")}[defect])
            toks.append(("a", a))
        if last and defect in ("text", "nonpositive", "badheader", "float") and where >= len(atoms):
            toks.append({"text": ("x", "xx"), "nonpositive": ("x", "-4"), "badheader": ("b", "["), "float": ("x", ".5")}[defect])
    return toks


def file_text(toks):
    out, line = [], []
    for t in toks:
        if t[0] == "h":
            if line:
                out.append(" ".join(line))
            out.append("[ %s ]" % t[1])
            line = []
        else:
            line.append(str(t[1]))
    if line:
        out.append(" ".join(line))
    return "\\n".join(out)


def file_model(toks):
    return ".".join({"h": "h~%s", "a": "a~%s", "x": "x", "b": "b"}[t[0]] % (() if t[0] in ("x", "b") else (t[1],)) for t in toks) or "empty"


# ---------------------------------------------------------------------------------------------- configuration pieces
def cv_text(name, groups, fails):
    """groups: [(gname or None, ('n', atom) | ('i', group) | ('o', named))]"""
    L = ["colvar {", "  name %s" % name]
    if fails:
        L.append("  width -1")
    L.append("  distance {")
    for k, (gn, src) in enumerate(groups):
        L.append("    group%d {" % (k + 1))
        if gn:
            L.append("      name %s" % gn)
        L.append("      " + {"n": "atomNumbers %s", "i": "indexGroup %s", "o": "atomsOfGroup %s"}[src[0]] % src[1])
        L.append("    }")
    L += ["  }", "}"]
    return "\n".join(L) + "\n"


def cv_model(name, groups, fails):
    return "~".join([name, "1" if fails else "0"] + ["%s^%s" % (gn or "_", "n" if src[0] == "n" else src[0] + str(src[1])) for gn, src in groups])


def bias_text(btype, name, cvs, fails):
    L = ["%s {" % btype]
    if name:
        L.append("  name %s" % name)
    L.append("  colvars %s" % " ".join(cvs))
    L.append("  centers %s" % " ".join("1.5" for _ in cvs))
    L.append("  forceConstant 2.0")
    if fails:
        L.append("  timeStepFactor 0")
    L.append("}")
    return "\n".join(L) + "\n"


def bias_model(btype, name, cvs, fails):
    return "~".join([btype, name or "_", "1" if fails else "0", "+".join(cvs)])


class Cfg:
    def __init__(self):
        self.traj = None
        self.restart = None
        self.files = []       # (filename, tokens or None=missing)
        self.cvs = []         # (name, groups, fails)
        self.biases = []      # (type, name, cvs, fails)
        self.note = ""

    def text(self):
        L = []
        for fn, _ in self.files:
            L.append("indexFile %s" % fn)
        if self.traj is not None:
            L.append("colvarsTrajFrequency %s" % self.traj)
        if self.restart is not None:
            L.append("colvarsRestartFrequency %s" % self.restart)
        t = "\n".join(L) + ("\n" if L else "")
        for c in self.cvs:
            t += cv_text(*c)
        for b in self.biases:
            t += bias_text(*b)
        return t or "# nothing\n"

    def putfiles(self):
        return ["putfile %s %s" % (fn, file_text(toks)) for fn, toks in self.files if toks is not None]

    def model(self):
        F = []
        if self.traj is not None:
            F.append("T:%s" % self.traj)
        if self.restart is not None:
            F.append("R:%s" % self.restart)
        if self.files:
            F.append("F:" + ",".join("missing" if toks is None else file_model(toks) for _, toks in self.files))
        if self.cvs:
            F.append("C:" + ",".join(cv_model(*c) for c in self.cvs))
        if self.biases:
            F.append("B:" + ",".join(bias_model(*b) for b in self.biases))
        return ";".join(F) or "T:-"


BASE = Cfg()
BASE.cvs = [("zz0", [(None, ("n", 1)), (None, ("n", 4))], False)]


# ---------------------------------------------------------------------------------------------- generators
def rand_groups(r, n=None):
    names = r.sample(sorted(GROUPS), n or r.choice([1, 2, 2, 3]))
    return [(g, GROUPS[g]) for g in names]


def touch_index(r, c, state):
    kind = r.choice(["text", "text", "text", "nonpositive", "badheader", "float", "badstart", "empty", "missing", "redefined", "good", "good",
                     "duplicate-differs", "corrected", "relist-text", "relist-text"])
    used = [f for f, _ in c.files]
    fn = r.choice([f for f in ("a.ndx", "b.ndx", "d.ndx") if f not in used])
    if kind == "corrected" and state.get("broken") and state["broken"][0] not in used:
        fn, groups = state["broken"]
        c.files.append((fn, file_tokens(groups)))
    elif kind == "relist-text":
        # a group that (probably) exists already, listed again with the same atoms, then text: the file is rejected
        # after the old definition was replaced by the new, equal one
        g = r.choice(state.get("defined") or sorted(GROUPS))
        groups = ([] if r.random() < 0.5 else rand_groups(r, 1)) + [(g, GROUPS[g])]
        if len(groups) == 2 and groups[0][0] == g:
            groups = groups[1:]
        c.files.append((fn, file_tokens(groups, r.choice(["text", "nonpositive", "float"]), len(GROUPS[g]))))
        state["broken"] = (fn, groups)
    elif kind == "missing":
        c.files.append(("nosuch.ndx", None))
    elif kind == "redefined":
        groups = rand_groups(r)
        g = groups[-1][0]
        groups[-1] = (g, [a % NATOMS + 1 for a in GROUPS[g]])
        c.files.append((fn, file_tokens(groups)))
    elif kind == "duplicate-differs":
        groups = rand_groups(r, 2)
        groups.append((groups[0][0], groups[0][1][:-1]))
        c.files.append((fn, file_tokens(groups)))
    elif kind in ("good", "corrected"):
        kind = "good"
        groups = rand_groups(r)
        c.files.append((fn, file_tokens(groups)))
        state.setdefault("defined", []).extend(g for g, _ in groups)
    else:
        groups = rand_groups(r)
        where = r.choice([0, 1, 2, len(groups[-1][1])]) if kind in ("text", "nonpositive", "badheader", "float") else 0
        where = min(where, len(groups[-1][1]))
        if kind == "text" and where == 0 and r.random() < 0.5:
            where = 2
        c.files.append((fn, file_tokens(groups, kind, where)))
        state["broken"] = (fn, groups)
    if r.random() < 0.3 and "ok.ndx" not in used:
        c.files.insert(0, ("ok.ndx", file_tokens([("third", GROUPS["third"])])))
    if r.random() < 0.4:
        c.cvs.append((r.choice(["a", "b"]), [(None, ("n", 2)), (None, ("n", 5))], False))
    c.note += "index:" + kind + " "


def touch_named(r, c, state):
    kind = r.choice(["own-error", "group2-missing-index", "ofgroup-missing", "second-colvar-fails", "name-clash", "accepted", "ofgroup-own"])
    nm = r.choice(["a", "b"])
    g = r.choice(NAMED)
    if kind == "own-error":
        c.cvs.append((nm, [(g, ("n", 2)), (None, ("n", 5))], True))
    elif kind == "group2-missing-index":
        c.cvs.append((nm, [(g, ("n", 2)), (None, ("i", "nogroup"))], False))
    elif kind == "ofgroup-missing":
        c.cvs.append((nm, [(g, ("n", 2)), (None, ("o", "nobody"))], False))
    elif kind == "second-colvar-fails":
        c.cvs.append((nm, [(g, ("n", 2)), (None, ("n", 5))], False))
        c.cvs.append((nm + "2", [(None, ("n", 3)), (None, ("n", 6))], True))
    elif kind == "name-clash":
        c.cvs.append((nm, [(g, ("n", 2)), (g, ("n", 5))], False))
    elif kind == "ofgroup-own":
        c.cvs.append((nm, [(g, ("n", 2)), (None, ("o", g))], r.random() < 0.5))
    else:
        c.cvs.append((nm, [(g, ("n", 2)), (None, ("n", 5))], False))
    c.note += "named:" + kind + " "


def touch_counters(r, c, state):
    kind = r.choice(["unnamed-fails", "named-fails", "missing-colvar", "two-types", "accepted-unnamed", "name-clash", "default-name-taken"])
    t = r.choice(["harmonic", "linear"])
    if kind == "unnamed-fails":
        c.biases.append((t, None, ["zz0"], True))
    elif kind == "named-fails":
        c.biases.append((t, "nb", ["zz0"], True))
    elif kind == "missing-colvar":
        c.biases.append((t, None, ["nosuchcv"], False))
    elif kind == "two-types":
        c.biases.append(("harmonic", None, ["zz0"], True))
        c.biases.append(("linear", None, ["zz0"], False))
    elif kind == "name-clash":
        c.biases.append((t, "same", ["zz0"], False))
        c.biases.append((t, "same", ["zz0"], False))
    elif kind == "default-name-taken":
        c.biases.append(("linear", "harmonic%d" % r.choice([1, 2, 3]), ["zz0"], False))
    else:
        c.biases.append((t, None, ["zz0"], False))
    c.note += "counters:" + kind + " "


def touch_globals(r, c, state):
    which = r.choice(["traj", "restart", "both"])
    if which in ("traj", "both"):
        c.traj = r.choice(["7", "2", "abc", "-1", "0", "1e3", "2.5"])
    if which in ("restart", "both"):
        c.restart = r.choice(["5", "x", "-2", "0", "4"])
    if r.random() < 0.6:
        c.cvs.append((r.choice(["a", "b"]), [(None, ("n", 2)), (None, ("n", 5))], r.random() < 0.7))
    c.note += "globals:%s/%s " % (c.traj, c.restart)


def touch_activity(r, c, state):
    kind = r.choice(["bias-fails", "bias-fails-new-variable", "later-type-after-error", "bias-unknown-keyword"])
    if kind == "bias-fails":
        c.biases.append((r.choice(["harmonic", "linear"]), r.choice([None, "act"]), ["zz0"], True))
    elif kind == "bias-fails-new-variable":
        c.cvs.append(("a", [(None, ("n", 2)), (None, ("n", 5))], False))
        c.biases.append(("harmonic", None, ["zz0", "a"], True))
    elif kind == "later-type-after-error":
        c.cvs.append(("a", [(None, ("n", 2)), (None, ("n", 5))], False))
        c.biases.append(("harmonic", None, ["a"], True))
        c.biases.append(("linear", None, ["zz0"], False))
    else:
        c.biases.append(("harmonic", None, ["zz0"], True))
    c.note += "activity:" + kind + " "


def touch_holders(r, c, state):
    """two holders of the same thing: two biases on one variable, a named atom group copied by another variable, an
    unnamed and a named bias of one type; a deletion follows (gen_session)"""
    kind = r.choice(["two-biases-one-variable", "shared-named-group", "two-variables-one-bias", "three-biases"])
    if kind == "two-biases-one-variable":
        c.biases.append(("harmonic", None, ["zz0"], False))
        c.biases.append(("harmonic", "second", ["zz0"], False))
        state["deletable"] = ["DELB:harmonic1", "DELB:second", "DELC:zz0"]
    elif kind == "shared-named-group":
        c.cvs.append(("a", [("g", ("n", 2)), (None, ("n", 5))], False))
        c.cvs.append(("b", [(None, ("o", "g")), (None, ("n", 6))], False))
        c.biases.append(("harmonic", None, ["a", "b"], False))
        state["deletable"] = ["DELC:a", "DELC:b", "DELB:harmonic1"]
    elif kind == "two-variables-one-bias":
        c.cvs.append(("a", [(None, ("n", 2)), (None, ("n", 5))], False))
        c.biases.append(("linear", None, ["zz0", "a"], False))
        c.biases.append(("harmonic", "onlya", ["a"], False))
        state["deletable"] = ["DELC:a", "DELB:linear1", "DELB:onlya", "DELC:zz0"]
    else:
        c.biases.append(("harmonic", None, ["zz0"], False))
        c.biases.append(("linear", None, ["zz0"], False))
        c.biases.append(("harmonic", None, ["zz0"], r.random() < 0.5))
        state["deletable"] = ["DELB:linear1", "DELB:harmonic1", "DELB:harmonic2", "DELB:nosuchbias"]
    c.note += "holders:" + kind + " "


TOUCHERS = [touch_index, touch_index, touch_named, touch_counters, touch_globals, touch_activity, touch_holders]


def consumer(r, state):
    c = Cfg()
    kind = r.choice(["other-file", "index-group", "corrected-file", "named-group", "unnamed-bias", "plain-variable", "nothing", "index-and-named"])
    if kind in ("other-file", "index-and-named"):
        c.files.append(("c.ndx", file_tokens([("fourth", GROUPS["fourth"])])))
        c.cvs.append(("e", [(None, ("i", "fourth")), (None, ("n", 6))], False))
    if kind == "index-group":
        g = r.choice(sorted(GROUPS))
        c.cvs.append(("e", [(None, ("i", g)), (None, ("n", 6))], False))
    if kind == "corrected-file":
        if state.get("broken"):
            fn, groups = state["broken"]
        else:
            fn, groups = "a.ndx", rand_groups(r)
        c.files.append((fn, file_tokens(groups)))
        c.cvs.append(("e", [(None, ("i", groups[-1][0])), (None, ("n", 6))], False))
    if kind in ("named-group", "index-and-named"):
        g = r.choice(NAMED)
        c.cvs.append(("f", [(g, ("n", 3)), (None, ("o", g))], False))
    if kind == "unnamed-bias":
        c.biases.append((r.choice(["harmonic", "linear"]), None, ["zz0"], False))
    if kind == "plain-variable":
        c.cvs.append(("e", [(None, ("n", 3)), (None, ("n", 6))], False))
        c.biases.append(("harmonic", None, ["e"], False))
    c.note = "consume:" + kind
    return c


def gen_session(r, k):
    """returns dict(cfgs=[Cfg or 'RESET'], shape)"""
    state = {}
    cfgs = []
    n_touch = r.choice([1, 1, 2, 2, 3])
    for i in range(n_touch):
        c = Cfg()
        for t in r.sample(TOUCHERS, r.choice([1, 1, 1, 2])):
            t(r, c, state)
        cfgs.append(c)
        if state.get("deletable") and r.random() < 0.7:
            for d in r.sample(state["deletable"], r.choice([1, 1, 2])):
                cfgs.append(d)
            state["deletable"] = None
        if r.random() < 0.08:
            cfgs.append("RESET")
            cfgs.append(BASE)
    cfgs.append(consumer(r, state))
    if r.random() < 0.3:
        cfgs.append(consumer(r, state))
    return cfgs


def model_line(cfgs, variant=None, restore=None):
    extra = (" variant=%s" % variant if variant else "") + (" restore=%s" % restore if restore is not None else "")
    return "session6 traj0=1 restart0=3%s cfgs=%s" % (extra, "|".join(c if isinstance(c, str) else c.model() for c in [BASE] + cfgs))


def scenario(cfgs, nsteps=3, via_file=False):
    S = ["natoms %d" % NATOMS, "prefix out", "restartfreq 3", "temperature 300", "new"] + positions(0)
    S += ["config EOF", BASE.text().rstrip("\n"), "EOF", "objs", "globals " + " ".join(NAMED), "step"]
    for c in cfgs:
        if c == "RESET":
            S += ["script cv reset", "objs", "globals " + " ".join(NAMED)]
            continue
        if isinstance(c, str):
            S += ["script cv %s %s delete" % ("bias" if c.startswith("DELB:") else "colvar", c[5:]), "objs", "globals " + " ".join(NAMED)]
            continue
        S += c.putfiles()
        if via_file:
            # the other entry point for the same text: a configuration FILE (colvarmodule::read_config_file)
            nfile = sum(1 for l in S if l.startswith("configfile "))
            S += ["putfile cfg%d.in %s" % (nfile, c.text().rstrip("\n").replace("\n", "\\n")), "configfile cfg%d.in" % nfile,
                  "objs", "globals " + " ".join(NAMED)]
        else:
            S += ["config EOF", c.text().rstrip("\n"), "EOF", "objs", "globals " + " ".join(NAMED)]
    S.append("echo FINAL")
    for kk in range(1, nsteps + 1):
        S += positions(kk) + ["step"]
    S += ["save text s.state", "postrun", "objs"]
    return "\n".join(S) + "\n"


def impl_states(out):
    """the same lines as the model prints, from the simulator's output: one per CONFIG / reset"""
    res = []
    blocks = re.split(r"^(?=CONFIG |SCRIPT )", out, flags=re.M)
    for b in blocks:
        head = b.split("\n", 1)[0]
        if head.startswith("CONFIG "):
            verdict = "accept" if "err=ok" in head else "reject"
        elif head.startswith("SCRIPT "):
            verdict = "reset"
        else:
            continue
        mo = re.search(r"^OBJS cv=(\S*) bias=(\S*)", b, re.M)
        mg = re.search(r"^GLOBALS trajfreq=(\S+) restartfreq=(\S+)", b, re.M)
        mr = re.search(r"^GROUPS(.*) files=", b, re.M)
        mn = re.search(r"^NAMED(.*)$", b, re.M)
        ma = re.search(r"^ACTIVE(.*)$", b, re.M)
        if not (mo and mg and mr and mn and ma):
            res.append(verdict + " <incomplete>")
            continue
        reg = "/".join(x.replace("=", ":", 1) for x in mr.group(1).split())
        named = ",".join(sorted(x.split("=")[0] for x in mn.group(1).split() if x.endswith("=1")))
        res.append("%s cv=%s bias=%s reg=%s named=%s act=%s traj=%s restart=%s crash=0" % (
            verdict, mo.group(1).rstrip(","), mo.group(2).rstrip(","), reg, named, ",".join(sorted(ma.group(1).split())), mg.group(1), mg.group(2)))
    return res


def norm_model(line):
    """model output -> list of state strings, named groups sorted"""
    out = []
    for s in line.split(" ; "):
        m = re.search(r" named=(\S*) act=(\S*) traj=", s)
        if m:
            s = s.replace(" named=%s act=%s traj=" % (m.group(1), m.group(2)), " named=%s act=%s traj=" % (
                ",".join(sorted(x for x in m.group(1).split(",") if x)), ",".join(sorted(x for x in m.group(2).split(",") if x))))
        out.append(s)
    return out


def final_tail(out):
    """what the session reports from its last configuration on.  The engine-side atom table legitimately keeps the
    slots of atoms that a rejected (deleted) object had requested, with zero force: atom lines are compared as the
    sorted set of non-zero forces of each step."""
    i = out.find("echo FINAL")
    res, atoms = [], []
    for l in out[i:].split("\n"):
        w = l.split(" ")[0]
        if w == "ATOMF":
            if not l.endswith(" 0x0p+0 0x0p+0 0x0p+0"):
                atoms.append(l)
            continue
        if atoms:
            res += sorted(atoms)
            atoms = []
        if w in ("STEP", "ENERGY", "CV", "BIAS", "SAVE", "POSTRUN", "OBJS"):
            res.append(l)
    return res + sorted(atoms)


def systematic_sessions(r):
    """one session per kind of index-file defect: [valid file defining two groups] -> [the defective file, with a group
    that exists listed again identically or a new group] -> [a consumer of the registry]; the consumer rotates with the
    seed so that every pair is met over a few runs"""
    out = []
    kinds = ["text-new", "text-relist", "nonpositive-relist", "float-new", "badheader", "badstart", "empty", "missing", "redefined", "duplicate-differs"]
    consumers = ["other-file", "index-group", "corrected-file"]
    rot = r.randrange(3)
    for i, kind in enumerate(kinds):
        c0 = Cfg()
        c0.files.append(("a.ndx", file_tokens([("first", GROUPS["first"]), ("third", GROUPS["third"])])))
        c0.note = "index:good"
        c1 = Cfg()
        if kind.endswith("-relist"):
            groups = [("second", GROUPS["second"]), ("first", GROUPS["first"])]
            toks = file_tokens(groups, kind.split("-")[0], len(GROUPS["first"]))
        elif kind.endswith("-new"):
            groups = [("first", GROUPS["first"]), ("second", GROUPS["second"])]
            toks = file_tokens(groups, kind.split("-")[0], 2)
        elif kind == "redefined":
            groups = [("second", GROUPS["second"]), ("first", [1, 2, 4])]
            toks = file_tokens(groups)
        elif kind == "duplicate-differs":
            groups = [("second", GROUPS["second"]), ("fourth", GROUPS["fourth"]), ("second", GROUPS["second"][:-1])]
            toks = file_tokens(groups)
        elif kind == "missing":
            groups, toks = [("second", GROUPS["second"])], None
        else:
            groups = [("second", GROUPS["second"]), ("fourth", GROUPS["fourth"])]
            toks = file_tokens(groups, kind, 1)
        c1.files.append(("nosuch.ndx" if toks is None else "b.ndx", toks))
        c1.note = "index:" + kind
        c2 = Cfg()
        cons = consumers[(i + rot) % 3]
        if cons == "other-file":
            c2.files.append(("c.ndx", file_tokens([("fourth", GROUPS["fourth"])])))
            c2.cvs.append(("e", [(None, ("i", "fourth")), (None, ("n", 6))], False))
        elif cons == "index-group":
            c2.cvs.append(("e", [(None, ("i", groups[-1][0])), (None, ("i", "first"))], False))
        else:
            good = []
            for g, _ in groups:
                if g not in [x for x, _ in good]:
                    good.append((g, GROUPS[g]))
            c2.files.append(("b.ndx", file_tokens(good)))
            c2.cvs.append(("e", [(None, ("i", good[-1][0])), (None, ("n", 6))], False))
        c2.note = "consume:" + cons
        out.append([c0, c1, c2])
    return out
