# C10: invalid parameter values are reported as errors and are never fatal (partial).
#
#  tie     every entry of the guard table (props/C10/table.py <-> coq/C10/GuardModel.v) x boundary values is run
#          through the engine simulator (one process per case; plain build with an address-space limit, and the
#          ASan/UBSan build), the outcome class {accepted, rejected, died} is compared with the extracted model's
#          validate; grid sizes and the object lists after a rejected configuration are compared exactly.
#  oracle  (implementation alone) any death (signal, sanitizer report, uncaught exception, timeout, exit inside
#          the library) is a failing input; after a rejected configuration the object lists must be the ones from
#          before and the surviving objects must give bit-identical results to a run that never saw it.
#  search  the same sweep over every keyword harvested from the echo lines of valid parses of the configurations
#          under /repo/tests/input_files, and random combinations of invalid values.
import os, re, sys, json, glob, time, hashlib
import vcommon as V
sys.path.insert(0, os.path.dirname(os.path.abspath(__file__)))
import c10lib as L
import table as T
import modstate as MS
import guardscan as G

PROP = "coq/C10/Properties_C10.v"
HOST_BYTES = 3 << 30


def value_class(v):
    """class of a value text: the signature of a finding is <object kind>.<keyword>:<value class>"""
    try:
        if v.startswith("-") and v[1:2].isdigit():
            return "negative"
        if re.fullmatch(r"[-+]?\d+", v):
            z = int(v)
            if z == 0:
                return "zero"
            if z < 0:
                return "negative"
            if z == 1:
                return "one"
            if z < 2147483647:
                return "small-positive"
            return "large"
        x = float(v)
        if x != x or x in (float("inf"), float("-inf")):
            return "non-numeric"
        if "." in v and "e" not in v.lower():
            return "fraction"
        if abs(x) >= 1e100:
            return "huge-real"
        if abs(x) <= 1e-100:
            return "tiny-real"
        return "real"
    except ValueError:
        return "non-numeric"


_value_class = value_class
def value_class(v):
    return "absent" if v == "-" else _value_class(v)


KIND_OF = {"harmonicstgk": "harmonic", "harmonicstgc": "harmonic", "harmonicsched": "harmonic", "wallsdec": "harmonicwalls", "linearstg": "linear",
           "colvaroff1": "colvar", "colvarrof0": "colvar", "opesad": "opes", "metanogrid": "meta", "opesrep": "opes", "opesreprof0": "opes"}


def find_block(root, path):
    blk = root
    for k in path:
        blk = [c for c in blk.children() if c.key == k][0]
    return blk


def last_config(res):
    cr = L.config_results(res["out"])
    return cr[-1] if cr else None


def objs_lines(out):
    return re.findall(r"OBJS cv=(\S*) bias=(\S*)", out)


def base_trace(out):
    """what the surviving base objects (zz0, hh0, atom 4) report at each step"""
    keep = []
    for l in out.split("\n"):
        if l.startswith("CV zz0 ") or l.startswith("BIAS hh0 ") or l.startswith("ATOMF 4 "):
            keep.append(l)
    return keep


def setup():
    V.extract_model("C10", "coq/C10/Extract_C10.v", "props/C10/driver.ml", [])
    V.build_prog("c10sim", ["props/C10/unit.cpp"])
    V.build_prog("c10sim", ["props/C10/unit.cpp"], "asan")


# ------------------------------------------------------------------------------------------------
# model lines for the table entries
# ------------------------------------------------------------------------------------------------

def model_line(entry, value):
    eid = entry[0]
    kind, fields, var = T.MODEL[eid]
    f = dict(fields)
    f[var] = value
    if kind == "gridkw":
        return grid_model_line([(f["lower"], f["upper"], f["width"])], cw=0)
    if kind == "scripted-always-rejected":
        kind = "scripted"
    if kind == "nnet":
        return "bias rof=3"        # placeholder line: this entry's expectation is computed in python_model()
    return kind + " " + " ".join("%s=%s" % (k, v) for k, v in sorted(f.items()))


def python_model(entry, value, mo):
    """entries whose expected verdict is not (only) the extracted model's"""
    kind, fields, var = T.MODEL[entry[0]]
    if kind == "scripted-always-rejected":
        # the size is validated (model), then the simulator rejects scripted functions anyway
        return "reject " + " ".join(mo.split()[1:])
    if kind == "nnet":
        ok = value == "-" or (re.fullmatch(r"\d+", value) is not None and int(value) < int(fields["outputs"]))
        return ("accept" if ok else "reject") + " initsafe=1 stepsafe=1"
    return mo


def guard_lists():
    """(file, keyword) pairs of guard_covered / guard_exempt, read from coq/C10/GuardModel.v (single source)"""
    txt = open(os.path.join(V.COQ, "C10", "GuardModel.v")).read()
    def lst(name):
        m = re.search(r"Definition %s[^\[]*\[(.*?)\]\." % name, txt, re.S)
        return set(re.findall(r'\("([^"]+)",\s*"([^"]+)",', m.group(1))) if m else set()
    return lst("guard_covered"), lst("guard_exempt")


def presetup():
    G.write_gen(G.scan(os.path.join(V.REPO, "src"), os.path.join(V.BUILD, "scratch")), V.COQ)


def grid_model_line(dims, cw=1, mult=1, elt=8):
    return "grid cw=%d mult=%d elt=%d dims=%s" % (cw, mult, elt, ",".join("%s:%s:%s" % d for d in dims))


# ------------------------------------------------------------------------------------------------
# check
# ------------------------------------------------------------------------------------------------

def check(run):
    r = V.rng("C10")
    quick = run.tier == "quick"
    run.cov["rule"] = ("table sweep: every guard-table entry x {0,-1,1,2^31-1,1e300,nan,inf} (+8 more values in the thorough tier), "
                       "8 steps with trajectory/restart/state output, plain build under a 3 GiB address-space limit and ASan/UBSan build; "
                       "grid sizes: 1-4 dimensions with sizes around 2^16, 2^31, 2^32 and non-positive/degenerate widths; roll-back: random lists of "
                       "valid/invalid variable and bias blocks after a base configuration; search: keywords harvested from the echo lines of the "
                       "87 configurations of tests/input_files x the same values, random pairs. distinct = (kind, keyword, value class, variant); "
                       "non-trivial = the value is rejected, or accepted with a value other than the base configuration's")
    run.assumptions += [
        "the theorems are about the validation logic mirrored in GuardModel.v; memory safety, signals, exceptions and hangs of the real binary are OBSERVED by this sweep, not proved",
        "real-valued parameters are exact rationals in the model and doubles in the C++: the generated boundaries and widths are dyadic or far (>= 2^10 x) from every threshold",
        "allocation: the model is parameterised by the bytes the host grants in one request (3 GiB = the address-space limit of the plain runs); cases within a factor 64 of that limit are skipped as boundary-ambiguous",
    ]
    # ---- completeness of the guard table with respect to the current source tree (static harvest)
    recs = G.scan(os.path.join(V.REPO, "src"), os.path.join(V.BUILD, "scratch"))
    G.write_gen(recs, V.COQ)
    covered, exempt = guard_lists()
    run.cov["correspondence"]["guard_keywords_found_in_source"] = len(recs)
    run.cov["correspondence"]["guard_keywords_covered_by_model"] = len([r for r in recs if (r["file"], r["keyword"]) in covered])
    by_kind = {}
    for rec in recs:
        for u in rec["uses"]:
            by_kind[u[0]] = by_kind.get(u[0], 0) + 1
    run.cov["correspondence"]["guard_use_sites_by_kind"] = by_kind
    run.cov["correspondence"]["guard_keywords_read_with_key_lookup"] = sorted(r["keyword"] for r in recs if "key_lookup" in r["type"])
    for rec in recs:
        key = (rec["file"], rec["keyword"])
        run.count(("guardscan",) + key, key in covered)
        run.dist("guardscan:" + ("covered" if key in covered else "exempt" if key in exempt else "UNCOVERED"))
        if key not in covered and key not in exempt:
            u = rec["uses"][0]
            run.violation("guards:uncovered:%s:%s" % key,
                          "keyword %s of %s (destination %s, %s) is used as %s at %s:%d `%s` but is neither in the guard table of GuardModel.v nor "
                          "exempted with a reason: the validation of this quantity is not modelled" % (
                              rec["keyword"], rec["file"], rec["dest"], rec["type"], "/".join(G.kinds(rec)), u[1], u[2], u[3]),
                          {"kind": "guardscan", "record": rec}, found_input=False)
    st = V.standard_start(run, PROP, "coq/C10/Extract_C10.v", "props/C10/driver.ml",
                          {"c10sim": ["props/C10/unit.cpp"]}, extra_ml=())
    if st is None:
        return
    model, exes = st
    plain = exes["c10sim"]
    try:
        asan = V.build_prog("c10sim", ["props/C10/unit.cpp"], "asan")
    except V.InfraError as e:
        if "compilation of /repo failed" in str(e):
            raise
        asan = None
        run.notes.append("ASan/UBSan build unavailable: " + str(e)[-200:])
    W = V.scratch("C10")
    t_start = time.time()

    def report_death(kind, kw, value, variant, res, scenario, extra="", vclass=None):
        sig = "death:%s.%s:%s" % (kind, kw, vclass or value_class(value))
        run.violation(sig, "%s %s = %s (%s build): the host process %s [%s] %s%s" % (
            kind, kw, value, variant, res["cls"], res["detail"][:160], L.death_site(res["out"]), extra),
            {"kind": "scenario", "variant": variant, "scenario": scenario, "class": res["cls"], "detail": res["detail"][:400]})

    # reference behaviour of the base objects when no further configuration is supplied
    ref = L.run_scenario(plain, T.scenario(None), os.path.join(W, "ref"), "plain", 60)
    if ref["cls"] != "ok":
        run.violation("death:base-configuration", "the base configuration alone: %s %s" % (ref["cls"], ref["detail"][:200]),
                      {"kind": "scenario", "scenario": T.scenario(None)})
        return
    ref_trace = base_trace(ref["out"])

    def check_survivors(kind, kw, value, variant, res, scenario):
        """after a REJECTED configuration: lists as before, base objects behave as in the reference run"""
        ol = objs_lines(res["out"])
        if len(ol) >= 2 and ol[0] != ol[1]:
            # objects accepted before the rejected one in the same configuration legitimately stay; the base objects must lead the lists
            if not (ol[1][0].startswith(ol[0][0]) and ol[1][1].startswith(ol[0][1])):
                run.violation("rollback:lists:%s.%s" % (kind, kw), "after the rejected configuration (%s %s = %s) the object lists are %s, before %s" % (
                    kind, kw, value, ol[1], ol[0]), {"kind": "scenario", "variant": variant, "scenario": scenario})
        if variant == "plain":
            tr = base_trace(res["out"])
            nst = scenario.count("\nstep\n")
            if tr != ref_trace[:3 * nst]:
                k = next((i for i, (a, b) in enumerate(zip(tr, ref_trace)) if a != b), min(len(tr), len(ref_trace)))
                run.violation("rollback:behaviour:%s.%s" % (kind, kw),
                              "after the rejected configuration (%s %s = %s) the previously defined objects differ from a run that never saw it: %s vs %s" % (
                                  kind, kw, value, tr[k] if k < len(tr) else "<missing>", ref_trace[k] if k < len(ref_trace) else "<missing>"),
                              {"kind": "scenario", "variant": variant, "scenario": scenario})

    MODERATE = ("zero", "negative", "one", "small-positive", "fraction", "absent")

    def check_finite(kind, kw, v, variant, res, scenario, classes):
        """an ACCEPTED configuration whose values under test are all of moderate size must not hand NaN or inf to the engine"""
        def moderate(t):
            try:
                x = float(t)
            except ValueError:
                return t == "-"
            return x == x and (x == 0 or 1e-6 <= abs(x) <= 1e6)
        if res["cls"] != "ok" or any(c not in MODERATE for c in classes) or not all(moderate(t) for t in (v.split() or [v])):
            return
        lc = last_config(res)
        if not (lc and lc[0] == "ok"):
            return
        m = re.search(r"^(ENERGY|BIAS \S+|CV \S+|ATOMF \d+(?: \S+)*?) -?(nan|inf)", res["out"], re.M)
        if m:
            run.violation("nonfinite:%s.%s:%s" % (kind, kw, "-".join(classes) or "empty"),
                          "accepted configuration (%s %s = %s, %s build) hands a non-finite value to the engine: %s" % (kind, kw, v, variant, m.group(0)),
                          {"kind": "scenario", "variant": variant, "scenario": scenario})

    # ------------------------------------------------------------------ 1. guard-table sweep (tie)
    values = list(L.BOUNDARY_VALUES) + ([] if quick else list(L.EXTRA_VALUES))
    # witnesses of the theorems (always run)
    extra_cases = [("module.colvarsTrajFrequency", "2305843009213693952"), ("colvaroff1.corrFuncLength", "-1"),
                   ("colvar.corrFuncLength", "2147483647"), ("colvarrof0.corrFuncStride", "2147483647"),
                   ("colvar.corrFuncOffset", "-1"), ("meta.gridsUpdateFrequency", "0"), ("meta.newHillFrequency", "0"),
                   ("histrestr.upperBoundary", "2147483647"), ("histrestr.upperBoundary", "2000000000"), ("histrestr.width", "1e-300"), ("opes.colvarsRestartFrequency", "0"),
                   ("colvar.scriptedFunctionVectorSize", "-1"), ("colvar.scriptedFunctionVectorSize", "2147483647"),
                   ("opesrep.sharedFreq", "0"), ("opesreprof0.sharedFreq", "-"), ("nnet.output_component", "5"),
                   ("nnet.output_component", "100000000"), ("colvar.corrFuncLength", "1000000000")]
    cases = []
    for e in T.ENTRIES:
        for v in values:
            cases.append((e, v))
        # the keyword OMITTED (its default is used: is the default validated?), in the entry's base configuration, whose
        # companion keywords make the quantity live (staged changes for targetNumSteps, grids, adaptive sigma, ...)
        if T.MODEL[e[0]][0] not in ("gridkw", "cvgrid"):
            cases.append((e, "-"))
    for eid, v in extra_cases:
        if (T.BY_ID[eid], v) not in cases:
            cases.append((T.BY_ID[eid], v))
    variants = ["plain"] + (["asan"] if asan else [])
    jobs = []
    scen = {}
    for e, v in cases:
        root = L.parse_config(e[1])
        txt = L.remove_keyword(root, find_block(root, e[2]), e[3]) if v == "-" else L.mutate(root, find_block(root, e[2]), e[3], v)
        sc = T.scenario(txt, e[4])
        scen[(e[0], v)] = sc
        for var in variants:
            if len(e) > 5:
                wd = os.path.join(W, "t", var, e[0], re.sub(r"[^A-Za-z0-9.+-]", "_", v))
                os.makedirs(wd, exist_ok=True)
                for fn, content in e[5].items():
                    open(os.path.join(wd, fn), "w").write(content)
            if var == "asan" and quick and (e, v) not in [(T.BY_ID[a], b) for a, b in extra_cases]:
                # quick tier: the sanitizer build runs a seed-dependent third of the table
                if r.random() > 0.2:
                    continue
            jobs.append(((e[0], v, var), plain if var == "plain" else asan, sc,
                         os.path.join(W, "t", var, e[0], re.sub(r"[^A-Za-z0-9.+-]", "_", v)), var, 12 if var == "plain" else 25))
    mlines = [model_line(e, v) for e, v in cases]
    rc, mout, merr = V.run_lines(model, mlines)
    if len(mout) != len(mlines):
        run.violation("tie:model-run", "the model driver answered %d of %d lines: %s" % (len(mout), len(mlines), merr[-300:]),
                      {"kind": "model"}, found_input=False)
        return
    mres = dict(((e[0], v), python_model(e, v, o)) for (e, v), o in zip(cases, mout))
    res = L.run_many(jobs)
    n_dead = 0
    for (eid, v, var), rr in sorted(res.items()):
        e = T.BY_ID[eid]
        kind, kw = KIND_OF.get(eid.split(".")[0], eid.split(".")[0]), e[3]
        mo = mres[(eid, v)]
        mverdict = mo.split()[0]
        unsafe = ("initsafe=0" in mo) or (mverdict == "accept" and ("stepsafe=0" in mo or "corrsafe=0" in mo))
        ambiguous = eid in T.MEMORY_SENSITIVE and value_class(v) in T.MEMORY_SENSITIVE[eid]
        cls = rr["cls"]
        impl = cls
        if rr.get("skipped"):
            run.dist("table:inconclusive(harness limit)")
            continue
        if cls == "ok":
            lc = last_config(rr)
            impl = "accept" if (lc and lc[0] == "ok") else "reject"
        nontrivial = (impl != "accept") or (v not in ("1", "2"))
        run.count((eid, value_class(v), var), nontrivial)
        run.dist("table:%s:%s" % (var, impl if impl in ("accept", "reject") else "died"))
        check_finite(kind, kw, v, var, rr, scen[(eid, v)], [value_class(v)])
        if cls != "ok":
            n_dead += 1
            report_death(kind, kw, v, var, rr, scen[(eid, v)], " (model: %s)" % mo)
            if not unsafe and not ambiguous:
                run.mismatch("table:%s.%s" % (kind, kw), "%s=%s (%s)" % (kw, v, var), cls, mo)
            continue
        if impl == "reject":
            check_survivors(kind, kw, v, var, rr, scen[(eid, v)])
        if ambiguous:
            run.dist("table:boundary-ambiguous")
            continue
        if unsafe:
            run.notes.append("model predicts an unsafe use for %s=%s but the %s run survived (%s)" % (eid, v, var, impl))
            continue
        if kind == "histrestr" and mverdict == "accept" and "nbins=8" not in mo.split():
            mverdict = "reject"      # refHistogram of the base configuration has 8 values: any other bin count is a list-length error (not modelled)
        if impl != mverdict:
            run.mismatch("table:%s.%s" % (kind, kw), "%s=%s (%s)" % (kw, v, var), impl, mo)
    run.notes.append("table sweep: %d runs, %.1f s" % (len(jobs), time.time() - t_start))
    run.sample({"table_case": "%s %s=%s" % (cases[0][0][0], cases[0][0][3], cases[0][1]),
                "model": mout[0], "impl": res[(cases[0][0][0], cases[0][1], "plain")]["cls"]})

    # ------------------------------------------------------------------ 2. grid sizes (tie of grid_init)
    gcases = gen_grid_cases(r, 10 if quick else 60)
    jobs = []
    glines = []
    for k, g in enumerate(gcases):
        glines.append(grid_model_line(g["dims"], cw=0))
        sc = T.scenario(T.hist_grid_config(g["dims"]), 3, nsteps=3)
        g["scenario"] = sc
        for var in variants:
            if var == "asan" and quick and k % 3 != run.seed % 3:
                continue
            jobs.append(((k, var), plain if var == "plain" else asan, sc, os.path.join(W, "g", var, str(k)), var, 20 if var == "plain" else 60))
    rc, gout, gerr = V.run_lines(model, glines)
    gres = L.run_many(jobs)
    for (k, var), rr in sorted(gres.items()):
        g = gcases[k]
        mo = gout[k] if k < len(gout) else "<none>"
        run.count(("grid", g["label"], var), True)
        run.dist("grid:" + var)
        if rr.get("skipped"):
            run.dist("grid:inconclusive(harness limit)")
            continue
        if rr["cls"] != "ok":
            report_death("grid", "sizes", g["label"], var, rr, g["scenario"], " dims=%s (model: %s)" % (g["dims"], mo), vclass=g["label"])
            if not g["ambiguous"]:
                run.mismatch("grid:sizes", str(g["dims"]), rr["cls"], mo)
            continue
        lc = last_config(rr)
        impl = "accept" if (lc and lc[0] == "ok") else "reject"
        if impl == "reject":
            check_survivors("grid", "sizes", g["label"], var, rr, g["scenario"])
        if g["ambiguous"]:
            run.dist("grid:boundary-ambiguous")
            continue
        if impl != mo.split()[0]:
            run.mismatch("grid:sizes", str(g["dims"]), impl, mo)
    run.notes.append("after grid sweep: %.1f s" % (time.time() - t_start))
    run.sample({"grid_case": gcases[0]["dims"], "model": gout[0] if gout else None})

    # ------------------------------------------------------------------ 3. roll-back (tie of parse_config)
    rcases = [gen_rollback_case(r, k) for k in range(24 if quick else 200)]
    rlines = [c["model"] for c in rcases]
    rc, rout, rerr = V.run_lines(model, rlines)
    jobs = [(k, plain, c["scenario"], os.path.join(W, "r", str(k)), "plain", 40) for k, c in enumerate(rcases)]
    rres = L.run_many(jobs)
    for k, c in enumerate(rcases):
        rr = rres[k]
        run.count(("rollback", c["shape"]), c["nfail"] > 0)
        run.dist("rollback:%s" % ("with-rejected-object" if c["nfail"] else "all-valid"))
        if rr["cls"] != "ok":
            report_death("rollback", "objects", c["shape"], "plain", rr, c["scenario"], vclass="any")
            continue
        ol = objs_lines(rr["out"])
        lc = last_config(rr)
        impl = "%s cv=%s bias=%s" % ("accept" if lc and lc[0] == "ok" else "reject", ol[1][0].rstrip(","), ol[1][1].rstrip(",")) if len(ol) >= 2 else "?"
        mo = rout[k] if k < len(rout) else "<none>"
        if impl != mo:
            run.mismatch("rollback:lists", c["model"], impl, mo)
            # property oracle: the base objects must still lead the lists, and no rejected block may be present
            cvn = ol[1][0].rstrip(",").split(",") if len(ol) >= 2 else []
            bad = [n for n in c["failing_names"] if n in cvn or n in (ol[1][1].rstrip(",").split(",") if len(ol) >= 2 else [])]
            if bad or not (len(ol) >= 2 and ol[1][0].startswith("zz0,") and ol[1][1].startswith("hh0,")):
                run.violation("rollback:lists", "object lists after a configuration with rejected blocks: %s (rejected blocks: %s)" % (
                    ol[1] if len(ol) >= 2 else ol, c["failing_names"]), {"kind": "scenario", "scenario": c["scenario"]})
        tr = base_trace(rr["out"])
        if tr != ref_trace[:3 * c["scenario"].count("\nstep\n")]:
            run.violation("rollback:behaviour", "previously defined objects behave differently after configuration %s" % c["model"],
                          {"kind": "scenario", "scenario": c["scenario"]})
    run.notes.append("after rollback sweep: %.1f s" % (time.time() - t_start))
    run.sample({"rollback_case": rcases[0]["model"], "model": rout[0] if rout else None})

    # ------------------------------------------------------------------ 3a. validation decision per kind (tie of *_validate)
    vd_cases, vd_lines = [], []
    for ei, (kind, args, render, sc0, li0, fl0, only) in enumerate(T.VALIDATE):
        variants_kw = []
        if only is None or "s" in only:
            for kw in sc0:
                for v in T.VALIDATE_VALUES:
                    variants_kw.append(("s", kw, v))
        if only is None or "l" in only:
            for kw in li0:
                for v in T.VECTOR_VALUES + ["-", "3 0", "0 3", "3 3"]:
                    variants_kw.append(("l", kw, v))
        for kw in fl0:
            for v in ("on", "off"):
                variants_kw.append(("f", kw, v))
        variants_kw.append(("base", "", ""))
        if quick:
            # the values at which the guards decide (0, -1, keyword absent) always; a random dozen of the others
            must = [t for t in variants_kw if t[0] == "base" or t[0] == "f" or (t[0] == "s" and t[2] in ("0", "-1", "-")) or (t[0] == "l" and t[2] in ("-", "1", ""))]
            rest = [t for t in variants_kw if t not in must]
            r.shuffle(rest)
            variants_kw = must + rest[:10]
        for typ, kw, v in variants_kw:
            sc_, li_, fl_ = dict(sc0), dict(li0), dict(fl0)
            if typ == "s" and kind == "walls" and kw == "forceConstant" and v == "1e-300":
                run.dist("validate:boundary-ambiguous")
                continue          # the product of the two constants underflows to 0 in binary64, not in the exact model
            if typ == "s" and v == "-" and kind == "opesx" and kw in ("epsilon", "kernelCutoff"):
                continue          # their defaults are exp()/sqrt() of the other parameters: not modelled
            if typ == "s":
                if v == "-":
                    sc_.pop(kw)
                else:
                    sc_[kw] = v
            elif typ == "l":
                if v == "-":
                    li_.pop(kw)
                else:
                    li_[kw] = v.split()
            elif typ == "f":
                fl_[kw] = v
            conf = render(sc_, li_, fl_)
            line = "validate kind=%s %s %s %s %s" % (kind, " ".join("%s=%s" % kv for kv in args.items()),
                                                     " ".join("s:%s=%s" % kv for kv in sc_.items()),
                                                     " ".join("l:%s=%s" % (k_, ",".join(v_)) for k_, v_ in li_.items()),
                                                     " ".join("f:%s=%s" % kv for kv in fl_.items()))
            vd_cases.append((kind, ei, typ, kw, v, conf))
            vd_lines.append(line)
    vd_lines = [(l.replace("bfinf=0", "bfinf=1") if re.search(r"s:biasfactor=(inf|INF)( |$)", l) else l) for l in vd_lines]
    rc, vdout, vderr = V.run_lines(model, vd_lines)
    vdjobs = []
    for k, c in enumerate(vd_cases):
        sc = T.scenario(c[5], 3, nsteps=4)
        for var in variants:
            if var == "asan" and quick and k % 6 != run.seed % 6:
                continue
            vdjobs.append(((k, var), plain if var == "plain" else asan, sc, os.path.join(W, "vd", var, str(k)), var, 20 if var == "plain" else 60))
    vdres = L.run_many(vdjobs)
    for (k, var), rr in sorted(vdres.items()):
        kind, ei, typ, kw, v, conf = vd_cases[k]
        mo = vdout[k] if k < len(vdout) else "<none>"
        lc = last_config(rr)
        impl = rr["cls"] if rr["cls"] != "ok" else (lc[0] if lc else "?")
        run.count(("validate", kind, kw, value_class(v) if typ == "s" else v, var), impl != "ok")
        run.dist("validate:%s:%s" % (kind, "accept" if impl == "ok" else "reject" if rr["cls"] == "ok" else "died"))
        if rr.get("skipped"):
            continue
        sc = T.scenario(conf, 3, nsteps=4)
        if rr["cls"] != "ok":
            report_death(kind, kw or "base", v or "base", var, rr, sc, " (model: %s)" % mo)
            run.mismatch("validate:%s.%s" % (kind, kw or "base"), "%s = %s (%s)" % (kw, v, var), rr["cls"], mo)
            continue
        if impl != "ok":
            check_survivors(kind, kw, v, var, rr, sc)
        if impl != mo:
            run.mismatch("validate:%s.%s" % (kind, kw or "base"), "%s %s = %s (%s)" % (kind, kw, v, var), impl, mo)
    if os.environ.get("C10_DUMP"):
        json.dump(getattr(run, "mismatches", {}), open(os.environ["C10_DUMP"], "w"), indent=1)
    run.sample({"validate_case": vd_lines[0], "model": vdout[0] if vdout else None})

    # ------------------------------------------------------------------ 3a''. explicit validation cases with auxiliary files
    v2lines = [c[0] for c in T.VALIDATE2]
    rc, v2out, v2err = V.run_lines(model, v2lines)
    v2jobs = []
    for k, (line, conf, files) in enumerate(T.VALIDATE2):
        sc = T.scenario(conf, 3, nsteps=4)
        for var in variants:
            if var == "asan" and quick and k % 3 != run.seed % 3:
                continue
            wd = os.path.join(W, "v2", var, str(k))
            os.makedirs(wd, exist_ok=True)
            for fn, txt in files.items():
                open(os.path.join(wd, fn), "w").write(txt)
            v2jobs.append(((k, var), plain if var == "plain" else asan, sc, wd, var, 20 if var == "plain" else 60))
    v2res = L.run_many(v2jobs)
    for (k, var), rr in sorted(v2res.items()):
        line, conf, files = T.VALIDATE2[k]
        kind = line.split()[1].split("=")[1]
        mo = v2out[k] if k < len(v2out) else "<none>"
        lc = last_config(rr)
        impl = rr["cls"] if rr["cls"] != "ok" else (lc[0] if lc else "?")
        run.count(("validate2", line, var), impl != "ok")
        run.dist("validate:%s:%s" % (kind, "accept" if impl == "ok" else "reject" if rr["cls"] == "ok" else "died"))
        if rr.get("skipped"):
            continue
        sc = T.scenario(conf, 3, nsteps=4)
        if rr["cls"] != "ok":
            report_death(kind, "case", str(k), var, rr, sc, " (%s; model: %s)" % (line, mo), vclass=line.split(" ", 2)[2] if len(line.split(" ", 2)) > 2 else "base")
            continue
        # an accepted bias must not report a non-finite energy to the engine
        if impl == "ok" and re.search(r"^(ENERGY|BIAS \S+) -?(nan|inf)", rr["out"], re.M):
            run.violation("nonfinite:%s" % kind, "accepted configuration (%s) reports a non-finite bias energy to the engine" % line,
                          {"kind": "scenario", "variant": var, "scenario": sc, "files": files})
        if impl != "ok":
            check_survivors(kind, "case", str(k), var, rr, sc)
        if impl != mo:
            run.mismatch("validate:%s" % kind, "%s (%s)" % (line, var), impl, mo)

    # ------------------------------------------------------------------ 3a'. sessions: a rejected configuration, then a valid one
    # (module-level residue: the harmonicWalls block queued by the legacy lowerWall/upperWall keywords of a variable)
    sess = [gen_session(r, k) for k in range(16 if quick else 120)]
    rc, sout, serr = V.run_lines(model, [c["model"] for c in sess])
    sjobs = []
    for k, c in enumerate(sess):
        sjobs.append(((k, "s"), plain, c["scenario"], os.path.join(W, "ss", str(k)), "plain", 30))
        if c["fresh"]:
            sjobs.append(((k, "f"), plain, c["fresh"], os.path.join(W, "sf", str(k)), "plain", 30))
        if asan and (not quick or k % 4 == run.seed % 4):
            sjobs.append(((k, "a"), asan, c["scenario"], os.path.join(W, "sa", str(k)), "asan", 60))
    sres = L.run_many(sjobs)
    for k, c in enumerate(sess):
        rr = sres[(k, "s")]
        run.count(("session", c["shape"]), True)
        run.dist("session:" + c["shape"].split(":")[0])
        for tag in ("s", "a"):
            r2 = sres.get((k, tag))
            if r2 is not None and r2["cls"] != "ok" and not r2.get("skipped"):
                report_death("session", "legacy-walls", c["shape"], "plain" if tag == "s" else "asan", r2, c["scenario"], vclass=c["shape"])
        if rr["cls"] != "ok":
            continue
        ol = objs_lines(rr["out"])
        crs = L.config_results(rr["out"])
        impl = " ; ".join("%s cv=%s bias=%s" % ("accept" if cr[0] == "ok" else "reject", o[0].rstrip(","), o[1].rstrip(","))
                          for cr, o in zip(crs[1:], ol[1:1 + len(crs) - 1]))
        mo = sout[k] if k < len(sout) else "<none>"
        if impl != mo:
            run.mismatch("rollback:residue:lists", c["model"], impl, mo)
        # oracle 1 (implementation alone): a configuration only defines objects that its text names
        last_objs = set((ol[len(crs) - 1][0] + ol[len(crs) - 1][1]).rstrip(",").split(",")) if len(ol) >= len(crs) else set()
        prev_objs = set((ol[len(crs) - 2][0] + ol[len(crs) - 2][1]).rstrip(",").split(",")) if len(crs) >= 2 and len(ol) >= len(crs) - 1 else set()
        extra_objs = [o for o in (last_objs - prev_objs) if o and o not in c["last_names"]]
        if extra_objs:
            run.violation("rollback:residue", "the last configuration of the session defines only %s but the objects %s appeared with it: "
                          "left over from the earlier, rejected configuration (%s)" % (sorted(c["last_names"]), sorted(extra_objs), c["shape"]),
                          {"kind": "scenario", "scenario": c["scenario"]})
        # oracle 2: after a configuration whose first object was rejected, the valid one behaves as in a fresh session
        if c["fresh"]:
            rf = sres[(k, "f")]
            if rf["cls"] == "ok":
                def tail(out):
                    i = out.rfind("CONFIG ")
                    return [l for l in out[i:].split("\n") if l.split(" ")[0] in ("CONFIG", "OBJS", "STEP", "ENERGY", "CV", "BIAS", "ATOMF", "SAVE", "POSTRUN")]
                ts, tf = tail(rr["out"]), tail(rf["out"])
                if ts != tf:
                    kx = next((i for i, (a_, b_) in enumerate(zip(ts, tf)) if a_ != b_), min(len(ts), len(tf)))
                    run.violation("rollback:residue", "a valid configuration supplied after a rejected one (%s) does not behave as in a session that never saw "
                                  "the rejected one: %s instead of %s" % (c["shape"], ts[kx] if kx < len(ts) else "<missing>", tf[kx] if kx < len(tf) else "<missing>"),
                                  {"kind": "scenario", "scenario": c["scenario"], "fresh_session": c["fresh"]})
    run.sample({"session_case": sess[0]["model"], "model": sout[0] if sout else None})

    # ------------------------------------------------------------------ 3a-3. sessions over ALL module-level state
    # (index-group registry, named atom groups, bias-type counters, module-level keywords, active variables):
    # [base] -> [configurations touching that state, rejected or accepted] -> [configuration consuming it] -> steps
    n6 = 28 if quick else 260
    sess6 = MS.systematic_sessions(r) + [MS.gen_session(r, k) for k in range(n6)]
    rc, m6, serr = V.run_lines(model, [MS.model_line(c) for c in sess6])
    m6 = [MS.norm_model(l) for l in m6]
    # the session without the configurations that the model says were rejected
    kept6 = []
    for k, c in enumerate(sess6):
        st = m6[k] if k < len(m6) else []
        kept = [x for i, x in enumerate(c) if not (i + 1 < len(st) and st[i + 1].startswith("reject "))]
        kept6.append(kept if len(kept) != len(c) else None)
    rc, m6k, serr = V.run_lines(model, [MS.model_line(c if c is not None else []) for c in kept6])
    m6k = [MS.norm_model(l) for l in m6k]
    j6 = []
    for k, c in enumerate(sess6):
        sc = MS.scenario(c, via_file=(k % 3 == 1))
        j6.append(((k, "s"), plain, sc, os.path.join(W, "m6s", str(k)), "plain", 30))
        if asan and (not quick or k % 4 == run.seed % 4):
            j6.append(((k, "a"), asan, sc, os.path.join(W, "m6a", str(k)), "asan", 60))
        same_model = kept6[k] is not None and k < len(m6) and k < len(m6k) and m6[k] and m6k[k] and \
            m6[k][-1].split(" ", 1)[1] == m6k[k][-1].split(" ", 1)[1]
        if same_model:
            j6.append(((k, "f"), plain, MS.scenario(kept6[k], via_file=(k % 3 == 1)), os.path.join(W, "m6f", str(k)), "plain", 30))
    r6 = L.run_many(j6)
    for k, c in enumerate(sess6):
        notes = [x.split(":")[0] if isinstance(x, str) else x.note.strip().replace(" ", "+") for x in c]
        shape = ">".join(n for n in notes if n)
        sc = MS.scenario(c, via_file=(k % 3 == 1))
        for tag in ("s", "a"):
            r2 = r6.get((k, tag))
            if r2 is not None and r2["cls"] != "ok" and not r2.get("skipped"):
                last_touch = [n for n in notes if n and not n.startswith("consume")]
                report_death("session", "module-state", shape, "plain" if tag == "s" else "asan", r2, sc,
                             vclass="%s>%s" % (last_touch[-1] if last_touch else "-", notes[-1]))
        rr = r6[(k, "s")]
        for n in notes:
            for part in n.split("+"):
                if part:
                    run.count(("session6", part), True)
        run.dist("session6:" + (notes[0].split(":")[0] if notes and notes[0] else "-"))
        if rr["cls"] != "ok":
            continue
        im = MS.impl_states(rr["out"])
        mo = m6[k] if k < len(m6) else []
        if im != mo:
            kx = next((i for i, (a_, b_) in enumerate(zip(im, mo)) if a_ != b_), min(len(im), len(mo)))
            a_, b_ = (im[kx] if kx < len(im) else "<missing>"), (mo[kx] if kx < len(mo) else "<missing>")
            fa, fb = dict(x.split("=", 1) for x in a_.split(" ")[1:] if "=" in x), dict(x.split("=", 1) for x in b_.split(" ")[1:] if "=" in x)
            field = next((f for f in ("cv", "bias", "reg", "named", "act", "traj", "restart") if fa.get(f) != fb.get(f)), "verdict")
            if a_.startswith("reject ") and b_.startswith("reject ") and field in ("reg", "named", "act", "cv", "bias"):
                # a concrete rejected configuration after which the module state is not what "no residue" predicts
                run.violation("rollback:residue:module-state:%s" % field, "after rejected configuration %d of the session (%s) the module-level state is [%s], "
                              "expected [%s]" % (kx, shape, a_, b_), {"kind": "scenario", "scenario": sc, "model_case": MS.model_line(c)})
            else:
                run.mismatch("rollback:residue:module-state:%s" % field, "%s [configuration %d of %s]" % (MS.model_line(c), kx, shape), a_, b_)
            continue
        if (k, "f") in r6 and r6[(k, "f")]["cls"] == "ok":
            ts, tf = MS.final_tail(rr["out"]), MS.final_tail(r6[(k, "f")]["out"])
            def traj(d):
                try:
                    # the column labels (comment lines) are written again after any change of the object lists, also a rolled-back one
                    return [l for l in open(os.path.join(W, d, str(k), "out.colvars.traj")).read().split("\n") if not l.startswith("#")]
                except OSError:
                    return ["<no trajectory file>"]
            if ts == tf:
                ts, tf = traj("m6s"), traj("m6f")
            if ts != tf:
                kx = next((i for i, (a_, b_) in enumerate(zip(ts, tf)) if a_ != b_), min(len(ts), len(tf)))
                run.violation("rollback:residue:behaviour", "the model says that the rejected configurations of this session (%s) left nothing behind, but the session does not "
                              "behave like the same session without them: %s instead of %s" % (shape, ts[kx] if kx < len(ts) else "<missing>", tf[kx] if kx < len(tf) else "<missing>"),
                              {"kind": "scenario", "scenario": sc, "session_without_rejected": MS.scenario(kept6[k])})
            run.count(("session6", "compared-with-session-without-rejected"), True)
    run.sample({"session6_case": MS.model_line(sess6[0]), "model": m6[0] if m6 else None})

    # ------------------------------------------------------------------ 3b. structural cases of the property text
    jobs = []
    for k, (label, conf, expect) in enumerate(T.STRUCTURAL):
        late = 2 if k % 3 == 2 else 0
        sc = T.scenario(conf, 3, nsteps=5, late=late)
        for var in variants:
            if var == "asan" and quick and not label.startswith("group:") and k % 4 != run.seed % 4:
                continue          # (the atom-group cases always run under the sanitizers: their failures are out-of-bounds reads)
            jobs.append(((k, var), plain if var == "plain" else asan, sc, os.path.join(W, "x", var, str(k)), var, 20 if var == "plain" else 60))
    sres = L.run_many(jobs)
    for (k, var), rr in sorted(sres.items()):
        label, conf, expect = T.STRUCTURAL[k]
        sc = [j for j in jobs if j[0] == (k, var)][0][2]
        lc = last_config(rr)
        impl = rr["cls"] if rr["cls"] != "ok" else ("accept" if lc and lc[0] == "ok" else "reject")
        run.count(("structural", label, var), impl != "accept")
        run.dist("structural:%s" % (impl if impl in ("accept", "reject") else "died"))
        if rr.get("skipped"):
            continue
        if rr["cls"] != "ok":
            report_death("structural", label.split(":")[0], label, var, rr, sc, vclass=label.split(":", 1)[1])
            continue
        if impl == "reject":
            check_survivors("structural", label, "-", var, rr, sc)
        if expect is not None and impl != expect:
            run.mismatch("structural:" + label, conf, impl, expect)
    run.sample({"structural_case": T.STRUCTURAL[0][0], "impl": sres[(0, "plain")]["cls"]})

    # ------------------------------------------------------------------ 3c. two walkers: the second one adds no hills
    wd = os.path.join(W, "walkers")
    os.makedirs(wd, exist_ok=True)
    def walker(rid, nh):
        conf = T.cv("x", 1, T.GRIDCV) + ("metadynamics {\n  name m\n  colvars x\n  hillWeight 0.1\n  hillWidth 2\n  newHillFrequency %s\n"
                                         "  multipleReplicas on\n  replicaID %s\n  replicasRegistry %s/reg.txt\n  replicaUpdateFrequency 2\n}\n" % (nh, rid, wd))
        sc = T.scenario(conf, 3, nsteps=6, base=False).replace("prefix out\n", "prefix\n")
        i = sc.index("objs\n") + 5
        return sc[:i] + "outprefix out_%s\n" % rid + sc[i:]
    ra = L.run_scenario(plain, walker("a", "2"), wd, "plain", 30)
    rb = L.run_scenario(plain, walker("b", "0"), wd, "plain", 30)
    mlw = "meta rof=3 newhill=0 replicas=on upfreq=2"
    rc, mw, _e = V.run_lines(model, [mlw])
    run.count(("walkers", "newHillFrequency-0"), True)
    run.dist("walkers:%s" % rb["cls"])
    if ra["cls"] != "ok":
        report_death("meta", "replicas", "2", "plain", ra, walker("a", "2"), vclass="first-walker")
    if rb["cls"] != "ok":
        report_death("meta", "replicas-newHillFrequency", "0", "plain", rb, walker("b", "0"), " (a second walker next to walker a; model: %s)" % (mw[0] if mw else "?"))
        run.mismatch("table:meta.replicas", "walker b with newHillFrequency 0 next to walker a", rb["cls"], mw[0] if mw else "?")
    elif mw and not mw[0].startswith("accept initsafe=1 stepsafe=1"):
        run.mismatch("table:meta.replicas", mlw, "accept", mw[0])

    # ------------------------------------------------------------------ 3c'. vector-valued keywords (tie of vector_keyword)
    vjobs, vlines, vcases = [], [], []
    for label, tmpl, presized, elem in T.VECTORS + T.VECTORS3:
        nvar = 3 if label.endswith("/3") else 2
        for v in (T.VECTOR3_VALUES if nvar == 3 else T.VECTOR_VALUES + (["-1 1", "1 -1"] if elem in ("nonneg", "pos") or label.startswith("harmonic") else [])):
            if label.startswith("histgrid") and ("1e300" in v or "1e-300" in v):
                continue          # extreme widths change the SIZE of the grid (grid_init covers that), not the list check
            k = len(vcases)
            vcases.append((label, v))
            vlines.append("vector n=%d presized=%s elem=%s toks=%s" % (nvar, "on" if presized else "off", elem, ",".join(v.split())))
            sc = T.scenario(tmpl.replace("{V}", v), 3, nsteps=4)
            for var in variants:
                if var == "asan" and quick and k % 4 != run.seed % 4:
                    continue
                vjobs.append(((k, var), plain if var == "plain" else asan, sc, os.path.join(W, "v", var, str(k)), var, 20 if var == "plain" else 60))
    rc, vout, verr = V.run_lines(model, vlines)
    vres = L.run_many(vjobs)
    for (k, var), rr in sorted(vres.items()):
        label, v = vcases[k]
        mo = vout[k] if k < len(vout) else "<none>"
        sc = [j for j in vjobs if j[0] == (k, var)][0][2]
        lc = last_config(rr)
        impl = rr["cls"] if rr["cls"] != "ok" else ("accept" if lc and lc[0] == "ok" else "reject")
        run.count(("vector", label, v, var), impl != "accept")
        run.dist("vector:%s" % (impl if impl in ("accept", "reject") else "died"))
        if rr.get("skipped"):
            continue
        if rr["cls"] != "ok":
            report_death("vector", label, v or "empty", var, rr, sc, vclass="list:" + ("-".join(value_class(t) for t in v.split()) or "empty"))
            continue
        if impl == "reject":
            check_survivors("vector", label, v, var, rr, sc)
        check_finite("vector", label, v, var, rr, sc, [value_class(t) for t in v.split()])
        if impl != mo.split()[0]:
            run.mismatch("vector:" + label, "%s = %s (%s)" % (label, v, var), impl, mo)
    run.sample({"vector_case": "%s = %s" % vcases[1], "model": vout[1] if len(vout) > 1 else None})

    # ------------------------------------------------------------------ 3e. absolute step numbers beyond int / double precision
    # Valid configurations whose schedules use frequencies that are not powers of two (3, 5, 6, 7, 12), started at absolute
    # step S in {2^31-2, 2^32-3, 2^53-2, 2^62-5} (the run crosses the boundary).  Oracles: no death, no error; and every
    # value reported (variables, energies, biases, atom forces) equals the run started at S mod 420 + 420, which has the
    # same residues modulo every frequency: a step number truncated to int (or rounded to double) shifts a schedule.
    big_confs = T.BIGSTEP
    big_S = [2**31 - 2, 2**32 - 3, 2**53 - 2, 2**62 - 5]
    bjobs = []
    for k, (label, conf) in enumerate(big_confs):
        for si, S_ in enumerate(big_S):
            if quick and (k + si + run.seed) % 2:
                continue
            for tag, st in (("big", S_), ("small", S_ % 420 + 420)):
                sc = T.scenario(conf, 3, nsteps=8).replace("\nstep\n", "\nsetstep %d\nstep\n" % st, 1)
                bjobs.append(((k, si, tag), plain, sc, os.path.join(W, "bs", "%d-%d-%s" % (k, si, tag)), "plain", 30))
    bres = L.run_many(bjobs)
    def strip_steps(out):
        return [l for l in out.split("\n") if l.split(" ")[0] in ("ENERGY", "CV", "BIAS", "ATOMF", "CONFIG")] + \
               [re.sub(r"^STEP \d+", "STEP", l) for l in out.split("\n") if l.startswith("STEP ")]
    for (k, si, tag), rr in sorted(bres.items()):
        if tag != "big":
            continue
        label = big_confs[k][0]
        sc = [j for j in bjobs if j[0] == (k, si, tag)][0][2]
        run.count(("bigstep", label, si), True)
        run.dist("bigstep:%s" % label)
        if rr["cls"] != "ok":
            report_death("bigstep", label, str(big_S[si]), "plain", rr, sc, vclass="step-2^%d" % (31, 32, 53, 62)[si])
            continue
        if re.findall(r"^CONFIG err=(\S+)", rr["out"], re.M)[-1:] != ["ok"] or re.search(r"^STEP \d+ err=(?!ok)", rr["out"], re.M):
            run.violation("bigstep:error:%s" % label, "valid configuration (%s) started at absolute step %d is rejected or reports an error at a step" % (label, big_S[si]),
                          {"kind": "scenario", "scenario": sc})
            continue
        rs = bres.get((k, si, "small"))
        if rs and rs["cls"] == "ok":
            a_, b_ = strip_steps(rr["out"]), strip_steps(rs["out"])
            if a_ != b_:
                kx = next((i for i, (x_, y_) in enumerate(zip(a_, b_)) if x_ != y_), min(len(a_), len(b_)))
                run.violation("bigstep:schedule:%s" % label, "configuration %s started at absolute step %d does not behave like the same run started at step %d "
                              "(same residues modulo 3, 5, 6, 7, 12): %s instead of %s" % (label, big_S[si], big_S[si] % 420 + 420,
                                                                                          a_[kx] if kx < len(a_) else "<missing>", b_[kx] if kx < len(b_) else "<missing>"),
                              {"kind": "scenario", "scenario": sc})

    # ------------------------------------------------------------------ 3d. run-time paths: script commands after two steps
    rt_conf = (T.cv("x", 1, T.GRIDCV) + "harmonic {\n  name r\n  colvars x\n  centers 1.0\n  forceConstant 2.0\n}\n"
               "histogram {\n  name h\n  colvars x\n  outputFreq 2\n}\n")
    rt_lines = T.scenario(rt_conf, 3, nsteps=6).split("\n")

    def rt_scenario(cmd):
        out, n = [], 0
        for l in rt_lines:
            out.append(l)
            if l == "step":
                n += 1
                if n == 2 and cmd:
                    out.append(cmd)
        return "\n".join(out) + "\n"
    rt_values = values + ["-2147483648", "2147483648", "1e-300", "abc"]
    rt_cmds = []
    for kw in ("componentExp", "componentCoeff", "period", "wrapAround"):
        for v in rt_values:
            rt_cmds.append(("modifycvcs." + kw, v, 'scriptv cv|colvar|x|modifycvcs|"%s %s"' % (kw, v)))
    for v in ('"name zz0"', '"name x2"', '"componentExp 2" "componentExp 3"', '"abc', '', '""', 'componentExp 2'):
        rt_cmds.append(("modifycvcs.list", v, "scriptv cv|colvar|x|modifycvcs|" + v))
    for v in ("1", "0", "1 1", "2", "-1", "nan", ""):
        rt_cmds.append(("cvcflags", v, "scriptv cv|colvar|x|cvcflags|" + v))
    for v in rt_values + ["(1,2,3)"]:
        rt_cmds.append(("addforce", v, "scriptv cv|colvar|x|addforce|" + v))
        rt_cmds.append(("cv.frame", v, "scriptv cv|frame|" + v))
        rt_cmds.append(("cv.timestep", v, "scriptv cv|timestep|" + v))
        rt_cmds.append(("cv.targettemperature", v, "scriptv cv|targettemperature|" + v))
        rt_cmds.append(("cv.addenergy", v, "scriptv cv|addenergy|" + v))
    for obj, name in (("colvar", "x"), ("bias", "r"), ("bias", "h")):
        for feat in ("awake", "active", "nosuch", "step_zero_data", "output_value", "apply_force", "total_force"):
            for v in ("0", "1", "2", "-1", "nan"):
                rt_cmds.append(("%s.set.%s" % (obj, feat), v, "scriptv cv|%s|%s|set|%s|%s" % (obj, name, feat, v)))
    if quick:
        r.shuffle(rt_cmds)
        keep = [c for c in rt_cmds if c[0].startswith("modifycvcs.componentExp")] + rt_cmds[:70]
        rt_cmds = list(dict.fromkeys(keep))
    rt_ref = L.run_scenario(plain, rt_scenario(None), os.path.join(W, "rt", "ref"), "plain", 40)
    rt_ref_x = [l for l in rt_ref["out"].split("\n") if l.startswith("CV x ")]
    jobs = []
    for k, (label, v, cmd) in enumerate(rt_cmds):
        for var in variants:
            if var == "asan" and quick and k % 3 != run.seed % 3 and not label.startswith("modifycvcs.componentExp"):
                continue
            jobs.append(((k, var), plain if var == "plain" else asan, rt_scenario(cmd), os.path.join(W, "rt", var, str(k)), var, 20 if var == "plain" else 60))
    rres = L.run_many(jobs)
    for (k, var), rr in sorted(rres.items()):
        label, v, cmd = rt_cmds[k]
        sres_ = re.findall(r"SCRIPT err=(\w+)", rr["out"])
        outcome = rr["cls"] if rr["cls"] != "ok" else ("script-" + (sres_[0] if sres_ else "none"))
        run.count(("runtime", label, value_class(v) if v else "empty", var), outcome != "script-ok")
        run.dist("runtime:" + (outcome if outcome.startswith("script-") else "died"))
        if rr.get("skipped"):
            continue
        if rr["cls"] != "ok":
            report_death("runtime", label, v or "empty", var, rr, rt_scenario(cmd))
            continue
        tr = base_trace(rr["out"])
        if var == "plain" and tr != ref_trace[:len(tr)]:
            run.violation("rollback:behaviour:runtime." + label, "after the script command `%s` the objects it does not name differ from a run without it" % cmd,
                          {"kind": "scenario", "variant": var, "scenario": rt_scenario(cmd)})
        if var == "plain" and label.startswith("modifycvcs") and sres_ and sres_[0] == "error":
            xs = [l for l in rr["out"].split("\n") if l.startswith("CV x ")]
            if xs != rt_ref_x:
                kx = next((i for i, (a_, b_) in enumerate(zip(xs, rt_ref_x)) if a_ != b_), 0)
                run.violation("rollback:behaviour:runtime." + label,
                              "the script command `%s` returned an error but variable x changed: %s instead of %s" % (
                                  cmd, xs[kx] if kx < len(xs) else "?", rt_ref_x[kx] if kx < len(rt_ref_x) else "?"),
                              {"kind": "scenario", "variant": var, "scenario": rt_scenario(cmd)})
    if rt_cmds:
        run.sample({"runtime_case": rt_cmds[0][2], "outcome": rres[(0, "plain")]["cls"]})

    # ------------------------------------------------------------------ 4. search: harvested keywords
    budget = 35 if quick else 600
    search(run, r, plain, asan if not quick else None, W, quick, report_death, check_survivors_search=None,
           deadline=t_start + (70 if quick else 780), check_finite=check_finite)
    run.notes.append("deaths in the table sweep: %d" % n_dead)


# ------------------------------------------------------------------------------------------------
# generators
# ------------------------------------------------------------------------------------------------

def gen_grid_cases(r, n):
    """dims = list of (lower, upper, width) texts for a histogram with a custom grid on 1-4 exact variables"""
    fixed = [
        ("small-2d", [("0", "4", "0.5"), ("-1", "1", "0.25")], False),
        ("zero-width", [("0", "4", "0")], False),
        ("negative-width", [("0", "4", "-0.5")], False),
        ("reversed", [("4", "0", "0.5")], False),
        ("zero-bins", [("2", "2", "0.5")], False),
        ("2^31-bins", [("0", "2147483648", "1")], False),
        ("2^31-1-bins", [("0", "2147483647", "1")], False),
        ("1e9-bins", [("0", "1000000000", "1")], False),
        ("2^32-bins", [("0", "4294967296", "1")], False),
        ("huge", [("0", "1e300", "1")], False),
        ("tiny-width", [("0", "4", "1e-300")], False),
        ("65536^2", [("0", "65536", "1"), ("0", "65536", "1")], False),
        ("65536^3", [("0", "65536", "1")] * 3, False),
        ("65536^4-wraps-to-0", [("0", "65536", "1")] * 4, False),
        ("46341^2-just-above-int", [("0", "46341", "1"), ("0", "46341", "1")], False),
        ("1024^2", [("0", "1024", "1"), ("0", "1024", "1")], False),
        # the same shapes at other scales of the data, and upper boundaries a fraction of a bin beyond the last full one
        ("scale-1e-8", [("0", "4e-8", "5e-9")], False),
        ("scale-1e8", [("0", "4e8", "5e7")], False),
        ("scale-1e-8-offset", [("-1e-8", "1e-8", "25e-10")], False),
        ("scale-mixed-2d", [("0", "4e8", "1e8"), ("0", "3e-8", "1e-8")], False),
        ("scale-1e-8-width-1", [("0", "4e-8", "1")], False),
        ("scale-1e8-width-1e-8", [("0", "1e8", "1e-8")], False),
        ("upper-0.4-bin-beyond", [("0", "4.2", "0.5")], False),
        ("upper-0.6-bin-beyond", [("0", "4.3", "0.5")], False),
        ("upper-0.6-bin-beyond-far", [("0", "400.3", "0.5")], False),
        ("upper-0.4-bin-short", [("0", "3.8", "0.5")], False),
    ]
    out = [{"label": l, "dims": d, "ambiguous": a} for l, d, a in fixed]
    sizes = [1, 2, 3, 16, 1000, 65536, 46341, 2147483647, 2147483648, 4294967296]
    for k in range(n):
        nd = r.randint(1, 4)
        dims = []
        prod = 1
        for _ in range(nd):
            s = r.choice(sizes if r.random() < 0.5 else [1, 2, 3, 16, 1000])
            w = r.choice(["1", "0.5", "2", "0.25"])
            lo = r.choice(["0", "-8", "3"])
            up = str(int(lo) + int(s * float(w))) if float(w) >= 1 or (s * float(w)).is_integer() else str(int(lo) + s)
            if r.random() < 0.08:
                w = r.choice(["0", "-1", "1e-300"])
            dims.append((lo, up, w))
            try:
                nb = int((float(up) - float(lo)) / float(w) + 0.5) if float(w) != 0 else -1
            except (OverflowError, ValueError):
                nb = -1
            prod = prod * nb if nb > 0 and prod > 0 else -1
        amb = prod > 0 and (HOST_BYTES // 64) <= prod * 8 <= HOST_BYTES * 8 and prod <= 2147483647
        out.append({"label": "random-%dd" % nd, "dims": dims, "ambiguous": amb})
    return out


BIAS_ORDER = ["abf", "harmonic", "histogram", "metadynamics"]


def gen_rollback_case(r, k):
    ncv = r.randint(0, 3)
    cvs, conf = [], ""
    names = []
    failing = []
    for i in range(ncv):
        nm = "v%d" % i if r.random() > 0.12 or not names else r.choice(names + ["zz0"])
        fail = r.random() < 0.3
        dup = nm in names or nm == "zz0"
        extra = T.GRIDCV
        if fail:
            extra = r.choice(["  width -1\n", "  width 0.5\n  lowerBoundary 4\n  upperBoundary 0\n", "  timeStepFactor -3\n" + T.GRIDCV,
                              "  runAve on\n  runAveStride 0\n" + T.GRIDCV, "  outputValue maybe\n" + T.GRIDCV])
        conf += T.cv(nm, 1 + i % 3, extra, "    oneSiteTotalForce on\n")
        cvs.append("%s:%d" % (nm, 1 if fail else 0))
        if fail or dup:
            if not dup:
                failing.append(nm)
        names.append(nm)
    # biases refer to the base variable zz0 only (a variable of this configuration may have been rejected)
    by_type = {}
    nb = r.randint(0, 4)
    for j in range(nb):
        t = r.choice(BIAS_ORDER)
        fail = r.random() < 0.3
        by_type.setdefault(t, []).append(("b%d" % j, fail))
    bias_txt = ""
    blist = []
    for t in BIAS_ORDER:            # order in the text does not matter: parse_biases goes type by type
        pass
    items = [(t, n, f) for t in by_type for (n, f) in by_type[t]]
    r.shuffle(items)
    for t, n, f in items:
        bad = "  timeStepFactor 0\n" if f else ""
        if f and r.random() < 0.5:
            bad = "  outputFreq nan\n"
        if t == "abf":
            bias_txt += "abf {\n  name %s\n  colvars g0\n  fullSamples 2\n%s}\n" % (n, bad)
        elif t == "harmonic":
            bias_txt += "harmonic {\n  name %s\n  colvars zz0\n  centers 1.0\n  forceConstant 0.0\n%s}\n" % (n, bad)
        elif t == "histogram":
            bias_txt += "histogram {\n  name %s\n  colvars g0\n%s}\n" % (n, bad)
        else:
            bias_txt += "metadynamics {\n  name %s\n  colvars g0\n  hillWeight 0.01\n  hillWidth 2\n  newHillFrequency 2\n%s}\n" % (n, bad)
        if f:
            failing.append(n)
    groups = []
    for t in BIAS_ORDER:
        if t in by_type:
            # order within a type = order of appearance in the text
            order = [(tt, n, f) for (tt, n, f) in items if tt == t]
            groups.append(",".join("%s:%s:%d" % (t, n, 1 if f else 0) for (_, n, f) in order))
    model = "rollback have_cv=zz0,g0 have_bias=hh0:harmonic cvs=%s biases=%s" % (",".join(cvs) or "-", ";".join(groups) or "-")
    # NOTE harmonic with forceConstant 0 / hills of weight 0 -> the new biases do not change the forces on zz0 ... they
    # are on other variables anyway (g0 is a second base variable on atom 3)
    late = 2 if k % 2 else 0          # every other case supplies the configuration at run time, after two steps
    sc = T.scenario(conf + bias_txt, 3, nsteps=4, base2=True, late=late)
    nfail = sum(1 for c in cvs if c.endswith(":1")) + sum(1 for (_, _, f) in items if f)
    return {"model": model, "scenario": sc, "nfail": nfail, "shape": "%dcv-%db-%df%s" % (ncv, nb, nfail, "-late" if late else ""), "failing_names": failing}


def gen_session(r, k):
    """base objects; a configuration with legacy wall keywords that is rejected (or accepted); optionally `cv reset`;
    then a valid configuration.  Returns the scenario, the model line, and (when the first object of the rejected
    configuration is the rejected one) the scenario of a fresh session that never saw it."""
    kind = ["walls-wrong-order", "walls-then-bad-extended", "walls-then-bad-colvar", "walls-then-bad-bias", "walls-accepted",
            "walls-only-lower-then-bad-colvar"][k % 6]
    reset = (k // 6) % 3 == 2
    walls = "  lowerWall 1.0\n  lowerWallConstant 10.0\n  upperWall 3.0\n  upperWallConstant 10.0\n"
    if kind == "walls-wrong-order":
        walls = "  lowerWall 3.0\n  lowerWallConstant 10.0\n  upperWall 1.0\n  upperWallConstant 10.0\n"
    if kind == "walls-only-lower-then-bad-colvar":
        walls = "  lowerWall 1.0\n  lowerWallConstant 10.0\n"
    d = T.cv("d", 1, walls + ("  extendedLagrangian on\n  extendedFluctuation -1.0\n" if kind == "walls-then-bad-extended" else ""))
    first_rejected = kind in ("walls-wrong-order", "walls-then-bad-extended")
    conf1, m1 = d, "d:%d:1" % (1 if first_rejected else 0)
    if kind in ("walls-then-bad-colvar", "walls-only-lower-then-bad-colvar"):
        conf1 += T.cv("bad", 2, "  width -1\n")
        m1 += ",bad:1:0"
    mb1 = "-"
    if kind == "walls-then-bad-bias":
        conf1 += "harmonic {\n  name hb\n  colvars d\n  centers 1.0\n  forceConstant 1.0\n  timeStepFactor 0\n}\n"
        mb1 = "harmonic:hb:1"
    # the valid configuration: the same variable name without walls when d was rejected, another variable otherwise
    vname = "d" if first_rejected else "e"
    conf2 = T.cv(vname, 1) + "harmonic {\n  name hv\n  colvars %s\n  centers 2.0\n  forceConstant 1.0\n}\n" % vname
    m2 = "%s:0:0/harmonic:hv:0" % vname
    def scen(with_first, do_reset):
        S = ["natoms 4", "prefix out", "restartfreq 3", "temperature 300", "new"]
        for a in range(4):
            S.append("pos %d %g %g %g" % (a + 1, 0.25 * a, 0.5 * a, T.ZS[0][a]))
        S += ["config EOF", T.BASE + "EOF", "objs"]
        if with_first:
            S += ["config EOF", conf1.rstrip("\n"), "EOF", "objs"]
        if do_reset:
            S += ["script cv reset"]
        S += ["config EOF", conf2.rstrip("\n"), "EOF", "objs"]
        for kk in range(4):
            for a in range(4):
                S.append("pos %d %g %g %g" % (a + 1, 0.25 * a, 0.5 * a, T.ZS[kk][a]))
            S.append("step")
        S += ["save text s.state", "postrun", "objs"]
        return "\n".join(S) + "\n"
    model = "session have_cv=zz0 have_bias=hh0:harmonic cfgs=%s/%s|%s%s" % (m1, mb1, "RESET|" if reset else "", m2)
    return {"scenario": scen(True, reset), "fresh": scen(False, reset) if first_rejected else None, "model": model,
            "shape": kind + (":reset" if reset else ""), "last_names": {vname, "hv"}}


# ------------------------------------------------------------------------------------------------
# search over harvested keywords
# ------------------------------------------------------------------------------------------------

_harvest_cache = {}
_nonfinite_base = set()


def harvested(plain, W):
    """[(config name, text, root, [(path, keyword, is_default)])] for every configuration that parses"""
    if "h" in _harvest_cache:
        return _harvest_cache["h"]
    out = []
    cfgs = sorted(glob.glob(os.path.join(L.INPUTS, "*", "test.in")))
    jobs = []
    for c in cfgs:
        name = os.path.basename(os.path.dirname(c))
        d = os.path.join(W, "h", name)
        prep_inputs(d)
        jobs.append((name, plain, big_scenario(open(c).read(), "log.txt", 5), d, "plain", 60))
    res = L.run_many(jobs)
    for c in cfgs:
        name = os.path.basename(os.path.dirname(c))
        rr = res[name]
        lc = last_config(rr)
        if rr["cls"] != "ok" or not lc or lc[0] != "ok":
            continue
        text = open(c).read()
        try:
            log = open(os.path.join(W, "h", name, "log.txt")).read().split("Reading new configuration")[-1]
        except OSError:
            continue
        if re.search(r"^(ENERGY|BIAS \S+|CV \S+) -?(nan|inf)", rr["out"], re.M):
            _nonfinite_base.add(name)      # already non-finite as it stands (in this engine set-up): not a consequence of the value under test
        out.append((name, text, L.harvest(log)))
    _harvest_cache["h"] = out
    return out


def prep_inputs(d):
    os.makedirs(d, exist_ok=True)
    for f in os.listdir(L.INPUTS):
        p = os.path.join(L.INPUTS, f)
        if os.path.isfile(p) and not os.path.exists(os.path.join(d, f)):
            os.symlink(p, os.path.join(d, f))


def big_scenario(conf, log=None, nsteps=5):
    S = ["natoms 104", "prefix out", "restartfreq 4", "temperature 300", "new"]
    if log:
        S.append("log " + log)
    S += ["frame trajectory.xyz 0", "config EOF", T.BASE104 + "EOF", "objs", "config EOF", conf.rstrip("\n"), "EOF", "objs"]
    for k in range(nsteps):
        S += ["frame trajectory.xyz %d" % (k % 5), "step"]
    S += ["save text out.state", "postrun", "objs"]
    return "\n".join(S) + "\n"


def search(run, r, plain, asan, W, quick, report_death, check_survivors_search, deadline, check_finite=lambda *a: None):
    hv = harvested(plain, W)
    run.dist("search:configurations-harvested", len(hv))
    universe = []
    for name, text, kws in hv:
        for path, kw, isdef in kws:
            universe.append((name, path, kw))
    run.dist("search:keyword-sites", len(universe))
    if not universe:
        run.notes.append("no configuration under tests/input_files could be harvested")
        return
    # reference trace of the base objects for the big scenario
    d = os.path.join(W, "s", "ref")
    prep_inputs(d)
    ref = L.run_scenario(plain, big_scenario("", None, 5).replace("config EOF\n\nEOF\nobjs\n", ""), d, "plain", 60)
    ref_trace = [l for l in ref["out"].split("\n") if l.startswith("CV zz0 ") or l.startswith("BIAS hh0 ")]
    texts = dict((n, t) for n, t, _ in hv)
    n = 90 if quick else 6000
    values = L.BOUNDARY_VALUES + L.EXTRA_VALUES
    jobs = []
    meta = {}
    # distinct (block labels, keyword) first, in random order, so that a quick run spreads over object types
    seen = set()
    order = list(universe)
    r.shuffle(order)
    picked = []
    for u in order:
        sig = (tuple(l for l, _ in u[1]), u[2].lower())
        if sig in seen and len(picked) < n and not quick:
            continue
        seen.add(sig)
        picked.append(u)
        if len(picked) >= n:
            break
    for k, (name, path, kw) in enumerate(picked):
        root = L.parse_config(texts[name])
        blk = L.resolve(root, path)
        v = r.choice(values)
        txt = L.mutate(root, blk, kw, v, first_only=(r.random() < 0.2))
        label = (path[-1][0] if path else "module")
        # signature label: the kind of object, not the particular component type or group key
        if label.startswith("cvc:"):
            label = "cvc"
        elif label.startswith("group:"):
            label = "group"
        if r.random() < 0.25:
            # a random pair: a second invalid value somewhere else in the same configuration
            name2, path2, kw2 = r.choice([u for u in universe if u[0] == name])
            root2 = L.parse_config(txt)
            try:
                txt = L.mutate(root2, L.resolve(root2, path2), kw2, r.choice(values))
            except Exception:
                pass
        d = os.path.join(W, "s", "c%d" % k)
        prep_inputs(d)
        sc = big_scenario(txt, None, 5)
        variant = "plain"
        exe = plain
        if asan and k % 3 == 0:
            variant, exe = "asan", asan
        jobs.append((k, exe, sc, d, variant, 12 if variant == "plain" else 60))
        meta[k] = (label, kw, v, variant, sc, name)
    # run in slices so that the deadline is respected
    done = 0
    for i in range(0, len(jobs), 40):
        if time.time() > deadline:
            run.notes.append("search stopped at the time budget after %d of %d cases" % (done, len(jobs)))
            break
        res = L.run_many(jobs[i:i + 40])
        done += len(res)
        for k, rr in res.items():
            label, kw, v, variant, sc, name = meta[k]
            if rr.get("skipped"):
                run.dist("search:inconclusive(harness limit)")
                continue
            lc = last_config(rr)
            impl = rr["cls"] if rr["cls"] != "ok" else ("accept" if lc and lc[0] == "ok" else "reject")
            run.count(("search", label, kw.lower(), value_class(v), variant), impl != "accept")
            run.dist("search:%s" % (impl if impl in ("accept", "reject") else "died"))
            if rr["cls"] != "ok":
                report_death(label, kw, v, variant, rr, sc, " (configuration %s)" % name)
                continue
            if name not in _nonfinite_base:
                check_finite(label, kw.lower(), v, variant, rr, sc, [value_class(t) for t in v.split()] if v.strip() else [])
            if impl == "reject" and variant == "plain":
                ol = objs_lines(rr["out"])
                if len(ol) >= 2 and not (ol[1][0].startswith(ol[0][0]) and ol[1][1].startswith(ol[0][1])):
                    run.violation("rollback:lists:%s.%s" % (label, kw), "after the rejected configuration %s (%s = %s) the object lists are %s, before %s" % (
                        name, kw, v, ol[1], ol[0]), {"kind": "scenario", "scenario": sc})
                tr = [l for l in rr["out"].split("\n") if l.startswith("CV zz0 ") or l.startswith("BIAS hh0 ")]
                if tr != ref_trace:
                    run.violation("rollback:behaviour:%s.%s" % (label, kw),
                                  "after the rejected configuration %s (%s = %s) the base objects differ from a run that never saw it" % (name, kw, v),
                                  {"kind": "scenario", "scenario": sc})
    if jobs:
        run.sample({"search_case": "%s %s=%s (%s)" % (meta[0][0], meta[0][1], meta[0][2], meta[0][5])})


def replay(path):
    j = json.load(open(path))
    rp = j.get("replay", {})
    print(json.dumps({k: v for k, v in j.items() if k != "replay"}, indent=1))
    if rp.get("kind") == "scenario":
        variant = rp.get("variant", "plain")
        exe = V.build_prog("c10sim", ["props/C10/unit.cpp"], variant)
        d = os.path.join(V.BUILD, "scratch", "C10-replay")
        prep_inputs(d)
        rr = L.run_scenario(exe, rp["scenario"], d, variant, 150)
        print("implementation (%s build): %s %s" % (variant, rr["cls"], rr["detail"]))
        print(rr["out"][-1500:])
    return 0
