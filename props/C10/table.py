# The guard table of C10 on the python side: for every entry of coq/C10/GuardModel.v's table a base
# configuration (valid), the block and keyword to substitute, and the engine settings of the run.
# The ids are the ones the extracted model understands (props/C10/driver.ml).

def cv(name, atom, extra="", cvc_extra=""):
    return ("colvar {\n  name %s\n%s  distanceZ {\n    main { atomNumbers %d }\n    ref { dummyAtom (0,0,0) }\n"
            "    axis (0,0,1)\n%s  }\n}\n" % (name, extra, atom, cvc_extra))

GRIDCV = "  width 0.5\n  lowerBoundary 0\n  upperBoundary 4\n"

META = cv("x", 1, GRIDCV) + "metadynamics {\n  name m\n  colvars x\n  hillWeight 0.1\n  hillWidth 2\n  newHillFrequency 2\n}\n"
METANG = cv("x", 1, GRIDCV) + "metadynamics {\n  name m\n  colvars x\n  hillWeight 0.1\n  hillWidth 2\n  newHillFrequency 2\n  useGrids off\n}\n"
ABF = cv("x", 1, GRIDCV, "    oneSiteTotalForce on\n") + "abf {\n  name a\n  colvars x\n  fullSamples 2\n  outputFreq 2\n}\n"
HIST = cv("x", 1, GRIDCV) + "histogram {\n  name h\n  colvars x\n  outputFreq 2\n}\n"
HISTG = cv("x", 1, GRIDCV) + ("histogram {\n  name h\n  colvars x\n  outputFreq 2\n  histogramGrid {\n    width 0.5\n"
                              "    lowerBoundary 0\n    upperBoundary 4\n  }\n}\n")
HISTG3 = (cv("x", 1, GRIDCV) + cv("y", 2, GRIDCV) + cv("z", 3, GRIDCV) +
          "histogram {\n  name h\n  colvars x y z\n  outputFreq 2\n  histogramGrid {\n    width 0.5 0.5 0.5\n"
          "    lowerBoundary 0 0 0\n    upperBoundary 4 4 4\n  }\n}\n")
HARM = cv("x", 1) + "harmonic {\n  name r\n  colvars x\n  centers 1.0\n  forceConstant 2.0\n}\n"
HARMMOV = cv("x", 1) + ("harmonic {\n  name r\n  colvars x\n  centers 1.0\n  forceConstant 2.0\n  targetCenters 3.0\n"
                        "  targetNumSteps 4\n}\n")
HARMSTG = cv("x", 1) + ("harmonic {\n  name r\n  colvars x\n  centers 1.0\n  forceConstant 2.0\n  targetForceConstant 4.0\n"
                        "  targetNumSteps 2\n  targetNumStages 2\n  targetEquilSteps 1\n}\n")
HRES = ("colvar {\n  name d\n  distancePairs {\n    group1 { atomNumbers 1 2 }\n    group2 { atomNumbers 3 4 }\n  }\n}\n"
        "histogramRestraint {\n  name hr\n  colvars d\n  lowerBoundary 0.0\n  upperBoundary 8.0\n  width 1.0\n"
        "  refHistogram 0.125 0.125 0.125 0.125 0.125 0.125 0.125 0.125\n}\n")
# staged changes of a restraint: the companions that make targetNumSteps a modulus at the very next step
HARMSTGC = cv("x", 1) + ("harmonic {\n  name r\n  colvars x\n  centers 1.0\n  forceConstant 2.0\n  targetCenters 3.0\n"
                         "  targetNumSteps 2\n  targetNumStages 2\n}\n")
HARMSCHED = cv("x", 1) + ("harmonic {\n  name r\n  colvars x\n  centers 1.0\n  forceConstant 2.0\n  targetForceConstant 4.0\n"
                          "  targetNumSteps 2\n  lambdaSchedule 0.0 0.5 1.0\n}\n")
WALLSDEC = cv("x", 1) + ("harmonicWalls {\n  name r\n  colvars x\n  upperWalls 3.0\n  forceConstant 2.0\n  decoupling on\n"
                         "  targetNumSteps 2\n  targetNumStages 2\n}\n")
LINSTG = cv("x", 1) + ("linear {\n  name r\n  colvars x\n  centers 1.0\n  forceConstant 2.0\n  targetForceConstant 4.0\n"
                       "  targetNumSteps 2\n  targetNumStages 2\n}\n")
RUNAVE = cv("x", 1, "  runAve on\n  runAveLength 3\n  runAveStride 1\n")
CORR = cv("x", 1, "  corrFunc on\n  corrFuncType coordinate\n  corrFuncLength 2\n  corrFuncStride 1\n  corrFuncOffset 0\n")
CORR1 = CORR.replace("corrFuncOffset 0", "corrFuncOffset 1")
OPES = cv("x", 1, GRIDCV) + ("opes_metad {\n  name o\n  colvars x\n  newHillFrequency 2\n  barrier 10\n  gaussianSigma 0.5\n}\n")
OPESAD = cv("x", 1, GRIDCV) + ("opes_metad {\n  name o\n  colvars x\n  newHillFrequency 2\n  barrier 10\n  adaptiveSigma on\n"
                               "  adaptiveSigmaStride 4\n}\n")
OPESPMF = cv("x", 1, GRIDCV) + ("opes_metad {\n  name o\n  colvars x\n  newHillFrequency 2\n  barrier 10\n  gaussianSigma 0.5\n"
                                "  pmf on\n  pmfColvars x\n  pmfHistoryFrequency 2\n}\n")
SCRIPTED = ("colvar {\n  name s\n  scriptedFunction f\n  scriptedFunctionType vector\n  scriptedFunctionVectorSize 3\n"
            "  distanceZ {\n    main { atomNumbers 1 }\n    ref { dummyAtom (0,0,0) }\n    axis (0,0,1)\n  }\n}\n")
OPESREP = cv("x", 1, GRIDCV) + ("opes_metad {\n  name o\n  colvars x\n  newHillFrequency 2\n  barrier 10\n  gaussianSigma 0.5\n"
                                "  multipleReplicas on\n  replicaID a\n  neighborList on\n  sharedFreq 2\n}\n")
NNET = ("colvar {\n  name nn\n  neuralNetwork {\n    output_component 1\n    layer1_WeightsFile w.txt\n    layer1_BiasesFile b.txt\n"
        "    layer1_activation tanh\n    distanceZ {\n      main { atomNumbers 1 }\n      ref { dummyAtom (0,0,0) }\n      axis (0,0,1)\n    }\n  }\n}\n")
NNET_FILES = {"w.txt": "0.5\n0.25\n", "b.txt": "0.0\n0.1\n"}
CVTSF = cv("x", 1, "  timeStepFactor 2\n") + "harmonic {\n  name r\n  colvars x\n  centers 1.0\n  forceConstant 2.0\n  timeStepFactor 2\n}\n"
COORD = ("colvar {\n  name c\n  coordNum {\n    cutoff 4.0\n    tolerance 0.001\n    pairListFrequency 2\n"
         "    group1 { atomNumbers 1 2 }\n    group2 { atomNumbers 3 4 }\n  }\n}\n")
ABFH = cv("x", 1, GRIDCV, "    oneSiteTotalForce on\n") + "abf {\n  name a\n  colvars x\n  fullSamples 2\n  outputFreq 2\n  historyFreq 2\n}\n"

# id, base config, path of the block (keys, lower case), keyword, engine restart frequency
ENTRIES = [
    ("module.colvarsTrajFrequency", HARM, [], "colvarsTrajFrequency", 3),
    ("module.colvarsRestartFrequency", HARM, [], "colvarsRestartFrequency", 3),
    ("opes.colvarsRestartFrequency", OPES, [], "colvarsRestartFrequency", 3),
    ("colvar.timeStepFactor", CVTSF, ["colvar"], "timeStepFactor", 3),
    ("colvar.width", ABF, ["colvar"], "width", 3),
    ("colvar.lowerBoundary", ABF, ["colvar"], "lowerBoundary", 3),
    ("colvar.upperBoundary", ABF, ["colvar"], "upperBoundary", 3),
    ("colvar.runAveStride", RUNAVE, ["colvar"], "runAveStride", 3),
    ("colvar.runAveLength", RUNAVE, ["colvar"], "runAveLength", 3),
    ("colvar.corrFuncStride", CORR, ["colvar"], "corrFuncStride", 3),
    ("colvar.corrFuncLength", CORR, ["colvar"], "corrFuncLength", 3),
    ("colvar.corrFuncOffset", CORR, ["colvar"], "corrFuncOffset", 3),
    ("colvaroff1.corrFuncLength", CORR1, ["colvar"], "corrFuncLength", 3),
    ("colvarrof0.corrFuncStride", CORR, ["colvar"], "corrFuncStride", 0),
    ("coordnum.pairListFrequency", COORD, ["colvar", "coordnum"], "pairListFrequency", 3),
    ("bias.timeStepFactor", CVTSF, ["harmonic"], "timeStepFactor", 3),
    ("bias.outputFreq", HIST, ["histogram"], "outputFreq", 3),
    ("meta.newHillFrequency", META, ["metadynamics"], "newHillFrequency", 3),
    ("meta.gridsUpdateFrequency", META, ["metadynamics"], "gridsUpdateFrequency", 3),
    ("metanogrid.newHillFrequency", METANG, ["metadynamics"], "newHillFrequency", 3),
    ("abf.fullSamples", ABF, ["abf"], "fullSamples", 3),
    ("abf.minSamples", ABF, ["abf"], "minSamples", 3),
    ("abf.historyFreq", ABFH, ["abf"], "historyFreq", 3),
    ("abf.outputFreq", ABFH, ["abf"], "outputFreq", 3),
    ("harmonic.targetNumSteps", HARMMOV, ["harmonic"], "targetNumSteps", 3),
    ("harmonic.targetNumStages", HARMSTG, ["harmonic"], "targetNumStages", 3),
    ("harmonicstgk.targetNumSteps", HARMSTG, ["harmonic"], "targetNumSteps", 3),
    ("harmonicstgc.targetNumSteps", HARMSTGC, ["harmonic"], "targetNumSteps", 3),
    ("harmonicsched.targetNumSteps", HARMSCHED, ["harmonic"], "targetNumSteps", 3),
    ("wallsdec.targetNumSteps", WALLSDEC, ["harmonicwalls"], "targetNumSteps", 3),
    ("linearstg.targetNumSteps", LINSTG, ["linear"], "targetNumSteps", 3),
    ("histrestr.width", HRES, ["histogramrestraint"], "width", 3),
    ("histrestr.lowerBoundary", HRES, ["histogramrestraint"], "lowerBoundary", 3),
    ("histrestr.upperBoundary", HRES, ["histogramrestraint"], "upperBoundary", 3),
    ("grid.width", HISTG, ["histogram", "histogramgrid"], "width", 3),
    ("grid.lowerBoundary", HISTG, ["histogram", "histogramgrid"], "lowerBoundary", 3),
    ("grid.upperBoundary", HISTG, ["histogram", "histogramgrid"], "upperBoundary", 3),
    ("opes.newHillFrequency", OPES, ["opes_metad"], "newHillFrequency", 3),
    ("opesad.newHillFrequency", OPESAD, ["opes_metad"], "newHillFrequency", 3),
    ("opesad.adaptiveSigmaStride", OPESAD, ["opes_metad"], "adaptiveSigmaStride", 3),
    ("opes.pmfHistoryFrequency", OPESPMF, ["opes_metad"], "pmfHistoryFrequency", 3),
    ("opes.printTrajectoryFrequency", OPES, ["opes_metad"], "printTrajectoryFrequency", 3),
    ("colvar.scriptedFunctionVectorSize", SCRIPTED, ["colvar"], "scriptedFunctionVectorSize", 3),
    ("opesrep.sharedFreq", OPESREP, ["opes_metad"], "sharedFreq", 3),
    ("opesreprof0.sharedFreq", OPESREP.replace("  sharedFreq 2\n", ""), ["opes_metad"], "sharedFreq", 0),
    ("nnet.output_component", NNET, ["colvar", "neuralnetwork"], "output_component", 3, NNET_FILES),
]

BY_ID = dict((e[0], e) for e in ENTRIES)

# the base (surviving) objects defined before the configuration under test, and their reference behaviour
BASE = ("colvar {\n  name zz0\n  distanceZ {\n    main { atomNumbers 4 }\n    ref { dummyAtom (0,0,0) }\n    axis (0,0,1)\n  }\n}\n"
        "harmonic {\n  name hh0\n  colvars zz0\n  centers 0.0\n  forceConstant 2.0\n}\n")

# z coordinates of the atoms at the successive steps (dyadic; inside [0,4) mostly, some outside)
ZS = [(1.0, 1.5, 2.0, 0.5), (1.25, 1.5, 2.5, 0.75), (2.75, 0.5, 2.0, 1.0), (3.5, 1.0, 1.0, -0.5),
      (4.5, 2.0, 3.0, 0.25), (-0.5, 2.5, 3.5, 1.5), (1.75, 3.0, 0.5, 2.0), (2.0, 3.5, 1.5, 0.5)]


def scenario(conf, restartfreq=3, nsteps=8, base=True, log=None, temperature=300, base2=False, late=0):
    """late = k > 0: the configuration under test is supplied after k steps (run-time `cv config`)"""
    S = ["natoms 4", "prefix out", "restartfreq %d" % restartfreq, "temperature %g" % temperature, "new"]
    if log:
        S.append("log " + log)
    for a in range(4):
        S.append("pos %d %g %g %g" % (a + 1, 0.25 * a, 0.5 * a, ZS[0][a]))
    if base:
        S += ["config EOF", BASE + (BASE2 if base2 else "") + "EOF", "objs"]
    if conf is not None and not late:
        S += ["config EOF", conf.rstrip("\n"), "EOF", "objs"]
    for k in range(nsteps):
        if conf is not None and late and k == late:
            S += ["config EOF", conf.rstrip("\n"), "EOF", "objs"]
        for a in range(4):
            S.append("pos %d %g %g %g" % (a + 1, 0.25 * a, 0.5 * a, ZS[k % len(ZS)][a]))
        S.append("step")
        if k == 4:
            S.append("save text mid.state")
            S.append("save binary mid.bin.state")
    S += ["postrun", "objs"]
    return "\n".join(S) + "\n"


# ------------------------------------------------------------------------------------------------
# how each entry is presented to the extracted model (props/C10/driver.ml): kind, base fields, varied field
# ------------------------------------------------------------------------------------------------
_R = {"rof": "3"}
MODEL = {
    "module.colvarsTrajFrequency": ("module", dict(_R, engtraj="1"), "traj"),
    "module.colvarsRestartFrequency": ("module", dict(_R, engtraj="1"), "restart"),
    "opes.colvarsRestartFrequency": ("opesmod", dict(_R, engtraj="1", tf="1", pace="2"), "restart"),
    "colvar.timeStepFactor": ("colvar", dict(_R, tsf="2"), "tsf"),
    "colvar.width": ("cvgrid", dict(lower="0", upper="4", width="0.5"), "width"),
    "colvar.lowerBoundary": ("cvgrid", dict(lower="0", upper="4", width="0.5"), "lower"),
    "colvar.upperBoundary": ("cvgrid", dict(lower="0", upper="4", width="0.5"), "upper"),
    "colvar.runAveStride": ("colvar", dict(_R, runave="on", ralen="3", rastride="1"), "rastride"),
    "colvar.runAveLength": ("colvar", dict(_R, runave="on", ralen="3", rastride="1"), "ralen"),
    "colvar.corrFuncStride": ("colvar", dict(_R, corr="on", cflen="2", cfstride="1", cfoff="0"), "cfstride"),
    "colvar.corrFuncLength": ("colvar", dict(_R, corr="on", cflen="2", cfstride="1", cfoff="0"), "cflen"),
    "colvar.corrFuncOffset": ("colvar", dict(_R, corr="on", cflen="2", cfstride="1", cfoff="0"), "cfoff"),
    "colvaroff1.corrFuncLength": ("colvar", dict(_R, corr="on", cflen="2", cfstride="1", cfoff="1"), "cflen"),
    "colvarrof0.corrFuncStride": ("colvar", dict(rof="0", corr="on", cflen="2", cfstride="1", cfoff="0"), "cfstride"),
    "coordnum.pairListFrequency": ("coordnum", dict(tol="on", freq="2"), "freq"),
    "bias.timeStepFactor": ("bias", dict(_R, btsf="2"), "btsf"),
    "bias.outputFreq": ("bias", dict(_R, outfreq="2"), "outfreq"),
    "meta.newHillFrequency": ("meta", dict(_R, newhill="2"), "newhill"),
    "meta.gridsUpdateFrequency": ("meta", dict(_R, newhill="2"), "gridsfreq"),
    "metanogrid.newHillFrequency": ("meta", dict(_R, newhill="2", usegrids="off"), "newhill"),
    "abf.fullSamples": ("abf", dict(_R, outfreq="2", full="2"), "full"),
    "abf.minSamples": ("abf", dict(_R, outfreq="2", full="2"), "min"),
    "abf.historyFreq": ("abf", dict(_R, outfreq="2", full="2", hist="2"), "hist"),
    "abf.outputFreq": ("abf", dict(_R, outfreq="2", full="2", hist="2"), "outfreq"),
    "harmonic.targetNumSteps": ("moving", dict(_R, moving="on", nsteps="4"), "nsteps"),
    "harmonic.targetNumStages": ("moving", dict(_R, moving="on", nsteps="2", nstages="2"), "nstages"),
    "harmonicstgk.targetNumSteps": ("moving", dict(_R, moving="on", nsteps="2", nstages="2"), "nsteps"),
    "harmonicstgc.targetNumSteps": ("moving", dict(_R, moving="on", nsteps="2", nstages="2"), "nsteps"),
    "harmonicsched.targetNumSteps": ("moving", dict(_R, moving="on", nsteps="2", nstages="2"), "nsteps"),
    "wallsdec.targetNumSteps": ("moving", dict(_R, moving="on", nsteps="2", nstages="2"), "nsteps"),
    "linearstg.targetNumSteps": ("moving", dict(_R, moving="on", nsteps="2", nstages="2"), "nsteps"),
    "histrestr.width": ("histrestr", dict(lower="0.0", upper="8.0", width="1.0"), "width"),
    "histrestr.lowerBoundary": ("histrestr", dict(lower="0.0", upper="8.0", width="1.0"), "lower"),
    "histrestr.upperBoundary": ("histrestr", dict(lower="0.0", upper="8.0", width="1.0"), "upper"),
    "grid.width": ("gridkw", dict(lower="0", upper="4", width="0.5"), "width"),
    "grid.lowerBoundary": ("gridkw", dict(lower="0", upper="4", width="0.5"), "lower"),
    "grid.upperBoundary": ("gridkw", dict(lower="0", upper="4", width="0.5"), "upper"),
    "opes.newHillFrequency": ("opes", dict(_R, tf="1", pace="2", rof2="3"), "pace"),
    "opesad.newHillFrequency": ("opes", dict(_R, tf="1", pace="2", rof2="3", adaptive="on", adstride="4"), "pace"),
    "opesad.adaptiveSigmaStride": ("opes", dict(_R, tf="1", pace="2", rof2="3", adaptive="on", adstride="4"), "adstride"),
    "opes.pmfHistoryFrequency": ("opes", dict(_R, tf="1", pace="2", rof2="3", pmf="on", pmfhist="2"), "pmfhist"),
    "opes.printTrajectoryFrequency": ("opes", dict(_R, tf="1", pace="2", rof2="3"), "trajfreq"),
    # (the simulator has no scripting: an accepted scripted function reports an error at every step, which is not a death)
    "colvar.scriptedFunctionVectorSize": ("scripted", dict(size="3"), "size"),
    "opesrep.sharedFreq": ("opes", dict(_R, tf="1", pace="2", rof2="3", replicas="on", nlist="on", shared="2"), "shared"),
    "opesreprof0.sharedFreq": ("opes", dict(rof="0", tf="1", pace="2", rof2="0", replicas="on", nlist="on"), "shared"),
    # two output nodes: the model of this entry is the bound itself (python, see check.py)
    "nnet.output_component": ("nnet", dict(index="1", outputs="2"), "index"),
}
ENTRIES = [e for e in ENTRIES if e[0] in MODEL]
BY_ID = dict((e[0], e) for e in ENTRIES)

# (entry id -> value classes) whose outcome depends on how much memory the host grants, or on the rounding of a double
# that the exact rationals of the model do not have (8 - 1e-300 is 8.0 in binary64: 8 bins, 7 in the model): skipped
# and counted as boundary-ambiguous
MEMORY_SENSITIVE = {"histrestr.lowerBoundary": {"tiny-real"}}

# second base variable with a grid (atom 3), used by the roll-back scenarios
BASE2 = cv("g0", 3, GRIDCV, "    oneSiteTotalForce on\n")

BASE104 = ("colvar {\n  name zz0\n  distanceZ {\n    main { atomNumbers 1 }\n    ref { dummyAtom (0,0,0) }\n    axis (0,0,1)\n  }\n}\n"
           "harmonic {\n  name hh0\n  colvars zz0\n  centers 0.0\n  forceConstant 2.0\n}\n")


def hist_grid_config(dims):
    """histogram with a custom grid on len(dims) exact variables (atoms 1..3 reused cyclically)"""
    names = ["q%d" % i for i in range(len(dims))]
    s = ""
    for i, n in enumerate(names):
        s += cv(n, 1 + i % 3, GRIDCV)
    s += ("histogram {\n  name h\n  colvars %s\n  outputFreq 2\n  histogramGrid {\n    width %s\n    lowerBoundary %s\n    upperBoundary %s\n  }\n}\n"
          % (" ".join(names), " ".join(d[2] for d in dims), " ".join(d[0] for d in dims), " ".join(d[1] for d in dims)))
    return s


# ------------------------------------------------------------------------------------------------
# structural cases of the property text (empty or overlapping groups, mismatched list lengths, non-existent atoms or
# files, multiple-walker keywords, remaining numeric keywords): (label, configuration, expected verdict or None)
# ------------------------------------------------------------------------------------------------
def _grp(body, cvc="distanceZ", extra="    ref { dummyAtom (0,0,0) }\n    axis (0,0,1)\n", key="main"):
    return "colvar {\n  name s\n  %s {\n    %s {\n%s    }\n%s  }\n}\n" % (cvc, key, body, extra)

_DIST = lambda g1, g2: "colvar {\n  name s\n  distance {\n    group1 { %s }\n    group2 { %s }\n  }\n}\n" % (g1, g2)
_OPESK = lambda kv: cv("x", 1, GRIDCV) + "opes_metad {\n  name o\n  colvars x\n  newHillFrequency 2\n  barrier 10\n  gaussianSigma 0.5\n  %s\n}\n" % kv
_ABFK = lambda kv: cv("x", 1, GRIDCV, "    oneSiteTotalForce on\n") + "abf {\n  name a\n  colvars x\n  fullSamples 2\n  %s\n}\n" % kv
_METAK = lambda kv: cv("x", 1, GRIDCV) + "metadynamics {\n  name m\n  colvars x\n  hillWeight 0.1\n  hillWidth 2\n  newHillFrequency 2\n  %s\n}\n" % kv
_HARMK = lambda kv: cv("x", 1) + "harmonic {\n  name r\n  colvars x\n  %s\n}\n" % kv

STRUCTURAL = [
    ("group:huge-range", _grp("      atomNumbersRange 1-2147483647\n"), "reject"),
    ("group:reversed-range", _grp("      atomNumbersRange 3-1\n"), "reject"),
    ("group:negative-range", _grp("      atomNumbersRange -5-2\n"), "reject"),
    ("group:empty-numbers", _grp("      atomNumbers\n"), "reject"),
    ("group:empty-block", "colvar {\n  name s\n  distanceZ {\n    main { }\n    ref { dummyAtom (0,0,0) }\n    axis (0,0,1)\n  }\n}\n", "reject"),
    ("group:missing", "colvar {\n  name s\n  distanceZ {\n    ref { dummyAtom (0,0,0) }\n    axis (0,0,1)\n  }\n}\n", "reject"),
    ("group:duplicates", _grp("      atomNumbers 1 1 1\n"), None),
    ("group:nonexistent-atom", _grp("      atomNumbers 1000\n"), "reject"),
    ("group:atom-zero", _grp("      atomNumbers 0\n"), "reject"),
    ("group:no-such-index-group", _grp("      indexGroup nosuch\n"), "reject"),
    ("group:no-such-atoms-file", _grp("      atomsFile nosuch.pdb\n"), "reject"),
    ("group:overlapping", _DIST("atomNumbers 1 2", "atomNumbers 2 3"), None),
    ("group:identical", _DIST("atomNumbers 1", "atomNumbers 1"), None),
    ("file:no-such-index-file", "indexFile nosuch.ndx\n" + cv("s", 1), "reject"),
    ("file:no-such-refpositions", "colvar {\n  name s\n  rmsd {\n    atoms { atomNumbers 1 2 3 }\n    refPositionsFile nosuch.xyz\n  }\n}\n", "reject"),
    ("file:refpositions-wrong-count", "colvar {\n  name s\n  rmsd {\n    atoms { atomNumbers 1 2 3 }\n    refPositions (0,0,0) (1,1,1)\n  }\n}\n", "reject"),
    ("file:abf-inputprefix", _ABFK("inputPrefix nosuch"), "reject"),
    ("file:histrestr-refhistogramfile", HRES.replace("  refHistogram 0.125 0.125 0.125 0.125 0.125 0.125 0.125 0.125\n", "  refHistogramFile nosuch.dat\n"), "reject"),
    ("file:ebmeta-targetdist", _METAK("ebMeta on\n  targetDistFile nosuch.dat"), "reject"),
    ("list:too-many-centers", _HARMK("centers 1 2\n  forceConstant 1"), "reject"),
    ("list:no-centers", _HARMK("forceConstant 1"), "reject"),
    ("list:unknown-colvar", "harmonic {\n  name r\n  colvars nosuch\n  centers 1\n}\n", "reject"),
    ("list:no-colvars", "harmonic {\n  name r\n  centers 1\n}\n", "reject"),
    ("list:walls-mismatch", cv("x", 1) + "harmonicWalls {\n  name w\n  colvars x\n  lowerWalls 1 2\n  upperWalls 3\n}\n", "reject"),
    ("list:no-walls", cv("x", 1) + "harmonicWalls {\n  name w\n  colvars x\n}\n", "reject"),
    ("value:negative-force-constant", _HARMK("centers 1\n  forceConstant -1"), None),
    ("value:target-centers-and-k", _HARMK("centers 1\n  forceConstant 1\n  targetCenters 2\n  targetForceConstant 3\n  targetNumSteps 4"), "reject"),
    ("walkers:no-registry", _METAK("multipleReplicas on\n  replicaID a"), "reject"),
    ("walkers:update-frequency-0", _METAK("multipleReplicas on\n  replicaID a\n  replicasRegistry reg.txt\n  replicaUpdateFrequency 0"), "reject"),
    ("walkers:no-replica-id", _METAK("multipleReplicas on\n  replicasRegistry reg.txt\n  replicaUpdateFrequency 2"), "reject"),
    ("walkers:abf-shared-freq", _ABFK("outputFreq 2\n  shared on\n  sharedFreq 3"), "reject"),
    ("walkers:abf-shared-freq-0", _ABFK("outputFreq 2\n  shared on\n  sharedFreq 0"), None),
    ("abf:max-force-negative", _ABFK("maxForce -1"), "reject"),
    ("abf:integrate-iterations-negative", _ABFK("integrate on\n  integrateMaxIterations -1"), None),
    ("abf:integrate-tol-0", _ABFK("integrate on\n  integrateTol 0"), None),
    ("abf:pabf-freq-negative", _ABFK("pABFintegrateFreq -1"), None),
    ("opes:barrier-negative", _OPESK("barrier -1"), "reject"),
    ("opes:epsilon-0", _OPESK("epsilon 0"), "reject"),
    ("opes:cutoff-0", _OPESK("kernelCutoff 0"), "reject"),
    ("opes:compression-negative", _OPESK("compressionThreshold -1"), "reject"),
    ("opes:biasfactor-small", _OPESK("biasfactor 0.5"), "reject"),
    ("opes:biasfactor-word", _OPESK("biasfactor abc"), "reject"),
    ("opes:nlist-params", _OPESK("neighborList on\n  neighborListParameters 1 1"), "reject"),
    ("opes:sigma-0", _OPESK("gaussianSigma 0"), None),
    ("opes:sigma-min-too-large", _OPESK("gaussianSigmaMin 5"), "reject"),
    ("meta:bias-temperature-missing", _METAK("wellTempered on"), "reject"),
    ("meta:bias-temperature-0", _METAK("wellTempered on\n  biasTemperature 0"), None),
    ("meta:hill-weight-negative", _METAK("hillWeight -1"), "reject"),
    ("colvar:tsf-on-variable-0", cv("x", 1, "  timeStepFactor 0\n") + "harmonic {\n  name r\n  colvars x\n  centers 1\n  forceConstant 1\n}\n", None),
    ("colvar:extended-no-fluctuation", cv("x", 1, "  extendedLagrangian on\n"), "reject"),
    ("colvar:extended-time-constant-0", cv("x", 1, "  extendedLagrangian on\n  extendedFluctuation 0.1\n  extendedTimeConstant 0\n"), "reject"),
    ("colvar:extended-damping-negative", cv("x", 1, "  extendedLagrangian on\n  extendedFluctuation 0.1\n  extendedLangevinDamping -1\n"), "reject"),
    ("colvar:period-negative", cv("x", 1, "", "    period -1\n"), None),
    ("colvar:duplicate-name", cv("zz0", 1), "reject"),
    ("group:hbond-nonexistent-atom", "colvar {\n  name s\n  hBond {\n    acceptor 1000\n    donor 2\n  }\n}\n", "reject"),
    ("group:residue-range-huge", "colvar {\n  name s\n  alpha {\n    residueRange 1-2147483647\n    psfSegID MAIN\n  }\n}\n", "reject"),
    ("group:residue-range-huge-dihedpc", "colvar {\n  name s\n  dihedralPC {\n    residueRange 1-2147483647\n    psfSegID MAIN\n    vector 1 1 1 1\n  }\n}\n", "reject"),
    ("group:residue-range-reversed", "colvar {\n  name s\n  alpha {\n    residueRange 9-1\n    psfSegID MAIN\n  }\n}\n", "reject"),
    ("walkers:abf-integrate-off-shared", _ABFK("integrate off\n  shared on\n  outputFreq 2"), None),
    ("alloc:runAveLength-2^62", cv("x", 1, "  runAve on\n  runAveLength 4611686018427387904\n  runAveStride 1\n"), "accept"),
    ("alloc:abf-historyFreq-2^62", _ABFK("outputFreq 2\n  historyFreq 4611686018427387904"), "accept"),
    ("alloc:meta-hillWidth-tiny", _METAK("hillWidth 1e-300").replace("  hillWidth 2\n", ""), "accept"),
    ("alloc:meta-grid-tiny-width", cv("x", 1, "  width 1e-9\n  lowerBoundary 0\n  upperBoundary 4\n") + "metadynamics {\n  name m\n  colvars x\n  hillWeight 0.1\n  hillWidth 2\n  newHillFrequency 2\n}\n", "reject"),
    ("alloc:abf-grid-1e9-bins", cv("x", 1, "  width 1\n  lowerBoundary 0\n  upperBoundary 1000000000\n", "    oneSiteTotalForce on\n") + "abf {\n  name a\n  colvars x\n  fullSamples 2\n}\n", "reject"),
    ("alloc:histogram-gather-tiny-width", "colvar {\n  name d\n  distancePairs {\n    group1 { atomNumbers 1 2 }\n    group2 { atomNumbers 3 4 }\n  }\n}\nhistogram {\n  name h\n  colvars d\n  gatherVectorColvars on\n  histogramGrid {\n    width 1e-9\n    lowerBoundary 0\n    upperBoundary 8\n  }\n}\n", "reject"),
    ("alloc:histogram-gather-weights-length", "colvar {\n  name d\n  distancePairs {\n    group1 { atomNumbers 1 2 }\n    group2 { atomNumbers 3 4 }\n  }\n}\nhistogram {\n  name h\n  colvars d\n  gatherVectorColvars on\n  weights 1 1\n  histogramGrid {\n    width 1\n    lowerBoundary 0\n    upperBoundary 8\n  }\n}\n", "reject"),
    ("group:hbond-valid", "colvar {\n  name s\n  hBond {\n    acceptor 1\n    donor 2\n  }\n}\n", "accept"),
]


# ------------------------------------------------------------------------------------------------
# vector-valued (per-variable) keywords on two variables: (label, configuration with {V}, presized, element check)
# ------------------------------------------------------------------------------------------------
_XY = cv("x", 1, GRIDCV, "    oneSiteTotalForce on\n") + cv("y", 2, GRIDCV, "    oneSiteTotalForce on\n")
VECTORS = [
    ("harmonic.centers", _XY + "harmonic {\n  name r\n  colvars x y\n  centers {V}\n  forceConstant 1.0\n}\n", True, "any"),
    ("harmonic.targetCenters", _XY + "harmonic {\n  name r\n  colvars x y\n  centers 1 1\n  forceConstant 1.0\n  targetCenters {V}\n  targetNumSteps 4\n}\n", False, "any"),
    ("abf.maxForce", _XY + "abf {\n  name a\n  colvars x y\n  fullSamples 2\n  maxForce {V}\n}\n", False, "nonneg"),
    ("meta.gaussianSigmas", _XY + "metadynamics {\n  name m\n  colvars x y\n  hillWeight 0.1\n  gaussianSigmas {V}\n  newHillFrequency 2\n}\n", False, "pos"),
    ("opes.gaussianSigma", _XY + "opes_metad {\n  name o\n  colvars x y\n  newHillFrequency 2\n  barrier 10\n  gaussianSigma {V}\n}\n", True, "pos"),
    ("walls.upperWalls", _XY + "harmonicWalls {\n  name w\n  colvars x y\n  upperWalls {V}\n  forceConstant 1.0\n}\n", False, "any"),
]
# three variables, the odd element in the middle / at the end / one too many or too few
_XYZ = _XY + cv("z", 3, GRIDCV, "    oneSiteTotalForce on\n")
VECTORS3 = [(l + "/3", t.replace(_XY, _XYZ).replace("colvars x y", "colvars x y z").replace("centers 1 1\n", "centers 1 1 1\n"), p, e) for l, t, p, e in VECTORS]
VECTOR3_VALUES = ["1 2 3", "1 x 3", "1 2 x", "1 2", "1 2 3 4", "1 nan 3", "1 -1 3", "1 2 -1", "0.5 0.25 0.125", "1", "1 2 3abc"]
VECTOR_VALUES = ["0 1", "1 0", "1", "1 2", "1 2 3", "1 x", "x 1", "nan 2", "", "0.5 0.25", "1 2abc", "1e300 1", "3 1e-300"]


# ------------------------------------------------------------------------------------------------
# Round 4: validation decision per object kind.  One entry = (kind, driver args, render(params) -> configuration,
# base scalars, base lists, base flags, keywords to vary).  The configuration is rendered from the same parameters
# that are sent to the extracted model.
# ------------------------------------------------------------------------------------------------
def _kv(d, ind="  "):
    return "".join("%s%s %s\n" % (ind, k, v) for k, v in d.items())

def _render_colvarx(s, l, f):
    return cv("x", 1, _kv(s) + _kv({k: v for k, v in f.items()}))

def _render_walls(s, l, f):
    return cv("x", 1) + cv("y", 2) + "harmonicWalls {\n  name w\n  colvars x y\n" + _kv(s) + _kv({k: " ".join(v) for k, v in l.items()}) + _kv(f) + "}\n"

def _render_opesx(s, l, f):
    return cv("x", 1, GRIDCV) + "opes_metad {\n  name o\n  colvars x\n  gaussianSigma 0.5\n" + _kv(s) + _kv(f) + "}\n"

def _render_metax(s, l, f):
    return (cv("x", 1, GRIDCV) + cv("y", 2, GRIDCV) + "metadynamics {\n  name m\n  colvars x y\n" + _kv(s) +
            _kv({k: " ".join(v) for k, v in l.items()}) + _kv(f) + "}\n")

def _render_abfshared(s, l, f):
    return cv("x", 1, GRIDCV, "    oneSiteTotalForce on\n") + "abf {\n  name a\n  colvars x\n  fullSamples 2\n" + _kv(s) + _kv(f) + "}\n"

def _render_alb(s, l, f):
    return cv("x", 1) + cv("y", 2) + "alb {\n  name b\n  colvars x y\n" + _kv(s) + _kv({k: " ".join(v) for k, v in l.items()}) + _kv(f) + "}\n"

def _render_kmoving(s, l, f):
    return cv("x", 1) + "harmonic {\n  name r\n  colvars x\n  centers 1.0\n" + _kv(s) + _kv({k: " ".join(v) for k, v in l.items()}) + _kv(f) + "}\n"

VALIDATE = [
    ("colvarx", {"temp": "300"}, _render_colvarx,
     {"width": "0.5", "lowerBoundary": "0", "upperBoundary": "4", "timeStepFactor": "1"}, {}, {}, None),
    ("colvarx", {"temp": "300"}, _render_colvarx,
     {"width": "0.5", "lowerBoundary": "0", "upperBoundary": "4", "extendedFluctuation": "0.25", "extendedTimeConstant": "100",
      "extendedTemp": "300", "extendedLangevinDamping": "1"}, {}, {"extendedLagrangian": "on"}, None),
    ("colvarx", {"temp": "300"}, _render_colvarx,
     {"width": "0.5", "lowerBoundary": "0", "upperBoundary": "4"}, {}, {"expandBoundaries": "on", "hardLowerBoundary": "on", "hardUpperBoundary": "on"}, ["f"]),
    ("walls", {"n": "2"}, _render_walls, {"forceConstant": "2.0"}, {"lowerWalls": ["0", "0"], "upperWalls": ["3", "3"]}, {}, None),
    ("walls", {"n": "2"}, _render_walls, {"lowerWallConstant": "2.0", "upperWallConstant": "3.0"}, {"lowerWalls": ["0", "0"], "upperWalls": ["3", "3"]}, {}, None),
    ("walls", {"n": "2"}, _render_walls, {"forceConstant": "2.0"}, {"upperWalls": ["3", "3"]}, {}, None),
    ("opesx", {"kbt": "0.5961573", "bfinf": "0"}, _render_opesx,
     {"newHillFrequency": "2", "barrier": "10", "biasfactor": "5", "epsilon": "0.001", "kernelCutoff": "4", "compressionThreshold": "1"}, {}, {}, None),
    ("metax", {"n": "2"}, _render_metax, {"hillWeight": "0.1", "hillWidth": "2", "newHillFrequency": "2"}, {}, {}, None),
    ("metax", {"n": "2"}, _render_metax, {"hillWeight": "0.1", "newHillFrequency": "2", "biasTemperature": "1000"}, {"gaussianSigmas": ["0.5", "0.5"]}, {"wellTempered": "on"}, None),
    ("abfshared", {"rof": "3"}, _render_abfshared, {"outputFreq": "4", "sharedFreq": "2"}, {}, {"shared": "on"}, None),
    ("alb", {"n": "2"}, _render_alb, {"UpdateFrequency": "8"}, {"centers": ["1", "1"]}, {}, None),
    ("kmoving", {"rof": "3"}, _render_kmoving, {"forceConstant": "2.0", "targetForceConstant": "4.0", "targetNumSteps": "4", "targetNumStages": "2"}, {}, {}, None),
    ("kmoving", {"rof": "3"}, _render_kmoving, {"forceConstant": "2.0", "targetForceConstant": "4.0", "targetNumSteps": "4"}, {"lambdaSchedule": ["0", "0.5", "1"]}, {}, None),
    ("kmoving", {"rof": "3"}, _render_kmoving, {"forceConstant": "2.0", "targetNumSteps": "4", "targetNumStages": "2"}, {}, {"decoupling": "on"}, None),
    ("kmoving", {"rof": "3"}, _render_kmoving, {"forceConstant": "2.0", "targetForceConstant": "4.0", "targetNumSteps": "4", "lambdaExponent": "2"}, {}, {}, None),
    ("kmoving", {"rof": "3"}, _render_kmoving, {"forceConstant": "2.0", "lambdaExponent": "2"}, {}, {}, None),
]
VALIDATE_VALUES = ["0", "-1", "1", "2", "3", "0.5", "-0.5", "2147483647", "1e300", "1e-300", "nan", "inf", "-", "4294967296"]


# ------------------------------------------------------------------------------------------------
# Round 5: explicit validation cases (model line, configuration, auxiliary files)
# ------------------------------------------------------------------------------------------------
def _opessn(sig, nl, nlp, adaptive=False):
    conf = cv("x", 1, GRIDCV) + "opes_metad {\n  name o\n  colvars x\n  newHillFrequency 2\n  barrier 10\n"
    line = "validate kind=opessn n=1"
    if sig is not None:
        conf += "  gaussianSigma %s\n" % sig
        line += " l:gaussianSigma=%s" % ",".join(sig.split())
    if adaptive:
        conf += "  adaptiveSigma on\n  adaptiveSigmaStride 4\n"
        line += " f:adaptiveSigma=on"
    if nl:
        conf += "  neighborList on\n"
        line += " f:neighborList=on"
    if nlp is not None:
        conf += "  neighborListParameters %s\n" % nlp
        line += " l:neighborListParameters=%s" % ",".join(nlp.split())
    return (line, conf + "}\n", {})

def _rmsd(inline, filepos):
    conf = "colvar {\n  name s\n  rmsd {\n    atoms { atomNumbers 1 2 3 }\n"
    line = "validate kind=rmsd g=3"
    files = {}
    if inline is not None:
        conf += "    refPositions %s\n" % " ".join("(%d,0,%d)" % (i, i % 2) for i in range(inline))
        line += " inline=%d" % inline
    if filepos == "missing":
        conf += "    refPositionsFile nosuch.xyz\n"
        line += " file=missing"
    elif filepos is not None:
        conf += "    refPositionsFile r.xyz\n"
        line += " file=%d" % filepos
        files["r.xyz"] = "%d\nc\n" % filepos + "".join("C %d 0 %d\n" % (i, i % 2) for i in range(filepos))
    return (line, conf + "  }\n}\n", files)

def _ebmeta(vals, minval=None, expand=False):
    conf = (cv("x", 1, "  width 1\n  lowerBoundary 0\n  upperBoundary 4\n" + ("  expandBoundaries on\n" if expand else "")) +
            "metadynamics {\n  name m\n  colvars x\n  hillWeight 0.1\n  hillWidth 2\n  newHillFrequency 2\n  ebMeta on\n")
    line = "validate kind=ebmeta expand=%d" % (1 if expand else 0)
    files = {}
    if vals is None:
        conf += "  targetDistFile nosuch.dat\n"
        line += " vals=-"
    else:
        conf += "  targetDistFile t.dat\n"
        files["t.dat"] = "# 1\n#  0 1 4 0\n\n" + "".join("  %g  %s\n" % (i + 0.5, v) for i, v in enumerate(vals))
        line += " vals=%s" % ",".join(vals)
    if minval is not None:
        conf += "  targetDistMinVal %s\n" % minval
        line += " s:targetDistMinVal=%s" % minval
    return (line, conf + "}\n", files)

def _walls_scaled(width, lo, up):
    """harmonicWalls on one variable of the given width: the walls coincide when closer than 1e-6 widths"""
    conf = cv("x", 1, "  width %s\n" % width) + "harmonicWalls {\n  name w\n  colvars x\n  lowerWalls %s\n  upperWalls %s\n  forceConstant 1.0\n}\n" % (lo, up)
    return ("validate kind=walls n=1 w=%s s:forceConstant=1.0 l:lowerWalls=%s l:upperWalls=%s" % (width, lo, up), conf, {})

VALIDATE2 = (
    [_walls_scaled(w, lo, up) for w, lo, up in (("1e-8", "0", "2e-9"), ("75e-10", "-19e-10", "75e-10"), ("1", "0", "2e-9"), ("1", "0", "4e-6"),
                                                 ("1", "0", "25e-8"), ("1e6", "0", "0.5"), ("1e6", "0", "4"), ("1e8", "0", "50"), ("1e8", "0", "400"),
                                                 ("1e-8", "0", "25e-16"), ("1e-8", "0", "4e-14"), ("1e-8", "1", "1.000000002"), ("1e8", "-200", "200"),
                                                 ("1e-8", "0", "-2e-9"), ("1e6", "3", "3"))] +
    [_opessn(s_, False, None) for s_ in ("0.5", "0", "-1", "0.001", "1000", "x", "1 2", None)] +
    [_opessn(None, False, None, adaptive=True), _opessn("0", False, None, adaptive=True)] +
    [_opessn("0.5", True, p) for p in (None, "3 0.5", "1 0.5", "1 0.1", "1.0001 0.1", "0.5 0.5", "3 0", "3 -1", "3 0.6", "3 1.2", "3", "3 0.5 1", "9 0.8", "9 0.9", "1.5 0.3", "1.5 0.35", "x 0.5")] +
    [_opessn("0.5", False, "3 0.5")] +
    [_rmsd(i, f) for i, f in ((3, None), (2, None), (4, None), (0, None), (None, 3), (None, 2), (None, "missing"), (None, None), (3, 3))] +
    [_ebmeta(v, m, x) for v, m, x in ((["1", "2", "3", "4"], None, False), (["0", "0", "0", "0"], None, False), (None, None, False),
                                      (["1", "-2", "3", "4"], None, False), (["0", "2", "3", "4"], None, False), (["0", "2", "3", "4"], "0", False),
                                      (["0", "0", "0", "0"], "0", False), (["1", "2", "3", "4"], "2", False), (["1", "2", "3", "4"], "1", False),
                                      (["1", "2", "3", "4"], "-1", False), (["1", "2", "3", "4"], "0.5", False), (["1", "2", "3", "4"], "nan", False),
                                      (["1", "2", "3", "4"], None, True))]
)

# histogram custom grid on two variables: list lengths of width / boundaries
VECTORS += [
    ("histgrid.width", _XY + "histogram {\n  name h\n  colvars x y\n  histogramGrid {\n    width {V}\n    lowerBoundary 0 0\n    upperBoundary 4 4\n  }\n}\n", True, "pos"),
]


# ------------------------------------------------------------------------------------------------
# valid configurations with schedules on frequencies that are not powers of two (large absolute step numbers)
# ------------------------------------------------------------------------------------------------
BIGSTEP = [
    ("module", "colvarsTrajFrequency 3\ncolvarsRestartFrequency 5\n" + cv("x", 1, GRIDCV)),
    ("colvar-runave-corr", cv("x", 1, GRIDCV + "  runAve on\n  runAveLength 3\n  runAveStride 3\n  corrFunc on\n  corrFuncLength 3\n  corrFuncStride 3\n  corrFuncWithColvar x\n")),
    ("colvar-tsf", cv("x", 1, GRIDCV + "  timeStepFactor 3\n") + "harmonic {\n  name r\n  colvars x\n  centers 1.0\n  forceConstant 2.0\n  timeStepFactor 3\n}\n"),
    ("harmonic-moving", cv("x", 1, GRIDCV) + "harmonic {\n  name r\n  colvars x\n  centers 1.0\n  forceConstant 2.0\n  targetCenters 2.0\n  targetNumSteps 12\n  targetNumStages 3\n  outputFreq 7\n}\n"),
    ("harmonic-moving-work", cv("x", 1, GRIDCV) + "harmonic {\n  name r\n  colvars x\n  centers 1.0\n  forceConstant 2.0\n  targetCenters 2.0\n  targetNumSteps 12\n  outputFreq 7\n  outputAccumulatedWork on\n}\n"),
    ("metadynamics", cv("x", 1, GRIDCV) + "metadynamics {\n  name m\n  colvars x\n  hillWeight 0.1\n  hillWidth 2\n  newHillFrequency 3\n  gridsUpdateFrequency 6\n  outputFreq 5\n}\n"),
    ("abf", cv("x", 1, GRIDCV, "    oneSiteTotalForce on\n") + "abf {\n  name a\n  colvars x\n  fullSamples 2\n  outputFreq 5\n  historyFreq 5\n}\n"),
    ("histogram", cv("x", 1, GRIDCV) + "histogram {\n  name h\n  colvars x\n  outputFreq 7\n}\n"),
    ("opes", cv("x", 1, GRIDCV) + "opes_metad {\n  name o\n  colvars x\n  newHillFrequency 3\n  barrier 10\n  gaussianSigma 0.5\n  outputFreq 5\n}\n"),
    ("alb", cv("x", 1) + "alb {\n  name b\n  colvars x\n  centers 1\n  UpdateFrequency 6\n}\n"),
]
